(* C19 - lemmas and proofs *)
From Coq Require Import String ZArith List Bool QArith Lia ZifyBool.
From HD Require Import Base.Val Base.BitWindow C19_Model.
Import ListNotations.
Open Scope Z_scope.
Ltac Zify.zify_post_hook ::= Z.to_euclidean_division_equations.

(* ====================================================================== *)
(* generic list facts                                                      *)
(* ====================================================================== *)
Lemma flat_map_map' {A B C} (f : B -> list C) (g : A -> B) (l : list A) :
  flat_map f (map g l) = flat_map (fun x => f (g x)) l.
Proof. induction l as [|a l IH]; cbn [map flat_map]; [reflexivity|now rewrite IH]. Qed.

Lemma concat_flat_map {A B} (f : A -> list (list B)) (l : list A) :
  concat (flat_map f l) = flat_map (fun x => concat (f x)) l.
Proof. induction l as [|a l IH]; cbn [flat_map concat]; [reflexivity|]. now rewrite concat_app, IH. Qed.

Lemma flat_map_concat {A B} (f : A -> list B) (ls : list (list A)) :
  flat_map f (concat ls) = concat (map (flat_map f) ls).
Proof. induction ls as [|l ls IH]; cbn [concat map]; [reflexivity|]. now rewrite flat_map_app, IH. Qed.

Lemma zrange_length n : length (zrange n) = Z.to_nat n.
Proof. unfold zrange. now rewrite map_length, seq_length. Qed.

Lemma in_zrange n x : In x (zrange n) <-> 0 <= x < n.
Proof.
  unfold zrange. rewrite in_map_iff. split.
  - intros [k [<- Hk]]. apply in_seq in Hk. lia.
  - intros H. exists (Z.to_nat x). split; [lia|]. apply in_seq. lia.
Qed.

Lemma length_flat_map_const' {A B} (g : A -> list B) (l : list A) n :
  (forall x, length (g x) = n) -> length (flat_map g l) = (length l * n)%nat.
Proof.
  intros H. induction l as [|a l IH]; cbn [flat_map length]; [reflexivity|].
  rewrite app_length, H, IH. lia.
Qed.

Lemma nth_error_flat_map_seq {A} (g : nat -> list A) (len : nat) :
  (forall k, length (g k) = len) ->
  forall n a k o, (k < n)%nat -> (o < len)%nat ->
  nth_error (flat_map g (seq a n)) (k * len + o) = nth_error (g (a + k)%nat) o.
Proof.
  intros Hlen. induction n as [|n IH]; intros a k o Hk Ho; [lia|].
  cbn [seq flat_map]. destruct k as [|k].
  - cbn [Nat.mul Nat.add]. rewrite nth_error_app1 by (rewrite Hlen; exact Ho).
    now rewrite Nat.add_0_r.
  - rewrite nth_error_app2 by (rewrite Hlen; lia).
    rewrite Hlen. replace (S k * len + o - len)%nat with (k * len + o)%nat by lia.
    rewrite IH by lia. f_equal. f_equal. lia.
Qed.

Lemma nth_error_flat_map_zrange {A} (f : Z -> list A) (len : nat) n k o :
  (forall x, length (f x) = len) -> 0 <= k < n -> (o < len)%nat ->
  nth_error (flat_map f (zrange n)) (Z.to_nat k * len + o) = nth_error (f k) o.
Proof.
  intros Hlen Hk Ho. unfold zrange. rewrite flat_map_map'.
  rewrite (nth_error_flat_map_seq (fun x => f (Z.of_nat x)) len) by (auto; lia).
  cbn [Nat.add]. now rewrite Z2Nat.id by lia.
Qed.

Lemma nth_error_map_zrange {A} (f : Z -> A) n k :
  0 <= k < n -> nth_error (map f (zrange n)) (Z.to_nat k) = Some (f k).
Proof.
  intros Hk. unfold zrange. rewrite map_map.
  rewrite nth_error_map, nth_error_nth' with (d := 0%nat) by (rewrite seq_length; lia).
  rewrite seq_nth by lia. cbn [option_map Nat.add]. now rewrite Z2Nat.id by lia.
Qed.

(* ====================================================================== *)
(* little endian words                                                     *)
(* ====================================================================== *)
Lemma le_bytes_length : forall w x, length (le_bytes w x) = w.
Proof. induction w as [|w IH]; intros x; cbn [le_bytes length]; [reflexivity|now rewrite IH]. Qed.

Lemma le_word_bytes : forall w x, 0 <= x < 256 ^ Z.of_nat w -> le_word (le_bytes w x) = x.
Proof.
  induction w as [|w IH]; intros x Hx; cbn [le_bytes le_word].
  - cbn in Hx. lia.
  - rewrite IH.
    + lia.
    + rewrite Nat2Z.inj_succ, Z.pow_succ_r in Hx by lia. lia.
Qed.

Lemma le_bytes_are_bytes : forall w x b, In b (le_bytes w x) -> 0 <= b < 256.
Proof.
  induction w as [|w IH]; intros x b H; cbn [le_bytes] in H; [contradiction|].
  destruct H as [<-|H]; [lia|eauto].
Qed.

Definition fits (w : nat) (ws : list Z) : Prop := forall x, In x ws -> 0 <= x < 256 ^ Z.of_nat w.

Lemma firstn_app_len {A} (l t : list A) n : length l = n -> firstn n (l ++ t) = l.
Proof. intros <-. rewrite firstn_app, Nat.sub_diag, firstn_all. cbn [firstn]. apply app_nil_r. Qed.
Lemma skipn_app_len {A} (l t : list A) n : length l = n -> skipn n (l ++ t) = t.
Proof. intros <-. rewrite skipn_app, Nat.sub_diag, skipn_all. reflexivity. Qed.

Lemma unbytes_bytes : forall w ws rest, fits w ws ->
  unbytes w (length ws) (flat_map (le_bytes w) ws ++ rest) = ws.
Proof.
  intros w ws rest. induction ws as [|x ws IH]; intros Hf; cbn [length unbytes flat_map]; [reflexivity|].
  rewrite <- app_assoc.
  rewrite firstn_app_len by apply le_bytes_length.
  rewrite skipn_app_len by apply le_bytes_length.
  rewrite le_word_bytes by (apply Hf; now left). f_equal.
  apply IH. intros y Hy. apply Hf. now right.
Qed.

Lemma unbytes_bytes' : forall w ws, fits w ws -> unbytes w (length ws) (flat_map (le_bytes w) ws) = ws.
Proof. intros w ws H. rewrite <- (app_nil_r (flat_map _ _)). now apply unbytes_bytes. Qed.

(* ====================================================================== *)
(* stored pixels: frame order and element positions                        *)
(* ====================================================================== *)
Section StoreFacts.
  Variable get : Z -> Z -> Z -> Z -> Z.
  Variables N R C M : Z.
  Notation nR := (Z.to_nat R). Notation nC := (Z.to_nat C). Notation nM := (Z.to_nat M).

  Lemma frame_words_length i j : length (frame_words get R C i j) = (nR * nC)%nat.
  Proof.
    unfold frame_words. rewrite (length_flat_map_const' _ _ nC).
    - now rewrite zrange_length.
    - intros x. now rewrite map_length, zrange_length.
  Qed.

  Lemma frame_words_nth i j r c : 0 <= r < R -> 0 <= c < C ->
    nth_error (frame_words get R C i j) (Z.to_nat (r * C + c)) = Some (get i r c j).
  Proof.
    intros Hr Hc. unfold frame_words.
    replace (Z.to_nat (r * C + c)) with (Z.to_nat r * nC + Z.to_nat c)%nat by nia.
    rewrite nth_error_flat_map_zrange with (len := nC);
      [|intros x; now rewrite map_length, zrange_length|lia|lia].
    now apply (nth_error_map_zrange (fun c => get i r c j)).
  Qed.

  Lemma pm_frames_length : length (pm_frames get N R C M) = (Z.to_nat N * nM)%nat.
  Proof.
    unfold pm_frames. rewrite (length_flat_map_const' _ _ nM).
    - now rewrite zrange_length.
    - intros x. now rewrite map_length, zrange_length.
  Qed.

  Lemma pm_frames_nth i j : 0 <= i < N -> 0 <= j < M ->
    nth_error (pm_frames get N R C M) (Z.to_nat (i * M + j)) = Some (frame_words get R C i j).
  Proof.
    intros Hi Hj. unfold pm_frames.
    replace (Z.to_nat (i * M + j)) with (Z.to_nat i * nM + Z.to_nat j)%nat by nia.
    rewrite nth_error_flat_map_zrange with (len := nM);
      [|intros x; now rewrite map_length, zrange_length|lia|lia].
    now apply (nth_error_map_zrange (fun j => frame_words get R C i j)).
  Qed.

  Lemma pm_frames_all_length f : In f (pm_frames get N R C M) -> length f = (nR * nC)%nat.
  Proof.
    unfold pm_frames. rewrite in_flat_map. intros [i [_ H]]. apply in_map_iff in H.
    destruct H as [j [<- _]]. apply frame_words_length.
  Qed.

  Lemma pm_words_eq : pm_words get N R C M =
    flat_map (fun i => flat_map (fun j => frame_words get R C i j) (zrange M)) (zrange N).
  Proof.
    unfold pm_words, pm_frames. rewrite concat_flat_map. apply flat_map_ext. intros i.
    now rewrite <- flat_map_concat_map.
  Qed.

  Lemma pm_words_length : length (pm_words get N R C M) = (Z.to_nat N * (nM * (nR * nC)))%nat.
  Proof.
    rewrite pm_words_eq. rewrite (length_flat_map_const' _ _ (nM * (nR * nC))).
    - now rewrite zrange_length.
    - intros i. rewrite (length_flat_map_const' _ _ (nR * nC)).
      + now rewrite zrange_length.
      + intros j. apply frame_words_length.
  Qed.

  (* element (i, r, c, j) sits at word offset ((i*M + j)*R + r)*C + c *)
  Lemma pm_words_nth i j r c : 0 <= i < N -> 0 <= j < M -> 0 <= r < R -> 0 <= c < C ->
    nth_error (pm_words get N R C M) (Z.to_nat (((i * M + j) * R + r) * C + c)) = Some (get i r c j).
  Proof.
    intros Hi Hj Hr Hc. rewrite pm_words_eq.
    assert (H1 : 0 <= i * M + j) by nia.
    assert (H2 : 0 <= (i * M + j) * R + r) by nia.
    assert (H3 : 0 <= r * C + c) by nia.
    replace (Z.to_nat (((i * M + j) * R + r) * C + c))
      with (Z.to_nat i * (nM * (nR * nC)) + (Z.to_nat j * (nR * nC) + Z.to_nat (r * C + c)))%nat.
    2:{ apply Nat2Z.inj. rewrite !Nat2Z.inj_add, !Nat2Z.inj_mul, !Z2Nat.id by nia. ring. }
    assert (Hrc : (Z.to_nat (r * C + c) < nR * nC)%nat).
    { apply Nat2Z.inj_lt. rewrite Nat2Z.inj_mul, !Z2Nat.id by lia. nia. }
    assert (Hj' : (Z.to_nat j < nM)%nat) by lia.
    assert (Hjk : (Z.to_nat j * (nR * nC) + Z.to_nat (r * C + c) < nM * (nR * nC))%nat).
    { assert ((Z.to_nat j + 1) * (nR * nC) <= nM * (nR * nC))%nat by (apply Nat.mul_le_mono_r; lia). lia. }
    rewrite nth_error_flat_map_zrange with (len := (nM * (nR * nC))%nat); [| |lia|exact Hjk].
    - rewrite nth_error_flat_map_zrange with (len := (nR * nC)%nat);
        [|intros x; apply frame_words_length|lia|exact Hrc].
      now apply frame_words_nth.
    - intros x. rewrite (length_flat_map_const' _ _ (nR * nC)).
      + now rewrite zrange_length.
      + intros y. apply frame_words_length.
  Qed.
End StoreFacts.

(* ====================================================================== *)
(* reading stored frames back (native layout)                              *)
(* ====================================================================== *)
Section ReadFacts.
  Variable get : Z -> Z -> Z -> Z -> Z.
  Variables N R C M : Z.
  Variable w : nat.
  Hypothesis get_fits : forall i r c j, 0 <= get i r c j < 256 ^ Z.of_nat w.

  Lemma frame_fits i j : fits w (frame_words get R C i j).
  Proof.
    intros x Hx. unfold frame_words in Hx. apply in_flat_map in Hx. destruct Hx as [r [_ Hx]].
    apply in_map_iff in Hx. destruct Hx as [c [<- _]]. apply get_fits.
  Qed.

  Lemma pm_bytes_eq : pm_bytes get N R C M w =
    concat (map (flat_map (le_bytes w)) (pm_frames get N R C M)).
  Proof. unfold pm_bytes, pm_words. apply flat_map_concat. Qed.

  Lemma read_frame_stored k : 0 <= R -> 0 <= C -> 0 < M -> 0 <= k < N * M ->
    read_frame w R C (pm_bytes get N R C M w) k = frame_words get R C (k / M) (k mod M).
  Proof.
    intros HR HC HM Hk. unfold read_frame.
    assert (Hnpx : Z.to_nat (R * C) = (Z.to_nat R * Z.to_nat C)%nat) by (apply Z2Nat.inj_mul; lia).
    rewrite Hnpx. set (npx := (Z.to_nat R * Z.to_nat C)%nat).
    assert (Hi : 0 <= k / M < N) by (split; [apply Z.div_pos; lia|apply Z.div_lt_upper_bound; lia]).
    assert (Hj : 0 <= k mod M < M) by (apply Z.mod_pos_bound; lia).
    assert (Hkk : k = (k / M) * M + k mod M) by (rewrite Z.mul_comm; apply Z.div_mod; lia).
    assert (Hnth : nth_error (pm_frames get N R C M) (Z.to_nat k) = Some (frame_words get R C (k / M) (k mod M))).
    { rewrite Hkk at 1. now apply pm_frames_nth. }
    assert (Hlt : (Z.to_nat k < length (map (flat_map (le_bytes w)) (pm_frames get N R C M)))%nat).
    { rewrite map_length. apply nth_error_Some. rewrite Hnth. discriminate. }
    rewrite pm_bytes_eq. rewrite <- (app_nil_r (concat _)).
    rewrite (concat_frame Z _ (npx * w)%nat (Z.to_nat k) []); [| |exact Hlt].
    - replace (nth (Z.to_nat k) (map (flat_map (le_bytes w)) (pm_frames get N R C M)) [])
        with (flat_map (le_bytes w) (nth (Z.to_nat k) (pm_frames get N R C M) []))
        by (symmetry; apply (map_nth (flat_map (le_bytes w)) (pm_frames get N R C M) [] (Z.to_nat k))).
      rewrite (nth_error_nth _ _ _ Hnth).
      subst npx. rewrite <- (frame_words_length get R C (k / M) (k mod M)).
      apply unbytes_bytes'. apply frame_fits.
    - intros f Hf. apply in_map_iff in Hf. destruct Hf as [g [<- Hg]].
      rewrite (length_flat_map_const' _ _ w) by (intros; apply le_bytes_length).
      rewrite (pm_frames_all_length get N R C M g Hg). reflexivity.
  Qed.
End ReadFacts.

(* image._standardize_frame_index *)
Lemma std_index_number n f k : std_index n f false = Ok k <-> 1 <= f <= n /\ k = f - 1.
Proof.
  unfold std_index. destruct ((f <? 1) || (n <? f)) eqn:E.
  - split; [discriminate|lia].
  - split; [intros H; inversion H; lia|intros [_ ->]; reflexivity].
Qed.
Lemma std_index_number_err n f : std_index n f false = Err "IndexError" <-> f < 1 \/ n < f.
Proof.
  unfold std_index. destruct ((f <? 1) || (n <? f)) eqn:E.
  - split; [lia|reflexivity].
  - split; [discriminate|lia].
Qed.
Lemma std_index_index n f k : std_index n f true = Ok k <-> 0 <= f < n /\ k = f.
Proof.
  unfold std_index. destruct ((f <? 0) || (n <=? f)) eqn:E.
  - split; [discriminate|lia].
  - split; [intros H; inversion H; lia|intros [_ ->]; reflexivity].
Qed.
Lemma std_index_index_err n f : std_index n f true = Err "IndexError" <-> f < 0 \/ n <= f.
Proof.
  unfold std_index. destruct ((f <? 0) || (n <=? f)) eqn:E.
  - split; [lia|reflexivity].
  - split; [discriminate|lia].
Qed.

(* ====================================================================== *)
(* real world value mappings                                               *)
(* ====================================================================== *)
Definition in_range (m : mapping) (x : Z) : bool :=
  match m with
  | MLin _ _ f l => negb (out_of_lin f l x)
  | MLut first lut => negb (out_of_lut first (Z.of_nat (length lut)) x)
  end.
(* the value the mapping assigns to an in-range stored value (no default involved) *)
Definition maps_to (m : mapping) (x : Z) (v : Q) : Prop :=
  match m with
  | MLin s i _ _ => v = (inject_Z x * s + i)%Q
  | MLut first lut => nth_error lut (Z.to_nat (x - first)) = Some v
  end.

Lemma in_range_lin s i f l x : in_range (MLin s i f l) x = true <-> (f <= inject_Z x /\ inject_Z x <= l)%Q.
Proof.
  cbn [in_range]. unfold out_of_lin. rewrite negb_orb, !negb_involutive, andb_true_iff.
  now rewrite !Qle_bool_iff.
Qed.
Lemma in_range_lut first lut x :
  in_range (MLut first lut) x = true <-> first <= x <= first + Z.of_nat (length lut) - 1.
Proof. cbn [in_range]. unfold out_of_lut. lia. Qed.

Lemma existsb_false_forall {A} (p : A -> bool) l : existsb p l = false <-> forall x, In x l -> p x = false.
Proof.
  split.
  - intros H x Hx. destruct (p x) eqn:E; [|reflexivity].
    assert (existsb p l = true) by (apply existsb_exists; eauto). congruence.
  - intros H. destruct (existsb p l) eqn:E; [|reflexivity].
    apply existsb_exists in E. destruct E as [x [Hx Hp]]. rewrite (H x Hx) in Hp. discriminate.
Qed.

Lemma Forall2_map_r {A B} (P : A -> B -> Prop) (f : A -> B) l :
  (forall x, In x l -> P x (f x)) -> Forall2 P l (map f l).
Proof.
  induction l as [|a l IH]; intros H; cbn [map]; constructor.
  - apply H. now left.
  - apply IH. intros x Hx. apply H. now right.
Qed.

(* success: every stored value lies in the mapped range, and each output is the mapped value *)
Lemma apply_mapping_ok m ws : ws <> [] -> (forall x, In x ws -> in_range m x = true) ->
  exists vs, apply_mapping m ws = Ok vs /\ Forall2 (maps_to m) ws vs.
Proof.
  intros Hne Hin. destruct ws as [|w0 ws']; [congruence|].
  destruct m as [s i f l|first lut]; cbn [apply_mapping].
  - assert (E : existsb (out_of_lin f l) (w0 :: ws') = false).
    { apply existsb_false_forall. intros x Hx. specialize (Hin x Hx). cbn [in_range] in Hin.
      now apply negb_true_iff in Hin. }
    rewrite E. eexists. split; [reflexivity|].
    apply Forall2_map_r. intros x _. reflexivity.
  - assert (E : existsb (out_of_lut first (Z.of_nat (length lut))) (w0 :: ws') = false).
    { apply existsb_false_forall. intros x Hx. specialize (Hin x Hx). cbn [in_range] in Hin.
      now apply negb_true_iff in Hin. }
    rewrite E. eexists. split; [reflexivity|].
    apply Forall2_map_r. intros x Hx. cbn [maps_to].
    specialize (Hin x Hx). apply in_range_lut in Hin.
    apply nth_error_nth'. lia.
Qed.

(* refusal: exactly when the frame is empty or some value is outside the range *)
Lemma apply_mapping_err m ws :
  apply_mapping m ws = Err "ValueError" <-> ws = [] \/ exists x, In x ws /\ in_range m x = false.
Proof.
  destruct ws as [|w0 ws']; [cbn; split; [now left|reflexivity]|].
  destruct m as [s i f l|first lut]; cbn [apply_mapping in_range].
  - destruct (existsb (out_of_lin f l) (w0 :: ws')) eqn:E.
    + split; [intros _; right|reflexivity]. apply existsb_exists in E. destruct E as [x [Hx Hp]].
      exists x. split; [exact Hx|]. now rewrite Hp.
    + split; [discriminate|]. intros [H|[x [Hx Hp]]]; [discriminate|].
      apply negb_false_iff in Hp.
      assert (existsb (out_of_lin f l) (w0 :: ws') = true) by (apply existsb_exists; eauto). congruence.
  - destruct (existsb (out_of_lut first (Z.of_nat (length lut))) (w0 :: ws')) eqn:E.
    + split; [intros _; right|reflexivity]. apply existsb_exists in E. destruct E as [x [Hx Hp]].
      exists x. split; [exact Hx|]. now rewrite Hp.
    + split; [discriminate|]. intros [H|[x [Hx Hp]]]; [discriminate|].
      apply negb_false_iff in Hp.
      assert (existsb (out_of_lut first (Z.of_nat (length lut))) (w0 :: ws') = true)
        by (apply existsb_exists; eauto). congruence.
Qed.

(* which mappings a frame consults *)
Lemma frame_maps_shared maps M k : M <= 1 -> frame_maps maps M k = nth 0 maps [].
Proof. intros H. unfold frame_maps. replace (1 <? M) with false by lia. reflexivity. Qed.
Lemma frame_maps_per_frame maps M k : 1 < M ->
  frame_maps maps M k = nth (Z.to_nat (k mod M)) maps [].
Proof. intros H. unfold frame_maps. replace (1 <? M) with true by lia. reflexivity. Qed.

(* batch reading = reading the frames one after the other (first error wins) *)
Lemma get_frames_is_sequential w R C M n bytes maps sel fs ai : fs <> [] ->
  get_frames_rw w R C M n bytes maps sel fs ai =
  res_all (map (fun f => get_frame_rw w R C M n bytes maps sel f ai) fs).
Proof.
  intros Hne. destruct fs as [|f0 fs]; [congruence|]. unfold get_frames_rw.
  destruct (std_index n f0 ai) as [k0|e] eqn:E1; cbn [bind].
  - destruct (select_mapping (frame_maps maps M k0) sel) as [m|e] eqn:E2; cbn [bind]; [reflexivity|].
    cbn [map res_all].
    assert (H : get_frame_rw w R C M n bytes maps sel f0 ai = Err e).
    { unfold get_frame_rw. rewrite E1. cbn [bind]. rewrite E2. reflexivity. }
    now rewrite H.
  - cbn [map res_all].
    assert (H : get_frame_rw w R C M n bytes maps sel f0 ai = Err e).
    { unfold get_frame_rw. rewrite E1. reflexivity. }
    now rewrite H.
Qed.

(* ====================================================================== *)
(* DimensionIndexValues: rank among the distinct sorted position keys      *)
(* ====================================================================== *)
Lemma lex_cmp_eq : forall a b, lex_cmp a b = Eq <-> a = b.
Proof.
  induction a as [|x a IH]; destruct b as [|y b]; cbn [lex_cmp]; try (split; [discriminate|congruence]).
  - split; reflexivity.
  - destruct (x ?= y) eqn:E.
    + apply Z.compare_eq_iff in E. subst y. rewrite IH. split; [now intros ->|now inversion 1].
    + split; [discriminate|]. inversion 1. subst. rewrite Z.compare_refl in E. discriminate.
    + split; [discriminate|]. inversion 1. subst. rewrite Z.compare_refl in E. discriminate.
Qed.

Lemma lex_cmp_antisym : forall a b, lex_cmp b a = CompOpp (lex_cmp a b).
Proof.
  induction a as [|x a IH]; destruct b as [|y b]; cbn [lex_cmp CompOpp]; try reflexivity.
  rewrite (Z.compare_antisym x y). destruct (x ?= y); cbn [CompOpp]; [apply IH|reflexivity|reflexivity].
Qed.

Lemma lex_lt_trans : forall a b c, lex_cmp a b = Lt -> lex_cmp b c = Lt -> lex_cmp a c = Lt.
Proof.
  induction a as [|x a IH]; destruct b as [|y b]; destruct c as [|z c]; cbn [lex_cmp];
    try discriminate; try reflexivity.
  destruct (x ?= y) eqn:E1; destruct (y ?= z) eqn:E2; try discriminate; intros H1 H2.
  - apply Z.compare_eq_iff in E1, E2. subst. rewrite Z.compare_refl. eauto.
  - apply Z.compare_eq_iff in E1. subst. now rewrite E2.
  - apply Z.compare_eq_iff in E2. subst. now rewrite E1.
  - change (x < y) in E1. change (y < z) in E2.
    assert (E : (x ?= z) = Lt) by (change (x < z); lia).
    now rewrite E.
Qed.

Lemma key_eqb_eq a b : key_eqb a b = true <-> a = b.
Proof. unfold key_eqb. rewrite <- lex_cmp_eq. destruct (lex_cmp a b); split; congruence. Qed.
Lemma key_ltb_lt a b : key_ltb a b = true <-> lex_cmp a b = Lt.
Proof. unfold key_ltb. destruct (lex_cmp a b); split; congruence. Qed.
Lemma key_ltb_irrefl a : key_ltb a a = false.
Proof. unfold key_ltb. replace (lex_cmp a a) with Eq by (symmetry; now apply lex_cmp_eq). reflexivity. Qed.

(* trichotomy *)
Lemma lex_total a b : lex_cmp a b = Lt \/ a = b \/ lex_cmp b a = Lt.
Proof.
  destruct (lex_cmp a b) eqn:E.
  - right; left. now apply lex_cmp_eq.
  - now left.
  - right; right. rewrite lex_cmp_antisym, E. reflexivity.
Qed.

Lemma existsb_key_eqb_In x l : existsb (key_eqb x) l = true <-> In x l.
Proof.
  rewrite existsb_exists. split.
  - intros [y [Hy E]]. apply key_eqb_eq in E. now subst.
  - intros H. exists x. split; [exact H|now apply key_eqb_eq].
Qed.

Lemma In_dedup x l : In x (dedup l) <-> In x l.
Proof.
  induction l as [|y l IH]; cbn [dedup]; [reflexivity|].
  destruct (existsb (key_eqb y) l) eqn:E.
  - rewrite IH. apply existsb_key_eqb_In in E. split; [now right|]. intros [<-|H]; assumption.
  - cbn [In]. now rewrite IH.
Qed.

Lemma NoDup_dedup l : NoDup (dedup l).
Proof.
  induction l as [|y l IH]; cbn [dedup]; [constructor|].
  destruct (existsb (key_eqb y) l) eqn:E; [exact IH|].
  constructor; [|exact IH]. rewrite In_dedup. intros H. apply existsb_key_eqb_In in H. congruence.
Qed.

Lemma filter_length_lt {A} (f g : A -> bool) l :
  (forall x, In x l -> f x = true -> g x = true) ->
  (exists x, In x l /\ f x = false /\ g x = true) ->
  (length (filter f l) < length (filter g l))%nat.
Proof.
  induction l as [|a l IH]; intros Himp [x [Hx [Hf Hg]]]; [contradiction|].
  assert (Hle : forall l', (forall y, In y l' -> f y = true -> g y = true) ->
                           (length (filter f l') <= length (filter g l'))%nat).
  { induction l' as [|b l' IH']; intros H; cbn [filter length]; [lia|].
    assert (IHl := IH' (fun y Hy => H y (or_intror Hy))).
    destruct (f b) eqn:Eb.
    - rewrite (H b (or_introl eq_refl) Eb). cbn [length]. lia.
    - destruct (g b); cbn [length]; lia. }
  cbn [filter]. destruct Hx as [<-|Hx].
  - rewrite Hf, Hg. cbn [length].
    specialize (Hle l (fun y Hy => Himp y (or_intror Hy))). lia.
  - assert (IHl := IH (fun y Hy => Himp y (or_intror Hy)) (ex_intro _ x (conj Hx (conj Hf Hg)))).
    destruct (f a) eqn:Ea.
    + rewrite (Himp a (or_introl eq_refl) Ea). cbn [length]. lia.
    + destruct (g a); cbn [length]; lia.
Qed.

Lemma rank_lt col p q : In p col -> lex_cmp p q = Lt -> rank col p < rank col q.
Proof.
  intros Hp Hlt. unfold rank.
  assert ((length (filter (fun k => key_ltb k p) (dedup col)) <
           length (filter (fun k => key_ltb k q) (dedup col)))%nat); [|lia].
  apply filter_length_lt.
  - intros x _ Hx. apply key_ltb_lt in Hx. apply key_ltb_lt. eapply lex_lt_trans; eassumption.
  - exists p. split; [now apply In_dedup|]. split; [apply key_ltb_irrefl|now apply key_ltb_lt].
Qed.

(* the index values are an order isomorphism from the position keys *)
Lemma rank_order col p q : In p col -> In q col ->
  (rank col p < rank col q <-> lex_cmp p q = Lt) /\ (rank col p = rank col q <-> p = q).
Proof.
  intros Hp Hq. destruct (lex_total p q) as [H|[H|H]].
  - pose proof (rank_lt col p q Hp H). split; split; intros; try lia; try assumption.
    subst q. replace (lex_cmp p p) with Eq in H by (symmetry; now apply lex_cmp_eq). discriminate.
  - subst q. split; split; intros; try lia; try reflexivity.
    replace (lex_cmp p p) with Eq in H by (symmetry; now apply lex_cmp_eq). discriminate.
  - pose proof (rank_lt col q p Hq H). split; split; intros H'; try lia.
    + rewrite lex_cmp_antisym, H' in H. discriminate.
    + subst q. replace (lex_cmp p p) with Eq in H by (symmetry; now apply lex_cmp_eq). discriminate.
Qed.

Lemma filter_true {A} (l : list A) : filter (fun _ => true) l = l.
Proof. induction l as [|a l IH]; cbn [filter]; [reflexivity|now rewrite IH]. Qed.

Lemma rank_bounds col p : In p col -> 1 <= rank col p <= Z.of_nat (length (dedup col)).
Proof.
  intros Hp. unfold rank.
  assert ((length (filter (fun k => key_ltb k p) (dedup col)) <
           length (filter (fun _ => true) (dedup col)))%nat).
  { apply filter_length_lt; [reflexivity|]. exists p. split; [now apply In_dedup|].
    split; [apply key_ltb_irrefl|reflexivity]. }
  rewrite filter_true in H. lia.
Qed.

(* frame i*M + j carries plane i, its index values and mapping j (shared iff one mapping) *)
Lemma pm_meta_nth cols N M i j : 0 <= i < N -> 0 <= j < M ->
  nth_error (pm_meta cols N M) (Z.to_nat (i * M + j)) =
  Some {| fm_plane := i;
          fm_div := map (fun col => rank col (nth (Z.to_nat i) col [])) cols;
          fm_rwvm := if 1 <? M then PerFrame j else Shared |}.
Proof.
  intros Hi Hj. unfold pm_meta.
  replace (Z.to_nat (i * M + j)) with (Z.to_nat i * Z.to_nat M + Z.to_nat j)%nat by nia.
  rewrite nth_error_flat_map_zrange with (len := Z.to_nat M);
    [|intros x; now rewrite map_length, zrange_length|lia|lia].
  now rewrite nth_error_map_zrange.
Qed.

Lemma pm_meta_length cols N M : length (pm_meta cols N M) = (Z.to_nat N * Z.to_nat M)%nat.
Proof.
  unfold pm_meta. rewrite (length_flat_map_const' _ _ (Z.to_nat M)).
  - now rewrite zrange_length.
  - intros x. now rewrite map_length, zrange_length.
Qed.

(* ====================================================================== *)
(* bit packing (bool secondary captures)                                   *)
(* ====================================================================== *)
Definition isbits (bs : list Z) : Prop := forall b, In b bs -> b = 0 \/ b = 1.

Lemma le_bits_length : forall n x, length (le_bits n x) = n.
Proof. induction n as [|n IH]; intros x; cbn [le_bits length]; [reflexivity|now rewrite IH]. Qed.

Lemma le_bits_word : forall bs, isbits bs -> le_bits (length bs) (bits_word bs) = bs.
Proof.
  induction bs as [|b bs IH]; intros H; cbn [length le_bits bits_word]; [reflexivity|].
  assert (Hb : b = 0 \/ b = 1) by (apply H; now left).
  assert (Hr : isbits bs) by (intros y Hy; apply H; now right).
  replace ((b + 2 * bits_word bs) mod 2) with b by lia.
  replace ((b + 2 * bits_word bs) / 2) with (bits_word bs) by lia.
  now rewrite IH.
Qed.

Lemma unpack_pack : forall q bits, length bits = (8 * q)%nat -> isbits bits ->
  unpack_bits (pack_bits q bits) = bits.
Proof.
  induction q as [|q IH]; intros bits Hl Hb.
  - destruct bits; [reflexivity|cbn in Hl; lia].
  - cbn [pack_bits]. unfold unpack_bits in *. cbn [flat_map].
    assert (H8 : length (firstn 8 bits) = 8%nat) by (rewrite firstn_length; lia).
    rewrite <- H8 at 1. rewrite le_bits_word.
    + rewrite IH.
      * apply firstn_skipn.
      * rewrite skipn_length. lia.
      * intros y Hy. apply Hb. rewrite <- (firstn_skipn 8 bits). apply in_or_app. now right.
    + intros y Hy. apply Hb. rewrite <- (firstn_skipn 8 bits). apply in_or_app. now left.
Qed.

Lemma sc_roundtrip_packed ws : (length ws mod 8 = 0)%nat -> isbits ws ->
  sc_decode EPacked (length ws) (sc_encode EPacked ws) = ws.
Proof.
  intros Hm Hb. cbn [sc_decode sc_encode].
  assert (Hq : length ws = (8 * (length ws / 8))%nat).
  { pose proof (Nat.div_mod (length ws) 8 ltac:(lia)). lia. }
  set (q := (length ws / 8)%nat) in *.
  destruct (Nat.even (length (pack_bits q ws))).
  - rewrite (unpack_pack q ws Hq Hb). apply firstn_all.
  - unfold unpack_bits. rewrite flat_map_app. fold (unpack_bits (pack_bits q ws)).
    rewrite (unpack_pack q ws Hq Hb). now rewrite firstn_app_len.
Qed.

Lemma sc_roundtrip_native8 ws : fits 1 ws -> sc_decode ENative8 (length ws) (sc_encode ENative8 ws) = ws.
Proof.
  intros H. cbn [sc_decode sc_encode].
  destruct (Nat.even (length (flat_map (le_bytes 1) ws))).
  - now apply unbytes_bytes'.
  - now apply unbytes_bytes.
Qed.
Lemma sc_roundtrip_native16 ws : fits 2 ws -> sc_decode ENative16 (length ws) (sc_encode ENative16 ws) = ws.
Proof. intros H. cbn [sc_decode sc_encode]. now apply unbytes_bytes'. Qed.

(* the packed bytes are bytes *)
Lemma bits_word_range : forall bs, isbits bs -> 0 <= bits_word bs < 2 ^ Z.of_nat (length bs).
Proof.
  induction bs as [|b bs IH]; intros H; cbn [bits_word length]; [cbn; lia|].
  assert (Hb : b = 0 \/ b = 1) by (apply H; now left).
  assert (Hr : isbits bs) by (intros y Hy; apply H; now right).
  specialize (IH Hr). rewrite Nat2Z.inj_succ, Z.pow_succ_r by lia. lia.
Qed.

(* ====================================================================== *)
(* refusals                                                                *)
(* ====================================================================== *)
(* --- RealWorldValueMapping constructor --- *)
Lemma rwvm_validate_iff hl hs hi fr n first last b :
  rwvm_validate hl hs hi fr n first last = Ok b <->
  (hl = true /\ hs = false /\ hi = false /\ fr = false /\ n = last - first + 1 /\ b = true) \/
  (hl = false /\ hs = true /\ hi = true /\ b = false).
Proof.
  split.
  - unfold rwvm_validate. intros H.
    destruct hl, hs, hi, fr; cbn [orb negb] in H; try discriminate.
    + destruct (n =? last - first + 1) eqn:E; cbn [negb] in H; [|discriminate].
      inversion H. left. repeat split; lia.
    + inversion H. right. auto.
    + inversion H. right. auto.
  - intros [[-> [-> [-> [-> [-> ->]]]]]|[-> [-> [-> ->]]]]; unfold rwvm_validate; cbn [orb negb].
    + replace (last - first + 1 =? last - first + 1) with true by lia. reflexivity.
    + reflexivity.
Qed.

(* --- ParametricMap --- *)
Definition maps_ok (ndim4 : bool) (m : mapshape) (M : Z) : Prop :=
  if ndim4 then exists l0 ls, m = MNested (l0 :: ls) /\ 0 < l0 /\ 1 + Z.of_nat (length ls) = M
  else exists n, m = MFlat n /\ 0 < n /\ M = 1.

Lemma pm_maps_check_ok ndim4 m nm : pm_maps_check ndim4 m = Ok nm <-> maps_ok ndim4 m nm.
Proof.
  unfold pm_maps_check, maps_ok. destruct ndim4; cbn [negb].
  - destruct m as [n|[|l0 ls]].
    + destruct (n <=? 0); (split; [discriminate|intros [a [b [H _]]]; discriminate]).
    + split; [discriminate|intros [a [b [H _]]]; discriminate].
    + destruct (l0 <=? 0) eqn:E.
      * split; [discriminate|intros [a [b [H [H1 _]]]]; inversion H; subst; lia].
      * split; [inversion 1; exists l0, ls; repeat split; lia|].
        intros [a [b [H [H1 H2]]]]. inversion H; subst. reflexivity.
  - destruct m as [n|ls].
    + destruct (n <=? 0) eqn:E.
      * split; [discriminate|intros [a [H [H1 _]]]; inversion H; subst; lia].
      * split; [inversion 1; exists n; repeat split; lia|].
        intros [a [H [H1 H2]]]. now subst.
    + split; [discriminate|intros [a [H _]]; discriminate].
Qed.

Record pm_accepts (c : pmcfg) (n r cc m : Z) (a : attr) (w : nat) : Prop := {
  pa_src : 0 < c_nsrc c;
  pa_uniform : c_uniform c = true;
  pa_single_multiframe : c_multiframe c = true -> c_nsrc c = 1;
  pa_ts : pm_ts_ok (c_dtype c) (c_ts c) = true;
  pa_ww : c_wwpos c = true;
  pa_dims : pm_dims (c_shape c) = Some (n, r, cc, m);
  pa_maps : maps_ok (Nat.eqb (length (c_shape c)) 4) (c_maps c) m;
  pa_planes : match c_pp c with None => n = c_srcplanes c | Some k => k = n end;
  pa_attr : pm_attr (c_dtype c) = Ok (a, w);
  pa_j2k : c_ts c = J2KLossless -> 32 <= r /\ 32 <= cc
}.

Lemma pm_validate_sound c n r cc m a w :
  pm_validate c = Ok (n, r, cc, m, a, w) -> pm_accepts c n r cc m a w.
Proof.
  unfold pm_validate.
  destruct (c_nsrc c <=? 0) eqn:E1; [discriminate|].
  destruct (c_uniform c) eqn:E2; cbn [negb]; [|discriminate].
  destruct (c_multiframe c && (1 <? c_nsrc c)) eqn:E3; [discriminate|].
  destruct (pm_ts_ok (c_dtype c) (c_ts c)) eqn:E4; cbn [negb]; [|discriminate].
  destruct (c_wwpos c) eqn:E5; cbn [negb]; [|discriminate].
  destruct (pm_dims (c_shape c)) as [[[[n' r'] cc'] m']|] eqn:E6; [|discriminate].
  destruct (pm_maps_check (Nat.eqb (length (c_shape c)) 4) (c_maps c)) as [nm|e] eqn:E7; cbn [bind]; [|discriminate].
  destruct (nm =? m') eqn:E8; cbn [negb]; [|discriminate].
  destruct (match c_pp c with None => n' =? c_srcplanes c | Some k => k =? n' end) eqn:E9; cbn [negb]; [|discriminate].
  destruct (pm_attr (c_dtype c)) as [[a' w']|e] eqn:E10; cbn [bind]; [|discriminate].
  destruct (match c_ts c with J2KLossless => (r' <? 32) || (cc' <? 32) | _ => false end) eqn:E11; [discriminate|].
  cbn [fst snd]. intros H. inversion H; subst. clear H.
  assert (nm = m) by lia. subst nm.
  constructor; try assumption; try reflexivity.
  - lia.
  - intros Hm. rewrite Hm in E3. cbn [andb] in E3. lia.
  - now apply pm_maps_check_ok.
  - destruct (c_pp c); lia.
  - intros Ht. rewrite Ht in E11. lia.
Qed.

Lemma pm_validate_complete c n r cc m a w :
  pm_accepts c n r cc m a w -> pm_validate c = Ok (n, r, cc, m, a, w).
Proof.
  intros [H1 H2 H3 H4 H5 H6 H7 H8 H9 H10]. unfold pm_validate.
  replace (c_nsrc c <=? 0) with false by lia. rewrite H2. cbn [negb].
  replace (c_multiframe c && (1 <? c_nsrc c)) with false
    by (destruct (c_multiframe c); [rewrite H3 by reflexivity; reflexivity|reflexivity]).
  rewrite H4, H5, H6. cbn [negb].
  apply pm_maps_check_ok in H7. rewrite H7. cbn [bind].
  replace (m =? m) with true by lia. cbn [negb].
  replace (match c_pp c with None => n =? c_srcplanes c | Some k => k =? n end) with true
    by (destruct (c_pp c); lia).
  cbn [negb]. rewrite H9. cbn [bind fst snd].
  replace (match c_ts c with J2KLossless => (r <? 32) || (cc <? 32) | _ => false end) with false.
  - reflexivity.
  - destruct (c_ts c); try reflexivity. specialize (H10 eq_refl). lia.
Qed.

(* errors are ValueError except for a wrong mapping layout *)
Lemma pm_validate_error_kinds c e : pm_validate c = Err e ->
  e = "ValueError"%string \/
  ((e = "TypeError"%string \/ e = "KeyError"%string) /\
   forall nm, pm_maps_check (Nat.eqb (length (c_shape c)) 4) (c_maps c) <> Ok nm).
Proof.
  unfold pm_validate.
  destruct (c_nsrc c <=? 0); [inversion 1; now left|].
  destruct (negb (c_uniform c)); [inversion 1; now left|].
  destruct (c_multiframe c && (1 <? c_nsrc c)); [inversion 1; now left|].
  destruct (negb (pm_ts_ok (c_dtype c) (c_ts c))); [inversion 1; now left|].
  destruct (negb (c_wwpos c)); [inversion 1; now left|].
  destruct (pm_dims (c_shape c)) as [[[[n' r'] cc'] m']|]; [|inversion 1; now left].
  destruct (pm_maps_check (Nat.eqb (length (c_shape c)) 4) (c_maps c)) as [nm|e'] eqn:E7; cbn [bind].
  - destruct (negb (nm =? m')); [inversion 1; now left|].
    destruct (negb _); [inversion 1; now left|].
    destruct (pm_attr (c_dtype c)) as [[a' w']|e''] eqn:E10; cbn [bind].
    + destruct (match c_ts c with J2KLossless => _ | _ => false end); [inversion 1; now left|discriminate].
    + inversion 1; subst. left. unfold pm_attr in E10. destruct (c_dtype c); congruence.
  - inversion 1; subst. right. split; [|intros nm; discriminate].
    unfold pm_maps_check in E7.
    destruct (negb (Nat.eqb (length (c_shape c)) 4)); destruct (c_maps c) as [k|[|l0 ls]];
      repeat match type of E7 with context [if ?b then _ else _] => destruct b end;
      inversion E7; auto.
Qed.

(* attribute per element type (the whole table) *)
Definition all_dtypes := [DBool; DU8; DU16; DU32; DU64; DI8; DI16; DI32; DI64; DF16; DF32; DF64; DC64].
Lemma all_dtypes_complete d : In d all_dtypes.
Proof. destruct d; cbn; tauto. Qed.
Definition attr_spec (d : dtype) : option (attr * nat) :=
  match d with
  | DU8 => Some (PixelData, 1%nat) | DU16 => Some (PixelData, 2%nat)
  | DF32 => Some (FloatPixelData, 4%nat) | DF64 => Some (DoubleFloatPixelData, 8%nat)
  | _ => None
  end.
Lemma pm_attr_table d :
  match attr_spec d with
  | Some aw => pm_attr d = Ok aw
  | None => pm_attr d = Err "ValueError"
  end.
Proof. destruct d; reflexivity. Qed.

(* --- SCImage: the whole validation table, by enumeration --- *)
Definition all_bacls := [B1; B8; B12; B16; BOther].
Definition all_shcls := [S0; S1; S2; S3 true; S3 false; SMore].
Definition all_photo := [Mono1; Mono2; RGB; YbrFull; YbrFull422; YbrIct; YbrRct; Palette; PInvalid].
Definition all_tsyn := [Implicit; Explicit; RLE; JLS; JLSNear; JPEGBase; J2K; J2KLossless; BigEndian; Deflated].
Definition all_bool := [true; false].
Definition all_sccls : list sccls :=
  flat_map (fun d => flat_map (fun b => flat_map (fun s => flat_map (fun p => flat_map (fun t =>
  flat_map (fun m1 => flat_map (fun m2 => map (fun m3 =>
    {| k_dtype := d; k_ba := b; k_sh := s; k_pi := p; k_ts := t;
       k_max12 := m1; k_mult8 := m2; k_small := m3 |}) all_bool) all_bool) all_bool)
  all_tsyn) all_photo) all_shcls) all_bacls) all_dtypes.

Lemma all_sccls_complete k : In k all_sccls.
Proof.
  destruct k as [d b s p t m1 m2 m3]. unfold all_sccls.
  apply in_flat_map. exists d. split; [apply all_dtypes_complete|].
  apply in_flat_map. exists b. split; [destruct b; cbn; tauto|].
  apply in_flat_map. exists s. split; [destruct s as [| | |[|]|]; cbn; tauto|].
  apply in_flat_map. exists p. split; [destruct p; cbn; tauto|].
  apply in_flat_map. exists t. split; [destruct t; cbn; tauto|].
  apply in_flat_map. exists m1. split; [destruct m1; cbn; tauto|].
  apply in_flat_map. exists m2. split; [destruct m2; cbn; tauto|].
  apply in_map_iff. exists m3. split; [reflexivity|destruct m3; cbn; tauto].
Qed.

(* declarative statement of what a secondary capture can represent:
   (BitsAllocated, BitsStored, SamplesPerPixel, encoding) or nothing *)
Definition is_mono (p : photo) : bool := match p with Mono1 | Mono2 => true | _ => false end.
Definition codec_for (t : tsyn) (small : bool) (jpeg_ok : bool) : option encoding :=
  match t with
  | RLE | JLS | JLSNear => Some ECodec
  | JPEGBase => if jpeg_ok then Some ECodec else None
  | J2K | J2KLossless => if small then None else Some ECodec
  | _ => None
  end.
Definition sc_spec (k : sccls) : option (Z * Z * Z * encoding) :=
  let t := k_ts k in
  match k_sh k, k_dtype k, k_ba k with
  | S2, DBool, B1 =>
      if negb (is_mono (k_pi k)) then None
      else if ts_native t then (if k_mult8 k then Some (1, 1, 1, EPacked) else None)
      else match t with J2KLossless => if k_small k then None else Some (1, 1, 1, ECodec) | _ => None end
  | S2, DU8, B8 =>
      if negb (is_mono (k_pi k)) then None
      else if ts_native t then Some (8, 8, 1, ENative8)
      else option_map (fun e => (8, 8, 1, e)) (codec_for t (k_small k) true)
  | S2, DU16, B16 =>
      if negb (is_mono (k_pi k)) then None
      else if ts_native t then Some (16, 16, 1, ENative16)
      else option_map (fun e => (16, 16, 1, e)) (codec_for t (k_small k) false)
  | S2, DU16, B12 =>
      if negb (is_mono (k_pi k)) || negb (k_max12 k) then None
      else if ts_native t then Some (16, 12, 1, ENative16)
      else match t with RLE => None
           | _ => option_map (fun e => (16, 12, 1, e)) (codec_for t (k_small k) false) end
  | S3 true, DU8, B8 =>
      let pi_ok := match t, k_pi k with
                   | (Implicit | Explicit | RLE), (RGB | YbrFull) => true
                   | (JLS | JLSNear), RGB => true
                   | JPEGBase, YbrFull422 => true
                   | J2K, YbrIct => true
                   | J2KLossless, YbrRct => true
                   | _, _ => false end in
      if negb pi_ok then None
      else if ts_native t then Some (8, 8, 3, ENative8)
      else option_map (fun e => (8, 8, 3, e)) (codec_for t (k_small k) true)
  | _, _, _ => None
  end.

Definition enc_eqb (a b : encoding) : bool :=
  match a, b with
  | ENative8, ENative8 | ENative16, ENative16 | EPacked, EPacked | ECodec, ECodec => true
  | _, _ => false end.
Definition tup_eqb (a b : Z * Z * Z * encoding) : bool :=
  match a, b with (a1, a2, a3, a4), (b1, b2, b3, b4) =>
    (a1 =? b1) && (a2 =? b2) && (a3 =? b3) && enc_eqb a4 b4 end.
Lemma tup_eqb_eq a b : tup_eqb a b = true -> a = b.
Proof.
  destruct a as [[[a1 a2] a3] a4], b as [[[b1 b2] b3] b4]. cbn [tup_eqb].
  rewrite !andb_true_iff. intros [[[H1 H2] H3] H4].
  apply Z.eqb_eq in H1, H2, H3. subst. destruct a4, b4; try discriminate; reflexivity.
Qed.

Definition err_kind_ok (k : sccls) (e : string) : bool :=
  if negb (sc_ts_ok (k_ts k)) then String.eqb e "ValueError"
  else match k_sh k with
       | S0 | S1 => String.eqb e "IndexError"
       | _ => match k_dtype k with
              | DBool | DU8 | DU16 => String.eqb e "ValueError"
              | _ => String.eqb e "TypeError"
              end
       end.

Definition sc_row_ok (k : sccls) : bool :=
  match sc_validate_fin k, sc_spec k with
  | Ok t, Some t' => tup_eqb t t'
  | Err e, None => err_kind_ok k e
  | _, _ => false
  end.

Lemma sc_table_checked : forallb sc_row_ok all_sccls = true.
Proof. vm_compute. reflexivity. Qed.

Lemma sc_row_ok_all k : sc_row_ok k = true.
Proof. exact (proj1 (forallb_forall sc_row_ok all_sccls) sc_table_checked k (all_sccls_complete k)). Qed.

Lemma sc_validate_fin_spec k t : sc_validate_fin k = Ok t <-> sc_spec k = Some t.
Proof.
  pose proof (sc_row_ok_all k) as H. unfold sc_row_ok in H.
  destruct (sc_validate_fin k) as [t1|e], (sc_spec k) as [t2|]; try discriminate.
  - apply tup_eqb_eq in H. subst. split; intros E; inversion E; reflexivity.
  - split; discriminate.
Qed.

Lemma sc_validate_fin_refuses k : sc_spec k = None <->
  exists e, sc_validate_fin k = Err e /\ err_kind_ok k e = true.
Proof.
  pose proof (sc_row_ok_all k) as H. unfold sc_row_ok in H.
  destruct (sc_validate_fin k) as [t1|e], (sc_spec k) as [t2|]; try discriminate.
  - split; [discriminate|intros [e [E _]]; discriminate].
  - split; [intros _; exists e; auto|reflexivity].
Qed.

(* the codec never sees anything but the array itself: encapsulated round trip
   under the codec's own contract *)
Section Codec.
  Variable enc : list Z -> list Z.
  Variable dec : list Z -> list Z.
  Hypothesis codec_lossless : forall ws, dec (enc ws) = ws.
  Definition sc_store (e : encoding) (ws : list Z) : list Z :=
    match e with ECodec => enc ws | _ => sc_encode e ws end.
  Definition sc_load (e : encoding) (n : nat) (bytes : list Z) : list Z :=
    match e with ECodec => dec bytes | _ => sc_decode e n bytes end.
  Definition enc_fits (e : encoding) (ws : list Z) : Prop :=
    match e with
    | ENative8 => fits 1 ws
    | ENative16 => fits 2 ws
    | EPacked => (length ws mod 8 = 0)%nat /\ isbits ws
    | ECodec => True
    end.
  Lemma sc_roundtrip_any e ws : enc_fits e ws -> sc_load e (length ws) (sc_store e ws) = ws.
  Proof.
    destruct e; cbn [enc_fits sc_load sc_store].
    - apply sc_roundtrip_native8.
    - apply sc_roundtrip_native16.
    - intros [H1 H2]. now apply sc_roundtrip_packed.
    - intros _. apply codec_lossless.
  Qed.
End Codec.

(* which encoding goes with which element type *)
Definition dtype_fits (d : dtype) (ws : list Z) : Prop :=
  match d with DBool => isbits ws | DU8 => fits 1 ws | DU16 => fits 2 ws | _ => False end.
Definition sc_enc_row (k : sccls) : bool :=
  match sc_validate_fin k with
  | Ok (ba, bs, spp, e) =>
      (match e, k_dtype k with
       | ENative8, DU8 => ba =? 8
       | ENative16, DU16 => ba =? 16
       | EPacked, DBool => k_mult8 k && (spp =? 1) && (ba =? 1)
       | ECodec, (DBool | DU8 | DU16) => negb (ts_native (k_ts k))
       | _, _ => false end)
      && (match k_sh k with S2 => spp =? 1 | S3 true => spp =? 3 | _ => false end)
      && (1 <=? bs) && (bs <=? ba)
  | Err _ => true
  end.
Lemma sc_enc_checked : forallb sc_enc_row all_sccls = true.
Proof. vm_compute. reflexivity. Qed.
Lemma sc_enc_row_all k : sc_enc_row k = true.
Proof. exact (proj1 (forallb_forall sc_enc_row all_sccls) sc_enc_checked k (all_sccls_complete k)). Qed.

Lemma sc_accept_fits c ws ba bs spp e :
  sc_validate c = Ok (ba, bs, spp, e) -> dtype_fits (s_dtype c) ws ->
  Z.of_nat (length ws) = nth 0 (s_shape c) 0 * nth 1 (s_shape c) 0 * spp ->
  enc_fits e ws.
Proof.
  unfold sc_validate. intros Hv Hd Hl.
  pose proof (sc_enc_row_all (sc_classify c)) as H. unfold sc_enc_row in H. rewrite Hv in H.
  cbn [sc_classify k_dtype k_mult8 k_ts k_sh] in H.
  destruct e, (s_dtype c); cbn [dtype_fits enc_fits] in *; try discriminate; try exact I; try exact Hd.
  split; [|exact Hd].
  rewrite !andb_true_iff in H. destruct H as [[[[[H1 H2] H3] _] _] _].
  apply Z.eqb_eq in H1, H2. subst spp. rewrite Z.mul_1_r in Hl. rewrite <- Hl in H1.
  clear - H1. generalize dependent (length ws). intros n H1.
  apply Nat2Z.inj. rewrite Nat2Z.inj_mod. exact H1.
Qed.

(* ====================================================================== *)
(* statements assembled for C19_Props.v                                    *)
(* ====================================================================== *)
Lemma pm_bytes_decode : forall get N R C M w,
  (forall i r c j, 0 <= get i r c j < 256 ^ Z.of_nat w) ->
  unbytes w (length (pm_words get N R C M)) (pm_bytes get N R C M w) = pm_words get N R C M.
Proof.
  intros get N R C M w H. apply unbytes_bytes'. intros x Hx. unfold pm_words in Hx.
  apply in_concat in Hx. destruct Hx as [f [Hf Hx]]. unfold pm_frames in Hf.
  apply in_flat_map in Hf. destruct Hf as [i [_ Hf]]. apply in_map_iff in Hf.
  destruct Hf as [j [<- _]]. exact (frame_fits get R C w H i j x Hx).
Qed.

Lemma pm_frame_order : forall get N R C M i j r c,
  0 <= i < N -> 0 <= j < M -> 0 <= r < R -> 0 <= c < C ->
  length (pm_frames get N R C M) = (Z.to_nat N * Z.to_nat M)%nat /\
  nth_error (pm_frames get N R C M) (Z.to_nat (i * M + j)) = Some (frame_words get R C i j) /\
  nth_error (frame_words get R C i j) (Z.to_nat (r * C + c)) = Some (get i r c j).
Proof.
  intros. split; [apply pm_frames_length|]. split; [now apply pm_frames_nth|now apply frame_words_nth].
Qed.

Lemma pm_frame_meta : forall cols N M i j, 0 <= i < N -> 0 <= j < M ->
  length (pm_meta cols N M) = (Z.to_nat N * Z.to_nat M)%nat /\
  nth_error (pm_meta cols N M) (Z.to_nat (i * M + j)) =
  Some {| fm_plane := i;
          fm_div := map (fun col => rank col (nth (Z.to_nat i) col [])) cols;
          fm_rwvm := if 1 <? M then PerFrame j else Shared |} /\
  (* the position key looked up for plane i is a real entry of every column of length N *)
  (forall col, In col cols -> length col = Z.to_nat N ->
     nth_error col (Z.to_nat i) = Some (nth (Z.to_nat i) col []) /\ In (nth (Z.to_nat i) col []) col).
Proof.
  intros cols N M i j Hi Hj. split; [apply pm_meta_length|]. split; [now apply pm_meta_nth|].
  intros col _ Hl. split; [apply nth_error_nth'; lia|apply nth_In; lia].
Qed.

Lemma pm_dimension_index : forall col p q, In p col -> In q col ->
  (rank col p < rank col q <-> lex_cmp p q = Lt) /\ (rank col p = rank col q <-> p = q) /\
  1 <= rank col p <= Z.of_nat (length (dedup col)).
Proof.
  intros col p q Hp Hq. destruct (rank_order col p q Hp Hq) as [H1 H2].
  split; [exact H1|]. split; [exact H2|now apply rank_bounds].
Qed.

Lemma frame_index_all : forall n f k,
  (std_index n f false = Ok k <-> 1 <= f <= n /\ k = f - 1) /\
  (std_index n f false = Err "IndexError"%string <-> f < 1 \/ n < f) /\
  (std_index n f true = Ok k <-> 0 <= f < n /\ k = f) /\
  (std_index n f true = Err "IndexError"%string <-> f < 0 \/ n <= f).
Proof.
  intros. split; [apply std_index_number|]. split; [apply std_index_number_err|].
  split; [apply std_index_index|apply std_index_index_err].
Qed.

Lemma pm_read_real_world : forall get N R C M w maps sel f,
  (forall i r c j, 0 <= get i r c j < 256 ^ Z.of_nat w) ->
  0 <= R -> 0 <= C -> 0 < M -> 1 <= f <= N * M ->
  get_frame_rw w R C M (N * M) (pm_bytes get N R C M w) maps sel f false =
  bind (select_mapping (nth (Z.to_nat (if 1 <? M then (f - 1) mod M else 0)) maps []) sel)
       (fun m => apply_mapping m (frame_words get R C ((f - 1) / M) ((f - 1) mod M))).
Proof.
  intros get N R C M w maps sel f Hfit HR HC HM Hf. unfold get_frame_rw.
  assert (E : std_index (N * M) f false = Ok (f - 1))
    by (apply std_index_number; split; [exact Hf|reflexivity]).
  rewrite E. cbn [bind]. unfold frame_maps.
  rewrite (read_frame_stored get N R C M w Hfit (f - 1) HR HC HM); [reflexivity|lia].
Qed.

Lemma mapping_range : forall s i f l first lut x,
  (in_range (MLin s i f l) x = true <-> (f <= inject_Z x /\ inject_Z x <= l)%Q) /\
  (in_range (MLut first lut) x = true <-> first <= x <= first + Z.of_nat (length lut) - 1).
Proof. intros. split; [apply in_range_lin|apply in_range_lut]. Qed.

Lemma sc_roundtrip_full : forall (enc dec : list Z -> list Z), (forall ws, dec (enc ws) = ws) ->
  forall c ws ba bs spp e,
  sc_validate c = Ok (ba, bs, spp, e) -> dtype_fits (s_dtype c) ws ->
  Z.of_nat (length ws) = nth 0 (s_shape c) 0 * nth 1 (s_shape c) 0 * spp ->
  sc_load dec e (length ws) (sc_store enc e ws) = ws.
Proof.
  intros enc dec Hcodec c ws ba bs spp e Hv Hd Hl.
  apply (sc_roundtrip_any enc dec Hcodec). exact (sc_accept_fits c ws ba bs spp e Hv Hd Hl).
Qed.

Lemma sc_roundtrip_native_all : forall ws,
  (fits 1 ws -> sc_decode ENative8 (length ws) (sc_encode ENative8 ws) = ws) /\
  (fits 2 ws -> sc_decode ENative16 (length ws) (sc_encode ENative16 ws) = ws) /\
  ((length ws mod 8 = 0)%nat -> isbits ws -> sc_decode EPacked (length ws) (sc_encode EPacked ws) = ws).
Proof.
  intros ws. split; [apply sc_roundtrip_native8|]. split; [apply sc_roundtrip_native16|apply sc_roundtrip_packed].
Qed.

Lemma sc_refusals_full : forall c,
  (forall t, sc_validate c = Ok t <-> sc_spec (sc_classify c) = Some t) /\
  (sc_spec (sc_classify c) = None <->
   exists e, sc_validate c = Err e /\ err_kind_ok (sc_classify c) e = true).
Proof.
  intros c. unfold sc_validate. split; [intros t; apply sc_validate_fin_spec|apply sc_validate_fin_refuses].
Qed.

Lemma pm_refusals_iff : forall c n r cc m a w,
  pm_validate c = Ok (n, r, cc, m, a, w) <-> pm_accepts c n r cc m a w.
Proof. intros. split; [apply pm_validate_sound|apply pm_validate_complete]. Qed.

Lemma read_frame_stored_thm : forall get N R C M w k,
  (forall i r c j, 0 <= get i r c j < 256 ^ Z.of_nat w) ->
  0 <= R -> 0 <= C -> 0 < M -> 0 <= k < N * M ->
  read_frame w R C (pm_bytes get N R C M w) k = frame_words get R C (k / M) (k mod M).
Proof. intros get N R C M w k H. now apply read_frame_stored. Qed.
