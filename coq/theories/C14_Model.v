(* C14 - model of highdicom.sr.value_types.ContentSequence
   (src/highdicom/sr/value_types.py, class ContentSequence ONLY):
     __init__, _check_item, append, extend, __iadd__, insert, __setitem__ (int / slice),
     __delitem__ (int / slice), index, __contains__, find, get_nodes
   as of /repo commit 090ea88 (after the fixes D17-D19, D42-D44, D63).
   The underlying pydicom Sequence is a Python list (ConstrainedList._list);
   Python list index / slice semantics are re-modelled here (slice.indices from
   Base/PySlice.v) and cross-checked against the interpreter by the
   correspondence run.

   A content item is abstracted to the attributes the class looks at:
     is_item  - isinstance(x, ContentItem)         (false = a junk object)
     iname    - concept name (key of the name index; CodedConcept eq/hash)
     irel     - relationship type, 0 = None
     icont    - isinstance(x, ContainerContentItem)
     inode    - hasattr(x, 'ContentSequence')
     ipay     - everything else that takes part in Dataset.__eq__
   Item equality (Dataset.__eq__, used by list.index) is structural equality.
   For a junk object (is_item = false) the payload tells the kind of junk:
     ipay = 1 - a pydicom Dataset that is not a ContentItem (passes pydicom's
                Sequence._validate; `.name` raises AttributeError),
     else     - not a Dataset at all (Sequence._validate raises TypeError).

   Also modelled (second half of the file):
     from_sequence / _check_dataset + the from_dataset chain of TEXT / CONTAINER
       items (_assert_value_type, ContentItem._from_dataset_base) - datasets are
       abstracted to record [dset];
     the methods ContentSequence inherits from collections.abc.MutableSequence /
       Sequence, which run on top of __getitem__/__setitem__/__delitem__/index:
       pop, remove, reverse, clear, count;
     FAMILIES of sequences (end of the file): a ContentSequence built FROM another one -
       ContentSequence(seq, is_root, is_sr) (also what ContentItem.__setattr__ does on
       `item.ContentSequence = seq`), copy.deepcopy(seq), seq.find(name), seq.get_nodes() -
       is a NEW sequence with its own list and its own name index (built by __init__ from
       the items); later operations on either sequence do not touch the other;
     reading: __getitem__ with an int or a slice (a plain list), __reversed__ (the Sequence mixin);
     from_sequence over ALL fifteen value types (ds_check_x / to_item_x / from_sequence_x), including
       the default name given to COMPOSITE / IMAGE / SCOORD / SCOORD3D / TCOORD / WAVEFORM datasets
       that come without ConceptNameCodeSequence.
   The concept name [iname] is the equality class of the name under CodedConcept/Code
   __eq__ (scheme designator, code value, scheme VERSION; the meaning is ignored); a lookup
   key of either type (CodedConcept or pydicom Code) denotes the same class.
   NO proofs in this file. *)
From Coq Require Import String ZArith List Bool.
From HD Require Import Base.Val Base.PySlice.
Import ListNotations.
Open Scope Z_scope.

Record item := Item {
  is_item : bool; iname : Z; irel : Z; icont : bool; inode : bool; ipay : Z }.

Definition item_eqb (a b : item) : bool :=
  Bool.eqb (is_item a) (is_item b) && (iname a =? iname b) && (irel a =? irel b) &&
  Bool.eqb (icont a) (icont b) && Bool.eqb (inode a) (inode b) && (ipay a =? ipay b).

Definition EVALUE : string := "ValueError".
Definition ETYPE : string := "TypeError".
Definition EATTR : string := "AttributeError".
Definition EINDEX : string := "IndexError".

(* state: the list, the shadow index `_lut`, the two flags *)
Record st := St {
  items : list item; lut : Z -> list item; is_root : bool; is_sr : bool }.

Definition upd (f : Z -> list item) (k : Z) (v : list item) : Z -> list item :=
  fun k' => if k =? k' then v else f k'.
Definition has (k : Z) (x : item) : bool := k =? iname x.
(* self._lut[x.name].append(x) *)
Definition lut_add (f : Z -> list item) (x : item) : Z -> list item :=
  upd f (iname x) (f (iname x) ++ [x]).
Definition empty_lut : Z -> list item := fun _ => [].

Fixpoint first_err {A} (f : A -> option string) (l : list A) : option string :=
  match l with
  | [] => None
  | x :: l' => match f x with Some e => Some e | None => first_err f l' end
  end.

(* ---- __init__ ---------------------------------------------------------- *)
(* _check_item: the per-item rule, shared by __init__, append, insert, __setitem__ *)
Definition init_check (root sr : bool) (x : item) : option string :=
  if negb (is_item x) then Some ETYPE
  else if root then
    (if negb (irel x =? 0) then Some EATTR
     else if negb (icont x) then Some ETYPE else None)
  else if sr then (if irel x =? 0 then Some EATTR else None)
  else (if negb (irel x =? 0) then Some EATTR else None).

(* isinstance(x, pydicom.Dataset) *)
Definition is_dataset (x : item) : bool := is_item x || (ipay x =? 1).

Definition init (l : list item) (root sr : bool) : res st :=
  if root && negb sr then Err EVALUE
  else if existsb (fun x => negb (is_item x)) l then
    (* super().__init__(items): pydicom Sequence._validate raises TypeError for a non-Dataset;
       otherwise the first loop `self._lut[i.name].append(i)` raises AttributeError at the
       first Dataset that is no ContentItem (it has no `.name`) - before any _check_item *)
    Err (if existsb (fun x => negb (is_dataset x)) l then ETYPE else EATTR)
  else match first_err (init_check root sr) l with
       | Some e => Err e
       | None => Ok (St l (fold_left lut_add l empty_lut) root sr)
       end.

(* ---- append / extend / insert ------------------------------------------ *)
(* self._check_item(val): append, insert and __setitem__ apply the rule of __init__ *)
Definition add_check (s : st) (x : item) : option string :=
  init_check (is_root s) (is_sr s) x.

Definition append (s : st) (x : item) : st * option string :=
  match add_check s x with
  | Some e => (s, Some e)
  | None => (St (items s ++ [x]) (lut_add (lut s) x) (is_root s) (is_sr s), None)
  end.

(* for item in val: self.append(item)  - stops at the first refused item *)
Fixpoint extend (s : st) (xs : list item) : st * option string :=
  match xs with
  | [] => (s, None)
  | x :: xs' => match append s x with
                | (s', None) => extend s' xs'
                | r => r
                end
  end.

Definition zlen {A} (l : list A) : Z := Z.of_nat (length l).

(* list.insert position clamping *)
Definition insert_pos (pos len : Z) : Z :=
  let p := if pos <? 0 then pos + len else pos in
  if p <? 0 then 0 else if len <? p then len else p.

Definition insert (s : st) (pos : Z) (x : item) : st * option string :=
  match add_check s x with
  | Some e => (s, Some e)
  | None =>
      let p := Z.to_nat (insert_pos pos (zlen (items s))) in
      (St (firstn p (items s) ++ x :: skipn p (items s)) (lut_add (lut s) x)
          (is_root s) (is_sr s), None)
  end.

(* ---- integer indices and slices of a Python list -------------------------- *)
Definition norm_index (i len : Z) : option nat :=
  let j := if i <? 0 then i + len else i in
  if (j <? 0) || (len <=? j) then None else Some (Z.to_nat j).

(* is list position i one of range(f, l, s) ? *)
Definition selected (f l s i : Z) : bool :=
  if 0 <? s then (f <=? i) && (i <? l) && ((i - f) mod s =? 0)
  else (l <? i) && (i <=? f) && ((f - i) mod (- s) =? 0).
Definition mask (f l s : Z) (n : nat) : list bool :=
  map (fun i => selected f l s (Z.of_nat i)) (seq 0 n).

Fixpoint sel (m : list bool) (l : list item) : list item :=
  match m, l with
  | b :: m', x :: l' => if b then x :: sel m' l' else sel m' l'
  | _, _ => []
  end.
Fixpoint unsel (m : list bool) (l : list item) : list item :=
  match m, l with
  | b :: m', x :: l' => if b then unsel m' l' else x :: unsel m' l'
  | _, _ => l
  end.
(* assign vs, in list order, to the selected positions *)
Fixpoint replace_sel (m : list bool) (l vs : list item) : list item :=
  match m, l with
  | b :: m', x :: l' =>
      if b then match vs with
                | v :: vs' => v :: replace_sel m' l' vs'
                | [] => x :: replace_sel m' l' []
                end
      else x :: replace_sel m' l' vs
  | _, _ => l
  end.

(* list[f:l:s] after slice.indices *)
Definition slice_get (f l s : Z) (xs : list item) : list item :=
  if s =? 1 then firstn (Z.to_nat (Z.max f l - f)) (skipn (Z.to_nat f) xs)
  else if 0 <? s then sel (mask f l s (length xs)) xs
  else rev (sel (mask f l s (length xs)) xs).
(* del list[f:l:s] *)
Definition slice_del (f l s : Z) (xs : list item) : list item :=
  if s =? 1 then firstn (Z.to_nat f) xs ++ skipn (Z.to_nat (Z.max f l)) xs
  else unsel (mask f l s (length xs)) xs.

(* ---- removing entries from the name index --------------------------------- *)
(* index = self._lut[i.name].index(i); del self._lut[i.name][index] *)
Fixpoint remove_first (x : item) (l : list item) : option (list item) :=
  match l with
  | [] => None
  | y :: l' => if item_eqb y x then Some l'
               else match remove_first x l' with
                    | Some r => Some (y :: r)
                    | None => None
                    end
  end.
(* the loop over old items; false = list.index raised ValueError *)
Fixpoint lut_remove_all (f : Z -> list item) (olds : list item) : (Z -> list item) * bool :=
  match olds with
  | [] => (f, true)
  | x :: os => match remove_first x (f (iname x)) with
               | Some l' => lut_remove_all (upd f (iname x) l') os
               | None => (f, false)
               end
  end.

(* ---- __setitem__ ------------------------------------------------------------ *)
Definition set_check (s : st) (x : item) : option string :=
  init_check (is_root s) (is_sr s) x.

(* after super().__setitem__: drop the old items from the index, add the new *)
Definition finish_set (s : st) (items' olds news : list item) : st * option string :=
  let '(f, ok) := lut_remove_all (lut s) olds in
  if ok then (St items' (fold_left lut_add news f) (is_root s) (is_sr s), None)
  else (St items' f (is_root s) (is_sr s), Some EVALUE).

Definition setitem_int (s : st) (i : Z) (x : item) : st * option string :=
  match norm_index i (zlen (items s)) with
  | None => (s, Some EINDEX)
  | Some p =>
      match nth_error (items s) p with
      | None => (s, Some EINDEX)
      | Some old =>
          match first_err (set_check s) [x] with
          | Some e => (s, Some e)
          | None => finish_set s (firstn p (items s) ++ x :: skipn (S p) (items s)) [old] [x]
          end
      end
  end.

Definition step_of (step : option Z) : Z := match step with None => 1 | Some v => v end.

Definition setitem_slice (s : st) (start stop step : option Z) (xs : list item)
  : st * option string :=
  let stp := step_of step in
  if stp =? 0 then (s, Some EVALUE)        (* self[idx]: slice step cannot be zero *)
  else
    let '(f, l, _) := slice_indices start stop stp (zlen (items s)) in
    let olds := slice_get f l stp (items s) in
    match first_err (set_check s) xs with
    | Some e => (s, Some e)
    | None =>
        if stp =? 1 then
          finish_set s (firstn (Z.to_nat f) (items s) ++ xs ++ skipn (Z.to_nat (Z.max f l)) (items s))
                     olds xs
        (* extended slice: len(value) must equal the slice length = len(self[idx]) *)
        else if negb (zlen xs =? zlen olds) then (s, Some EVALUE)
        else finish_set s (replace_sel (mask f l stp (length (items s))) (items s)
                                       (if stp <? 0 then rev xs else xs))
                        olds xs
    end.

(* ---- __delitem__ --------------------------------------------------------------- *)
Definition finish_del (s : st) (items' olds : list item) : st * option string :=
  let '(f, ok) := lut_remove_all (lut s) olds in
  if ok then (St items' f (is_root s) (is_sr s), None)
  else (St (items s) f (is_root s) (is_sr s), Some EVALUE).

Definition delitem_int (s : st) (i : Z) : st * option string :=
  match norm_index i (zlen (items s)) with
  | None => (s, Some EINDEX)
  | Some p =>
      match nth_error (items s) p with
      | None => (s, Some EINDEX)
      | Some old => finish_del s (firstn p (items s) ++ skipn (S p) (items s)) [old]
      end
  end.

Definition delitem_slice (s : st) (start stop step : option Z) : st * option string :=
  let stp := step_of step in
  if stp =? 0 then (s, Some EVALUE)
  else
    let '(f, l, _) := slice_indices start stop stp (zlen (items s)) in
    finish_del s (slice_del f l stp (items s)) (slice_get f l stp (items s)).

(* ---- operations as data ------------------------------------------------------------ *)
Inductive op :=
| Append (x : item)
| Extend (xs : list item)
| IAdd (xs : list item)          (* seq += xs : __iadd__ = extend *)
| Insert (pos : Z) (x : item)
| SetInt (i : Z) (x : item)
| SetSlice (start stop step : option Z) (xs : list item)
| DelInt (i : Z)
| DelSlice (start stop step : option Z).

Definition step (s : st) (o : op) : st * option string :=
  match o with
  | Append x => append s x
  | Extend xs => extend s xs
  | IAdd xs => extend s xs
  | Insert p x => insert s p x
  | SetInt i x => setitem_int s i x
  | SetSlice a b c xs => setitem_slice s a b c xs
  | DelInt i => delitem_int s i
  | DelSlice a b c => delitem_slice s a b c
  end.

Definition run (s : st) (ops : list op) : st := fold_left (fun s o => fst (step s o)) ops s.

(* ---- queries ------------------------------------------------------------------------- *)
(* ContentSequence(self._lut[name], is_root=self._is_root, is_sr=self._is_sr) *)
Definition find (s : st) (n : Z) : res (list item) :=
  match init (lut s n) (is_root s) (is_sr s) with
  | Ok s' => Ok (items s')
  | Err e => Err e
  end.

Fixpoint pos_of (x : item) (l : list item) (k : Z) : option Z :=
  match l with
  | [] => None
  | y :: l' => if item_eqb y x then Some k else pos_of x l' (k + 1)
  end.

Definition index (s : st) (x : item) : res Z :=
  if negb (is_item x) then Err ETYPE
  else if existsb (fun y => item_eqb y x) (lut s (iname x)) then
    match pos_of x (items s) 0 with      (* super().index(val) *)
    | Some k => Ok k
    | None => Err EVALUE
    end
  else Err EVALUE.

Definition contains (s : st) (x : item) : res bool :=
  match index s x with
  | Ok _ => Ok true
  | Err e => if String.eqb e EVALUE then Ok false else Err e
  end.

(* self.__class__([item for item in self if hasattr(item, 'ContentSequence')],
                  is_root=self._is_root, is_sr=self._is_sr) *)
Definition get_nodes (s : st) : res (list item) :=
  match init (filter inode (items s)) (is_root s) (is_sr s) with
  | Ok s' => Ok (items s')
  | Err e => Err e
  end.

(* ---- from_sequence / _check_dataset ------------------------------------------------------ *)
(* a pydicom Dataset handed to ContentSequence.from_sequence, abstracted to what
   _check_dataset, <Class>.from_dataset (_assert_value_type) and
   ContentItem._from_dataset_base look at *)
Record dset := DSet {
  d_isds : bool;     (* isinstance(dataset, Dataset) *)
  d_vt : Z;          (* ValueType: 0 = attribute missing, 1 = 'TEXT', 2 = 'CONTAINER', other = no value type *)
  d_hasval : bool;   (* has the attribute required for its value type (TextValue / ContinuityOfContent) *)
  d_hasname : bool;  (* has ConceptNameCodeSequence *)
  d_name : Z; d_rel : Z;
  d_kids : Z;        (* ContentSequence: 0 = no such attribute, 1 = well-formed children,
                        2 = a child lacks RelationshipType, other = a child has an unknown ValueType *)
  d_pay : Z }.

(* per dataset, in the order of the code: _check_dataset, then
   ContentItem._from_dataset_derived -> <Class>.from_dataset -> _assert_value_type ->
   _from_dataset_base (name, then the nested from_sequence(item.ContentSequence) with
   the default flags is_root=False, is_sr=True) *)
Definition ds_check (root sr : bool) (d : dset) : option string :=
  if negb (d_isds d) then Some ETYPE
  else if d_vt d =? 0 then Some EATTR
  else if negb ((d_vt d =? 1) || (d_vt d =? 2)) then Some EVALUE
  else if (d_rel d =? 0) && negb root && sr then Some EATTR
  else if negb (d_hasval d) then Some EATTR
  else if negb (d_hasname d) then Some EATTR
  else if d_kids d =? 0 then None
  else if d_kids d =? 1 then None
  else if d_kids d =? 2 then Some EATTR
  else Some EVALUE.

(* the ContentItem the dataset becomes (item.__class__ = cls) *)
Definition to_item (d : dset) : item :=
  Item true (d_name d) (d_rel d) (d_vt d =? 2) (negb (d_kids d =? 0)) (d_pay d).

(* for i, dataset in enumerate(sequence, 1): cls._check_dataset(...); item = ..._from_dataset_derived(...)
   return ContentSequence(content_items, is_root=is_root, is_sr=is_sr) *)
Definition from_sequence (ds : list dset) (root sr : bool) : res st :=
  match first_err (ds_check root sr) ds with
  | Some e => Err e
  | None => init (map to_item ds) root sr
  end.

(* ---- methods inherited from collections.abc.MutableSequence / Sequence ------------------- *)
(* ConstrainedList.__getitem__(int) *)
Definition getitem_int (s : st) (i : Z) : res item :=
  match norm_index i (zlen (items s)) with
  | None => Err EINDEX
  | Some p => match nth_error (items s) p with Some x => Ok x | None => Err EINDEX end
  end.

(* pop(index=-1): v = self[index]; del self[index]; return v *)
Definition pop (s : st) (i : Z) : st * res item :=
  match getitem_int s i with
  | Err e => (s, Err e)
  | Ok v => let '(s', e) := delitem_int s i in
            (s', match e with None => Ok v | Some k => Err k end)
  end.

(* remove(value): del self[self.index(value)] *)
Definition remove (s : st) (x : item) : st * option string :=
  match index s x with
  | Err e => (s, Some e)
  | Ok k => delitem_int s k
  end.

(* self[i], self[j] = self[j], self[i] : right-hand side first, then the two assignments in order *)
Definition swap (s : st) (i j : Z) : st * option string :=
  match getitem_int s j with
  | Err e => (s, Some e)
  | Ok b => match getitem_int s i with
            | Err e => (s, Some e)
            | Ok a => match setitem_int s i b with
                      | (s1, None) => setitem_int s1 j a
                      | r => r
                      end
            end
  end.

(* reverse(): n = len(self); for i in range(n // 2): self[i], self[n-i-1] = self[n-i-1], self[i] *)
Fixpoint reverse_loop (fuel : nat) (i n : Z) (s : st) : st * option string :=
  match fuel with
  | O => (s, None)
  | S fuel' => match swap s i (n - i - 1) with
               | (s', None) => reverse_loop fuel' (i + 1) n s'
               | r => r
               end
  end.
Definition reverse (s : st) : st * option string :=
  let n := zlen (items s) in reverse_loop (Z.to_nat (n / 2)) 0 n s.

(* clear(): try: while True: self.pop()  except IndexError: pass
   fuel = len + 1: one pop per item and the final one that raises IndexError *)
Fixpoint clear_loop (fuel : nat) (s : st) : st * option string :=
  match fuel with
  | O => (s, None)
  | S fuel' => match pop s (-1) with
               | (s', Ok _) => clear_loop fuel' s'
               | (s', Err e) => if String.eqb e EINDEX then (s', None) else (s', Some e)
               end
  end.
Definition clear (s : st) : st * option string := clear_loop (S (length (items s))) s.

(* count(value): sum(1 for v in self if v is value or v == value) *)
Definition count (s : st) (x : item) : Z := zlen (filter (fun y => item_eqb y x) (items s)).

(* all mutating operations *)
Inductive xop :=
| Op (o : op)
| Pop (i : Z)
| Remove (x : item)
| Reverse
| Clear
| ExtendSelf      (* seq.extend(seq): `if val is self: val = list(val)` - the CURRENT list is the argument *)
| IAddSelf.       (* seq += seq  (__iadd__ = extend) *)

(* new state, and: error class / returned item (pop) / nothing *)
Definition xstep (s : st) (o : xop) : st * res (option item) :=
  let lift (r : st * option string) : st * res (option item) :=
    (fst r, match snd r with None => Ok None | Some e => Err e end) in
  match o with
  | Op o => lift (step s o)
  | Pop i => let '(s', r) := pop s i in
             (s', match r with Ok v => Ok (Some v) | Err e => Err e end)
  | Remove x => lift (remove s x)
  | Reverse => lift (reverse s)
  | Clear => lift (clear s)
  | ExtendSelf | IAddSelf => lift (extend s (items s))
  end.

Definition xrun (s : st) (ops : list xop) : st := fold_left (fun s o => fst (xstep s o)) ops s.

(* the two constructors *)
Inductive ctor := FromList (l : list item) | FromSeq (ds : list dset).
Definition construct (c : ctor) (root sr : bool) : res st :=
  match c with
  | FromList l => init l root sr
  | FromSeq ds => from_sequence ds root sr
  end.

(* ---- reading: __getitem__ (int / slice), __reversed__ ------------------------------------------- *)
(* ConstrainedList.__getitem__(slice): self._list[idx] - a plain list; step 0 raises ValueError *)
Definition getitem_slice (s : st) (start stop step : option Z) : res (list item) :=
  let stp := step_of step in
  if stp =? 0 then Err EVALUE
  else let '(f, l, _) := slice_indices start stop stp (zlen (items s)) in Ok (slice_get f l stp (items s)).

(* collections.abc.Sequence.__reversed__: for i in reversed(range(len(self))): yield self[i] *)
Definition reversed (s : st) : list (res item) :=
  map (fun i => getitem_int s (Z.of_nat i)) (rev (seq 0 (length (items s)))).

(* ---- from_sequence over ALL fifteen value types ------------------------------------------------- *)
(* [dset] read with the full value-type table of _get_content_item_class / _assert_value_type:
     d_vt: 0 = attribute missing, 1 TEXT, 2 CONTAINER, 3 CODE, 4 NUM, 5 PNAME, 6 DATE, 7 TIME, 8 DATETIME,
           9 UIDREF, 10 COMPOSITE, 11 IMAGE, 12 SCOORD, 13 SCOORD3D, 14 TCOORD, 15 WAVEFORM, other = no value type
     d_hasval: has ALL attributes required for its value type (two for SCOORD / SCOORD3D)
   _from_dataset_base: the six classes COMPOSITE .. WAVEFORM have an OPTIONAL name - a dataset of these
   types without ConceptNameCodeSequence is given the default name (SCT, 260753009, "Source") and enters
   the name index under that name; for the other nine the missing name is an AttributeError. *)
Definition vt_known (v : Z) : bool := (1 <=? v) && (v <=? 15).
Definition vt_optname (v : Z) : bool := (10 <=? v) && (v <=? 15).
Definition DEFAULT_NAME : Z := 18.

Definition ds_check_x (root sr : bool) (d : dset) : option string :=
  if negb (d_isds d) then Some ETYPE
  else if d_vt d =? 0 then Some EATTR
  else if negb (vt_known (d_vt d)) then Some EVALUE
  else if (d_rel d =? 0) && negb root && sr then Some EATTR
  else if negb (d_hasval d) then Some EATTR
  else if negb (d_hasname d) && negb (vt_optname (d_vt d)) then Some EATTR
  else if d_kids d =? 0 then None
  else if d_kids d =? 1 then None
  else if d_kids d =? 2 then Some EATTR
  else Some EVALUE.

Definition to_item_x (d : dset) : item :=
  Item true (if d_hasname d then d_name d else DEFAULT_NAME) (d_rel d) (d_vt d =? 2) (negb (d_kids d =? 0)) (d_pay d).

Definition from_sequence_x (ds : list dset) (root sr : bool) : res st :=
  match first_err (ds_check_x root sr) ds with
  | Some e => Err e
  | None => init (map to_item_x ds) root sr
  end.

(* ---- boundary functions for the correspondence run -------------------------------------- *)
Definition vitem (x : item) : val :=
  VL [VZ (iname x); VZ (irel x); VB (icont x); VB (inode x); VZ (ipay x)].
Definition vitems (l : list item) : val := VL (map vitem l).
Definition verr (e : option string) : val := match e with None => VNone | Some k => VErr k end.

(* find results are compared as multisets: canonical order (insertion sort on the
   attribute tuple); the order inside the name index is not part of the property *)
Definition item_leb (a b : item) : bool :=
  if iname a <? iname b then true else if iname b <? iname a then false else
  if irel a <? irel b then true else if irel b <? irel a then false else
  if negb (icont a) && icont b then true else if icont a && negb (icont b) then false else
  if negb (inode a) && inode b then true else if inode a && negb (inode b) then false else
  ipay a <=? ipay b.
Fixpoint ins_sorted (x : item) (l : list item) : list item :=
  match l with
  | [] => [x]
  | y :: l' => if item_leb x y then x :: l else y :: ins_sorted x l'
  end.
Definition sort_items (l : list item) : list item := fold_right ins_sorted [] l.

(* fixed read probes: seq[i], seq[a:b:c] (a plain list), reversed(seq) *)
Definition READ_INTS : list Z := [-1; 2; -9].
Definition READ_SLICES : list (option Z * option Z * option Z) :=
  [(Some (-1), Some 0, Some (-2)); (Some 1, None, Some 3); (Some (-2), Some 7, None); (Some 0, None, Some 0)].

Definition observe (names : list Z) (qs : list item) (s : st) : val :=
  VL [vitems (items s);
      VL (map (fun n => vres (fun l => vitems (sort_items l)) (find s n)) names);
      VL (map (fun x => vres VZ (index s x)) qs);
      VL (map (fun x => vres VB (contains s x)) qs);
      vres vitems (get_nodes s);
      VB (is_root s); VB (is_sr s);
      VL (map (fun x => VZ (count s x)) qs);
      VL [VL (map (fun i => vres vitem (getitem_int s i)) READ_INTS);
          VL (map (fun q => match q with (a, b, c) => vres vitems (getitem_slice s a b c) end) READ_SLICES);
          VL (map (vres vitem) (reversed s))]].

Fixpoint run_ops (names : list Z) (qs : list item) (s : st) (ops : list op) : list val :=
  match ops with
  | [] => []
  | o :: os => let '(s', e) := step s o in
               VL [verr e; observe names qs s'] :: run_ops names qs s' os
  end.

Definition run_history (root sr : bool) (l0 : list item) (names : list Z) (qs : list item)
           (ops : list op) : val :=
  match init l0 root sr with
  | Err e => VErr e
  | Ok s => VL (observe names qs s :: run_ops names qs s ops)
  end.

Definition vxres (r : res (option item)) : val :=
  match r with Ok None => VNone | Ok (Some v) => vitem v | Err e => VErr e end.

Fixpoint run_xops (names : list Z) (qs : list item) (s : st) (ops : list xop) : list val :=
  match ops with
  | [] => []
  | o :: os => let '(s', r) := xstep s o in
               VL [vxres r; observe names qs s'] :: run_xops names qs s' os
  end.

(* a history over ALL mutating operations, from either constructor *)
Definition run_xhistory (root sr : bool) (c : ctor) (names : list Z) (qs : list item)
           (ops : list xop) : val :=
  match construct c root sr with
  | Err e => VErr e
  | Ok s => VL (observe names qs s :: run_xops names qs s ops)
  end.

(* item equality alone (Dataset.__eq__ vs structural equality) *)
Definition run_eq (a b : item) : val := VB (item_eqb a b).
(* Python list slicing alone: [l[a:b:c], del l[a:b:c]] on a list of payload-tagged items *)
Definition run_slice (n : Z) (start stop step : option Z) : val :=
  let xs := map (fun i => Item true 0 1 false false (Z.of_nat i)) (seq 0 (Z.to_nat n)) in
  let stp := step_of step in
  if stp =? 0 then VErr EVALUE
  else let '(f, l, _) := slice_indices start stop stp n in
       VL [vz_list (map ipay (slice_get f l stp xs)); vz_list (map ipay (slice_del f l stp xs));
           VZ (range_len f l stp)].

(* ---- families of sequences: sequences constructed from other sequences ------------------------- *)
(* how a new sequence is obtained from an existing one *)
Inductive derive :=
| DCtor (root sr : bool)   (* ContentSequence(seq, is_root=root, is_sr=sr); item.ContentSequence = seq is DCtor false true *)
| DCopy                    (* copy.deepcopy(seq): same items, same flags *)
| DFind (n : Z)            (* seq.find(name) *)
| DNodes.                  (* seq.get_nodes() *)

(* every one of them runs __init__ on a list of items: the new sequence gets a list and an index of its own *)
Definition derive_from (s : st) (d : derive) : res st :=
  match d with
  | DCtor root sr => init (items s) root sr
  | DCopy => init (items s) (is_root s) (is_sr s)
  | DFind n => init (lut s n) (is_root s) (is_sr s)
  | DNodes => init (filter inode (items s)) (is_root s) (is_sr s)
  end.

Inductive mop :=
| MOn (i : Z) (o : xop)          (* operation o on the i-th sequence of the family *)
| MDerive (src : Z) (d : derive). (* a new sequence (appended to the family) from the src-th one *)

Definition ENOSEQ : string := "NoSequence".

Definition get_seq (ss : list st) (i : Z) : option st :=
  if i <? 0 then None else nth_error ss (Z.to_nat i).

Fixpoint set_nth (ss : list st) (i : nat) (s : st) : list st :=
  match ss, i with
  | [], _ => []
  | _ :: r, O => s :: r
  | x :: r, S i' => x :: set_nth r i' s
  end.

(* an operation on one member changes that member only; a derivation changes no existing member *)
Definition mstep (ss : list st) (o : mop) : list st * res (option item) :=
  match o with
  | MOn i o => match get_seq ss i with
               | None => (ss, Err ENOSEQ)
               | Some s => let '(s', r) := xstep s o in (set_nth ss (Z.to_nat i) s', r)
               end
  | MDerive src d => match get_seq ss src with
                     | None => (ss, Err ENOSEQ)
                     | Some s => match derive_from s d with
                                 | Ok s' => (ss ++ [s'], Ok None)
                                 | Err e => (ss, Err e)
                                 end
                     end
  end.

Definition mrun (ss : list st) (ops : list mop) : list st := fold_left (fun ss o => fst (mstep ss o)) ops ss.

Fixpoint run_mops (names : list Z) (qs : list item) (ss : list st) (ops : list mop) : list val :=
  match ops with
  | [] => []
  | o :: os => let '(ss', r) := mstep ss o in
               VL [vxres r; VL (map (observe names qs) ss')] :: run_mops names qs ss' os
  end.

(* a history over a family of sequences; after every step ALL members are observed *)
Definition run_multi (root sr : bool) (c : ctor) (names : list Z) (qs : list item) (ops : list mop) : val :=
  match construct c root sr with
  | Err e => VErr e
  | Ok s => VL (VL [observe names qs s] :: run_mops names qs [s] ops)
  end.

(* a history from from_sequence over all value types *)
Definition run_xhistory_x (root sr : bool) (ds : list dset) (names : list Z) (qs : list item)
           (ops : list xop) : val :=
  match from_sequence_x ds root sr with
  | Err e => VErr e
  | Ok s => VL (observe names qs s :: run_xops names qs s ops)
  end.
