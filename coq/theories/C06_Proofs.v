(* C06 - proofs about the model in C06_Model.v. *)
From Coq Require Import String ZArith List Bool Lia ZifyBool QArith Qfield Lqa Qminmax.
From HD Require Import Base.Val C06_Model.
Import ListNotations.
Open Scope Z_scope.
Ltac Zify.zify_post_hook ::= Z.to_euclidean_division_equations.

(* ================================================================== *)
(* 1. flag gate: finite table over the whole domain                    *)
(* ================================================================== *)
Definition all_tri := [TT; TF; TN].
Definition all_bool := [true; false].
Definition all_ct := [Mono; Palette; Color].
Definition all_flags : list flags :=
  flat_map (fun a => flat_map (fun b => flat_map (fun c => flat_map (fun p =>
  flat_map (fun pa => map (fun ic => Flags a b c p pa ic) all_tri) all_tri) all_bool) all_tri) all_tri) all_tri.

Lemma all_tri_complete t : In t all_tri. Proof. destruct t; simpl; auto. Qed.
Lemma all_bool_complete b : In b all_bool. Proof. destruct b; simpl; auto. Qed.
Lemma all_ct_complete c : In c all_ct. Proof. destruct c; simpl; auto. Qed.
Lemma all_flags_complete fl : In fl all_flags.
Proof.
  destruct fl as [a b c p pa ic]. unfold all_flags.
  apply in_flat_map; exists a; split; [apply all_tri_complete|].
  apply in_flat_map; exists b; split; [apply all_tri_complete|].
  apply in_flat_map; exists c; split; [apply all_tri_complete|].
  apply in_flat_map; exists p; split; [apply all_bool_complete|].
  apply in_flat_map; exists pa; split; [apply all_tri_complete|].
  apply in_map. apply all_tri_complete.
Qed.

Definition tri_eqb (a b : tri) : bool :=
  match a, b with TT, TT | TF, TF | TN, TN => true | _, _ => false end.

(* the incompatibilities the code enforces, written as one formula *)
Definition incompatible (f : flags) (ct : ctype) : bool :=
  (tri_eqb (f_rwvm f) TT && tri_eqb (f_mod f) TT)
  || (tri_eqb (f_rwvm f) TT && tri_eqb (f_voi f) TT)
  || (negb (tri_eqb (f_rwvm f) TT) && negb (tri_eqb (f_voi f) TF) && tri_eqb (f_mod f) TF)
  || (negb (is_mono ct) && (tri_eqb (f_rwvm f) TT || tri_eqb (f_mod f) TT || tri_eqb (f_voi f) TT))
  || (tri_eqb (f_pal f) TT && negb (is_pal ct))
  || (negb (tri_eqb (f_icc f) TF) && tri_eqb (f_pal f) TF)
  || (tri_eqb (f_icc f) TT && is_mono ct).

Definition uses_eqb (a b : uses) : bool :=
  Bool.eqb (use_rwvm a) (use_rwvm b) && Bool.eqb (req_rwvm a) (req_rwvm b) &&
  Bool.eqb (use_mod a) (use_mod b) && Bool.eqb (req_mod a) (req_mod b) &&
  Bool.eqb (use_voi a) (use_voi b) && Bool.eqb (req_voi a) (req_voi b) &&
  Bool.eqb (use_pal a) (use_pal b) && Bool.eqb (req_pal a) (req_pal b) &&
  Bool.eqb (use_icc a) (use_icc b) && Bool.eqb (req_icc a) (req_icc b).

(* what each tri-state means once the gate is passed *)
Definition expected_uses (f : flags) : uses :=
  Uses (negb (tri_eqb (f_rwvm f) TF) && negb (tri_eqb (f_mod f) TT)) (tri_eqb (f_rwvm f) TT)
       (negb (tri_eqb (f_mod f) TF) && negb (tri_eqb (f_rwvm f) TT)) (tri_eqb (f_mod f) TT)
       (negb (tri_eqb (f_voi f) TF) && negb (tri_eqb (f_rwvm f) TT && negb (tri_eqb (f_voi f) TT)))
       (tri_eqb (f_voi f) TT)
       (negb (tri_eqb (f_pal f) TF)) (tri_eqb (f_pal f) TT)
       (negb (tri_eqb (f_icc f) TF)) (tri_eqb (f_icc f) TT).

Definition gate_check (f : flags) (ct : ctype) : bool :=
  match gate f ct with
  | Err k => incompatible f ct && String.eqb k "ValueError"
  | Ok u => negb (incompatible f ct) && uses_eqb u (expected_uses f)
  end.

Lemma gate_table : forallb (fun f => forallb (gate_check f) all_ct) all_flags = true.
Proof. vm_compute. reflexivity. Qed.

Lemma uses_eqb_eq a b : uses_eqb a b = true -> a = b.
Proof.
  destruct a, b; unfold uses_eqb; cbn.
  repeat rewrite andb_true_iff. intros H.
  repeat match goal with H : _ /\ _ |- _ => destruct H end.
  repeat match goal with H : Bool.eqb _ _ = true |- _ => apply eqb_prop in H end.
  subst. reflexivity.
Qed.

Lemma gate_spec : forall f ct,
  (gate f ct = Err "ValueError" <-> incompatible f ct = true) /\
  (forall k, gate f ct = Err k -> k = "ValueError"%string) /\
  (forall u, gate f ct = Ok u -> incompatible f ct = false /\ u = expected_uses f).
Proof.
  intros f ct.
  pose proof gate_table as T. rewrite forallb_forall in T.
  specialize (T f (all_flags_complete f)). rewrite forallb_forall in T.
  specialize (T ct (all_ct_complete ct)). unfold gate_check in T.
  destruct (gate f ct) as [u|k] eqn:G.
  - apply andb_true_iff in T. destruct T as [T1 T2]. apply negb_true_iff in T1.
    split; [split; [discriminate | congruence] |]. split; [discriminate|].
    intros u' Hu. inversion Hu; subst. split; [assumption | now apply uses_eqb_eq].
  - apply andb_true_iff in T. destruct T as [T1 T2]. apply String.eqb_eq in T2. subst k.
    split; [split; auto |]. split; [intros k Hk; now inversion Hk | discriminate].
Qed.

(* ================================================================== *)
(* 2. discovery respects the gate (tri-state at the level of stages)   *)
(* ================================================================== *)
Definition some {A} (o : option A) : bool := match o with Some _ => true | None => false end.

Lemma discover_rwvm : forall u pres ds rsel vsel fi fd,
  discover u pres ds rsel vsel fi = Ok fd ->
  (use_rwvm u = false -> fd_rwvm fd = None) /\
  (req_rwvm u = true -> fd_rwvm fd <> None) /\
  (use_rwvm u = true -> forall lvls, levels ds fi = Ok lvls ->
     (fd_rwvm fd <> None <-> first_some lv_rwvm lvls <> None)).
Proof.
  intros u pres ds rsel vsel fi fd. unfold discover, discover_at, bind.
  destruct (levels ds fi) as [lvls|] eqn:L; [|discriminate].
  destruct (use_rwvm u) eqn:U.
  - destruct (first_some lv_rwvm lvls) as [rs|] eqn:FS.
    + destruct (select_rwvm rs rsel) as [r|]; [|discriminate].
      cbn [negb andb]. rewrite andb_false_r.
      repeat match goal with
             | |- context [if ?c then _ else _] => destruct c
             | |- context [match ?c with _ => _ end] => destruct c
             end; intros H; inversion H; subst; cbn;
        (split; [discriminate|]; split; [discriminate|]);
        intros _ l' Hl; inversion Hl; subst; rewrite FS; split; discriminate.
    + cbn [negb andb]. rewrite andb_true_r.
      destruct (req_rwvm u) eqn:R; [discriminate|].
      repeat match goal with
             | |- context [if ?c then _ else _] => destruct c
             | |- context [match ?c with _ => _ end] => destruct c
             end; intros H; inversion H; subst; cbn;
        (split; [discriminate|]; split; [discriminate|]);
        intros _ l' Hl; inversion Hl; subst; rewrite FS; split; intros X; now elim X.
  - cbn [negb andb]. rewrite andb_true_r.
    destruct (req_rwvm u) eqn:R; [discriminate|].
    repeat match goal with
           | |- context [if ?c then _ else _] => destruct c
           | |- context [match ?c with _ => _ end] => destruct c
           end; intros H; inversion H; subst; cbn;
      (split; [reflexivity|]; split; discriminate).
Qed.

Lemma discover_modality : forall u pres ds rsel vsel fi fd,
  discover u pres ds rsel vsel fi = Ok fd ->
  (use_mod u = false -> fd_modlut fd = None /\ fd_rescale fd = None) /\
  (req_mod u = true -> fd_modlut fd <> None \/ fd_rescale fd <> None) /\
  (fd_rwvm fd <> None -> fd_modlut fd = None /\ fd_rescale fd = None /\
                         fd_voilut fd = None /\ fd_window fd = None) /\
  (use_mod u = true -> fd_rwvm fd = None -> forall lvls, levels ds fi = Ok lvls ->
     fd_modlut fd = d_modlut ds /\
     fd_rescale fd = match d_modlut ds with Some _ => None | None => first_some level_rescale lvls end).
Proof.
  intros u pres ds rsel vsel fi fd. unfold discover, discover_at, bind.
  destruct (levels ds fi) as [lvls|] eqn:L; [|discriminate].
  destruct (if use_rwvm u then _ else _) as [rw|] eqn:RW; [|discriminate].
  destruct rw as [rk|]; cbn [negb andb].
  - rewrite andb_false_r. cbn [andb].
    destruct (req_mod u && true) eqn:RM; [discriminate|].
    destruct (req_voi u && true) eqn:RV; [discriminate|].
    intros H; inversion H; subst; cbn.
    rewrite andb_true_r in RM.
    split; [auto|]. split; [intros X; congruence|]. split; [auto|]. intros _ X; discriminate.
  - rewrite andb_true_r.
    destruct (req_rwvm u); [discriminate|].
    destruct (use_mod u) eqn:UM; cbn [andb].
    + destruct (d_modlut ds) as [ml|] eqn:ML.
      * rewrite andb_false_r.
        repeat match goal with
               | |- context [if ?c then _ else _] => destruct c
               | |- context [match ?c with _ => _ end] => destruct c
               end; intros H; inversion H; subst; cbn;
          (split; [discriminate|]; split; [intros _; left; discriminate|]; split; [intros X; now elim X|]);
          intros _ _ l' Hl; inversion Hl; subst; auto.
      * destruct (first_some level_rescale lvls) as [rs|] eqn:FS.
        -- rewrite andb_false_r.
           repeat match goal with
                  | |- context [if ?c then _ else _] => destruct c
                  | |- context [match ?c with _ => _ end] => destruct c
                  end; intros H; inversion H; subst; cbn;
             (split; [discriminate|]; split; [intros _; right; discriminate|]; split; [intros X; now elim X|]);
             intros _ _ l' Hl; inversion Hl; subst; auto.
        -- rewrite andb_true_r. destruct (req_mod u) eqn:RM; [discriminate|].
           repeat match goal with
                  | |- context [if ?c then _ else _] => destruct c
                  | |- context [match ?c with _ => _ end] => destruct c
                  end; intros H; inversion H; subst; cbn;
             (split; [discriminate|]; split; [discriminate|]; split; [intros X; now elim X|]);
             intros _ _ l' Hl; inversion Hl; subst; auto.
    + rewrite andb_true_r. destruct (req_mod u) eqn:RM; [discriminate|].
      repeat match goal with
             | |- context [if ?c then _ else _] => destruct c
             | |- context [match ?c with _ => _ end] => destruct c
             end; intros H; inversion H; subst; cbn;
        (split; [auto|]; split; [discriminate|]; split; [intros X; now elim X|]);
        intros X; discriminate.
Qed.

Lemma discover_voi : forall u pres ds rsel vsel fi fd,
  discover u pres ds rsel vsel fi = Ok fd ->
  (use_voi u = false -> fd_voilut fd = None /\ fd_window fd = None) /\
  (req_voi u = true -> fd_voilut fd <> None \/ fd_window fd <> None) /\
  (pres = false -> fd_invert fd = false) /\
  fd_invert fd = pres && ds_invert ds.
Proof.
  intros u pres ds rsel vsel fi fd. unfold discover, discover_at, bind.
  destruct (levels ds fi) as [lvls|] eqn:L; [|discriminate].
  destruct (if use_rwvm u then _ else _) as [rw|] eqn:RW; [|discriminate].
  destruct (req_rwvm u && _); [discriminate|].
  destruct (req_mod u && _); [discriminate|].
  destruct (if negb _ && use_voi u then _ else _) as [[[vl wn] fn]|] eqn:V; [|discriminate].
  destruct (req_voi u && _) eqn:RV; [discriminate|].
  intros H; inversion H; subst; cbn.
  split.
  - intros UV. rewrite UV in V. rewrite andb_false_r in V. inversion V; subst. auto.
  - split.
    + intros R. rewrite R in RV. cbn in RV. destruct vl, wn; try discriminate; auto;
        try (left; discriminate); right; discriminate.
    + split; [intros ->; reflexivity | reflexivity].
Qed.

(* ================================================================== *)
(* 3. LUT objects                                                      *)
(* ================================================================== *)
Lemma zlen_app {A} (a b : list A) : zlen (a ++ b) = zlen a + zlen b.
Proof. unfold zlen. rewrite app_length. lia. Qed.
Lemma zlen_cons {A} (a : A) l : zlen (a :: l) = zlen l + 1.
Proof. unfold zlen. cbn [length]. lia. Qed.
Lemma zlen_nonneg {A} (l : list A) : 0 <= zlen l. Proof. unfold zlen. lia. Qed.
Lemma zlen_map {A B} (f : A -> B) l : zlen (map f l) = zlen l.
Proof. unfold zlen. now rewrite map_length. Qed.

Lemma dec16_enc16 : forall l, Forall (fun v => 0 <= v < 65536) l -> dec16 (enc16 l) = l.
Proof.
  induction l as [|v l IH]; intros H; [reflexivity|].
  inversion H; subst. unfold enc16 in *. cbn [flat_map app dec16].
  rewrite IH by assumption. f_equal. lia.
Qed.
Lemma zlen_enc16 l : zlen (enc16 l) = 2 * zlen l.
Proof. induction l as [|v l IH]; [reflexivity|]. unfold enc16 in *. cbn [flat_map app].
  rewrite !zlen_cons, IH. lia. Qed.

Definition lut_ok (first : Z) (data : list Z) (bits : Z) : Prop :=
  0 <= first < 65536 /\ 1 <= zlen data <= 65536 /\ (bits = 8 \/ bits = 16) /\
  Forall (fun v => 0 <= v < 2 ^ bits) data.

(* LUT(first, data).lut_data = data, in memory and after a file round trip (odd 8-bit tables are
   padded in both; a one-entry table comes back from a file as a bare int): NO exception left *)
Lemma lut_identity_full : forall first data bits expl pad,
  lut_ok first data bits ->
  exists l, mk_lut first data bits expl pad = Ok l /\
            lut_data l = Ok data /\ ld_first l = first /\ ld_bits l = bits /\
            lut_entries l = zlen data /\
            ld_n l = (if zlen data =? 65536 then 0 else zlen data).
Proof.
  intros first data bits expl pad (Hf & Hn & Hb & Hv).
  unfold mk_lut.
  replace (first <? 0) with false by lia. replace (65536 <=? first) with false by lia.
  replace (zlen data =? 0) with false by lia. replace (65536 <? zlen data) with false by lia.
  replace ((bits =? 8) || (bits =? 16)) with true by lia. cbn [negb].
  eexists. split; [reflexivity|].
  unfold lut_data, lut_entries. cbn [ld_bits ld_n ld_bytes ld_first ld_scalar].
  replace ((bits =? 8) || (bits =? 16)) with true by lia. cbn [negb].
  set (n := zlen data) in *.
  assert (Hent : (if (if n =? 65536 then 0 else n) =? 0 then 65536 else (if n =? 65536 then 0 else n)) = n).
  { destruct (n =? 65536) eqn:E; cbn; [lia|]. replace (n =? 0) with false by lia. reflexivity. }
  rewrite Hent.
  split; [| repeat split; reflexivity].
  destruct (pad && (n =? 1)) eqn:SC.
  - (* bare int: exactly one entry *)
    apply andb_true_iff in SC. destruct SC as [_ N1]. assert (n = 1) by lia.
    destruct data as [|v [|w t]]; unfold n, zlen in *; cbn [length] in *; try lia.
    inversion Hv as [|? ? Hv0 _]; subst.
    destruct Hb as [-> | ->]; cbn [Z.eqb Pos.eqb andb]; change (2 ^ 8) with 256 in *; change (2 ^ 16) with 65536 in *.
    + cbn -[Z.mul Z.add Z.div Z.modulo Z.leb Z.pow]. change (1 mod 2 =? 1) with true.
      cbn -[Z.mul Z.add Z.div Z.modulo Z.leb Z.pow]. replace (256 <=? v + 256 * 0) with false by lia.
      cbn -[Z.mul Z.add Z.div Z.modulo Z.leb Z.pow]. f_equal. f_equal. lia.
    + cbn -[Z.mul Z.add Z.div Z.modulo Z.leb Z.pow]. change (2 mod 2 =? 1) with false.
      cbn -[Z.mul Z.add Z.div Z.modulo Z.leb Z.pow].
      replace (v mod 256 + 256 * (v / 256)) with v by lia. reflexivity.
  - subst n.
    destruct Hb as [-> | ->].
    + (* 8 bit *)
      cbn [Z.eqb Pos.eqb andb].
      destruct (zlen data mod 2 =? 1) eqn:Odd.
      * rewrite zlen_app. change (zlen [0]) with 1.
        rewrite Z.eqb_refl.
        rewrite removelast_last. rewrite Z.eqb_refl. reflexivity.
      * rewrite Z.eqb_refl. reflexivity.
    + (* 16 bit *)
      cbn [Z.eqb Pos.eqb andb].
      assert (Ev : (zlen (enc16 data) mod 2 =? 1) = false)
        by (rewrite zlen_enc16, Z.mul_comm, Z_mod_mult; reflexivity).
      rewrite Ev.
      rewrite dec16_enc16 by (eapply Forall_impl; [|exact Hv]; cbn; intros; lia).
      rewrite Z.eqb_refl. reflexivity.
Qed.

(* the earlier statement (with the exception of one-entry 8-bit tables read from a file) *)
Lemma lut_identity : forall first data bits expl pad,
  lut_ok first data bits -> (pad = true -> bits = 8 -> zlen data <> 1) ->
  exists l, mk_lut first data bits expl pad = Ok l /\
            lut_data l = Ok data /\ ld_first l = first /\ ld_bits l = bits /\
            lut_entries l = zlen data /\
            ld_n l = (if zlen data =? 65536 then 0 else zlen data).
Proof. intros first data bits expl pad H _. now apply lut_identity_full. Qed.

(* table lookup with clipping *)
Lemma lut_lookup_below {A} (d : A) first a t x : x <= first -> lut_lookup d first (a :: t) x = a.
Proof.
  intros H. unfold lut_lookup, lut_index, Zclip. rewrite zlen_cons.
  pose proof (zlen_nonneg t).
  replace (Z.to_nat (Z.max first (Z.min (first + (zlen t + 1) - 1) x) - first)) with O by lia.
  reflexivity.
Qed.
Lemma lut_lookup_above {A} (d : A) first l z x :
  first + zlen l <= x -> lut_lookup d first (l ++ [z]) x = z.
Proof.
  intros H. unfold lut_lookup, lut_index, Zclip. rewrite zlen_app. change (zlen [z]) with 1.
  pose proof (zlen_nonneg l).
  replace (Z.to_nat (Z.max first (Z.min (first + (zlen l + 1) - 1) x) - first)) with (length l)
    by (unfold zlen in *; lia).
  rewrite app_nth2 by lia. now rewrite Nat.sub_diag.
Qed.
Lemma lut_lookup_inside {A} (d : A) first data x :
  first <= x < first + zlen data ->
  nth_error data (Z.to_nat (x - first)) = Some (lut_lookup d first data x).
Proof.
  intros H. unfold lut_lookup, lut_index, Zclip.
  replace (Z.max first (Z.min (first + zlen data - 1) x) - first) with (x - first) by lia.
  apply nth_error_nth'. unfold zlen in *. lia.
Qed.
Lemma lut_lookup_map {A B} (f : A -> B) (d : A) (d' : B) first data x :
  data <> [] -> lut_lookup d' first (map f data) x = f (lut_lookup d first data x).
Proof.
  intros Hne. unfold lut_lookup. rewrite zlen_map.
  set (i := Z.to_nat (lut_index first (zlen data) x)).
  assert (Hi : (i < length data)%nat).
  { subst i. unfold lut_index, Zclip, zlen. destruct data; [congruence|]. cbn [length]. lia. }
  rewrite (nth_indep _ d' (f d)) by (now rewrite map_length). apply map_nth.
Qed.

(* min / max of a list *)
Lemma list_min_le : forall l d, list_min d l <= d /\ Forall (fun v => list_min d l <= v) l.
Proof.
  induction l as [|a l IH]; intros d; cbn [list_min fold_left]; [split; [lia | constructor]|].
  destruct (IH (Z.min d a)) as [H1 H2]. fold (list_min (Z.min d a) l) in *.
  split; [lia|]. constructor; [lia | exact H2].
Qed.
Lemma list_max_ge : forall l d, d <= list_max d l /\ Forall (fun v => v <= list_max d l) l.
Proof.
  induction l as [|a l IH]; intros d; cbn [list_max fold_left]; [split; [lia | constructor]|].
  destruct (IH (Z.max d a)) as [H1 H2]. fold (list_max (Z.max d a) l) in *.
  split; [lia|]. constructor; [lia | exact H2].
Qed.
Lemma list_min_in : forall l d, list_min d l = d \/ In (list_min d l) l.
Proof.
  induction l as [|a l IH]; intros d; cbn [list_min fold_left]; [now left|].
  fold (list_min (Z.min d a) l). destruct (IH (Z.min d a)) as [H|H]; [|right; now right].
  rewrite H. destruct (Z.min_spec d a) as [[_ ->]|[_ ->]]; [now left | right; now left].
Qed.
Lemma list_max_in : forall l d, list_max d l = d \/ In (list_max d l) l.
Proof.
  induction l as [|a l IH]; intros d; cbn [list_max fold_left]; [now left|].
  fold (list_max (Z.max d a) l). destruct (IH (Z.max d a)) as [H|H]; [|right; now right].
  rewrite H. destruct (Z.max_spec d a) as [[_ ->]|[_ ->]]; [right; now left | now left].
Qed.
Lemma lmin_spec l : l <> [] -> In (lmin l) l /\ Forall (fun v => lmin l <= v) l.
Proof.
  destruct l as [|a t]; [congruence|]. intros _. unfold lmin.
  destruct (list_min_le t a) as [H1 H2]. split.
  - destruct (list_min_in t a) as [->|H]; [now left | now right].
  - constructor; assumption.
Qed.
Lemma lmax_spec l : l <> [] -> In (lmax l) l /\ Forall (fun v => v <= lmax l) l.
Proof.
  destruct l as [|a t]; [congruence|]. intros _. unfold lmax.
  destruct (list_max_ge t a) as [H1 H2]. split.
  - destruct (list_max_in t a) as [->|H]; [now left | now right].
  - constructor; assumption.
Qed.

(* get_inverted_lut_data: the modular arithmetic of numpy equals min + max - v *)
Lemma inverted_lut_exact : forall bits data, 0 < bits ->
  Forall (fun v => 0 <= v < 2 ^ bits) data ->
  inverted_lut_data bits data = map (fun v => lmin data + lmax data - v) data.
Proof.
  intros bits data Hb Hv. unfold inverted_lut_data.
  destruct data as [|a t]; [reflexivity|].
  assert (Hne : a :: t <> []) by discriminate.
  destruct (lmin_spec _ Hne) as [Imin Lmin]. destruct (lmax_spec _ Hne) as [Imax Lmax].
  rewrite Forall_forall in Hv, Lmin, Lmax.
  pose proof (Hv _ Imin) as Rmin. pose proof (Hv _ Imax) as Rmax.
  apply map_ext_in. intros v Hin.
  pose proof (Hv _ Hin) as Rv. pose proof (Lmin _ Hin). pose proof (Lmax _ Hin).
  set (M := 2 ^ bits) in *. assert (0 < M) by (subst M; lia).
  rewrite Zminus_mod_idemp_l. apply Z.mod_small. lia.
Qed.

(* ================================================================== *)
(* 4. selectors                                                        *)
(* ================================================================== *)
Lemma py_nth_spec {A} (l : list A) (i : Z) (v : A) :
  py_nth l i = Some v <->
  exists k, 0 <= k < zlen l /\ (i = k \/ i = k - zlen l) /\ nth_error l (Z.to_nat k) = Some v.
Proof.
  unfold py_nth. set (n := zlen l). split.
  - destruct ((0 <=? i) && (i <? n)) eqn:E1.
    + intros H. exists i. split; [lia|]. split; [now left | exact H].
    + destruct ((- n <=? i) && (i <? 0)) eqn:E2; [|discriminate].
      intros H. exists (i + n). split; [lia|]. split; [right; lia | exact H].
  - intros (k & Hk & [->| ->] & Hn).
    + replace ((0 <=? k) && (k <? n)) with true by lia. exact Hn.
    + replace ((0 <=? k - n) && (k - n <? n)) with false by lia.
      replace ((- n <=? k - n) && (k - n <? 0)) with true by lia.
      now replace (k - n + n) with k by lia.
Qed.
Lemma py_nth_none {A} (l : list A) (i : Z) :
  py_nth l i = None <-> (i < - zlen l \/ zlen l <= i).
Proof.
  unfold py_nth. set (n := zlen l). split.
  - destruct ((0 <=? i) && (i <? n)) eqn:E1.
    + intros H. apply nth_error_None in H. unfold n, zlen in *. lia.
    + destruct ((- n <=? i) && (i <? 0)) eqn:E2; [|lia].
      intros H. apply nth_error_None in H. unfold n, zlen in *. lia.
  - intros H. replace ((0 <=? i) && (i <? n)) with false by lia.
    replace ((- n <=? i) && (i <? 0)) with false by lia. reflexivity.
Qed.

(* list.index: the FIRST position holding the key *)
Lemma index_of_spec {A} (eqb : A -> A -> bool) (k : A) : forall l i,
  index_of eqb k l = Some i <->
  0 <= i /\ (exists x, nth_error l (Z.to_nat i) = Some x /\ eqb x k = true) /\
  (forall j x, 0 <= j < i -> nth_error l (Z.to_nat j) = Some x -> eqb x k = false).
Proof.
  induction l as [|a l IH]; intros i; cbn [index_of].
  - split; [discriminate|]. intros (_ & (x & Hx & _) & _). destruct (Z.to_nat i); discriminate.
  - destruct (eqb a k) eqn:E.
    + split.
      * intros H; inversion H; subst. split; [lia|]. split; [exists a; now split|]. intros; lia.
      * intros (Hi & (x & Hx & Ex) & Hfirst).
        destruct (Z.eq_dec i 0) as [->|Hne]; [reflexivity|].
        specialize (Hfirst 0 a ltac:(lia) eq_refl). congruence.
    + destruct (index_of eqb k l) as [i'|] eqn:I.
      * split.
        -- intros H; inversion H; subst. destruct (proj1 (IH i') eq_refl) as (H0 & (x & Hx & Ex) & Hf).
           split; [lia|]. split.
           ++ exists x. replace (Z.to_nat (i' + 1)) with (S (Z.to_nat i')) by lia. now split.
           ++ intros j y Hj Hy. destruct (Z.eq_dec j 0) as [->|Hne].
              ** cbn in Hy. inversion Hy; subst. exact E.
              ** replace (Z.to_nat j) with (S (Z.to_nat (j - 1))) in Hy by lia. cbn in Hy.
                 apply (Hf (j - 1) y); [lia | exact Hy].
        -- intros (Hi & (x & Hx & Ex) & Hfirst).
           destruct (Z.eq_dec i 0) as [->|Hne]; [cbn in Hx; inversion Hx; subst; congruence|].
           replace (Z.to_nat i) with (S (Z.to_nat (i - 1))) in Hx by lia. cbn in Hx.
           assert (Some i' = Some (i - 1)) as Hi1.
           { apply IH. split; [lia|]. split; [exists x; now split|].
             intros j y Hj Hy. apply (Hfirst (j + 1) y); [lia|].
             replace (Z.to_nat (j + 1)) with (S (Z.to_nat j)) by lia. exact Hy. }
           inversion Hi1. f_equal. lia.
      * split; [discriminate|].
        intros (Hi & (x & Hx & Ex) & Hfirst).
        destruct (Z.eq_dec i 0) as [->|Hne]; [cbn in Hx; inversion Hx; subst; congruence|].
        replace (Z.to_nat i) with (S (Z.to_nat (i - 1))) in Hx by lia. cbn in Hx.
        assert (None = Some (i - 1)) as Hi1.
        { apply IH. split; [lia|]. split; [exists x; now split|].
          intros j y Hj Hy. apply (Hfirst (j + 1) y); [lia|].
          replace (Z.to_nat (j + 1)) with (S (Z.to_nat j)) by lia. exact Hy. }
        discriminate.
Qed.

(* the three selectors are py_nth after an optional key search *)
Lemma select_window_idx w i : select_window w (SIdx i) = pick_window w i.
Proof. reflexivity. Qed.
Lemma pick_window_spec w i c wd :
  pick_window w i = Some (c, wd) <-> py_nth (w_centers w) i = Some c /\ py_nth (w_widths w) i = Some wd.
Proof.
  unfold pick_window. destruct (py_nth (w_widths w) i) as [x|]; destruct (py_nth (w_centers w) i) as [y|];
    split; try discriminate; try (intros [? ?]; discriminate).
  - intros H; inversion H; auto.
  - intros [H1 H2]; inversion H1; inversion H2; reflexivity.
Qed.

(* ================================================================== *)
(* 5. per-frame discovery                                              *)
(* ================================================================== *)
Lemma levels_spec ds fi pf l :
  d_perframe ds = Some pf -> 0 <= fi -> nth_error pf (Z.to_nat fi) = Some l ->
  levels ds fi = Ok (d_root ds :: l :: (match d_shared ds with Some s => [s] | None => [] end)).
Proof.
  intros Hp Hf Hn. unfold levels. rewrite Hp. replace (0 <=? fi) with true by lia. rewrite Hn. reflexivity.
Qed.

Lemma first_some_app {A B} (f : A -> option B) l1 l2 :
  first_some f (l1 ++ l2) = match first_some f l1 with Some b => Some b | None => first_some f l2 end.
Proof.
  induction l1 as [|a l1 IH]; [reflexivity|]. cbn. destruct (f a); [reflexivity | exact IH].
Qed.

(* the parameters used for frame fi are those of frame fi's own group whenever it has them
   (per-frame over shared); otherwise the shared group's *)
Lemma per_frame_wins {B} (f : level -> option B) ds fi pf l b :
  d_perframe ds = Some pf -> 0 <= fi -> nth_error pf (Z.to_nat fi) = Some l ->
  f (d_root ds) = None -> f l = Some b ->
  exists lvls, levels ds fi = Ok lvls /\ first_some f lvls = Some b.
Proof.
  intros Hp Hf Hn Hr Hb. eexists. split; [eapply levels_spec; eassumption|].
  cbn. rewrite Hr, Hb. reflexivity.
Qed.
Lemma shared_fallback {B} (f : level -> option B) ds fi pf l s :
  d_perframe ds = Some pf -> 0 <= fi -> nth_error pf (Z.to_nat fi) = Some l ->
  f (d_root ds) = None -> f l = None -> d_shared ds = Some s ->
  exists lvls, levels ds fi = Ok lvls /\ first_some f lvls = f s.
Proof.
  intros Hp Hf Hn Hr Hl Hs. eexists. split; [eapply levels_spec; eassumption|].
  rewrite Hs. cbn. rewrite Hr, Hl. destruct (f s); reflexivity.
Qed.

(* ================================================================== *)
(* 6. window functions and foldings over Q                             *)
(* ================================================================== *)
Open Scope Q_scope.

Lemma Qclip_compat lo hi a b : a == b -> Qclip lo hi a == Qclip lo hi b.
Proof. intros H. unfold Qclip. rewrite H. reflexivity. Qed.

Lemma Qclip_cases lo hi y : lo <= hi ->
  (y <= lo /\ Qclip lo hi y == lo) \/ (hi <= y /\ Qclip lo hi y == hi) \/
  (lo <= y /\ y <= hi /\ Qclip lo hi y == y).
Proof.
  intros H. unfold Qclip.
  destruct (Qlt_le_dec y lo) as [L|L].
  - left. split; [lra|]. rewrite Q.max_l; [reflexivity|].
    apply Q.min_le_iff. right. lra.
  - destruct (Qlt_le_dec hi y) as [G|G].
    + right; left. split; [lra|]. rewrite Q.min_l by lra. rewrite Q.max_r by lra. reflexivity.
    + right; right. split; [lra|]. split; [lra|]. rewrite Q.min_r by lra. rewrite Q.max_r by lra. reflexivity.
Qed.

Lemma Qclip_invert lo hi y : lo <= hi -> Qclip lo hi (lo + hi - y) == lo + hi - Qclip lo hi y.
Proof.
  intros H.
  destruct (Qclip_cases lo hi y H) as [[A ->]|[[A ->]|(A & B & ->)]];
  destruct (Qclip_cases lo hi (lo + hi - y) H) as [[A' ->]|[[A' ->]|(A' & B' & ->)]]; lra.
Qed.

Section Windows.
Variable E : Q -> Q.
Hypothesis E_compat : forall a b, a == b -> E a == E b.

Definition is_linear (fn : vfn) : bool := match fn with Sigmoid => false | _ => true end.

(* presentation inversion folded into a LINEAR / LINEAR_EXACT window *)
Lemma window_invert_linear fn c w ymin ymax x : is_linear fn = true -> ymin <= ymax ->
  window E fn c w ymin ymax true x == ymin + ymax - window E fn c w ymin ymax false x.
Proof.
  intros L H. destruct fn; [| |discriminate]; unfold window;
    rewrite <- Qclip_invert by assumption; apply Qclip_compat; ring.
Qed.

(* folding a rescale (slope m, intercept b) into the window (image.py:762-779) *)
Lemma fold_window_exact c w ymin ymax m b inv x : ~ m == 0 -> ~ w == 0 ->
  window E LinearExact ((c - b) / m) (w / m) ymin ymax inv x ==
  window E LinearExact c w ymin ymax inv (m * x + b).
Proof.
  intros Hm Hw. unfold window. apply Qclip_compat. destruct inv; field; split; assumption.
Qed.
Lemma fold_window_linear c w ymin ymax m b inv x : ~ m == 0 -> ~ w - 1 == 0 ->
  window E Linear ((c - (1#2) - b) / m + (1#2)) ((w - 1) / m + 1) ymin ymax inv x ==
  window E Linear c w ymin ymax inv (m * x + b).
Proof.
  intros Hm Hw. unfold window. apply Qclip_compat. destruct inv; field; split; assumption.
Qed.
Lemma fold_window_sigmoid c w ymin ymax m b inv x : ~ m == 0 -> ~ w == 0 ->
  window E Sigmoid ((c - b) / m) (w / m) ymin ymax inv x ==
  window E Sigmoid c w ymin ymax inv (m * x + b).
Proof.
  intros Hm Hw. unfold window.
  assert (K : forall a a', a == a' -> (ymax - ymin) / (1 + E a) + ymin == (ymax - ymin) / (1 + E a') + ymin).
  { intros a a' Ha. rewrite (E_compat a a' Ha). reflexivity. }
  apply K. destruct inv; field; split; assumption.
Qed.

(* the code's LINEAR / LINEAR_EXACT formula is the standard's (PS3.3 C.11.2.1.2) *)
Lemma clip_affine_cases ymin ymax s t wd : ymin <= ymax -> 0 <= s -> s * wd == ymax - ymin ->
  (t <= 0 -> Qclip ymin ymax (t * s + ymin) == ymin) /\
  (wd <= t -> Qclip ymin ymax (t * s + ymin) == ymax) /\
  (0 <= t -> t <= wd -> Qclip ymin ymax (t * s + ymin) == t * s + ymin).
Proof.
  intros H Hs Hsw. split; [|split].
  - intros Ht. assert (0 <= (- t) * s) by (apply Qmult_le_0_compat; lra).
    assert (t * s + ymin <= ymin) by nra.
    destruct (Qclip_cases ymin ymax (t * s + ymin) H) as [[A ->]|[[A ->]|(A & B & ->)]]; lra.
  - intros Ht. assert (0 <= (t - wd) * s) by (apply Qmult_le_0_compat; lra).
    assert (ymax <= t * s + ymin) by nra.
    destruct (Qclip_cases ymin ymax (t * s + ymin) H) as [[A ->]|[[A ->]|(A & B & ->)]]; lra.
  - intros Ht0 Ht1. assert (0 <= t * s) by (apply Qmult_le_0_compat; lra).
    assert (0 <= (wd - t) * s) by (apply Qmult_le_0_compat; lra).
    assert (ymin <= t * s + ymin) by lra.
    assert (t * s + ymin <= ymax) by nra.
    destruct (Qclip_cases ymin ymax (t * s + ymin) H) as [[A ->]|[[A ->]|(A & B & ->)]]; lra.
Qed.

Lemma window_exact_is_standard c w ymin ymax x : 0 < w -> ymin <= ymax ->
  window E LinearExact c w ymin ymax false x == std_window E LinearExact c w ymin ymax x.
Proof.
  intros Hw H. unfold window, std_window.
  assert (Hs : 0 <= (ymax - ymin) / w).
  { apply Qle_shift_div_l; [assumption|]. lra. }
  assert (Hsw : (ymax - ymin) / w * w == ymax - ymin) by (field; lra).
  destruct (clip_affine_cases ymin ymax _ (x - (c - w / 2)) w H Hs Hsw) as (C1 & C2 & C3).
  assert (Hw2 : w / 2 + w / 2 == w) by field.
  destruct (Qle_bool x (c - w / 2)) eqn:E1.
  - apply Qle_bool_iff in E1. apply C1. lra.
  - assert (L1 : c - w / 2 < x).
    { apply Qnot_le_lt. intros X. apply Qle_bool_iff in X. congruence. }
    destruct (Qle_bool x (c + w / 2)) eqn:E2; cbn [negb].
    + apply Qle_bool_iff in E2. etransitivity; [apply C3; lra|]. field. lra.
    + assert (L2 : c + w / 2 < x).
      { apply Qnot_le_lt. intros X. apply Qle_bool_iff in X. congruence. }
      apply C2. lra.
Qed.

Lemma window_linear_is_standard c w ymin ymax x : 1 < w -> ymin <= ymax ->
  window E Linear c w ymin ymax false x == std_window E Linear c w ymin ymax x.
Proof.
  intros Hw H. unfold window, std_window.
  assert (Hs : 0 <= (ymax - ymin) / (w - 1)).
  { apply Qle_shift_div_l; [lra|]. lra. }
  assert (Hsw : (ymax - ymin) / (w - 1) * (w - 1) == ymax - ymin) by (field; lra).
  destruct (clip_affine_cases ymin ymax _ (x - (c - w / 2)) (w - 1) H Hs Hsw) as (C1 & C2 & C3).
  assert (Hw2 : (w - 1) / 2 + (w - 1) / 2 == w - 1) by field.
  assert (Hw3 : w / 2 == (w - 1) / 2 + (1#2)) by field.
  destruct (Qle_bool x (c - (1#2) - (w - 1) / 2)) eqn:E1.
  - apply Qle_bool_iff in E1. apply C1. lra.
  - assert (L1 : c - (1#2) - (w - 1) / 2 < x).
    { apply Qnot_le_lt. intros X. apply Qle_bool_iff in X. congruence. }
    destruct (Qle_bool x (c - (1#2) + (w - 1) / 2)) eqn:E2; cbn [negb].
    + apply Qle_bool_iff in E2. etransitivity; [apply C3; lra|]. field. lra.
    + assert (L2 : c - (1#2) + (w - 1) / 2 < x).
      { apply Qnot_le_lt. intros X. apply Qle_bool_iff in X. congruence. }
      apply C2. lra.
Qed.

Lemma window_sigmoid_is_standard c w ymin ymax x :
  window E Sigmoid c w ymin ymax false x == std_window E Sigmoid c w ymin ymax x.
Proof. reflexivity. Qed.

(* SIGMOID with the inversion folded in: needs exp(-t) * exp(t) = 1 *)
Hypothesis E_inv : forall t, E (- t) * E t == 1.
Hypothesis E_pos : forall t, 0 < E t.
Lemma window_invert_sigmoid c w ymin ymax x : ~ w == 0 ->
  window E Sigmoid c w ymin ymax true x == ymin + ymax - window E Sigmoid c w ymin ymax false x.
Proof.
  intros Hw. unfold window.
  set (t := - (4) * (x - c) / w).
  assert (Ha : E (- (4) * (c - x) / w) == E (- t)).
  { apply E_compat. subst t. field. assumption. }
  rewrite Ha. pose proof (E_inv t) as I. pose proof (E_pos t) as P. pose proof (E_pos (- t)) as P'.
  assert (E (- t) == / E t) as ->.
  { apply (Qmult_inj_r _ _ (E t)); [lra|]. rewrite I. field. lra. }
  field. split; lra.
Qed.
End Windows.

(* inversion of a bare rescale within the stored range (image.py:822-839) *)
Lemma fold_rescale_invert (m b : Q) (imin imax x : Z) :
  inject_Z x * (- m) + (m * inject_Z (imin + imax) + b) ==
  (m * inject_Z imin + b) + (m * inject_Z imax + b) - (m * inject_Z x + b).
Proof. rewrite inject_Z_plus. ring. Qed.

(* scaled VOI LUT: inversion folded into get_scaled_lut_data *)
Lemma scaled_invert (v mn mx : Z) (ymin ymax : Q) : (mn < mx)%Z ->
  let scale := (ymax - ymin) / inject_Z (mx - mn) in
  inject_Z (mx - v) * scale + ymin == ymin + ymax - (inject_Z (v - mn) * scale + ymin).
Proof.
  intros H scale. subst scale. unfold Zminus. rewrite !inject_Z_plus, !inject_Z_opp.
  field. assert (inject_Z mn < inject_Z mx) by (rewrite <- Zlt_Qlt; assumption). lra.
Qed.
Lemma scaled_is_staged (v mn mx : Z) (ymin ymax : Q) : (mn < mx)%Z ->
  inject_Z (v - mn) * ((ymax - ymin) / inject_Z (mx - mn)) + ymin ==
  ymin + inject_Z (v - mn) / inject_Z (mx - mn) * (ymax - ymin).
Proof.
  intros H. unfold Zminus. rewrite !inject_Z_plus, !inject_Z_opp.
  field. assert (inject_Z mn < inject_Z mx) by (rewrite <- Zlt_Qlt; assumption). lra.
Qed.
Close Scope Q_scope.

(* ================================================================== *)
(* 7. VOI LUT subsampled through an integer rescale slope >= 1         *)
(* ================================================================== *)
Lemma nth_map_seq {A} (f : nat -> A) d n i : (i < n)%nat -> nth i (map f (seq 0 n)) d = f i.
Proof.
  intros H. rewrite (nth_indep _ d (f O)) by (rewrite map_length, seq_length; lia).
  rewrite map_nth. rewrite seq_nth by lia. reflexivity.
Qed.

Lemma nth_stride {A} (d : A) (m : Z) (l : list A) (i : nat) :
  0 < m -> (Z.of_nat i <= (zlen l - 1) / m) ->
  nth i (stride d m l) d = nth (Z.to_nat (m * Z.of_nat i)) l d.
Proof.
  intros Hm Hi. unfold stride.
  set (k := (zlen l - 1) / m) in *.
  assert (Hk : (i < Z.to_nat (k + 1))%nat) by lia.
  now rewrite nth_map_seq by exact Hk.
Qed.
Lemma length_stride {A} (d : A) m (l : list A) : l <> [] -> 0 < m ->
  zlen (stride d m l) = (zlen l - 1) / m + 1.
Proof.
  intros Hne Hm. unfold stride, zlen at 1. rewrite map_length, seq_length.
  assert (1 <= zlen l) by (destruct l; [congruence | rewrite zlen_cons; pose proof (zlen_nonneg l); lia]).
  assert (0 <= (zlen l - 1) / m) by (apply Z.div_pos; lia). lia.
Qed.

(* effective table of image.py:795-807 for slope m >= 1 (m = 1: the table itself) *)
Definition folded_table {A} (d : A) (m : Z) (l : list A) : list A :=
  if m =? 1 then l
  else if (zlen l - 1) mod m =? 0 then stride d m l else stride d m l ++ [last l d].

Lemma last_nth {A} (d : A) (l : list A) : l <> [] -> last l d = nth (length l - 1) l d.
Proof.
  induction l as [|a l IH]; [congruence|]. intros _. destruct l as [|b t]; [reflexivity|].
  change (last (a :: b :: t) d) with (last (b :: t) d). rewrite IH by discriminate.
  cbn [length]. replace (S (S (length t)) - 1)%nat with (S (length t)) by lia.
  cbn [nth]. replace (S (length t) - 1)%nat with (length t) by lia. reflexivity.
Qed.

Lemma fold_voilut_sound {A} (d : A) (m b first : Z) (l : list A) (x : Z) :
  l <> [] -> 1 <= m -> (first - b) mod m = 0 ->
  lut_lookup d ((first - b) / m) (folded_table d m l) x = lut_lookup d first l (m * x + b).
Proof.
  intros Hne Hm Hdiv.
  assert (HL : 1 <= zlen l) by (destruct l; [congruence | rewrite zlen_cons; pose proof (zlen_nonneg l); lia]).
  set (L := zlen l) in *. set (f' := (first - b) / m).
  assert (Hf : first - b = m * f') by (subst f'; apply Z_div_exact_full_2; lia).
  unfold folded_table.
  destruct (m =? 1) eqn:M1.
  - assert (m = 1) by lia. subst m. unfold lut_lookup, lut_index, Zclip. fold L.
    f_equal. f_equal. lia.
  - assert (2 <= m) by lia.
    set (k := (L - 1) / m).
    assert (Hk0 : 0 <= k) by (apply Z.div_pos; lia).
    assert (Hk1 : m * k <= L - 1) by (subst k; apply Z.mul_div_le; lia).
    assert (Hk2 : L - 1 < m * (k + 1)).
    { subst k. pose proof (Z.mul_succ_div_gt (L - 1) m ltac:(lia)). lia. }
    set (dd := x - f').
    assert (Hoff : m * x + b - first = m * dd) by (subst dd; lia).
    unfold lut_lookup at 2. unfold lut_index, Zclip. fold L.
    destruct ((L - 1) mod m =? 0) eqn:R.
    + (* length k+1, last entry is l[m*k] = l[L-1] *)
      assert (Hmk : m * k = L - 1) by (subst k; rewrite <- Z_div_exact_full_2; lia).
      unfold lut_lookup, lut_index, Zclip. rewrite length_stride by (assumption || lia). fold L. fold k.
      destruct (Z_le_gt_dec dd 0) as [D0|D0].
      * replace (Z.to_nat (Z.max f' (Z.min (f' + (k + 1) - 1) x) - f')) with O by lia.
        replace (Z.to_nat (Z.max first (Z.min (first + L - 1) (m * x + b)) - first)) with O by nia.
        rewrite (nth_stride d m l O) by (fold L; fold k; lia). f_equal. lia.
      * destruct (Z_le_gt_dec dd k) as [D1|D1].
        -- replace (Z.to_nat (Z.max f' (Z.min (f' + (k + 1) - 1) x) - f')) with (Z.to_nat dd) by lia.
           rewrite (nth_stride d m l (Z.to_nat dd)) by (fold L; fold k; lia).
           f_equal. nia.
        -- replace (Z.to_nat (Z.max f' (Z.min (f' + (k + 1) - 1) x) - f')) with (Z.to_nat k) by lia.
           rewrite (nth_stride d m l (Z.to_nat k)) by (fold L; fold k; lia).
           f_equal. nia.
    + (* length k+2, the appended entry is the last one *)
      assert (Hmk : m * k < L - 1).
      { assert (m * k <> L - 1); [|lia]. intros X.
        assert ((L - 1) mod m = 0); [|lia]. rewrite <- X. rewrite Z.mul_comm. apply Z_mod_mult. }
      unfold lut_lookup, lut_index, Zclip. rewrite zlen_app, length_stride by (assumption || lia).
      fold L. fold k. change (zlen [last l d]) with 1.
      destruct (Z_le_gt_dec dd 0) as [D0|D0].
      * replace (Z.to_nat (Z.max f' (Z.min (f' + (k + 1 + 1) - 1) x) - f')) with O by lia.
        replace (Z.to_nat (Z.max first (Z.min (first + L - 1) (m * x + b)) - first)) with O by nia.
        rewrite app_nth1 by (pose proof (length_stride d m l Hne ltac:(lia)) as Q; unfold zlen in Q at 1;
                             fold L in Q; fold k in Q; lia).
        rewrite (nth_stride d m l O) by (fold L; fold k; lia). f_equal. lia.
      * destruct (Z_le_gt_dec dd k) as [D1|D1].
        -- replace (Z.to_nat (Z.max f' (Z.min (f' + (k + 1 + 1) - 1) x) - f')) with (Z.to_nat dd) by lia.
           rewrite app_nth1 by (pose proof (length_stride d m l Hne ltac:(lia)) as Q; unfold zlen in Q at 1;
                                fold L in Q; fold k in Q; lia).
           rewrite (nth_stride d m l (Z.to_nat dd)) by (fold L; fold k; lia).
           f_equal. nia.
        -- replace (Z.to_nat (Z.max f' (Z.min (f' + (k + 1 + 1) - 1) x) - f')) with (Z.to_nat (k + 1)) by lia.
           pose proof (length_stride d m l Hne ltac:(lia)) as Q. unfold zlen in Q at 1. fold L in Q. fold k in Q.
           rewrite app_nth2 by lia.
           replace (Z.to_nat (k + 1) - length (stride d m l))%nat with O by lia. cbn [nth].
           rewrite last_nth by assumption.
           f_equal. unfold L, zlen in *. nia.
Qed.

Definition eff_values (E : Q -> Q) (r : res (eff * option (Q * Q))) (ymin ymax : Q) (xs : list Z) : list Q :=
  match r with Ok (e, _) => map (fun x => Qred (eff_apply_r E ymin ymax e x)) xs | Err _ => [] end.
