(* C16 - statements about ARBITRARY content trees (third-party / malformed reports): no hypothesis on the
   root item at all.  What the three queries return is characterised by the per-group test, the unfiltered
   queries never raise, the image query never raises, the only errors besides the argument refusals are
   RuntimeError (malformed ROI reference), the answers of different queries are disjoint (up to the
   TID 1410 / 1411 overlap on untyped groups), and adding filters only removes groups. *)
From Coq Require Import String ZArith List Bool Lia ZifyBool.
From HD Require Import Base.Val C16_Model C16_Proofs.
Import ListNotations.
Open Scope Z_scope.

(* ---------------------------------------------------------------------------------- *)
(* collect: the loop of the queries                                                     *)
(* ---------------------------------------------------------------------------------- *)
Definition passes (p : item -> res bool) (x : item) : bool :=
  match p x with Ok true => true | _ => false end.

Lemma collect_ok_iff p l r :
  collect p l = Ok r <-> (forall x, In x l -> exists b, p x = Ok b) /\ r = filter (passes p) l.
Proof.
  revert r. induction l as [|x t IH]; intros r; cbn [collect filter].
  - split.
    + intros H. inversion H. split; [intros ? []|reflexivity].
    + intros [_ ->]. reflexivity.
  - unfold passes at 1. destruct (p x) as [b|e] eqn:E; cbn [bind].
    + destruct (collect p t) as [r'|e'] eqn:E'; cbn [bind].
      * destruct (proj1 (IH r') eq_refl) as [Hall ->]. split.
        -- intros H. injection H as <-. split; [|now destruct b].
           intros y [<-|Hy]; eauto.
        -- intros [_ ->]. now destruct b.
      * split; [discriminate|]. intros [Hall _].
        assert (E2 : @Err (list item) e' = Ok (filter (passes p) t)).
        { apply IH. split; [|reflexivity]. intros y Hy. apply Hall. now right. }
        discriminate E2.
    + split; [discriminate|]. intros [Hall _]. destruct (Hall x (or_introl eq_refl)) as [b Hb]. congruence.
Qed.

(* the error of a query is the error of the FIRST group (document order) whose test raises *)
Lemma collect_err_iff p l e :
  collect p l = Err e <->
  exists l1 x l2, l = l1 ++ x :: l2 /\ (forall y, In y l1 -> exists b, p y = Ok b) /\ p x = Err e.
Proof.
  induction l as [|x t IH]; cbn [collect].
  - split; [discriminate|]. intros (l1 & y & l2 & H & _). destruct l1; discriminate.
  - destruct (p x) as [b|k] eqn:E; cbn [bind].
    + destruct (collect p t) as [r'|k'] eqn:E'; cbn [bind].
      * split; [discriminate|]. intros (l1 & y & l2 & Hl & Hall & Hy).
        destruct l1 as [|z l1]; cbn [app] in Hl; inversion Hl; subst; [congruence|].
        assert (H : Ok r' = Err e) by (apply IH; exists l1, y, l2; repeat split; auto; intros w Hw; apply Hall; now right).
        discriminate.
      * split.
        -- intros H. inversion H; subst. destruct (proj1 IH eq_refl) as (l1 & y & l2 & -> & Hall & Hy).
           exists (x :: l1), y, l2. split; [reflexivity|]. split; [|assumption].
           intros z [<-|Hz]; eauto.
        -- intros (l1 & y & l2 & Hl & Hall & Hy).
           destruct l1 as [|z l1]; cbn [app] in Hl; inversion Hl; subst; [congruence|].
           assert (H : Err k' = Err e) by (apply IH; exists l1, y, l2; repeat split; auto; intros w Hw; apply Hall; now right).
           exact H.
    + split.
      * intros H. inversion H; subst. exists [], x, t. split; [reflexivity|]. split; [intros ? []|assumption].
      * intros (l1 & y & l2 & Hl & Hall & Hy).
        destruct l1 as [|z l1]; cbn [app] in Hl; inversion Hl; subst; [congruence|].
        destruct (Hall z (or_introl eq_refl)) as [b Hb]. congruence.
Qed.

(* ---------------------------------------------------------------------------------- *)
(* what group discovery returns are CONTAINERs named Measurement Group                  *)
(* ---------------------------------------------------------------------------------- *)
Definition is_group (g : item) : Prop := nm g = cMeasurementGroup /\ vt_eqb (vt g) CONTAINER = true.

Lemma found_groups_are_groups root g : In g (find_measurement_groups root) -> is_group g.
Proof.
  unfold find_measurement_groups.
  destruct (find_items (kids root) (Some cImagingMeasurements) (Some CONTAINER) None) as [|im ?]; [intros []|].
  unfold find_items. intros H. apply filter_In in H as [_ H]. cbn [has_name has_vt has_rl] in H.
  rewrite andb_true_r in H. apply andb_true_iff in H as [H1 H2]. apply Z.eqb_eq in H1. now split.
Qed.

(* the groups searched are children of the FIRST Imaging Measurements container, in document order *)
Lemma found_groups_spec root :
  find_measurement_groups root =
  match filter is_im (kids root) with
  | [] => []
  | im :: _ => filter (fun i => (nm i =? cMeasurementGroup) && vt_eqb (vt i) CONTAINER) (kids im)
  end.
Proof.
  unfold find_measurement_groups, find_items.
  rewrite (filter_ext _ is_im) by (intros a; unfold is_im; cbn [has_name has_vt has_rl]; now rewrite andb_true_r).
  destruct (filter is_im (kids root)); [reflexivity|].
  apply filter_ext. intros a. cbn [has_name has_vt has_rl]. now rewrite andb_true_r.
Qed.

(* ---------------------------------------------------------------------------------- *)
(* classification of a group (template identification, else content)                    *)
(* ---------------------------------------------------------------------------------- *)
Definition classify (k : kind) (g : item) : res bool :=
  match k with
  | Planar => match tmpl g with Some t => Ok (t =? 1410) | None => contains_planar g end
  | Volumetric => match tmpl g with Some t => Ok (t =? 1411) | None => contains_volumetric g end
  | ImageK => match tmpl g with
              | Some t => Ok (t =? 1501)
              | None => bind (contains_planar g) (fun a => bind (contains_volumetric g) (fun b => Ok (negb (a || b))))
              end
  end.
Definition of_kind (k : kind) (g : item) : bool := match classify k g with Ok b => b | Err _ => false end.

Lemma count_roi_group g : is_group g -> exists c, count_roi_items g = Ok c.
Proof.
  intros [Hn Hv]. unfold count_roi_items. rewrite Hv, Hn. cbn [negb]. rewrite Z.eqb_refl. cbn [negb]. eauto.
Qed.
Lemma contains_planar_total g : is_group g -> exists b, contains_planar g = Ok b.
Proof.
  intros H. destruct (count_roi_group g H) as [[[[[ir vs] rs] sf] ris] E]. unfold contains_planar. rewrite E.
  cbn [bind]. eauto.
Qed.
Lemma contains_volumetric_total g : is_group g -> exists b, contains_volumetric g = Ok b.
Proof.
  intros H. destruct (count_roi_group g H) as [[[[[ir vs] rs] sf] ris] E]. unfold contains_volumetric. rewrite E.
  cbn [bind]. eauto.
Qed.
Lemma classify_total k g : is_group g -> classify k g = Ok (of_kind k g).
Proof.
  intros H. unfold of_kind.
  destruct (contains_planar_total g H) as [a Ea], (contains_volumetric_total g H) as [b Eb].
  destruct k; cbn [classify]; destruct (tmpl g); rewrite ?Ea, ?Eb; cbn [bind]; reflexivity.
Qed.

(* a group is of the image kind and of a ROI kind never; of both ROI kinds only without template id *)
Lemma kinds_disjoint g : is_group g ->
  (of_kind ImageK g = true -> of_kind Planar g = false /\ of_kind Volumetric g = false) /\
  (of_kind Planar g = true -> of_kind Volumetric g = true -> tmpl g = None).
Proof.
  intros H. unfold of_kind.
  destruct (contains_planar_total g H) as [a Ea], (contains_volumetric_total g H) as [b Eb].
  cbn [classify]. destruct (tmpl g) as [t|]; rewrite ?Ea, ?Eb; cbn [bind].
  - split.
    + intros E. apply Z.eqb_eq in E. subst. now split.
    + intros E1 E2. apply Z.eqb_eq in E1. subst. discriminate.
  - split; [|reflexivity]. destruct a, b; cbn; intros; try discriminate; now split.
Qed.

(* ---------------------------------------------------------------------------------- *)
(* the per-group tests on arbitrary groups                                              *)
(* ---------------------------------------------------------------------------------- *)
Definition gtest (k : kind) (f : filt) : item -> res bool :=
  match k with
  | Planar => planar_group_test f
  | Volumetric => volumetric_group_test f
  | ImageK => image_group_test f
  end.
Definition qcheck (k : kind) (f : filt) : res unit :=
  match k with Planar => check_planar f | Volumetric => check_volumetric f | ImageK => Ok tt end.
(* the reference filters of query k on a group *)
Definition ref_test (k : kind) (f : filt) (g : item) : res bool :=
  match k with
  | Planar => ref_matches_planar f g
  | Volumetric => ref_matches_volumetric f g
  | ImageK => Ok (if uid_given f then contains_image_items (kids g) (Some cSource) (f_cls f) (f_inst f) CONTAINS
                  else true)
  end.

Lemma query_unfold k root f :
  query k root f = bind (qcheck k f) (fun _ => collect (gtest k f) (find_measurement_groups root)).
Proof. destruct k; reflexivity. Qed.

Lemma gtest_unfold k f g :
  gtest k f g = bind (classify k g) (fun c =>
                  if c then bind (ref_test k f g) (fun b => Ok (common_matches f g && b)) else Ok false).
Proof. destruct k; reflexivity. Qed.

(* a group passes the test of query k exactly when it is of kind k and meets the common and the
   reference filters *)
Lemma passes_iff k f g : is_group g ->
  (passes (gtest k f) g = true <->
   of_kind k g = true /\ common_matches f g = true /\ ref_test k f g = Ok true).
Proof.
  intros H. unfold passes. rewrite gtest_unfold, (classify_total k g H). cbn [bind].
  destruct (of_kind k g).
  - destruct (ref_test k f g) as [b|e]; cbn [bind].
    + destruct (common_matches f g), b; cbn [andb]; split; try discriminate; try tauto;
        intros (_ & A & B); try discriminate; inversion B.
    + split; [discriminate|]. intros (_ & _ & B). discriminate.
  - split; [discriminate|]. intros (A & _). discriminate.
Qed.

Lemma ref_test_nofilt k g : ref_test k nofilt g = Ok true.
Proof. destruct k; reflexivity. Qed.
Lemma common_matches_nofilt g : common_matches nofilt g = true.
Proof. reflexivity. Qed.

Lemma gtest_nofilt k g : is_group g -> gtest k nofilt g = Ok (of_kind k g).
Proof.
  intros H. rewrite gtest_unfold, (classify_total k g H). cbn [bind]. rewrite ref_test_nofilt. cbn [bind].
  rewrite common_matches_nofilt. now destruct (of_kind k g).
Qed.

(* ---------------------------------------------------------------------------------- *)
(* ANY tree: exactness given success, totality of the unfiltered queries                *)
(* ---------------------------------------------------------------------------------- *)
Theorem any_tree_exact k root f l : query k root f = Ok l ->
  l = filter (passes (gtest k f)) (find_measurement_groups root) /\
  (forall g, In g l -> is_group g /\ of_kind k g = true /\ common_matches f g = true /\ ref_test k f g = Ok true) /\
  (forall g, In g (find_measurement_groups root) ->
     of_kind k g = true -> common_matches f g = true -> ref_test k f g = Ok true -> In g l).
Proof.
  rewrite query_unfold. destruct (qcheck k f) as [[]|e]; cbn [bind]; [|discriminate].
  intros H. apply collect_ok_iff in H as [_ ->]. split; [reflexivity|]. split.
  - intros g Hg. apply filter_In in Hg as [Hin Hp]. pose proof (found_groups_are_groups root g Hin) as Hgr.
    split; [assumption|]. now apply (passes_iff k f g Hgr).
  - intros g Hin A B C. apply filter_In. split; [assumption|].
    apply (passes_iff k f g (found_groups_are_groups root g Hin)). auto.
Qed.

Theorem any_tree_unfiltered k root :
  query k root nofilt = Ok (filter (of_kind k) (find_measurement_groups root)).
Proof.
  rewrite query_unfold. replace (qcheck k nofilt) with (@Ok unit tt) by (now destruct k). cbn [bind].
  apply collect_ok_iff. split.
  - intros g Hg. rewrite gtest_nofilt by (now apply (found_groups_are_groups root)). eauto.
  - apply filter_ext_in. intros g Hg. unfold passes.
    rewrite gtest_nofilt by (now apply (found_groups_are_groups root)). now destruct (of_kind k g).
Qed.

(* adding filters only removes groups: the filtered answer is the unfiltered one, filtered *)
Lemma filter_filter {A} (p q : A -> bool) l : filter p (filter q l) = filter (fun x => q x && p x) l.
Proof.
  induction l as [|a l IH]; cbn [filter]; [reflexivity|].
  destruct (q a); cbn [filter andb]; [destruct (p a)|]; now rewrite IH.
Qed.

Theorem any_tree_monotone k root f l : query k root f = Ok l ->
  exists l0, query k root nofilt = Ok l0 /\ l = filter (passes (gtest k f)) l0.
Proof.
  intros H. apply any_tree_exact in H as [-> _].
  exists (filter (of_kind k) (find_measurement_groups root)). split; [apply any_tree_unfiltered|].
  rewrite filter_filter. apply filter_ext_in. intros g Hg.
  destruct (passes (gtest k f) g) eqn:E; [|now rewrite andb_false_r].
  apply (passes_iff k f g (found_groups_are_groups root g Hg)) in E as [-> _]. reflexivity.
Qed.

(* answers of different queries (whatever their filters) are disjoint, except that an UNTYPED group may be
   returned by both ROI queries *)
Theorem any_tree_disjoint root f1 f2 l1 l2 k1 k2 : query k1 root f1 = Ok l1 -> query k2 root f2 = Ok l2 ->
  forall g, In g l1 -> In g l2 ->
  k1 = k2 \/ (tmpl g = None /\ k1 <> ImageK /\ k2 <> ImageK).
Proof.
  intros H1 H2 g G1 G2.
  apply any_tree_exact in H1 as (_ & H1 & _). apply any_tree_exact in H2 as (_ & H2 & _).
  destruct (H1 g G1) as (Hgr & K1 & _). destruct (H2 g G2) as (_ & K2 & _).
  destruct (kinds_disjoint g Hgr) as [D1 D2].
  destruct k1, k2; auto.
  - right. split; [now apply D2|]. split; discriminate.
  - destruct (D1 K2) as [A _]. congruence.
  - right. split; [now apply D2|]. split; discriminate.
  - destruct (D1 K2) as [_ A]. congruence.
  - destruct (D1 K1) as [A _]. congruence.
  - destruct (D1 K1) as [_ A]. congruence.
Qed.

(* ---------------------------------------------------------------------------------- *)
(* ANY tree: which errors                                                               *)
(* ---------------------------------------------------------------------------------- *)
Lemma ref_loop_err allowed l : forall rt acc e, ref_loop allowed l rt acc = Err e -> e = "RuntimeError"%string.
Proof.
  induction l as [|x t IH]; intros rt acc e; cbn [ref_loop]; [discriminate|].
  destruct (is_candidate allowed x); [|apply IH].
  destruct rt as [r|]; [|apply IH].
  destruct (negb (nm x =? r)); [intros H; now inversion H|].
  destruct (negb (mem r [cImageRegion; cVolumeSurface])); [intros H; now inversion H|]. apply IH.
Qed.

Lemma roi_refs_err g allowed e : get_roi_reference_items g allowed = Err e -> e = "RuntimeError"%string.
Proof.
  unfold get_roi_reference_items. destruct (ref_loop allowed (kids g) None []) as [[rt items]|k] eqn:E; cbn [bind].
  - destruct rt as [r|], items as [|i items]; intros H; now inversion H.
  - intros H. inversion H; subst. now apply ref_loop_err in E.
Qed.
Lemma roi_refs_nonempty g allowed r items : get_roi_reference_items g allowed = Ok (r, items) -> items <> [].
Proof.
  unfold get_roi_reference_items. destruct (ref_loop allowed (kids g) None []) as [[rt its]|k]; cbn [bind]; [|discriminate].
  destruct rt as [r'|], its as [|i its]; intros H; inversion H; subst; discriminate.
Qed.

Lemma ref_test_err k f g e : ref_test k f g = Err e -> e = "RuntimeError"%string.
Proof.
  destruct k; cbn [ref_test].
  - unfold ref_matches_planar. destruct (isSome (f_reftype f) || gt_given f || uid_given f); [|discriminate].
    unfold get_planar_ref_item.
    destruct (get_roi_reference_items g allowed_planar) as [[r items]|k] eqn:E; cbn [bind].
    + destruct items as [|x [|y items]]; cbn [bind]; intros H; now inversion H.
    + intros H. inversion H; subst. now apply roi_refs_err in E.
  - unfold ref_matches_volumetric. destruct (isSome (f_reftype f) || gt_given f || uid_given f); [|discriminate].
    destruct (get_roi_reference_items g allowed_volumetric) as [[r items]|k] eqn:E; cbn [bind].
    + destruct items as [|x items]; [|discriminate]. now apply roi_refs_nonempty in E.
    + intros H. inversion H; subst. now apply roi_refs_err in E.
  - discriminate.
Qed.

Lemma gtest_err k f g e : is_group g -> gtest k f g = Err e ->
  e = "RuntimeError"%string /\ k <> ImageK /\ of_kind k g = true /\ ref_test k f g = Err e.
Proof.
  intros Hg. rewrite gtest_unfold, (classify_total k g Hg). cbn [bind].
  destruct (of_kind k g); [|discriminate].
  destruct (ref_test k f g) as [b|e'] eqn:E; cbn [bind]; [discriminate|].
  intros H. inversion H; subst. split; [now apply ref_test_err in E|]. split; [|now split].
  intros ->. discriminate.
Qed.

(* a query on ANY tree raises either its argument refusal or RuntimeError; the latter only for a ROI query with
   a reference filter, at the first group of that kind whose ROI reference is malformed *)
Theorem any_tree_errors k root f e : query k root f = Err e ->
  qcheck k f = Err e \/
  (qcheck k f = Ok tt /\ e = "RuntimeError"%string /\ k <> ImageK /\
   (isSome (f_reftype f) || gt_given f || uid_given f = true) /\
   exists g, In g (find_measurement_groups root) /\ of_kind k g = true /\ ref_test k f g = Err e).
Proof.
  rewrite query_unfold. destruct (qcheck k f) as [[]|e'] eqn:Q; cbn [bind]; [|intros H; left; now inversion H].
  intros H. right. apply collect_err_iff in H as (l1 & g & l2 & Hl & _ & Hg).
  assert (Hin : In g (find_measurement_groups root)) by (rewrite Hl; apply in_or_app; right; now left).
  apply gtest_err in Hg as (-> & Hk & Hof & Hr); [|now apply (found_groups_are_groups root)].
  split; [reflexivity|]. split; [reflexivity|]. split; [assumption|]. split; [|eauto].
  destruct k; cbn [ref_test] in Hr; [| |congruence].
  - unfold ref_matches_planar in Hr. destruct (isSome (f_reftype f) || gt_given f || uid_given f); [reflexivity|discriminate].
  - unfold ref_matches_volumetric in Hr. destruct (isSome (f_reftype f) || gt_given f || uid_given f); [reflexivity|discriminate].
Qed.

Theorem image_query_total root f : exists l, get_image root f = Ok l.
Proof.
  destruct (get_image root f) as [l|e] eqn:E; [eauto|].
  apply (any_tree_errors ImageK) in E as [E|(_ & _ & E & _)]; [discriminate|congruence].
Qed.

(* ---------------------------------------------------------------------------------- *)
(* refusals characterised: a filter combination is refused EXACTLY when it can apply to   *)
(* no reference kind of the query - except 3D POLYLINE, which the planar query refuses     *)
(* although ImageRegion3D accepts it                                                       *)
(* ---------------------------------------------------------------------------------- *)
Ltac decide_ifs :=
  repeat match goal with
         | |- context[if ?c then _ else _] => let E := fresh "E" in destruct c eqn:E
         end.

Lemma can_apply_accepted_planar f : gfilter_in_enum (f_gt f) = true ->
  can_apply Planar f = true -> f_gt f <> G3 3 -> check_planar f = Ok tt.
Proof.
  destruct f as [ftu ffi fsi frt fgt fin fcl]. unfold can_apply, check_planar, uid_given, gt_given.
  cbn [refkinds existsb f_reftype f_gt f_inst f_cls rk_code rk_gt_ok rk_has_uids opt_ok mem].
  unfold allowed_planar, cImageRegion, cRefSegFrame, cRegionInSpace, cVolumeSurface, cRefSegment.
  cbn [existsb mem].
  intros He H Hn. cbn [f_gt gfilter_in_enum] in He.
  destruct frt as [rt|], fgt as [| |t|t], fin as [fi|], fcl as [fc|];
    cbn [isSome orb negb andb bind rk_gt_ok mem existsb opt_ok] in H |- *;
    try (assert (t <> 3) by (intros ->; now apply Hn));
    decide_ifs; cbn [bind]; decide_ifs; try reflexivity; exfalso; lia.
Qed.

Lemma can_apply_accepted_volumetric f : gfilter_in_enum (f_gt f) = true ->
  can_apply Volumetric f = true -> check_volumetric f = Ok tt.
Proof.
  destruct f as [ftu ffi fsi frt fgt fin fcl]. unfold can_apply, check_volumetric, uid_given, gt_given.
  cbn [refkinds existsb f_reftype f_gt f_inst f_cls rk_code rk_gt_ok rk_has_uids opt_ok mem].
  unfold allowed_volumetric, cImageRegion, cRefSegFrame, cRegionInSpace, cVolumeSurface, cRefSegment.
  cbn [existsb mem].
  intros He H. cbn [f_gt gfilter_in_enum] in He.
  destruct frt as [rt|], fgt as [| |t|t], fin as [fi|], fcl as [fc|];
    cbn [isSome orb negb andb bind rk_gt_ok mem existsb opt_ok] in H |- *;
    decide_ifs; cbn [bind]; decide_ifs; try reflexivity; exfalso; lia.
Qed.

Theorem refusals_characterised f : gfilter_in_enum (f_gt f) = true ->
  ((exists e, check_planar f = Err e) <-> (can_apply Planar f = false \/ f_gt f = G3 3)) /\
  ((exists e, check_volumetric f = Err e) <-> can_apply Volumetric f = false).
Proof.
  intros He. split; split.
  - intros [e E]. destruct (can_apply Planar f) eqn:C; [|now left]. right.
    assert (D : {f_gt f = G3 3} + {f_gt f <> G3 3}) by (decide equality; apply Z.eq_dec).
    destruct D as [D|D]; [exact D|].
    rewrite (can_apply_accepted_planar f He C D) in E. discriminate E.
  - intros [C|G].
    + now apply cannot_apply_refused_planar.
    + exists "ValueError"%string. unfold check_planar. rewrite G. reflexivity.
  - intros [e E]. destruct (can_apply Volumetric f) eqn:C; [|reflexivity].
    rewrite can_apply_accepted_volumetric in E by assumption. discriminate.
  - now apply cannot_apply_refused_volumetric.
Qed.

(* the exception is real: a planar group built on a 3D POLYLINE region exists, the filter naming its graphic type
   can apply, and it is refused *)
Definition polyline3d_group : group :=
  Group Planar 1 1000 None None None [] (Region3D 3) [] [] None None None true.
Definition polyline3d_filter : filt := Filt None None None None (G3 3) None None.
Lemma planar_polyline3d_overstrict :
  good polyline3d_group /\ can_apply Planar polyline3d_filter = true /\ sat polyline3d_filter polyline3d_group = true /\
  get_planar (report [] [polyline3d_group]) polyline3d_filter = Err "ValueError"%string.
Proof. repeat split; vm_compute; reflexivity. Qed.

(* ---------------------------------------------------------------------------------- *)
(* the ROI reference loop (_get_roi_reference_items) in closed form, for ANY group:       *)
(* it returns ALL candidate items in document order, and raises exactly when there is no  *)
(* candidate, two candidates of different names, or two candidates of a name other than   *)
(* Image Region / Volume Surface                                                          *)
(* ---------------------------------------------------------------------------------- *)
Definition cands (allowed : list Z) (g : item) : list item := filter (is_candidate allowed) (kids g).
Definition multi_ok (r : Z) (rest : list item) : bool :=
  match rest with [] => true | _ => mem r [cImageRegion; cVolumeSurface] end.
Definition refs_ok (r : Z) (rest : list item) : bool := forallb (fun i => nm i =? r) rest && multi_ok r rest.

Lemma ref_loop_some allowed r l : forall acc, acc <> [] ->
  ref_loop allowed l (Some r) acc =
  if forallb (fun i => nm i =? r) (filter (is_candidate allowed) l) &&
     match filter (is_candidate allowed) l with [] => true | _ => mem r [cImageRegion; cVolumeSurface] end
  then Ok (Some r, rev acc ++ filter (is_candidate allowed) l) else Err "RuntimeError"%string.
Proof.
  induction l as [|x t IH]; intros acc Hacc; cbn [ref_loop filter].
  - cbn [forallb andb]. now rewrite app_nil_r.
  - destruct (is_candidate allowed x); [|now apply IH].
    cbn [forallb]. destruct (nm x =? r); cbn [negb andb]; [|reflexivity].
    destruct (mem r [cImageRegion; cVolumeSurface]) eqn:M; cbn [negb].
    + rewrite IH by discriminate. cbn [rev]. rewrite <- app_assoc. cbn [app].
      destruct (filter (is_candidate allowed) t); [reflexivity|]. now rewrite andb_true_r.
    + now rewrite andb_false_r.
Qed.

Lemma ref_loop_none allowed l :
  ref_loop allowed l None [] =
  match filter (is_candidate allowed) l with
  | [] => Ok (None, [])
  | c :: rest => if refs_ok (nm c) rest then Ok (Some (nm c), c :: rest) else Err "RuntimeError"%string
  end.
Proof.
  induction l as [|x t IH]; cbn [ref_loop filter]; [reflexivity|].
  destruct (is_candidate allowed x); [|exact IH].
  rewrite ref_loop_some by discriminate. unfold refs_ok, multi_ok. cbn [rev app].
  destruct (filter (is_candidate allowed) t); reflexivity.
Qed.

Theorem roi_reference_spec g allowed :
  get_roi_reference_items g allowed =
  match cands allowed g with
  | [] => Err "RuntimeError"%string
  | c :: rest => if refs_ok (nm c) rest then Ok (nm c, c :: rest) else Err "RuntimeError"%string
  end.
Proof.
  unfold get_roi_reference_items, cands. rewrite ref_loop_none.
  destruct (filter (is_candidate allowed) (kids g)) as [|c rest]; cbn [bind]; [reflexivity|].
  destruct (refs_ok (nm c) rest); reflexivity.
Qed.

(* the planar query needs exactly one candidate *)
Theorem planar_reference_spec g :
  get_planar_ref_item g =
  match cands allowed_planar g with
  | [c] => Ok (nm c, c)
  | _ => Err "RuntimeError"%string
  end.
Proof.
  unfold get_planar_ref_item. rewrite roi_reference_spec.
  destruct (cands allowed_planar g) as [|c [|d rest]]; cbn [bind]; try reflexivity.
  destruct (refs_ok (nm c) (d :: rest)); reflexivity.
Qed.

(* so: on ANY tree a ROI query with a reference filter raises exactly when the first group of its kind whose
   candidates are malformed is reached (any_tree_errors), "malformed" being this decidable condition *)
Definition refs_malformed (k : kind) (g : item) : bool :=
  match k with
  | Planar => match cands allowed_planar g with [_] => false | _ => true end
  | Volumetric => match cands allowed_volumetric g with
                  | [] => true
                  | c :: rest => negb (refs_ok (nm c) rest)
                  end
  | ImageK => false
  end.

Theorem ref_test_raises_iff k f g : isSome (f_reftype f) || gt_given f || uid_given f = true ->
  ((exists e, ref_test k f g = Err e) <-> refs_malformed k g = true).
Proof.
  intros Hf. destruct k; cbn [ref_test refs_malformed].
  - unfold ref_matches_planar. rewrite Hf, planar_reference_spec.
    destruct (cands allowed_planar g) as [|c [|d rest]]; cbn [bind]; split; intros H; try reflexivity; eauto;
      try discriminate. destruct H as [e H]. discriminate.
  - unfold ref_matches_volumetric. rewrite Hf, roi_reference_spec.
    destruct (cands allowed_volumetric g) as [|c rest]; cbn [bind].
    + split; eauto.
    + destruct (refs_ok (nm c) rest); cbn [bind negb]; split; intros H; eauto; try discriminate.
      destruct H as [e H]. discriminate.
  - split; [intros [e H]; discriminate|discriminate].
Qed.
