(* C12 - model of the tiling helpers.
   Mirrors (src/highdicom):
     spatial.py  tile_pixel_matrix, get_tile_array,
                 compute_tile_positions_per_frame, iter_tiled_full_frame_data
     utils.py    compute_plane_position_tiled_full, are_plane_positions_tiled_full
   and (extension at the end of the file) the argument guards of these, the
   dataset-level options of iter_tiled_full_frame_data,
   utils.compute_plane_position_slide_per_frame, the 4 x 4 affine matrix of
   spatial.PixelToReferenceTransformer, get_tile_array on R x C x S arrays.
   Integers are Z; physical positions are exact rationals (Q). *)
From Coq Require Import ZArith List Bool String QArith.
From HD Require Import Base.Val.
Import ListNotations.
Open Scope Z_scope.

Definition zrange (n : Z) : list Z := map Z.of_nat (seq 0 (Z.to_nat n)).

(* int(np.ceil(a / b)) for positive ints (float division is exact enough
   below 2^53; validated by the correspondence run) *)
Definition cdiv (a b : Z) : Z := (a + b - 1) / b.

(* spatial.tile_pixel_matrix : 1-based (column index, row index) of each tile *)
Definition tile_pixel_matrix (R C th tw : Z) : list (Z * Z) :=
  flat_map (fun r => map (fun c => (c + 1, r + 1)) (zrange (cdiv C tw)))
           (zrange (cdiv R th)).

(* spatial.compute_tile_positions_per_frame, integer part:
   1-based (column offset, row offset) of each tile, meshgrid 'xy' order *)
Definition tiles_per_column (C tw : Z) : Z := (C - 1) / tw + 1.
Definition tiles_per_row (R th : Z) : Z := (R - 1) / th + 1.
Definition tile_offsets (R C th tw : Z) : list (Z * Z) :=
  flat_map (fun r => map (fun c => (c * tw + 1, r * th + 1)) (zrange (tiles_per_column C tw)))
           (zrange (tiles_per_row R th)).

(* physical position: PixelToReferenceTransformer on 0-based (column,row)
   pixel index:  pos + c * spacing_between_columns * row_cosines
                     + r * spacing_between_rows    * column_cosines
   orientation = (r1,r2,r3,c1,c2,c3), pixel_spacing = (between rows, between cols) *)
Record vec3 := V3 { vx : Q; vy : Q; vz : Q }.
Definition vadd (a b : vec3) := V3 (vx a + vx b) (vy a + vy b) (vz a + vz b).
Definition vscale (k : Q) (a : vec3) := V3 (k * vx a) (k * vy a) (k * vz a).
Definition pix2ref (pos rowcos colcos : vec3) (sp_rows sp_cols : Q) (c r : Z) : vec3 :=
  vadd pos (vadd (vscale (inject_Z c * sp_cols) rowcos)
                 (vscale (inject_Z r * sp_rows) colcos)).

Definition tile_positions (R C th tw : Z) (pos rowcos colcos : vec3) (spr spc : Q)
  : list ((Z * Z) * vec3) :=
  map (fun o => (o, pix2ref pos rowcos colcos spr spc (fst o - 1) (snd o - 1)))
      (tile_offsets R C th tw).

(* spatial.iter_tiled_full_frame_data: channel x focal plane x grid;
   z offset of focal plane k (1-based) = (k-1) * spacing_between_slices *)
Definition iter_tiled_full (nch nfp R C th tw : Z) (x y : Q) (rowcos colcos : vec3)
           (spr spc sbs : Q) : list (Z * Z * (Z * Z) * vec3) :=
  flat_map (fun ch =>
    flat_map (fun k =>
      map (fun t => (ch + 1, k + 1, fst t, snd t))
          (tile_positions R C th tw (V3 x y (inject_Z k * sbs)) rowcos colcos spr spc))
      (zrange nfp))
    (zrange nch).

(* utils.compute_plane_position_tiled_full *)
Definition plane_position_tiled_full (row_index column_index : Z) (x y : Q)
           (th tw : Z) (rowcos colcos : vec3) (spr spc : Q)
           (slice : option (Z * Q)) : res ((Z * Z) * vec3) :=
  if (row_index <? 1) || (column_index <? 1) then Err "ValueError"
  else
    let ro := (row_index - 1) * th in
    let co := (column_index - 1) * tw in
    let z := match slice with Some (k, sbs) => (inject_Z (k - 1) * sbs)%Q | None => 0%Q end in
    Ok ((co + 1, ro + 1), pix2ref (V3 x y z) rowcos colcos spr spc co ro).

(* utils.are_plane_positions_tiled_full on (row position, column position) pairs *)
Definition max_from (init : Z) (l : list Z) : Z := fold_left Z.max l init.
(* range(1, m + 1, step) *)
Definition range1 (m step : Z) : list Z :=
  map (fun k => 1 + k * step) (zrange (if m <? 1 then 0 else (m - 1) / step + 1)).
Definition expected_positions (max_r max_c th tw : Z) : list (Z * Z) :=
  flat_map (fun r => map (fun c => (r, c)) (range1 max_c tw)) (range1 max_r th).
Definition pair_eqb (a b : Z * Z) : bool := (fst a =? fst b) && (snd a =? snd b).
Fixpoint list_eqb (a b : list (Z * Z)) : bool :=
  match a, b with
  | [], [] => true
  | x :: a', y :: b' => pair_eqb x y && list_eqb a' b'
  | _, _ => false
  end.
Definition are_tiled_full (ps : list (Z * Z)) (th tw : Z) : bool :=
  let max_r := max_from (-1) (map fst ps) in
  let max_c := max_from (-1) (map snd ps) in
  list_eqb (expected_positions max_r max_c th tw) ps.

(* spatial.get_tile_array on a row-major matrix (list of rows) *)
Definition slice_list {A} (a b : Z) (l : list A) : list A :=
  firstn (Z.to_nat (b - a)) (skipn (Z.to_nat a) l).
Definition pad_right {A} (d : A) (n : Z) (l : list A) : list A :=
  l ++ repeat d (Z.to_nat n).
Definition get_tile_array (M : list (list Z)) (R C : Z) (ro co th tw : Z) (pad : bool)
  : res (list (list Z)) :=
  if (ro <? 1) || (R <? ro) then Err "ValueError"
  else if (co <? 1) || (C <? co) then Err "ValueError"
  else
    let ro0 := ro - 1 in let co0 := co - 1 in
    let rend := Z.min (ro0 + th) R in let cend := Z.min (co0 + tw) C in
    let pad_rows := Z.max (ro0 + th - R) 0 in
    let pad_cols := Z.max (co0 + tw - C) 0 in
    let t := map (slice_list co0 cend) (slice_list ro0 rend M) in
    if pad then
      Ok (pad_right (repeat 0 (Z.to_nat (cend - co0 + pad_cols))) pad_rows
                    (map (pad_right 0 pad_cols) t))
    else Ok t.

(* cell of the tile placed at 1-based offset (ro, co): the matrix cell it was cut from *)
Definition cell (M : list (list Z)) (r c : Z) : Z :=
  nth (Z.to_nat c) (nth (Z.to_nat r) M []) 0.

(* ---- boundary functions for the correspondence run -------------------- *)
Definition vpairz (p : Z * Z) : val := VL [VZ (fst p); VZ (snd p)].
Definition vvec (v : vec3) : val := VL [VQ (vx v); VQ (vy v); VQ (vz v)].
Definition run_tpm R C th tw : val := VL (map vpairz (tile_pixel_matrix R C th tw)).
Definition run_positions R C th tw pos rc cc spr spc : val :=
  VL (map (fun t => VL [vpairz (fst t); vvec (snd t)]) (tile_positions R C th tw pos rc cc spr spc)).
Definition run_iter (labelmap : bool) nch nfp R C th tw x y rc cc spr spc sbs : val :=
  VL (map (fun t => match t with (ch, k, o, p) =>
            VL [(if labelmap then VNone else VZ ch); VZ k; VZ (fst o); VZ (snd o); vvec p] end)
          (iter_tiled_full nch nfp R C th tw x y rc cc spr spc sbs)).
Definition run_ppos ri ci x y th tw rc cc spr spc sl : val :=
  vres (fun t => VL [vpairz (fst t); vvec (snd t)])
       (plane_position_tiled_full ri ci x y th tw rc cc spr spc sl).
Definition run_tiled_full ps th tw : val := VB (are_tiled_full ps th tw).
Definition run_tile_array M R C ro co th tw pad : val :=
  vres vz_list2 (get_tile_array M R C ro co th tw pad).

(* ======================================================================
   Extension: guards, optional attributes and further entry points of the
   anchored functions (same files), so that the correspondence run compares
   model and implementation on them as well.
   ====================================================================== *)

(* spatial.create_rotation_matrix refuses non-positive spacings *)
Definition bad_spacing (spr spc : Q) : bool := Qle_bool spr 0 || Qle_bool spc 0.

(* spatial.compute_tile_positions_per_frame with its argument checks:
   lengths of position / orientation / spacing (ValueError), `// columns`,
   `// rows` (ZeroDivisionError), then PixelToReferenceTransformer
   (create_rotation_matrix: ValueError on a spacing <= 0). *)
Definition tile_positions_chk (npos nori nsp : Z) (R C th tw : Z) (pos rowcos colcos : vec3)
           (spr spc : Q) : res (list ((Z * Z) * vec3)) :=
  if negb (npos =? 3) then Err "ValueError"
  else if negb (nori =? 6) then Err "ValueError"
  else if negb (nsp =? 2) then Err "ValueError"
  else if (tw =? 0) || (th =? 0) then Err "ZeroDivisionError"
  else if bad_spacing spr spc then Err "ValueError"
  else Ok (tile_positions R C th tw pos rowcos colcos spr spc).

(* PixelToReferenceTransformer: the 4 x 4 affine matrix built by
   create_affine_matrix_from_attributes (index convention (R, D),
   right-handed, spacing_between_slices = 1) and its application to the
   column vector (c, r, 0, 1). *)
Definition cross (a b : vec3) : vec3 :=
  V3 (vy a * vz b - vz a * vy b) (vz a * vx b - vx a * vz b) (vx a * vy b - vy a * vx b).
Definition affine_matrix (pos rowcos colcos : vec3) (spr spc : Q) : list (list Q) :=
  let n := cross rowcos colcos in
  [ [vx rowcos * spc; vx colcos * spr; vx n * 1; vx pos];
    [vy rowcos * spc; vy colcos * spr; vy n * 1; vy pos];
    [vz rowcos * spc; vz colcos * spr; vz n * 1; vz pos];
    [0; 0; 0; 1] ]%Q.
Definition dotq (a b : list Q) : Q := fold_left Qplus (map (fun p => fst p * snd p)%Q (combine a b)) 0%Q.
Definition affine_apply (A : list (list Q)) (c r : Z) : vec3 :=
  let v := [inject_Z c; inject_Z r; 0; 1]%Q in
  V3 (dotq (nth 0 A []) v) (dotq (nth 1 A []) v) (dotq (nth 2 A []) v).

(* utils.compute_plane_position_tiled_full with both optional 3-D
   parameters: ValueError (indices) before TypeError (exactly one of
   slice_index / spacing_between_slices given) before the transformer's
   ValueError (spacing <= 0). *)
Definition plane_position_tiled_full2 (row_index column_index : Z) (x y : Q)
           (th tw : Z) (rowcos colcos : vec3) (spr spc : Q)
           (slice_index : option Z) (sbs : option Q) : res ((Z * Z) * vec3) :=
  if (row_index <? 1) || (column_index <? 1) then Err "ValueError"
  else match slice_index, sbs with
       | Some k, Some s =>
           if bad_spacing spr spc then Err "ValueError"
           else plane_position_tiled_full row_index column_index x y th tw rowcos colcos spr spc (Some (k, s))
       | None, None =>
           if bad_spacing spr spc then Err "ValueError"
           else plane_position_tiled_full row_index column_index x y th tw rowcos colcos spr spc None
       | _, _ => Err "TypeError"
       end.

(* spatial.iter_tiled_full_frame_data at the level of the dataset: SOP class
   and dimension-organisation checks, optional attributes with their
   defaults, LABELMAP channel, origin z offset. *)
Definition iter_gen {Ch : Type} (chans : list Ch) (nfp : Z) (plane : Z -> list ((Z * Z) * vec3))
  : list (Ch * Z * (Z * Z) * vec3) :=
  flat_map (fun ch =>
    flat_map (fun k => map (fun t => (ch, k + 1, fst t, snd t)) (plane k)) (zrange nfp))
    chans.

Inductive sopclass := SC_WSI | SC_SEG | SC_LABELMAP_SEG | SC_OTHER.
Record tf_dataset := TFD {
  ds_sop : sopclass;
  ds_dim_org : option bool;        (* None: attribute absent; Some b: b = (value = "TILED_FULL") *)
  ds_nfp : option Z;               (* TotalPixelMatrixFocalPlanes *)
  ds_labelmap : bool;              (* SegmentationType = "LABELMAP" *)
  ds_nseg : Z;                     (* len(SegmentSequence) *)
  ds_nop : option Z;               (* NumberOfOpticalPaths *)
  ds_len_ops : Z;                  (* len(OpticalPathSequence) *)
  ds_sbs : option Q;               (* SpacingBetweenSlices *)
  ds_zorigin : option Q;           (* ZOffsetInSlideCoordinateSystem of the origin *)
  ds_R : Z; ds_C : Z; ds_th : Z; ds_tw : Z;
  ds_x : Q; ds_y : Q; ds_rc : vec3; ds_cc : vec3; ds_spr : Q; ds_spc : Q }.

Definition opt_default {A} (d : A) (o : option A) : A := match o with Some a => a | None => d end.
Definition ds_channels (d : tf_dataset) : list (option Z) :=
  match ds_sop d with
  | SC_SEG | SC_LABELMAP_SEG =>
      if ds_labelmap d then [None] else map (fun c => Some (c + 1)) (zrange (ds_nseg d))
  | _ => map (fun c => Some (c + 1)) (zrange (opt_default (ds_len_ops d) (ds_nop d)))
  end.
Definition ds_plane (d : tf_dataset) (k : Z) : list ((Z * Z) * vec3) :=
  tile_positions (ds_R d) (ds_C d) (ds_th d) (ds_tw d)
    (V3 (ds_x d) (ds_y d) (opt_default 0 (ds_zorigin d) + inject_Z k * opt_default 1 (ds_sbs d))%Q)
    (ds_rc d) (ds_cc d) (ds_spr d) (ds_spc d).
Definition iter_tiled_full_ds (d : tf_dataset) : res (list (option Z * Z * (Z * Z) * vec3)) :=
  match ds_sop d with
  | SC_OTHER => Err "ValueError"
  | _ =>
    match ds_dim_org d with
    | Some true => Ok (iter_gen (ds_channels d) (opt_default 1 (ds_nfp d)) (ds_plane d))
    | _ => Err "ValueError"
    end
  end.

(* utils.compute_plane_position_slide_per_frame: one plane position per
   frame of iter_tiled_full_frame_data, (column, row) and (x, y, z) only *)
Definition slide_per_frame (d : tf_dataset) : res (list ((Z * Z) * vec3)) :=
  bind (iter_tiled_full_ds d) (fun l => Ok (map (fun t => (snd (fst t), snd t)) l)).

(* spatial.get_tile_array on an array with trailing dimensions (R x C x S,
   each pixel a list of samples): the cut is the same, pads are zero pixels *)
Definition get_tile_array_nd (S : Z) (M : list (list (list Z))) (R C : Z) (ro co th tw : Z) (pad : bool)
  : res (list (list (list Z))) :=
  if (ro <? 1) || (R <? ro) then Err "ValueError"
  else if (co <? 1) || (C <? co) then Err "ValueError"
  else
    let ro0 := ro - 1 in let co0 := co - 1 in
    let rend := Z.min (ro0 + th) R in let cend := Z.min (co0 + tw) C in
    let pad_rows := Z.max (ro0 + th - R) 0 in
    let pad_cols := Z.max (co0 + tw - C) 0 in
    let zpix := repeat 0 (Z.to_nat S) in
    let t := map (slice_list co0 cend) (slice_list ro0 rend M) in
    if pad then
      Ok (pad_right (repeat zpix (Z.to_nat (cend - co0 + pad_cols))) pad_rows
                    (map (pad_right zpix pad_cols) t))
    else Ok t.

(* every tile of the grid, in the order of compute_tile_positions_per_frame *)
Definition cut_all (M : list (list Z)) (R C th tw : Z) (pad : bool)
  : list ((Z * Z) * res (list (list Z))) :=
  map (fun o => (o, get_tile_array M R C (snd o) (fst o) th tw pad)) (tile_offsets R C th tw).

(* ---- further boundary functions ---------------------------------------- *)
Definition vpos_list (l : list ((Z * Z) * vec3)) : val :=
  VL (map (fun t => VL [vpairz (fst t); vvec (snd t)]) l).
Definition run_positions_chk npos nori nsp R C th tw pos rc cc spr spc : val :=
  vres vpos_list (tile_positions_chk npos nori nsp R C th tw pos rc cc spr spc).
Definition run_affine pos rc cc spr spc : val :=
  VL (map vq_list (affine_matrix pos rc cc spr spc)).
Definition run_affine_apply pos rc cc spr spc (pts : list (Z * Z)) : val :=
  VL (map (fun p => vvec (affine_apply (affine_matrix pos rc cc spr spc) (fst p) (snd p))) pts).
Definition run_ppos2 ri ci x y th tw rc cc spr spc sidx sbs : val :=
  vres (fun t => VL [vpairz (fst t); vvec (snd t)])
       (plane_position_tiled_full2 ri ci x y th tw rc cc spr spc sidx sbs).
Definition run_iter_ds (d : tf_dataset) : val :=
  vres (fun l => VL (map (fun t => match t with (ch, k, o, p) =>
          VL [vopt VZ ch; VZ k; VZ (fst o); VZ (snd o); vvec p] end) l))
       (iter_tiled_full_ds d).
Definition run_slide_per_frame (d : tf_dataset) : val := vres vpos_list (slide_per_frame d).
Definition vz_list3 (l : list (list (list Z))) : val := VL (map vz_list2 l).
Definition run_tile_array_nd S M R C ro co th tw pad : val :=
  vres vz_list3 (get_tile_array_nd S M R C ro co th tw pad).
Definition run_cut_all M R C th tw pad : val :=
  VL (map (fun t => VL [vpairz (fst t); vres vz_list2 (snd t)]) (cut_all M R C th tw pad)).

(* utils.are_plane_positions_tiled_full, statement by statement: the scan for
   the largest row / column position (two independent `if`s), the length
   test, then the zip loop returning False at the first differing pair.
   Proved equal to are_tiled_full in C12_Proofs_Ext.v. *)
Fixpoint scan_max (ps : list (Z * Z)) (max_r max_c : Z) : Z * Z :=
  match ps with
  | [] => (max_r, max_c)
  | (r, c) :: t => scan_max t (if max_r <? r then r else max_r) (if max_c <? c then c else max_c)
  end.
Fixpoint zip_all_eq (e ps : list (Z * Z)) : bool :=
  match e, ps with
  | (r_exp, c_exp) :: e', (r, c) :: ps' =>
      if negb (r =? r_exp) || negb (c =? c_exp) then false else zip_all_eq e' ps'
  | _, _ => true
  end.
Definition are_tiled_full_code (ps : list (Z * Z)) (th tw : Z) : bool :=
  let '(max_r, max_c) := scan_max ps (-1) (-1) in
  let e := expected_positions max_r max_c th tw in
  if negb (Nat.eqb (List.length e) (List.length ps)) then false else zip_all_eq e ps.
Definition run_tiled_full_code ps th tw : val := VB (are_tiled_full_code ps th tw).

(* ======================================================================
   Extension 2: the whole integer domain of the size arguments, error
   propagation into the per-frame generator, the single-tile helper driven
   over the whole enumeration, per-frame data fed to the full-tiling test.
   ====================================================================== *)

(* spatial.compute_tile_positions_per_frame for ALL integer sizes: after the
   length checks, `// columns`, `// rows` (ZeroDivisionError) and the
   transformer's spacing check (ValueError), an EMPTY meshgrid (a tile count
   <= 0: matrix size <= 0, or a negative tile size with a matrix size > 1) is
   a float array, which PixelToReferenceTransformer.__call__ refuses with
   TypeError.  A negative tile size with matrix size 1 gives one tile. *)
Definition tile_positions_dom (npos nori nsp : Z) (R C th tw : Z) (pos rowcos colcos : vec3)
           (spr spc : Q) : res (list ((Z * Z) * vec3)) :=
  if negb (npos =? 3) then Err "ValueError"
  else if negb (nori =? 6) then Err "ValueError"
  else if negb (nsp =? 2) then Err "ValueError"
  else if (tw =? 0) || (th =? 0) then Err "ZeroDivisionError"
  else if bad_spacing spr spc then Err "ValueError"
  else if (tiles_per_column C tw <=? 0) || (tiles_per_row R th <=? 0) then Err "TypeError"
  else Ok (tile_positions R C th tw pos rowcos colcos spr spc).

(* spatial.iter_tiled_full_frame_data consumed to the end: the errors of
   compute_tile_positions_per_frame surface iff the channel x focal-plane
   loop body runs at least once *)
Definition iter_tiled_full_ds_chk (d : tf_dataset) : res (list (option Z * Z * (Z * Z) * vec3)) :=
  bind (iter_tiled_full_ds d) (fun l =>
    match ds_channels d with
    | [] => Ok l
    | _ :: _ =>
        if opt_default 1 (ds_nfp d) <=? 0 then Ok l
        else bind (tile_positions_dom 3 6 2 (ds_R d) (ds_C d) (ds_th d) (ds_tw d)
                     (V3 (ds_x d) (ds_y d) 0) (ds_rc d) (ds_cc d) (ds_spr d) (ds_spc d))
                  (fun _ => Ok l)
    end).

(* utils.compute_plane_position_tiled_full called for every (column, row)
   index pair of spatial.tile_pixel_matrix, in that order *)
Definition helper_positions (R C th tw : Z) (x y : Q) (rowcos colcos : vec3) (spr spc : Q)
           (slice : option (Z * Q)) : list (res ((Z * Z) * vec3)) :=
  map (fun t => plane_position_tiled_full (snd t) (fst t) x y th tw rowcos colcos spr spc slice)
      (tile_pixel_matrix R C th tw).

(* (row position, column position) of a plane position, as read by
   utils.are_plane_positions_tiled_full *)
Definition rc_of (t : (Z * Z) * vec3) : Z * Z := (snd (fst t), fst (fst t)).
Definition oks {A} (l : list (res A)) : list A :=
  flat_map (fun r => match r with Ok a => [a] | Err _ => [] end) l.

(* are_plane_positions_tiled_full(compute_plane_position_slide_per_frame(ds),
   ds.Rows, ds.Columns) *)
Definition pf_tiled_full (d : tf_dataset) : res bool :=
  bind (slide_per_frame d) (fun l => Ok (are_tiled_full_code (map rc_of l) (ds_th d) (ds_tw d))).

(* spatial.get_tile_array for ALL integer tile sizes: the end of a numpy
   slice that is negative counts from the end of the axis *)
Definition py_end (e n : Z) : Z := if e <? 0 then Z.max (e + n) 0 else Z.min e n.
Definition get_tile_array_py (M : list (list Z)) (R C : Z) (ro co th tw : Z) (pad : bool)
  : res (list (list Z)) :=
  if (ro <? 1) || (R <? ro) then Err "ValueError"
  else if (co <? 1) || (C <? co) then Err "ValueError"
  else
    let ro0 := ro - 1 in let co0 := co - 1 in
    let rend := Z.min (ro0 + th) R in let cend := Z.min (co0 + tw) C in
    let pad_rows := Z.max (ro0 + th - R) 0 in
    let pad_cols := Z.max (co0 + tw - C) 0 in
    let t := map (slice_list co0 (py_end cend C)) (slice_list ro0 (py_end rend R) M) in
    if pad then
      Ok (pad_right (repeat 0 (Z.to_nat (Z.max (py_end cend C - co0) 0 + pad_cols))) pad_rows
                    (map (pad_right 0 pad_cols) t))
    else Ok t.

(* spatial.is_tiled_image: the three attributes are present *)
Definition is_tiled_image (has_tpm_rows has_tpm_columns has_number_of_frames : bool) : bool :=
  has_tpm_rows && has_tpm_columns && has_number_of_frames.

(* every tile of an R x C x S array, in the order of compute_tile_positions_per_frame *)
Definition cut_all_nd (S : Z) (M : list (list (list Z))) (R C th tw : Z) (pad : bool)
  : list ((Z * Z) * res (list (list (list Z)))) :=
  map (fun o => (o, get_tile_array_nd S M R C (snd o) (fst o) th tw pad)) (tile_offsets R C th tw).

(* ---- boundary functions of extension 2 ---------------------------------- *)
Definition run_positions_dom npos nori nsp R C th tw pos rc cc spr spc : val :=
  vres vpos_list (tile_positions_dom npos nori nsp R C th tw pos rc cc spr spc).
Definition run_iter_ds_chk (d : tf_dataset) : val :=
  vres (fun l => VL (map (fun t => match t with (ch, k, o, p) =>
          VL [vopt VZ ch; VZ k; VZ (fst o); VZ (snd o); vvec p] end) l))
       (iter_tiled_full_ds_chk d).
Definition run_helper_positions R C th tw x y rc cc spr spc sl : val :=
  let l := helper_positions R C th tw x y rc cc spr spc sl in
  VL [VL (map (vres (fun t => VL [vpairz (fst t); vvec (snd t)])) l);
      VB (are_tiled_full_code (map rc_of (oks l)) th tw)].
Definition run_pf_tiled_full (d : tf_dataset) : val := vres VB (pf_tiled_full d).
Definition run_tile_array_py M R C ro co th tw pad : val :=
  vres vz_list2 (get_tile_array_py M R C ro co th tw pad).
Definition run_is_tiled a b c : val := VB (is_tiled_image a b c).
Definition run_cut_all_nd S M R C th tw pad : val :=
  VL (map (fun t => VL [vpairz (fst t); vres vz_list3 (snd t)]) (cut_all_nd S M R C th tw pad)).

(* utils.are_plane_positions_tiled_full for ALL integer tile sizes: Python's
   range(1, m + 1, step) raises ValueError for step 0 and counts DOWN from 1
   for a negative step (non-empty only when m + 1 < 1) *)
Definition py_range1 (m step : Z) : list Z :=
  if 0 <? step then range1 m step
  else if m <? 0 then map (fun k => 1 + k * step) (zrange (1 + (- m - 1) / (- step)))
  else [].
Definition are_tiled_full_dom (ps : list (Z * Z)) (th tw : Z) : res bool :=
  if (th =? 0) || (tw =? 0) then Err "ValueError"
  else
    let '(max_r, max_c) := scan_max ps (-1) (-1) in
    let e := flat_map (fun r => map (fun c => (r, c)) (py_range1 max_c tw)) (py_range1 max_r th) in
    Ok (if negb (Nat.eqb (List.length e) (List.length ps)) then false else zip_all_eq e ps).
Definition run_tiled_full_dom ps th tw : val := vres VB (are_tiled_full_dom ps th tw).
