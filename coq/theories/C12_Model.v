(* C12 - model of the tiling helpers.
   Mirrors (src/highdicom):
     spatial.py  tile_pixel_matrix, get_tile_array,
                 compute_tile_positions_per_frame, iter_tiled_full_frame_data
     utils.py    compute_plane_position_tiled_full, are_plane_positions_tiled_full
   Integers are Z; physical positions are exact rationals (Q). *)
From Coq Require Import ZArith List Bool String QArith.
From HD Require Import Base.Val.
Import ListNotations.
Open Scope Z_scope.

Definition zrange (n : Z) : list Z := map Z.of_nat (seq 0 (Z.to_nat n)).

(* int(np.ceil(a / b)) for positive ints (float division is exact enough
   below 2^53; validated by the correspondence run) *)
Definition cdiv (a b : Z) : Z := (a + b - 1) / b.

(* spatial.tile_pixel_matrix : 1-based (column index, row index) of each tile *)
Definition tile_pixel_matrix (R C th tw : Z) : list (Z * Z) :=
  flat_map (fun r => map (fun c => (c + 1, r + 1)) (zrange (cdiv C tw)))
           (zrange (cdiv R th)).

(* spatial.compute_tile_positions_per_frame, integer part:
   1-based (column offset, row offset) of each tile, meshgrid 'xy' order *)
Definition tiles_per_column (C tw : Z) : Z := (C - 1) / tw + 1.
Definition tiles_per_row (R th : Z) : Z := (R - 1) / th + 1.
Definition tile_offsets (R C th tw : Z) : list (Z * Z) :=
  flat_map (fun r => map (fun c => (c * tw + 1, r * th + 1)) (zrange (tiles_per_column C tw)))
           (zrange (tiles_per_row R th)).

(* physical position: PixelToReferenceTransformer on 0-based (column,row)
   pixel index:  pos + c * spacing_between_columns * row_cosines
                     + r * spacing_between_rows    * column_cosines
   orientation = (r1,r2,r3,c1,c2,c3), pixel_spacing = (between rows, between cols) *)
Record vec3 := V3 { vx : Q; vy : Q; vz : Q }.
Definition vadd (a b : vec3) := V3 (vx a + vx b) (vy a + vy b) (vz a + vz b).
Definition vscale (k : Q) (a : vec3) := V3 (k * vx a) (k * vy a) (k * vz a).
Definition pix2ref (pos rowcos colcos : vec3) (sp_rows sp_cols : Q) (c r : Z) : vec3 :=
  vadd pos (vadd (vscale (inject_Z c * sp_cols) rowcos)
                 (vscale (inject_Z r * sp_rows) colcos)).

Definition tile_positions (R C th tw : Z) (pos rowcos colcos : vec3) (spr spc : Q)
  : list ((Z * Z) * vec3) :=
  map (fun o => (o, pix2ref pos rowcos colcos spr spc (fst o - 1) (snd o - 1)))
      (tile_offsets R C th tw).

(* spatial.iter_tiled_full_frame_data: channel x focal plane x grid;
   z offset of focal plane k (1-based) = (k-1) * spacing_between_slices *)
Definition iter_tiled_full (nch nfp R C th tw : Z) (x y : Q) (rowcos colcos : vec3)
           (spr spc sbs : Q) : list (Z * Z * (Z * Z) * vec3) :=
  flat_map (fun ch =>
    flat_map (fun k =>
      map (fun t => (ch + 1, k + 1, fst t, snd t))
          (tile_positions R C th tw (V3 x y (inject_Z k * sbs)) rowcos colcos spr spc))
      (zrange nfp))
    (zrange nch).

(* utils.compute_plane_position_tiled_full *)
Definition plane_position_tiled_full (row_index column_index : Z) (x y : Q)
           (th tw : Z) (rowcos colcos : vec3) (spr spc : Q)
           (slice : option (Z * Q)) : res ((Z * Z) * vec3) :=
  if (row_index <? 1) || (column_index <? 1) then Err "ValueError"
  else
    let ro := (row_index - 1) * th in
    let co := (column_index - 1) * tw in
    let z := match slice with Some (k, sbs) => (inject_Z (k - 1) * sbs)%Q | None => 0%Q end in
    Ok ((co + 1, ro + 1), pix2ref (V3 x y z) rowcos colcos spr spc co ro).

(* utils.are_plane_positions_tiled_full on (row position, column position) pairs *)
Definition max_from (init : Z) (l : list Z) : Z := fold_left Z.max l init.
(* range(1, m + 1, step) *)
Definition range1 (m step : Z) : list Z :=
  map (fun k => 1 + k * step) (zrange (if m <? 1 then 0 else (m - 1) / step + 1)).
Definition expected_positions (max_r max_c th tw : Z) : list (Z * Z) :=
  flat_map (fun r => map (fun c => (r, c)) (range1 max_c tw)) (range1 max_r th).
Definition pair_eqb (a b : Z * Z) : bool := (fst a =? fst b) && (snd a =? snd b).
Fixpoint list_eqb (a b : list (Z * Z)) : bool :=
  match a, b with
  | [], [] => true
  | x :: a', y :: b' => pair_eqb x y && list_eqb a' b'
  | _, _ => false
  end.
Definition are_tiled_full (ps : list (Z * Z)) (th tw : Z) : bool :=
  let max_r := max_from (-1) (map fst ps) in
  let max_c := max_from (-1) (map snd ps) in
  list_eqb (expected_positions max_r max_c th tw) ps.

(* spatial.get_tile_array on a row-major matrix (list of rows) *)
Definition slice_list {A} (a b : Z) (l : list A) : list A :=
  firstn (Z.to_nat (b - a)) (skipn (Z.to_nat a) l).
Definition pad_right {A} (d : A) (n : Z) (l : list A) : list A :=
  l ++ repeat d (Z.to_nat n).
Definition get_tile_array (M : list (list Z)) (R C : Z) (ro co th tw : Z) (pad : bool)
  : res (list (list Z)) :=
  if (ro <? 1) || (R <? ro) then Err "ValueError"
  else if (co <? 1) || (C <? co) then Err "ValueError"
  else
    let ro0 := ro - 1 in let co0 := co - 1 in
    let rend := Z.min (ro0 + th) R in let cend := Z.min (co0 + tw) C in
    let pad_rows := Z.max (ro0 + th - R) 0 in
    let pad_cols := Z.max (co0 + tw - C) 0 in
    let t := map (slice_list co0 cend) (slice_list ro0 rend M) in
    if pad then
      Ok (pad_right (repeat 0 (Z.to_nat (cend - co0 + pad_cols))) pad_rows
                    (map (pad_right 0 pad_cols) t))
    else Ok t.

(* cell of the tile placed at 1-based offset (ro, co): the matrix cell it was cut from *)
Definition cell (M : list (list Z)) (r c : Z) : Z :=
  nth (Z.to_nat c) (nth (Z.to_nat r) M []) 0.

(* ---- boundary functions for the correspondence run -------------------- *)
Definition vpairz (p : Z * Z) : val := VL [VZ (fst p); VZ (snd p)].
Definition vvec (v : vec3) : val := VL [VQ (vx v); VQ (vy v); VQ (vz v)].
Definition run_tpm R C th tw : val := VL (map vpairz (tile_pixel_matrix R C th tw)).
Definition run_positions R C th tw pos rc cc spr spc : val :=
  VL (map (fun t => VL [vpairz (fst t); vvec (snd t)]) (tile_positions R C th tw pos rc cc spr spc)).
Definition run_iter (labelmap : bool) nch nfp R C th tw x y rc cc spr spc sbs : val :=
  VL (map (fun t => match t with (ch, k, o, p) =>
            VL [(if labelmap then VNone else VZ ch); VZ k; VZ (fst o); VZ (snd o); vvec p] end)
          (iter_tiled_full nch nfp R C th tw x y rc cc spr spc sbs)).
Definition run_ppos ri ci x y th tw rc cc spr spc sl : val :=
  vres (fun t => VL [vpairz (fst t); vvec (snd t)])
       (plane_position_tiled_full ri ci x y th tw rc cc spr spc sl).
Definition run_tiled_full ps th tw : val := VB (are_tiled_full ps th tw).
Definition run_tile_array M R C ro co th tw pad : val :=
  vres vz_list2 (get_tile_array M R C ro co th tw pad).
