(* C20 - proofs, part 2: string guards imply pydicom's validators; generated
   identifiers are well formed and distinct for distinct draws. *)
From Coq Require Import String ZArith List Bool Lia ZifyBool.
From HD Require Import Base.Val C20_Model.
From HD Require Base.ListZ.
Import ListNotations.
Open Scope Z_scope.
Ltac Zify.zify_post_hook ::= Z.to_euclidean_division_equations.

(* ------------------------------------------------------------ guards *)
Lemma last_is_in (p : Z -> bool) s : last_is p s = true -> exists c, In c s /\ p c = true.
Proof.
  unfold last_is. destruct (rev s) as [|c r] eqn:E; [discriminate|].
  intros H. exists c. split; [|exact H]. apply in_rev. rewrite E. left. reflexivity.
Qed.

Lemma cs_no_trailing_newline s : forallb cs_class s = true -> last_is (fun c => c =? 10) s = false.
Proof.
  intros H. destruct (last_is (fun c => c =? 10) s) eqn:E; [|reflexivity].
  apply last_is_in in E. destruct E as (c & Hin & Hc).
  rewrite forallb_forall in H. specialize (H c Hin).
  assert (c = 10) by lia. subst. discriminate.
Qed.

Lemma guard_implies_valid : forall v s, hd_guard v s = true -> pydicom_valid v s = true.
Proof.
  intros v s H. destruct v; unfold hd_guard in H; unfold pydicom_valid.
  - unfold hd_check_cs in H.
    apply andb_true_iff in H as [H Hlast]. apply andb_true_iff in H as [H Hfirst].
    apply andb_true_iff in H as [H Hall]. apply andb_true_iff in H as [Hlo Hhi].
    apply andb_true_iff. split; [cbn [max_len]; assumption|].
    destruct s as [|c r]; [reflexivity|].
    unfold dollar_match. rewrite Hall. rewrite (cs_no_trailing_newline _ Hall). reflexivity.
  - apply andb_true_iff in H. destruct H as [H _]. rewrite H. reflexivity.
  - apply andb_true_iff in H. destruct H as [H _]. rewrite H. reflexivity.
  - apply andb_true_iff in H. destruct H as [H _]. rewrite H. reflexivity.
  - apply andb_true_iff in H. destruct H as [H _]. rewrite H. reflexivity.
Qed.

(* the guard as it was before fix 5166f58 let "A\n" through (D30) *)
Lemma guard_old_refuted : exists s, hd_check_cs_old s = true /\ pydicom_valid CS s = false.
Proof. exists [65; 10]. vm_compute. split; reflexivity. Qed.

(* what the CS guard means, spelled out *)
Lemma hd_check_cs_spec s : hd_check_cs s = true <->
  (1 <= zlen s <= 16) /\ (forall c, In c s -> cs_class c = true) /\
  (exists c r, s = c :: r /\ is_upper c = true) /\
  last_is (fun c => (c =? 95) || (c =? 32)) s = false.
Proof.
  unfold hd_check_cs. split.
  - intros H.
    apply andb_true_iff in H as [H Hlast]. apply andb_true_iff in H as [H Hfirst].
    apply andb_true_iff in H as [H Hall]. apply andb_true_iff in H as [Hlo Hhi].
    rewrite forallb_forall in Hall. repeat split; try lia; auto.
    + destruct s as [|c r]; [cbn in *; lia|]. exists c, r. split; [reflexivity|].
      assert (Hc : cs_class c = true) by (apply Hall; left; reflexivity).
      unfold cs_class in Hc. destruct (is_upper c); [reflexivity|].
      destruct (is_digit c), (c =? 32), (c =? 95); cbn in *; discriminate.
    + destruct (last_is _ s); [discriminate | reflexivity].
  - intros ((L1 & L2) & Hall & (c & r & -> & Hu) & Hl).
    rewrite Hl. rewrite <- forallb_forall in Hall. rewrite Hall.
    assert (is_digit c = false /\ (c =? 32) = false /\ (c =? 95) = false) as (-> & -> & ->).
    { unfold is_upper, is_digit in *. lia. }
    cbn [negb orb andb]. rewrite !andb_true_r. apply andb_true_iff. split; lia.
Qed.

(* ------------------------------------------------------------ decimal *)
Definition val10 (l : list Z) : Z := fold_left (fun a d => 10 * a + d) l 0.

Lemma val10_app l d : val10 (l ++ [d]) = 10 * val10 l + d.
Proof. unfold val10. rewrite fold_left_app. reflexivity. Qed.

Lemma pow2_step f n : 0 <= n < 2 ^ Z.of_nat (S f) -> 0 <= n / 10 < 2 ^ Z.of_nat f.
Proof.
  rewrite Nat2Z.inj_succ, Z.pow_succ_r by lia. intros H.
  assert (0 < 2 ^ Z.of_nat f) by (apply Z.pow_pos_nonneg; lia). lia.
Qed.

Lemma pow2_zero n : 0 <= n < 2 ^ Z.of_nat 0 -> n = 0.
Proof. change (2 ^ Z.of_nat 0) with 1. lia. Qed.

Lemma dfuel_ok n : 0 <= n -> 0 <= n < 2 ^ Z.of_nat (dfuel n).
Proof.
  intros H. split; [exact H|]. unfold dfuel.
  rewrite Nat2Z.inj_succ, Z2Nat.id by apply Z.log2_nonneg.
  destruct (Z.eq_dec n 0) as [->|Hn]; [reflexivity|].
  apply Z.log2_spec. lia.
Qed.

Lemma digits_aux_val : forall fuel n, 0 <= n < 2 ^ Z.of_nat fuel -> val10 (digits_aux fuel n) = n.
Proof.
  induction fuel as [|f IH]; intros n Hn; cbn [digits_aux].
  - apply pow2_zero in Hn. subst. reflexivity.
  - destruct (n <? 10) eqn:E.
    + unfold val10. cbn. lia.
    + rewrite val10_app, IH by (apply pow2_step; exact Hn). lia.
Qed.

Lemma digits_aux_range : forall fuel n, 0 <= n ->
  Forall (fun d => 0 <= d <= 9) (digits_aux fuel n).
Proof.
  induction fuel as [|f IH]; intros n Hn; cbn [digits_aux].
  - constructor; [lia | constructor].
  - destruct (n <? 10) eqn:E.
    + constructor; [lia | constructor].
    + apply Forall_app. split; [apply IH; lia | constructor; [lia | constructor]].
Qed.

Lemma digits_aux_len : forall fuel n (k : nat), 0 <= n < 2 ^ Z.of_nat fuel -> (1 <= k)%nat ->
  n < 10 ^ Z.of_nat k -> (length (digits_aux fuel n) <= k)%nat.
Proof.
  induction fuel as [|f IH]; intros n k Hn Hk Hlt; cbn [digits_aux].
  - cbn. lia.
  - destruct (n <? 10) eqn:E; [cbn; lia|].
    rewrite app_length. cbn [length].
    destruct k as [|k]; [lia|]. destruct k as [|k].
    + change (10 ^ Z.of_nat 1) with 10 in Hlt. lia.
    + assert (H10 : 10 ^ Z.of_nat (S (S k)) = 10 * 10 ^ Z.of_nat (S k)).
      { rewrite (Nat2Z.inj_succ (S k)). apply Z.pow_succ_r. lia. }
      assert (n / 10 < 10 ^ Z.of_nat (S k)).
      { apply Z.div_lt_upper_bound; lia. }
      specialize (IH (n / 10) (S k) (pow2_step _ _ Hn)). lia.
Qed.

Lemma digits_aux_lead : forall fuel n, 1 <= n < 2 ^ Z.of_nat fuel ->
  exists d l, digits_aux fuel n = d :: l /\ 1 <= d <= 9.
Proof.
  induction fuel as [|f IH]; intros n Hn.
  { assert (n = 0) by (apply pow2_zero; lia). lia. }
  cbn [digits_aux].
  destruct (n <? 10) eqn:E.
  - exists n, []. split; [reflexivity | lia].
  - destruct (IH (n / 10)) as (d & l & Hd & Hr).
    { assert (0 <= n / 10 < 2 ^ Z.of_nat f) by (apply pow2_step; lia). lia. }
    rewrite Hd. exists d, (l ++ [n mod 10]). split; [reflexivity | exact Hr].
Qed.

Lemma digits_small n : 0 <= n < 10 -> digits n = [n].
Proof.
  intros H. unfold digits, dfuel. cbn [digits_aux].
  replace (n <? 10) with true by lia. reflexivity.
Qed.

Lemma digits_val n : 0 <= n -> val10 (digits n) = n.
Proof. intros H. apply digits_aux_val. apply dfuel_ok. exact H. Qed.

Lemma digits_inj n m : 0 <= n -> 0 <= m -> digits n = digits m -> n = m.
Proof. intros Hn Hm E. rewrite <- (digits_val n Hn), <- (digits_val m Hm), E. reflexivity. Qed.

Lemma map_add_inj (l1 l2 : list Z) : map (fun d => 48 + d) l1 = map (fun d => 48 + d) l2 -> l1 = l2.
Proof.
  revert l2. induction l1 as [|a l IH]; destruct l2 as [|b l2]; cbn [map]; intros E; try discriminate; auto.
  assert (E1 : 48 + a = 48 + b) by exact (f_equal (hd 0) E).
  assert (E2 : map (fun d => 48 + d) l = map (fun d => 48 + d) l2) by exact (f_equal (@tl Z) E).
  f_equal; [lia | auto].
Qed.

(* distinct draws give distinct identifiers *)
Lemma uid_injective : forall prefix n m, 0 <= n -> 0 <= m ->
  uid_of prefix n = uid_of prefix m -> n = m.
Proof.
  intros p n m Hn Hm E. unfold uid_of, dec in E. apply app_inv_head in E.
  apply map_add_inj in E. apply digits_inj; assumption.
Qed.

(* --------------------------------------------------- well-formedness *)
Lemma split_nodot : forall t cur, forallb is_digit t = true -> split_dot t cur = [rev cur ++ t].
Proof.
  induction t as [|c r IH]; intros cur H; cbn [split_dot].
  - rewrite app_nil_r. reflexivity.
  - cbn [forallb] in H. apply andb_true_iff in H. destruct H as [Hc Hr].
    replace (c =? 46) with false by (unfold is_digit in Hc; lia).
    rewrite IH by exact Hr. cbn [rev]. rewrite <- app_assoc. reflexivity.
Qed.

Lemma dec_digits n : 0 <= n -> forallb is_digit (dec n) = true.
Proof.
  intros H. unfold dec. apply forallb_forall. intros c Hc. apply in_map_iff in Hc.
  destruct Hc as (d & <- & Hd).
  pose proof (digits_aux_range (dfuel n) n H) as F. rewrite Forall_forall in F.
  specialize (F d Hd). unfold is_digit. lia.
Qed.

Lemma dec_component_ok n : 0 <= n -> component_ok (dec n) = true.
Proof.
  intros H. destruct (Z_lt_ge_dec n 10) as [Hs | Hb].
  - unfold dec. rewrite digits_small by lia. cbn [map component_ok]. unfold is_digit. lia.
  - pose proof (dec_digits n H) as Hd. unfold dec in *.
    destruct (digits_aux_lead (dfuel n) n) as (d & l & E & Hr); [pose proof (dfuel_ok n H); lia|].
    unfold digits in *. rewrite E in *. cbn [map forallb] in *.
    apply andb_true_iff in Hd. destruct Hd as [Hd1 Hd2].
    cbn [component_ok]. destruct (map (fun d0 => 48 + d0) l) as [|c r] eqn:El.
    + exact Hd1.
    + rewrite Hd1, Hd2. replace (48 + d =? 48) with false by lia. reflexivity.
Qed.

Lemma dec_len n (k : nat) : 0 <= n < 10 ^ Z.of_nat k -> (1 <= k)%nat -> zlen (dec n) <= Z.of_nat k.
Proof.
  intros H Hk. unfold zlen, dec. rewrite map_length.
  pose proof (digits_aux_len (dfuel n) n k (dfuel_ok n (proj1 H))). unfold digits. lia.
Qed.

(* UID.from_uuid: '2.25.' ++ decimal of a 128-bit value *)
Theorem uid_uuid_wellformed : forall n, 0 <= n < 2 ^ 128 -> uid_valid (uid_of prefix_uuid n) = true.
Proof.
  intros n H. unfold uid_valid, uid_of. apply andb_true_iff. split.
  - unfold zlen. rewrite app_length.
    assert (zlen (dec n) <= Z.of_nat 39).
    { apply dec_len; [|lia]. split; [lia|].
      eapply Z.lt_le_trans; [apply H|]. vm_compute. discriminate. }
    unfold zlen in *. cbn [prefix_uuid length]. lia.
  - change (split_dot (prefix_uuid ++ dec n) []) with ([50] :: [50; 53] :: split_dot (dec n) []).
    rewrite split_nodot by (apply dec_digits; lia).
    cbn [forallb rev app]. rewrite dec_component_ok by lia. reflexivity.
Qed.

(* UID(): highdicom root ++ decimal of secrets.randbelow(10 ** (64 - 29)) *)
Theorem uid_hd_wellformed : forall n, 0 <= n < 10 ^ 35 -> uid_valid (uid_of prefix_hd n) = true.
Proof.
  intros n H. unfold uid_valid, uid_of. apply andb_true_iff. split.
  - unfold zlen. rewrite app_length.
    assert (zlen (dec n) <= Z.of_nat 35) by (apply dec_len; [exact H | lia]).
    unfold zlen in *. cbn [prefix_hd length]. lia.
  - change (split_dot (prefix_hd ++ dec n) []) with
      ([49] :: [50] :: [56; 50; 54] :: [48] :: [49] :: [51; 54; 56; 48; 48; 52; 51] ::
       [49; 48] :: [53; 49; 49] :: [51] :: split_dot (dec n) []).
    rewrite split_nodot by (apply dec_digits; lia).
    cbn [forallb rev app]. rewrite dec_component_ok by lia. reflexivity.
Qed.

(* uid_valid spelled out: at most 64 characters, digits and dots only,
   no empty component, no component with a leading zero *)
Lemma component_ok_spec c : component_ok c = true ->
  c <> [] /\ forallb is_digit c = true /\ (forall d r, c = d :: r -> r <> [] -> d <> 48).
Proof.
  destruct c as [|d [|d2 r]]; cbn [component_ok]; intros H; [discriminate| |].
  - split; [discriminate|]. split; [cbn; rewrite H; reflexivity|]. intros ? ? E Hr. inversion E; subst. congruence.
  - apply andb_true_iff in H. destruct H as [H H3]. apply andb_true_iff in H. destruct H as [H1 H2].
    split; [discriminate|]. split.
    + cbn [forallb] in *. rewrite H1. exact H3.
    + intros d' r' E _. inversion E; subst. lia.
Qed.

(* ------------------------------------------------ look-up table storage *)
Lemma zlen_app (a b : str) : zlen (a ++ b) = zlen a + zlen b.
Proof. unfold zlen. rewrite app_length. lia. Qed.

Lemma zlen_le16 data : zlen (flat_map le16 data) = 2 * zlen data.
Proof.
  induction data as [|v r IH]; [reflexivity|].
  cbn [flat_map]. rewrite zlen_app, IH. unfold zlen, le16. cbn [length]. lia.
Qed.

Lemma palette_store_len bits data : bits = 8 \/ bits = 16 ->
  zlen (palette_store bits data) = if bits =? 8 then zlen data + zlen data mod 2 else 2 * zlen data.
Proof.
  intros [-> | ->]; unfold palette_store, lut_bytes, lut_pad; cbn [Z.eqb Pos.eqb andb]; rewrite zlen_app.
  - destruct (Z.odd (zlen data)) eqn:E.
    + rewrite Zodd_mod in E. apply Zeq_bool_eq in E. change (zlen [0]) with 1. lia.
    + assert (zlen data mod 2 = 0).
      { rewrite Zodd_mod in E. apply Zeq_bool_neq in E.
        pose proof (Z.mod_pos_bound (zlen data) 2). lia. }
      change (zlen []) with 0. lia.
  - rewrite zlen_le16. change (zlen []) with 0. lia.
Qed.

Lemma palette_store_even bits data : bits = 8 \/ bits = 16 ->
  Z.even (zlen (palette_store bits data)) = true.
Proof.
  intros Hb. rewrite (palette_store_len bits data Hb). destruct Hb as [-> | ->]; cbn [Z.eqb Pos.eqb].
  - rewrite Zeven_mod. apply Zeq_is_eq_bool.
    pose proof (Z.mod_pos_bound (zlen data) 2). lia.
  - rewrite Z.even_mul. reflexivity.
Qed.

Lemma words16_le16 data : (forall v, In v data -> 0 <= v < 65536) -> words16 (flat_map le16 data) = data.
Proof.
  induction data as [|v r IH]; intros H; [reflexivity|].
  cbn [flat_map le16 app words16]. rewrite IH by (intros; apply H; now right).
  f_equal. pose proof (H v (or_introl eq_refl)). lia.
Qed.

Lemma palette_read_store bits data : bits = 8 \/ bits = 16 ->
  (forall v, In v data -> 0 <= v < 2 ^ bits) ->
  palette_read bits (zlen data) (palette_store bits data) = data.
Proof.
  intros [-> | ->] Hr; unfold palette_read, palette_store, lut_bytes, lut_pad; cbn [Z.eqb Pos.eqb andb].
  - destruct (Z.odd (zlen data)) eqn:E.
    + rewrite zlen_app. change (zlen [0]) with 1. rewrite Z.eqb_refl. apply removelast_last.
    + cbn [andb]. apply app_nil_r.
  - rewrite app_nil_r. apply words16_le16. intros v Hv. apply Hr in Hv. change (2 ^ 16) with 65536 in Hv. exact Hv.
Qed.

Lemma palette_lut_spec bits first data :
  (palette_lut bits first data = Err "ValueError" <-> palette_ok bits first data = false) /\
  (forall d s, palette_lut bits first data = Ok (d, s) ->
     palette_ok bits first data = true /\ d = lut_descriptor bits first data /\ s = palette_store bits data).
Proof.
  unfold palette_lut. destruct (palette_ok bits first data); split.
  - split; discriminate.
  - intros d s E. inversion E. auto.
  - split; reflexivity.
  - intros d s E. discriminate.
Qed.

Lemma palette_ok_bits bits first data : palette_ok bits first data = true -> bits = 8 \/ bits = 16.
Proof. unfold palette_ok. intros H. lia. Qed.

(* what the transformation holds is what the three tables hold, each of even length *)
Lemma palette_tf_spec bits first r g b d ss : palette_tf bits first r g b = Ok (d, ss) ->
  ss = [palette_store bits r; palette_store bits g; palette_store bits b] /\
  d = lut_descriptor bits first r /\ zlen r = zlen g /\ zlen g = zlen b /\
  (forall s, In s ss -> Z.even (zlen s) = true).
Proof.
  unfold palette_tf, palette_lut.
  destruct (palette_ok bits first r) eqn:Er; cbn [bind]; [|discriminate].
  destruct (palette_ok bits first g) eqn:Eg; cbn [bind]; [|discriminate].
  destruct (palette_ok bits first b) eqn:Eb; cbn [bind]; [|discriminate].
  destruct ((zlen r =? zlen g) && (zlen g =? zlen b)) eqn:El; [|discriminate].
  cbn [fst snd]. intros E. inversion E; subst. repeat split; try lia.
  pose proof (palette_ok_bits _ _ _ Er) as Hb.
  intros s [<- | [<- | [<- | []]]]; apply palette_store_even; exact Hb.
Qed.

(* without the pad byte (what [lut_data.tobytes()] alone gives) an 8-bit table
   with an odd number of entries is an odd-length value *)
Lemma unpadded_store_refuted : exists data, Z.even (zlen (lut_bytes 8 data)) = false.
Proof. exists [1; 2; 3]. reflexivity. Qed.

Lemma plain_lut_spec bits first data :
  (plain_lut bits first data = Err "ValueError" <-> plain_ok bits first data = false) /\
  (forall d s, plain_lut bits first data = Ok (d, s) ->
     d = lut_descriptor bits first data /\ s = palette_store bits data /\ Z.even (zlen s) = true).
Proof.
  unfold plain_lut. destruct (plain_ok bits first data) eqn:E; split.
  - split; discriminate.
  - intros d s H. inversion H; subst. repeat split. apply palette_store_even. unfold plain_ok in E. lia.
  - split; reflexivity.
  - intros d s H. discriminate.
Qed.

(* ------------------------------------- identifiers of one multi-object call *)
Lemma ascending_nil_or : forall l, ascending l = true \/ ascending l = false.
Proof. intros l. destruct (ascending l); auto. Qed.

Lemma pyramid_outputs_ge2 a b f n : 0 <= a -> 0 <= b -> pyramid_outputs a b f = Ok n -> 2 <= n.
Proof.
  intros Ha Hb. unfold pyramid_outputs.
  destruct (a =? 0) eqn:E1; [discriminate|]. destruct (b =? 0) eqn:E2; [discriminate|].
  destruct ((a =? 1) && (b =? 1)) eqn:E3.
  - destruct f as [fs|]; [|discriminate].
    destruct (zlen fs <? 1) eqn:E4; [discriminate|].
    destruct (existsb (fun f => f <=? 4) fs); [discriminate|].
    destruct (negb (ascending fs)); [discriminate|]. intros H. inversion H. lia.
  - destruct f; [discriminate|].
    destruct ((1 <? a) && (1 <? b)) eqn:E4.
    + destruct (a =? b); [|discriminate]. intros H. inversion H. lia.
    + intros H. inversion H. lia.
Qed.

Lemma str_eqb_eq : forall a b, str_eqb a b = true <-> a = b.
Proof.
  induction a as [|x a IH]; destruct b as [|y b]; cbn [str_eqb]; split; intros H; try discriminate; try reflexivity.
  - apply andb_true_iff in H. destruct H as [H1 H2]. apply Z.eqb_eq in H1. apply IH in H2. congruence.
  - inversion H; subst. rewrite Z.eqb_refl. cbn. apply IH. reflexivity.
Qed.

Lemma first_index_notin : forall pre x post, ~ In x pre ->
  first_index (pre ++ x :: post) x = Z.of_nat (length pre).
Proof.
  induction pre as [|y pre IH]; intros x post Hn; cbn [app first_index length].
  - assert (E : str_eqb x x = true) by (apply str_eqb_eq; reflexivity). rewrite E. reflexivity.
  - destruct (str_eqb y x) eqn:E.
    + apply str_eqb_eq in E. subst. exfalso. apply Hn. now left.
    + rewrite IH by (intros Hi; apply Hn; now right). lia.
Qed.

Lemma first_index_in : forall pre x post, In x pre ->
  0 <= first_index (pre ++ post) x < Z.of_nat (length pre) /\
  first_index (pre ++ post) x = first_index pre x.
Proof.
  induction pre as [|y pre IH]; intros x post Hi; [contradiction|].
  cbn [app first_index length]. destruct (str_eqb y x) eqn:E; [lia|].
  destruct Hi as [-> | Hi].
  - assert (E' : str_eqb x x = true) by (apply str_eqb_eq; reflexivity). congruence.
  - destruct (IH x post Hi) as [H1 H2]. lia.
Qed.

Lemma canon_from : forall post pre, NoDup (pre ++ post) ->
  map (first_index (pre ++ post)) post = map Z.of_nat (seq (length pre) (length post)).
Proof.
  induction post as [|x post IH]; intros pre Hn; [reflexivity|].
  cbn [map length seq]. f_equal.
  - apply first_index_notin. apply NoDup_remove_2 in Hn. intros Hi. apply Hn. apply in_or_app. now left.
  - replace (pre ++ x :: post) with ((pre ++ [x]) ++ post) in * by (rewrite <- app_assoc; reflexivity).
    rewrite (IH (pre ++ [x]) Hn). rewrite app_length. cbn [length]. replace (length pre + 1)%nat with (S (length pre)) by lia.
    reflexivity.
Qed.

Lemma canon_nodup l : NoDup l -> canon l = iota (length l).
Proof. intros H. exact (canon_from l [] H). Qed.

Lemma canon_snoc l x : canon (l ++ [x]) = canon l ++ [first_index (l ++ [x]) x].
Proof.
  unfold canon. rewrite map_app. cbn [map]. f_equal.
  apply map_ext_in. intros y Hy. apply (first_index_in l y [x] Hy).
Qed.

Lemma iota_S n : iota (S n) = iota n ++ [Z.of_nat n].
Proof. unfold iota. rewrite seq_S, map_app. reflexivity. Qed.

Lemma canon_iota_nodup : forall l, canon l = iota (length l) -> NoDup l.
Proof.
  induction l as [|x l IH] using rev_ind; intros H; [constructor|].
  rewrite canon_snoc, app_length in H. cbn [length] in H.
  replace (length l + 1)%nat with (S (length l)) in H by lia. rewrite iota_S in H.
  apply app_inj_tail in H. destruct H as [H1 H2].
  assert (Hx : ~ In x l).
  { intros Hi. pose proof (first_index_in l x [x] Hi). lia. }
  specialize (IH H1). clear H1 H2.
  apply (NoDup_Add (a := x) (l := l)).
  - rewrite <- (app_nil_r l) at 1. apply Add_app.
  - split; assumption.
Qed.

Lemma NoDup_firstn {A} : forall (k : nat) (l : list A), NoDup l -> NoDup (firstn k l).
Proof.
  induction k as [|k IH]; intros [|a l] H; cbn [firstn]; try constructor.
  - inversion H; subst. intros Hi. apply H2. clear -Hi.
    revert k Hi. induction l as [|b l IHl]; intros [|k] Hi; cbn [firstn] in Hi; try contradiction.
    destruct Hi as [-> | Hi]; [now left | right; eapply IHl; exact Hi].
  - inversion H; subst. apply IH. assumption.
Qed.

Lemma In_firstn {A} : forall (k : nat) (l : list A) x, In x (firstn k l) -> In x l.
Proof.
  induction k as [|k IH]; intros [|a l] x H; cbn [firstn] in H; try contradiction.
  destruct H as [-> | H]; [now left | right; apply IH; exact H].
Qed.

(* fresh identifiers: one per level, pairwise distinct, each a valid UID *)
Lemma alloc_ids_fresh n draws : NoDup draws -> (forall d, In d draws -> 0 <= d < 10 ^ 35) ->
  0 <= n <= Z.of_nat (length draws) ->
  exists l, alloc_ids n None draws = Ok l /\ Z.of_nat (length l) = n /\ NoDup l /\
            (forall u, In u l -> uid_valid u = true) /\ canon l = iota (length l).
Proof.
  intros Hnd Hr Hn. unfold alloc_ids. eexists. split; [reflexivity|].
  assert (Hnd' : NoDup (map (uid_of prefix_hd) (firstn (Z.to_nat n) draws))).
  { apply ListZ.NoDup_map_inj.
    - intros x y Hx Hy E. apply In_firstn in Hx. apply In_firstn in Hy.
      apply (uid_injective prefix_hd); [apply Hr in Hx; lia | apply Hr in Hy; lia | exact E].
    - apply NoDup_firstn. exact Hnd. }
  split; [|split; [exact Hnd'|split]].
  - rewrite map_length, firstn_length. lia.
  - intros u Hu. apply in_map_iff in Hu. destruct Hu as (d & <- & Hd). apply In_firstn in Hd.
    apply uid_hd_wellformed. apply Hr. exact Hd.
  - apply canon_nodup. exact Hnd'.
Qed.

(* identifiers passed by the caller are honoured or refused on their number *)
Lemma alloc_ids_given n l draws :
  (alloc_ids n (Some l) draws = Ok l <-> Z.of_nat (length l) = n) /\
  (alloc_ids n (Some l) draws = Err "ValueError" <-> Z.of_nat (length l) <> n).
Proof.
  unfold alloc_ids. destruct (Z.of_nat (length l) =? n) eqn:E; split; split; intros H;
    try reflexivity; try discriminate; try lia.
Qed.

(* the hoisted form [UID()] * n (one draw repeated) is told apart by the observation *)
Lemma repeated_id_refuted : exists u, canon [u; u] <> iota 2.
Proof. exists (uid_of prefix_hd 7). vm_compute. discriminate. Qed.

(* ------------------------------------------------ native frames (pm) *)
Definition be_val (it : list Z) : Z := fold_left (fun acc b => 256 * acc + b) it 0.

Lemma le_val_app a b : le_val (a ++ b) = le_val a + 256 ^ Z.of_nat (length a) * le_val b.
Proof.
  induction a as [|x a IH]; [cbn [app le_val length]; change (Z.of_nat 0) with 0; rewrite Z.pow_0_r; ring|].
  cbn [app le_val length]. rewrite IH, Nat2Z.inj_succ, Z.pow_succ_r by lia. ring.
Qed.

Lemma fold_be_acc : forall it acc,
  fold_left (fun acc b => 256 * acc + b) it acc = 256 ^ Z.of_nat (length it) * acc + le_val (rev it).
Proof.
  induction it as [|x it IH]; intros acc; [cbn [fold_left rev length le_val]; change (Z.of_nat 0) with 0; rewrite Z.pow_0_r; ring|].
  cbn [fold_left rev length]. rewrite IH, le_val_app, rev_length, Nat2Z.inj_succ, Z.pow_succ_r by lia.
  cbn [le_val]. ring.
Qed.

(* the value held by a stored (little-endian) element is the value the array
   element holds in memory, for either byte order of the array *)
Lemma item_le_value be it : le_val (item_le be it) = if be then be_val it else le_val it.
Proof.
  destruct be; cbn [item_le]; [|reflexivity].
  unfold be_val. rewrite fold_be_acc. lia.
Qed.

Lemma item_le_length be it : length (item_le be it) = length it.
Proof. destruct be; cbn [item_le]; [apply rev_length|reflexivity]. Qed.

(* a little-endian array with one mapping is stored as its own memory image -
   the case in which the serialised bytes may alias the caller's buffer *)
Lemma pm_native_le_single arr :
  (forall plane px, In plane arr -> In px plane -> exists it, px = [it]) ->
  pm_native false 1 arr = concat (map (fun plane => concat (map (fun px => concat px) plane)) arr).
Proof.
  intros H. unfold pm_native. rewrite flat_map_concat_map. f_equal.
  apply map_ext_in. intros plane Hp. cbn [seq flat_map]. rewrite app_nil_r.
  unfold pm_frame. rewrite flat_map_concat_map. f_equal.
  apply map_ext_in. intros px Hpx. destruct (H plane px Hp Hpx) as [it ->].
  cbn [nth item_le concat]. rewrite app_nil_r. reflexivity.
Qed.

Lemma flat_map_length_const {A} (f : A -> list Z) k : forall l, (forall x, In x l -> length (f x) = k) ->
  length (flat_map f l) = (length l * k)%nat.
Proof.
  induction l as [|x l IH]; intros H; [reflexivity|].
  cbn [flat_map length]. rewrite app_length, IH, H by (try (intros; apply H; now right); now left). lia.
Qed.

(* P planes of p pixels with m mappings of k bytes give P*m*p*k bytes *)
Lemma pm_native_length be m p k arr :
  (forall plane, In plane arr -> length plane = p /\
     forall px, In px plane -> forall j, (j < m)%nat -> length (nth j px []) = k) ->
  length (pm_native be m arr) = (length arr * (m * (p * k)))%nat.
Proof.
  intros H. unfold pm_native. apply flat_map_length_const. intros plane Hp.
  destruct (H plane Hp) as [Hl Hx].
  rewrite (flat_map_length_const _ (p * k)%nat); [rewrite seq_length; reflexivity|].
  intros j Hj. apply in_seq in Hj. unfold pm_frame.
  rewrite (flat_map_length_const _ k); [rewrite Hl; reflexivity|].
  intros px Hpx. rewrite item_le_length. apply Hx; [exact Hpx|lia].
Qed.
