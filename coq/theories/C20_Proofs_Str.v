(* C20 - proofs, part 2: string guards imply pydicom's validators; generated
   identifiers are well formed and distinct for distinct draws. *)
From Coq Require Import String ZArith List Bool Lia ZifyBool.
From HD Require Import Base.Val C20_Model.
Import ListNotations.
Open Scope Z_scope.
Ltac Zify.zify_post_hook ::= Z.to_euclidean_division_equations.

(* ------------------------------------------------------------ guards *)
Lemma last_is_in (p : Z -> bool) s : last_is p s = true -> exists c, In c s /\ p c = true.
Proof.
  unfold last_is. destruct (rev s) as [|c r] eqn:E; [discriminate|].
  intros H. exists c. split; [|exact H]. apply in_rev. rewrite E. left. reflexivity.
Qed.

Lemma cs_no_trailing_newline s : forallb cs_class s = true -> last_is (fun c => c =? 10) s = false.
Proof.
  intros H. destruct (last_is (fun c => c =? 10) s) eqn:E; [|reflexivity].
  apply last_is_in in E. destruct E as (c & Hin & Hc).
  rewrite forallb_forall in H. specialize (H c Hin).
  assert (c = 10) by lia. subst. discriminate.
Qed.

Lemma guard_implies_valid : forall v s, hd_guard v s = true -> pydicom_valid v s = true.
Proof.
  intros v s H. destruct v; unfold hd_guard in H; unfold pydicom_valid.
  - unfold hd_check_cs in H.
    apply andb_true_iff in H as [H Hlast]. apply andb_true_iff in H as [H Hfirst].
    apply andb_true_iff in H as [H Hall]. apply andb_true_iff in H as [Hlo Hhi].
    apply andb_true_iff. split; [cbn [max_len]; assumption|].
    destruct s as [|c r]; [reflexivity|].
    unfold dollar_match. rewrite Hall. rewrite (cs_no_trailing_newline _ Hall). reflexivity.
  - apply andb_true_iff in H. destruct H as [H _]. rewrite H. reflexivity.
  - apply andb_true_iff in H. destruct H as [H _]. rewrite H. reflexivity.
  - apply andb_true_iff in H. destruct H as [H _]. rewrite H. reflexivity.
  - apply andb_true_iff in H. destruct H as [H _]. rewrite H. reflexivity.
Qed.

(* the guard as it was before fix 5166f58 let "A\n" through (D30) *)
Lemma guard_old_refuted : exists s, hd_check_cs_old s = true /\ pydicom_valid CS s = false.
Proof. exists [65; 10]. vm_compute. split; reflexivity. Qed.

(* what the CS guard means, spelled out *)
Lemma hd_check_cs_spec s : hd_check_cs s = true <->
  (1 <= zlen s <= 16) /\ (forall c, In c s -> cs_class c = true) /\
  (exists c r, s = c :: r /\ is_upper c = true) /\
  last_is (fun c => (c =? 95) || (c =? 32)) s = false.
Proof.
  unfold hd_check_cs. split.
  - intros H.
    apply andb_true_iff in H as [H Hlast]. apply andb_true_iff in H as [H Hfirst].
    apply andb_true_iff in H as [H Hall]. apply andb_true_iff in H as [Hlo Hhi].
    rewrite forallb_forall in Hall. repeat split; try lia; auto.
    + destruct s as [|c r]; [cbn in *; lia|]. exists c, r. split; [reflexivity|].
      assert (Hc : cs_class c = true) by (apply Hall; left; reflexivity).
      unfold cs_class in Hc. destruct (is_upper c); [reflexivity|].
      destruct (is_digit c), (c =? 32), (c =? 95); cbn in *; discriminate.
    + destruct (last_is _ s); [discriminate | reflexivity].
  - intros ((L1 & L2) & Hall & (c & r & -> & Hu) & Hl).
    rewrite Hl. rewrite <- forallb_forall in Hall. rewrite Hall.
    assert (is_digit c = false /\ (c =? 32) = false /\ (c =? 95) = false) as (-> & -> & ->).
    { unfold is_upper, is_digit in *. lia. }
    cbn [negb orb andb]. rewrite !andb_true_r. apply andb_true_iff. split; lia.
Qed.

(* ------------------------------------------------------------ decimal *)
Definition val10 (l : list Z) : Z := fold_left (fun a d => 10 * a + d) l 0.

Lemma val10_app l d : val10 (l ++ [d]) = 10 * val10 l + d.
Proof. unfold val10. rewrite fold_left_app. reflexivity. Qed.

Lemma pow2_step f n : 0 <= n < 2 ^ Z.of_nat (S f) -> 0 <= n / 10 < 2 ^ Z.of_nat f.
Proof.
  rewrite Nat2Z.inj_succ, Z.pow_succ_r by lia. intros H.
  assert (0 < 2 ^ Z.of_nat f) by (apply Z.pow_pos_nonneg; lia). lia.
Qed.

Lemma pow2_zero n : 0 <= n < 2 ^ Z.of_nat 0 -> n = 0.
Proof. change (2 ^ Z.of_nat 0) with 1. lia. Qed.

Lemma dfuel_ok n : 0 <= n -> 0 <= n < 2 ^ Z.of_nat (dfuel n).
Proof.
  intros H. split; [exact H|]. unfold dfuel.
  rewrite Nat2Z.inj_succ, Z2Nat.id by apply Z.log2_nonneg.
  destruct (Z.eq_dec n 0) as [->|Hn]; [reflexivity|].
  apply Z.log2_spec. lia.
Qed.

Lemma digits_aux_val : forall fuel n, 0 <= n < 2 ^ Z.of_nat fuel -> val10 (digits_aux fuel n) = n.
Proof.
  induction fuel as [|f IH]; intros n Hn; cbn [digits_aux].
  - apply pow2_zero in Hn. subst. reflexivity.
  - destruct (n <? 10) eqn:E.
    + unfold val10. cbn. lia.
    + rewrite val10_app, IH by (apply pow2_step; exact Hn). lia.
Qed.

Lemma digits_aux_range : forall fuel n, 0 <= n ->
  Forall (fun d => 0 <= d <= 9) (digits_aux fuel n).
Proof.
  induction fuel as [|f IH]; intros n Hn; cbn [digits_aux].
  - constructor; [lia | constructor].
  - destruct (n <? 10) eqn:E.
    + constructor; [lia | constructor].
    + apply Forall_app. split; [apply IH; lia | constructor; [lia | constructor]].
Qed.

Lemma digits_aux_len : forall fuel n (k : nat), 0 <= n < 2 ^ Z.of_nat fuel -> (1 <= k)%nat ->
  n < 10 ^ Z.of_nat k -> (length (digits_aux fuel n) <= k)%nat.
Proof.
  induction fuel as [|f IH]; intros n k Hn Hk Hlt; cbn [digits_aux].
  - cbn. lia.
  - destruct (n <? 10) eqn:E; [cbn; lia|].
    rewrite app_length. cbn [length].
    destruct k as [|k]; [lia|]. destruct k as [|k].
    + change (10 ^ Z.of_nat 1) with 10 in Hlt. lia.
    + assert (H10 : 10 ^ Z.of_nat (S (S k)) = 10 * 10 ^ Z.of_nat (S k)).
      { rewrite (Nat2Z.inj_succ (S k)). apply Z.pow_succ_r. lia. }
      assert (n / 10 < 10 ^ Z.of_nat (S k)).
      { apply Z.div_lt_upper_bound; lia. }
      specialize (IH (n / 10) (S k) (pow2_step _ _ Hn)). lia.
Qed.

Lemma digits_aux_lead : forall fuel n, 1 <= n < 2 ^ Z.of_nat fuel ->
  exists d l, digits_aux fuel n = d :: l /\ 1 <= d <= 9.
Proof.
  induction fuel as [|f IH]; intros n Hn.
  { assert (n = 0) by (apply pow2_zero; lia). lia. }
  cbn [digits_aux].
  destruct (n <? 10) eqn:E.
  - exists n, []. split; [reflexivity | lia].
  - destruct (IH (n / 10)) as (d & l & Hd & Hr).
    { assert (0 <= n / 10 < 2 ^ Z.of_nat f) by (apply pow2_step; lia). lia. }
    rewrite Hd. exists d, (l ++ [n mod 10]). split; [reflexivity | exact Hr].
Qed.

Lemma digits_small n : 0 <= n < 10 -> digits n = [n].
Proof.
  intros H. unfold digits, dfuel. cbn [digits_aux].
  replace (n <? 10) with true by lia. reflexivity.
Qed.

Lemma digits_val n : 0 <= n -> val10 (digits n) = n.
Proof. intros H. apply digits_aux_val. apply dfuel_ok. exact H. Qed.

Lemma digits_inj n m : 0 <= n -> 0 <= m -> digits n = digits m -> n = m.
Proof. intros Hn Hm E. rewrite <- (digits_val n Hn), <- (digits_val m Hm), E. reflexivity. Qed.

Lemma map_add_inj (l1 l2 : list Z) : map (fun d => 48 + d) l1 = map (fun d => 48 + d) l2 -> l1 = l2.
Proof.
  revert l2. induction l1 as [|a l IH]; destruct l2 as [|b l2]; cbn [map]; intros E; try discriminate; auto.
  assert (E1 : 48 + a = 48 + b) by exact (f_equal (hd 0) E).
  assert (E2 : map (fun d => 48 + d) l = map (fun d => 48 + d) l2) by exact (f_equal (@tl Z) E).
  f_equal; [lia | auto].
Qed.

(* distinct draws give distinct identifiers *)
Lemma uid_injective : forall prefix n m, 0 <= n -> 0 <= m ->
  uid_of prefix n = uid_of prefix m -> n = m.
Proof.
  intros p n m Hn Hm E. unfold uid_of, dec in E. apply app_inv_head in E.
  apply map_add_inj in E. apply digits_inj; assumption.
Qed.

(* --------------------------------------------------- well-formedness *)
Lemma split_nodot : forall t cur, forallb is_digit t = true -> split_dot t cur = [rev cur ++ t].
Proof.
  induction t as [|c r IH]; intros cur H; cbn [split_dot].
  - rewrite app_nil_r. reflexivity.
  - cbn [forallb] in H. apply andb_true_iff in H. destruct H as [Hc Hr].
    replace (c =? 46) with false by (unfold is_digit in Hc; lia).
    rewrite IH by exact Hr. cbn [rev]. rewrite <- app_assoc. reflexivity.
Qed.

Lemma dec_digits n : 0 <= n -> forallb is_digit (dec n) = true.
Proof.
  intros H. unfold dec. apply forallb_forall. intros c Hc. apply in_map_iff in Hc.
  destruct Hc as (d & <- & Hd).
  pose proof (digits_aux_range (dfuel n) n H) as F. rewrite Forall_forall in F.
  specialize (F d Hd). unfold is_digit. lia.
Qed.

Lemma dec_component_ok n : 0 <= n -> component_ok (dec n) = true.
Proof.
  intros H. destruct (Z_lt_ge_dec n 10) as [Hs | Hb].
  - unfold dec. rewrite digits_small by lia. cbn [map component_ok]. unfold is_digit. lia.
  - pose proof (dec_digits n H) as Hd. unfold dec in *.
    destruct (digits_aux_lead (dfuel n) n) as (d & l & E & Hr); [pose proof (dfuel_ok n H); lia|].
    unfold digits in *. rewrite E in *. cbn [map forallb] in *.
    apply andb_true_iff in Hd. destruct Hd as [Hd1 Hd2].
    cbn [component_ok]. destruct (map (fun d0 => 48 + d0) l) as [|c r] eqn:El.
    + exact Hd1.
    + rewrite Hd1, Hd2. replace (48 + d =? 48) with false by lia. reflexivity.
Qed.

Lemma dec_len n (k : nat) : 0 <= n < 10 ^ Z.of_nat k -> (1 <= k)%nat -> zlen (dec n) <= Z.of_nat k.
Proof.
  intros H Hk. unfold zlen, dec. rewrite map_length.
  pose proof (digits_aux_len (dfuel n) n k (dfuel_ok n (proj1 H))). unfold digits. lia.
Qed.

(* UID.from_uuid: '2.25.' ++ decimal of a 128-bit value *)
Theorem uid_uuid_wellformed : forall n, 0 <= n < 2 ^ 128 -> uid_valid (uid_of prefix_uuid n) = true.
Proof.
  intros n H. unfold uid_valid, uid_of. apply andb_true_iff. split.
  - unfold zlen. rewrite app_length.
    assert (zlen (dec n) <= Z.of_nat 39).
    { apply dec_len; [|lia]. split; [lia|].
      eapply Z.lt_le_trans; [apply H|]. vm_compute. discriminate. }
    unfold zlen in *. cbn [prefix_uuid length]. lia.
  - change (split_dot (prefix_uuid ++ dec n) []) with ([50] :: [50; 53] :: split_dot (dec n) []).
    rewrite split_nodot by (apply dec_digits; lia).
    cbn [forallb rev app]. rewrite dec_component_ok by lia. reflexivity.
Qed.

(* UID(): highdicom root ++ decimal of secrets.randbelow(10 ** (64 - 29)) *)
Theorem uid_hd_wellformed : forall n, 0 <= n < 10 ^ 35 -> uid_valid (uid_of prefix_hd n) = true.
Proof.
  intros n H. unfold uid_valid, uid_of. apply andb_true_iff. split.
  - unfold zlen. rewrite app_length.
    assert (zlen (dec n) <= Z.of_nat 35) by (apply dec_len; [exact H | lia]).
    unfold zlen in *. cbn [prefix_hd length]. lia.
  - change (split_dot (prefix_hd ++ dec n) []) with
      ([49] :: [50] :: [56; 50; 54] :: [48] :: [49] :: [51; 54; 56; 48; 48; 52; 51] ::
       [49; 48] :: [53; 49; 49] :: [51] :: split_dot (dec n) []).
    rewrite split_nodot by (apply dec_digits; lia).
    cbn [forallb rev app]. rewrite dec_component_ok by lia. reflexivity.
Qed.

(* uid_valid spelled out: at most 64 characters, digits and dots only,
   no empty component, no component with a leading zero *)
Lemma component_ok_spec c : component_ok c = true ->
  c <> [] /\ forallb is_digit c = true /\ (forall d r, c = d :: r -> r <> [] -> d <> 48).
Proof.
  destruct c as [|d [|d2 r]]; cbn [component_ok]; intros H; [discriminate| |].
  - split; [discriminate|]. split; [cbn; rewrite H; reflexivity|]. intros ? ? E Hr. inversion E; subst. congruence.
  - apply andb_true_iff in H. destruct H as [H H3]. apply andb_true_iff in H. destruct H as [H1 H2].
    split; [discriminate|]. split.
    + cbn [forallb] in *. rewrite H1. exact H3.
    + intros d' r' E _. inversion E; subst. lia.
Qed.
