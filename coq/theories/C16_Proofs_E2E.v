(* C16 - the property sentence as ONE statement: a query on a report of good groups returns precisely the groups
   of its kind that satisfy every filter, in document order, AND every returned group reports - through every
   accessor the correspondence run observes - what it was constructed with.  `spec_acc` is the observation
   computed from the RECORD alone. *)
From Coq Require Import String ZArith List Bool Lia.
From HD Require Import Base.Val C16_Model C16_Proofs C16_Proofs_Acc C16_Proofs_Mixed C16_Proofs_Tree.
Import ListNotations.
Open Scope Z_scope.

Definition satk (k : kind) (f : filt) (g : group) : bool :=
  match k with ImageK => sat_image f g | _ => sat f g end.

(* what acc_val must show for a group constructed as g, read off the record *)
Definition spec_acc (k : kind) (g : group) (mname ename : option Z) : val :=
  VL ([voptz (Some (g_tuid g)); voptz (Some (g_tid g)); voptz (g_finding g);
       voptz (g_category g); voptz (g_method g); vz_list (g_sites g);
       vpairs (g_meas g); vpairs (g_evals g);
       vpairs (filter (name_sel mname) (g_meas g)); vpairs (filter (name_sel ename) (g_evals g))] ++
      match k with
      | Planar =>
          [VZ (ref_code (g_ref g));
           match g_ref g with
           | Region2D gt c i => VL [VS "2D"; VZ gt; VZ c; VZ i]
           | Region3D gt => VL [VS "3D"; VZ gt]
           | _ => VNone
           end;
           match g_ref g with
           | SegFrame c i sc si => VL [VZ c; VZ i; VZ sc; VZ si]
           | _ => VNone
           end]
      | Volumetric =>
          [VZ (ref_code (g_ref g));
           match g_ref g with
           | Regions rs => VL [VS "regions"; VL (map (fun x => VL [VZ (fst x); VZ (fst (snd x)); VZ (snd (snd x))]) rs)]
           | Surface gt n so => VL [VS "surface"; VZ gt; VZ (Z.of_nat n); vsources so]
           | _ => VNone
           end;
           match g_ref g with
           | Segment c i so => VL [VZ c; VZ i; vsources so]
           | _ => VNone
           end]
      | ImageK => [vpairs (match g_ref g with SourceImgs l => l | _ => [] end)]
      end).

Lemma acc_val_build k g mname ename : wf g = true -> g_kind g = k ->
  acc_val k (build g) mname ename = spec_acc k g mname ename.
Proof.
  intros Hw Hk. unfold acc_val, spec_acc.
  rewrite acc_tracking_uid_build, acc_tracking_identifier_build, acc_finding_type_build, acc_finding_category_build,
    acc_method_build, acc_finding_sites_build, !acc_measurements_build, !acc_evaluations_build by assumption.
  rewrite (filter_all (name_sel None) (g_meas g)), (filter_all (name_sel None) (g_evals g)) by reflexivity.
  do 2 f_equal. subst k. destruct (g_kind g) eqn:Hk.
  - rewrite acc_reference_type_planar, acc_planar_roi_build, acc_segframe_build by assumption.
    destruct (g_ref g); reflexivity.
  - rewrite acc_reference_type_volumetric, acc_vol_roi_build, acc_segment_build by assumption.
    destruct (g_ref g); reflexivity.
  - rewrite acc_source_images_build by assumption. reflexivity.
Qed.

Lemma query_exact k pre gs f : no_im pre = true -> Forall good gs -> qcheck k f = Ok tt ->
  query k (report pre gs) f = Ok (map build (filter (fun g => kind_eqb (g_kind g) k && satk k f g) gs)).
Proof.
  intros Hp Hg Hc. destruct k; cbn [query qcheck satk] in *.
  - now apply query_exact_planar.
  - now apply query_exact_volumetric.
  - now apply query_exact_image.
Qed.

Lemma kind_eqb_eq a b : kind_eqb a b = true -> a = b.
Proof. destruct a, b; cbn; congruence. Qed.

(* the property, end to end *)
Theorem end_to_end k pre gs f mname ename : no_im pre = true -> Forall good gs -> qcheck k f = Ok tt ->
  let answer := filter (fun g => kind_eqb (g_kind g) k && satk k f g) gs in
  query k (report pre gs) f = Ok (map build answer) /\
  map (fun it => acc_val k it mname ename) (map build answer) = map (fun g => spec_acc k g mname ename) answer.
Proof.
  intros Hp Hg Hc answer. split; [now apply query_exact|].
  rewrite map_map. apply map_ext_in. intros g Hin. unfold answer in Hin. apply filter_In in Hin as [Hin Hf].
  apply andb_true_iff in Hf as [Hk _]. apply kind_eqb_eq in Hk.
  rewrite Forall_forall in Hg. destruct (Hg g Hin) as [Hw _]. now apply acc_val_build.
Qed.

(* the same for reports as third parties write them (items around the container and between the groups) *)
Theorem end_to_end_mixed k pre xs post f mname ename : no_im pre = true -> others_ok xs = true ->
  Forall good (groups_of xs) -> qcheck k f = Ok tt ->
  let answer := filter (fun g => kind_eqb (g_kind g) k && satk k f g) (groups_of xs) in
  query k (report_mixed pre xs post) f = Ok (map build answer) /\
  map (fun it => acc_val k it mname ename) (map build answer) = map (fun g => spec_acc k g mname ename) answer.
Proof.
  intros Hp Ho Hg Hc answer. split.
  - destruct k; cbn [query qcheck satk] in *.
    + now apply query_exact_planar_mixed.
    + now apply query_exact_volumetric_mixed.
    + now apply query_exact_image_mixed.
  - rewrite map_map. apply map_ext_in. intros g Hin. unfold answer in Hin. apply filter_In in Hin as [Hin Hf].
    apply andb_true_iff in Hf as [Hk _]. apply kind_eqb_eq in Hk.
    rewrite Forall_forall in Hg. destruct (Hg g Hin) as [Hw _]. now apply acc_val_build.
Qed.

Lemma sat_nofilt g : sat nofilt g = true /\ sat_image nofilt g = true.
Proof.
  unfold sat, sat_image, sat_common, sat_reftype, sat_gt, sat_uid, nofilt. cbn. now split.
Qed.

(* the accessor observation of the correspondence run (run_accessors) is the record-level specification *)
Theorem run_accessors_exact pre gs mname ename : no_im pre = true -> Forall good gs ->
  run_accessors pre gs mname ename =
  VL (map (fun k => VL (map (fun g => spec_acc k g mname ename) (filter (fun g => kind_eqb (g_kind g) k) gs)))
          [Planar; Volumetric; ImageK]).
Proof.
  intros Hp Hg. unfold run_accessors, run_tree_accessors. f_equal. apply map_ext_in. intros k _.
  assert (Hc : qcheck k nofilt = Ok tt) by (now destruct k).
  destruct (end_to_end k pre gs nofilt mname ename Hp Hg Hc) as [E1 E2]. rewrite E1. cbn [vres]. rewrite E2.
  do 2 f_equal. apply filter_ext. intros g. destruct (sat_nofilt g) as [S1 S2].
  destruct k; cbn [satk]; rewrite ?S1, ?S2; apply andb_true_r.
Qed.

(* non-vacuity of the any-tree statements: a damaged report (planar group with two segmentation-frame references,
   an untyped group of one image region, a typed image group) - the unfiltered queries answer, the planar query
   with a reference filter raises RuntimeError at the malformed group, the image query does not *)
Definition bad_planar : item :=
  Item cMeasurementGroup CONTAINER CONTAINS 0 0 (Some 1410)
       [leaf cTrackingIdentifier TEXT HAS_OBS_CONTEXT 1000 0;
        leaf cRefSegFrame IMAGE CONTAINS 3 11; leaf cRefSegFrame IMAGE CONTAINS 3 12;
        leaf cSrcImgSeg IMAGE CONTAINS 0 3].
Definition untyped_region : item :=
  Item cMeasurementGroup CONTAINER CONTAINS 0 0 None
       [leaf cTrackingIdentifier TEXT HAS_OBS_CONTEXT 1001 0; region_item (4, (0, 3))].
Definition typed_image : item :=
  Item cMeasurementGroup CONTAINER CONTAINS 0 0 (Some 1501)
       [leaf cTrackingIdentifier TEXT HAS_OBS_CONTEXT 1002 0; leaf cSource IMAGE CONTAINS 0 3].
Definition damaged_root : item :=
  Item 0 CONTAINER RNone 0 0 (Some 1500)
       [Item cImagingMeasurements CONTAINER CONTAINS 0 0 None [bad_planar; leaf 150 CODE CONTAINS 160 0; untyped_region; typed_image];
        Item cImagingMeasurements CONTAINER CONTAINS 0 0 None [typed_image]].
Lemma any_tree_nonvacuous :
  positions (query Planar damaged_root nofilt) = VL [VZ 1000; VZ 1001] /\
  positions (query Volumetric damaged_root nofilt) = VL [] /\
  positions (query ImageK damaged_root nofilt) = VL [VZ 1002] /\
  query Planar damaged_root (Filt None None None (Some cRefSegFrame) GNone None None) = Err "RuntimeError"%string /\
  positions (query Planar damaged_root (Filt None None None None GNone None None)) = VL [VZ 1000; VZ 1001] /\
  positions (query ImageK damaged_root (Filt None None None None GNone (Some 3) None)) = VL [VZ 1002].
Proof. repeat split; vm_compute; reflexivity. Qed.
