(* C07 - property theorems: lossless frame encoding round-trips and rejects
   what it cannot encode.  Statements, `exact <lemma>`, Print Assumptions.

   Clauses that the CURRENT code violates are visible here as `_partial`
   theorems (the full statement is kept in the comment above each) together
   with `_refuted` witnesses: open finding D51 (YBR_FULL stored unconverted,
   converted to RGB on decoding). *)
From Coq Require Import String ZArith List Bool.
From HD Require Import Base.Val C07_Model C07_Proofs C07_Proofs_Table C07_Proofs_RLE C07_Proofs_Ext C07_Proofs_Full C07_Proofs_Accept C07_Proofs_AcceptRLE.
Import ListNotations.
Open Scope Z_scope.

(* --- bit packing and word encoding are invertible (all frames) --------- *)
Theorem C07_pack_unpack : forall l, bits01 l ->
  exists z, unpack_bits (pack_bits l) = l ++ repeat 0 z.
Proof. exact unpack_pack_bits. Qed.
Print Assumptions C07_pack_unpack.

Theorem C07_words_roundtrip : forall k f, (1 <= k)%nat ->
  words k (flat_map (le_bytes k) f) = map (fun v => v mod 256 ^ Z.of_nat k) f.
Proof. exact words_flat. Qed.
Print Assumptions C07_words_roundtrip.

(* --- native round trip ------------------------------------------------- *)
(* FULL statement (what the property asks for):
     forall p f bs, native_ts p -> encode_frame default_tables p f = Ok bs ->
       Z.of_nat (length f) = npix p -> p_dsize p <= 8 -> values_fit p f ->
       decode_native p 0 bs = Ok (DArr (out_shape p) f).
   It is FALSE for the current code (next lemma); proved with the guard that
   excludes exactly the open finding D51 (word-encoded YBR_FULL colour frames). *)
Theorem C07_native_roundtrip_partial : forall p f bs,
  native_ts p ->
  encode_frame default_tables p f = Ok bs ->
  Z.of_nat (length f) = npix p ->
  p_dsize p <= 8 ->
  values_fit p f ->
  (spp p = 3 -> p_balloc p <> 1 -> p_pi p <> Some YBR_FULL) ->
  decode_native p 0 bs = Ok (DArr (out_shape p) f).
Proof. exact native_roundtrip_partial. Qed.
Print Assumptions C07_native_roundtrip_partial.

Theorem C07_native_roundtrip_refuted_ybr : exists p f bs,
  native_ts p /\ encode_frame default_tables p f = Ok bs /\ Z.of_nat (length f) = npix p
  /\ values_fit p f /\ decode_native p 0 bs = Ok (DColor f).
Proof. exact native_roundtrip_refuted_ybr. Qed.
Print Assumptions C07_native_roundtrip_refuted_ybr.


(* non-vacuity: a signed 12-in-16-bit colour frame with extreme values satisfies
   every hypothesis of the round-trip theorem *)
Example C07_native_roundtrip_nonvacuous :
  let p := mkP TImplicit 1 2 true 3 16 12 (Some RGB) 1 (Some 0) KInt 2 in
  let f := [-2048; 2047; 0; -1; 1; 255] in
  native_ts p /\ (exists bs, encode_frame default_tables p f = Ok bs) /\ Z.of_nat (length f) = npix p
  /\ values_fit p f /\ spp p = 3 /\ p_pi p <> Some YBR_FULL.
Proof.
  cbv zeta. split; [now left|]. split; [eexists; reflexivity|]. split; [reflexivity|].
  split; [unfold values_fit; repeat constructor; cbn; intuition discriminate|]. split; [reflexivity|discriminate].
Qed.
Print Assumptions C07_native_roundtrip_nonvacuous.

(* a bit-packed 3-sample frame (D52 fixed): all hypotheses hold, conclusion by the theorem *)
Example C07_native_roundtrip_bits_colour :
  let p := mkP TExplicit 1 8 true 3 1 1 (Some RGB) 0 (Some 0) KBool 1 in
  let f := [1;0;1; 0;0;0; 1;1;1; 0;1;0; 1;0;0; 0;0;1; 1;1;0; 0;1;1] in
  decode_native p 0 (encode_native p f) = Ok (DArr [1; 8; 3] f).
Proof. vm_compute. reflexivity. Qed.
Print Assumptions C07_native_roundtrip_bits_colour.

(* --- frame [index] of a bit-packed multi-frame stream -------------------- *)
Theorem C07_decode_index_window : forall rows cols frames i,
  1 <= rows -> 1 <= cols ->
  (forall f, In f frames -> Z.of_nat (length f) = rows * cols /\ bits01 f) ->
  (i < length frames)%nat ->
  decode_bits rows cols 1 (Z.of_nat i)
    (frame_bytes (rows * cols) (Z.of_nat i) (pack_bits_nopad (concat frames)))
  = Ok (DArr [rows; cols] (nth i frames [])).
Proof. exact decode_index_window. Qed.
Print Assumptions C07_decode_index_window.

(* --- the accept table: the WHOLE finite parameter matrix ---------------- *)
(* FULL statement: ... accepts ... = true -> representable ... = true.
   False for the current code on the cells of D51 (witness below); proved
   with those cells named by [open_gap]. *)
Theorem C07_accept_table_sound_partial : forall ts sh ba bs pi pr pl dt sz lo hi,
  In sh dom_shape -> In ba dom_alloc -> In bs dom_stored -> In pr dom_pixrep -> In pl dom_planar ->
  In dt dom_dtype -> In sz dom_size ->
  accepts default_tables (cell ts sh ba bs pi pr pl dt sz) lo hi = true ->
  representable (cell ts sh ba bs pi pr pl dt sz) = true \/ open_gap (cell ts sh ba bs pi pr pl dt sz) = true.
Proof. exact accept_table_sound_partial. Qed.
Print Assumptions C07_accept_table_sound_partial.

(* the same for ANY validation tables that pass the boolean sweep (used for
   the tables regenerated from the source by harness/translate_c07.py) *)
Theorem C07_accept_table_sound_any_tables : forall T, matrix_ok T = true ->
  forall ts sh ba bs pi pr pl dt sz lo hi,
  In sh dom_shape -> In ba dom_alloc -> In bs dom_stored -> In pr dom_pixrep -> In pl dom_planar ->
  In dt dom_dtype -> In sz dom_size ->
  accepts T (cell ts sh ba bs pi pr pl dt sz) lo hi = true ->
  representable (cell ts sh ba bs pi pr pl dt sz) = true \/ open_gap (cell ts sh ba bs pi pr pl dt sz) = true.
Proof. exact accept_table_sound_T. Qed.
Print Assumptions C07_accept_table_sound_any_tables.

Theorem C07_accept_table_refuted_ybr : exists p,
  accepts default_tables p 0 0 = true /\ representable p = false.
Proof. exact accept_table_refuted_ybr. Qed.
Print Assumptions C07_accept_table_refuted_ybr.


(* non-vacuity of the table: cells are accepted, cells are refused *)
Example C07_accept_table_nonvacuous :
  accepts default_tables (cell TJLS (true, 3) 16 12 (Some RGB) 0 (Some 0) (KUInt, 2) (32, 32)) 0 4095 = true
  /\ representable (cell TJLS (true, 3) 16 12 (Some RGB) 0 (Some 0) (KUInt, 2) (32, 32)) = true
  /\ accepts default_tables (cell TJLS (true, 3) 16 12 (Some YBR_FULL) 0 (Some 0) (KUInt, 2) (32, 32)) 0 4095 = false
  /\ accepts default_tables (cell TRLE (false, 0) 16 8 (Some MONO2) 0 None (KUInt, 2) (3, 5)) 0 255 = false
  /\ accepts default_tables (cell TExplicit (false, 0) 8 8 (Some MONO2) 0 None (KUInt, 2) (3, 5)) 0 255 = false.
Proof. repeat split; reflexivity. Qed.
Print Assumptions C07_accept_table_nonvacuous.

(* --- refusals ---------------------------------------------------------------- *)
Theorem C07_refusal_iff : forall T p f e,
  encode_frame T p f = Err e <-> check T p (list_min f) (list_max f) = Some e.
Proof. exact refusal_iff. Qed.
Print Assumptions C07_refusal_iff.

Theorem C07_accept_iff : forall T p f,
  (exists bs, encode_frame T p f = Ok bs) <-> accepts T p (list_min f) (list_max f) = true.
Proof. exact accept_iff. Qed.
Print Assumptions C07_accept_iff.

Theorem C07_native_accepts_iff : forall p lo hi, native_ts p ->
  accepts default_tables p lo hi = native_spec p lo hi.
Proof. exact native_accepts_iff. Qed.
Print Assumptions C07_native_accepts_iff.

Theorem C07_native_keyerror_iff : forall p lo hi, native_ts p ->
  (check default_tables p lo hi = Some EK <->
   check_common default_tables p = None
   /\ ((1 <? spp p) && negb (optZ_eqb (p_planar p) 0) = false)
   /\ spp p <> 1 /\ spp p <> 3).
Proof. exact native_keyerror_iff. Qed.
Print Assumptions C07_native_keyerror_iff.

(* --- encapsulated syntaxes, codecs as explicit premises -------------------- *)
Theorem C07_encaps_roundtrip :
  forall (codec_encode : params -> list Z -> option (list Z))
         (codec_decode : params -> list Z -> res decoded),
  (forall p f bs,
     accepts default_tables p (list_min f) (list_max f) = true -> open_gap p = false ->
     Z.of_nat (length f) = npix p -> values_fit p f ->
     codec_encode p f = Some bs -> codec_decode p bs = Ok (DArr (out_shape p) f)) ->
  forall p f bs,
    encode_encaps codec_encode default_tables p f = Ok bs ->
    open_gap p = false -> Z.of_nat (length f) = npix p -> values_fit p f ->
    decode_encaps codec_decode p bs = Ok (DArr (out_shape p) f).
Proof. exact encaps_roundtrip. Qed.
Print Assumptions C07_encaps_roundtrip.

Theorem C07_encaps_refusal :
  forall (codec_encode : params -> list Z -> option (list Z)) T p f e,
  check T p (list_min f) (list_max f) = Some e -> encode_encaps codec_encode T p f = Err e.
Proof. exact encaps_refusal. Qed.
Print Assumptions C07_encaps_refusal.

(* --- damaged byte strings ----------------------------------------------------- *)
Theorem C07_decode_truncated_refused : forall p value,
  Z.of_nat (length value) < npix p * (p_balloc p / 8) ->
  decode_words p value = Err EV.
Proof. exact decode_truncated. Qed.
Print Assumptions C07_decode_truncated_refused.

Theorem C07_encode_native_length : forall p f, p_balloc p <> 1 -> 1 <= p_dsize p ->
  Z.of_nat (length (encode_native p f)) = Z.of_nat (length f) * p_dsize p.
Proof. exact encode_native_length. Qed.
Print Assumptions C07_encode_native_length.

(* --- RLE Lossless: the codec itself (no premise) ------------------------------ *)
(* one byte segment (PackBits rows, odd length padded): decoding inverts encoding,
   all byte strings, all row widths *)
Theorem C07_rle_segment_roundtrip : forall cols src, 1 <= cols ->
  rle_decode_segment (rle_encode_segment cols src) = src.
Proof. exact rle_segment_roundtrip. Qed.
Print Assumptions C07_rle_segment_roundtrip.

(* FULL statement: the same without [open_gap p = false]; false for the current
   code (witness below: D51, YBR_FULL stored unconverted, converted on decoding).
   No codec premise and no range precondition: content outside Bits Stored is
   refused by the encoder's own validation (C07_rle_accepts_values_fit). *)
Theorem C07_rle_roundtrip_partial : forall p f bs,
  p_ts p = TRLE ->
  encode_rle default_tables p f = Ok bs ->
  open_gap p = false ->
  Z.of_nat (length f) = npix p ->
  decode_rle p bs = Ok (DArr (out_shape p) f).
Proof. exact rle_roundtrip_full. Qed.
Print Assumptions C07_rle_roundtrip_partial.

Theorem C07_rle_accepts_values_fit : forall p f bs,
  p_ts p = TRLE -> encode_rle default_tables p f = Ok bs -> values_fit p f.
Proof. exact rle_accepts_values_fit. Qed.
Print Assumptions C07_rle_accepts_values_fit.

Theorem C07_rle_roundtrip_refuted_ybr : exists p f bs,
  p_ts p = TRLE /\ encode_rle default_tables p f = Ok bs /\ Z.of_nat (length f) = npix p
  /\ values_fit p f /\ decode_rle p bs = Ok (DColor f).
Proof. exact rle_roundtrip_refuted_ybr. Qed.
Print Assumptions C07_rle_roundtrip_refuted_ybr.

(* non-vacuity: a signed 12-in-16-bit frame and an RGB frame are accepted, and the
   stream really is compressed (a run of equal pixels costs two bytes per plane) *)
Example C07_rle_roundtrip_nonvacuous :
  let p := mkP TRLE 2 3 false 0 16 12 (Some MONO2) 1 None KInt 2 in
  let f := [-2048; 2047; 0; -1; -1; -1] in
  let q := mkP TRLE 1 4 true 3 8 8 (Some RGB) 0 (Some 1) KUInt 1 in
  let g := [9; 8; 7; 9; 8; 7; 9; 8; 7; 9; 8; 7] in
  (exists bs, encode_rle default_tables p f = Ok bs) /\ open_gap p = false
  /\ Z.of_nat (length f) = npix p /\ values_fit p f
  /\ encode_rle default_tables q g
     = Ok ([3; 0; 0; 0; 64; 0; 0; 0; 66; 0; 0; 0; 68; 0; 0; 0] ++ repeat 0 48 ++ [253; 9; 253; 8; 253; 7])
  /\ decode_rle q ([3; 0; 0; 0; 64; 0; 0; 0; 66; 0; 0; 0; 68; 0; 0; 0] ++ repeat 0 48 ++ [253; 9; 253; 8; 253; 7])
     = Ok (DArr [1; 4; 3] g).
Proof.
  cbv zeta. split; [eexists; vm_compute; reflexivity|]. split; [reflexivity|]. split; [reflexivity|].
  split; [unfold values_fit; repeat constructor; cbn; intuition discriminate|].
  split; vm_compute; reflexivity.
Qed.
Print Assumptions C07_rle_roundtrip_nonvacuous.

(* --- frame [index] of a bit-packed stream, any number of samples per pixel ---- *)
Theorem C07_decode_index_window_samples : forall rows cols samples frames i,
  1 <= rows -> 1 <= cols -> 1 <= samples ->
  (forall f, In f frames -> Z.of_nat (length f) = rows * cols * samples /\ bits01 f) ->
  (i < length frames)%nat ->
  decode_bits rows cols samples (Z.of_nat i)
    (frame_bytes (rows * cols * samples) (Z.of_nat i) (pack_bits_nopad (concat frames)))
  = Ok (DArr (if 1 <? samples then [rows; cols; samples] else [rows; cols]) (nth i frames [])).
Proof. exact decode_index_window_samples. Qed.
Print Assumptions C07_decode_index_window_samples.

Example C07_decode_index_window_samples_nonvacuous :
  let frames := [[1;0;1; 0;1;1; 1;1;0]; [0;0;1; 1;0;0; 0;1;0]; [1;1;1; 0;0;0; 1;0;1]] in
  decode_bits 1 3 3 2 (frame_bytes 9 2 (pack_bits_nopad (concat frames)))
  = Ok (DArr [1; 3; 3] [1;1;1; 0;0;0; 1;0;1]).
Proof. vm_compute. reflexivity. Qed.
Print Assumptions C07_decode_index_window_samples_nonvacuous.

(* --- native word frames: what decode (encode f) is, without a range premise ---- *)
Theorem C07_native_words_decode_encode : forall p f bs,
  native_ts p ->
  encode_frame default_tables p f = Ok bs ->
  Z.of_nat (length f) = npix p ->
  p_dsize p <= 8 -> p_balloc p <> 1 ->
  (spp p = 3 -> p_pi p <> Some YBR_FULL) ->
  decode_native p 0 bs = Ok (DArr (out_shape p) (map (stored_view p) f)).
Proof. exact native_words_decode_encode. Qed.
Print Assumptions C07_native_words_decode_encode.

(* the Bits Stored range is exactly the set of contents that round-trip *)
Theorem C07_native_roundtrip_iff : forall p f bs,
  native_ts p ->
  encode_frame default_tables p f = Ok bs ->
  Z.of_nat (length f) = npix p ->
  p_dsize p <= 8 -> p_balloc p <> 1 ->
  (spp p = 3 -> p_pi p <> Some YBR_FULL) ->
  (decode_native p 0 bs = Ok (DArr (out_shape p) f) <-> values_fit p f).
Proof. exact native_roundtrip_iff. Qed.
Print Assumptions C07_native_roundtrip_iff.

(* non-vacuity of the "only if" direction: an accepted uint16 frame with content
   above the 12 stored bits is read back as other numbers *)
Example C07_native_roundtrip_iff_nonvacuous :
  let p := mkP TExplicit 1 2 false 0 16 12 (Some MONO2) 0 None KUInt 2 in
  encode_frame default_tables p [4096; 4095] = Ok [0; 16; 255; 15]
  /\ decode_native p 0 [0; 16; 255; 15] = Ok (DArr [1; 2] [0; 4095])
  /\ ~ values_fit p [4096; 4095].
Proof.
  cbv zeta. split; [reflexivity|]. split; [reflexivity|].
  unfold values_fit. intros H. inversion H as [|x l H1 H2]. cbn in H1. destruct H1 as [_ H1]. compute in H1. discriminate H1.
Qed.
Print Assumptions C07_native_roundtrip_iff_nonvacuous.

(* --- the property sentence over ALL lossless transfer syntaxes ------------------- *)
(* FULL statement: without [open_gap p = false]; false for the current code (D51,
   witnesses C07_native_roundtrip_refuted_ybr / C07_rle_roundtrip_refuted_ybr).
   Only premise: the JPEG-LS (NEAR = 0) and JPEG 2000 Lossless codecs. *)
Theorem C07_lossless_roundtrip_partial :
  forall (codec_encode : params -> list Z -> option (list Z))
         (codec_decode : params -> list Z -> res decoded),
  (forall p f bs,
     p_ts p = TJLS \/ p_ts p = TJ2KL ->
     accepts default_tables p (list_min f) (list_max f) = true ->
     Z.of_nat (length f) = npix p -> values_fit p f ->
     codec_encode p f = Some bs -> codec_decode p bs = Ok (DArr (out_shape p) f)) ->
  forall p f bs,
    lossless_ts p ->
    encode_any codec_encode default_tables p f = Ok bs ->
    open_gap p = false ->
    Z.of_nat (length f) = npix p -> (p_ts p <> TRLE -> values_fit p f) -> p_dsize p <= 8 ->
    decode_any codec_decode default_tables p bs = Ok (DArr (out_shape p) f).
Proof. exact lossless_roundtrip_full. Qed.
Print Assumptions C07_lossless_roundtrip_partial.

Theorem C07_refusal_any :
  forall (codec_encode : params -> list Z -> option (list Z)) p f e,
  check default_tables p (list_min f) (list_max f) = Some e ->
  encode_any codec_encode default_tables p f = Err e.
Proof. exact refusal_any. Qed.
Print Assumptions C07_refusal_any.

(* non-vacuity: with a codec that never produces bytes the premise holds trivially,
   and the theorem still speaks about native and RLE frames *)
Example C07_lossless_roundtrip_nonvacuous :
  let ce := fun (_ : params) (_ : list Z) => @None (list Z) in
  let p := mkP TRLE 1 3 false 0 8 8 (Some MONO1) 0 None KUInt 1 in
  let q := mkP TImplicit 1 3 false 0 8 8 (Some MONO1) 0 None KUInt 1 in
  lossless_ts p /\ lossless_ts q
  /\ (exists bs, encode_any ce default_tables p [7; 7; 9] = Ok bs)
  /\ encode_any ce default_tables q [7; 7; 9] = Ok [7; 7; 9]
  /\ open_gap p = false /\ values_fit p [7; 7; 9].
Proof.
  cbv zeta. split; [right; right; now left|]. split; [now left|].
  split; [eexists; vm_compute; reflexivity|]. split; [reflexivity|]. split; [reflexivity|].
  unfold values_fit. repeat constructor; cbn; intuition discriminate.
Qed.
Print Assumptions C07_lossless_roundtrip_nonvacuous.

(* --- the accept table for ALL parameter values ------------------------------------ *)
(* every integer value of rows, columns, samples, bits allocated / stored, pixel
   representation, planar configuration; every syntax, photometric interpretation,
   dtype kind; item sizes of numpy's integer types.  FULL statement: without the
   [open_gap] alternative (false: C07_accept_table_refuted_ybr, D51). *)
Theorem C07_accept_sound_all_partial : forall p lo hi,
  1 <= p_rows p -> 1 <= p_cols p -> In (p_dsize p) [1; 2; 4; 8] ->
  accepts default_tables p lo hi = true ->
  representable p = true \/ open_gap p = true.
Proof. exact accept_sound_all. Qed.
Print Assumptions C07_accept_sound_all_partial.

(* as the property says it: what the chosen syntax cannot represent is refused *)
Theorem C07_unrepresentable_refused_partial : forall p f,
  1 <= p_rows p -> 1 <= p_cols p -> In (p_dsize p) [1; 2; 4; 8] ->
  representable p = false -> open_gap p = false ->
  exists e, encode_frame default_tables p f = Err e.
Proof. exact unrepresentable_refused. Qed.
Print Assumptions C07_unrepresentable_refused_partial.

(* non-vacuity outside the finite matrix: 64-bit native words are accepted and
   representable; 12 bits allocated for JPEG-LS and a 70000-column RLE
   frame are not representable here / refused *)
Example C07_accept_sound_all_nonvacuous :
  let p := mkP TImplicit 2 2 false 0 64 40 (Some MONO2) 1 None KInt 8 in
  let q := mkP TJLS 32 32 false 0 12 12 (Some MONO2) 0 None KUInt 2 in
  let r := mkP TRLE 1 70000 false 0 8 8 (Some MONO2) 0 None KUInt 1 in
  accepts default_tables p (-5) 5 = true /\ representable p = true
  /\ representable q = false /\ open_gap q = false
  /\ encode_frame default_tables q (repeat 0 1024) = Err EV
  /\ accepts default_tables r 0 0 = false.
Proof. cbv zeta. repeat split; vm_compute; reflexivity. Qed.
Print Assumptions C07_accept_sound_all_nonvacuous.

(* --- RLE Lossless: acceptance as one explicit conjunction (all parameter values) --- *)
Theorem C07_rle_accepts_iff : forall p lo hi, p_ts p = TRLE ->
  accepts default_tables p lo hi = rle_spec p lo hi.
Proof. exact rle_accepts_iff. Qed.
Print Assumptions C07_rle_accepts_iff.

(* the guard of the D70 fix is necessary: without it the stream is undecodable *)
Theorem C07_rle_guard_d70_necessary : exists p f bs,
  check_pydicom default_tables p = None /\ check_profile default_tables p = None
  /\ values_fit p f /\ rle_encode_frame p f = Ok bs /\ decode_rle p bs = Err ERT.
Proof. exact rle_guard_d70_necessary. Qed.
Print Assumptions C07_rle_guard_d70_necessary.

(* --- decode_frame as an entry point (its own parameter validation included) ------- *)
Theorem C07_entry_native_roundtrip_partial : forall p f bs,
  native_ts p ->
  encode_frame default_tables p f = Ok bs ->
  Z.of_nat (length f) = npix p -> p_dsize p <= 8 -> values_fit p f ->
  (spp p = 3 -> p_balloc p <> 1 -> p_pi p <> Some YBR_FULL) ->
  decode_frame_model p 0 bs = Ok (DArr (out_shape p) f).
Proof. exact entry_native_roundtrip. Qed.
Print Assumptions C07_entry_native_roundtrip_partial.

Theorem C07_entry_rle_roundtrip_partial : forall p f bs,
  p_ts p = TRLE ->
  encode_rle default_tables p f = Ok bs ->
  open_gap p = false -> Z.of_nat (length f) = npix p ->
  decode_frame_model p 0 bs = Ok (DArr (out_shape p) f).
Proof. exact entry_rle_roundtrip. Qed.
Print Assumptions C07_entry_rle_roundtrip_partial.

(* non-vacuity: the entry point does refuse and does re-order when the call differs *)
Example C07_entry_nonvacuous :
  let p := mkP TExplicit 1 2 true 3 8 8 (Some RGB) 0 (Some 0) KUInt 1 in
  let q := mkP TExplicit 1 2 true 3 8 8 (Some RGB) 0 (Some 1) KUInt 1 in
  let r := mkP TExplicit 1 2 true 3 8 8 (Some RGB) 2 (Some 0) KUInt 1 in
  decode_frame_model p 0 [1; 2; 3; 4; 5; 6] = Ok (DArr [1; 2; 3] [1; 2; 3; 4; 5; 6])
  /\ decode_frame_model q 0 [1; 2; 3; 4; 5; 6] = Ok (DArr [1; 2; 3] [1; 3; 5; 2; 4; 6])
  /\ decode_frame_model r 0 [1; 2; 3; 4; 5; 6] = Err EV.
Proof. cbv zeta. repeat split; vm_compute; reflexivity. Qed.
Print Assumptions C07_entry_nonvacuous.
