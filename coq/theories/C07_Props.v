(* C07 - property theorems: lossless frame encoding round-trips and rejects
   what it cannot encode.  Statements, `exact <lemma>`, Print Assumptions.

   Clauses that the CURRENT code violates are visible here as `_partial`
   theorems (the full statement is kept in the comment above each) together
   with `_refuted` witnesses: open finding D51 (YBR_FULL stored unconverted,
   converted to RGB on decoding). *)
From Coq Require Import String ZArith List Bool.
From HD Require Import Base.Val C07_Model C07_Proofs C07_Proofs_Table C07_Proofs_RLE C07_Proofs_Ext C07_Proofs_Full C07_Proofs_Accept C07_Proofs_AcceptRLE C07_Proofs_Entry.
Import ListNotations.
Open Scope Z_scope.

(* --- bit packing and word encoding are invertible (all frames) --------- *)
Theorem C07_pack_unpack : forall l, bits01 l ->
  exists z, unpack_bits (pack_bits l) = l ++ repeat 0 z.
Proof. exact unpack_pack_bits. Qed.
Print Assumptions C07_pack_unpack.

Theorem C07_words_roundtrip : forall k f, (1 <= k)%nat ->
  words k (flat_map (le_bytes k) f) = map (fun v => v mod 256 ^ Z.of_nat k) f.
Proof. exact words_flat. Qed.
Print Assumptions C07_words_roundtrip.

(* --- native round trip ------------------------------------------------- *)
(* FULL statement (what the property asks for):
     forall p f bs, native_ts p -> encode_frame default_tables p f = Ok bs ->
       Z.of_nat (length f) = npix p -> p_dsize p <= 8 -> values_fit p f ->
       decode_native p 0 bs = Ok (DArr (out_shape p) f).
   It is FALSE for the current code (next lemma); proved with the guard that
   excludes exactly the open finding D51 (word-encoded YBR_FULL colour frames). *)
Theorem C07_native_roundtrip_partial : forall p f bs,
  native_ts p ->
  encode_frame default_tables p f = Ok bs ->
  Z.of_nat (length f) = npix p ->
  p_dsize p <= 8 ->
  values_fit p f ->
  (spp p = 3 -> p_balloc p <> 1 -> p_pi p <> Some YBR_FULL) ->
  decode_native p 0 bs = Ok (DArr (out_shape p) f).
Proof. exact native_roundtrip_partial. Qed.
Print Assumptions C07_native_roundtrip_partial.

Theorem C07_native_roundtrip_refuted_ybr : exists p f bs,
  native_ts p /\ encode_frame default_tables p f = Ok bs /\ Z.of_nat (length f) = npix p
  /\ values_fit p f /\ decode_native p 0 bs = Ok (DColor f).
Proof. exact native_roundtrip_refuted_ybr. Qed.
Print Assumptions C07_native_roundtrip_refuted_ybr.


(* non-vacuity: a signed 12-in-16-bit colour frame with extreme values satisfies
   every hypothesis of the round-trip theorem *)
Example C07_native_roundtrip_nonvacuous :
  let p := mkP TImplicit 1 2 true 3 16 12 (Some RGB) 1 (Some 0) KInt 2 in
  let f := [-2048; 2047; 0; -1; 1; 255] in
  native_ts p /\ (exists bs, encode_frame default_tables p f = Ok bs) /\ Z.of_nat (length f) = npix p
  /\ values_fit p f /\ spp p = 3 /\ p_pi p <> Some YBR_FULL.
Proof.
  cbv zeta. split; [now left|]. split; [eexists; reflexivity|]. split; [reflexivity|].
  split; [unfold values_fit; repeat constructor; cbn; intuition discriminate|]. split; [reflexivity|discriminate].
Qed.
Print Assumptions C07_native_roundtrip_nonvacuous.

(* a bit-packed 3-sample frame (D52 fixed): all hypotheses hold, conclusion by the theorem *)
Example C07_native_roundtrip_bits_colour :
  let p := mkP TExplicit 1 8 true 3 1 1 (Some RGB) 0 (Some 0) KBool 1 in
  let f := [1;0;1; 0;0;0; 1;1;1; 0;1;0; 1;0;0; 0;0;1; 1;1;0; 0;1;1] in
  decode_native p 0 (encode_native p f) = Ok (DArr [1; 8; 3] f).
Proof. vm_compute. reflexivity. Qed.
Print Assumptions C07_native_roundtrip_bits_colour.

(* --- frame [index] of a bit-packed multi-frame stream -------------------- *)
Theorem C07_decode_index_window : forall rows cols frames i,
  1 <= rows -> 1 <= cols ->
  (forall f, In f frames -> Z.of_nat (length f) = rows * cols /\ bits01 f) ->
  (i < length frames)%nat ->
  decode_bits rows cols 1 (Z.of_nat i)
    (frame_bytes (rows * cols) (Z.of_nat i) (pack_bits_nopad (concat frames)))
  = Ok (DArr [rows; cols] (nth i frames [])).
Proof. exact decode_index_window. Qed.
Print Assumptions C07_decode_index_window.

(* --- the accept table: the WHOLE finite parameter matrix ---------------- *)
(* FULL statement: ... accepts ... = true -> representable ... = true.
   False for the current code on the cells of D51 (witness below); proved
   with those cells named by [open_gap]. *)
Theorem C07_accept_table_sound_partial : forall ts sh ba bs pi pr pl dt sz lo hi,
  In sh dom_shape -> In ba dom_alloc -> In bs dom_stored -> In pr dom_pixrep -> In pl dom_planar ->
  In dt dom_dtype -> In sz dom_size ->
  accepts default_tables (cell ts sh ba bs pi pr pl dt sz) lo hi = true ->
  representable (cell ts sh ba bs pi pr pl dt sz) = true \/ open_gap (cell ts sh ba bs pi pr pl dt sz) = true.
Proof. exact accept_table_sound_partial. Qed.
Print Assumptions C07_accept_table_sound_partial.

(* the same for ANY validation tables that pass the boolean sweep (used for
   the tables regenerated from the source by harness/translate_c07.py) *)
Theorem C07_accept_table_sound_any_tables : forall T, matrix_ok T = true ->
  forall ts sh ba bs pi pr pl dt sz lo hi,
  In sh dom_shape -> In ba dom_alloc -> In bs dom_stored -> In pr dom_pixrep -> In pl dom_planar ->
  In dt dom_dtype -> In sz dom_size ->
  accepts T (cell ts sh ba bs pi pr pl dt sz) lo hi = true ->
  representable (cell ts sh ba bs pi pr pl dt sz) = true \/ open_gap (cell ts sh ba bs pi pr pl dt sz) = true.
Proof. exact accept_table_sound_T. Qed.
Print Assumptions C07_accept_table_sound_any_tables.

Theorem C07_accept_table_refuted_ybr : exists p,
  accepts default_tables p 0 0 = true /\ representable p = false.
Proof. exact accept_table_refuted_ybr. Qed.
Print Assumptions C07_accept_table_refuted_ybr.


(* non-vacuity of the table: cells are accepted, cells are refused *)
Example C07_accept_table_nonvacuous :
  accepts default_tables (cell TJLS (true, 3) 16 12 (Some RGB) 0 (Some 0) (KUInt, 2) (32, 32)) 0 4095 = true
  /\ representable (cell TJLS (true, 3) 16 12 (Some RGB) 0 (Some 0) (KUInt, 2) (32, 32)) = true
  /\ accepts default_tables (cell TJLS (true, 3) 16 12 (Some YBR_FULL) 0 (Some 0) (KUInt, 2) (32, 32)) 0 4095 = false
  /\ accepts default_tables (cell TRLE (false, 0) 16 8 (Some MONO2) 0 None (KUInt, 2) (3, 5)) 0 255 = false
  /\ accepts default_tables (cell TExplicit (false, 0) 8 8 (Some MONO2) 0 None (KUInt, 2) (3, 5)) 0 255 = false.
Proof. repeat split; reflexivity. Qed.
Print Assumptions C07_accept_table_nonvacuous.

(* --- refusals ---------------------------------------------------------------- *)
Theorem C07_refusal_iff : forall T p f e,
  encode_frame T p f = Err e <-> check T p (list_min f) (list_max f) = Some e.
Proof. exact refusal_iff. Qed.
Print Assumptions C07_refusal_iff.

Theorem C07_accept_iff : forall T p f,
  (exists bs, encode_frame T p f = Ok bs) <-> accepts T p (list_min f) (list_max f) = true.
Proof. exact accept_iff. Qed.
Print Assumptions C07_accept_iff.

Theorem C07_native_accepts_iff : forall p lo hi, native_ts p ->
  accepts default_tables p lo hi = native_spec p lo hi.
Proof. exact native_accepts_iff. Qed.
Print Assumptions C07_native_accepts_iff.

Theorem C07_native_keyerror_iff : forall p lo hi, native_ts p ->
  (check default_tables p lo hi = Some EK <->
   check_common default_tables p = None
   /\ ((1 <? spp p) && negb (optZ_eqb (p_planar p) 0) = false)
   /\ spp p <> 1 /\ spp p <> 3).
Proof. exact native_keyerror_iff. Qed.
Print Assumptions C07_native_keyerror_iff.

(* --- encapsulated syntaxes, codecs as explicit premises -------------------- *)
Theorem C07_encaps_roundtrip :
  forall (codec_encode : params -> list Z -> option (list Z))
         (codec_decode : params -> list Z -> res decoded),
  (forall p f bs,
     accepts default_tables p (list_min f) (list_max f) = true -> open_gap p = false ->
     Z.of_nat (length f) = npix p -> values_fit p f ->
     codec_encode p f = Some bs -> codec_decode p bs = Ok (DArr (out_shape p) f)) ->
  forall p f bs,
    encode_encaps codec_encode default_tables p f = Ok bs ->
    open_gap p = false -> Z.of_nat (length f) = npix p -> values_fit p f ->
    decode_encaps codec_decode p bs = Ok (DArr (out_shape p) f).
Proof. exact encaps_roundtrip. Qed.
Print Assumptions C07_encaps_roundtrip.

Theorem C07_encaps_refusal :
  forall (codec_encode : params -> list Z -> option (list Z)) T p f e,
  check T p (list_min f) (list_max f) = Some e -> encode_encaps codec_encode T p f = Err e.
Proof. exact encaps_refusal. Qed.
Print Assumptions C07_encaps_refusal.

(* --- damaged byte strings ----------------------------------------------------- *)
Theorem C07_decode_truncated_refused : forall p value,
  Z.of_nat (length value) < npix p * (p_balloc p / 8) ->
  decode_words p value = Err EV.
Proof. exact decode_truncated. Qed.
Print Assumptions C07_decode_truncated_refused.

Theorem C07_encode_native_length : forall p f, p_balloc p <> 1 -> 1 <= p_dsize p ->
  Z.of_nat (length (encode_native p f)) = Z.of_nat (length f) * p_dsize p.
Proof. exact encode_native_length. Qed.
Print Assumptions C07_encode_native_length.

(* --- RLE Lossless: the codec itself (no premise) ------------------------------ *)
(* one byte segment (PackBits rows, odd length padded): decoding inverts encoding,
   all byte strings, all row widths *)
Theorem C07_rle_segment_roundtrip : forall cols src, 1 <= cols ->
  rle_decode_segment (rle_encode_segment cols src) = src.
Proof. exact rle_segment_roundtrip. Qed.
Print Assumptions C07_rle_segment_roundtrip.

(* FULL statement: the same without [open_gap p = false]; false for the current
   code (witness below: D51, YBR_FULL stored unconverted, converted on decoding).
   No codec premise and no range precondition: content outside Bits Stored is
   refused by the encoder's own validation (C07_rle_accepts_values_fit). *)
Theorem C07_rle_roundtrip_partial : forall p f bs,
  p_ts p = TRLE ->
  encode_rle default_tables p f = Ok bs ->
  open_gap p = false ->
  Z.of_nat (length f) = npix p ->
  decode_rle p bs = Ok (DArr (out_shape p) f).
Proof. exact rle_roundtrip_full. Qed.
Print Assumptions C07_rle_roundtrip_partial.

Theorem C07_rle_accepts_values_fit : forall p f bs,
  p_ts p = TRLE -> encode_rle default_tables p f = Ok bs -> values_fit p f.
Proof. exact rle_accepts_values_fit. Qed.
Print Assumptions C07_rle_accepts_values_fit.

Theorem C07_rle_roundtrip_refuted_ybr : exists p f bs,
  p_ts p = TRLE /\ encode_rle default_tables p f = Ok bs /\ Z.of_nat (length f) = npix p
  /\ values_fit p f /\ decode_rle p bs = Ok (DColor f).
Proof. exact rle_roundtrip_refuted_ybr. Qed.
Print Assumptions C07_rle_roundtrip_refuted_ybr.

(* non-vacuity: a signed 12-in-16-bit frame and an RGB frame are accepted, and the
   stream really is compressed (a run of equal pixels costs two bytes per plane) *)
Example C07_rle_roundtrip_nonvacuous :
  let p := mkP TRLE 2 3 false 0 16 12 (Some MONO2) 1 None KInt 2 in
  let f := [-2048; 2047; 0; -1; -1; -1] in
  let q := mkP TRLE 1 4 true 3 8 8 (Some RGB) 0 (Some 1) KUInt 1 in
  let g := [9; 8; 7; 9; 8; 7; 9; 8; 7; 9; 8; 7] in
  (exists bs, encode_rle default_tables p f = Ok bs) /\ open_gap p = false
  /\ Z.of_nat (length f) = npix p /\ values_fit p f
  /\ encode_rle default_tables q g
     = Ok ([3; 0; 0; 0; 64; 0; 0; 0; 66; 0; 0; 0; 68; 0; 0; 0] ++ repeat 0 48 ++ [253; 9; 253; 8; 253; 7])
  /\ decode_rle q ([3; 0; 0; 0; 64; 0; 0; 0; 66; 0; 0; 0; 68; 0; 0; 0] ++ repeat 0 48 ++ [253; 9; 253; 8; 253; 7])
     = Ok (DArr [1; 4; 3] g).
Proof.
  cbv zeta. split; [eexists; vm_compute; reflexivity|]. split; [reflexivity|]. split; [reflexivity|].
  split; [unfold values_fit; repeat constructor; cbn; intuition discriminate|].
  split; vm_compute; reflexivity.
Qed.
Print Assumptions C07_rle_roundtrip_nonvacuous.

(* --- frame [index] of a bit-packed stream, any number of samples per pixel ---- *)
Theorem C07_decode_index_window_samples : forall rows cols samples frames i,
  1 <= rows -> 1 <= cols -> 1 <= samples ->
  (forall f, In f frames -> Z.of_nat (length f) = rows * cols * samples /\ bits01 f) ->
  (i < length frames)%nat ->
  decode_bits rows cols samples (Z.of_nat i)
    (frame_bytes (rows * cols * samples) (Z.of_nat i) (pack_bits_nopad (concat frames)))
  = Ok (DArr (if 1 <? samples then [rows; cols; samples] else [rows; cols]) (nth i frames [])).
Proof. exact decode_index_window_samples. Qed.
Print Assumptions C07_decode_index_window_samples.

Example C07_decode_index_window_samples_nonvacuous :
  let frames := [[1;0;1; 0;1;1; 1;1;0]; [0;0;1; 1;0;0; 0;1;0]; [1;1;1; 0;0;0; 1;0;1]] in
  decode_bits 1 3 3 2 (frame_bytes 9 2 (pack_bits_nopad (concat frames)))
  = Ok (DArr [1; 3; 3] [1;1;1; 0;0;0; 1;0;1]).
Proof. vm_compute. reflexivity. Qed.
Print Assumptions C07_decode_index_window_samples_nonvacuous.

(* --- native word frames: what decode (encode f) is, without a range premise ---- *)
Theorem C07_native_words_decode_encode : forall p f bs,
  native_ts p ->
  encode_frame default_tables p f = Ok bs ->
  Z.of_nat (length f) = npix p ->
  p_dsize p <= 8 -> p_balloc p <> 1 ->
  (spp p = 3 -> p_pi p <> Some YBR_FULL) ->
  decode_native p 0 bs = Ok (DArr (out_shape p) (map (stored_view p) f)).
Proof. exact native_words_decode_encode. Qed.
Print Assumptions C07_native_words_decode_encode.

(* the Bits Stored range is exactly the set of contents that round-trip *)
Theorem C07_native_roundtrip_iff : forall p f bs,
  native_ts p ->
  encode_frame default_tables p f = Ok bs ->
  Z.of_nat (length f) = npix p ->
  p_dsize p <= 8 -> p_balloc p <> 1 ->
  (spp p = 3 -> p_pi p <> Some YBR_FULL) ->
  (decode_native p 0 bs = Ok (DArr (out_shape p) f) <-> values_fit p f).
Proof. exact native_roundtrip_iff. Qed.
Print Assumptions C07_native_roundtrip_iff.

(* non-vacuity of the "only if" direction: an accepted uint16 frame with content
   above the 12 stored bits is read back as other numbers *)
Example C07_native_roundtrip_iff_nonvacuous :
  let p := mkP TExplicit 1 2 false 0 16 12 (Some MONO2) 0 None KUInt 2 in
  encode_frame default_tables p [4096; 4095] = Ok [0; 16; 255; 15]
  /\ decode_native p 0 [0; 16; 255; 15] = Ok (DArr [1; 2] [0; 4095])
  /\ ~ values_fit p [4096; 4095].
Proof.
  cbv zeta. split; [reflexivity|]. split; [reflexivity|].
  unfold values_fit. intros H. inversion H as [|x l H1 H2]. cbn in H1. destruct H1 as [_ H1]. compute in H1. discriminate H1.
Qed.
Print Assumptions C07_native_roundtrip_iff_nonvacuous.

(* --- the property sentence over ALL lossless transfer syntaxes ------------------- *)
(* FULL statement: without [open_gap p = false]; false for the current code (D51,
   witnesses C07_native_roundtrip_refuted_ybr / C07_rle_roundtrip_refuted_ybr).
   Only premise: the JPEG-LS (NEAR = 0) and JPEG 2000 Lossless codecs. *)
Theorem C07_lossless_roundtrip_partial :
  forall (codec_encode : params -> list Z -> option (list Z))
         (codec_decode : params -> list Z -> res decoded),
  (forall p f bs,
     p_ts p = TJLS \/ p_ts p = TJ2KL ->
     accepts default_tables p (list_min f) (list_max f) = true ->
     Z.of_nat (length f) = npix p -> values_fit p f ->
     codec_encode p f = Some bs -> codec_decode p bs = Ok (DArr (out_shape p) f)) ->
  forall p f bs,
    lossless_ts p ->
    encode_any codec_encode default_tables p f = Ok bs ->
    open_gap p = false ->
    Z.of_nat (length f) = npix p -> (p_ts p <> TRLE -> values_fit p f) -> p_dsize p <= 8 ->
    decode_any codec_decode default_tables p bs = Ok (DArr (out_shape p) f).
Proof. exact lossless_roundtrip_full. Qed.
Print Assumptions C07_lossless_roundtrip_partial.

Theorem C07_refusal_any :
  forall (codec_encode : params -> list Z -> option (list Z)) p f e,
  check default_tables p (list_min f) (list_max f) = Some e ->
  encode_any codec_encode default_tables p f = Err e.
Proof. exact refusal_any. Qed.
Print Assumptions C07_refusal_any.

(* non-vacuity: with a codec that never produces bytes the premise holds trivially,
   and the theorem still speaks about native and RLE frames *)
Example C07_lossless_roundtrip_nonvacuous :
  let ce := fun (_ : params) (_ : list Z) => @None (list Z) in
  let p := mkP TRLE 1 3 false 0 8 8 (Some MONO1) 0 None KUInt 1 in
  let q := mkP TImplicit 1 3 false 0 8 8 (Some MONO1) 0 None KUInt 1 in
  lossless_ts p /\ lossless_ts q
  /\ (exists bs, encode_any ce default_tables p [7; 7; 9] = Ok bs)
  /\ encode_any ce default_tables q [7; 7; 9] = Ok [7; 7; 9]
  /\ open_gap p = false /\ values_fit p [7; 7; 9].
Proof.
  cbv zeta. split; [right; right; now left|]. split; [now left|].
  split; [eexists; vm_compute; reflexivity|]. split; [reflexivity|]. split; [reflexivity|].
  unfold values_fit. repeat constructor; cbn; intuition discriminate.
Qed.
Print Assumptions C07_lossless_roundtrip_nonvacuous.

(* --- the accept table for ALL parameter values ------------------------------------ *)
(* every integer value of rows, columns, samples, bits allocated / stored, pixel
   representation, planar configuration; every syntax, photometric interpretation,
   dtype kind; item sizes of numpy's integer types.  FULL statement: without the
   [open_gap] alternative (false: C07_accept_table_refuted_ybr, D51). *)
Theorem C07_accept_sound_all_partial : forall p lo hi,
  1 <= p_rows p -> 1 <= p_cols p -> In (p_dsize p) [1; 2; 4; 8] ->
  accepts default_tables p lo hi = true ->
  representable p = true \/ open_gap p = true.
Proof. exact accept_sound_all. Qed.
Print Assumptions C07_accept_sound_all_partial.

(* as the property says it: what the chosen syntax cannot represent is refused *)
Theorem C07_unrepresentable_refused_partial : forall p f,
  1 <= p_rows p -> 1 <= p_cols p -> In (p_dsize p) [1; 2; 4; 8] ->
  representable p = false -> open_gap p = false ->
  exists e, encode_frame default_tables p f = Err e.
Proof. exact unrepresentable_refused. Qed.
Print Assumptions C07_unrepresentable_refused_partial.

(* non-vacuity outside the finite matrix: 64-bit native words are accepted and
   representable; 12 bits allocated for JPEG-LS and a 70000-column RLE
   frame are not representable here / refused *)
Example C07_accept_sound_all_nonvacuous :
  let p := mkP TImplicit 2 2 false 0 64 40 (Some MONO2) 1 None KInt 8 in
  let q := mkP TJLS 32 32 false 0 12 12 (Some MONO2) 0 None KUInt 2 in
  let r := mkP TRLE 1 70000 false 0 8 8 (Some MONO2) 0 None KUInt 1 in
  accepts default_tables p (-5) 5 = true /\ representable p = true
  /\ representable q = false /\ open_gap q = false
  /\ encode_frame default_tables q (repeat 0 1024) = Err EV
  /\ accepts default_tables r 0 0 = false.
Proof. cbv zeta. repeat split; vm_compute; reflexivity. Qed.
Print Assumptions C07_accept_sound_all_nonvacuous.

(* --- RLE Lossless: acceptance as one explicit conjunction (all parameter values) --- *)
Theorem C07_rle_accepts_iff : forall p lo hi, p_ts p = TRLE ->
  accepts default_tables p lo hi = rle_spec p lo hi.
Proof. exact rle_accepts_iff. Qed.
Print Assumptions C07_rle_accepts_iff.

(* the guard of the D70 fix is necessary: without it the stream is undecodable *)
Theorem C07_rle_guard_d70_necessary : exists p f bs,
  check_pydicom default_tables p = None /\ check_profile default_tables p = None
  /\ values_fit p f /\ rle_encode_frame p f = Ok bs /\ decode_rle p bs = Err ERT.
Proof. exact rle_guard_d70_necessary. Qed.
Print Assumptions C07_rle_guard_d70_necessary.

(* --- decode_frame as an entry point (its own parameter validation included) ------- *)
Theorem C07_entry_native_roundtrip_partial : forall p f bs,
  native_ts p ->
  encode_frame default_tables p f = Ok bs ->
  Z.of_nat (length f) = npix p -> p_dsize p <= 8 -> values_fit p f ->
  (spp p = 3 -> p_balloc p <> 1 -> p_pi p <> Some YBR_FULL) ->
  decode_frame_model p 0 bs = Ok (DArr (out_shape p) f).
Proof. exact entry_native_roundtrip. Qed.
Print Assumptions C07_entry_native_roundtrip_partial.

Theorem C07_entry_rle_roundtrip_partial : forall p f bs,
  p_ts p = TRLE ->
  encode_rle default_tables p f = Ok bs ->
  open_gap p = false -> Z.of_nat (length f) = npix p ->
  decode_frame_model p 0 bs = Ok (DArr (out_shape p) f).
Proof. exact entry_rle_roundtrip. Qed.
Print Assumptions C07_entry_rle_roundtrip_partial.

(* non-vacuity: the entry point does refuse and does re-order when the call differs *)
Example C07_entry_nonvacuous :
  let p := mkP TExplicit 1 2 true 3 8 8 (Some RGB) 0 (Some 0) KUInt 1 in
  let q := mkP TExplicit 1 2 true 3 8 8 (Some RGB) 0 (Some 1) KUInt 1 in
  let r := mkP TExplicit 1 2 true 3 8 8 (Some RGB) 2 (Some 0) KUInt 1 in
  decode_frame_model p 0 [1; 2; 3; 4; 5; 6] = Ok (DArr [1; 2; 3] [1; 2; 3; 4; 5; 6])
  /\ decode_frame_model q 0 [1; 2; 3; 4; 5; 6] = Ok (DArr [1; 2; 3] [1; 3; 5; 2; 4; 6])
  /\ decode_frame_model r 0 [1; 2; 3; 4; 5; 6] = Err EV.
Proof. cbv zeta. repeat split; vm_compute; reflexivity. Qed.
Print Assumptions C07_entry_nonvacuous.

(* =========================================================================
   decode_frame as the WHOLE entry point ([decode_frame_entry]: bit-packed path,
   enum conversions, planar guard, several native frames / planar configuration
   1, encapsulate (empty value refused, odd value padded), RLE decoder or codec)
   ========================================================================= *)

(* --- the property sentence as ONE dichotomy, every lossless syntax ------------ *)
(* FULL statement: without [open_gap p = false]; false for the current code (D51,
   witnesses C07_native_roundtrip_refuted_ybr / C07_rle_roundtrip_refuted_ybr).
   Only premise: the JPEG-LS (NEAR = 0) / JPEG 2000 Lossless codec returns a
   non-empty code stream which its decoder reads back from the encapsulated
   (even-padded) fragment. *)
Theorem C07_property_sentence_partial :
  forall (codec_encode : params -> list Z -> option (list Z))
         (codec_decode : params -> list Z -> res decoded),
  (forall p f bs,
     p_ts p = TJLS \/ p_ts p = TJ2KL ->
     accepts default_tables p (list_min f) (list_max f) = true ->
     Z.of_nat (length f) = npix p -> values_fit p f ->
     codec_encode p f = Some bs ->
     bs <> [] /\ codec_decode p (pad_even bs) = Ok (DArr (out_shape p) f)) ->
  forall p f index,
    lossless_ts p -> 1 <= p_rows p -> 1 <= p_cols p -> In (p_dsize p) [1; 2; 4; 8] ->
    Z.of_nat (length f) = npix p -> open_gap p = false ->
    (p_ts p <> TRLE -> values_fit p f) ->
    (exists e, encode_any codec_encode default_tables p f = Err e)
    \/ (exists bs, encode_any codec_encode default_tables p f = Ok bs
                   /\ representable p = true
                   /\ decode_frame_entry codec_decode p index bs = Ok (DArr (out_shape p) f)).
Proof. exact property_sentence. Qed.
Print Assumptions C07_property_sentence_partial.

Theorem C07_entry_lossless_roundtrip_partial :
  forall (codec_encode : params -> list Z -> option (list Z))
         (codec_decode : params -> list Z -> res decoded),
  (forall p f bs,
     p_ts p = TJLS \/ p_ts p = TJ2KL ->
     accepts default_tables p (list_min f) (list_max f) = true ->
     Z.of_nat (length f) = npix p -> values_fit p f ->
     codec_encode p f = Some bs ->
     bs <> [] /\ codec_decode p (pad_even bs) = Ok (DArr (out_shape p) f)) ->
  forall p f bs index,
    lossless_ts p ->
    encode_any codec_encode default_tables p f = Ok bs ->
    open_gap p = false ->
    Z.of_nat (length f) = npix p -> (p_ts p <> TRLE -> values_fit p f) -> p_dsize p <= 8 ->
    decode_frame_entry codec_decode p index bs = Ok (DArr (out_shape p) f).
Proof. exact entry_lossless_roundtrip. Qed.
Print Assumptions C07_entry_lossless_roundtrip_partial.

(* no two different frames are turned into the same bytes ("bytes that decode to
   something else" cannot arise from a second frame either) *)
Theorem C07_encode_injective_partial :
  forall (codec_encode : params -> list Z -> option (list Z))
         (codec_decode : params -> list Z -> res decoded),
  (forall p f bs,
     p_ts p = TJLS \/ p_ts p = TJ2KL ->
     accepts default_tables p (list_min f) (list_max f) = true ->
     Z.of_nat (length f) = npix p -> values_fit p f ->
     codec_encode p f = Some bs ->
     bs <> [] /\ codec_decode p (pad_even bs) = Ok (DArr (out_shape p) f)) ->
  forall p f g bs,
    lossless_ts p ->
    encode_any codec_encode default_tables p f = Ok bs ->
    encode_any codec_encode default_tables p g = Ok bs ->
    open_gap p = false -> p_dsize p <= 8 ->
    Z.of_nat (length f) = npix p -> Z.of_nat (length g) = npix p ->
    (p_ts p <> TRLE -> values_fit p f /\ values_fit p g) ->
    f = g.
Proof. exact encode_any_injective. Qed.
Print Assumptions C07_encode_injective_partial.

(* what cannot be represented is refused by EVERY encoder path (no codec premise) *)
Theorem C07_unrepresentable_refused_any_partial :
  forall (codec_encode : params -> list Z -> option (list Z)) p f,
  1 <= p_rows p -> 1 <= p_cols p -> In (p_dsize p) [1; 2; 4; 8] ->
  representable p = false -> open_gap p = false ->
  exists e, encode_any codec_encode default_tables p f = Err e.
Proof. exact unrepresentable_refused_any. Qed.
Print Assumptions C07_unrepresentable_refused_any_partial.

(* --- the entry point's own refusals ---------------------------------------------- *)
Theorem C07_entry_refuses : forall cd p index value,
  is_native default_tables p && (p_balloc p =? 1) = false ->
  entry_guard p = true -> decode_frame_entry cd p index value = Err EV.
Proof. exact entry_refuses. Qed.
Print Assumptions C07_entry_refuses.

Theorem C07_entry_ok_guard : forall cd p index value d,
  decode_frame_entry cd p index value = Ok d ->
  is_native default_tables p && (p_balloc p =? 1) = true
  \/ ((p_pixrep p = 0 \/ p_pixrep p = 1) /\ p_pi p <> None
      /\ (1 < spp p -> p_planar p = Some 0 \/ p_planar p = Some 1)
      /\ (is_native default_tables p = false -> value <> [])).
Proof. exact entry_ok_guard. Qed.
Print Assumptions C07_entry_ok_guard.

(* the frame index has no effect except on bit-packed frames that do not fill bytes *)
Theorem C07_entry_index_irrel : forall cd p index value,
  is_native default_tables p && (p_balloc p =? 1) = false \/ npix p mod 8 = 0 ->
  decode_frame_entry cd p index value = decode_frame_entry cd p 0 value.
Proof. exact entry_index_irrel. Qed.
Print Assumptions C07_entry_index_irrel.

(* --- decoding with OTHER parameters than the encoding call ----------------------- *)
Theorem C07_decode_words_other_params : forall p q f,
  p_balloc p <> 1 -> 1 <= p_dsize p <= 8 -> p_balloc q = 8 * p_dsize p ->
  1 <= p_bstored q <= p_balloc q -> (spp q = 1 \/ spp q = 3) ->
  Z.of_nat (length f) = npix q ->
  (spp q =? 3) && pi_is q YBR_FULL = false ->
  decode_words q (encode_native p f) = Ok (DArr (out_shape q) (map (stored_view q) f)).
Proof. exact decode_words_encode_native. Qed.
Print Assumptions C07_decode_words_other_params.

Theorem C07_entry_native_other_params : forall cd p q f bs index,
  native_ts p -> native_ts q ->
  encode_frame default_tables p f = Ok bs ->
  p_balloc p <> 1 -> p_dsize p <= 8 ->
  p_balloc q = p_balloc p -> npix q = npix p -> Z.of_nat (length f) = npix p ->
  1 <= p_bstored q <= p_balloc q -> (spp q = 1 \/ spp q = 3) ->
  entry_guard q = false ->
  (spp q =? 3) && pi_is q YBR_FULL = false ->
  decode_frame_entry cd q index bs
  = Ok (DArr (out_shape q)
         (if (1 <? spp q) && optZ_eqb (p_planar q) 1
          then planar_frames (Z.to_nat (p_rows q * p_cols q)) (Z.to_nat (spp q)) (map (stored_view q) f)
          else map (stored_view q) f)).
Proof. exact entry_native_other_params. Qed.
Print Assumptions C07_entry_native_other_params.

Theorem C07_decode_rle_other_params : forall p q f bs,
  p_ts p = TRLE ->
  encode_rle default_tables p f = Ok bs ->
  Z.of_nat (length f) = npix p ->
  p_rows q = p_rows p -> p_cols q = p_cols p -> spp q = spp p -> p_balloc q = p_balloc p ->
  1 <= p_bstored q <= p_balloc q -> (1 < spp q -> p_planar q <> None) ->
  (spp q =? 3) && pi_is q YBR_FULL = false ->
  decode_rle q bs = Ok (DArr (out_shape q) (map (stored_view q) f)).
Proof. exact decode_rle_other_params. Qed.
Print Assumptions C07_decode_rle_other_params.

Theorem C07_entry_rle_other_params : forall cd p q f bs index,
  p_ts p = TRLE -> p_ts q = TRLE ->
  encode_rle default_tables p f = Ok bs ->
  Z.of_nat (length f) = npix p ->
  p_rows q = p_rows p -> p_cols q = p_cols p -> spp q = spp p -> p_balloc q = p_balloc p ->
  1 <= p_bstored q <= p_balloc q -> entry_guard q = false ->
  (spp q =? 3) && pi_is q YBR_FULL = false ->
  decode_frame_entry cd q index bs = Ok (DArr (out_shape q) (map (stored_view q) f)).
Proof. exact entry_rle_other_params. Qed.
Print Assumptions C07_entry_rle_other_params.

(* --- truncated native values are refused at the entry point (words and bits, any index) *)
Theorem C07_entry_truncated_refused : forall cd p index value,
  native_ts p -> 1 <= spp p -> 1 <= p_rows p -> 1 <= p_cols p ->
  (if p_balloc p =? 1
   then 8 * Z.of_nat (length value) < (index * npix p) mod 8 + npix p
   else Z.of_nat (length value) < npix p * (p_balloc p / 8)) ->
  decode_frame_entry cd p index value = Err EV.
Proof. exact entry_truncated. Qed.
Print Assumptions C07_entry_truncated_refused.

(* --- error classes of the entry point (native, RLE Lossless): ValueError / RuntimeError *)
Theorem C07_entry_error_class : forall cd p index value e,
  native_ts p \/ p_ts p = TRLE ->
  decode_frame_entry cd p index value = Err e -> e = EV \/ e = ERT.
Proof. exact entry_error_class. Qed.
Print Assumptions C07_entry_error_class.

(* --- size safety: ANY byte string, ANY parameters (native and RLE Lossless) ------- *)
Theorem C07_entry_output_size : forall cd p index value sh vals,
  native_ts p \/ p_ts p = TRLE -> 1 <= p_rows p -> 1 <= p_cols p -> 1 <= spp p ->
  decode_frame_entry cd p index value = Ok (DArr sh vals) ->
  Z.of_nat (length vals) = shape_size sh
  /\ exists nf, 1 <= nf /\ sh = (if 1 <? nf then [nf] else []) ++ out_shape p.
Proof. exact entry_output_size. Qed.
Print Assumptions C07_entry_output_size.

(* --- damaged RLE streams: necessary conditions of a successful decode ------------- *)
Theorem C07_rle_decode_frame_ok : forall rows cols s k src ws,
  rle_decode_frame rows cols s k src = Ok ws ->
  (64 <= length src)%nat /\ le_word (firstn 4 src) = Z.of_nat (s * k) /\ (s * k <= 15)%nat
  /\ length ws = (Z.to_nat (rows * cols) * s)%nat.
Proof. exact rle_decode_frame_Ok. Qed.
Print Assumptions C07_rle_decode_frame_ok.

Theorem C07_decode_rle_short : forall p v, (length v < 64)%nat ->
  forall sh vals, decode_rle p v <> Ok (DArr sh vals).
Proof. exact decode_rle_short. Qed.
Print Assumptions C07_decode_rle_short.

(* an RLE stream produced by the encoder: at least the header, even length (so that
   encapsulate neither refuses nor pads it) *)
Theorem C07_rle_stream_shape : forall p f bs, rle_encode_frame p f = Ok bs ->
  (64 <= length bs)%nat /\ Nat.even (length bs) = true.
Proof. exact rle_stream_shape. Qed.
Print Assumptions C07_rle_stream_shape.

(* --- byte count of a bit-packed frame ----------------------------------------------- *)
Theorem C07_encode_bits_length : forall p f,
  p_balloc p = 1 -> Z.of_nat (length f) = npix p -> npix p mod 8 = 0 ->
  Z.of_nat (length (encode_native p f)) = npix p / 8 + (npix p / 8) mod 2.
Proof. exact encode_bits_length. Qed.
Print Assumptions C07_encode_bits_length.

(* --- 1-bit JPEG 2000 Lossless: astype(bool) in front of the codec is the identity
       exactly on 0/1 content ------------------------------------------------------ *)
Theorem C07_as_bool_exact_iff : forall f, as_bool f = f <-> Forall (fun v => 0 <= v < 2 ^ 1) f.
Proof. exact as_bool_exact_iff. Qed.
Print Assumptions C07_as_bool_exact_iff.

(* non-vacuity: the premise is satisfiable (a codec that never produces bytes), both
   branches of the dichotomy occur, frames ARE re-ordered / refused / re-interpreted *)
Example C07_entry_examples :
  let p := mkP TRLE 2 3 false 0 16 12 (Some MONO2) 1 None KInt 2 in
  let f := [-2048; 2047; 0; -1; -1; -1] in
  let u := mkP TRLE 2 3 false 0 32 32 (Some MONO2) 0 None KUInt 4 in
  let q := mkP TExplicit 1 2 true 3 8 8 (Some RGB) 0 (Some 1) KUInt 1 in
  let w := mkP TExplicit 1 2 false 0 16 16 (Some MONO2) 0 None KUInt 2 in
  let w12 := mkP TImplicit 2 1 false 0 16 12 (Some MONO1) 1 None KUInt 2 in
  (exists bs, encode_any no_codec_enc default_tables p f = Ok bs
              /\ decode_frame_entry no_codec_dec p 5 bs = Ok (DArr [2; 3] f))
  /\ representable p = true /\ representable u = false
  /\ encode_any no_codec_enc default_tables u [1; 2; 3; 4; 5; 6] = Err EV
  /\ decode_frame_entry no_codec_dec q 0 [0; 1; 2; 3; 4; 5; 6; 7; 8; 9; 10; 11]
     = Ok (DArr [2; 1; 2; 3] [0; 2; 4; 1; 3; 5; 6; 8; 10; 7; 9; 11])
  /\ decode_frame_entry no_codec_dec p 0 [] = Err EV
  /\ decode_frame_entry no_codec_dec p 0 [1; 2; 3] = Err ERT
  /\ encode_frame default_tables w [4096; 63488] = Ok [0; 16; 0; 248]
  /\ decode_frame_entry no_codec_dec w12 0 [0; 16; 0; 248] = Ok (DArr [2; 1] [0; -2048]).
Proof. exact entry_examples. Qed.
Print Assumptions C07_entry_examples.

Example C07_entry_premise_satisfiable : forall p f bs,
  p_ts p = TJLS \/ p_ts p = TJ2KL ->
  accepts default_tables p (list_min f) (list_max f) = true ->
  Z.of_nat (length f) = npix p -> values_fit p f ->
  no_codec_enc p f = Some bs ->
  bs <> [] /\ no_codec_dec p (pad_even bs) = Ok (DArr (out_shape p) f).
Proof. exact no_codec_premise. Qed.
Print Assumptions C07_entry_premise_satisfiable.

(* --- exception classes of encode_frame (any validation tables) ---------------------- *)
Theorem C07_check_error_class : forall T p lo hi e,
  check T p lo hi = Some e -> e = EV \/ e = EK \/ e = EA.
Proof. exact check_error_class. Qed.
Print Assumptions C07_check_error_class.

Theorem C07_encode_any_error_class :
  forall (codec_encode : params -> list Z -> option (list Z)) T p f e,
  encode_any codec_encode T p f = Err e -> e = EV \/ e = EK \/ e = EA \/ e = ERT.
Proof. exact encode_any_error_class. Qed.
Print Assumptions C07_encode_any_error_class.

(* --- the older entry-point model agrees with decode_frame_entry where it is faithful -- *)
Theorem C07_entry_model_agree : forall cd p index value,
  (native_ts p /\ (1 <? spp p) && optZ_eqb (p_planar p) 1 = false)
  \/ (p_ts p = TRLE /\ value <> [] /\ Nat.even (length value) = true) ->
  decode_frame_entry cd p index value = decode_frame_model p index value.
Proof. exact entry_model_agree. Qed.
Print Assumptions C07_entry_model_agree.
