(* C18 - proofs, part 12: groups are found by the NUMBER THEY CARRY, whatever their position.
   The constructor numbers the items 1, 2, .. in order, so on a constructed instance "number k"
   and "position k-1" coincide (C18_Proofs_Object).  Nothing keeps them together afterwards:
   from_dataset / annread accept any Annotation Group Sequence - groups removed from the file,
   items in another order, sparse numbers, a number carried twice.  The theorems here are
   about ARBITRARY item lists: lookup by number is sound, complete when the numbers are
   distinct, ValueError for a number nobody carries and for a number carried twice,
   independent of the order of the items and of the removal of other groups; composed with
   the object theorems: the group found on a rearranged instance holds the coordinates and
   measurements given for THAT group. *)
From Coq Require Import String ZArith List Bool Lia ZifyBool Arith Permutation.
From HD Require Import Base.Val Base.ListZ C18_Model C18_Proofs C18_Proofs_Meas C18_Proofs_General
  C18_Proofs_History C18_Proofs_Object.
Import ListNotations.
Ltac Zify.zify_post_hook ::= Z.to_euclidean_division_equations.
Open Scope Z_scope.

(* ---- searching a list for a key ------------------------------------------------------------ *)
Section Search.
  Variable A : Type.
  Variable key : A -> Z.

  Definition hits (k : Z) (l : list A) : list A := filter (fun x => key x =? k) l.

  Lemma hits_app : forall k l1 l2, hits k (l1 ++ l2) = hits k l1 ++ hits k l2.
  Proof. intros k l1 l2. unfold hits. apply filter_app. Qed.

  Lemma hits_sound : forall k l x, In x (hits k l) -> In x l /\ key x = k.
  Proof. intros k l x H. apply filter_In in H as [H1 H2]. split; [exact H1|lia]. Qed.

  Lemma hits_absent : forall k l, ~ In k (map key l) -> hits k l = [].
  Proof.
    induction l as [|x t IH]; intros H; [reflexivity|]. unfold hits in *. cbn [filter].
    destruct (key x =? k) eqn:E.
    - exfalso. apply H. left. lia.
    - apply IH. intros Hc. apply H. now right.
  Qed.

  Lemma hits_present : forall k l x, In x l -> key x = k -> In x (hits k l).
  Proof. intros k l x H1 H2. apply filter_In. split; [exact H1|lia]. Qed.

  Lemma hits_complete : forall l x, NoDup (map key l) -> In x l -> hits (key x) l = [x].
  Proof.
    induction l as [|y t IH]; intros x Hnd Hin; [contradiction|].
    cbn [map] in Hnd. inversion Hnd as [|? ? Hnotin Hnd']; subst. unfold hits in *. cbn [filter].
    destruct Hin as [->|Hin].
    - replace (key x =? key x) with true by lia. f_equal. apply hits_absent. exact Hnotin.
    - destruct (key y =? key x) eqn:E.
      + exfalso. apply Hnotin. replace (key y) with (key x) by lia. now apply in_map.
      + now apply IH.
  Qed.

  Lemma hits_two : forall k l1 a l2 b l3, key a = k -> key b = k ->
    exists x y t, hits k (l1 ++ a :: l2 ++ b :: l3) = x :: y :: t.
  Proof.
    intros k l1 a l2 b l3 Ha Hb. rewrite hits_app.
    assert (E : hits k (a :: l2 ++ b :: l3) = a :: hits k l2 ++ b :: hits k l3).
    { unfold hits. cbn [filter]. replace (key a =? k) with true by lia. f_equal.
      rewrite filter_app. cbn [filter]. replace (key b =? k) with true by lia. reflexivity. }
    rewrite E. destruct (hits k l1) as [|x [|y t]].
    - destruct (hits k l2) as [|y t]; cbn [app]; eauto.
    - cbn [app]. eauto.
    - cbn [app]. eauto.
  Qed.

  Lemma hits_perm : forall k l l', Permutation l l' -> Permutation (hits k l) (hits k l').
  Proof.
    intros k l l' H. unfold hits. induction H as [|x l l' H IH|x y l|l l' l'' H1 IH1 H2 IH2].
    - constructor.
    - cbn [filter]. destruct (key x =? k); [now constructor|exact IH].
    - cbn [filter]. destruct (key x =? k), (key y =? k); try apply Permutation_refl; apply perm_swap.
    - eapply Permutation_trans; eassumption.
  Qed.

  (* removing an item that carries another key does not change the hits *)
  Lemma hits_remove_other : forall k l1 x l2, key x <> k -> hits k (l1 ++ x :: l2) = hits k (l1 ++ l2).
  Proof.
    intros k l1 x l2 H. rewrite !hits_app. f_equal. unfold hits. cbn [filter].
    replace (key x =? k) with false by lia. reflexivity.
  Qed.
End Search.
Arguments hits {A} key k l.

(* "exactly one": what get_annotation_group does with the items it found *)
Lemma unique_obj_perm : forall l l', Permutation l l' -> unique_obj l = unique_obj l'.
Proof.
  intros l l' H. destruct l as [|a [|b t]].
  - apply Permutation_nil in H. subst. reflexivity.
  - apply Permutation_length_1_inv in H. subst. reflexivity.
  - pose proof (Permutation_length H) as Hl. destruct l' as [|a' [|b' t']]; cbn [length] in Hl; try discriminate.
    reflexivity.
Qed.

Lemma unique_or_err_perm : forall l l', Permutation l l' -> unique_or_err l = unique_or_err l'.
Proof.
  intros l l' H. destruct l as [|a [|b t]].
  - apply Permutation_nil in H. subst. reflexivity.
  - apply Permutation_length_1_inv in H. subst. reflexivity.
  - pose proof (Permutation_length H) as Hl. destruct l' as [|a' [|b' t']]; cbn [length] in Hl; try discriminate.
    reflexivity.
Qed.

(* ---- group objects --------------------------------------------------------------------------- *)
Definition onum (o : gobj) : Z := g_number (o_info o).
Definition ouid (o : gobj) : Z := g_uid (o_info o).

Lemma get_group_obj_number : forall os k u, get_group_obj os (Some k) u = unique_obj (hits onum k os).
Proof. intros os k u. unfold get_group_obj. destruct u; reflexivity. Qed.

Lemma get_group_obj_uid : forall os v, get_group_obj os None (Some v) = unique_obj (hits ouid v os).
Proof. reflexivity. Qed.

Lemma unique_obj_ok : forall l o, unique_obj l = Ok o <-> l = [o].
Proof.
  intros l o. destruct l as [|a [|b t]]; cbn [unique_obj]; split; intros H; try discriminate; inversion H; reflexivity.
Qed.

(* the group handed back is an item of the sequence and carries the number asked for *)
Lemma obj_by_number_sound : forall os k u o, get_group_obj os (Some k) u = Ok o -> In o os /\ onum o = k.
Proof.
  intros os k u o H. rewrite get_group_obj_number in H. apply unique_obj_ok in H.
  apply (hits_sound _ onum k os o). rewrite H. now left.
Qed.

(* ... and it is the only item that does *)
Lemma obj_by_number_only : forall os k u o, get_group_obj os (Some k) u = Ok o ->
  forall x, In x os -> onum x = k -> x = o.
Proof.
  intros os k u o H x Hx Hk. rewrite get_group_obj_number in H. apply unique_obj_ok in H.
  pose proof (hits_present _ onum k os x Hx Hk) as Hin. rewrite H in Hin. destruct Hin as [<-|[]]. reflexivity.
Qed.

Lemma obj_by_number_sound_only : forall os k u o, get_group_obj os (Some k) u = Ok o ->
  In o os /\ onum o = k /\ forall x, In x os -> onum x = k -> x = o.
Proof.
  intros os k u o H. destruct (obj_by_number_sound os k u o H) as (H1 & H2).
  exact (conj H1 (conj H2 (obj_by_number_only os k u o H))).
Qed.

(* distinct numbers - in any order, with any gaps: every item is found by its number *)
Lemma obj_by_number_complete : forall os o u, NoDup (map onum os) -> In o os ->
  get_group_obj os (Some (onum o)) u = Ok o.
Proof.
  intros os o u Hnd Hin. rewrite get_group_obj_number, (hits_complete _ onum os o Hnd Hin). reflexivity.
Qed.

(* a number that no item carries is reported, whatever the number of items *)
Lemma obj_by_number_absent : forall os k u, ~ In k (map onum os) -> get_group_obj os (Some k) u = Err VE.
Proof. intros os k u H. rewrite get_group_obj_number, (hits_absent _ onum k os H). reflexivity. Qed.

(* a number carried by two items is reported as well *)
Lemma obj_by_number_ambiguous : forall l1 a l2 b l3 k u, onum a = k -> onum b = k ->
  get_group_obj (l1 ++ a :: l2 ++ b :: l3) (Some k) u = Err VE.
Proof.
  intros l1 a l2 b l3 k u Ha Hb. rewrite get_group_obj_number.
  destruct (hits_two _ onum k l1 a l2 b l3 Ha Hb) as (x & y & t & ->). reflexivity.
Qed.

(* exact: found iff exactly one item carries the number *)
Lemma obj_by_number_iff : forall os k u o,
  get_group_obj os (Some k) u = Ok o <->
  exists l1 l2, os = l1 ++ o :: l2 /\ onum o = k /\ ~ In k (map onum l1) /\ ~ In k (map onum l2).
Proof.
  intros os k u o. rewrite get_group_obj_number, unique_obj_ok. split.
  - intros H. assert (Hin : In o (hits onum k os)) by (rewrite H; now left).
    destruct (hits_sound _ onum k os o Hin) as (Ho & Hk).
    apply in_split in Ho as (l1 & l2 & ->). exists l1, l2. split; [reflexivity|]. split; [exact Hk|].
    rewrite hits_app in H. unfold hits at 2 in H. cbn [filter] in H. replace (onum o =? k) with true in H by lia.
    fold (hits onum k l2) in H.
    destruct (hits onum k l1) as [|x t] eqn:E1; cbn [app] in H.
    + inversion H as [E2]. split; intros Hc; apply in_map_iff in Hc as (x & Hx & Hxin).
      * pose proof (hits_present _ onum k l1 x Hxin Hx) as Hp. rewrite E1 in Hp. contradiction.
      * pose proof (hits_present _ onum k l2 x Hxin Hx) as Hp. rewrite E2 in Hp. contradiction.
    + exfalso. inversion H as [[Hx Ht]]. destruct t; discriminate.
  - intros (l1 & l2 & -> & Hk & H1 & H2). rewrite hits_app. rewrite (hits_absent _ onum k l1 H1). cbn [app].
    unfold hits. cbn [filter]. replace (onum o =? k) with true by lia. f_equal. apply (hits_absent _ onum k l2 H2).
Qed.

(* the answer does not depend on the order in which the items are stored: by number, by
   uid, and without key *)
Lemma obj_lookup_order_independent : forall os os' number uid, Permutation os os' ->
  get_group_obj os number uid = get_group_obj os' number uid.
Proof.
  intros os os' number uid H. destruct number as [k|].
  - rewrite !get_group_obj_number. apply unique_obj_perm. now apply hits_perm.
  - destruct uid as [v|]; [|reflexivity]. rewrite !get_group_obj_uid. apply unique_obj_perm. now apply hits_perm.
Qed.

(* ... nor on the presence of groups that carry other numbers *)
Lemma obj_by_number_removal : forall l1 x l2 k u, onum x <> k ->
  get_group_obj (l1 ++ x :: l2) (Some k) u = get_group_obj (l1 ++ l2) (Some k) u.
Proof. intros l1 x l2 k u H. rewrite !get_group_obj_number, (hits_remove_other _ onum k l1 x l2 H). reflexivity. Qed.

(* ---- identification records (the same statements for [get_group]) ----------------------------- *)
Lemma get_group_number : forall gs k u, get_group gs (Some k) u = unique_or_err (hits g_number k gs).
Proof. intros gs k u. unfold get_group. destruct u; reflexivity. Qed.

Lemma unique_or_err_ok : forall l g, unique_or_err l = Ok g <-> l = [g].
Proof.
  intros l g. destruct l as [|a [|b t]]; cbn [unique_or_err]; split; intros H; try discriminate; inversion H; reflexivity.
Qed.

Lemma by_number_sound : forall gs k u g, get_group gs (Some k) u = Ok g -> In g gs /\ g_number g = k.
Proof.
  intros gs k u g H. rewrite get_group_number in H. apply unique_or_err_ok in H.
  apply (hits_sound _ g_number k gs g). rewrite H. now left.
Qed.

Lemma by_number_complete : forall gs g u, NoDup (map g_number gs) -> In g gs ->
  get_group gs (Some (g_number g)) u = Ok g.
Proof.
  intros gs g u Hnd Hin. rewrite get_group_number, (hits_complete _ g_number gs g Hnd Hin). reflexivity.
Qed.

Lemma by_number_absent : forall gs k u, ~ In k (map g_number gs) -> get_group gs (Some k) u = Err VE.
Proof. intros gs k u H. rewrite get_group_number, (hits_absent _ g_number k gs H). reflexivity. Qed.

Lemma by_number_ambiguous : forall l1 a l2 b l3 k u, g_number a = k -> g_number b = k ->
  get_group (l1 ++ a :: l2 ++ b :: l3) (Some k) u = Err VE.
Proof.
  intros l1 a l2 b l3 k u Ha Hb. rewrite get_group_number.
  destruct (hits_two _ g_number k l1 a l2 b l3 Ha Hb) as (x & y & t & ->). reflexivity.
Qed.

Lemma lookup_order_independent : forall gs gs' number uid, Permutation gs gs' ->
  get_group gs number uid = get_group gs' number uid.
Proof.
  intros gs gs' number uid H. destruct number as [k|].
  - rewrite !get_group_number. apply unique_or_err_perm. now apply hits_perm.
  - destruct uid as [v|]; [|reflexivity]. unfold get_group. apply unique_or_err_perm.
    apply (hits_perm _ g_uid v gs gs' H).
Qed.

(* ---- the rearranged instance --------------------------------------------------------------------- *)
(* the specification of an item that was given number r after the instance was written *)
Definition renumber_spec (r : option Z) (s : gspec) : gspec :=
  match r with
  | Some k => mkGS (renumber_info k (s_info s)) (s_dbl s) (s_gd s) (s_ms s)
  | None => s
  end.

Definition spec_number (r : option Z) (s : gspec) : Z := g_number (s_info (renumber_spec r s)).

Lemma holds_renumber : forall parsed s o k, holds parsed s o ->
  holds parsed (renumber_spec (Some k) s) (renumber k o).
Proof.
  intros parsed s o k (Hi & Hn & Hops & Hms). unfold holds, renumber, renumber_spec.
  cbn [o_info o_enc o_ms o_cache s_info s_dbl s_gd s_ms]. repeat split.
  - rewrite Hi. reflexivity.
  - exact Hn.
  - exact Hops.
  - exact Hms.
Qed.

Lemma holds_number : forall parsed s o, holds parsed s o -> onum o = g_number (s_info s).
Proof. intros parsed s o (Hi & _). unfold onum. rewrite Hi. reflexivity. Qed.

Lemma edit_pick_in {A} (ren : Z -> A -> A) : forall (l : list A) e y, In y (edit_pick ren l e) ->
  0 <= fst e /\ exists x, nth_error l (Z.to_nat (fst e)) = Some x /\
    y = match snd e with Some k => ren k x | None => x end.
Proof.
  intros l e y H. unfold edit_pick in H. destruct (fst e <? 0) eqn:E; [contradiction|].
  destruct (nth_error l (Z.to_nat (fst e))) as [x|] eqn:En; [|contradiction].
  destruct H as [<-|[]]. split; [lia|]. exists x. split; reflexivity.
Qed.

Lemma edit_pick_intro {A} (ren : Z -> A -> A) : forall (l : list A) e x, 0 <= fst e ->
  nth_error l (Z.to_nat (fst e)) = Some x ->
  edit_pick ren l e = [match snd e with Some k => ren k x | None => x end].
Proof.
  intros l e x H0 Hx. unfold edit_pick. replace (fst e <? 0) with false by lia. rewrite Hx. reflexivity.
Qed.

(* every item of the rearranged sequence holds the data given for the group it was made from *)
Lemma edited_holds : forall h ss os parsed ed o, build_full h ss = Ok os ->
  In o (edit_items (view parsed os) ed) ->
  exists p r s, In (p, r) ed /\ 0 <= p /\ nth_error ss (Z.to_nat p) = Some s /\ holds parsed (renumber_spec r s) o.
Proof.
  intros h ss os parsed ed o H Hin. destruct (object_holds h ss os parsed H) as (HF & _).
  unfold edit_items in Hin. apply in_flat_map in Hin as ([p r] & He & Ho).
  apply edit_pick_in in Ho as (Hp & x & Hx & ->). cbn [fst snd] in *.
  exists p, r.
  assert (Hs : exists s, nth_error ss (Z.to_nat p) = Some s /\ holds parsed s x).
  { clear - HF Hx. revert Hx. generalize (Z.to_nat p) as i. induction HF as [|s y t t' Hsy Ht IH]; intros i Hi.
    - destruct i; discriminate.
    - destruct i as [|i]; cbn [nth_error] in *; [inversion Hi; subst; eauto|now apply IH]. }
  destruct Hs as (s & Hs & Hh). exists s. split; [exact He|]. split; [exact Hp|]. split; [exact Hs|].
  destruct r as [k|]; [now apply holds_renumber|exact Hh].
Qed.

(* THE property sentence on a rearranged instance: when the numbers carried are distinct,
   the item made from group p (renumbered r or not) is found by the number it carries -
   wherever it is stored - and holds the coordinates and measurements given for group p *)
Lemma end_to_end_edited_by_number : forall h ss os parsed ed p r s u,
  build_full h ss = Ok os -> NoDup (map onum (edit_items (view parsed os) ed)) ->
  In (p, r) ed -> 0 <= p -> nth_error ss (Z.to_nat p) = Some s ->
  exists o, get_group_obj (edit_items (view parsed os) ed) (Some (spec_number r s)) u = Ok o /\
            holds parsed (renumber_spec r s) o /\ onum o = spec_number r s.
Proof.
  intros h ss os parsed ed p r s u H Hnd He Hp Hs. destruct (object_holds h ss os parsed H) as (HF & _).
  destruct (Forall2_nth_l _ _ _ _ _ HF Hs) as (x & Hx & Hh).
  set (o := match r with Some k => renumber k x | None => x end).
  assert (Hho : holds parsed (renumber_spec r s) o).
  { unfold o. destruct r as [k|]; [now apply holds_renumber|exact Hh]. }
  assert (Hin : In o (edit_items (view parsed os) ed)).
  { unfold edit_items. apply in_flat_map. exists (p, r). split; [exact He|].
    rewrite (edit_pick_intro renumber _ (p, r) x Hp Hx). now left. }
  exists o. split; [|split; [exact Hho|exact (holds_number _ _ _ Hho)]].
  unfold spec_number. rewrite <- (holds_number _ _ _ Hho). now apply obj_by_number_complete.
Qed.

(* the group handed back for number k on ANY rearranged instance carries k and holds the data
   of the group it was made from (no hypothesis on the numbers) *)
Lemma end_to_end_edited_sound : forall h ss os parsed ed k u o,
  build_full h ss = Ok os -> get_group_obj (edit_items (view parsed os) ed) (Some k) u = Ok o ->
  onum o = k /\
  exists p r s, In (p, r) ed /\ 0 <= p /\ nth_error ss (Z.to_nat p) = Some s /\ holds parsed (renumber_spec r s) o.
Proof.
  intros h ss os parsed ed k u o H Hg. destruct (obj_by_number_sound _ _ _ _ Hg) as (Hin & Hk).
  split; [exact Hk|]. exact (edited_holds h ss os parsed ed o H Hin).
Qed.

Lemma end_to_end_edited_number_missing : forall h ss os parsed ed k u,
  build_full h ss = Ok os -> ~ In k (map onum (edit_items (view parsed os) ed)) ->
  get_group_obj (edit_items (view parsed os) ed) (Some k) u = Err VE.
Proof. intros h ss os parsed ed k u _ Hk. now apply obj_by_number_absent. Qed.

(* the numbers carried by the rearranged sequence, from the specification alone *)
Lemma edited_numbers : forall h ss os parsed ed, build_full h ss = Ok os ->
  map onum (edit_items (view parsed os) ed) =
  flat_map (fun e => if fst e <? 0 then [] else
                     match nth_error ss (Z.to_nat (fst e)) with
                     | Some s => [spec_number (snd e) s]
                     | None => []
                     end) ed.
Proof.
  intros h ss os parsed ed H. destruct (object_holds h ss os parsed H) as (HF & _).
  unfold edit_items. induction ed as [|[p r] t IH]; [reflexivity|].
  cbn [flat_map]. rewrite map_app, IH. f_equal. cbn [fst snd]. unfold edit_pick. cbn [fst snd].
  destruct (p <? 0); [reflexivity|].
  destruct (nth_error ss (Z.to_nat p)) as [s|] eqn:Es.
  - destruct (Forall2_nth_l _ _ _ _ _ HF Es) as (x & -> & Hh). cbn [map]. f_equal.
    assert (Hho : holds parsed (renumber_spec r s) (match r with Some k => renumber k x | None => x end)).
    { destruct r as [k|]; [now apply holds_renumber|exact Hh]. }
    exact (holds_number _ _ _ Hho).
  - assert (En : nth_error (view parsed os) (Z.to_nat p) = None).
    { apply nth_error_None. rewrite <- (Forall2_len _ _ _ HF). now apply nth_error_None. }
    rewrite En. reflexivity.
Qed.

(* not rearranged = the constructed instance *)
Lemma edit_items_identity : forall (os : list gobj),
  edit_items os (map (fun i => (Z.of_nat i, None)) (seq 0 (length os))) = os.
Proof.
  intros os. unfold edit_items.
  assert (G : forall pre l, flat_map (edit_pick renumber (pre ++ l))
                (map (fun i => (Z.of_nat i, None)) (seq (length pre) (length l))) = l).
  { intros pre l. revert pre. induction l as [|x t IH]; intros pre; [reflexivity|].
    cbn [length seq map flat_map]. unfold edit_pick at 1. cbn [fst snd].
    replace (Z.of_nat (length pre) <? 0) with false by lia. rewrite Nat2Z.id.
    rewrite nth_error_app2 by lia. rewrite Nat.sub_diag. cbn [nth_error app]. f_equal.
    specialize (IH (pre ++ [x])). rewrite <- app_assoc in IH. cbn [app] in IH.
    rewrite app_length in IH. cbn [length] in IH. rewrite Nat.add_1_r in IH. exact IH. }
  exact (G [] os).
Qed.
