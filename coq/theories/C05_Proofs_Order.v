(* C05 - proofs about the ORDER of a batch: get_stored_frames / get_frames (transforms off) answer the
   request position by position - any order, any repeats, any length - through every route (in-memory
   image in any cache state, lazily read image in any coherent cache state), reject exactly the requests
   that contain a number outside the image, and commute with every re-ordering / selection of the
   request. *)
From Coq Require Import String ZArith List Bool Lia ZifyBool Arith.
From HD Require Import Base.Val Base.ListZ C05_Model C05_Proofs C05_Proofs_State C05_Proofs_Ext C05_Proofs_Lazy.
Import ListNotations.
Open Scope Z_scope.
Ltac Zify.zify_post_hook ::= Z.to_euclidean_division_equations.

(* ---- sequence, position by position ---- *)
Lemma sequence_nth : forall {A B} (g : A -> res B) (l : list A) out d e,
  sequence (map g l) = Ok out ->
  length out = length l /\ forall k, (k < length l)%nat -> g (nth k l d) = Ok (nth k out e).
Proof.
  induction l as [|x l IH]; intros out d e H; cbn [map sequence] in H.
  - inversion H. split; [reflexivity|]. intros k Hk. cbn [length] in Hk. lia.
  - destruct (g x) as [a|k'] eqn:G; cbn [bind] in H; [|discriminate].
    destruct (sequence (map g l)) as [b|k'] eqn:S; cbn [bind] in H; [|discriminate].
    inversion H; subst out. destruct (IH b d e eq_refl) as [L N].
    split; [cbn [length]; now rewrite L|].
    intros [|k] Hk; cbn [nth]; [exact G|]. apply N. cbn [length] in Hk. lia.
Qed.

Lemma sequence_err : forall {A B} (g : A -> res B) (l : list A) k,
  sequence (map g l) = Err k -> exists x, In x l /\ g x = Err k.
Proof.
  induction l as [|x l IH]; intros k H; cbn [map sequence] in H; [discriminate|].
  destruct (g x) as [a|k'] eqn:G; cbn [bind] in H.
  - destruct (sequence (map g l)) as [b|k''] eqn:S; cbn [bind] in H; [discriminate|].
    inversion H; subst k''. destruct (IH k eq_refl) as (y & Hy & Gy). exists y. split; [now right|exact Gy].
  - inversion H; subst k'. exists x. split; [now left|exact G].
Qed.

Lemma sequence_total : forall {A B} (g : A -> res B) (l : list A),
  (forall x, In x l -> exists b, g x = Ok b) -> exists out, sequence (map g l) = Ok out.
Proof.
  induction l as [|x l IH]; intros H; cbn [map sequence]; [now exists []|].
  destruct (H x (or_introl eq_refl)) as (b & G). rewrite G. cbn [bind].
  destruct (IH (fun y Hy => H y (or_intror Hy))) as (out & S). rewrite S. cbn [bind]. now exists (b :: out).
Qed.

Lemma ref_one_err : forall c pd f ai k, ref_one c pd f ai = Err k ->
  k = "IndexError"%string /\ std_index (f_frames (c_fmt c)) f ai = Err "IndexError"%string.
Proof.
  intros c pd f ai k H. unfold ref_one in H.
  destruct (index_total (f_frames (c_fmt c)) f ai) as [(i & E & _) | E]; rewrite E in H; cbn [bind] in H.
  - discriminate.
  - inversion H. split; [reflexivity|exact E].
Qed.

(* ---- the routes ---- *)
(* r is what every batch route answers for the request fs: get_stored_frames and get_frames (transforms
   off) on the in-memory image whatever is cached, and on the lazily read image in any coherent cache
   state (nothing cached, the array of the current description cached, a stale array cached) *)
Definition batch_routes (c : cfmt) (pd : list Z) (fs : list Z) (ai : bool) (r : res (list (list Z))) : Prop :=
  (forall cache, snd (st_batch (Img c pd cache) fs ai) = r) /\
  (forall cache, snd (st_frames (Img c pd cache) fs ai) = r) /\
  (forall st, lcontent st = (c, pd) -> lcoherent st ->
     snd (lz_batch st fs ai) = r /\ snd (lz_frames st fs ai) = r).

Lemma batch_routes_ref : forall c pd fs ai, valid_c c -> enough (c_fmt c) pd ->
  batch_routes c pd fs ai (ref_batch c pd fs ai).
Proof.
  intros c pd fs ai Hv He. split; [|split].
  - intros cache. exact (proj1 (st_batch_spec fs (Img c pd cache) ai Hv He)).
  - intros cache. rewrite st_frames_eq. exact (proj1 (st_batch_spec fs (Img c pd cache) ai Hv He)).
  - intros st Hc Hco. unfold lcontent in Hc. inversion Hc as [[Ec Ep]].
    assert (Hv' : valid_c (l_c st)) by now rewrite Ec.
    assert (He' : enough (c_fmt (l_c st)) (l_pd st)) by now rewrite Ec, Ep.
    rewrite lz_frames_eq. rewrite (proj1 (lz_batch_spec fs st ai Hv' He' Hco)). now rewrite Ec, Ep.
Qed.

Lemma batch_routes_unique : forall c pd fs ai r, valid_c c -> enough (c_fmt c) pd ->
  batch_routes c pd fs ai r -> r = ref_batch c pd fs ai.
Proof.
  intros c pd fs ai r Hv He (H1 & _). rewrite <- (H1 None).
  exact (proj1 (st_batch_spec fs (Img c pd None) ai Hv He)).
Qed.

(* ---- the batch, position by position ---- *)
Lemma batch_in_request_order : forall c pd fs ai, valid_c c -> enough (c_fmt c) pd -> fs <> [] ->
  let n := f_frames (c_fmt c) in
  exists r, batch_routes c pd fs ai r /\
    (forall out, r = Ok out ->
       length out = length fs /\
       forall k, (k < length fs)%nat -> answer c pd (nth k fs 0) ai = Ok (nth k out [])) /\
    ((exists f, In f fs /\ std_index n f ai = Err "IndexError"%string) <-> r = Err "IndexError"%string) /\
    ((forall f, In f fs -> exists i, std_index n f ai = Ok i) <-> exists out, r = Ok out).
Proof.
  intros c pd fs ai Hv He Hne n. exists (ref_batch c pd fs ai).
  split; [now apply batch_routes_ref|].
  assert (R : ref_batch c pd fs ai = sequence (map (fun f => ref_one c pd f ai) fs))
    by (destruct fs; [contradiction|reflexivity]).
  rewrite R. split; [|split].
  - intros out H. exact (sequence_nth (fun f => ref_one c pd f ai) fs out 0 [] H).
  - split.
    + intros (f & Hin & E).
      destruct (sequence (map (fun f0 => ref_one c pd f0 ai) fs)) as [out|k] eqn:S.
      * destruct (In_nth fs f 0 Hin) as (j & Hj & Nj).
        pose proof (proj2 (sequence_nth _ fs out 0 [] S) j Hj) as G. cbv beta in G. rewrite Nj in G.
        unfold ref_one in G. fold n in G. rewrite E in G. discriminate.
      * destruct (sequence_err _ fs k S) as (x & _ & G). cbv beta in G.
        destruct (ref_one_err c pd x ai k G) as [-> _]. reflexivity.
    + intros S. destruct (sequence_err _ fs _ S) as (x & Hin & G). cbv beta in G.
      exists x. split; [exact Hin|]. exact (proj2 (ref_one_err c pd x ai _ G)).
  - split.
    + intros H. apply sequence_total. intros x Hin. destruct (H x Hin) as (i & E).
      unfold ref_one. fold n. rewrite E. cbn [bind]. eexists; reflexivity.
    + intros (out & S) f Hin. destruct (In_nth fs f 0 Hin) as (j & Hj & Nj).
      pose proof (proj2 (sequence_nth _ fs out 0 [] S) j Hj) as G. cbv beta in G. rewrite Nj in G.
      unfold ref_one in G. fold n in G. destruct (std_index n f ai) as [i|k]; [now exists i|discriminate].
Qed.

(* ---- re-ordering / selecting the request re-orders / selects the answer ---- *)
(* p lists positions of the original request (any order, any repeats, any length >= 1): asking for the
   numbers at those positions returns the frames at those positions *)
Definition select {A} (d : A) (p : list nat) (l : list A) : list A := map (fun k => nth k l d) p.

Lemma batch_reorder : forall c pd fs ai p out r r', valid_c c -> enough (c_fmt c) pd ->
  p <> [] -> (forall k, In k p -> (k < length fs)%nat) ->
  batch_routes c pd fs ai r -> batch_routes c pd (select 0 p fs) ai r' ->
  r = Ok out -> r' = Ok (select [] p out).
Proof.
  intros c pd fs ai p out r r' Hv He Hp Hk Hr Hr' Hout.
  rewrite (batch_routes_unique _ _ _ _ _ Hv He Hr) in Hout.
  rewrite (batch_routes_unique _ _ _ _ _ Hv He Hr').
  assert (Hne : fs <> []) by (intro E; subst fs; discriminate Hout).
  assert (R : ref_batch c pd fs ai = sequence (map (fun f => ref_one c pd f ai) fs))
    by (destruct fs; [contradiction|reflexivity]).
  rewrite R in Hout.
  destruct (sequence_nth _ fs out 0 [] Hout) as [_ N].
  assert (R' : ref_batch c pd (select 0 p fs) ai = sequence (map (fun f => ref_one c pd f ai) (select 0 p fs))).
  { unfold select. destruct p; [contradiction|reflexivity]. }
  rewrite R'. unfold select. rewrite map_map.
  apply (sequence_all_ok (fun k => ref_one c pd (nth k fs 0) ai) (fun k => nth k out [])).
  intros k Hin. exact (N k (Hk k Hin)).
Qed.

(* ---- get_frames with the transforms off IS get_stored_frames ---- *)
Lemma frames_is_stored_frames : forall fs ai,
  (forall st, st_frames st fs ai = st_batch st fs ai) /\ (forall st, lz_frames st fs ai = lz_batch st fs ai).
Proof. intros fs ai. split; intros st; [apply st_frames_eq|apply lz_frames_eq]. Qed.

(* non-vacuity: three 8-bit frames of one pixel, the rotated request 2, 3, 1 and the request 3, 3, 1, 3 *)
Definition ord_c : cfmt := CFmt (Fmt 8 8 false 1 3) 1 false 1.
Definition ord_pd : list Z := [10; 20; 30; 0].
Lemma example_batch_order :
  valid_c ord_c /\ enough (c_fmt ord_c) ord_pd /\
  batch_routes ord_c ord_pd [2; 3; 1] false (Ok [[20]; [30]; [10]]) /\
  batch_routes ord_c ord_pd (select 0 [1%nat; 1%nat; 2%nat; 1%nat] [2; 3; 1]) false (Ok [[30]; [30]; [10]; [30]]) /\
  batch_routes ord_c ord_pd [2; 4; 1] false (Err "IndexError"%string).
Proof.
  assert (Hv : valid_c ord_c).
  { unfold valid_c, valid_fmt, ord_c. cbn [c_fmt c_planar f_bits f_npx f_frames].
    repeat split; try (vm_compute; congruence); auto; try discriminate. }
  assert (He : enough (c_fmt ord_c) ord_pd).
  { unfold enough, ord_c, ord_pd. cbn [c_fmt f_bits f_npx f_frames]. vm_compute. congruence. }
  split; [exact Hv|]. split; [exact He|].
  split; [|split].
  - replace (Ok [[20]; [30]; [10]]) with (ref_batch ord_c ord_pd [2; 3; 1] false) by (vm_compute; reflexivity).
    now apply batch_routes_ref.
  - replace (Ok [[30]; [30]; [10]; [30]])
      with (ref_batch ord_c ord_pd (select 0 [1%nat; 1%nat; 2%nat; 1%nat] [2; 3; 1]) false) by (vm_compute; reflexivity).
    now apply batch_routes_ref.
  - replace (Err "IndexError"%string) with (ref_batch ord_c ord_pd [2; 4; 1] false) by (vm_compute; reflexivity).
    now apply batch_routes_ref.
Qed.
