(* C20 - proofs, part 3: SOPClass.__init__ (file meta carries the identifiers,
   every stored LO value is writable, error characterisation), several objects
   of one call end to end, the segment-plane kernel (no write through a view of
   the caller's array; value ranges), converter tables end to end, constructor
   bodies. *)
From Coq Require Import String ZArith List Bool Lia ZifyBool.
From HD Require Import Base.Val C20_Model C20_Proofs C20_Proofs_Str.
Import ListNotations.
Open Scope Z_scope.
Ltac Zify.zify_post_hook ::= Z.to_euclidean_division_equations.

(* ------------------------------------------------------------ SOPClass *)
Definition lo_present_valid (o : option str) : Prop :=
  forall s, o = Some s -> pydicom_valid LO s = true /\ hd_guard LO s = true.

Lemma lo_ok_valid o : lo_ok o = true -> lo_present_valid o.
Proof.
  intros H s ->. cbn [lo_ok] in H. split; [apply guard_implies_valid|]; exact H.
Qed.

Ltac sop_step H :=
  match type of H with
  | context [if negb ?b then _ else _] =>
      let E := fresh "G" in destruct b eqn:E; cbn [negb] in H; [|discriminate]
  | context [if ?b then Err _ else _] =>
      let E := fresh "G" in destruct b eqn:E; [discriminate|]
  end.

(* what an accepted call builds *)
Lemma sop_init_ok a o : sop_init a = Ok o ->
  fm_instance o = a_instance a /\ ds_instance o = a_instance a /\
  fm_class o = a_class a /\ ds_class o = a_class a /\
  ds_study o = a_study a /\ ds_series o = a_series a /\
  ts_le (fm_ts o) = true /\ (1 <= fm_ts o <= 5) /\ (a_ts a = 0 -> fm_ts o = 1) /\
  a_series_number a = Some (ds_series_number o) /\ 1 <= ds_series_number o /\
  a_instance_number a = Some (ds_instance_number o) /\ 1 <= ds_instance_number o /\
  (forall v, In v (ds_lo o) -> lo_present_valid v) /\
  (forall v, ds_sex o = Some v -> 1 <= v <= 3) /\
  (forall v, ds_qualification o = Some v -> 1 <= v <= 3) /\
  sop_accepts a = true.
Proof.
  unfold sop_init. intros H.
  do 3 sop_step H.
  destruct (a_series_number a) as [sn|] eqn:Esn; [|discriminate].
  do 8 sop_step H.
  destruct (a_instance_number a) as [inn|] eqn:Einn; [|discriminate].
  do 2 sop_step H.
  inversion H; subst o; clear H. cbn [fm_instance ds_instance fm_class ds_class ds_study ds_series fm_ts
    ds_series_number ds_instance_number ds_lo ds_sex ds_qualification].
  assert (Hts : ts_le (ts_stored (a_ts a)) = true /\ 1 <= ts_stored (a_ts a) <= 5 /\
                (a_ts a = 0 -> ts_stored (a_ts a) = 1)).
  { unfold ts_known, ts_le, ts_stored in *. destruct (a_ts a =? 0) eqn:E0; lia. }
  destruct Hts as (T1 & T2 & T3).
  repeat match goal with |- _ /\ _ => split end; auto; try lia.
  - intros v [<- | [<- | [<- | [<- | [<- | [<- | [<- | []]]]]]]]; try (apply lo_ok_valid; assumption).
    destruct (a_institution a); [apply lo_ok_valid; assumption | intros s Hs; discriminate].
  - intros v Hv. unfold enum_ok in G1. destruct (a_sex a) as [x|]; [|discriminate].
    destruct (Z.eq_dec x 0) as [->|Hx]; [discriminate|].
    assert (x = v) by (destruct x; congruence). subst. lia.
  - intros v Hv. rewrite Hv in G11. cbn [enum_ok] in G11. lia.
  - unfold sop_accepts. rewrite G, G0, G1, Esn, G3, G4, G5, G6, G7, G8, G9, Einn, G11.
    replace (1 <=? sn) with true by lia. replace (1 <=? inn) with true by lia. reflexivity.
Qed.

(* DESIGN 5-C20 file_meta_carries *)
Lemma file_meta_carries a o : sop_init a = Ok o ->
  fm_instance o = ds_instance o /\ fm_class o = ds_class o /\
  ds_instance o = a_instance a /\ ds_class o = a_class a /\ ts_le (fm_ts o) = true.
Proof.
  intros H. destruct (sop_init_ok a o H) as (H1 & H2 & H3 & H4 & _ & _ & H5 & _).
  repeat split; congruence.
Qed.

(* accepted iff every guard holds; refused with ValueError or TypeError only,
   TypeError exactly when the first failing guard is a missing number *)
Lemma sop_init_accepts a : (exists o, sop_init a = Ok o) <-> sop_accepts a = true.
Proof.
  split.
  - intros [o H]. apply (sop_init_ok a o H).
  - unfold sop_accepts, sop_init. intros H.
    repeat (apply andb_true_iff in H; destruct H as [H ?]).
    destruct (a_series_number a) as [sn|]; [|discriminate].
    destruct (a_instance_number a) as [inn|]; [|discriminate].
    assert (Hk : ts_known (a_ts a) = true) by (unfold ts_known; lia).
    repeat match goal with Hx : ?b = true |- context [negb ?b] => rewrite Hx; cbn [negb] end.
    replace (sn <? 1) with false by lia. replace (inn <? 1) with false by lia.
    eexists. reflexivity.
Qed.

Lemma sop_init_err_kind a k : sop_init a = Err k ->
  sop_accepts a = false /\
  (k = "ValueError"%string \/
   (k = "TypeError"%string /\ (a_series_number a = None \/ a_instance_number a = None))).
Proof.
  intros H. split.
  - destruct (sop_accepts a) eqn:E; [|reflexivity].
    apply sop_init_accepts in E. destruct E as [o E]. congruence.
  - unfold sop_init in H.
    repeat match type of H with
    | (if ?b then _ else _) = _ => destruct b; [inversion H; auto|]
    | match ?x with Some _ => _ | None => _ end = _ => destruct x; [|inversion H; auto]
    end. discriminate.
Qed.

(* a missing series number is reported as TypeError exactly when the guards in
   front of it hold (the order of the checks is part of the behaviour) *)
Lemma sop_init_series_number_missing a : a_series_number a = None ->
  sop_init a = Err (if ts_known (a_ts a) && ts_le (a_ts a) && enum_ok 3 true (a_sex a)
                    then "TypeError" else "ValueError")%string.
Proof.
  intros E. unfold sop_init. rewrite E.
  destruct (ts_known (a_ts a)), (ts_le (a_ts a)), (enum_ok 3 true (a_sex a)); reflexivity.
Qed.

(* -------------------------------------- several objects of one call *)
Lemma with_instance_accepts a u : sop_accepts (with_instance a u) = sop_accepts a.
Proof. reflexivity. Qed.

Lemma build_levels_spec a : forall ids objs, build_levels a ids = Ok objs ->
  map fm_instance objs = ids /\ map ds_instance objs = ids /\
  (forall o, In o objs -> fm_class o = a_class a /\ ds_class o = a_class a /\ ts_le (fm_ts o) = true).
Proof.
  induction ids as [|u r IH]; intros objs H; cbn [build_levels] in H.
  - inversion H. repeat split; contradiction.
  - destruct (sop_init (with_instance a u)) as [o|] eqn:Eo; cbn [bind] in H; [|discriminate].
    destruct (build_levels a r) as [os|] eqn:Er; cbn [bind] in H; [|discriminate].
    inversion H; subst objs. destruct (IH os eq_refl) as (I1 & I2 & I3).
    destruct (sop_init_ok _ _ Eo) as (H1 & H2 & H3 & H4 & _ & _ & H5 & _).
    cbn [with_instance a_instance a_class] in *. cbn [map]. rewrite I1, I2, H1, H2.
    split; [reflexivity|]. split; [reflexivity|].
    intros o' [<- | Hin]; [auto | apply I3; exact Hin].
Qed.

Lemma build_levels_total a : sop_accepts a = true -> forall ids, exists objs, build_levels a ids = Ok objs.
Proof.
  intros Ha. induction ids as [|u r [os IH]]; [eexists; reflexivity|].
  cbn [build_levels]. destruct (proj2 (sop_init_accepts (with_instance a u))) as [o Ho]; [exact Ha|].
  rewrite Ho, IH. eexists. reflexivity.
Qed.

(* the property sentence for one call that builds n objects and draws their
   identifiers itself: n objects; their identifiers are valid, pairwise distinct
   and are what each object's file meta information carries *)
Theorem levels_end_to_end a n draws : NoDup draws -> (forall d, In d draws -> 0 <= d < 10 ^ 35) ->
  0 <= n <= Z.of_nat (length draws) -> sop_accepts a = true ->
  exists ids objs, alloc_ids n None draws = Ok ids /\ build_levels a ids = Ok objs /\
    Z.of_nat (length objs) = n /\
    map fm_instance objs = map ds_instance objs /\
    NoDup (map fm_instance objs) /\
    (forall o, In o objs -> uid_valid (fm_instance o) = true /\ fm_instance o = ds_instance o /\
                            fm_class o = ds_class o /\ ts_le (fm_ts o) = true).
Proof.
  intros Hnd Hr Hn Ha.
  destruct (alloc_ids_fresh n draws Hnd Hr Hn) as (ids & Hal & Hlen & Hnd' & Hval & _).
  destruct (build_levels_total a Ha ids) as [objs Hb].
  destruct (build_levels_spec a ids objs Hb) as (S1 & S2 & S3).
  assert (E : forall l : list sop_obj, map fm_instance l = map ds_instance l ->
               forall x, In x l -> fm_instance x = ds_instance x).
  { induction l as [|y l IHl]; intros Hm x Hx; [contradiction|].
    cbn [map] in Hm. inversion Hm. destruct Hx as [<- | Hx]; auto. }
  exists ids, objs.
  split; [exact Hal|]. split; [exact Hb|].
  split; [rewrite <- Hlen, <- S1, map_length; reflexivity|].
  split; [congruence|].
  split; [rewrite S1; exact Hnd'|].
  intros o Ho. split; [|split; [|split]].
  - apply Hval. rewrite <- S1. apply in_map. exact Ho.
  - apply (E objs); [congruence | exact Ho].
  - destruct (S3 o Ho) as (C1 & C2 & _). congruence.
  - apply (S3 o Ho).
Qed.

(* ------------------------------------------------------ segment planes *)
Lemma run_ops_no_inplace : forall ops o, ~ In OInplace ops -> snd (run_ops o ops) = false.
Proof.
  induction ops as [|op r IH]; intros o Hn; [reflexivity|].
  cbn [run_ops]. destruct (run_ops (match op with OCopy => Fresh | _ => o end) r) as [o2 w2] eqn:E.
  cbn [snd]. assert (w2 = false).
  { specialize (IH (match op with OCopy => Fresh | _ => o end)). rewrite E in IH. apply IH.
    intros Hi. apply Hn. now right. }
  subst. destruct op; try reflexivity. exfalso. apply Hn. now left.
Qed.

Lemma run_ops_fresh : forall ops, run_ops Fresh ops = (Fresh, false).
Proof.
  induction ops as [|op r IH]; [reflexivity|]. cbn [run_ops].
  replace (match op with OCopy => Fresh | _ => Fresh end) with Fresh by (destruct op; reflexivity).
  rewrite IH. destruct op; reflexivity.
Qed.

(* an in-place operation reaches the caller's buffer exactly when no copy precedes it *)
Lemma run_ops_writes_iff : forall ops, snd (run_ops View ops) = true <->
  exists pre post, ops = pre ++ OInplace :: post /\ ~ In OCopy pre.
Proof.
  induction ops as [|op r IH].
  - split; [discriminate|]. intros (pre & post & E & _). destruct pre; discriminate.
  - cbn [run_ops]. destruct op.
    + destruct (run_ops View r) as [o2 w2] eqn:E. cbn [snd orb] in *. rewrite IH. split.
      * intros (pre & post & -> & Hn). exists (OKeep :: pre), post. split; [reflexivity|].
        intros [Hc | Hc]; [discriminate | auto].
      * intros (pre & post & Eq & Hn). destruct pre as [|p pre]; [discriminate|]. inversion Eq; subst.
        exists pre, post. split; [reflexivity|]. intros Hc. apply Hn. now right.
    + destruct (run_ops View r) as [o2 w2] eqn:E. cbn [snd orb] in *. rewrite IH. split.
      * intros (pre & post & -> & Hn). exists (OSlice :: pre), post. split; [reflexivity|].
        intros [Hc | Hc]; [discriminate | auto].
      * intros (pre & post & Eq & Hn). destruct pre as [|p pre]; [discriminate|]. inversion Eq; subst.
        exists pre, post. split; [reflexivity|]. intros Hc. apply Hn. now right.
    + rewrite run_ops_fresh. cbn [snd orb]. split; [discriminate|].
      intros (pre & post & Eq & Hn). destruct pre as [|p pre]; [discriminate|]. inversion Eq; subst.
      exfalso. apply Hn. now left.
    + destruct (run_ops View r) as [o2 w2]. cbn [snd orb]. split; [|reflexivity].
      intros _. exists [], r. split; [reflexivity | intros []].
Qed.

Lemma plane_ops_no_inplace c : ~ In OInplace (plane_ops c).
Proof.
  unfold plane_ops, plane_ops_gen. destruct c as [[] [] [] [] [] []]; cbn; intuition discriminate.
Qed.

Lemma cast_ops_no_inplace c : ~ In OInplace (cast_ops c).
Proof.
  unfold cast_ops. destruct c as [[] t [] []]; cbn [c_float c_type c_ndim4 c_one andb negb];
    destruct (t =? 1), (t =? 2); cbn; intuition discriminate.
Qed.

(* DESIGN 5-C20 no_write_through_view *)
Theorem no_write_through_view c : snd (run_ops View (plane_ops c)) = false.
Proof. apply run_ops_no_inplace. apply plane_ops_no_inplace. Qed.

Theorem ctor_chain_no_write c1 c2 : snd (run_ops View (ctor_chain c1 c2)) = false.
Proof.
  apply run_ops_no_inplace. unfold ctor_chain. intros H.
  apply in_app_or in H. destruct H as [H | H]; [exact (cast_ops_no_inplace c1 H)|].
  apply in_app_or in H. destruct H as [[H | []] | H]; [discriminate | exact (plane_ops_no_inplace c2 H)].
Qed.

(* the kernel before the fix (in-place scaling) wrote into the caller's array:
   integer stack of segments that already has the output type, FRACTIONAL,
   max_fractional_value <> 1 *)
Theorem plane_ops_old_writes_iff c : snd (run_ops View (plane_ops_old c)) = true <->
  p_float c = false /\ p_fractional c = true /\ p_mfv1 c = false /\
  p_dtype_eq c = true /\ (p_ndim3 c = true \/ p_single1 c = true).
Proof.
  destruct c as [[] [] [] [] [] []]; vm_compute; intuition discriminate.
Qed.

(* when the returned plane still is (a view of) the caller's array *)
Theorem plane_result_view_iff c : fst (run_ops View (plane_ops c)) = View <->
  p_float c = false /\ p_dtype_eq c = true /\ (p_ndim3 c = true \/ p_single1 c = true) /\
  (p_fractional c = false \/ p_mfv1 c = true).
Proof.
  destruct c as [[] [] [] [] [] []]; vm_compute; intuition discriminate.
Qed.

(* values *)
Lemma rhe_bounds n d lo hi : 0 < d -> lo * d <= n <= hi * d -> lo <= rhe n d <= hi.
Proof.
  intros Hd Hn. unfold rhe.
  destruct (2 * (n mod d) <? d) eqn:E1; [nia|].
  assert (n mod d <> 0) by lia.
  assert (n / d < hi) by nia.
  destruct (d <? 2 * (n mod d)); [nia|]. destruct (Z.even (n / d)); nia.
Qed.

Lemma rhe_exact k d : 0 < d -> rhe (k * d) d = k.
Proof.
  intros Hd. unfold rhe. rewrite Z.div_mul, Z.mod_mul by lia.
  replace (2 * 0 <? d) with true by lia. reflexivity.
Qed.

(* every value of an encoded plane fits the 8-bit output type: floats in [0, 1]
   map into [0, max_fractional_value]; binary integer input maps to {0, 1} or
   {0, max_fractional_value}; label maps to {0, 1} (times the scale) *)
Theorem plane_value_range c seg mfv px : 1 <= mfv <= 255 -> (p_mfv1 c = true -> mfv = 1) ->
  (p_float c = true -> forall v, In v px -> 0 <= v <= 4) ->
  (p_float c = false -> forall v, In v px -> 0 <= v <= 1 \/ (p_ndim3 c = false /\ p_single1 c = false)) ->
  0 <= plane_value c seg mfv px <= mfv.
Proof.
  intros Hm H1 Hf Hi. unfold plane_value.
  set (ch := if p_ndim3 c then nth (Z.to_nat (seg - 1)) px 0 else hd 0 px).
  assert (Hch : ch = 0 \/ In ch px).
  { subst ch. destruct (p_ndim3 c).
    - destruct (nth_in_or_default (Z.to_nat (seg - 1)) px 0); auto.
    - destruct px; cbn; auto. }
  destruct (p_float c) eqn:Efl.
  - apply rhe_bounds; [lia|]. destruct Hch as [-> | Hin]; [lia|]. specialize (Hf eq_refl ch Hin). nia.
  - assert (Hb : 0 <= (if p_ndim3 c then ch else if p_single1 c then ch else if ch =? seg then 1 else 0) <= 1).
    { destruct Hch as [-> | Hin].
      - destruct (p_ndim3 c), (p_single1 c); try lia. destruct (0 =? seg); lia.
      - destruct (Hi eq_refl ch Hin) as [Hr | [-> ->]]; [|destruct (ch =? seg); lia].
        destruct (p_ndim3 c), (p_single1 c); try lia. destruct (ch =? seg); lia. }
    destruct (p_fractional c && negb (p_mfv1 c)); nia.
Qed.

(* a float plane that only holds 0.0 and 1.0 is stored as 0 and max_fractional_value *)
Lemma plane_value_float_binary c seg mfv px : p_float c = true -> p_ndim3 c = false ->
  forall b, px = [4 * b] -> plane_value c seg mfv px = b * mfv.
Proof.
  intros Hf Hn b ->. unfold plane_value. rewrite Hf, Hn. cbn [hd].
  replace (4 * b * mfv) with (b * mfv * 4) by ring. apply rhe_exact. lia.
Qed.

(* --------------------------------------------- converter tables end to end *)
Close Scope Z_scope.
Open Scope nat_scope.

(* The property sentence for the converters, for a whole generated table: if
   [all_ok] accepts the table then for EVERY converter in it and every
   execution: with copying no caller-owned object changes (also when an
   exception escapes) and the result is not one of the caller's objects;
   without copying (converters that return their argument) the result is the
   argument itself *)
Theorem table_sound tb : all_ok tb = true ->
  forall c m, In (c, m) tb ->
  exists sm, tlookup (summaries tb) (cname c) = Some sm /\
  (smode sm <> MInPlace ->
     forall e h r e' h', all_O h -> exec (tlookup (summaries tb)) true (cbody c) e h r e' h' ->
     (forall a o, get h a = Some o -> get h' a = Some o) /\
     (r = true -> forall o, get h' (e' (cret c)) = Some o -> length h <= e' (cret c))) /\
  (smode sm = MStd \/ smode sm = MInPlace ->
     forall e h e' h', exec (tlookup (summaries tb)) false (cbody c) e h true e' h' -> e' (cret c) = e 0).
Proof.
  intros Hall c m Hin. unfold all_ok in Hall. rewrite forallb_forall in Hall.
  specialize (Hall (c, m) Hin). cbn [fst] in Hall.
  set (ms := tlookup (summaries tb)) in *.
  destruct (ms (cname c)) as [sm|] eqn:Em; [|unfold ok in Hall; rewrite Em in Hall; discriminate].
  exists sm. split; [reflexivity|].
  pose proof (ok_sound ms c sm Em Hall) as [Hc Hs]. split; [|exact Hs].
  intros Hne e h r e' h' HO E.
  assert (Hoc : ok_copy ms sm c = true).
  { unfold ok in Hall. rewrite Em in Hall.
    destruct (smode sm); try (apply andb_true_iff in Hall; tauto); auto; congruence. }
  exact (ok_copy_caller_view ms sm c Hoc e h r e' h' HO E).
Qed.

(* ------------------------------------------------------ constructor bodies *)
(* [__init__(self, p1, .., pn)]: variable 0 is the object being built (new,
   reaches nothing of the caller), every other variable is a parameter about
   which nothing is assumed.  An accepted body never changes a caller-owned
   object - on normal return and when an exception escapes. *)

Theorem ctor_body_sound ms s : ok_ctor ms s = true ->
  forall e h r e' h', closedF h (e 0) -> exec ms true s e h r e' h' -> O_preserved h h'.
Proof.
  unfold ok_ctor. intros Hok e h r e' h' Hself E.
  destruct (check ms true s ctor_ae) as [ae|] eqn:C; [|discriminate].
  assert (S : sound_at (S (e 0)) h e ctor_ae).
  { intros v. unfold ctor_ae. cbn [lookup]. destruct (Nat.eqb v 0) eqn:Ev; cbn.
    - apply Nat.eqb_eq in Ev. subst. repeat split; intros; try discriminate; auto using closedF_rootF.
    - repeat split; intros; discriminate. }
  destruct (exec_sound _ _ _ _ _ _ _ _ _ E _ _ S C) as [O _]. apply O. reflexivity.
Qed.

Corollary ctor_body_caller_view ms s : ok_ctor ms s = true ->
  forall e h r e' h', closedF h (e 0) -> exec ms true s e h r e' h' ->
  forall a o, get h a = Some o -> otag o = TO -> get h' a = Some o.
Proof. intros Hok e h r e' h' Hs E a o Ha Ho. exact (ctor_body_sound ms s Hok e h r e' h' Hs E a o Ha Ho). Qed.
