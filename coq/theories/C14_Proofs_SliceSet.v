(* C14 - element-wise meaning of slice DELETION and extended-slice ASSIGNMENT of the model.
   C14_Model.v defines them by a position mask (unsel / replace_sel); here they are tied to the
   comprehensions / the loop that define them in CPython:
     del xs[a:b:c]      = [x for i, x in enumerate(xs) if i not in range(f, l, s)]
     xs[a:b:c] = vs     : len unchanged; for k in range(len(range(f,l,s))): xs[f + k*s] = vs[k];
                          every position outside range(f, l, s) keeps its item
   with (f, l, s) = slice(a, b, c).indices(len(xs)), for positive and negative steps, and lifted to
   the state machine (what an accepted SetSlice / DelSlice leaves in the sequence). *)
From Coq Require Import String ZArith List Bool Lia ZifyBool Permutation.
From HD Require Import Base.Val Base.PySlice C14_Model C14_Proofs C14_Proofs_Slice C14_Proofs_SliceNth
  C14_Proofs_Refine.
Import ListNotations.
Open Scope Z_scope.
Ltac Zify.zify_post_hook ::= Z.to_euclidean_division_equations.

(* enumerate(xs) *)
Definition enumerate (xs : list item) : list (nat * item) := combine (seq 0 (length xs)) xs.
(* list(range(f, l, s)) and `i in range(f, l, s)` *)
Definition py_range (f l s : Z) : list Z :=
  map (fun k => f + Z.of_nat k * s) (seq 0 (Z.to_nat (range_len f l s))).
Definition in_py_range (f l s i : Z) : bool := existsb (Z.eqb i) (py_range f l s).

Lemma in_py_range_selected f l s i : s <> 0 -> in_py_range f l s i = selected f l s i.
Proof.
  intros Hs. apply eq_iff_eq_true. unfold in_py_range, py_range.
  rewrite existsb_exists, (selected_iff_range f l s i Hs). split.
  - intros (x & Hin & E). apply in_map_iff in Hin. destruct Hin as (k & <- & Hk). apply in_seq in Hk.
    exists (Z.of_nat k). split; lia.
  - intros (k & Hk & ->). exists (f + k * s). split; [|lia]. apply in_map_iff. exists (Z.to_nat k).
    split; [rewrite Z2Nat.id by lia; reflexivity|apply in_seq; lia].
Qed.

(* ---- deletion --------------------------------------------------------------------------------- *)
Lemma unsel_enum (p : nat -> bool) : forall (l : list item) a,
  unsel (map p (seq a (length l))) l =
  map snd (filter (fun q => negb (p (fst q))) (combine (seq a (length l)) l)).
Proof.
  induction l as [|x l IH]; intros a; [reflexivity|]. cbn [length seq map unsel combine filter fst].
  destruct (p a); cbn [negb map snd]; rewrite IH; reflexivity.
Qed.

Lemma cut_enum (f m : nat) : (f <= m)%nat -> forall (l : list item) a,
  map snd (filter (fun q => (fst q <? f)%nat || (m <=? fst q)%nat) (combine (seq a (length l)) l)) =
  firstn (f - a) l ++ skipn (m - a) l.
Proof.
  intros Hfm. induction l as [|x l IH]; intros a.
  - cbn. now rewrite firstn_nil, skipn_nil.
  - cbn [length seq combine filter fst]. destruct (a <? f)%nat eqn:E1; cbn [orb].
    + cbn [map snd]. rewrite IH. replace (f - a)%nat with (S (f - S a)) by lia.
      replace (m - a)%nat with (S (m - S a)) by lia. reflexivity.
    + destruct (m <=? a)%nat eqn:E2.
      * cbn [map snd]. rewrite IH. replace (f - a)%nat with 0%nat by lia. replace (m - a)%nat with 0%nat by lia.
        replace (f - S a)%nat with 0%nat by lia. replace (m - S a)%nat with 0%nat by lia. reflexivity.
      * rewrite IH. replace (f - a)%nat with 0%nat by lia. replace (f - S a)%nat with 0%nat by lia.
        replace (m - a)%nat with (S (m - S a)) by lia. reflexivity.
Qed.

(* del xs[a:b:c] = [x for i, x in enumerate(xs) if i not in range(f, l, s)] *)
Theorem slice_del_comprehension start stop stp (xs : list item) f l s : stp <> 0 ->
  slice_indices start stop stp (zlen xs) = (f, l, s) ->
  slice_del f l s xs =
  map snd (filter (fun q => negb (in_py_range f l s (Z.of_nat (fst q)))) (enumerate xs)).
Proof.
  intros Hs E. assert (Es : s = stp) by (unfold slice_indices in E; inversion E; reflexivity). subst s.
  pose proof (zlen_nonneg xs) as Hn. unfold slice_del, enumerate. destruct (stp =? 1) eqn:E1.
  - assert (stp = 1) by lia. subst stp.
    destruct (slice_indices_pos_bounds start stop 1 (zlen xs) f l 1 ltac:(lia) Hn E) as [Hf Hl].
    rewrite (filter_ext _ (fun q => (fst q <? Z.to_nat f)%nat || (Z.to_nat (Z.max f l) <=? fst q)%nat)).
    + rewrite (cut_enum (Z.to_nat f) (Z.to_nat (Z.max f l)) ltac:(lia) xs 0). now rewrite !Nat.sub_0_r.
    + intros [i x]. cbn [fst]. rewrite in_py_range_selected by lia. unfold selected. cbn [Z.ltb Z.compare].
      rewrite Z.mod_1_r. apply eq_iff_eq_true. lia.
  - unfold mask. rewrite (unsel_enum (fun i => selected f l stp (Z.of_nat i)) xs 0). f_equal.
    apply filter_ext. intros [i x]. cbn [fst]. now rewrite in_py_range_selected.
Qed.

(* ---- extended-slice assignment ----------------------------------------------------------------- *)
Lemma replace_sel_length m : forall (l vs : list item), length (replace_sel m l vs) = length l.
Proof.
  induction m as [|b m IH]; intros [|x l] vs; try reflexivity. cbn [replace_sel].
  destruct b; [destruct vs|]; cbn [length]; rewrite IH; reflexivity.
Qed.

Lemma replace_sel_unselected (p : nat -> bool) (d : item) : forall (l : list item) a vs i,
  (a <= i < a + length l)%nat -> p i = false ->
  nth (i - a) (replace_sel (map p (seq a (length l))) l vs) d = nth (i - a) l d.
Proof.
  induction l as [|x l IH]; intros a vs i Hi Hp; [cbn [length] in Hi; lia|].
  cbn [length] in Hi. cbn [length seq map replace_sel].
  destruct (Nat.eq_dec i a) as [->|Hne].
  - rewrite Hp, Nat.sub_diag. reflexivity.
  - replace (i - a)%nat with (S (i - S a)) by lia.
    destruct (p a); [destruct vs|]; cbn [nth]; apply IH; try assumption; lia.
Qed.

Lemma filter_seq_ge (p : nat -> bool) a n j : (j < length (filter p (seq a n)))%nat ->
  (a <= nth j (filter p (seq a n)) 0%nat)%nat.
Proof.
  intros Hj. pose proof (nth_In _ 0%nat Hj) as H. apply filter_In in H. destruct H as [H _].
  apply in_seq in H. lia.
Qed.

Lemma replace_sel_selected (p : nat -> bool) (d : item) : forall (l : list item) a vs j,
  length vs = length (filter p (seq a (length l))) -> (j < length vs)%nat ->
  nth (nth j (filter p (seq a (length l))) 0%nat - a)%nat (replace_sel (map p (seq a (length l))) l vs) d =
  nth j vs d.
Proof.
  induction l as [|x l IH]; intros a vs j Hl Hj; [cbn in Hl; lia|].
  cbn [length seq map filter replace_sel] in *. destruct (p a) eqn:Ea.
  - destruct vs as [|v vs]; [cbn in Hl; lia|]. cbn [length] in Hl, Hj. destruct j as [|j].
    + cbn [nth]. rewrite Nat.sub_diag. reflexivity.
    + cbn [nth]. assert (Hj' : (j < length (filter p (seq (S a) (length l))))%nat) by lia.
      pose proof (filter_seq_ge p (S a) (length l) j Hj') as Hge.
      replace (nth j (filter p (seq (S a) (length l))) 0%nat - a)%nat
        with (S (nth j (filter p (seq (S a) (length l))) 0%nat - S a)) by lia.
      cbn [nth]. apply IH; lia.
  - assert (Hj' : (j < length (filter p (seq (S a) (length l))))%nat) by lia.
    pose proof (filter_seq_ge p (S a) (length l) j Hj') as Hge.
    replace (nth j (filter p (seq (S a) (length l))) 0%nat - a)%nat
      with (S (nth j (filter p (seq (S a) (length l))) 0%nat - S a)) by lia.
    cbn [nth]. apply IH; lia.
Qed.

Lemma nth_map_seq (g : nat -> nat) m j : (j < m)%nat -> nth j (map g (seq 0 m)) 0%nat = g j.
Proof.
  intros Hj. rewrite (nth_indep _ 0%nat (g 0%nat)) by (now rewrite map_length, seq_length).
  rewrite map_nth, seq_nth by exact Hj. reflexivity.
Qed.

(* xs[a:b:c] = vs with len(vs) = len(range(f, l, s)):
   same length; xs[f + k*s] = vs[k] for every k; all other positions untouched *)
Theorem slice_set_nth start stop stp (xs vs : list item) f l s d : stp <> 0 ->
  slice_indices start stop stp (zlen xs) = (f, l, s) -> zlen vs = range_len f l s ->
  let r := replace_sel (mask f l s (length xs)) xs (if s <? 0 then rev vs else vs) in
  length r = length xs /\
  (forall k, 0 <= k < range_len f l s -> nth (Z.to_nat (f + k * s)) r d = nth (Z.to_nat k) vs d) /\
  (forall i, (i < length xs)%nat -> in_py_range f l s (Z.of_nat i) = false -> nth i r d = nth i xs d).
Proof.
  intros Hs E Hlen r. assert (Es : s = stp) by (unfold slice_indices in E; inversion E; reflexivity). subst s.
  pose proof (zlen_nonneg xs) as Hn.
  assert (Hb : forall k, 0 <= k < range_len f l stp -> 0 <= f + k * stp < Z.of_nat (length xs)).
  { intros k Hk. apply (slice_range_in_bounds start stop stp (zlen xs) f l stp k Hs Hn E Hk). }
  set (p := fun i : nat => selected f l stp (Z.of_nat i)).
  set (g := fun k : nat => Z.to_nat (f + Z.of_nat k * stp)).
  set (m := Z.to_nat (range_len f l stp)).
  assert (Hm : length vs = m) by (unfold zlen in Hlen; lia).
  subst r. unfold mask. fold p. split; [apply replace_sel_length|]. split.
  - intros k Hk. set (j := Z.to_nat k). assert (Hj : (j < m)%nat) by lia.
    assert (Hg : g j = Z.to_nat (f + k * stp)) by (unfold g, j; rewrite Z2Nat.id by lia; reflexivity).
    rewrite <- Hg. destruct (stp <? 0) eqn:En.
    + assert (HP : filter p (seq 0 (length xs)) = rev (map g (seq 0 m))).
      { rewrite <- (rev_involutive (filter p (seq 0 (length xs)))). f_equal.
        apply (positions_neg f l stp (length xs) ltac:(lia) Hb). }
      pose proof (replace_sel_selected p d xs 0 (rev vs) (m - S j)) as H.
      rewrite HP, !rev_length, map_length, seq_length in H. specialize (H Hm ltac:(lia)).
      rewrite rev_nth in H by (rewrite map_length, seq_length; lia).
      rewrite map_length, seq_length in H. replace (m - S (m - S j))%nat with j in H by lia.
      rewrite nth_map_seq in H by exact Hj. rewrite Nat.sub_0_r in H. rewrite H.
      rewrite rev_nth by lia. f_equal. lia.
    + assert (HP : filter p (seq 0 (length xs)) = map g (seq 0 m)).
      { apply (positions_pos f l stp (length xs) ltac:(lia) Hb). }
      pose proof (replace_sel_selected p d xs 0 vs j) as H.
      rewrite HP, map_length, seq_length in H. specialize (H Hm ltac:(lia)).
      rewrite nth_map_seq in H by exact Hj. rewrite Nat.sub_0_r in H. exact H.
  - intros i Hi Hni. rewrite in_py_range_selected in Hni by exact Hs.
    pose proof (replace_sel_unselected p d xs 0 (if stp <? 0 then rev vs else vs) i ltac:(lia) Hni) as H.
    now rewrite Nat.sub_0_r in H.
Qed.

(* ---- lifted to the state machine ------------------------------------------------------------------ *)
Lemma accepted_items s o : Inv s -> snd (step s o) = None ->
  match o with Extend _ | IAdd _ => True | _ => items (fst (step s o)) = list_apply (items s) o end.
Proof.
  intros HI Hacc. pose proof (step_refines s o HI) as R. unfold ref_step in R.
  rewrite (guard_ext (St (items s) empty_lut (is_root s) (is_sr s)) s o eq_refl eq_refl eq_refl) in R.
  rewrite <- (step_error_exact s o HI), Hacc in R. destruct o; try exact I; exact R.
Qed.

(* what an accepted slice assignment leaves in the sequence *)
Theorem setslice_spec s a b c xs f l st d : Inv s ->
  snd (step s (SetSlice a b c xs)) = None ->
  slice_indices a b (step_of c) (zlen (items s)) = (f, l, st) ->
  let r := items (fst (step s (SetSlice a b c xs))) in
  (st = 1 -> r = firstn (Z.to_nat f) (items s) ++ xs ++ skipn (Z.to_nat (Z.max f l)) (items s)) /\
  (st <> 1 ->
     zlen xs = range_len f l st /\ length r = length (items s) /\
     (forall k, 0 <= k < range_len f l st -> nth (Z.to_nat (f + k * st)) r d = nth (Z.to_nat k) xs d) /\
     (forall i, (i < length (items s))%nat -> in_py_range f l st (Z.of_nat i) = false ->
                nth i r d = nth i (items s) d)).
Proof.
  intros HI Hacc E r. assert (Es : st = step_of c) by (unfold slice_indices in E; inversion E; reflexivity).
  pose proof (accepted_items s _ HI Hacc) as R. cbn [list_apply] in R. rewrite E in R.
  apply (step_accepts_iff s _ HI) in Hacc. destruct Hacc as (_ & H0 & H1). rewrite E in H1. cbn [fst snd] in H1.
  subst r. split.
  - intros ->. rewrite R. reflexivity.
  - intros Hne. replace (st =? 1) with false in R by lia. rewrite R.
    assert (Hlen : zlen xs = range_len f l st) by (destruct H1 as [H1|H1]; [lia|now rewrite Es]).
    split; [exact Hlen|]. apply (slice_set_nth a b (step_of c)); [exact H0|exact E|exact Hlen].
Qed.

(* what a slice deletion leaves in the sequence; it is refused only for step 0 *)
Theorem delslice_spec s a b c f l st : Inv s -> step_of c <> 0 ->
  slice_indices a b (step_of c) (zlen (items s)) = (f, l, st) ->
  snd (step s (DelSlice a b c)) = None /\
  items (fst (step s (DelSlice a b c))) =
  map snd (filter (fun q => negb (in_py_range f l st (Z.of_nat (fst q)))) (enumerate (items s))).
Proof.
  intros HI H0 E.
  assert (Hacc : snd (step s (DelSlice a b c)) = None).
  { apply (step_accepts_iff s _ HI). split; [constructor|exact H0]. }
  split; [exact Hacc|]. pose proof (accepted_items s _ HI Hacc) as R. cbn [list_apply] in R. rewrite E in R.
  rewrite R. apply (slice_del_comprehension a b (step_of c)); assumption.
Qed.
