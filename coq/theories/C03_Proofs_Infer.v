(* C03 - proofs, part 5: aligned source stack WITHOUT a recorded slice spacing.  The
   constructor infers SpacingBetweenSlices through the allow_missing = False branch of
   get_volume_positions (sort the distances, all consecutive differences close to
   (dmax - dmin) / (count - 1)); for a complete stack p0 + m sbs n, m ranging over S >= 2
   consecutive integers in ANY order, the inferred value is (Qeq) sbs, and the read-back
   then goes through as in C03_Proofs_Stack.v. *)
From Coq Require Import String ZArith List Bool Lia QArith Qround Qfield Lqa Permutation Sorted.
From HD Require Import Base.Val Base.PySlice C03_Model C03_Proofs_Geom C03_Proofs_Stack.
Import ListNotations.
Open Scope Q_scope.

(* ---- insertion sort ------------------------------------------------------------------ *)
Lemma qinsert_perm : forall x l, Permutation (qinsert x l) (x :: l).
Proof.
  intros x l. induction l as [|y l IH]; cbn [qinsert]; [apply Permutation_refl|].
  destruct (Qle_bool x y); [apply Permutation_refl|].
  eapply Permutation_trans; [apply perm_skip; exact IH|apply perm_swap].
Qed.
Lemma qsort_perm : forall l, Permutation (qsort l) l.
Proof.
  induction l as [|x l IH]; [apply Permutation_refl|]. unfold qsort in *. cbn [fold_right].
  eapply Permutation_trans; [apply qinsert_perm|apply perm_skip; exact IH].
Qed.

Lemma qinsert_hdrel : forall a x l, a <= x -> HdRel Qle a l -> HdRel Qle a (qinsert x l).
Proof.
  intros a x l Hax H. destruct l as [|y l]; cbn [qinsert]; [constructor; exact Hax|].
  destruct (Qle_bool x y); constructor; [exact Hax|]. inversion H; assumption.
Qed.
Lemma qinsert_sorted : forall x l, Sorted Qle l -> Sorted Qle (qinsert x l).
Proof.
  intros x l H. induction H as [|y l Hs IH Hd]; cbn [qinsert]; [repeat constructor|].
  destruct (Qle_bool x y) eqn:E.
  - apply Qle_bool_iff in E. constructor; [constructor; assumption|constructor; exact E].
  - assert (y <= x).
    { assert (~ x <= y) by (intros C; apply Qle_bool_iff in C; congruence). lra. }
    constructor; [exact IH|]. apply qinsert_hdrel; assumption.
Qed.
Lemma qsort_sorted : forall l, Sorted Qle (qsort l).
Proof.
  induction l as [|x l IH]; [constructor|]. unfold qsort in *. cbn [fold_right].
  apply qinsert_sorted. exact IH.
Qed.

(* ---- strictly increasing integers that fill their range are consecutive ---------------- *)
Open Scope Z_scope.
Fixpoint incr (l : list Z) : Prop :=
  match l with
  | a :: ((b :: _) as t) => a < b /\ incr t
  | _ => True
  end.

Lemma incr_head_lt : forall l a, incr (a :: l) -> forall x, In x l -> a + 1 <= x.
Proof.
  induction l as [|b l IH]; intros a Hi x Hx; [destruct Hx|].
  destruct Hi as (Hab & Hi). destruct Hx as [<- | Hx]; [lia|].
  specialize (IH b Hi x Hx). lia.
Qed.
Lemma incr_tail : forall l a, incr (a :: l) -> incr l.
Proof. intros [|b l] a H; [exact I|apply H]. Qed.

Lemma incr_bound : forall l lo hi, incr l -> (forall x, In x l -> lo <= x <= hi) ->
  Z.of_nat (length l) <= Z.max 0 (hi - lo + 1).
Proof.
  induction l as [|a l IH]; intros lo hi Hi Hr; [cbn [length]; lia|].
  assert (Ha : lo <= a <= hi) by (apply Hr; left; reflexivity).
  assert (Hrt : forall x, In x l -> a + 1 <= x <= hi).
  { intros x Hx. split; [apply (incr_head_lt l a Hi x Hx)|apply Hr; right; exact Hx]. }
  specialize (IH (a + 1) hi (incr_tail _ _ Hi) Hrt). cbn [length]. lia.
Qed.

Lemma incr_consecutive : forall l a, incr l ->
  (forall x, In x l -> a <= x <= a + Z.of_nat (length l) - 1) -> l = zrange_from a (length l).
Proof.
  induction l as [|x l IH]; intros a Hi Hr; [reflexivity|].
  assert (Hx : a <= x <= a + Z.of_nat (length (x :: l)) - 1) by (apply Hr; left; reflexivity).
  assert (Hrt : forall y, In y l -> x + 1 <= y <= a + Z.of_nat (length (x :: l)) - 1).
  { intros y Hy. split; [apply (incr_head_lt l x Hi y Hy)|apply Hr; right; exact Hy]. }
  pose proof (incr_bound l (x + 1) (a + Z.of_nat (length (x :: l)) - 1) (incr_tail _ _ Hi) Hrt) as Hb.
  cbn [length zrange_from] in *.
  assert (x = a) by lia. subst x. f_equal.
  apply IH; [exact (incr_tail _ _ Hi)|]. intros y Hy. specialize (Hrt y Hy). lia.
Qed.

(* ---- transport of the integer labels along a permutation ------------------------------- *)
Lemma Forall2_perm_l : forall {A B} (R : A -> B -> Prop) l1 l1' l2,
  Permutation l1 l1' -> Forall2 R l1 l2 -> exists l2', Permutation l2 l2' /\ Forall2 R l1' l2'.
Proof.
  intros A B R l1 l1' l2 P. revert l2.
  induction P as [|x l l' P IH|x y l|l l' l'' P1 IH1 P2 IH2]; intros l2 H.
  - inversion H; subst. exists []. split; constructor.
  - inversion H as [|? b ? t Hxb Ht]; subst. destruct (IH t Ht) as (t' & Pt & Ft).
    exists (b :: t'). split; [apply perm_skip; exact Pt|constructor; assumption].
  - inversion H as [|? b ? t Hyb Ht]; subst. inversion Ht as [|? c ? u Hxc Hu]; subst.
    exists (c :: b :: u). split; [apply perm_swap|repeat constructor; assumption].
  - destruct (IH1 l2 H) as (m & Pm & Fm). destruct (IH2 m Fm) as (m' & Pm' & Fm').
    exists m'. split; [eapply Permutation_trans; eassumption|exact Fm'].
Qed.

Lemma Forall2_len : forall {A B} (R : A -> B -> Prop) l1 l2, Forall2 R l1 l2 -> length l1 = length l2.
Proof. intros A B R l1 l2 H. induction H; cbn [length]; congruence. Qed.

(* ---- the inferred spacing ----------------------------------------------------------------- *)
Open Scope Q_scope.
Section Infer.
  Variables (rowcos colcos p0 : v3) (sp : Q).
  Notation n := (normal rowcos colcos).
  Hypothesis Hn : vdot n n == 1.
  Hypothesis Hsp : 0 < sp.
  Notation c0 := (vdot n p0).
  Notation OL := (on_line n p0 sp).
  Notation DR := (fun (d : Q) (m : Z) => d == c0 + inject_Z m * sp).

  Lemma sorted_labels : forall l ns, Sorted Qle l -> Forall2 DR l ns -> NoDup ns -> incr ns.
  Proof.
    intros l ns Hs. revert ns. induction Hs as [|d l Hs IH Hd]; intros ns HF Hnd.
    - inversion HF; subst. exact I.
    - inversion HF as [|? m ? ns' Hdm HF']; subst. inversion Hnd as [|? ? Hnin Hnd']; subst.
      specialize (IH ns' HF' Hnd').
      destruct ns' as [|m' ns'']; [exact I|]. split; [|exact IH].
      inversion HF' as [|d' ? l'' ? Hdm' HF'']; subst. inversion Hd as [|? ? Hle]; subst.
      assert (m <= m')%Z by (apply (DR_le rowcos colcos p0 sp Hsp d m d' m' Hdm Hdm'); exact Hle).
      assert (m <> m') by (intros ->; apply Hnin; left; reflexivity). lia.
  Qed.

  Lemma diffs_consecutive : forall l a k, Forall2 DR l (zrange_from a k) -> Forall (fun x => x == sp) (diffs l).
  Proof.
    induction l as [|d l IH]; intros a k HF; [constructor|].
    destruct k as [|k]; [inversion HF|]. cbn [zrange_from] in HF.
    inversion HF as [|? ? ? ? Hd HF']; subst.
    destruct l as [|d' l']; [constructor|].
    destruct k as [|k]; [inversion HF'|]. cbn [zrange_from] in HF'.
    inversion HF' as [|? ? ? ? Hd' HF'']; subst.
    cbn [diffs]. constructor.
    - rewrite Hd, Hd'. rewrite inject_Z_plus. change (inject_Z 1) with 1. ring.
    - apply (IH (a + 1)%Z (S k)). cbn [zrange_from]. constructor; assumption.
  Qed.

  (* S >= 2 planes whose multiples fill [m0, m0 + S - 1], in any order *)
  Lemma core_infer : forall ps ms m0, Forall2 OL ps ms -> NoDup ms -> (2 <= length ms)%nat ->
    (forall m, In m ms -> (m0 <= m <= m0 + Z.of_nat (length ms) - 1)%Z) ->
    exists sp' idx, sp' == sp /\ vol_positions_core false None rowcos colcos ps = Ok (Some (sp', idx)).
  Proof.
    intros ps ms m0 H Hnd Hlen Hrange.
    pose proof (line_distances rowcos colcos p0 sp Hn ps ms H) as HD.
    assert (Hne : map (vdot n) ps <> []).
    { intros E. rewrite E in HD. inversion HD; subst. cbn in Hlen. lia. }
    destruct (line_min rowcos colcos p0 sp Hsp _ _ HD Hne) as (mmin & Hmin_in & Hmin_d & Hmin_all).
    destruct (line_max rowcos colcos p0 sp Hsp _ _ HD Hne) as (mmax & Hmax_in & Hmax_d & Hmax_all).
    (* the sorted distances are labelled by consecutive integers *)
    destruct (Forall2_perm_l _ _ _ _ (Permutation_sym (qsort_perm (map (vdot n) ps))) HD) as (ns & Pns & Fns).
    assert (Hns : ns = zrange_from m0 (length ns)).
    { apply incr_consecutive.
      - apply (sorted_labels _ _ (qsort_sorted _) Fns). apply (Permutation_NoDup Pns Hnd).
      - intros x Hx. rewrite <- (Permutation_length Pns). apply Hrange.
        apply (Permutation_in _ (Permutation_sym Pns) Hx). }
    assert (Hlenns : length ns = length ms) by (symmetry; apply Permutation_length; exact Pns).
    assert (Em0 : In m0 ms).
    { apply (Permutation_in _ (Permutation_sym Pns)). rewrite Hns. apply zrange_from_in. lia. }
    assert (Em1 : In (m0 + Z.of_nat (length ms) - 1)%Z ms).
    { apply (Permutation_in _ (Permutation_sym Pns)). rewrite Hns. apply zrange_from_in. lia. }
    assert (Emin : mmin = m0) by (pose proof (Hmin_all _ Em0); pose proof (Hrange _ Hmin_in); lia).
    assert (Emax : mmax = (m0 + Z.of_nat (length ms) - 1)%Z)
      by (pose proof (Hmax_all _ Em1); pose proof (Hrange _ Hmax_in); lia).
    assert (Hlt : mmin <> mmax) by lia.
    rewrite Hns in Fns. pose proof (diffs_consecutive _ _ _ Fns) as Hdiffs.
    unfold vol_positions_core. cbv zeta.
    set (ds := map (vdot n) ps) in *.
    set (dmin := qmin_list (hd 0 ds) ds) in *. set (dmax := qmax_list (hd 0 ds) ds) in *.
    assert (Hcnt : length ds = length ms) by (subst ds; rewrite map_length; apply (Forall2_len _ _ _ H)).
    set (sp' := (dmax - dmin) / inject_Z (Z.of_nat (length ds) - 1)).
    assert (Esp : sp' == sp).
    { subst sp'. rewrite Hmin_d, Hmax_d, Emin, Emax, Hcnt.
      assert (Hk : 0 < inject_Z (Z.of_nat (length ms) - 1)).
      { change 0 with (inject_Z 0). rewrite <- Zlt_Qlt. lia. }
      replace (m0 + Z.of_nat (length ms) - 1)%Z with (m0 + (Z.of_nat (length ms) - 1))%Z by lia.
      rewrite inject_Z_plus. field. lra. }
    (* extreme positions, perpendicularity *)
    destruct (Forall2_in_r _ _ _ _ H Hmin_in) as (q1 & Hq1 & Rq1).
    destruct (Forall2_in_r _ _ _ _ H Hmax_in) as (q2 & Hq2 & Rq2).
    destruct (find_pos_map (vdot n) (fun d => Qeq_bool d dmin) ps) as (p1 & E1 & Hp1 & Hd1).
    { exists q1. split; [exact Hq1|]. apply Qeq_bool_iff.
      rewrite (line_distance rowcos colcos p0 sp Hn _ _ Rq1). symmetry. exact Hmin_d. }
    destruct (find_pos_map (vdot n) (fun d => Qeq_bool d dmax) ps) as (p2 & E2 & Hp2 & Hd2).
    { exists q2. split; [exact Hq2|]. apply Qeq_bool_iff.
      rewrite (line_distance rowcos colcos p0 sp Hn _ _ Rq2). symmetry. exact Hmax_d. }
    fold ds in E1, E2. rewrite E1, E2.
    destruct (Forall2_in_l _ _ _ _ H Hp1) as (m1 & Hm1 & R1).
    destruct (Forall2_in_l _ _ _ _ H Hp2) as (m2 & Hm2 & R2).
    apply Qeq_bool_iff in Hd1, Hd2.
    assert (m1 = mmin).
    { apply (DR_eq rowcos colcos p0 sp Hsp (vdot n p1) m1 dmin mmin);
        [apply (line_distance rowcos colcos p0 sp Hn); exact R1|exact Hmin_d|exact Hd1]. }
    assert (m2 = mmax).
    { apply (DR_eq rowcos colcos p0 sp Hsp (vdot n p2) m2 dmax mmax);
        [apply (line_distance rowcos colcos p0 sp Hn); exact R2|exact Hmax_d|exact Hd2]. }
    subst m1 m2.
    rewrite (line_perp rowcos colcos p0 sp Hn Hsp p1 mmin p2 mmax R1 R2 Hlt).
    (* regularity of the sorted differences *)
    assert (Ereg : forallb (fun d => isclose RTOL d sp') (diffs (qsort ds)) = true).
    { apply forallb_forall. intros d Hd. rewrite Forall_forall in Hdiffs. specialize (Hdiffs d Hd).
      unfold isclose. apply Qle_bool_iff.
      assert (E : d - sp' == 0) by (rewrite Hdiffs, Esp; ring).
      rewrite (qabs_zero _ E). apply Qmult_le_0_compat; [unfold RTOL; lra|apply qabs_nonneg]. }
    fold sp'. rewrite Ereg. cbn [negb andb].
    eexists (qabs sp'), _. split; [|reflexivity].
    assert (Hpos : 0 < sp') by (rewrite Esp; exact Hsp). rewrite (qabs_pos _ Hpos). exact Esp.
  Qed.
End Infer.

(* ---- END TO END: aligned sources without SpacingBetweenSlices -------------------------------- *)
Theorem sources_inferred : forall (p0 rowcos colcos : v3) (spr spc sbs : Q) rows cols ms m0 arr omit,
  vdot rowcos rowcos == 1 -> vdot colcos colcos == 1 -> vdot rowcos colcos == 0 -> 0 < sbs ->
  NoDup ms -> length ms = length arr -> (2 <= length ms)%nat ->
  (forall m, In m ms -> (m0 <= m <= m0 + Z.of_nat (length ms) - 1)%Z) ->
  let n := normal rowcos colcos in
  let plane m := vadd p0 (vscale (inject_Z m * sbs) n) in
  let st := seg_from_sources (map plane ms) rowcos colcos spr spc None rows cols arr omit in
  let K := keep omit (combine ms arr) in
  exists sp' mmin n0,
    sp' == sbs /\ st_sbs st = Some sp' /\
    In mmin (map fst K) /\
    (forall m, In m (map fst K) -> (0 <= m - mmin < n0)%Z) /\ In (mmin + n0 - 1)%Z (map fst K) /\
    stacked_full true st =
    Ok (attr_aff (plane mmin) rowcos colcos spr spc sp', n0, map (fun mp => (fst mp - mmin)%Z) K) /\
    (forall m r c : Z,
       physZ (attr_aff (plane mmin) rowcos colcos spr spc sp') (m - mmin) r c =v=
       vadd (vadd (plane m) (vscale (inject_Z r * spr) colcos)) (vscale (inject_Z c * spc) rowcos)).
Proof.
  intros p0 rowcos colcos spr spc sbs rows cols ms m0 arr omit Hr Hc Hrc Hs Hnd Hlen H2 Hrange n plane st K.
  assert (Hcr : vdot colcos rowcos == 0).
  { rewrite <- Hrc. destruct rowcos as [a b c], colcos as [d e f]. unfold vdot; cbn [vx vy vz]. ring. }
  pose proof (normal_unit' colcos rowcos Hc Hr Hcr) as Hn. fold n in Hn.
  (* the spacing the constructor infers from ALL positions *)
  assert (HFall : Forall2 (on_line n p0 sbs) (map plane ms) ms).
  { clear. induction ms as [|m ms IH]; cbn [map]; constructor; [apply veq_refl|exact IH]. }
  destruct (core_infer rowcos colcos p0 sbs Hn Hs (map plane ms) ms m0 HFall Hnd H2 Hrange)
    as (sp' & idx' & Esp & Ecore).
  assert (Hsp' : 0 < sp') by (rewrite Esp; exact Hs).
  assert (Esbs : st_sbs st = Some sp').
  { subst st. unfold seg_from_sources. cbn [st_sbs]. unfold get_volume_positions.
    destruct ms as [|a [|b ms']]; cbn [length] in H2; try lia.
    cbn [map] in *. rewrite Ecore. reflexivity. }
  (* the read-back with that spacing as hint *)
  assert (HP : st_planes st = map (fun mp => (plane (fst mp), snd mp)) K).
  { subst st K. unfold seg_from_sources. cbn [st_planes]. rewrite combine_map_l. apply omit_planes_keep. }
  assert (Hplane : forall m, on_line n p0 sp' (plane m) m).
  { intros m. subst plane. unfold on_line, veq, vadd, vscale; cbn [vx vy vz]. rewrite Esp.
    repeat split; reflexivity. }
  assert (HF : Forall2 (on_line n p0 sp') (map fst (st_planes st)) (map fst K)).
  { rewrite HP, map_map. cbn [fst]. clear HP. induction K as [|mp K' IH]; cbn [map]; constructor;
      [apply Hplane|exact IH]. }
  assert (HndK : NoDup (map fst K)).
  { subst K. apply keep_nodup. rewrite map_fst_combine by exact Hlen. exact Hnd. }
  assert (HneK : map fst K <> []).
  { assert (Hc0 : combine ms arr <> []).
    { destruct arr as [|q arr]; [cbn [length] in Hlen; lia|]. destruct ms as [|m ms]; [discriminate|]. discriminate. }
    pose proof (keep_nonempty omit _ Hc0) as H. fold K in H. destruct K; [congruence|discriminate]. }
  destruct (stacked_line rowcos colcos p0 sp' Hn Hsp' st (map fst K) eq_refl eq_refl Esbs HF HndK HneK)
    as (origin & mmin & n0 & Hmin_in & Hrange' & Hlast & Hino & Ro & E).
  rewrite HP, map_map in Hino. cbn [fst] in Hino. apply in_map_iff in Hino as (mpj & Eo & Hmpj).
  assert (Ej : mmin = fst mpj).
  { apply (DR_eq rowcos colcos p0 sp' Hsp' (vdot n origin) mmin (vdot n origin) (fst mpj));
      [apply (line_distance rowcos colcos p0 sp' Hn); exact Ro
      |apply (line_distance rowcos colcos p0 sp' Hn); rewrite <- Eo; apply Hplane|reflexivity]. }
  exists sp', mmin, n0. split; [exact Esp|]. split; [exact Esbs|].
  split; [exact Hmin_in|]. split; [exact Hrange'|]. split; [exact Hlast|]. split.
  - rewrite E, <- Eo, <- Ej. cbn [st st_spr st_spc seg_from_sources]. rewrite map_map. reflexivity.
  - intros m r c. eapply veq_trans; [apply (line_voxel rowcos colcos p0 sp'); apply Hplane|].
    subst plane. unfold veq, vadd, vscale; cbn [vx vy vz]. rewrite Esp. repeat split; reflexivity.
Qed.
