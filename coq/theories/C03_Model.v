(* C03 - model of "derived images sit where the user placed them".
   Mirrors (src/highdicom, current tree):
     image.py    _standardize_slice_indices, _standardize_row_column_indices,
                 _get_stacked_volume_geometry, Image.get_volume (stacked + tiled branch)
     seg/sop.py  Segmentation(pixel_array=Volume | aligned sources): plane positions /
                 orientation / measures, empty-plane omission, slice-spacing inference;
                 Segmentation.get_volume (stacked + tiled branch), get_volume_geometry
     volume.py   get_plane_positions / get_plane_orientation / get_pixel_measures,
                 _prepare_getitem_index (step 1), VolumeGeometry.from_attributes
     spatial.py  get_volume_positions (sort=True), create_affine_matrix_from_attributes
     seg/pyramid.py  level sizes and pixel spacings (single source image)
   Integers are Z, geometry is exact over Q (floats, DS strings, np.isclose are
   modelled as exact rational arithmetic; tolerances are explicit Q constants).
   NO proofs in this file. *)
From Coq Require Import String ZArith List Bool QArith Qround.
From HD Require Import Base.Val Base.PySlice.
Import ListNotations.
Open Scope Z_scope.

(* ====================================================================== *)
(* 1. integer standardisers (image.py)                                     *)
(* ====================================================================== *)

(* _standardize_slice_indices(slice_start, slice_end, n_vol_positions, as_indices) *)
Definition conv1 (as_idx : bool) (x : option Z) : res (option Z) :=
  if as_idx then Ok x
  else match x with
       | None => Ok None
       | Some v => if v =? 0 then Err "ValueError"
                   else if 0 <? v then Ok (Some (v - 1)) else Ok (Some v)
       end.

Definition std_slice (start stop : option Z) (n : Z) (as_idx : bool) : res (Z * Z) :=
  bind (conv1 as_idx start) (fun start1 =>
  bind (conv1 as_idx stop) (fun stop1 =>
    let s0 := match start1 with None => 0 | Some v => v end in
    let s := if s0 <? 0 then n + s0 else s0 in
    let re : res Z :=
      match stop1 with
      | None => Ok n
      | Some v => if n <? v then Err "IndexError"
                  else if v <? 0 then (if v <? - n then Err "IndexError" else Ok (n + v))
                  else Ok v
      end in
    bind re (fun e => if e - s <? 1 then Err "ValueError" else Ok (s, e)))).

(* _standardize_row_column_indices(..., rows, columns, as_indices, outputs_as_indices) *)
Definition to_one_based (as_idx : bool) (x : option Z) : option Z :=
  match x with
  | Some v => if as_idx && (0 <=? v) then Some (v + 1) else Some v
  | None => None
  end.

Definition std_rc (rs re cs ce : option Z) (rows cols : Z) (as_idx out_idx : bool)
  : res (Z * Z * Z * Z) :=
  let rs1 := match to_one_based as_idx rs with Some v => v | None => 1 end in
  let re1 := match to_one_based as_idx re with Some v => v | None => rows + 1 end in
  let cs1 := match to_one_based as_idx cs with Some v => v | None => 1 end in
  let ce1 := match to_one_based as_idx ce with Some v => v | None => cols + 1 end in
  if (cs1 =? 0) || (rs1 =? 0) then Err "ValueError"
  else if (ce1 =? 0) || (re1 =? 0) then Err "ValueError"
  else if rows <? rs1 then Err "ValueError"
  else let rs2 := if rs1 <? 0 then rows + rs1 + 1 else rs1 in
  if rs2 <? 1 then Err "ValueError"
  else if rows + 1 <? re1 then Err "ValueError"
  else let re2 := if re1 <? 0 then rows + re1 + 1 else re1 in
  if (re1 <? 0) && (re2 <? 1) then Err "ValueError"
  else if cols <? cs1 then Err "ValueError"
  else let cs2 := if cs1 <? 0 then cols + cs1 + 1 else cs1 in
  if cs2 <? 1 then Err "ValueError"
  else if cols + 1 <? ce1 then Err "ValueError"
  else let ce2 := if ce1 <? 0 then cols + ce1 + 1 else ce1 in
  if (ce1 <? 0) && (ce2 <? 1) then Err "ValueError"
  else
  if out_idx then Ok (rs2 - 1, re2 - 1, cs2 - 1, ce2 - 1) else Ok (rs2, re2, cs2, ce2).

(* volume.py _prepare_getitem_index for one axis, slice(start, stop) with step 1:
   _check_slice (ValueError) is done for every axis first, then the size
   computation (IndexError when empty). *)
Definition check_slice (start stop : option Z) (len : Z) : bool :=
  (match start with Some v => negb ((v <? - len) || (len <=? v)) | None => true end) &&
  (match stop with Some v => negb ((v <? - len - 1) || (len <? v)) | None => true end).

Definition slice_first_size (start stop : option Z) (len : Z) : option (Z * Z) :=
  let '(f, l, _) := slice_indices start stop 1 len in
  match hd_size f l 1 with Some sz => Some (f, sz) | None => None end.

(* geometry[a0, a1, a2] with three (start, stop) pairs *)
Definition geom_getitem (shape : Z * Z * Z) (i0 i1 i2 : option Z * option Z)
  : res ((Z * Z) * (Z * Z) * (Z * Z)) :=
  let '(n0, n1, n2) := shape in
  if negb (check_slice (fst i0) (snd i0) n0 && check_slice (fst i1) (snd i1) n1
           && check_slice (fst i2) (snd i2) n2) then Err "ValueError"
  else match slice_first_size (fst i0) (snd i0) n0,
             slice_first_size (fst i1) (snd i1) n1,
             slice_first_size (fst i2) (snd i2) n2 with
       | Some a, Some b, Some c => Ok (a, b, c)
       | _, _, _ => Err "IndexError"
       end.

(* ====================================================================== *)
(* 2. exact geometry over Q                                                *)
(* ====================================================================== *)
Open Scope Q_scope.

Record v3 := V3 { vx : Q; vy : Q; vz : Q }.
Definition vadd (a b : v3) := V3 (vx a + vx b) (vy a + vy b) (vz a + vz b).
Definition vsub (a b : v3) := V3 (vx a - vx b) (vy a - vy b) (vz a - vz b).
Definition vscale (k : Q) (a : v3) := V3 (k * vx a) (k * vy a) (k * vz a).
Definition vdot (a b : v3) : Q := vx a * vx b + vy a * vy b + vz a * vz b.
Definition vcross (a b : v3) := V3 (vy a * vz b - vz a * vy b)
                                   (vz a * vx b - vx a * vz b)
                                   (vx a * vy b - vy a * vx b).

(* affine = three columns (slice, row, column direction times spacing) + translation *)
Record aff := Aff { a0 : v3; a1 : v3; a2 : v3; atr : v3 }.
Definition phys (A : aff) (i j k : Q) : v3 :=
  vadd (vadd (vadd (vscale i (a0 A)) (vscale j (a1 A))) (vscale k (a2 A))) (atr A).
Definition physZ (A : aff) (i j k : Z) : v3 := phys A (inject_Z i) (inject_Z j) (inject_Z k).

(* geometry[f0:, f1:, f2:] with unit steps: same columns, origin = A (f0,f1,f2) *)
Definition sub_aff (A : aff) (f0 f1 f2 : Z) : aff :=
  Aff (a0 A) (a1 A) (a2 A) (physZ A f0 f1 f2).

(* Volume.from_components(direction = [d0|d1|d2], spacing = (s0,s1,s2), position) *)
Definition vol_aff (pos d0 d1 d2 : v3) (s0 s1 s2 : Q) : aff :=
  Aff (vscale s0 d0) (vscale s1 d1) (vscale s2 d2) pos.

(* spatial.create_affine_matrix_from_attributes(index_convention=(D,R), slices_first):
   columns = [ n * sbs | column_cosines * spacing_between_rows | row_cosines * spacing_between_columns ]
   n = cross(column_cosines, row_cosines) *)
Definition normal (rowcos colcos : v3) : v3 := vcross colcos rowcos.
Definition attr_aff (pos rowcos colcos : v3) (spr spc sbs : Q) : aff :=
  Aff (vscale sbs (normal rowcos colcos)) (vscale spr colcos) (vscale spc rowcos) pos.

(* ---- numeric helpers ---------------------------------------------------- *)
Definition qabs (q : Q) : Q := if Qle_bool 0 q then q else - q.
Definition qmin (a b : Q) : Q := if Qle_bool a b then a else b.
Definition qmax (a b : Q) : Q := if Qle_bool a b then b else a.
Definition qlt_bool (a b : Q) : bool := negb (Qle_bool b a).

(* numpy round (half to even) on an exact rational *)
Definition rne (q : Q) : Z :=
  let f := Qfloor q in
  match Qcompare (q - inject_Z f) (1 # 2) with
  | Lt => f
  | Gt => (f + 1)%Z
  | Eq => if Z.even f then f else (f + 1)%Z
  end.

Fixpoint qinsert (x : Q) (l : list Q) : list Q :=
  match l with
  | [] => [x]
  | y :: t => if Qle_bool x y then x :: l else y :: qinsert x t
  end.
Definition qsort (l : list Q) : list Q := fold_right qinsert [] l.
Fixpoint diffs (l : list Q) : list Q :=
  match l with
  | a :: ((b :: _) as t) => (b - a) :: diffs t
  | _ => []
  end.
Definition qmin_list (d : Q) (l : list Q) : Q := fold_left qmin l d.
Definition qmax_list (d : Q) (l : list Q) : Q := fold_left qmax l d.
Definition zmax_list (d : Z) (l : list Z) : Z := fold_left Z.max l d.

(* first position whose companion satisfies p *)
Fixpoint find_pos {A} (p : Q -> bool) (ds : list Q) (ps : list A) : option A :=
  match ds, ps with
  | d :: ds', x :: ps' => if p d then Some x else find_pos p ds' ps'
  | _, _ => None
  end.
Fixpoint find_idx0 {A} (ix : list Z) (ps : list A) : option A :=
  match ix, ps with
  | i :: ix', x :: ps' => if (i =? 0)%Z then Some x else find_idx0 ix' ps'
  | _, _ => None
  end.

(* constants of spatial.py *)
Definition RTOL : Q := 1 # 100.            (* _DEFAULT_SPACING_RELATIVE_TOLERANCE *)
Definition EQTOL : Q := 1 # 100000.        (* _DEFAULT_EQUALITY_TOLERANCE *)
Definition PERP_TOL : Q := 1 # 1000.       (* _DOT_PRODUCT_PERPENDICULAR_TOLERANCE *)

(* np.isclose(a, b, rtol, atol=0) *)
Definition isclose (rtol a b : Q) : bool := Qle_bool (qabs (a - b)) (rtol * qabs b).

(* ====================================================================== *)
(* 3. spatial.get_volume_positions(sort=True, allow_duplicate_positions)   *)
(*    on the DISTINCT plane positions [ps] (frame order)                   *)
(* ====================================================================== *)
(* result: Err k | Ok None (not a regular volume) | Ok (Some (spacing, index per position)) *)
Definition vol_positions_core (allow_missing : bool) (hint : option Q)
           (rowcos colcos : v3) (ps : list v3) : res (option (Q * list Z)) :=
  let n := normal rowcos colcos in
  let ds := map (vdot n) ps in
  let sorted := qsort ds in
  let dmin := qmin_list (hd 0 ds) ds in
  let dmax := qmax_list (hd 0 ds) ds in
  let pos1 := find_pos (fun d => Qeq_bool d dmin) ds ps in
  let pos2 := find_pos (fun d => Qeq_bool d dmax) ds ps in
  let perp := match pos1, pos2 with
              | Some p1, Some p2 =>
                  let span := vsub p2 p1 in
                  let dp := vdot n span in
                  qlt_bool ((1 - PERP_TOL) * (1 - PERP_TOL) * vdot span span) (dp * dp)
              | _, _ => false
              end in
  if allow_missing then
    let sp_opt := match hint with
                  | Some h => Some h
                  | None => let m := qmin_list (hd 0 (diffs sorted)) (diffs sorted) in
                            if Qle_bool (qabs m) EQTOL then None else Some m
                  end in
    match sp_opt with
    | None => Ok None
    | Some sp =>
        let mult := map (fun d => (d - dmin) / sp) ds in
        let idx := map rne mult in
        let regular := forallb (fun m => Qle_bool (qabs (m - inject_Z (rne m)))
                                                 (RTOL * qabs (inject_Z (rne m)))) mult in
        if regular && perp then Ok (Some (qabs sp, idx)) else Ok None
    end
  else
    let cnt := Z.of_nat (length ds) in
    let sp := (dmax - dmin) / inject_Z (cnt - 1) in
    let hint_ok := match hint with Some h => isclose RTOL (qabs sp) h | None => true end in
    if negb hint_ok then Err "RuntimeError"
    else
      let regular := forallb (fun d => isclose RTOL d sp) (diffs sorted) in
      (* rank of each distance in sorted order *)
      let idx := map (fun d => Z.of_nat (length (filter (fun d' => qlt_bool d' d) ds))) ds in
      if regular && perp then Ok (Some (qabs sp, idx)) else Ok None.

Definition get_volume_positions (allow_missing : bool) (hint : option Q)
           (rowcos colcos : v3) (ps : list v3) : res (option (Q * list Z)) :=
  let hint' := match hint with Some h => Some (qabs h) | None => None end in
  if match hint' with Some h => Qeq_bool h 0 | None => false end then Err "ValueError"
  else match ps with
       | [] => Err "ValueError"
       | [_] => Ok (Some (match hint' with Some h => h | None => 1 end, [0%Z]))
       | _ => vol_positions_core allow_missing hint' rowcos colcos ps
       end.

(* ====================================================================== *)
(* 4. stored segmentation (what the constructor records)                   *)
(* ====================================================================== *)
Definition plane := list (list Z).          (* rows x columns *)
Record stored := Stored {
  st_rowcos : v3; st_colcos : v3;
  st_spr : Q; st_spc : Q;                   (* PixelSpacing *)
  st_sbs : option Q;                        (* SpacingBetweenSlices, if recorded *)
  st_rows : Z; st_cols : Z;
  st_planes : list (v3 * plane)             (* stored plane position + its pixels *)
}.

Definition plane_nonempty (p : plane) : bool :=
  existsb (fun row => existsb (fun v => negb (v =? 0)%Z) row) p.

(* seg/sop.py: omit_empty_frames -> keep non-empty planes, unless all are empty *)
Definition omit_planes (omit : bool) (pl : list (v3 * plane)) : list (v3 * plane) :=
  if omit then
    let ne := filter (fun x => plane_nonempty (snd x)) pl in
    match ne with [] => pl | _ => ne end
  else pl.

Fixpoint zrange_from (k : Z) (n : nat) : list Z :=
  match n with O => [] | S n' => k :: zrange_from (k + 1)%Z n' end.

(* Segmentation(pixel_array = Volume(affine = vol_aff pos d s, array)) :
   plane i at A(i,0,0); orientation (row cosines = d2, column cosines = d1);
   PixelSpacing (s1, s2); SpacingBetweenSlices s0 *)
Definition seg_from_volume (pos d0 d1 d2 : v3) (s0 s1 s2 : Q) (rows cols : Z)
           (arr : list plane) (omit : bool) : stored :=
  let A := vol_aff pos d0 d1 d2 s0 s1 s2 in
  let pls := map (fun ip => (physZ A (fst ip) 0 0, snd ip))
                 (combine (zrange_from 0 (length arr)) arr) in
  Stored d2 d1 s1 s2 (Some s0) rows cols (omit_planes omit pls).

(* Segmentation(source_images = aligned stack, pixel_array): positions and
   orientation of the sources; SpacingBetweenSlices = the source's own value,
   else inferred from ALL plane positions (before omission) when regular *)
Definition seg_from_sources (positions : list v3) (rowcos colcos : v3) (spr spc : Q)
           (src_sbs : option Q) (rows cols : Z) (arr : list plane) (omit : bool)
  : stored :=
  let sbs := match src_sbs with
             | Some s => Some s
             | None => match get_volume_positions false None rowcos colcos positions with
                       | Ok (Some (sp, _)) => Some sp
                       | _ => None
                       end
             end in
  Stored rowcos colcos spr spc sbs rows cols (omit_planes omit (combine positions arr)).

(* ====================================================================== *)
(* 5. read-back: get_volume_geometry / get_volume (stacked branch)         *)
(* ====================================================================== *)
(* _get_stacked_volume_geometry without slicing:
   (geometry affine, number of slices, volume index of every stored plane) *)
Definition stacked_full (allow_missing : bool) (st : stored) : res (aff * Z * list Z) :=
  let ps := map fst (st_planes st) in
  bind (get_volume_positions allow_missing (st_sbs st) (st_rowcos st) (st_colcos st) ps)
       (fun r => match r with
                 | None => Err "RuntimeError"
                 | Some (sp, idx) =>
                     let n0 := (zmax_list 0 idx + 1)%Z in
                     match find_idx0 idx ps with
                     | None => Err "ValueError"
                     | Some origin =>
                         Ok (attr_aff origin (st_rowcos st) (st_colcos st)
                                      (st_spr st) (st_spc st) sp, n0, idx)
                     end
                 end).

(* get_volume_geometry(): RuntimeError -> None *)
Definition get_volume_geometry (allow_missing : bool) (st : stored) : res (option (aff * (Z * Z * Z))) :=
  match stacked_full allow_missing st with
  | Ok (G, n0, _) => Ok (Some (G, (n0, st_rows st, st_cols st)))
  | Err k => if String.eqb k "RuntimeError" then Ok None else Err k
  end.

Definition zeros_plane (rows cols : Z) : plane :=
  repeat (repeat 0%Z (Z.to_nat cols)) (Z.to_nat rows).

(* the plane stored at volume index k (last one wins), else zeros *)
Fixpoint plane_at (k : Z) (idx : list Z) (pls : list plane) (dflt : plane) : plane :=
  match idx, pls with
  | i :: idx', p :: pls' => plane_at k idx' pls' (if (i =? k)%Z then p else dflt)
  | _, _ => dflt
  end.

Definition cut {A} (f sz : Z) (l : list A) : list A :=
  firstn (Z.to_nat sz) (skipn (Z.to_nat f) l).

(* get_volume(slice_start, slice_end, row_start, row_end, column_start, column_end, as_indices) *)
Definition get_volume (allow_missing : bool) (st : stored)
           (ss se rs re cs ce : option Z) (as_idx : bool)
  : res ((Z * Z * Z) * aff * list plane) :=
  bind (std_rc rs re cs ce (st_rows st) (st_cols st) as_idx true) (fun rc =>
  let '(r0, r1, c0, c1) := rc in
  bind (stacked_full allow_missing st) (fun full =>
  let '(G, n0, idx) := full in
  bind (std_slice ss se n0 as_idx) (fun sl =>
  let '(s, e) := sl in
  let shape0 := (n0, st_rows st, st_cols st) in
  bind (geom_getitem shape0 (Some s, Some e) (None, None) (None, None)) (fun g1 =>
  let '((f0, z0), _, _) := g1 in
  (* frames with s <= idx < e are written at idx - s into an array of z0 slices *)
  if existsb (fun i => (s <=? i)%Z && (i <? e)%Z && (z0 <=? i - s)%Z) idx then Err "IndexError"
  else
  bind (geom_getitem (z0, st_rows st, st_cols st) (None, None) (Some r0, Some r1) (Some c0, Some c1))
       (fun g2 =>
  let '(_, (f1, z1), (f2, z2)) := g2 in
  let planes := map snd (st_planes st) in
  let arr := map (fun k => map (cut f2 z2)
                               (cut f1 z1 (plane_at (s + k) idx planes
                                                    (zeros_plane (st_rows st) (st_cols st)))))
                 (zrange_from 0 (Z.to_nat z0)) in
  Ok ((z0, z1, z2), sub_aff (sub_aff G f0 0 0) 0 f1 f2, arr)))))).

(* ====================================================================== *)
(* 6. tiled branch (slide coordinate system, one focal plane)              *)
(* ====================================================================== *)
(* _get_volume_geometry for a tiled image: origin (x,y,z), ImageOrientationSlide,
   shared PixelSpacing, SpacingBetweenSlices (1 when absent), shape (1, R, C) *)
Definition tiled_geometry (pos rowcos colcos : v3) (spr spc : Q) (sbs : option Q) : aff :=
  attr_aff pos rowcos colcos spr spc (match sbs with Some s => s | None => 1 end).

(* get_volume on a tiled image: region [r0,r1) x [c0,c1) of the total pixel
   matrix M, affine = geometry[:, r0:, c0:].affine.  Only non-empty regions
   are modelled (get_total_pixel_matrix itself is property C04). *)
Definition get_volume_tiled (G : aff) (R C : Z) (M : plane)
           (ss se rs re cs ce : option Z) (as_idx : bool)
  : res ((Z * Z * Z) * aff * list plane) :=
  bind (std_rc rs re cs ce R C as_idx true) (fun rc =>
  let '(r0, r1, c0, c1) := rc in
  bind (std_slice ss se 1 as_idx) (fun _ =>
  if (r1 <=? r0)%Z || (c1 <=? c0)%Z || (r0 <? 0)%Z || (c0 <? 0)%Z then Err "unmodelled"
  else
  bind (geom_getitem (1%Z, R, C) (None, None) (Some r0, None) (Some c0, None)) (fun g =>
  let '(_, (f1, _), (f2, _)) := g in
  Ok ((1%Z, (r1 - r0)%Z, (c1 - c0)%Z), sub_aff G 0 f1 f2,
      [map (cut c0 (c1 - c0)) (cut r0 (r1 - r0) M)])))).

(* ====================================================================== *)
(* 7. segmentation pyramid, single source image (seg/pyramid.py)           *)
(* ====================================================================== *)
(* level 0 = the mask itself; level k>0: size int(R / f_k) x int(C / f_k),
   spacing = source spacing * (R / R_k, C / C_k) *)
Fixpoint ascending (l : list Q) : bool :=
  match l with
  | a :: ((b :: _) as t) => Qle_bool a b && ascending t
  | _ => true
  end.

Definition pyr_level (R C : Z) (spr spc : Q) (f : Q) : Z * Z * Q * Q :=
  let Rl := Qfloor (inject_Z R / f) in
  let Cl := Qfloor (inject_Z C / f) in
  (Rl, Cl, spr * (inject_Z R / inject_Z Rl), spc * (inject_Z C / inject_Z Cl)).

Definition pyramid (R C : Z) (spr spc : Q) (fs : list Q) : res (list (Z * Z * Q * Q)) :=
  match fs with
  | [] => Err "ValueError"
  | _ =>
    if existsb (fun f => Qle_bool f 1) fs then Err "ValueError"
    else if negb (ascending fs) then Err "ValueError"
    else
      let levels := map (pyr_level R C spr spc) fs in
      if existsb (fun l => match l with (Rl, Cl, _, _) => (Rl <? 1)%Z || (Cl <? 1)%Z end) levels
      then Err "ValueError"       (* PIL: height and width must be > 0 *)
      else Ok ((R, C, spr, spc) :: levels)
  end.

(* ====================================================================== *)
(* 8. boundary functions for the correspondence run                        *)
(* ====================================================================== *)
Open Scope Z_scope.
Definition vv3 (v : v3) : val := VL [VQ (vx v); VQ (vy v); VQ (vz v)].
(* 3 x 4 matrix, row-major, like numpy's affine[:3] *)
Definition vaff (A : aff) : val :=
  VL [VL [VQ (vx (a0 A)); VQ (vx (a1 A)); VQ (vx (a2 A)); VQ (vx (atr A))];
      VL [VQ (vy (a0 A)); VQ (vy (a1 A)); VQ (vy (a2 A)); VQ (vy (atr A))];
      VL [VQ (vz (a0 A)); VQ (vz (a1 A)); VQ (vz (a2 A)); VQ (vz (atr A))]].
Definition vshape (s : Z * Z * Z) : val :=
  let '(a, b, c) := s in VL [VZ a; VZ b; VZ c].
Definition vplanes (l : list plane) : val := VL (map vz_list2 l).

Definition run_std_slice ss se n ai : val :=
  vres (fun p => VL [VZ (fst p); VZ (snd p)]) (std_slice ss se n ai).
Definition run_std_rc rs re cs ce rows cols ai oi : val :=
  vres (fun t => match t with (a, b, c, d) => VL [VZ a; VZ b; VZ c; VZ d] end)
       (std_rc rs re cs ce rows cols ai oi).

Definition vvolume (r : res ((Z * Z * Z) * aff * list plane)) : val :=
  vres (fun t => match t with (sh, A, arr) => VL [vshape sh; vaff A; vplanes arr] end) r.
Definition vgeometry (r : res (option (aff * (Z * Z * Z)))) : val :=
  vres (fun o => match o with
                 | Some (A, sh) => VL [vshape sh; vaff A]
                 | None => VNone
                 end) r.

(* [get_volume_geometry(); get_volume(); get_volume(args)] of a stored segmentation *)
Definition run_stored (allow_missing : bool) (st : stored) ss se rs re cs ce ai : val :=
  VL [vgeometry (get_volume_geometry allow_missing st);
      vvolume (get_volume allow_missing st None None None None None None false);
      vvolume (get_volume allow_missing st ss se rs re cs ce ai)].

(* with_arr = false: pixel content not observed (plain slide image) *)
Definition run_tiled (with_arr : bool) pos rowcos colcos spr spc sbs R C M ss se rs re cs ce ai : val :=
  let G := tiled_geometry pos rowcos colcos spr spc sbs in
  VL [VL [vshape (1, R, C); vaff G];
      vres (fun t => match t with (sh, A, arr) =>
                       VL [vshape sh; vaff A; if with_arr then vplanes arr else VNone] end)
           (get_volume_tiled G R C M ss se rs re cs ce ai)].

(* per level: rows, columns, PixelSpacing, geometry affine (shared origin/orientation) *)
Definition run_pyramid pos rowcos colcos R C spr spc fs : val :=
  vres (fun ls => VL (map (fun l => match l with (Rl, Cl, a, b) =>
                                      VL [VZ Rl; VZ Cl; VQ a; VQ b;
                                          vaff (tiled_geometry pos rowcos colcos a b None)] end) ls))
       (pyramid R C spr spc fs).

(* ====================================================================== *)
(* 9. tiled segmentation placed by the caller (seg/sop.py constructor,      *)
(*    tile_pixel_array=True with plane_positions=[top left corner] or a      *)
(*    Volume in the SLIDE coordinate system)                                *)
(* ====================================================================== *)
Open Scope Q_scope.
Definition v3_eqb (a b : v3) : bool :=
  Qeq_bool (vx a) (vx b) && Qeq_bool (vy a) (vy b) && Qeq_bool (vz a) (vz b).

(* The TotalPixelMatrixOriginSequence that the constructor records.
   npos = number of plane positions passed, (rp, cp) = Row/ColumnPositionInTotalImagePixelMatrix
   of the first one; o_given / m_given = orientation / pixel measures were supplied by the
   caller (always for a Volume); (MR, MC) = shape of the mask, (th, tw) = tile size used.
   'spatial locations preserved' -> the origin item is deep-copied from the SOURCE image,
   otherwise it is written from the caller's position. *)
Definition placed_origin (src_org usr_org : v3) (npos rp cp : Z)
           (o_given : bool) (src_rc src_cc u_rc u_cc : v3)
           (m_given : bool) (src_spr src_spc u_spr u_spc : Q)
           (srcR srcC MR MC src_th src_tw th tw : Z) : res v3 :=
  if negb (npos =? 1)%Z then Err "ValueError"
  else if negb ((rp =? 1)%Z && (cp =? 1)%Z) then Err "ValueError"
  else
    let origin_preserved := v3_eqb usr_org src_org in
    let tpm_preserved :=
      origin_preserved
      && (negb o_given || (v3_eqb u_rc src_rc && v3_eqb u_cc src_cc))
      && (negb m_given || (Qeq_bool u_spr src_spr && Qeq_bool u_spc src_spc)) in
    if tpm_preserved then
      if negb ((MR =? srcR)%Z && (MC =? srcC)%Z) then Err "ValueError"
      else Ok (if (th =? src_th)%Z && (tw =? src_tw)%Z then src_org else usr_org)
    else Ok usr_org.

(* spatial.compute_tile_positions_per_frame: the tile whose top left pixel has
   zero-based matrix indices (r0, c0) *)
Definition tile_pos (org rowcos colcos : v3) (spr spc : Q) (r0 c0 : Z) : v3 :=
  vadd org (vadd (vscale (inject_Z c0 * spc) rowcos) (vscale (inject_Z r0 * spr) colcos)).

Definition tile_starts (n t : Z) : list Z :=
  map (fun k => (k * t)%Z) (zrange_from 0 (Z.to_nat ((n + t - 1) / t)%Z)).

Definition tile_nonempty (M : plane) (th tw : Z) (rc0 : Z * Z) : bool :=
  plane_nonempty (map (cut (snd rc0) tw) (cut (fst rc0) th M)).

(* per-frame (RowPosition, ColumnPosition, x, y, z) of the stored tiles, row-major;
   empty tiles are left out on request unless every tile is empty *)
Definition tile_frames (org rowcos colcos : v3) (spr spc : Q) (MR MC th tw : Z) (M : plane)
           (omit : bool) : list (Z * Z * v3) :=
  let all := flat_map (fun r0 => map (fun c0 => (r0, c0)) (tile_starts MC tw)) (tile_starts MR th) in
  let kept := if omit then match filter (tile_nonempty M th tw) all with
                           | [] => all
                           | ne => ne
                           end
              else all in
  map (fun rc0 => ((fst rc0 + 1)%Z, (snd rc0 + 1)%Z,
                   tile_pos org rowcos colcos spr spc (fst rc0) (snd rc0))) kept.

(* [recorded origin; get_volume_geometry(); get_volume(args); per-frame tile positions; inputs untouched]
   of the segmentation; a refusal of the constructor is the whole result *)
Definition run_tiled_place (with_frames : bool) (src_org usr_org : v3) (npos rp cp : Z)
           (o_given : bool) (src_rc src_cc u_rc u_cc : v3)
           (m_given : bool) (src_spr src_spc u_spr u_spc : Q) (sbs : option Q)
           (srcR srcC MR MC src_th src_tw th tw : Z) (M : plane) (omit : bool)
           ss se rs re cs ce ai : val :=
  match placed_origin src_org usr_org npos rp cp o_given src_rc src_cc u_rc u_cc
                      m_given src_spr src_spc u_spr u_spc srcR srcC MR MC src_th src_tw th tw with
  | Err k => VErr k
  | Ok org =>
      let rc := if o_given then u_rc else src_rc in
      let cc := if o_given then u_cc else src_cc in
      let spr := if m_given then u_spr else src_spr in
      let spc := if m_given then u_spc else src_spc in
      let G := tiled_geometry org rc cc spr spc sbs in
      VL [vv3 org;
          VL [vshape (1%Z, MR, MC); vaff G];
          vvolume (get_volume_tiled G MR MC M ss se rs re cs ce ai);
          if with_frames
          then VL (map (fun f => match f with (r, c, p) =>
                                   VL [VZ r; VZ c; VQ (vx p); VQ (vy p); VQ (vz p)] end)
                       (tile_frames usr_org rc cc spr spc MR MC th tw M omit))
          else VNone;
          (* the source image and the caller's position / orientation / measures objects are left alone *)
          VB true]
  end.

(* a volume whose affine was handed over in a caller-owned buffer: the model has
   value semantics, i.e. whatever the caller does to the buffer after the volume
   was constructed is NOT an input of the model; the last item states that the
   caller's buffers are left as they were by the encoder *)
Definition run_stored_hist (allow_missing : bool) (st : stored) ss se rs re cs ce ai : val :=
  match run_stored allow_missing st ss se rs re cs ce ai with
  | VL l => VL (l ++ [VB true])
  | v => v
  end.

(* ====================================================================== *)
(* 10. segmentation pyramid from several source images and / or several     *)
(*     pixel arrays (seg/pyramid.py, downsample_factors=None)               *)
(* ====================================================================== *)
(* one source level: TotalPixelMatrixRows, TotalPixelMatrixColumns, PixelSpacing,
   total pixel matrix origin *)
Definition src_level := (Z * Z * Q * Q * v3)%type.
Definition lvl_size (l : src_level) : Z * Z := match l with (R, C, _, _, _) => (R, C) end.

(* "strictly ordered in decreasing resolution": for the source images rows AND
   columns are compared; for the pixel arrays the code compares the two shape
   TUPLES (r0 = c0 = shape[:2]), i.e. lexicographically *)
Fixpoint decreasing_src (l : list (Z * Z)) : bool :=
  match l with
  | a :: ((b :: _) as t) => negb ((fst a <=? fst b)%Z || (snd a <=? snd b)%Z) && decreasing_src t
  | _ => true
  end.
Definition lex_le (a b : Z * Z) : bool :=
  (fst a <? fst b)%Z || ((fst a =? fst b)%Z && (snd a <=? snd b)%Z).
Fixpoint decreasing_pix (l : list (Z * Z)) : bool :=
  match l with
  | a :: ((b :: _) as t) => negb (lex_le a b) && decreasing_pix t
  | _ => true
  end.
Definition size_eqb (a b : Z * Z) : bool := (fst a =? fst b)%Z && (snd a =? snd b)%Z.

Definition pyramid_multi (srcs : list src_level) (pix : list (Z * Z)) : res (list src_level) :=
  let ns := Z.of_nat (length srcs) in
  let np := Z.of_nat (length pix) in
  if (ns =? 0)%Z || (np =? 0)%Z then Err "ValueError"
  else if (ns =? 1)%Z && (np =? 1)%Z then Err "TypeError"     (* downsample_factors required *)
  else if (1 <? ns)%Z && (1 <? np)%Z && negb (ns =? np)%Z then Err "ValueError"
  else if negb (decreasing_src (map lvl_size srcs)) then Err "ValueError"
  else if negb (decreasing_pix pix) then Err "ValueError"
  else if existsb (fun sp => negb (size_eqb (lvl_size (fst sp)) (snd sp))) (combine srcs pix)
       then Err "ValueError"
  else match srcs with
       | [(R, C, spr, spc, org)] =>
           (* one source, several pixel arrays: spacing scaled by the ratio of the array shapes *)
           let '(R0, C0) := hd (R, C) pix in
           Ok (map (fun p => (fst p, snd p, spr * (inject_Z R0 / inject_Z (fst p)),
                              spc * (inject_Z C0 / inject_Z (snd p)), org)) pix)
       | _ =>
           (* several sources: level k is built from source k (mask resized to its
              size when only one pixel array was given), pixel measures and origin
              are the source's own *)
           Ok srcs
       end.

Definition run_pyramid_multi (rowcos colcos : v3) (srcs : list src_level) (pix : list (Z * Z)) : val :=
  vres (fun ls => VL (map (fun l => match l with (Rl, Cl, a, b, org) =>
                                      VL [VZ Rl; VZ Cl; VQ a; VQ b;
                                          vaff (tiled_geometry org rowcos colcos a b None)] end) ls))
       (pyramid_multi srcs pix).

(* ====================================================================== *)
(* 11. volumes rearranged through the Volume API before they are encoded    *)
(*     (volume.py permute_spatial_axes / swap_spatial_axes / flip_spatial;  *)
(*     to_patient_orientation = flip_spatial then permute_spatial_axes).    *)
(*     The model has value semantics: the arrays these calls return are     *)
(*     numpy VIEWS of the caller's memory (transposed / negative strides);  *)
(*     memory layout, dtype and transfer syntax are not inputs of the model *)
(* ====================================================================== *)
Open Scope Z_scope.
(* a volume in component form: position, axis directions, spacings, array *)
Record qvol := QVol { q_pos : v3; q_d0 : v3; q_d1 : v3; q_d2 : v3;
                      q_s0 : Q; q_s1 : Q; q_s2 : Q; q_arr : list plane }.
Definition qvol_aff (V : qvol) : aff :=
  vol_aff (q_pos V) (q_d0 V) (q_d1 V) (q_d2 V) (q_s0 V) (q_s1 V) (q_s2 V).
Definition arr_shape (arr : list plane) : Z * Z * Z :=
  (Z.of_nat (length arr), Z.of_nat (length (hd [] arr)), Z.of_nat (length (hd [] (hd [] arr)))).
Definition vox (arr : list plane) (i j k : Z) : Z :=
  nth (Z.to_nat k) (nth (Z.to_nat j) (nth (Z.to_nat i) arr []) []) 0.
Definition build3 (n0 n1 n2 : Z) (f : Z -> Z -> Z -> Z) : list plane :=
  map (fun i => map (fun j => map (fun k => f i j k) (zrange_from 0 (Z.to_nat n2)))
                    (zrange_from 0 (Z.to_nat n1)))
      (zrange_from 0 (Z.to_nat n0)).
Definition sel3 {A} (a : Z) (x0 x1 x2 : A) : A := if a =? 0 then x0 else if a =? 1 then x1 else x2.
Definition is_perm3 (p0 p1 p2 : Z) : bool :=
  (0 <=? p0) && (p0 <=? 2) && (0 <=? p1) && (p1 <=? 2) && (0 <=? p2) && (p2 <=? 2)
  && negb (p0 =? p1) && negb (p0 =? p2) && negb (p1 =? p2).

(* permute_spatial_axes(indices): axis k of the result is axis indices[k] of the input
   (np.transpose + the same permutation of the affine's columns) *)
Definition qvol_permute (p : list Z) (V : qvol) : res qvol :=
  match p with
  | [p0; p1; p2] =>
      if negb (is_perm3 p0 p1 p2) then Err "ValueError"
      else
        let '(n0, n1, n2) := arr_shape (q_arr V) in
        let d a := sel3 a (q_d0 V) (q_d1 V) (q_d2 V) in
        let s a := sel3 a (q_s0 V) (q_s1 V) (q_s2 V) in
        let n a := sel3 a n0 n1 n2 in
        (* index along input axis a of the voxel that lands at (i0, i1, i2) *)
        let o a i0 i1 i2 := if p0 =? a then i0 else if p1 =? a then i1 else i2 in
        Ok (QVol (q_pos V) (d p0) (d p1) (d p2) (s p0) (s p1) (s p2)
                 (build3 (n p0) (n p1) (n p2)
                         (fun i0 i1 i2 => vox (q_arr V) (o 0 i0 i1 i2) (o 1 i0 i1 i2) (o 2 i0 i1 i2))))
  | _ => Err "ValueError"
  end.

(* swap_spatial_axes(axis_1, axis_2) *)
Definition qvol_swap (a b : Z) (V : qvol) : res qvol :=
  if negb ((0 <=? a) && (a <=? 2) && (0 <=? b) && (b <=? 2)) then Err "ValueError"
  else if a =? b then Err "ValueError"
  else qvol_permute (map (fun k => if k =? a then b else if k =? b then a else k) [0; 1; 2]) V.

(* flip_spatial(axes) = self[::-1 along every listed axis]: the origin moves to the
   last voxel of a flipped axis, whose direction is negated *)
Definition qvol_flip (axes : list Z) (V : qvol) : res qvol :=
  if (3 <? Z.of_nat (length axes)) || existsb (fun a => negb ((0 <=? a) && (a <=? 2))) axes
  then Err "ValueError"
  else
    let f a := existsb (Z.eqb a) axes in
    let '(n0, n1, n2) := arr_shape (q_arr V) in
    let fl (b : bool) (n i : Z) := if b then n - 1 - i else i in
    let mv (b : bool) (n : Z) (s : Q) (d p : v3) :=
      if b then vadd p (vscale (inject_Z (n - 1) * s)%Q d) else p in
    let ng (b : bool) (d : v3) := if b then vscale (-1)%Q d else d in
    Ok (QVol (mv (f 2) n2 (q_s2 V) (q_d2 V) (mv (f 1) n1 (q_s1 V) (q_d1 V) (mv (f 0) n0 (q_s0 V) (q_d0 V) (q_pos V))))
             (ng (f 0) (q_d0 V)) (ng (f 1) (q_d1 V)) (ng (f 2) (q_d2 V)) (q_s0 V) (q_s1 V) (q_s2 V)
             (build3 n0 n1 n2 (fun i0 i1 i2 => vox (q_arr V) (fl (f 0) n0 i0) (fl (f 1) n1 i1) (fl (f 2) n2 i2)))).

Definition seg_from_qvol (V : qvol) (omit : bool) : stored :=
  let '(_, n1, n2) := arr_shape (q_arr V) in
  seg_from_volume (q_pos V) (q_d0 V) (q_d1 V) (q_d2 V) (q_s0 V) (q_s1 V) (q_s2 V) n1 n2 (q_arr V) omit.

(* [get_volume_geometry(); get_volume(); get_volume(args); caller's memory untouched] of the segmentation
   encoded from the volume a chain of Volume API calls returned; a refusal of one
   of the calls is the outcome of all three observations *)
Definition run_stored_vapi (allow_missing : bool) (rV : res qvol) (omit : bool) ss se rs re cs ce ai : val :=
  match rV with
  | Err k => VL [VErr k; VErr k; VErr k; VNone]
  | Ok V => run_stored_hist allow_missing (seg_from_qvol V omit) ss se rs re cs ce ai
  end.
