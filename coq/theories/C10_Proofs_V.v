(* C10 - proofs, part 4: affine from components, volume geometry accessors, witnesses *)
From Coq Require Import String Ascii ZArith List Bool QArith Qabs Qround Lia Lqa Qfield Setoid Morphisms.
From HD Require Import Base.Val C10_Model C10_Proofs C10_Proofs_T C10_Proofs_L.
Import ListNotations.
Open Scope Q_scope.

Ltac proj := cbn [vx vy vz c0 c1 c2 lin tr fst snd].

Definition sarg3 (sp : sarg) : option (Q * Q * Q) :=
  match sp with
  | SFloat q => Some (q, q, q)
  | SInt z => Some (inject_Z z, inject_Z z, inject_Z z)
  | SSeq [a; b; c] => Some (a, b, c)
  | SSeq _ => None
  end.
Definition rows_of (D : mat) : list Q :=
  [vx (c0 D); vx (c1 D); vx (c2 D); vy (c0 D); vy (c1 D); vy (c2 D); vz (c0 D); vz (c1 D); vz (c2 D)].
Definition scale_cols (D : mat) (s0 s1 s2 : Q) : mat := M3 (smul s0 (c0 D)) (smul s1 (c1 D)) (smul s2 (c2 D)).
Definition centre_index (n0 n1 n2 : Z) : vec :=
  V3 ((inject_Z n0 - 1) / 2) ((inject_Z n1 - 1) / 2) ((inject_Z n2 - 1) / 2).

Lemma mat_of_rows_of D : mat_of_rows (rows_of D) = Ok D.
Proof. destruct D as [[a b c] [d e f] [g h i]]. reflexivity. Qed.

Lemma scale_cols_shape D s0 s1 s2 : ortho_cols D -> veq (norms_sq D) (V3 1 1 1) ->
  ortho_cols (scale_cols D s0 s1 s2) /\ veq (norms_sq (scale_cols D s0 s1 s2)) (V3 (s0 * s0) (s1 * s1) (s2 * s2)).
Proof.
  intros (H1 & H2 & H3) (N0 & N1 & N2). unfold norms_sq in *; cbn [vx vy vz] in *.
  unfold ortho_cols, norms_sq, scale_cols, veq; proj. rewrite !dot_smul, H1, H2, H3, N0, N1, N2.
  repeat split; ring.
Qed.

Lemma sarg_list sp s0 s1 s2 : sarg3 sp = Some (s0, s1, s2) ->
  (match sp with SFloat q => Ok [q; q; q] | SInt z => Ok [inject_Z z; inject_Z z; inject_Z z]
   | SSeq l => Ok l end : res (list Q)) = Ok [s0; s1; s2].
Proof.
  intro S. destruct sp as [q|z|l]; cbn in S; [injection S as <- <- <- | injection S as <- <- <- |]; try reflexivity.
  destruct l as [|a [|b [|c [|]]]]; try discriminate S. injection S as <- <- <-. reflexivity.
Qed.

Lemma components_eval sp s0 s1 s2 D position center shape :
  sarg3 sp = Some (s0, s1, s2) -> 0 < s0 -> 0 < s1 -> 0 < s2 ->
  is_orthogonal D true tol5 = true ->
  affine_from_components sp position center (Some (rows_of D)) None shape =
  match position, center with
  | Some _, Some _ | None, None => Err EType
  | Some p, None => bind (vec_of p) (fun pv => Ok (Aff (scale_cols D s0 s1 s2) pv))
  | None, Some cp =>
      match shape with
      | None => Err EType
      | Some [n0; n1; n2] =>
          bind (vec_of cp) (fun cv => Ok (Aff (scale_cols D s0 s1 s2)
                                          (vsub cv (mapply (scale_cols D s0 s1 s2) (centre_index n0 n1 n2)))))
      | Some _ => Err EValue
      end
  end.
Proof.
  intros S H0 H1 H2 OK. unfold affine_from_components.
  destruct position as [p|], center as [cp|]; try reflexivity.
  - rewrite (sarg_list _ _ _ _ S). cbn [bind]. rewrite (Qle_bool_false _ _ H0), (Qle_bool_false _ _ H1), (Qle_bool_false _ _ H2).
    cbn [orb]. rewrite mat_of_rows_of. cbn [bind]. rewrite OK. cbn [bind]. reflexivity.
  - rewrite (sarg_list _ _ _ _ S). cbn [bind]. rewrite (Qle_bool_false _ _ H0), (Qle_bool_false _ _ H1), (Qle_bool_false _ _ H2).
    cbn [orb]. rewrite mat_of_rows_of. cbn [bind]. rewrite OK. cbn [bind].
    destruct shape as [[|n0 [|n1 [|n2 [|]]]]|]; reflexivity.
Qed.

Theorem components_shape sp s0 s1 s2 D pos :
  sarg3 sp = Some (s0, s1, s2) -> 0 < s0 -> 0 < s1 -> 0 < s2 ->
  ortho_cols D -> veq (norms_sq D) (V3 1 1 1) ->
  exists A, affine_from_components sp (Some [vx pos; vy pos; vz pos]) None (Some (rows_of D)) None None = Ok A /\
    ortho_cols (lin A) /\ veq (norms_sq (lin A)) (V3 (s0 * s0) (s1 * s1) (s2 * s2)) /\
    veq (aapply A (V3 0 0 0)) pos.
Proof.
  intros S H0 H1 H2 O N.
  rewrite (components_eval sp s0 s1 s2 D _ _ _ S H0 H1 H2 (is_orthogonal_unit_exact D O N)).
  cbn [vec_of bind]. eexists. split; [reflexivity|]. proj.
  destruct (scale_cols_shape D s0 s1 s2 O N) as (A1 & A2). split; [exact A1|]. split; [exact A2|].
  unfold veq, aapply, mapply, vadd, smul; proj. repeat split; ring.
Qed.

Theorem components_centre sp s0 s1 s2 D cp n0 n1 n2 :
  sarg3 sp = Some (s0, s1, s2) -> 0 < s0 -> 0 < s1 -> 0 < s2 ->
  ortho_cols D -> veq (norms_sq D) (V3 1 1 1) ->
  exists A, affine_from_components sp None (Some [vx cp; vy cp; vz cp]) (Some (rows_of D)) None
              (Some [n0; n1; n2]) = Ok A /\
    ortho_cols (lin A) /\ veq (norms_sq (lin A)) (V3 (s0 * s0) (s1 * s1) (s2 * s2)) /\
    veq (aapply A (centre_index n0 n1 n2)) cp.
Proof.
  intros S H0 H1 H2 O N.
  rewrite (components_eval sp s0 s1 s2 D _ _ _ S H0 H1 H2 (is_orthogonal_unit_exact D O N)).
  cbn [vec_of bind]. eexists. split; [reflexivity|]. proj.
  destruct (scale_cols_shape D s0 s1 s2 O N) as (A1 & A2). split; [exact A1|]. split; [exact A2|].
  unfold veq, aapply, vsub, vadd; proj. repeat split; ring.
Qed.

Theorem components_refuse_nonpositive sp s0 s1 s2 position center direction po shape :
  sarg3 sp = Some (s0, s1, s2) -> s0 <= 0 \/ s1 <= 0 \/ s2 <= 0 ->
  exists k, affine_from_components sp position center direction po shape = Err k.
Proof.
  intros S H. unfold affine_from_components.
  destruct direction, po; try (eexists; reflexivity); destruct position, center; try (eexists; reflexivity);
  rewrite (sarg_list _ _ _ _ S); cbn [bind];
  (assert (B : Qle_bool s0 0 || Qle_bool s1 0 || Qle_bool s2 0 = true);
   [destruct H as [H|[H|H]]; apply Qle_bool_iff in H; rewrite H; rewrite ?orb_true_r; reflexivity|]);
  rewrite B; eexists; reflexivity.
Qed.

(* from a patient orientation: matrix and letters agree *)
Theorem components_letters sp s0 s1 s2 po o pos :
  sarg3 sp = Some (s0, s1, s2) -> 0 < s0 -> 0 < s1 -> 0 < s2 -> normalize_po po = Ok o ->
  exists A, affine_from_components sp (Some [vx pos; vy pos; vz pos]) None None (Some po) None = Ok A /\
    get_closest_patient_orientation (lin A) = Ok o /\ veq (aapply A (V3 0 0 0)) pos /\
    ortho_cols (lin A) /\ veq (norms_sq (lin A)) (V3 (s0 * s0) (s1 * s1) (s2 * s2)).
Proof.
  intros S H0 H1 H2 N.
  pose proof (normalize_po_all48 _ _ N) as I.
  pose proof letters_unit_b as B. rewrite forallb_forall in B. specialize (B o I).
  apply andb_true_iff in B as (B & Q3). apply andb_true_iff in B as (B & Q2).
  apply andb_true_iff in B as (B & Q1). apply list_letter_eqb_eq in B.
  pose proof (proj2 (valid_po_iff o) I) as (L & _).
  destruct o as [|l0 [|l1 [|l2 [|]]]]; try discriminate L. cbn [letters3 c0 c1 c2] in *.
  unfold affine_from_components.
  rewrite (sarg_list _ _ _ _ S). cbn [bind]. rewrite (Qle_bool_false _ _ H0), (Qle_bool_false _ _ H1), (Qle_bool_false _ _ H2).
  cbn [orb]. unfold rotation_for_patient_orientation. rewrite N. cbn [bind rot_for_letters vec_of]. proj.
  eexists. split; [reflexivity|]. proj.
  assert (OC : ortho_cols (M3 (letter_vec l0) (letter_vec l1) (letter_vec l2))).
  { unfold ortho_cols; proj. repeat split; apply Qeq_bool_eq; assumption. }
  assert (P1 : 0 < 1) by reflexivity.
  split.
  - unfold get_closest_patient_orientation.
    rewrite (is_orthogonal_exact _ (ortho_cols_scale s0 s1 s2 _ _ _ (ortho_cols_scale 1 1 1 _ _ _ OC))).
    rewrite closest_letters_scale by assumption. rewrite closest_letters_scale by assumption.
    rewrite B. reflexivity.
  - split; [unfold veq, aapply, mapply, vadd, smul; proj; repeat split; ring|].
    split; [apply (ortho_cols_scale s0 s1 s2 _ _ _ (ortho_cols_scale 1 1 1 _ _ _ OC))|].
    unfold norms_sq, veq; proj. rewrite !dot_smul.
    destruct l0, l1, l2; unfold letter_vec, dot; proj; repeat split; ring.
Qed.

(* ---------------- volume geometry ---------------- *)
Lemma qsqrt_spec q r : qsqrt q = Some r -> r * r == q /\ 0 <= r.
Proof.
  unfold qsqrt. pose proof (Qred_correct q) as RC. destruct (Qred q) as [n d]. cbn [Qnum Qden].
  destruct ((0 <=? n)%Z && (Z.sqrt n * Z.sqrt n =? n)%Z && (Z.sqrt (Z.pos d) * Z.sqrt (Z.pos d) =? Z.pos d)%Z) eqn:C;
    [|discriminate].
  intro H; injection H as <-.
  apply andb_true_iff in C as (C & C3). apply andb_true_iff in C as (C1 & C2).
  apply Z.eqb_eq in C2, C3.
  assert (P : (0 < Z.sqrt (Z.pos d))%Z).
  { pose proof (Z.sqrt_nonneg (Z.pos d)). destruct (Z.eq_dec (Z.sqrt (Z.pos d)) 0) as [Z0|]; [|lia].
    rewrite Z0 in C3. discriminate C3. }
  split.
  - rewrite <- RC. unfold Qeq, Qmult; cbn [Qnum Qden]. rewrite C2. f_equal.
    change (Z.sqrt (Z.pos d)) with (Z.pos (Pos.sqrt d)) in C3. rewrite Pos2Z.inj_mul. symmetry; exact C3.
  - unfold Qle; cbn [Qnum Qden]. pose proof (Z.sqrt_nonneg n). lia.
Qed.

Lemma sq_eq_pos s a : s * s == a * a -> 0 <= s -> 0 < a -> s == a.
Proof.
  intros E Hs Ha. assert (F : (s - a) * (s + a) == 0) by (ring_simplify; rewrite E; ring).
  apply Qmult_integral in F as [F|F]; [lra | exfalso; lra].
Qed.

Theorem volume_accessors pos r c sr sc ss nf rows cols :
  orthonormal r c -> 0 < sr -> 0 < sc -> 0 < ss ->
  exists G, geom_from_attributes (apos pos) (aori r c) (asp sr sc) ss nf rows cols = Ok G /\
    g_aff G = Aff (rotation_core r c PD PR true RH sr sc ss) pos /\ g_shape G = [nf; rows; cols] /\
    g_position G = pos /\
    veq (g_spacing_sq G) (V3 (ss * ss) (sr * sr) (sc * sc)) /\
    ortho_cols (lin (g_aff G)) /\
    g_handedness G = RH /\
    (forall s, g_spacing G = Some s -> veq s (V3 ss sr sc)) /\
    (forall dr dc, g_direction_cosines G = Some (dr, dc) -> veq dr r /\ veq dc c) /\
    g_center_position G = Ok (aapply (g_aff G) (centre_index nf rows cols)).
Proof.
  intros O Hr Hc Hs.
  destruct (rotation_shape r c PD PR true RH sr sc ss O eq_refl) as (S1 & S2 & S3).
  set (M := rotation_core r c PD PR true RH sr sc ss) in *.
  exists (Geom (Aff M pos) [nf; rows; cols]).
  assert (E : geom_from_attributes (apos pos) (aori r c) (asp sr sc) ss nf rows cols =
              Ok (Geom (Aff M pos) [nf; rows; cols])).
  { unfold geom_from_attributes. destruct pos as [px py pz], r as [rx ry rz], c as [cx cy cz].
    unfold apos, aori, asp; proj.
    rewrite (affine_from_attributes_ok px py pz rx ry rz cx cy cz DR PD PR true RHs RH sr sc ss
               eq_refl eq_refl eq_refl Hr Hc).
    cbn [bind]. unfold geom_make. cbn [lin]. fold M. rewrite (is_orthogonal_exact M S1). reflexivity. }
  split; [exact E|]. split; [reflexivity|]. split; [reflexivity|]. split; [reflexivity|].
  cbn [axis_spacings conv_sp hand_sign] in S2, S3.
  assert (SQ : veq (g_spacing_sq (Geom (Aff M pos) [nf; rows; cols])) (V3 (ss * ss) (sr * sr) (sc * sc))) by exact S2.
  split; [exact SQ|]. split; [exact S1|].
  assert (DP : 0 < det M).
  { rewrite S3. setoid_replace (1 * (sr * sc * ss)) with (sr * sc * ss) by ring.
    apply Qmult_lt_0_compat; [apply Qmult_lt_0_compat|]; assumption. }
  split.
  { unfold g_handedness; cbn [g_aff lin]. unfold Qlt_b. rewrite (proj2 (Qle_bool_iff 0 (det M))); [reflexivity|].
    apply Qlt_le_weak; exact DP. }
  assert (SP : forall s, g_spacing (Geom (Aff M pos) [nf; rows; cols]) = Some s -> veq s (V3 ss sr sc)).
  { intros s H. unfold g_spacing in H. destruct SQ as (Q0 & Q1 & Q2). cbn [vx vy vz] in Q0, Q1, Q2.
    destruct (qsqrt (vx (g_spacing_sq (Geom (Aff M pos) [nf; rows; cols])))) as [a|] eqn:A; [|discriminate].
    destruct (qsqrt (vy (g_spacing_sq (Geom (Aff M pos) [nf; rows; cols])))) as [b|] eqn:B; [|discriminate].
    destruct (qsqrt (vz (g_spacing_sq (Geom (Aff M pos) [nf; rows; cols])))) as [d|] eqn:D; [|discriminate].
    injection H as <-. apply qsqrt_spec in A as (A1 & A2), B as (B1 & B2), D as (D1 & D2).
    unfold veq; proj. repeat split; apply sq_eq_pos; try assumption.
    - rewrite A1; exact Q0. - rewrite B1; exact Q1. - rewrite D1; exact Q2. }
  split; [exact SP|]. split; [|reflexivity].
  intros dr dc H. unfold g_direction_cosines in H.
  destruct (g_spacing (Geom (Aff M pos) [nf; rows; cols])) as [s|] eqn:GS; [|discriminate].
  injection H as <- <-. destruct (SP s eq_refl) as (_ & P1 & P2). cbn [vx vy vz] in P1, P2.
  cbn [g_aff lin]. subst M. unfold rotation_core. cbn [conv_vec conv_sp c1 c2].
  assert (Nr : ~ sr == 0) by (apply pos_nonzero; exact Hr).
  assert (Nc : ~ sc == 0) by (apply pos_nonzero; exact Hc).
  unfold veq, smul; proj. rewrite P1, P2. repeat split; field; assumption.
Qed.

(* ---------------- witnesses ---------------- *)
(* flip_indices of the private helper _transform_affine_matrix (not reachable from any public
   function): the origin is NOT moved to the opposite corner for a non-symmetric rotation *)
Example flip_indices_refuted :
  exists A n0 n1 n2 R,
    transform_affine_matrix A [n0; n1; n2] (Some [true; false; false]) None None None = Ok R /\
    ~ veq (tr R) (aapply A (V3 (inject_Z n0 - 1) 0 0)).
Proof.
  exists (Aff (M3 (V3 0 3 0) (V3 2 0 0) (V3 0 0 1)) (V3 10 20 30)), 4%Z, 5%Z, 6%Z.
  eexists. split; [reflexivity|]. intros (H1 & H2 & H3). vm_compute in H2. discriminate H2.
Qed.
