(* C16 - the argument checks of the template classes vs. the well-formedness premise `wf` / `ref_ok` of the
   theorems: what the constructors accept is what ref_ok describes, EXCEPT that ReferencedSegment / VolumeSurface
   accept an empty source image list and VolumeSurface (POINT / ELLIPSOID) an empty graphic data list - and a group
   built from such an object cannot report the reference it was constructed with (refuted clause, real defect). *)
From Coq Require Import String ZArith List Bool Lia.
From HD Require Import Base.Val C16_Model C16_Proofs C16_Proofs_Acc C16_Proofs_Tree C16_Proofs_E2E.
Import ListNotations.
Open Scope Z_scope.

Definition cp_spec (region segment : option ospec) : res (res gref) :=
  bind (opt_obj region) (fun r => bind (opt_obj segment) (fun s => Ok (construct_planar r s))).
Definition cv_spec (regions : option (list ospec)) (surface segment : option ospec) : res (res gref) :=
  bind (opt_objs regions) (fun r => bind (opt_obj surface) (fun su => bind (opt_obj segment) (fun s =>
    Ok (construct_volumetric r su s)))).

Lemma run_construct_planar_eq region segment :
  run_construct_planar region segment = construct_val Planar (cp_spec region segment).
Proof. reflexivity. Qed.
Lemma run_construct_volumetric_eq regions surface segment :
  run_construct_volumetric regions surface segment = construct_val Volumetric (cv_spec regions surface segment).
Proof. reflexivity. Qed.

(* what the documentation of ReferencedSegment / VolumeSurface does not allow but the constructors accept *)
Definition undocumented (r : gref) : bool :=
  match r with
  | Segment _ _ (SrcImages []) => true
  | Surface _ n so => Nat.eqb n 0 || match so with SrcImages [] => true | _ => false end
  | _ => false
  end.

Lemma regions_of_nonempty l r : regions_of l = Ok r -> l <> [] -> r <> [].
Proof.
  destruct l as [|o t]; [congruence|]. intros H _. cbn [regions_of] in H.
  destruct o; try discriminate. destruct (regions_of t); cbn [bind] in H; [|discriminate]. inversion H. discriminate.
Qed.

Theorem construct_planar_sound region segment r : construct_planar region segment = Ok r -> ref_ok Planar r = true.
Proof.
  unfold construct_planar.
  destruct region as [[]|], segment as [[]|]; cbn; intros H; inversion H; reflexivity.
Qed.

Theorem construct_volumetric_sound_partial regions surface segment r :
  construct_volumetric regions surface segment = Ok r -> ref_ok Volumetric r = true \/ undocumented r = true.
Proof.
  unfold construct_volumetric.
  destruct (match regions with Some l => existsb is_r3 l | None => false end); [discriminate|].
  destruct (match segment with Some (OSegment _ _ _) | None => false | Some _ => true end); [discriminate|].
  destruct (nsome regions + nsome surface + nsome segment =? 0); [discriminate|].
  destruct (1 <? nsome regions + nsome surface + nsome segment); [discriminate|].
  destruct regions as [[|o t]|].
  - discriminate.
  - destruct (regions_of (o :: t)) as [rs|e] eqn:E; cbn [bind]; [|discriminate].
    intros H. inversion H. left. cbn [ref_ok]. apply regions_of_nonempty in E; [|discriminate].
    destruct rs; [congruence|reflexivity].
  - destruct surface as [[]|]; try discriminate.
    + intros H. inversion H. cbn [ref_ok undocumented sources_ok].
      destruct n as [|n]; [right; reflexivity|]. destruct so as [[|x l]|u]; cbn; auto.
    + destruct segment as [[]|]; try discriminate. intros H. inversion H. cbn [ref_ok undocumented sources_ok].
      destruct so as [[|x l]|u]; cbn; auto.
Qed.

(* every reference ref_ok describes (region in space apart: no constructor takes one) is constructible *)
Definition constructible (r : gref) : Prop :=
  match r with
  | Surface gt n _ => surface_count_check gt n = Ok tt
  | RegionInSpace _ _ | SourceImgs _ => False
  | _ => True
  end.
Definition src_arg_of (so : sources) : src_arg :=
  match so with SrcImages l => SrcArg (Some l) None | SrcSeries u => SrcArg None (Some u) end.
Lemma construct_sources_of so : construct_sources (src_arg_of so) = Ok so.
Proof. now destruct so. Qed.

Lemma objs_regions rs : objs (map (fun x => SpRegion2D (fst x) (fst (snd x)) (snd (snd x))) rs)
  = Ok (map (fun x => ORegion2D (fst x) (fst (snd x)) (snd (snd x))) rs).
Proof. induction rs as [|x t IH]; cbn [map objs make_obj bind]; [reflexivity|]. now rewrite IH. Qed.
Lemma regions_of_regions rs : regions_of (map (fun x => ORegion2D (fst x) (fst (snd x)) (snd (snd x))) rs) = Ok rs.
Proof.
  induction rs as [|[gt [c i]] t IH]; cbn [map regions_of fst snd]; [reflexivity|]. rewrite IH. reflexivity.
Qed.
Lemma no_r3_regions rs : existsb is_r3 (map (fun x => ORegion2D (fst x) (fst (snd x)) (snd (snd x))) rs) = false.
Proof. induction rs; cbn; auto. Qed.

Theorem construct_complete k r : ref_ok k r = true -> constructible r ->
  match k with
  | Planar => exists region segment, cp_spec region segment = Ok (Ok r)
  | Volumetric => exists regions surface segment, cv_spec regions surface segment = Ok (Ok r)
  | ImageK => True
  end.
Proof.
  intros Hr Hc. destruct k; [| |exact I].
  - destruct r as [gt c i|gt|c i sc si|rs|c i so|gt n so|c i|l]; cbn in Hr, Hc; try discriminate; try contradiction.
    + exists (Some (SpRegion2D gt c i)), None. reflexivity.
    + exists (Some (SpRegion3D gt)), None. reflexivity.
    + exists None, (Some (SpSegFrame c i sc si)). reflexivity.
  - destruct r as [gt c i|gt|c i sc si|rs|c i so|gt n so|c i|l]; cbn in Hr, Hc; try discriminate; try contradiction.
    + exists (Some (map (fun x => SpRegion2D (fst x) (fst (snd x)) (snd (snd x))) rs)), None, None.
      unfold cv_spec. cbn [opt_objs]. rewrite objs_regions. cbn [bind opt_obj]. unfold construct_volumetric.
      rewrite no_r3_regions. cbn [nsome]. cbn. destruct rs as [|x t]; [discriminate|].
      change (ORegion2D (fst x) (fst (snd x)) (snd (snd x)) :: map (fun x0 => ORegion2D (fst x0) (fst (snd x0)) (snd (snd x0))) t)
        with (map (fun x0 => ORegion2D (fst x0) (fst (snd x0)) (snd (snd x0))) (x :: t)).
      rewrite regions_of_regions. reflexivity.
    + exists None, None, (Some (SpSegment c i (src_arg_of so))).
      unfold cv_spec. cbn [opt_objs opt_obj make_obj bind]. rewrite construct_sources_of. reflexivity.
    + exists None, (Some (SpSurface gt n (src_arg_of so))), None.
      unfold cv_spec. cbn [opt_objs opt_obj make_obj bind]. rewrite Hc, construct_sources_of. reflexivity.
Qed.

(* a DOCUMENTED construction yields a record the theorems speak about (good), so by C16_end_to_end the group is
   returned by exactly its query and every accessor reports what it was constructed with *)
Theorem constructed_group_good_partial k r :
  match k with
  | Planar => exists region segment, construct_planar region segment = Ok r
  | Volumetric => exists regions surface segment, construct_volumetric regions surface segment = Ok r
  | ImageK => False
  end ->
  undocumented r = false -> good (bare_group k r).
Proof.
  intros H Hu. assert (Hr : ref_ok k r = true).
  { destruct k; [| |contradiction].
    - destruct H as (a & b & H). now apply construct_planar_sound in H.
    - destruct H as (a & b & c & H). apply construct_volumetric_sound_partial in H as [H|H]; [assumption|congruence]. }
  split.
  - unfold wf, bare_group. cbn [g_kind g_ref g_evals g_meas forallb]. rewrite Hr. destruct k; reflexivity.
  - reflexivity.
Qed.

(* FULL statement (false of the code as it is):
     forall specs r, cv_spec regions surface segment = Ok (Ok r) ->
       acc_segment (build (bare_group Volumetric r)) = Ok (segment_of r) /\ acc_vol_roi (build ...) = Ok (vol_roi_of r)
                       /\ acc_reference_type allowed_volumetric (build ...) = Ok (ref_code r).
   Refuted: the constructors accept an empty source image list / an empty graphic data list, and the group then
   raises RuntimeError where it should report its reference. *)
Theorem constructed_reference_reported_refuted :
  (exists r, cv_spec None None (Some (SpSegment 3 11 (SrcArg (Some []) None))) = Ok (Ok r) /\
             acc_segment (build (bare_group Volumetric r)) = Err "RuntimeError"%string) /\
  (exists r, cv_spec None (Some (SpSurface 6 1 (SrcArg (Some []) None))) None = Ok (Ok r) /\
             acc_vol_roi (build (bare_group Volumetric r)) = Err "RuntimeError"%string) /\
  (exists r, cv_spec None (Some (SpSurface 1 0 (SrcArg None (Some 2)))) None = Ok (Ok r) /\
             acc_reference_type allowed_volumetric (build (bare_group Volumetric r)) = Err "RuntimeError"%string).
Proof. repeat split; eexists; split; vm_compute; reflexivity. Qed.
