(* C16 - the argument checks of the template classes vs. the well-formedness premise `wf` / `ref_ok` of the
   theorems: what the constructors accept is exactly what ref_ok describes (a region in space apart), so every group
   the template classes build is a record the theorems speak about and reports the reference it was constructed
   with.  (Before fix D107 ReferencedSegment / VolumeSurface accepted an empty source image list and an empty
   graphic data list; the three former counterexamples are kept as refusal examples.) *)
From Coq Require Import String ZArith List Bool Lia.
From HD Require Import Base.Val C16_Model C16_Proofs C16_Proofs_Acc C16_Proofs_Tree C16_Proofs_E2E.
Import ListNotations.
Open Scope Z_scope.

Definition cp_spec (region segment : option ospec) : res (res gref) :=
  bind (opt_obj region) (fun r => bind (opt_obj segment) (fun s => Ok (construct_planar r s))).
Definition cv_spec (regions : option (list ospec)) (surface segment : option ospec) : res (res gref) :=
  bind (opt_objs regions) (fun r => bind (opt_obj surface) (fun su => bind (opt_obj segment) (fun s =>
    Ok (construct_volumetric r su s)))).

Lemma run_construct_planar_eq region segment :
  run_construct_planar region segment = construct_val Planar (cp_spec region segment).
Proof. reflexivity. Qed.
Lemma run_construct_volumetric_eq regions surface segment :
  run_construct_volumetric regions surface segment = construct_val Volumetric (cv_spec regions surface segment).
Proof. reflexivity. Qed.

(* the objects make_obj yields: a segment / surface carries a source, a surface at least one item *)
Definition obj_ok (o : obj) : bool :=
  match o with
  | OSegment _ _ so => sources_ok so
  | OSurface _ n so => negb (Nat.eqb n 0) && sources_ok so
  | _ => true
  end.
Definition oobj_ok (o : option obj) : bool := match o with Some x => obj_ok x | None => true end.

Lemma construct_sources_ok a so : construct_sources a = Ok so -> sources_ok so = true.
Proof.
  destruct a as [[[|x l]|] [u|]]; cbn; intros H; inversion H; reflexivity.
Qed.
Lemma surface_count_pos gt n : surface_count_check gt n = Ok tt -> negb (Nat.eqb n 0) = true.
Proof.
  unfold surface_count_check. destruct n as [|n]; [|reflexivity].
  destruct ((gt =? 6) || (gt =? 1)); [cbn; discriminate|].
  destruct ((gt =? 5) || (gt =? 4)); cbn; discriminate.
Qed.
Lemma make_obj_ok s o : make_obj s = Ok o -> obj_ok o = true.
Proof.
  destruct s as [gt c i|gt|c i sc si|c i a|gt n a|]; cbn [make_obj]; try (intros H; inversion H; reflexivity).
  - destruct (construct_sources a) as [so|e] eqn:E; cbn [bind]; intros H; inversion H.
    cbn [obj_ok]. now apply construct_sources_ok in E.
  - destruct (surface_count_check gt n) as [[]|e] eqn:E1; cbn [bind]; [|discriminate].
    destruct (construct_sources a) as [so|e] eqn:E2; cbn [bind]; intros H; inversion H.
    cbn [obj_ok]. rewrite (surface_count_pos gt n E1). now apply construct_sources_ok in E2.
Qed.
Lemma opt_obj_ok s o : opt_obj s = Ok o -> oobj_ok o = true.
Proof.
  destruct s as [s|]; cbn [opt_obj]; [|intros H; inversion H; reflexivity].
  destruct (make_obj s) as [x|e] eqn:E; cbn [bind]; intros H; inversion H. cbn [oobj_ok]. now apply make_obj_ok in E.
Qed.

Lemma regions_of_nonempty l r : regions_of l = Ok r -> l <> [] -> r <> [].
Proof.
  destruct l as [|o t]; [congruence|]. intros H _. cbn [regions_of] in H.
  destruct o; try discriminate. destruct (regions_of t); cbn [bind] in H; [|discriminate]. inversion H. discriminate.
Qed.

Theorem construct_planar_sound region segment r : construct_planar region segment = Ok r -> ref_ok Planar r = true.
Proof.
  unfold construct_planar.
  destruct region as [[]|], segment as [[]|]; cbn; intros H; inversion H; reflexivity.
Qed.

(* on objects the object constructors yield *)
Theorem construct_volumetric_sound_obj regions surface segment r : oobj_ok surface = true -> oobj_ok segment = true ->
  construct_volumetric regions surface segment = Ok r -> ref_ok Volumetric r = true.
Proof.
  intros Hsu Hse. unfold construct_volumetric.
  destruct (match regions with Some l => existsb is_r3 l | None => false end); [discriminate|].
  destruct (match segment with Some (OSegment _ _ _) | None => false | Some _ => true end); [discriminate|].
  destruct (nsome regions + nsome surface + nsome segment =? 0); [discriminate|].
  destruct (1 <? nsome regions + nsome surface + nsome segment); [discriminate|].
  destruct regions as [[|o t]|].
  - discriminate.
  - destruct (regions_of (o :: t)) as [rs|e] eqn:E; cbn [bind]; [|discriminate].
    intros H. inversion H. cbn [ref_ok]. apply regions_of_nonempty in E; [|discriminate].
    destruct rs; [congruence|reflexivity].
  - destruct surface as [[]|]; try discriminate.
    + intros H. inversion H; subst. exact Hsu.
    + destruct segment as [[]|]; try discriminate. intros H. inversion H; subst. exact Hse.
Qed.

(* the full statements, on what the harness observes: objects first, then the group *)
Theorem construct_planar_spec_sound region segment r : cp_spec region segment = Ok (Ok r) -> ref_ok Planar r = true.
Proof.
  unfold cp_spec. destruct (opt_obj region) as [a|e]; cbn [bind]; [|discriminate].
  destruct (opt_obj segment) as [b|e]; cbn [bind]; [|discriminate].
  intros H. inversion H as [H1]. now apply construct_planar_sound in H1.
Qed.
Theorem construct_volumetric_sound regions surface segment r :
  cv_spec regions surface segment = Ok (Ok r) -> ref_ok Volumetric r = true.
Proof.
  unfold cv_spec. destruct (opt_objs regions) as [a|e]; cbn [bind]; [|discriminate].
  destruct (opt_obj surface) as [b|e] eqn:Eb; cbn [bind]; [|discriminate].
  destruct (opt_obj segment) as [c|e] eqn:Ec; cbn [bind]; [|discriminate].
  intros H. inversion H as [H1]. apply opt_obj_ok in Eb, Ec.
  now apply (construct_volumetric_sound_obj a b c r Eb Ec).
Qed.

(* every reference ref_ok describes (region in space apart: no constructor takes one) is constructible *)
Definition constructible (r : gref) : Prop :=
  match r with
  | Surface gt n _ => surface_count_check gt n = Ok tt
  | RegionInSpace _ _ | SourceImgs _ => False
  | _ => True
  end.
Definition src_arg_of (so : sources) : src_arg :=
  match so with SrcImages l => SrcArg (Some l) None | SrcSeries u => SrcArg None (Some u) end.
Lemma construct_sources_of so : sources_ok so = true -> construct_sources (src_arg_of so) = Ok so.
Proof. destruct so as [[|x l]|u]; cbn; [discriminate| |]; reflexivity. Qed.

Lemma objs_regions rs : objs (map (fun x => SpRegion2D (fst x) (fst (snd x)) (snd (snd x))) rs)
  = Ok (map (fun x => ORegion2D (fst x) (fst (snd x)) (snd (snd x))) rs).
Proof. induction rs as [|x t IH]; cbn [map objs make_obj bind]; [reflexivity|]. now rewrite IH. Qed.
Lemma regions_of_regions rs : regions_of (map (fun x => ORegion2D (fst x) (fst (snd x)) (snd (snd x))) rs) = Ok rs.
Proof.
  induction rs as [|[gt [c i]] t IH]; cbn [map regions_of fst snd]; [reflexivity|]. rewrite IH. reflexivity.
Qed.
Lemma no_r3_regions rs : existsb is_r3 (map (fun x => ORegion2D (fst x) (fst (snd x)) (snd (snd x))) rs) = false.
Proof. induction rs; cbn; auto. Qed.

Theorem construct_complete k r : ref_ok k r = true -> constructible r ->
  match k with
  | Planar => exists region segment, cp_spec region segment = Ok (Ok r)
  | Volumetric => exists regions surface segment, cv_spec regions surface segment = Ok (Ok r)
  | ImageK => True
  end.
Proof.
  intros Hr Hc. destruct k; [| |exact I].
  - destruct r as [gt c i|gt|c i sc si|rs|c i so|gt n so|c i|l]; cbn in Hr, Hc; try discriminate; try contradiction.
    + exists (Some (SpRegion2D gt c i)), None. reflexivity.
    + exists (Some (SpRegion3D gt)), None. reflexivity.
    + exists None, (Some (SpSegFrame c i sc si)). reflexivity.
  - destruct r as [gt c i|gt|c i sc si|rs|c i so|gt n so|c i|l]; cbn [ref_ok constructible] in Hr, Hc;
      try discriminate; try contradiction.
    + exists (Some (map (fun x => SpRegion2D (fst x) (fst (snd x)) (snd (snd x))) rs)), None, None.
      unfold cv_spec. cbn [opt_objs]. rewrite objs_regions. cbn [bind opt_obj]. unfold construct_volumetric.
      rewrite no_r3_regions. cbn [nsome]. cbn. destruct rs as [|x t]; [discriminate|].
      change (ORegion2D (fst x) (fst (snd x)) (snd (snd x)) :: map (fun x0 => ORegion2D (fst x0) (fst (snd x0)) (snd (snd x0))) t)
        with (map (fun x0 => ORegion2D (fst x0) (fst (snd x0)) (snd (snd x0))) (x :: t)).
      rewrite regions_of_regions. reflexivity.
    + exists None, None, (Some (SpSegment c i (src_arg_of so))).
      unfold cv_spec. cbn [opt_objs opt_obj make_obj bind]. rewrite construct_sources_of by assumption. reflexivity.
    + apply andb_true_iff in Hr as [_ Hs].
      exists None, (Some (SpSurface gt n (src_arg_of so))), None.
      unfold cv_spec. cbn [opt_objs opt_obj make_obj bind]. rewrite Hc. cbn [bind].
      rewrite construct_sources_of by assumption. reflexivity.
Qed.

(* EVERY accepted construction yields a record the theorems speak about (good), so by C16_end_to_end the group is
   returned by exactly its query and every accessor reports what it was constructed with *)
Theorem constructed_group_good k r :
  match k with
  | Planar => exists region segment, cp_spec region segment = Ok (Ok r)
  | Volumetric => exists regions surface segment, cv_spec regions surface segment = Ok (Ok r)
  | ImageK => False
  end -> good (bare_group k r).
Proof.
  intros H. assert (Hr : ref_ok k r = true).
  { destruct k; [| |contradiction].
    - destruct H as (a & b & H). now apply construct_planar_spec_sound in H.
    - destruct H as (a & b & c & H). now apply construct_volumetric_sound in H. }
  split.
  - unfold wf, bare_group. cbn [g_kind g_ref g_evals g_meas forallb]. rewrite Hr. destruct k; reflexivity.
  - reflexivity.
Qed.

(* the clause that was false before fix D107: a volumetric group the constructors accept reports the reference it
   was constructed with *)
Theorem constructed_reference_reported regions surface segment r :
  cv_spec regions surface segment = Ok (Ok r) ->
  acc_reference_type allowed_volumetric (build (bare_group Volumetric r)) = Ok (ref_code r) /\
  acc_vol_roi (build (bare_group Volumetric r)) = Ok (vol_roi_of r) /\
  acc_segment (build (bare_group Volumetric r)) = Ok (segment_of r).
Proof.
  intros H. destruct (constructed_group_good Volumetric r) as [Hw _]; [eauto|].
  exact (accessors_identity_volumetric (bare_group Volumetric r) Hw eq_refl).
Qed.
Theorem constructed_reference_reported_planar region segment r :
  cp_spec region segment = Ok (Ok r) ->
  acc_reference_type allowed_planar (build (bare_group Planar r)) = Ok (ref_code r) /\
  acc_planar_roi (build (bare_group Planar r)) = planar_roi_of r /\
  acc_segframe (build (bare_group Planar r)) = Ok (segframe_of r).
Proof.
  intros H. destruct (constructed_group_good Planar r) as [Hw _]; [eauto|].
  exact (accessors_identity_planar (bare_group Planar r) Hw eq_refl).
Qed.

(* the three former counterexamples (empty source image list, empty volume surface) are refused at the object stage *)
Lemma former_counterexamples_refused :
  cv_spec None None (Some (SpSegment 3 11 (SrcArg (Some []) None))) = Err "ValueError"%string /\
  cv_spec None (Some (SpSurface 6 1 (SrcArg (Some []) None))) None = Err "ValueError"%string /\
  cv_spec None (Some (SpSurface 1 0 (SrcArg None (Some 2)))) None = Err "ValueError"%string /\
  cv_spec None None (Some (SpSegment 3 11 (SrcArg (Some []) (Some 2)))) = Err "ValueError"%string /\
  (exists r, cv_spec None None (Some (SpSegment 3 11 (SrcArg (Some [(0, 3)]) None))) = Ok (Ok r)).
Proof. repeat split; try (eexists; vm_compute; reflexivity); vm_compute; reflexivity. Qed.
