(* C03 - model, part 2: derived images other than segmentations, and the way a
   stored derived image is opened.
   Mirrors (src/highdicom, current tree):
     pm/sop.py   ParametricMap.__init__ (PATIENT coordinate system): which plane
                 positions / orientation / pixel measures are recorded (the caller's
                 when given, else those of the source images; NO sorting, NO omission,
                 NO inference of the slice spacing), the count guard, and the pairing
                 of per-frame plane position and pixel data (frame k holds plane k of
                 the pixel array and records position k);
                 tiled (SLIDE) parametric maps aligned with the frames of their source:
                 the total pixel matrix of the source is taken over
     image.py    the read-back is the one of C03_Model.v (get_volume_geometry /
                 get_volume, stacked and tiled branch)
   How the stored object is opened (held in memory, read from a file eagerly, or
   with lazy_frame_retrieval=True through io.ImageFileReader, from bytes / a
   stream / a path) is NOT an input of the model: the model has value semantics,
   a stored frame IS its pixels.
   NO proofs in this file. *)
From Coq Require Import String ZArith List Bool QArith.
From HD Require Import Base.Val C03_Model.
Import ListNotations.
Open Scope Z_scope.

(* ParametricMap(source_images, pixel_array, plane_positions=u_ps,
                 plane_orientation=u_or, pixel_measures=u_pm):
   src_* = plane positions (order of the source images / of the frames of a
   multi-frame source), orientation, PixelSpacing and SpacingBetweenSlices (if any)
   of the source images *)
Definition pm_stored (src_ps : list v3) (src_rc src_cc : v3) (src_spr src_spc : Q) (src_sbs : option Q)
           (u_ps : option (list v3)) (u_or : option (v3 * v3)) (u_pm : option (Q * Q * option Q))
           (rows cols : Z) (arr : list plane) : res stored :=
  let ps := match u_ps with Some l => l | None => src_ps end in
  if negb (Nat.eqb (length ps) (length arr)) then Err "ValueError"
  else
    let o := match u_or with Some o => o | None => (src_rc, src_cc) end in
    let m := match u_pm with Some m => m | None => (src_spr, src_spc, src_sbs) end in
    Ok (Stored (fst o) (snd o) (fst (fst m)) (snd (fst m)) (snd m) rows cols (combine ps arr)).

(* what every stored frame records and holds: (PlanePositionSequence, pixels) *)
Definition vframes (st : stored) : val :=
  VL (map (fun pp => VL [vv3 (fst pp); vz_list2 (snd pp)]) (st_planes st)).

(* [get_volume_geometry(); get_volume(); get_volume(args); per input plane: recorded position + pixels]
   of the parametric map; a refusal of the constructor is the whole result *)
Definition run_pm (allow_missing : bool) (r : res stored) ss se rs re cs ce ai : val :=
  match r with
  | Err k => VErr k
  | Ok st => match run_stored allow_missing st ss se rs re cs ce ai with
             | VL l => VL (l ++ [vframes st])
             | v => v
             end
  end.

(* a stored segmentation / image that is written to a file and opened again (eagerly or
   lazily): [get_volume_geometry(); get_volume(); get_volume(args); get_volume() assembled
   per segment and recombined] - the reader is not an input *)
Definition run_stored_rd (allow_missing : bool) (st : stored) ss se rs re cs ce ai : val :=
  match run_stored allow_missing st ss se rs re cs ce ai with
  | VL l => VL (l ++ [vvolume (get_volume allow_missing st None None None None None None false)])
  | v => v
  end.

(* ---------------------------------------------------------------------- *)
(* tiled (SLIDE) parametric maps: pm/sop.py, SLIDE branch                    *)
(* ---------------------------------------------------------------------- *)
(* Tiles are named by their row-major number t on the tile grid of the source
   (nc tiles per row): tile t has its top left pixel at zero-based matrix
   indices ((t / nc) * th, (t mod nc) * tw).
   src_listed = the tiles in the order of the source's frames; u_listed = the tiles
   whose (source) plane positions the caller passed as plane_positions, in the
   caller's order.  'Spatial locations preserved' (no plane_positions, or exactly
   the source's in the source's order): TotalPixelMatrixOriginSequence / Rows /
   Columns are the SOURCE's.  Otherwise: the origin is the X / Y / Z offset of the
   np.lexsort([rows, columns])-first listed tile (the top left tile: the source's
   origin, see below), and
   Rows / Columns = position of the lexsort-last listed tile + tile size - 1. *)
Definition tile_ab (nc t : Z) : Z * Z := (t / nc, t mod nc).
(* order of np.lexsort([row_offsets, col_offsets]): by column, then by row *)
Definition lex_cr_le (x y : Z * Z) : bool :=
  (snd x <? snd y) || ((snd x =? snd y) && (fst x <=? fst y)).
Definition lex_first (l : list (Z * Z)) (d : Z * Z) : Z * Z :=
  fold_left (fun m x => if lex_cr_le m x then m else x) l d.
Definition lex_last (l : list (Z * Z)) (d : Z * Z) : Z * Z :=
  fold_left (fun m x => if lex_cr_le m x then x else m) l d.
Fixpoint zlist_eqb (a b : list Z) : bool :=
  match a, b with
  | [], [] => true
  | x :: a', y :: b' => (x =? y) && zlist_eqb a' b'
  | _, _ => false
  end.

(* (origin, rows, columns) of the total pixel matrix the parametric map declares *)
Definition pm_tiled_matrix (pos rowcos colcos : v3) (spr spc : Q) (R C th tw : Z)
           (src_listed : list Z) (u_listed : option (list Z)) : res (v3 * Z * Z) :=
  let nc := (C + tw - 1) / tw in
  match u_listed with
  | None => Ok (pos, R, C)
  | Some l =>
      if zlist_eqb l src_listed then Ok (pos, R, C)
      else
        let tl := map (tile_ab nc) l in
        let f := lex_first tl (hd (0, 0) tl) in
        let e := lex_last tl (hd (0, 0) tl) in
        (* a first listed tile other than the top left one (the matrix positions of the
           frames are then no longer relative to the declared origin) is not modelled *)
        if negb ((fst f =? 0) && (snd f =? 0)) then Err "unmodelled"
        else Ok (pos, (fst e + 1) * th, (snd e + 1) * tw)
  end.

(* Mpad = the caller's tiles laid out on the tile grid (whole tiles: the padded mosaic);
   [geometry; get_volume(args); declared TotalPixelMatrixRows / Columns; get_total_pixel_matrix()]
   of the parametric map *)
Definition run_pm_tiled (pos rowcos colcos : v3) (spr spc : Q) (R C th tw : Z)
           (src_listed : list Z) (u_listed : option (list Z)) (Mpad : plane)
           ss se rs re cs ce ai : val :=
  match pm_tiled_matrix pos rowcos colcos spr spc R C th tw src_listed u_listed with
  | Err k => VErr k
  | Ok (org, R', C') =>
      let M' := map (cut 0 C') (cut 0 R' Mpad) in
      match run_tiled true org rowcos colcos spr spc None R' C' M' ss se rs re cs ce ai with
      | VL l => VL (l ++ [VL [VZ R'; VZ C']; vz_list2 M'])
      | v => v
      end
  end.
