(* C07 - RLE Lossless (pydicom's pure-Python codec as modelled in C07_Model.v):
   the decoder inverts the encoder on every frame the validation lets through.
   Replaces the former codec-losslessness PREMISE for RLE by a theorem. *)
From Coq Require Import String ZArith List Bool Lia ZifyBool.
From HD Require Import Base.Val C07_Model C07_Proofs.
Import ListNotations.
Open Scope Z_scope.
Ltac Zify.zify_post_hook ::= Z.to_euclidean_division_equations.

(* ------------------------------------------------ the segment decoder *)
Lemma dec_fuel_irrel : forall f1 f2 src, (length src <= f1)%nat -> (length src <= f2)%nat ->
  rle_decode_fuel f1 src = rle_decode_fuel f2 src.
Proof.
  induction f1 as [|f1 IH]; intros f2 src H1 H2.
  - destruct src; [destruct f2; reflexivity|cbn in H1; lia].
  - destruct src as [|h r]; [destruct f2; reflexivity|].
    destruct f2 as [|f2]; [cbn in H2; lia|].
    cbn [rle_decode_fuel]. cbv zeta. cbn [length] in H1, H2.
    destruct (129 <? h + 1).
    + destruct r as [|x r']; [reflexivity|]. f_equal. apply IH; cbn [length] in *; lia.
    + destruct (h + 1 <? 129).
      * f_equal. apply IH; rewrite skipn_length; lia.
      * apply IH; lia.
Qed.

Notation D := rle_decode_segment.

Lemma dec_step : forall k h r, rle_decode_fuel (S k) (h :: r) =
  if 129 <? h + 1 then
    match r with [] => [] | x :: r' => repeat x (Z.to_nat (258 - (h + 1))) ++ rle_decode_fuel k r' end
  else if h + 1 <? 129 then
    firstn (Z.to_nat (h + 1)) r ++ rle_decode_fuel k (skipn (Z.to_nat (h + 1)) r)
  else rle_decode_fuel k r.
Proof. reflexivity. Qed.

Lemma D_nil : D [] = [].
Proof. reflexivity. Qed.

Lemma D_rep : forall h x r, 129 < h + 1 ->
  D (h :: x :: r) = repeat x (Z.to_nat (258 - (h + 1))) ++ D r.
Proof.
  intros h x r H. unfold rle_decode_segment.
  change (length (h :: x :: r)) with (S (length (x :: r))). rewrite dec_step.
  replace (129 <? h + 1) with true by lia. f_equal. apply dec_fuel_irrel; cbn [length]; lia.
Qed.

Lemma D_lit : forall h r, h + 1 < 129 ->
  D (h :: r) = firstn (Z.to_nat (h + 1)) r ++ D (skipn (Z.to_nat (h + 1)) r).
Proof.
  intros h r H. unfold rle_decode_segment.
  change (length (h :: r)) with (S (length r)). rewrite dec_step.
  replace (129 <? h + 1) with false by lia. replace (h + 1 <? 129) with true by lia.
  f_equal. apply dec_fuel_irrel; rewrite skipn_length; lia.
Qed.

Lemma D_pad : D [0] = [].
Proof. reflexivity. Qed.

(* literal runs decode to the literal *)
Lemma D_literal_fuel : forall fuel l rest, (length l <= fuel)%nat ->
  D (rle_literal_fuel fuel l ++ rest) = l ++ D rest.
Proof.
  induction fuel as [|k IH]; intros l rest Hl.
  - destruct l; [reflexivity|cbn in Hl; lia].
  - destruct l as [|a l']; [reflexivity|].
    remember (a :: l') as l eqn:El.
    assert (Hp : rle_literal_fuel (S k) l =
                 (Z.of_nat (length (firstn rle_max l)) - 1) :: firstn rle_max l
                 ++ rle_literal_fuel k (skipn rle_max l)) by (subst l; reflexivity).
    assert (Hne : (1 <= length l)%nat) by (subst l; cbn; lia).
    rewrite Hp. rewrite <- app_comm_cons, <- app_assoc.
    assert (Hm : (1 <= length (firstn rle_max l) <= 128)%nat).
    { rewrite firstn_length. unfold rle_max. lia. }
    rewrite D_lit by lia.
    replace (Z.to_nat (Z.of_nat (length (firstn rle_max l)) - 1 + 1))
      with (length (firstn rle_max l)) by lia.
    rewrite firstn_app_exact, skipn_app_exact.
    rewrite IH by (rewrite skipn_length; unfold rle_max; lia).
    rewrite app_assoc, firstn_skipn. reflexivity.
Qed.

Lemma D_rep_full : forall q v rest,
  D (concat (repeat [129; v] q) ++ rest) = repeat v (q * 128) ++ D rest.
Proof.
  induction q as [|q IH]; intros v rest; [reflexivity|].
  cbn [repeat concat]. cbn [app]. rewrite D_rep by lia.
  change (Z.to_nat (258 - (129 + 1))) with 128%nat.
  rewrite IH. replace (S q * 128)%nat with (128 + q * 128)%nat by lia.
  rewrite repeat_app, <- app_assoc. reflexivity.
Qed.

Lemma D_replicate : forall v n rest, 0 <= n ->
  D (rle_replicate v n ++ rest) = repeat v (Z.to_nat n) ++ D rest.
Proof.
  intros v n rest Hn. unfold rle_replicate. cbv zeta. rewrite <- app_assoc, D_rep_full.
  destruct (1 <? n mod 128) eqn:E1.
  - cbn [app]. rewrite D_rep by lia. rewrite app_assoc, <- repeat_app. f_equal. f_equal. lia.
  - destruct (n mod 128 =? 1) eqn:E2.
    + cbn [app]. rewrite D_lit by lia. change (Z.to_nat (0 + 1)) with 1%nat. cbn [firstn skipn app].
      replace (Z.to_nat n) with (Z.to_nat (n / 128) * 128 + 1)%nat by lia.
      rewrite repeat_app. cbn [repeat]. rewrite <- app_assoc. reflexivity.
    + cbn [app]. f_equal. f_equal. lia.
Qed.

(* groupby: the runs expand to the row, every count is at least 1 *)
Definition expand (gs : list (Z * Z)) : list Z :=
  flat_map (fun g => repeat (fst g) (Z.to_nat (snd g))) gs.

Lemma groups_expand : forall l,
  expand (rle_groups l) = l /\ Forall (fun g => 1 <= snd g) (rle_groups l).
Proof.
  induction l as [|a l IH]; [split; constructor|].
  destruct IH as [IHe IHp]. cbn [rle_groups]. destruct (rle_groups l) as [|[y n] gs] eqn:G.
  - cbn in IHe. subst l. split; [reflexivity|repeat constructor; cbn; lia].
  - destruct (a =? y) eqn:E.
    + assert (a = y) by lia; subst a. inversion IHp as [|g gs' H1 H2]; subst g gs'. cbn [snd] in H1. split.
      * cbn [expand flat_map fst snd] in *. replace (Z.to_nat (n + 1)) with (S (Z.to_nat n)) by lia.
        cbn [repeat]. rewrite <- app_comm_cons. now rewrite IHe.
      * constructor; [cbn; lia|assumption].
    + split.
      * cbn [expand flat_map fst snd] in *. change (Z.to_nat 1) with 1%nat. cbn [repeat app].
        now rewrite IHe.
      * constructor; [cbn; lia|exact IHp].
Qed.

Lemma D_row_groups : forall gs lit rest, Forall (fun g => 1 <= snd g) gs ->
  D (rle_row_groups lit gs ++ rest) = lit ++ expand gs ++ D rest.
Proof.
  induction gs as [|[v n] r IH]; intros lit rest H.
  - cbn [rle_row_groups expand flat_map app]. unfold rle_literal. apply D_literal_fuel. lia.
  - inversion H as [|g gs' H1 H2]; subst g gs'. cbn [snd] in H1. cbn [rle_row_groups].
    destruct (n =? 1) eqn:E.
    + rewrite IH by assumption. cbn [expand flat_map fst snd]. replace n with 1 by lia.
      change (Z.to_nat 1) with 1%nat. cbn [repeat]. rewrite <- !app_assoc. reflexivity.
    + rewrite <- !app_assoc. unfold rle_literal. rewrite D_literal_fuel by lia.
      rewrite D_replicate by lia. rewrite IH by assumption.
      cbn [expand flat_map fst snd app]. rewrite <- app_assoc. reflexivity.
Qed.

Lemma D_rows : forall rows rest,
  D (concat (map rle_encode_row rows) ++ rest) = concat rows ++ D rest.
Proof.
  induction rows as [|a rows IH]; intros rest; [reflexivity|].
  cbn [map concat]. rewrite <- !app_assoc. unfold rle_encode_row at 1.
  destruct (groups_expand a) as [He Hp]. rewrite D_row_groups by exact Hp.
  cbn [app]. rewrite He, IH. reflexivity.
Qed.

Lemma concat_chunks : forall fuel c l, (1 <= c)%nat -> (length l <= fuel)%nat ->
  concat (chunks_fuel fuel c l) = l.
Proof.
  induction fuel as [|k IH]; intros c l Hc Hl.
  - destruct l; [reflexivity|cbn in Hl; lia].
  - destruct l as [|a l']; [reflexivity|].
    remember (a :: l') as l eqn:El.
    assert (Hp : chunks_fuel (S k) c l = firstn c l :: chunks_fuel k c (skipn c l)) by (subst l; reflexivity).
    assert (Hne : (1 <= length l)%nat) by (subst l; cbn; lia).
    rewrite Hp. cbn [concat]. rewrite IH; [apply firstn_skipn|lia|rewrite skipn_length; lia].
Qed.

(* one byte segment: decode (encode src) = src *)
Theorem rle_segment_roundtrip : forall cols src, 1 <= cols ->
  rle_decode_segment (rle_encode_segment cols src) = src.
Proof.
  intros cols src Hc. unfold rle_encode_segment, pad_even, chunks.
  destruct (Nat.even _).
  - rewrite <- (app_nil_r (concat _)). rewrite D_rows, D_nil, app_nil_r. apply concat_chunks; lia.
  - rewrite D_rows, D_pad, app_nil_r. apply concat_chunks; lia.
Qed.

(* ------------------------------------------------------ list utilities *)
Lemma nth_flat_map_const : forall (A B : Type) (g : A -> list B) (c : nat) (da : A) (db : B),
  (forall x, length (g x) = c) ->
  forall l j b, (b < c)%nat -> (j < length l)%nat ->
  nth (j * c + b) (flat_map g l) db = nth b (g (nth j l da)) db.
Proof.
  intros A B g c da db Hc. induction l as [|a l IH]; intros j b Hb Hj; [cbn in Hj; lia|].
  cbn [flat_map]. destruct j as [|j].
  - cbn [Nat.mul Nat.add nth]. rewrite app_nth1 by (rewrite Hc; lia). reflexivity.
  - rewrite app_nth2 by (rewrite Hc; lia). rewrite Hc.
    replace (S j * c + b - c)%nat with (j * c + b)%nat by lia.
    cbn [nth]. apply IH; cbn [length] in Hj; lia.
Qed.

Lemma length_flat_map_c : forall (A B : Type) (g : A -> list B) (c : nat),
  (forall x, length (g x) = c) -> forall l, length (flat_map g l) = (length l * c)%nat.
Proof.
  intros A B g c Hc. induction l as [|a l IH]; [reflexivity|].
  cbn [flat_map length]. rewrite app_length, Hc, IH. lia.
Qed.

Lemma map_nth_seq : forall (A : Type) (d : A) (l : list A),
  map (fun b => nth b l d) (seq 0 (length l)) = l.
Proof.
  intros A d. induction l as [|a l IH]; [reflexivity|].
  cbn [length seq map nth]. f_equal. rewrite <- seq_shift, map_map. exact IH.
Qed.

(* pixels x samples regrouping: reading the frame plane-wise and writing it
   back pixel-interleaved is the identity *)
Lemma interleave_planes : forall (G : Z -> Z) (s n : nat) (f : list Z),
  (1 <= s)%nat -> length f = (n * s)%nat ->
  flat_map (fun i => map (fun smp => G (nth (smp + i * s) f 0)) (seq 0 s)) (seq 0 n) = map G f.
Proof.
  intros G s n f Hs Hlen.
  set (g := fun i => map (fun smp => G (nth (smp + i * s) f 0)) (seq 0 s)).
  assert (Hg : forall x, length (g x) = s) by (intros; unfold g; now rewrite map_length, seq_length).
  apply (nth_ext _ _ (G 0) (G 0)).
  - rewrite (length_flat_map_c _ _ g s Hg), seq_length, map_length. lia.
  - intros j Hj. rewrite (length_flat_map_c _ _ g s Hg), seq_length in Hj.
    assert (Hdm : (j = (j / s) * s + j mod s)%nat) by (rewrite Nat.mul_comm; apply Nat.div_mod; lia).
    assert (Hm : (j mod s < s)%nat) by (apply Nat.mod_upper_bound; lia).
    assert (Hd : (j / s < n)%nat) by (apply Nat.div_lt_upper_bound; lia).
    rewrite Hdm at 1.
    rewrite (nth_flat_map_const _ _ g s 0%nat (G 0) Hg) by (rewrite ?seq_length; lia).
    rewrite seq_nth by lia. cbn [Nat.add]. unfold g.
    rewrite (nth_indep _ (G 0) (G (nth (0 + j / s * s) f 0))) by (rewrite map_length, seq_length; lia).
    rewrite (map_nth (fun smp => G (nth (smp + j / s * s) f 0)) (seq 0 s) 0%nat (j mod s)).
    rewrite seq_nth by lia. cbn [Nat.add].
    replace (j mod s + j / s * s)%nat with j by lia.
    symmetry. apply (map_nth G f 0 j).
Qed.

(* ------------------------------------------------ header and segment cut *)
Lemma slice_mid : forall pre s post,
  slice (zlen pre) (zlen pre + zlen s) (pre ++ s ++ post) = s.
Proof.
  intros pre s post. unfold slice. cbv zeta.
  assert (E1 : Z.to_nat (Z.min (zlen pre + zlen s - zlen pre) (zlen (pre ++ s ++ post))) = length s)
    by (unfold zlen; rewrite !app_length; lia).
  assert (E2 : Z.to_nat (Z.min (zlen pre) (zlen (pre ++ s ++ post))) = length pre)
    by (unfold zlen; rewrite !app_length; lia).
  rewrite E1, E2, skipn_app_exact, firstn_app_exact. reflexivity.
Qed.

Lemma cut_concat : forall segs s0 src pre, src = pre ++ concat (s0 :: segs) ->
  rle_cut src (zlen pre) (prefix_sums (zlen pre + zlen s0) (map zlen segs) ++ [zlen src]) = s0 :: segs.
Proof.
  induction segs as [|s1 r IH]; intros s0 src pre Hsrc.
  - cbn [map prefix_sums app rle_cut]. f_equal. subst src. cbn [concat].
    replace (zlen (pre ++ s0 ++ [])) with (zlen pre + zlen s0)
      by (unfold zlen; rewrite !app_length; cbn [length]; lia).
    apply slice_mid.
  - cbn [map prefix_sums app rle_cut]. f_equal.
    + subst src. cbn [concat]. apply slice_mid.
    + replace (zlen pre + zlen s0) with (zlen (pre ++ s0)) by (unfold zlen; rewrite app_length; lia).
      apply IH. subst src. cbn [concat]. now rewrite <- app_assoc.
Qed.

Lemma prefix_sums_length : forall lens start, length (prefix_sums start lens) = length lens.
Proof. induction lens as [|l r IH]; intros; cbn; [reflexivity|now rewrite IH]. Qed.

(* --------------------------------------------------- planes of one frame *)
Definition plane_bytes (k s : nat) (bytes : list Z) (smp b : nat) : list Z :=
  stride_from (b + k * smp) (k * s) bytes.

Definition enc_segs (k s : nat) (cols : Z) (bytes : list Z) : list (list Z) :=
  flat_map (fun smp => map (fun b => rle_encode_segment cols (plane_bytes k s bytes smp b))
                           (rev (seq 0 k))) (seq 0 s).

Definition dec_planes (k s : nat) (bytes : list Z) : list (list Z) :=
  flat_map (fun smp => map (plane_bytes k s bytes smp) (rev (seq 0 k))) (seq 0 s).

Lemma flat_map_ext_in : forall (A B : Type) (g h : A -> list B) l,
  (forall x, In x l -> g x = h x) -> flat_map g l = flat_map h l.
Proof.
  induction l as [|a l IH]; intros H; [reflexivity|]. cbn [flat_map].
  rewrite (H a) by now left. rewrite IH; [reflexivity|]. intros; apply H; now right.
Qed.

Lemma map_flat_map' : forall (A B C : Type) (h : B -> C) (g : A -> list B) l,
  map h (flat_map g l) = flat_map (fun x => map h (g x)) l.
Proof. induction l as [|a l IH]; [reflexivity|]. cbn [flat_map]. now rewrite map_app, IH. Qed.

Lemma decode_enc_segs : forall k s cols bytes, 1 <= cols ->
  map rle_decode_segment (enc_segs k s cols bytes) = dec_planes k s bytes.
Proof.
  intros k s cols bytes Hc. unfold enc_segs, dec_planes. rewrite map_flat_map'.
  apply flat_map_ext_in. intros smp _. rewrite map_map. apply map_ext. intros b.
  now apply rle_segment_roundtrip.
Qed.

Lemma plane_bytes_length : forall k s n bytes smp b,
  (1 <= n)%nat -> (b < k)%nat -> (smp < s)%nat -> length bytes = (n * s * k)%nat ->
  length (plane_bytes k s bytes smp b) = n.
Proof.
  intros k s n bytes smp b Hn Hb Hs Hl. unfold plane_bytes, stride_from. rewrite map_length, seq_length, Hl.
  assert (Hlt : (b + k * smp < k * s)%nat) by nia.
  symmetry. apply (Nat.div_unique _ _ n (k * s - 1 - (b + k * smp))); nia.
Qed.

Lemma nth_plane_bytes : forall k s n bytes smp b i,
  (1 <= n)%nat -> (b < k)%nat -> (smp < s)%nat -> length bytes = (n * s * k)%nat -> (i < n)%nat ->
  nth i (plane_bytes k s bytes smp b) 0 = nth (b + k * smp + i * (k * s)) bytes 0.
Proof.
  intros k s n bytes smp b i Hn Hb Hs Hl Hi.
  pose proof (plane_bytes_length k s n bytes smp b Hn Hb Hs Hl) as HL.
  unfold plane_bytes, stride_from in *. rewrite map_length, seq_length in HL.
  rewrite (nth_indep _ 0 ((fun i0 => nth (b + k * smp + i0 * (k * s)) bytes 0) 0%nat))
    by (rewrite map_length, seq_length; lia).
  rewrite (map_nth (fun i0 => nth (b + k * smp + i0 * (k * s)) bytes 0)).
  rewrite seq_nth by lia. reflexivity.
Qed.

Lemma nth_dec_planes : forall k s bytes smp b, (b < k)%nat -> (smp < s)%nat ->
  nth (smp * k + (k - 1 - b)) (dec_planes k s bytes) [] = plane_bytes k s bytes smp b.
Proof.
  intros k s bytes smp b Hb Hs. unfold dec_planes.
  set (g := fun smp0 => map (plane_bytes k s bytes smp0) (rev (seq 0 k))).
  assert (Hg : forall x, length (g x) = k) by (intros; unfold g; now rewrite map_length, rev_length, seq_length).
  rewrite (nth_flat_map_const _ _ g k 0%nat [] Hg) by (rewrite ?seq_length; lia).
  rewrite seq_nth by lia. cbn [Nat.add]. unfold g.
  rewrite (nth_indep _ [] (plane_bytes k s bytes smp 0%nat)) by (rewrite map_length, rev_length, seq_length; lia).
  rewrite map_nth. f_equal.
  rewrite rev_nth by (rewrite seq_length; lia). rewrite seq_length.
  rewrite seq_nth by lia. lia.
Qed.

Lemma dec_planes_lengths : forall k s n bytes, (1 <= n)%nat -> length bytes = (n * s * k)%nat ->
  forall sg, In sg (dec_planes k s bytes) -> length sg = n.
Proof.
  intros k s n bytes Hn Hl sg Hin. unfold dec_planes in Hin.
  apply in_flat_map in Hin. destruct Hin as (smp & Hsmp & Hin).
  apply in_map_iff in Hin. destruct Hin as (b & <- & Hb).
  apply in_rev, in_seq in Hb. apply in_seq in Hsmp.
  apply plane_bytes_length; lia || assumption.
Qed.

(* the words assembled from the decoded byte planes are the frame *)
Lemma assemble_planes : forall k s n f, (1 <= k)%nat -> (1 <= s)%nat -> (1 <= n)%nat ->
  length f = (n * s)%nat ->
  let DS := dec_planes k s (flat_map (le_bytes k) f) in
  flat_map (fun i => map (fun smp =>
      le_word (map (fun b => nth i (nth (smp * k + (k - 1 - b)) DS []) 0) (seq 0 k)))
    (seq 0 s)) (seq 0 n)
  = map (fun v => v mod 256 ^ Z.of_nat k) f.
Proof.
  intros k s n f Hk Hs Hn Hlen DS.
  assert (Hbl : length (flat_map (le_bytes k) f) = (n * s * k)%nat) by (rewrite length_flat_le_bytes; lia).
  rewrite <- (interleave_planes (fun v => v mod 256 ^ Z.of_nat k) s n f Hs Hlen).
  apply flat_map_ext_in. intros i Hi. apply in_seq in Hi.
  apply map_ext_in. intros smp Hsmp. apply in_seq in Hsmp.
  rewrite <- le_word_le_bytes. f_equal.
  rewrite <- (map_nth_seq Z 0 (le_bytes k (nth (smp + i * s) f 0))), le_bytes_length.
  apply map_ext_in. intros b Hb. apply in_seq in Hb. subst DS.
  rewrite nth_dec_planes by lia.
  rewrite (nth_plane_bytes k s n) by lia.
  replace (b + k * smp + i * (k * s))%nat with ((smp + i * s) * k + b)%nat by lia.
  rewrite (nth_flat_map_const _ _ (le_bytes k) k 0 0 (le_bytes_length k)) by nia.
  reflexivity.
Qed.

(* ----------------------------------------------------------- the header *)
Lemma firstn_app_len : forall (n : nat) (a b : list Z), length a = n -> firstn n (a ++ b) = a.
Proof. intros n a b <-. apply firstn_app_exact. Qed.
Lemma skipn_app_len : forall (n : nat) (a b : list Z), length a = n -> skipn n (a ++ b) = b.
Proof. intros n a b <-. apply skipn_app_exact. Qed.

Lemma header_parse : forall N offs body, zlen offs = N -> N <= 15 ->
  Forall (fun o => 0 <= o < 2 ^ 32) offs ->
  let hdr := le_bytes 4 N ++ flat_map (le_bytes 4) offs in
  let H64 := hdr ++ repeat 0 (64 - length hdr) in
  length H64 = 64%nat
  /\ firstn 64 (hdr ++ repeat 0 (64 - length hdr) ++ body) = H64
  /\ le_word (firstn 4 H64) = N
  /\ words 4 (firstn (Z.to_nat (4 * N)) (skipn 4 H64)) = offs.
Proof.
  intros N offs body HN H15 Hr hdr H64. unfold zlen in HN.
  assert (Hh : length hdr = (4 + length offs * 4)%nat).
  { unfold hdr. now rewrite app_length, le_bytes_length, length_flat_le_bytes. }
  assert (H64l : length H64 = 64%nat).
  { unfold H64. rewrite app_length, repeat_length. lia. }
  split; [exact H64l|]. split.
  { rewrite app_assoc. fold H64. now apply firstn_app_len. }
  split.
  - unfold H64, hdr. rewrite <- !app_assoc. rewrite firstn_app_len by apply le_bytes_length.
    rewrite le_word_le_bytes. change (256 ^ Z.of_nat 4) with 4294967296. apply Z.mod_small. lia.
  - unfold H64, hdr. rewrite <- !app_assoc. rewrite skipn_app_len by apply le_bytes_length.
    rewrite firstn_app_len by (rewrite length_flat_le_bytes; lia).
    rewrite words_flat by lia. apply map_id_on.
    rewrite Forall_forall in *. intros v Hv. specialize (Hr v Hv). cbv beta in *.
    change (256 ^ Z.of_nat 4) with (2 ^ 32). apply Z.mod_small. exact Hr.
Qed.

Lemma existsb_false : forall (A : Type) (g : A -> bool) l,
  (forall x, In x l -> g x = false) -> existsb g l = false.
Proof.
  induction l as [|a l IH]; intros H; [reflexivity|]. cbn [existsb].
  rewrite (H a) by now left. apply IH. intros; apply H; now right.
Qed.

Lemma prefix_sums_ge : forall lens start, 0 <= start -> Forall (fun l => 0 <= l) lens ->
  Forall (fun o => 0 <= o) (prefix_sums start lens).
Proof.
  induction lens as [|l r IH]; intros start Hs Hl; [constructor|].
  inversion Hl; subst. cbn [prefix_sums]. constructor; [exact Hs|]. apply IH; [lia|assumption].
Qed.

Lemma Ok_inj : forall (A : Type) (a b : A), @Ok A a = Ok b -> a = b.
Proof. intros A a b H. congruence. Qed.

(* ------------------------------------------------- one frame, end to end *)
Theorem rle_frame_roundtrip : forall p f bs (k s n : nat),
  k = rle_bytes_alloc p -> k = Z.to_nat (rle_itemsize (p_bstored p)) -> s = Z.to_nat (spp p) ->
  (1 <= k)%nat -> (1 <= s)%nat -> (1 <= n)%nat -> (s * k <= 15)%nat ->
  1 <= p_cols p -> p_rows p * p_cols p = Z.of_nat n -> length f = (n * s)%nat ->
  rle_encode_frame p f = Ok bs ->
  rle_decode_frame (p_rows p) (p_cols p) s k bs = Ok (map (fun v => v mod 256 ^ Z.of_nat k) f).
Proof.
  intros p f bs k s n Hk1 Hk2 Hs Hk Hs1 Hn H15 Hc Hrc Hlen He.
  unfold rle_encode_frame in He. cbv zeta in He.
  assert (Hsegs : rle_segments p f = enc_segs k s (p_cols p) (flat_map (le_bytes k) f)).
  { unfold rle_segments, enc_segs, plane_bytes. cbv zeta. rewrite <- Hk1, <- Hk2, <- Hs. reflexivity. }
  rewrite Hsegs in He. set (bytes := flat_map (le_bytes k) f) in *.
  set (segs := enc_segs k s (p_cols p) bytes) in *.
  assert (Hsl : length segs = (s * k)%nat).
  { unfold segs, enc_segs. rewrite (length_flat_map_c _ _ _ k), seq_length; [reflexivity|].
    intros. now rewrite map_length, rev_length, seq_length. }
  destruct (15 <? zlen segs) eqn:E15; [discriminate|].
  set (offs := prefix_sums 64 (map zlen segs)) in *.
  destruct (existsb (fun o => 2 ^ 32 <=? o) offs) eqn:Eov; [discriminate|].
  apply Ok_inj in He. subst bs.
  assert (Hoffs_len : zlen offs = zlen segs).
  { unfold zlen, offs. now rewrite prefix_sums_length, map_length. }
  assert (Hrange : Forall (fun o => 0 <= o < 2 ^ 32) offs).
  { assert (Hge : Forall (fun o => 0 <= o) offs).
    { unfold offs. apply prefix_sums_ge; [lia|]. rewrite Forall_forall. intros x Hx.
      apply in_map_iff in Hx. destruct Hx as (y & <- & _). unfold zlen. lia. }
    rewrite Forall_forall in *. intros o Ho. split; [now apply Hge|].
    destruct (2 ^ 32 <=? o) eqn:E; [|lia].
    exfalso. assert (existsb (fun o => 2 ^ 32 <=? o) offs = true) by (apply existsb_exists; eauto).
    congruence. }
  destruct (header_parse (zlen segs) offs (concat segs) Hoffs_len ltac:(lia) Hrange)
    as (H64l & Hf64 & Hnseg & Hwords).
  set (hdr := le_bytes 4 (zlen segs) ++ flat_map (le_bytes 4) offs) in *.
  set (H64 := hdr ++ repeat 0 (64 - length hdr)) in *.
  unfold rle_decode_frame. cbv zeta. rewrite Hf64, H64l, Hnseg, Hwords.
  change (Nat.eqb 64 64) with true. cbn [negb]. rewrite E15.
  replace (zlen segs =? Z.of_nat (s * k)) with true by (unfold zlen; lia). cbn [negb].
  (* the cut *)
  assert (Hbl : length bytes = (n * s * k)%nat) by (unfold bytes; rewrite length_flat_le_bytes; lia).
  assert (Hcut : match offs ++ [zlen (hdr ++ repeat 0 (64 - length hdr) ++ concat segs)] with
                 | [] => []
                 | a :: rest => map rle_decode_segment
                                  (rle_cut (hdr ++ repeat 0 (64 - length hdr) ++ concat segs) a rest)
                 end = dec_planes k s bytes).
  { rewrite <- (decode_enc_segs k s (p_cols p) bytes Hc). fold segs.
    clearbody hdr. clear Hrange Hoffs_len Eov Hwords. subst offs.
    destruct segs as [|s0 segs'] eqn:Esegs; [cbn [length] in Hsl; lia|].
    assert (Hsrc : hdr ++ repeat 0 (64 - length hdr) ++ concat (s0 :: segs') = H64 ++ concat (s0 :: segs')).
    { unfold H64. now rewrite <- app_assoc. }
    cbn [map prefix_sums]. rewrite <- app_comm_cons.
    pose proof (cut_concat segs' s0 _ H64 Hsrc) as C.
    replace (zlen H64) with 64 in C by (unfold zlen; lia).
    rewrite C. reflexivity. }
  rewrite Hcut.
  rewrite existsb_false.
  - rewrite Hrc, Nat2Z.id. f_equal. exact (assemble_planes k s n f Hk Hs1 Hn Hlen).
  - intros sg Hin. pose proof (dec_planes_lengths k s n bytes Hn Hbl sg Hin) as Hsg.
    unfold zlen. rewrite Hrc, Hsg. lia.
Qed.

(* ------------------------------------- what the validation guarantees (RLE) *)
Lemma rle_profile_None : forall p, p_ts p = TRLE -> check_profile default_tables p = None ->
  (p_balloc p = 8 \/ p_balloc p = 16) /\ p_bstored p <= 16.
Proof.
  intros p Hts H. unfold check_profile in H. rewrite Hts in H.
  change (assoc_ts TRLE (t_profiles default_tables)) with
    (Some [ (MONO1, 1, [0; 1], [8; 16], (1, 16)); (MONO2, 1, [0; 1], [8; 16], (1, 16));
            (PALETTE, 1, [0], [8; 16], (1, 16)); (YBR_FULL, 3, [0], [8], (1, 8));
            (RGB, 3, [0], [8; 16], (1, 16)) ]) in H.
  cbv beta iota in H.
  destruct (existsb _ _) eqn:E in H; [|discriminate]. clear H.
  cbn [existsb] in E. unfold profile_matches, memZ in E. cbn [existsb] in E.
  repeat match type of E with context [pi_is p ?x] => destruct (pi_is p x) end; lia.
Qed.

Lemma rle_check_facts : forall p lo hi, p_ts p = TRLE -> check default_tables p lo hi = None ->
  (spp p = 1 \/ spp p = 3) /\ (p_balloc p = 8 \/ p_balloc p = 16)
  /\ 1 <= p_bstored p <= p_balloc p /\ (p_balloc p = 16 -> 8 < p_bstored p)
  /\ 0 < p_rows p /\ 0 < p_cols p /\ (p_pixrep p = 0 \/ p_pixrep p = 1)
  /\ (1 < spp p -> p_planar p <> None).
Proof.
  intros p lo hi Hts H. unfold check in H.
  destruct (check_cascade default_tables p lo hi) eqn:Hcas; [discriminate|].
  unfold check_cascade in Hcas. destruct (check_hd default_tables p) eqn:Hhd; [discriminate|]. clear Hcas.
  unfold check_hd in Hhd. destruct (check_common default_tables p) eqn:Hcc; [discriminate|].
  assert (Hnat : is_native default_tables p = false) by (unfold is_native; rewrite Hts; reflexivity).
  assert (Hjp : ts_eqb (p_ts p) TJPEG = false) by (rewrite Hts; reflexivity).
  rewrite Hnat, Hjp in Hhd.
  unfold check_encoder in H. rewrite Hnat in H.
  assert (Hup : uses_pydicom_encoder p = true) by (unfold uses_pydicom_encoder; rewrite Hts; reflexivity).
  rewrite Hup in H. cbn [orb negb] in H.
  destruct (check_pydicom default_tables p) eqn:Hpy; [discriminate|].
  destruct (fits_stored p lo hi); [|discriminate]. cbn [negb] in H.
  destruct (rle_profile_None p Hts H) as (Hba & Hbs16).
  destruct (check_common_None _ _ Hcc) as (Hbs & Hpr & _ & Hpl).
  (* check_codec: samples and the D70 guard *)
  unfold check_codec in Hhd. rewrite Hts in Hhd.
  change (mem_ts TRLE (t_codec_names default_tables)) with true in Hhd.
  change (ts_eqb TRLE TRLE) with true in Hhd. change (ts_eqb TRLE TJ2K) with false in Hhd.
  change (ts_eqb TRLE TJ2KL) with false in Hhd.
  cbn [negb orb andb t_codec_spp t_rle_min_alloc default_tables] in Hhd. unfold memZ in Hhd. cbn [existsb] in Hhd.
  destruct (negb ((spp p =? 1) || ((spp p =? 3) || false))) eqn:Espp; [discriminate|].
  destruct ((8 <? p_balloc p) && (p_bstored p <=? 8)) eqn:E70; [discriminate|].
  (* check_pydicom: rows, columns *)
  unfold check_pydicom in Hpy.
  repeat match type of Hpy with (if ?c then _ else _) = None => destruct c eqn:?; [discriminate|] end.
  repeat split; try lia.
  intros Hs. unfold spp in Hs. destruct (p_ndim3 p); [|lia].
  destruct (Hpl eq_refl) as [-> | ->]; discriminate.
Qed.

(* ------------------------------------------ RLE Lossless: the round trip *)
Theorem rle_roundtrip : forall p f bs,
  p_ts p = TRLE ->
  encode_rle default_tables p f = Ok bs ->
  open_gap p = false ->
  Z.of_nat (length f) = npix p ->
  values_fit p f ->
  decode_rle p bs = Ok (DArr (out_shape p) f).
Proof.
  intros p f bs Hts He Hgap Hlen Hfit. unfold encode_rle in He.
  destruct (check default_tables p (list_min f) (list_max f)) eqn:Hc; [discriminate|].
  destruct (rle_check_facts p _ _ Hts Hc) as (Hspp & Hba & Hbs & H70 & Hr & Hcl & Hpr & Hpl).
  set (k := Z.to_nat (p_balloc p / 8)). set (s := Z.to_nat (spp p)).
  set (n := Z.to_nat (p_rows p * p_cols p)).
  assert (Hk : Z.of_nat k * 8 = p_balloc p) by (subst k; lia).
  assert (Hfr : rle_decode_frame (p_rows p) (p_cols p) s k bs
                = Ok (map (fun v => v mod 256 ^ Z.of_nat k) f)).
  { assert (Hrc : 1 <= p_rows p * p_cols p) by nia.
    assert (Hlen' : length f = (n * s)%nat) by (subst n s; unfold npix in Hlen; nia).
    apply (rle_frame_roundtrip p f bs k s n); try (subst k s n; lia); try exact He; try exact Hlen'.
    - subst k. unfold rle_bytes_alloc. f_equal. lia.
    - subst k. unfold rle_itemsize. f_equal.
      destruct (p_bstored p <=? 8) eqn:E8; [lia|]. destruct (p_bstored p <=? 16) eqn:E16; lia. }
  unfold decode_rle. cbv zeta. fold s. fold k. rewrite Hfr.
  replace ((1 <? spp p) && is_none (p_planar p)) with false
    by (destruct (1 <? spp p) eqn:E1; [|reflexivity]; destruct (p_planar p); [reflexivity|exfalso; apply Hpl; [lia|reflexivity]]).
  replace (negb ((1 <=? p_balloc p) && (p_balloc p <=? 64))
           || negb (p_balloc p =? 1) && negb (p_balloc p mod 8 =? 0)) with false by lia.
  replace (negb ((1 <=? p_bstored p) && (p_bstored p <=? p_balloc p))) with false by lia.
  replace (negb ((spp p =? 1) || (spp p =? 3))) with false by lia.
  rewrite map_map.
  assert (Hvals : map (fun x => if p_pixrep p =? 1 then to_signed (p_bstored p) (x mod 256 ^ Z.of_nat k)
                                else (x mod 256 ^ Z.of_nat k) mod 2 ^ p_bstored p) f = f).
  { apply map_id_on. unfold values_fit in Hfit. rewrite Forall_forall in *. intros v Hv.
    specialize (Hfit v Hv). cbv beta in *. rewrite pow256.
    destruct (p_pixrep p =? 1).
    - apply signed_fit; lia.
    - apply unsigned_fit; lia. }
  rewrite Hvals.
  assert (Hy : (spp p =? 3) && pi_is p YBR_FULL = false).
  { unfold open_gap in Hgap. rewrite Hts in Hgap. change (ts_eqb TRLE TRLE) with true in Hgap.
    rewrite !orb_true_r, andb_true_r in Hgap. exact Hgap. }
  rewrite Hy. unfold out_shape. destruct (spp p =? 1); reflexivity.
Qed.

(* the guard is needed: open finding D51 on RLE *)
Lemma rle_roundtrip_refuted_ybr : exists p f bs,
  p_ts p = TRLE /\ encode_rle default_tables p f = Ok bs /\ Z.of_nat (length f) = npix p
  /\ values_fit p f /\ decode_rle p bs = Ok (DColor f).
Proof.
  exists (mkP TRLE 1 1 true 3 8 8 (Some YBR_FULL) 0 (Some 0) KUInt 1), [0; 5; 10].
  eexists. split; [reflexivity|]. split; [vm_compute; reflexivity|]. split; [reflexivity|].
  split; [unfold values_fit; repeat constructor; cbn; lia|]. vm_compute. reflexivity.
Qed.
