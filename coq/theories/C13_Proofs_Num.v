(* C13 - proofs, part 3: the decision rule of NumContentItem for int values *)
From Coq Require Import String ZArith List Bool Lia.
From HD Require Import Base.Val C13_Model.
Open Scope Z_scope.
Ltac Zify.zify_post_hook ::= Z.to_euclidean_division_equations.

Lemma ndigits_pos : forall f a, 1 <= ndigits f a.
Proof. induction f; intros a; cbn [ndigits]; [lia|]. destruct (a <? 10); [lia|]. specialize (IHf (a / 10)). lia. Qed.

Lemma ndigits_spec : forall f a k, 0 <= a -> a < 2 ^ Z.of_nat f -> 1 <= k ->
  (ndigits f a <= k <-> a < 10 ^ k).
Proof.
  induction f as [|f IH]; intros a k Ha Hf Hk.
  - cbn in Hf. assert (a = 0) by lia. subst. cbn [ndigits]. split; [intros _; apply Z.pow_pos_nonneg; lia|lia].
  - cbn [ndigits]. destruct (a <? 10) eqn:E.
    + apply Z.ltb_lt in E. split; [|lia]. intros _.
      assert (10 ^ 1 <= 10 ^ k) by (apply Z.pow_le_mono_r; lia). lia.
    + apply Z.ltb_ge in E. pose proof (ndigits_pos f (a / 10)).
      destruct (Z.eq_dec k 1) as [->|Hk1].
      * split; [lia|]. change (10 ^ 1) with 10. lia.
      * assert (Hf' : a / 10 < 2 ^ Z.of_nat f).
        { rewrite Nat2Z.inj_succ, Z.pow_succ_r in Hf by lia. lia. }
        specialize (IH (a / 10) (k - 1) ltac:(lia) Hf' ltac:(lia)).
        replace (10 ^ k) with (10 * 10 ^ (k - 1)) by (rewrite <- Z.pow_succ_r by lia; f_equal; lia).
        split; intros H0.
        -- assert (a / 10 < 10 ^ (k - 1)) by (apply IH; lia). lia.
        -- assert (a / 10 < 10 ^ (k - 1)) by lia. apply IH in H1. lia.
Qed.

Lemma fuel_ok : forall a, 0 <= a -> a < 2 ^ Z.of_nat (S (Z.to_nat (Z.log2 a))).
Proof.
  intros a Ha. rewrite Nat2Z.inj_succ. rewrite Z2Nat.id by apply Z.log2_nonneg.
  destruct (Z.eq_dec a 0) as [->|Hn]; [cbn; lia|].
  apply Z.log2_spec. lia.
Qed.

Lemma num_int_exact_spec : forall z, num_int_exact z = true <-> - 10 ^ 15 < z < 10 ^ 16.
Proof.
  intros z. unfold num_int_exact, int_strlen. rewrite Z.leb_le.
  pose proof (fuel_ok (Z.abs z) (Z.abs_nonneg z)) as Hf.
  destruct (z <? 0) eqn:E.
  - apply Z.ltb_lt in E.
    pose proof (ndigits_spec _ (Z.abs z) 15 (Z.abs_nonneg z) Hf ltac:(lia)) as H.
    assert (10 ^ 15 < 10 ^ 16) by (apply Z.pow_lt_mono_r; lia). split; intros H1.
    + assert (Z.abs z < 10 ^ 15) by (apply H; lia). lia.
    + assert (Z.abs z < 10 ^ 15) by lia. apply H in H2. lia.
  - apply Z.ltb_ge in E.
    pose proof (ndigits_spec _ (Z.abs z) 16 (Z.abs_nonneg z) Hf ltac:(lia)) as H.
    assert (0 < 10 ^ 15) by (apply Z.pow_pos_nonneg; lia). split; intros H1.
    + assert (Z.abs z < 10 ^ 16) by (apply H; lia). lia.
    + assert (Z.abs z < 10 ^ 16) by lia. apply H in H2. lia.
Qed.

Lemma dbl_exact_small : forall z, Z.abs z < 2 ^ 53 -> dbl_exact z = true.
Proof. intros z H. unfold dbl_exact. apply Z.ltb_lt in H. rewrite H. reflexivity. Qed.
