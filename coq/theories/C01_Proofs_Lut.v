(* C01 - proofs, part 3: the frame list, the frame look-up table and empty-frame
   omission; composition with part 2 into the per-(segment, source) round trip. *)
From Coq Require Import String ZArith List Bool Lia ZifyBool Arith.
From HD Require Import Base.Val Base.ListZ C01_Model C01_Proofs C01_Proofs_Frames.
Import ListNotations.
Open Scope Z_scope.
Ltac Zify.zify_post_hook ::= Z.to_euclidean_division_equations.

Definition key_of (f : frame) : Z * Z := (f_seg f, f_plane f).

(* a frame is written for (s, j) unless it is skipped as empty *)
Definition kept (c : cfg) (a : carr) (om : bool) (s j : Z) : bool :=
  negb (negb (s =? 0) && om && all_zero (seg_plane c a s j)).

Lemma in_frames_of : forall c a order om f,
  In f (frames_of c a order om) <->
  In (f_seg f) (seg_iter c) /\ In (f_plane f) order /\
  f_pix f = seg_plane c a (f_seg f) (f_plane f) /\ kept c a om (f_seg f) (f_plane f) = true.
Proof.
  intros c a order om f. unfold frames_of, kept. rewrite in_flat_map. split.
  - intros (s & Hs & Hf). rewrite in_flat_map in Hf. destruct Hf as (j & Hj & Hf).
    destruct (negb (s =? 0) && om && all_zero (seg_plane c a s j)) eqn:E; [contradiction|].
    destruct Hf as [<- | []]. cbn [f_seg f_plane f_pix]. rewrite E. auto.
  - intros (Hs & Hj & Hp & Hk). exists (f_seg f). split; [exact Hs|].
    rewrite in_flat_map. exists (f_plane f). split; [exact Hj|].
    destruct (negb (f_seg f =? 0) && om && all_zero (seg_plane c a (f_seg f) (f_plane f)));
      [discriminate|].
    left. destruct f as [s j p]. cbn in *. now subst.
Qed.

Lemma find_from_some : forall m k key i, find_from k key m = Some i ->
  k <= i < k + zlen m /\ nth (Z.to_nat (i - k)) m (0, 0) = key.
Proof.
  induction m as [|[s j] m IH]; intros k key i H; [discriminate|].
  cbn [find_from] in H. unfold zlen. cbn [length].
  destruct ((s =? fst key) && (j =? snd key)) eqn:E.
  - injection H as <-. split; [lia|]. replace (k - k) with 0 by lia.
    destruct key as [ks kj]. cbn in *. f_equal; lia.
  - apply IH in H. destruct H as (H1 & H2). unfold zlen in H1. split; [lia|].
    replace (Z.to_nat (i - k)) with (S (Z.to_nat (i - (k + 1)))) by lia. exact H2.
Qed.

Lemma find_from_none : forall m k key, find_from k key m = None <-> ~ In key m.
Proof.
  induction m as [|[s j] m IH]; intros k key; cbn [find_from In]; [tauto|].
  destruct ((s =? fst key) && (j =? snd key)) eqn:E.
  - split; [discriminate|]. intros H. exfalso. apply H. left.
    destruct key as [ks kj]. cbn in *. f_equal; lia.
  - rewrite IH. split.
    + intros H [Hk | Hk]; [|now apply H]. subst key. cbn in E. lia.
    + intros H Hk. apply H. now right.
Qed.

(* T6: the look-up finds a frame holding exactly the plane derived for (s, j) *)
Theorem lookup_returns_segment_plane : forall c a order om s j i,
  find_from 0 (s, j) (map key_of (frames_of c a order om)) = Some i ->
  0 <= i < zlen (frames_of c a order om) /\
  f_pix (nth (Z.to_nat i) (frames_of c a order om) (Frame 0 0 [])) = seg_plane c a s j.
Proof.
  intros c a order om s j i H. apply find_from_some in H. destruct H as (H1 & H2).
  unfold zlen in *. rewrite map_length in H1. split; [lia|].
  replace (i - 0) with i in H2 by lia.
  set (fs := frames_of c a order om) in *.
  assert (Hlt : (Z.to_nat i < length fs)%nat) by lia.
  rewrite (nth_map_default key_of fs (Z.to_nat i) (Frame 0 0 [])) in H2 by exact Hlt.
  assert (Hin : In (nth (Z.to_nat i) fs (Frame 0 0 [])) fs) by (apply nth_In; exact Hlt).
  apply in_frames_of in Hin. destruct Hin as (_ & _ & Hp & _).
  unfold key_of in H2. rewrite Hp. f_equal; congruence.
Qed.

(* T7: a (segment, source) pair has no stored frame iff it was skipped *)
Theorem lookup_none_iff : forall c a order om s j,
  In s (seg_iter c) -> In j order ->
  (find_from 0 (s, j) (map key_of (frames_of c a order om)) = None <-> kept c a om s j = false).
Proof.
  intros c a order om s j Hs Hj. rewrite find_from_none. split.
  - intros H. destruct (kept c a om s j) eqn:E; [|reflexivity]. exfalso. apply H.
    apply in_map_iff. exists (Frame s j (seg_plane c a s j)). split; [reflexivity|].
    apply in_frames_of. cbn [f_seg f_plane f_pix]. auto.
  - intros E H. apply in_map_iff in H as (f & Hk & Hf). apply in_frames_of in Hf.
    destruct Hf as (_ & _ & _ & Hkept). unfold key_of in Hk.
    assert (Es : f_seg f = s) by congruence. assert (Ej : f_plane f = j) by congruence.
    rewrite Es, Ej in Hkept. congruence.
Qed.

Lemma all_zero_zeros : forall l, all_zero l = true -> l = zeros (zlen l).
Proof.
  induction l as [|v l IH]; intros H; [reflexivity|].
  cbn [all_zero forallb] in H. apply andb_prop in H as (Hv & Hl).
  unfold zeros, zlen in *. cbn [length]. replace (Z.to_nat (Z.of_nat (S (length l)))) with (S (length l)) by lia.
  cbn [repeat]. f_equal; [lia|]. rewrite (IH Hl) at 1. f_equal. lia.
Qed.

Lemma kept_false_zero : forall c a om s j, kept c a om s j = false ->
  seg_plane c a s j = zeros (zlen (seg_plane c a s j)).
Proof.
  intros c a om s j H. unfold kept in H. apply negb_false_iff in H.
  apply andb_prop in H as (_ & H). now apply all_zero_zeros.
Qed.

(* ------------------------------------------------------------------ *)
(* the constructor's result                                             *)
(* ------------------------------------------------------------------ *)
Lemma construct_inv : forall c i perm st, construct c i perm = Ok st ->
  exists a inc om,
    seg_numbers_ok (ty c) (segs c) = true /\
    check_and_cast c i = Ok a /\ n_planes i = nsrc c /\
    included c a = (inc, om) /\
    let fs := frames_of c a (filter (fun j => memz j inc) perm) om in
    fs <> [] /\
    st = Stored c (map key_of fs) (if native c then pixel_data c fs else []) (map f_pix fs).
Proof.
  intros c i perm st H. unfold construct in H.
  destruct (seg_numbers_ok (ty c) (segs c)) eqn:E1; cbn [negb] in H; [|discriminate].
  destruct (match ty c with BINARY => negb (native c) | _ => false end); [discriminate|].
  destruct (match ty c with FRACTIONAL => 255 <? maxfrac c | _ => false end); [discriminate|].
  destruct (check_and_cast c i) as [a|k] eqn:E2; cbn [bind] in H; [|discriminate].
  destruct (n_planes i =? nsrc c) eqn:E3; cbn [negb] in H; [|discriminate].
  destruct ((rows c =? srows c) && (cols c =? scols c)); cbn [negb] in H; [|discriminate].
  destruct (included c a) as [inc om] eqn:E4.
  destruct (frames_of c a (filter (fun j => memz j inc) perm) om) as [|f fs] eqn:E5; [discriminate|].
  injection H as <-. exists a, inc, om. rewrite E5.
  repeat split; auto; [lia|discriminate].
Qed.

(* T8 (the round trip of one (segment, source) pair through the stored object):
   whatever way the frame is fetched - from memory / an eagerly read file or by
   the lazy reader - the look-up + decode returns the plane derived from the
   input, and a pair without stored frame is exactly a skipped all-zero plane. *)
Theorem read_segment_plane : forall c i perm st a inc om lazy s j,
  construct c i perm = Ok st -> check_and_cast c i = Ok a -> included c a = (inc, om) ->
  1 <= npix c ->
  (native c = true -> forall s' j', In s' (seg_iter c) -> In j' perm -> frame_ok c (seg_plane c a s' j')) ->
  zlen (seg_plane c a s j) = npix c ->
  In s (seg_iter c) -> In j perm -> memz j inc = true ->
  match find_frame st s j with
  | Some k => stored_frame lazy st k
  | None => zeros (npix c)
  end = seg_plane c a s j.
Proof.
  intros c i perm st a inc om lazy s j Hc Ha Hinc Hn Hok Hlen Hs Hj Hm.
  apply construct_inv in Hc. destruct Hc as (a' & inc' & om' & _ & Ha' & _ & Hinc' & Hfs).
  rewrite Ha in Ha'. injection Ha' as <-. rewrite Hinc in Hinc'. injection Hinc' as <- <-.
  cbn zeta in Hfs. destruct Hfs as (_ & ->).
  set (order := filter (fun j0 => memz j0 inc) perm) in *.
  assert (Hjo : In j order) by (apply filter_In; auto).
  unfold find_frame. cbn [s_meta].
  destruct (find_from 0 (s, j) (map key_of (frames_of c a order om))) as [k|] eqn:E.
  - apply lookup_returns_segment_plane in E. destruct E as (Hk & Hp).
    destruct (native c) eqn:En.
    + rewrite stored_frame_correct; auto.
      intros f Hf. apply in_frames_of in Hf. destruct Hf as (Hs' & Hj' & -> & _).
      apply Hok; auto. apply filter_In in Hj'. tauto.
    + rewrite stored_frame_encaps by exact En. unfold nthz.
      rewrite (nth_map_default f_pix _ (Z.to_nat k) (Frame 0 0 [])) by (unfold zlen in Hk; lia).
      exact Hp.
  - apply lookup_none_iff in E; auto. apply kept_false_zero in E. rewrite Hlen in E. now rewrite E.
Qed.

(* a plane that is not among the included ones is empty in the (cast) input *)
Lemma not_included_empty : forall c a inc om j,
  included c a = (inc, om) -> 0 <= j < carr_planes a -> memz j inc = false ->
  plane_nonempty c a j = false.
Proof.
  intros c a inc om j H Hj Hm. unfold included in H.
  assert (Hin : In j (zrange (carr_planes a))).
  { unfold zrange. apply in_map_iff. exists (Z.to_nat j). split; [lia|]. apply in_seq. lia. }
  assert (Hmem : forall l, In j l -> memz j l = true).
  { intros l Hl. unfold memz. apply existsb_exists. exists j. split; [exact Hl|lia]. }
  destruct (omit c).
  - destruct (filter (plane_nonempty c a) (zrange (carr_planes a))) as [|x l] eqn:Ef.
    + injection H as <- <-. rewrite (Hmem _ Hin) in Hm. discriminate.
    + injection H as <- <-. destruct (plane_nonempty c a j) eqn:Ep; [|reflexivity].
      assert (In j (x :: l)) by (rewrite <- Ef; apply filter_In; auto).
      rewrite (Hmem _ H) in Hm. discriminate.
  - injection H as <- <-. rewrite (Hmem _ Hin) in Hm. discriminate.
Qed.

(* finding D61 (fixed): a FRACTIONAL float mask whose values all round to 0 now
   takes the all-empty fallback: every frame is stored and reads back as zeros *)
Lemma all_rounds_to_zero_fallback :
  let c := Cfg FRACTIONAL DFloat 4 1 true [1] 1 2 1 2 2 true in
  let i := Stack [[[1]; [0]]; [[0]; [1]]] in
  (exists st, construct c i [1; 0] = Ok st /\ s_meta st = [(1, 1); (1, 0)]) /\
  spec_holds c i [1; 0] false = true /\ expected c i = [[[0]; [0]]; [[0]; [0]]].
Proof. vm_compute. split; [eexists; split; reflexivity|split; reflexivity]. Qed.
