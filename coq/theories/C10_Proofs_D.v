(* C10 - proofs, part 5: transformers built from image datasets
   (_get_spatial_information, TILED_FULL frame positions, for_image / for_images) *)
From Coq Require Import String Ascii ZArith List Bool QArith Qabs Qround Lia Lqa Qfield Setoid Morphisms.
From HD Require Import Base.Val C10_Model C10_Proofs C10_Proofs_T.
Import ListNotations.
Open Scope Q_scope.

Ltac proj := cbn [vx vy vz c0 c1 c2 lin tr fst snd].

(* ---------------- the shapes of dataset the property speaks about ---------------- *)
(* a TILED_FULL slide image: implicit tile positions *)
Definition is_tiled_full (d : dset) (x y : Q) (oz : option Q) (r c : vec) (sr sc : Q) (oss : option Q) : Prop :=
  has (d_for d) = true /\ d_multiframe d = true /\ d_tf_class d = true /\ d_tiled_full d = true /\
  d_ori_slide d = Some [vx r; vy r; vz r; vx c; vy c; vz c] /\
  d_origin d = Some (x, y, oz) /\
  exists sh, d_shared d = Some sh /\ fg_pm sh = Some (PMeas (asp sr sc) oss).

Definition opt_or (o : option Q) (q : Q) : Q := match o with Some z => z | None => q end.

Definition tf_k (f : Z) : Z := (f - 1)%Z.
Definition tf_nt (d : dset) : Z := (fst (tile_grid d) * snd (tile_grid d))%Z.
Definition tf_ci (d : dset) (f : Z) : Z := ((tf_k f mod tf_nt d) mod fst (tile_grid d))%Z.
Definition tf_ri (d : dset) (f : Z) : Z := ((tf_k f mod tf_nt d) / fst (tile_grid d))%Z.
Definition tf_sl (d : dset) (f : Z) : Z := ((tf_k f / tf_nt d) mod d_focal d)%Z.

Lemma grid_pos d : (1 <= d_rows d)%Z -> (1 <= d_cols d)%Z -> (1 <= d_tpm_rows d)%Z -> (1 <= d_tpm_cols d)%Z ->
  (1 <= fst (tile_grid d))%Z /\ (1 <= snd (tile_grid d))%Z.
Proof.
  intros Hr Hc HR HC. unfold tile_grid; cbn [fst snd].
  pose proof (Z.div_pos (d_tpm_cols d - 1) (d_cols d)). pose proof (Z.div_pos (d_tpm_rows d - 1) (d_rows d)). lia.
Qed.

(* the tile offsets stay inside the total pixel matrix *)
Lemma tile_offsets_in_range d f :
  (1 <= d_rows d)%Z -> (1 <= d_cols d)%Z -> (1 <= d_tpm_rows d)%Z -> (1 <= d_tpm_cols d)%Z -> (1 <= f)%Z ->
  (0 <= tf_ci d f * d_cols d <= d_tpm_cols d - 1)%Z /\ (0 <= tf_ri d f * d_rows d <= d_tpm_rows d - 1)%Z.
Proof.
  intros Hr Hc HR HC Hf. destruct (grid_pos d Hr Hc HR HC) as (G1 & G2).
  unfold tf_ci, tf_ri, tf_nt, tf_k. unfold tile_grid in *; cbn [fst snd] in *.
  set (ntc := ((d_tpm_cols d - 1) / d_cols d + 1)%Z) in *.
  set (ntr := ((d_tpm_rows d - 1) / d_rows d + 1)%Z) in *.
  assert (NT : (0 < ntc * ntr)%Z) by nia.
  pose proof (Z.mod_pos_bound (f - 1) (ntc * ntr) NT) as B.
  set (t := ((f - 1) mod (ntc * ntr))%Z) in *.
  pose proof (Z.mod_pos_bound t ntc ltac:(lia)) as Bc.
  assert (Br : (0 <= t / ntc < ntr)%Z).
  { split; [apply Z.div_pos; lia|]. apply Z.div_lt_upper_bound; lia. }
  pose proof (Z.mul_div_le (d_tpm_cols d - 1) (d_cols d) ltac:(lia)).
  pose proof (Z.mul_div_le (d_tpm_rows d - 1) (d_rows d) ltac:(lia)).
  subst ntc ntr. split; nia.
Qed.

(* what iter_tiled_full_frame_data yields for frame f of a TILED_FULL image *)
Lemma tiled_full_frame_ok d x y oz r c sr sc oss f :
  is_tiled_full d x y oz r c sr sc oss -> 0 < sr -> 0 < sc ->
  (1 <= d_rows d)%Z -> (1 <= d_cols d)%Z -> (1 <= d_tpm_rows d)%Z -> (1 <= d_tpm_cols d)%Z ->
  (1 <= d_focal d)%Z -> (1 <= d_paths d)%Z ->
  (1 <= f <= d_paths d * d_focal d * tf_nt d)%Z ->
  tiled_full_frame d f =
  Ok (TFrame (tf_k f / (tf_nt d * d_focal d) + 1) (tf_sl d f + 1)
             (tf_ci d f * d_cols d + 1) (tf_ri d f * d_rows d + 1)
             (aapply (Aff (rotRD r c sr sc 1) (V3 x y (opt_or oz 0 + inject_Z (tf_sl d f) * opt_or oss 1)))
                     (V3 (inject_Z (tf_ci d f * d_cols d)) (inject_Z (tf_ri d f * d_rows d)) 0))).
Proof.
  intros (_ & _ & TC & _ & OS & OR & sh & SH & PM) Hsr Hsc Hr Hc HR HC Hfo Hpa Hf.
  destruct (grid_pos d Hr Hc HR HC) as (G1 & G2).
  unfold tiled_full_frame. replace (f - 1 <? 0)%Z with false by lia. rewrite TC. cbn [negb].
  rewrite OR, OS, SH, PM. cbn [pm_spacing pm_ss asp bind fst snd].
  replace ((d_rows d <=? 0) || (d_cols d <=? 0) || (d_focal d <=? 0) || (d_paths d <=? 0))%Z with false by lia.
  destruct (tile_grid d) as [ntc ntr] eqn:TG.
  match goal with |- context [ASeq [x; y; ?z]] => change (ASeq [x; y; z]) with (apos (V3 x y z)) end.
  change (ASeq [vx r; vy r; vz r; vx c; vy c; vz c]) with (aori r c).
  change (ASeq [sr; sc]) with (asp sr sc).
  rewrite p2r_make_ok by assumption. cbn [bind].
  unfold tf_ci, tf_ri, tf_sl, tf_k, tf_nt in *. rewrite TG in *. cbn [fst snd] in *.
  replace ((ntc <=? 0) || (ntr <=? 0) || (d_paths d * d_focal d * (ntc * ntr) <=? f - 1))%Z with false by lia.
  reflexivity.
Qed.

(* _get_spatial_information of frame f and of the total pixel matrix *)
Lemma spatial_info_tiled_full d x y oz r c sr sc oss f t :
  is_tiled_full d x y oz r c sr sc oss -> tiled_full_frame d f = Ok t ->
  get_spatial_information d (Some f) false = Ok (SInfo (vec_arg (tf_pos t)) (aori r c) (asp sr sc) oss).
Proof.
  intros (FR & MF & TC & TF & OS & OR & sh & SH & PM) T.
  unfold get_spatial_information, image_coordinate_system. rewrite FR, OS. cbn [negb has orb bind].
  rewrite MF, SH, TF. cbn [bind]. rewrite PM. cbn [first_of bind]. rewrite T. cbn [bind]. reflexivity.
Qed.

Lemma spatial_info_tpm d x y oz r c sr sc oss f :
  is_tiled_full d x y oz r c sr sc oss ->
  get_spatial_information d f true = Ok (SInfo (apos (V3 x y (opt_or oz 0))) (aori r c) (asp sr sc) oss).
Proof.
  intros (FR & MF & TC & TF & OS & OR & sh & SH & PM).
  unfold get_spatial_information, image_coordinate_system. rewrite FR, OS. cbn [negb has orb bind].
  rewrite OR, SH, PM. reflexivity.
Qed.

(* the geometric identity with a z displacement between the two origins *)
Lemma frame_vs_tpm_z r c sr sc x y z0 z1 C0 R0 i j :
  let T := Aff (rotRD r c sr sc 1) (V3 x y z0) in
  let Fm := Aff (rotRD r c sr sc 1) (aapply (Aff (rotRD r c sr sc 1) (V3 x y z1)) (V3 C0 R0 0)) in
  veq (aapply Fm (V3 i j 0)) (vadd (aapply T (V3 (C0 + i) (R0 + j) 0)) (V3 0 0 (z1 - z0))).
Proof.
  unfold rotRD, rotation_core; cbn [conv_vec conv_sp normal].
  unfold veq, aapply, mapply, vadd, smul; proj. repeat split; ring.
Qed.

(* END TO END: for every frame f of a TILED_FULL image, the transformer built by
   for_image(frame_number = f) and the one built by for_image(for_total_pixel_matrix = True)
   satisfy: pixel (i, j) of the frame whose 1-based offsets are (C, R) is pixel
   (C - 1 + i, R - 1 + j) of the total pixel matrix, displaced along z by the focal plane
   offset; for every Z offset stored (or not) in the origin sequence. *)
Theorem tiled_full_frame_vs_tpm d x y oz r c sr sc oss f :
  is_tiled_full d x y oz r c sr sc oss -> 0 < sr -> 0 < sc ->
  (1 <= d_rows d)%Z -> (1 <= d_cols d)%Z -> (1 <= d_tpm_rows d)%Z -> (1 <= d_tpm_cols d)%Z ->
  (1 <= d_focal d)%Z -> (1 <= d_paths d)%Z ->
  (1 <= f <= d_paths d * d_focal d * tf_nt d)%Z ->
  exists t Fm T,
    tiled_full_frame d f = Ok t /\
    for_image_p2r d (Some f) false = Ok Fm /\
    for_image_p2r d None true = Ok T /\
    (1 <= tf_col t <= d_tpm_cols d)%Z /\ (1 <= tf_row t <= d_tpm_rows d)%Z /\
    (1 <= tf_focal t <= d_focal d)%Z /\
    (forall i j, veq (aapply Fm (V3 i j 0))
                     (vadd (aapply T (V3 (inject_Z (tf_col t) - 1 + i) (inject_Z (tf_row t) - 1 + j) 0))
                           (V3 0 0 (inject_Z (tf_focal t - 1) * opt_or oss 1)))) /\
    (tf_focal t = 1%Z ->
     forall i j, veq (aapply Fm (V3 i j 0))
                     (aapply T (V3 (inject_Z (tf_col t) - 1 + i) (inject_Z (tf_row t) - 1 + j) 0))).
Proof.
  intros W Hsr Hsc Hr Hc HR HC Hfo Hpa Hf.
  pose proof (tiled_full_frame_ok d x y oz r c sr sc oss f W Hsr Hsc Hr Hc HR HC Hfo Hpa Hf) as TF.
  destruct (tile_offsets_in_range d f Hr Hc HR HC ltac:(lia)) as (BC & BR).
  eexists. exists (Aff (rotRD r c sr sc 1)
                   (aapply (Aff (rotRD r c sr sc 1) (V3 x y (opt_or oz 0 + inject_Z (tf_sl d f) * opt_or oss 1)))
                           (V3 (inject_Z (tf_ci d f * d_cols d)) (inject_Z (tf_ri d f * d_rows d)) 0))).
  exists (Aff (rotRD r c sr sc 1) (V3 x y (opt_or oz 0))).
  split; [exact TF|]. split.
  { unfold for_image_p2r. rewrite (spatial_info_tiled_full _ _ _ _ _ _ _ _ _ _ _ W TF). cbn [bind si_pos si_ori si_sp tf_pos].
    set (p := aapply _ _). change (vec_arg p) with (apos p). apply p2r_make_ok; assumption. }
  split.
  { unfold for_image_p2r. rewrite (spatial_info_tpm _ _ _ _ _ _ _ _ _ None W). cbn [bind si_pos si_ori si_sp].
    apply p2r_make_ok; assumption. }
  cbn [tf_col tf_row tf_focal].
  assert (SL : (0 <= tf_sl d f < d_focal d)%Z) by (unfold tf_sl; apply Z.mod_pos_bound; lia).
  split; [lia|]. split; [lia|]. split; [lia|].
  assert (GEN : forall i j,
    veq (aapply (Aff (rotRD r c sr sc 1)
                   (aapply (Aff (rotRD r c sr sc 1) (V3 x y (opt_or oz 0 + inject_Z (tf_sl d f) * opt_or oss 1)))
                           (V3 (inject_Z (tf_ci d f * d_cols d)) (inject_Z (tf_ri d f * d_rows d)) 0))) (V3 i j 0))
        (vadd (aapply (Aff (rotRD r c sr sc 1) (V3 x y (opt_or oz 0)))
                      (V3 (inject_Z (tf_ci d f * d_cols d + 1) - 1 + i) (inject_Z (tf_ri d f * d_rows d + 1) - 1 + j) 0))
              (V3 0 0 (inject_Z (tf_sl d f + 1 - 1) * opt_or oss 1)))).
  { intros i j. rewrite (frame_vs_tpm_z r c sr sc x y (opt_or oz 0)).
    replace (tf_sl d f + 1 - 1)%Z with (tf_sl d f) by lia.
    rewrite !inject_Z_plus. 
    unfold rotRD, rotation_core; cbn [conv_vec conv_sp normal].
    unfold veq, aapply, mapply, vadd, smul; proj. repeat split; ring. }
  split; [exact GEN|].
  intros F1 i j. rewrite GEN.
  replace (tf_sl d f + 1 - 1)%Z with 0%Z by lia.
  match goal with |- veq (vadd ?q _) _ => destruct q as [qx qy qz] end. unfold veq, vadd; proj.
  split; [ring|]. split; [ring|]. change (inject_Z 0) with 0. ring.
Qed.

(* ---------------- coplanar pairs are accepted and map to the same physical point ---------------- *)
Definition same_plane (pos r c pos2 r2 c2 : vec) : Prop :=
  (veq (cross r2 c2) (cross r c) \/ veq (cross r2 c2) (vneg (cross r c))) /\
  dot (vsub pos pos2) (cross r c) == 0.

Lemma dot_proper_r a b c : veq b c -> dot a b == dot a c.
Proof. intros (H1 & H2 & H3). unfold dot. rewrite H1, H2, H3. reflexivity. Qed.

Lemma coplanar_core_same_plane pos r c pos2 r2 c2 :
  orthonormal r c -> same_plane pos r c pos2 r2 c2 ->
  coplanar_core tol5 pos r c pos2 r2 c2 = true.
Proof.
  intros O (N & D). apply coplanar_core_iff. split.
  - assert (E : Qabs (dot (cross r c) (cross r2 c2)) == 1).
    { destruct N as [N|N]; rewrite (dot_proper_r _ _ _ N).
      - rewrite (normal_unit r c O). reflexivity.
      - rewrite dot_neg_r, (normal_unit r c O). reflexivity. }
    rewrite E. unfold tol5, Qle; cbn. lia.
  - rewrite D. reflexivity.
Qed.

Lemma coplanar_guard_same_plane pos r c pos2 r2 c2 :
  orthonormal r c -> same_plane pos r c pos2 r2 c2 ->
  coplanar_guard (apos pos) (aori r c) (apos pos2) (aori r2 c2) = Ok tt.
Proof.
  intros O S. unfold coplanar_guard, apos, aori. cbn [list_of_arg bind are_images_coplanar ori_of vec_of fst snd].
  destruct pos, r, c, pos2, r2, c2; proj.
  rewrite (coplanar_core_same_plane _ _ _ _ _ _ O S). reflexivity.
Qed.

(* third (out-of-plane) output of the inverse affine, as the code builds it *)
Lemma inv_affine_z M Mi p x : inv3 M = Ok Mi ->
  vz (aapply (Aff Mi (vred (vneg (mapply Mi p)))) x) == / det M * dot (cross (c0 M) (c1 M)) (vsub x p).
Proof.
  intro H. destruct (inv3_rows M Mi H) as (_ & R).
  destruct (R x) as (_ & _ & Rx). destruct (R p) as (_ & _ & Rp).
  unfold aapply, vadd, vred, vneg; proj. rewrite Qred_correct. rewrite Rx, Rp.
  unfold smul, adj_apply, dot, vsub; proj. ring.
Qed.

Theorem p2p_coplanar_accepted pos r c sr sc pos2 r2 c2 sr2 sc2 :
  orthonormal r c -> orthonormal r2 c2 -> same_plane pos r c pos2 r2 c2 ->
  0 < sr -> 0 < sc -> 0 < sr2 -> 0 < sc2 ->
  exists T P P2 Rv2,
    p2p_make (apos pos) (aori r c) (asp sr sc) (apos pos2) (aori r2 c2) (asp sr2 sc2) = Ok T /\
    p2r_make (apos pos) (aori r c) (asp sr sc) = Ok P /\
    p2r_make (apos pos2) (aori r2 c2) (asp sr2 sc2) = Ok P2 /\
    r2p_make (apos pos2) (aori r2 c2) (asp sr2 sc2) 1 = Ok Rv2 /\
    forall i j,
      veq (aapply T (V3 i j 0)) (aapply Rv2 (aapply P (V3 i j 0))) /\
      vz (aapply T (V3 i j 0)) == 0 /\
      veq (aapply P2 (V3 (vx (aapply T (V3 i j 0))) (vy (aapply T (V3 i j 0))) 0)) (aapply P (V3 i j 0)).
Proof.
  intros O O2 S Hr Hc Hr2 Hc2.
  assert (N1 : ~ 1 == 0) by discriminate.
  destruct (inverse_pairs pos2 r2 c2 sr2 sc2 1 O2 Hr2 Hc2 N1) as (P2 & Rv2 & _ & _ & HP2 & HR2 & _ & _ & _ & F2 & _).
  destruct (r2p_make_ok pos2 r2 c2 sr2 sc2 1 O2 Hr2 Hc2 N1) as (Mi & EI & HR2').
  rewrite HR2 in HR2'. injection HR2' as ->.
  exists (acomp (Aff Mi (vred (vneg (mapply Mi pos2)))) (Aff (rotRD r c sr sc 1) pos)),
         (Aff (rotRD r c sr sc 1) pos), P2, (Aff Mi (vred (vneg (mapply Mi pos2)))).
  split.
  { unfold p2p_make. rewrite (coplanar_guard_same_plane _ _ _ _ _ _ O S). cbn [bind].
    fold (p2r_make (apos pos) (aori r c) (asp sr sc)). rewrite p2r_make_ok by assumption. cbn [bind].
    fold (r2p_make (apos pos2) (aori r2 c2) (asp sr2 sc2) 1). rewrite HR2. reflexivity. }
  split; [apply p2r_make_ok; assumption|]. split; [exact HP2|]. split; [exact HR2|].
  intros i j.
  set (Rv := Aff Mi (vred (vneg (mapply Mi pos2)))) in *.
  set (P := Aff (rotRD r c sr sc 1) pos).
  assert (A1 : veq (aapply (acomp Rv P) (V3 i j 0)) (aapply Rv (aapply P (V3 i j 0)))) by apply acomp_apply.
  assert (Z : vz (aapply Rv (aapply P (V3 i j 0))) == 0).
  { subst Rv. rewrite (inv_affine_z _ _ _ _ EI).
    assert (D0 : dot (cross (c0 (rotRD r2 c2 sr2 sc2 1)) (c1 (rotRD r2 c2 sr2 sc2 1))) (vsub (aapply P (V3 i j 0)) pos2) == 0).
    { destruct S as (N & D).
      transitivity (sc2 * sr2 * dot (vsub (aapply P (V3 i j 0)) pos2) (cross r2 c2)).
      { unfold rotRD, rotation_core; cbn [conv_vec conv_sp normal c0 c1]. unfold dot, cross, smul, vsub; proj. ring. }
      assert (E : dot (vsub (aapply P (V3 i j 0)) pos2) (cross r c) == 0).
      { transitivity (dot (vsub pos pos2) (cross r c) + i * sc * dot r (cross r c) + j * sr * dot c (cross r c)).
        - subst P. unfold rotRD, rotation_core; cbn [conv_vec conv_sp normal].
          unfold aapply, mapply, vadd, vsub, smul, dot, cross; proj. ring.
        - rewrite D, dot_cross_l, dot_cross_r. ring. }
      destruct N as [N|N]; rewrite (dot_proper_r _ _ _ N).
      - rewrite E. ring.
      - rewrite dot_neg_r, E. ring. }
    rewrite D0. ring. }
  split; [exact A1|]. destruct A1 as (A1x & A1y & A1z). split; [rewrite A1z; exact Z|].
  transitivity (aapply P2 (V3 (vx (aapply Rv (aapply P (V3 i j 0)))) (vy (aapply Rv (aapply P (V3 i j 0)))) 0)).
  - apply aapply_proper. unfold veq; proj. split; [exact A1x | split; [exact A1y | reflexivity]].
  - apply F2. exact Z.
Qed.

(* PixelToPixelTransformer.for_images(ds, ds, frame_number_from = f, for_total_pixel_matrix_to = True):
   accepted, and pixel (i, j) of the frame is pixel (C - 1 + i, R - 1 + j) of the total pixel matrix *)
Theorem tiled_full_p2p_frame_to_tpm d x y oz r c sr sc oss f :
  is_tiled_full d x y oz r c sr sc oss -> orthonormal r c -> 0 < sr -> 0 < sc ->
  (1 <= d_rows d)%Z -> (1 <= d_cols d)%Z -> (1 <= d_tpm_rows d)%Z -> (1 <= d_tpm_cols d)%Z ->
  (1 <= d_focal d)%Z -> (1 <= d_paths d)%Z ->
  (1 <= f <= d_paths d * d_focal d * tf_nt d)%Z ->
  tf_sl d f = 0%Z ->
  exists t X,
    tiled_full_frame d f = Ok t /\
    for_images_p2p d d (Some f) None false true = Ok X /\
    forall i j, veq (aapply X (V3 i j 0))
                    (V3 (inject_Z (tf_col t) - 1 + i) (inject_Z (tf_row t) - 1 + j) 0).
Proof.
  intros W O Hsr Hsc Hr Hc HR HC Hfo Hpa Hf SL0.
  pose proof (tiled_full_frame_ok d x y oz r c sr sc oss f W Hsr Hsc Hr Hc HR HC Hfo Hpa Hf) as TF.
  set (C0 := inject_Z (tf_ci d f * d_cols d)) in *. set (R0 := inject_Z (tf_ri d f * d_rows d)) in *.
  set (z1 := opt_or oz 0 + inject_Z (tf_sl d f) * opt_or oss 1) in *.
  set (fp := aapply (Aff (rotRD r c sr sc 1) (V3 x y z1)) (V3 C0 R0 0)) in *.
  set (pos2 := V3 x y (opt_or oz 0)).
  assert (Z1 : z1 == opt_or oz 0) by (subst z1; rewrite SL0; change (inject_Z 0) with 0; ring).
  assert (S : same_plane fp r c pos2 r c).
  { split; [left; reflexivity|].
    transitivity (C0 * sc * dot r (cross r c) + R0 * sr * dot c (cross r c) + (z1 - opt_or oz 0) * vz (cross r c)).
    - subst fp pos2. unfold rotRD, rotation_core; cbn [conv_vec conv_sp normal].
      unfold aapply, mapply, vadd, vsub, smul, dot, cross; proj. ring.
    - rewrite Z1, dot_cross_l, dot_cross_r. ring. }
  destruct (p2p_coplanar_accepted fp r c sr sc pos2 r c sr sc O O S Hsr Hsc Hsr Hsc)
    as (T & P & P2 & Rv2 & HT & HP & HP2 & HR2 & K).
  assert (N1 : ~ 1 == 0) by discriminate.
  destruct (inverse_pairs pos2 r c sr sc 1 O Hsr Hsc N1) as (P2' & Rv2' & _ & _ & HP2' & HR2' & _ & _ & F1 & _).
  rewrite HP2 in HP2'. injection HP2' as <-. rewrite HR2 in HR2'. injection HR2' as <-.
  rewrite p2r_make_ok in HP, HP2 by assumption. injection HP as <-. injection HP2 as <-.
  eexists. exists T. split; [exact TF|]. split.
  { unfold for_images_p2p, for_images, same_frame_of_reference.
    destruct W as (FR & W'). destruct (d_for d) as [u|] eqn:U; [|discriminate FR]. rewrite String.eqb_refl. cbn [bind].
    assert (W : is_tiled_full d x y oz r c sr sc oss) by (split; [rewrite U; reflexivity | exact W']).
    rewrite (spatial_info_tiled_full _ _ _ _ _ _ _ _ _ _ _ W TF), (spatial_info_tpm _ _ _ _ _ _ _ _ _ None W).
    cbn [bind si_pos si_ori si_sp tf_pos]. exact HT. }
  intros i j. cbn [tf_col tf_row]. destruct (K i j) as (K1 & _ & _). rewrite K1.
  assert (E : veq (aapply (Aff (rotRD r c sr sc 1) fp) (V3 i j 0))
                  (aapply (Aff (rotRD r c sr sc 1) pos2) (V3 (C0 + i) (R0 + j) 0))).
  { subst fp pos2. rewrite (frame_vs_tpm_z r c sr sc x y (opt_or oz 0)).
    match goal with |- veq (vadd ?q _) _ => destruct q as [qx qy qz] end. unfold veq, vadd; proj.
    split; [ring|]. split; [ring|]. rewrite Z1. ring. }
  rewrite (aapply_proper _ _ _ E). rewrite F1.
  subst C0 R0. rewrite !inject_Z_plus. unfold veq; proj. repeat split; ring.
Qed.

(* ---------------- what _get_spatial_information returns for the other kinds of image ---------------- *)
(* single-frame image: the root attributes; a frame number other than None / 1 is refused *)
Theorem spatial_info_single d p o s f :
  has (d_for d) = true -> d_ori_slide d = None -> d_center_seq d = false -> d_multiframe d = false ->
  d_ipp d = Some p -> d_iop d = Some o -> d_ps d = Some s ->
  (f = None \/ f = Some 1%Z ->
     get_spatial_information d f false = Ok (SInfo p o s (d_ss d)) /\
     for_image_p2r d f false = p2r_make p o s /\
     for_image_r2p d f false = r2p_make p o s (opt_or (d_ss d) 1)) /\
  (forall k, f = Some k -> k <> 1%Z -> get_spatial_information d f false = Err EType).
Proof.
  intros FR OS CS MF IP IO PS.
  assert (CSY : image_coordinate_system d = Ok (Some CPatient)).
  { unfold image_coordinate_system. rewrite FR, OS, CS, IP. reflexivity. }
  split.
  - intro H.
    assert (G : get_spatial_information d f false = Ok (SInfo p o s (d_ss d))).
    { unfold get_spatial_information. rewrite CSY. cbn [bind]. rewrite MF, IP, IO, PS.
      destruct H as [-> | ->]; reflexivity. }
    split; [exact G|]. unfold for_image_p2r, for_image_r2p. rewrite G. cbn [bind si_pos si_ori si_sp].
    split; [reflexivity|]. unfold ss_or_1, opt_or; cbn [si_ss]. reflexivity.
  - intros k -> K. unfold get_spatial_information. rewrite CSY. cbn [bind]. rewrite MF.
    replace (k =? 1)%Z with false by lia. reflexivity.
Qed.

(* multi-frame image in the patient coordinate system: position / orientation / spacing come from the
   shared functional group when present there, otherwise from the item of the requested frame *)
Theorem spatial_info_multiframe_patient d sh l f g pm p o :
  has (d_for d) = true -> d_ori_slide d = None -> d_center_seq d = false -> d_multiframe d = true ->
  d_tiled_full d = false -> d_shared d = Some sh -> d_perframe d = Some l ->
  image_coordinate_system d = Ok (Some CPatient) ->
  (1 <= f <= Z.of_nat (length l))%Z -> nth_error l (Z.to_nat (f - 1)) = Some g ->
  first_of (fg_pm sh) (fg_pm g) EValue = Ok pm ->
  first_of (fg_ipp sh) (fg_ipp g) EValue = Ok p ->
  first_of (fg_iop sh) (fg_iop g) EValue = Ok o ->
  get_spatial_information d (Some f) false = Ok (SInfo p o (pm_spacing pm) (pm_ss pm)) /\
  for_image_p2r d (Some f) false = p2r_make p o (pm_spacing pm) /\
  for_image_r2p d (Some f) false = r2p_make p o (pm_spacing pm) (opt_or (pm_ss pm) 1) /\
  get_spatial_information d None false = Err EType.
Proof.
  intros FR OS CS MF TF SH PF CSY Hf N PMe IPe IOe.
  assert (G : get_spatial_information d (Some f) false = Ok (SInfo p o (pm_spacing pm) (pm_ss pm))).
  { unfold get_spatial_information. rewrite CSY. cbn [bind]. rewrite MF, SH, TF, PF.
    unfold py_index. replace (f - 1 <? 0)%Z with false by lia.
    replace ((0 <=? f - 1) && (f - 1 <? Z.of_nat (length l)))%Z with true by lia.
    rewrite N. cbn [bind fs_get]. rewrite PMe. cbn [bind]. rewrite IPe. cbn [bind]. rewrite IOe. reflexivity. }
  split; [exact G|]. unfold for_image_p2r, for_image_r2p. rewrite G. cbn [bind si_pos si_ori si_sp].
  split; [reflexivity|]. split; [reflexivity|].
  unfold get_spatial_information. rewrite CSY. cbn [bind]. rewrite MF. reflexivity.
Qed.

(* tiled image with explicit per-frame positions: if the stored slide position of the frame is the
   total-pixel-matrix position of its stored (1-based) column / row offsets, frame and matrix agree *)
Theorem tiled_perframe_frame_vs_tpm d x y r c sr sc oss sh l f g C R :
  has (d_for d) = true -> d_multiframe d = true -> d_tiled_full d = false ->
  d_ori_slide d = Some [vx r; vy r; vz r; vx c; vy c; vz c] -> d_origin d = Some (x, y, None) ->
  d_shared d = Some sh -> fg_pm sh = Some (PMeas (asp sr sc) oss) -> fg_slide sh = None ->
  d_perframe d = Some l -> (1 <= f <= Z.of_nat (length l))%Z -> nth_error l (Z.to_nat (f - 1)) = Some g ->
  0 < sr -> 0 < sc ->
  (exists px py pz, fg_slide g = Some (px, py, pz) /\
     veq (V3 px py pz) (aapply (Aff (rotRD r c sr sc 1) (V3 x y 0)) (V3 (inject_Z C - 1) (inject_Z R - 1) 0))) ->
  exists Fm T,
    for_image_p2r d (Some f) false = Ok Fm /\ for_image_p2r d None true = Ok T /\
    forall i j, veq (aapply Fm (V3 i j 0)) (aapply T (V3 (inject_Z C - 1 + i) (inject_Z R - 1 + j) 0)).
Proof.
  intros FR MF TF OS OR SH PM NS PF Hf N Hsr Hsc (px & py & pz & GS & E).
  assert (CSY : image_coordinate_system d = Ok (Some CSlide)).
  { unfold image_coordinate_system. rewrite FR, OS. reflexivity. }
  exists (Aff (rotRD r c sr sc 1) (V3 px py pz)), (Aff (rotRD r c sr sc 1) (V3 x y 0)).
  split.
  { unfold for_image_p2r, get_spatial_information. rewrite CSY. cbn [bind]. rewrite MF, SH, TF, PF.
    unfold py_index. replace (f - 1 <? 0)%Z with false by lia.
    replace ((0 <=? f - 1) && (f - 1 <? Z.of_nat (length l)))%Z with true by lia.
    rewrite N. cbn [bind fs_get]. rewrite PM, NS, GS. cbn [first_of bind]. rewrite OS.
    cbn [bind si_pos si_ori si_sp pm_spacing].
    change (ASeq [px; py; pz]) with (apos (V3 px py pz)).
    change (ASeq [vx r; vy r; vz r; vx c; vy c; vz c]) with (aori r c). apply p2r_make_ok; assumption. }
  split.
  { unfold for_image_p2r, get_spatial_information. rewrite CSY. cbn [bind]. rewrite OR, SH, PM, OS.
    cbn [bind si_pos si_ori si_sp pm_spacing].
    change (ASeq [x; y; 0]) with (apos (V3 x y 0)).
    change (ASeq [vx r; vy r; vz r; vx c; vy c; vz c]) with (aori r c). apply p2r_make_ok; assumption. }
  intros i j. destruct E as (E1 & E2 & E3). cbn [vx vy vz] in E1, E2, E3.
  revert E1 E2 E3. unfold rotRD, rotation_core; cbn [conv_vec conv_sp normal].
  unfold veq, aapply, mapply, vadd, smul; proj. intros E1 E2 E3. rewrite E1, E2, E3. repeat split; ring.
Qed.

(* refusals *)
Theorem spatial_info_refusals d f tpm :
  (d_for d = None -> get_spatial_information d f tpm = Err EValue) /\
  (forall cs, image_coordinate_system d = Ok (Some cs) -> d_origin d = None ->
     get_spatial_information d f true = Err EValue) /\
  (forall cs, image_coordinate_system d = Ok (Some cs) -> d_multiframe d = true ->
     get_spatial_information d None false = Err EType).
Proof.
  split; [|split].
  - intro H. unfold get_spatial_information, image_coordinate_system. rewrite H. reflexivity.
  - intros cs H O. unfold get_spatial_information. rewrite H. cbn [bind]. rewrite O. reflexivity.
  - intros cs H M. unfold get_spatial_information. rewrite H. cbn [bind]. rewrite M. reflexivity.
Qed.

Theorem for_images_refuses_other_frame_of_reference mk a b fa fb ta tb :
  (forall u, d_for a = Some u -> d_for b <> Some u) -> exists k, for_images mk a b fa fb ta tb = Err k.
Proof.
  intro H. unfold for_images, same_frame_of_reference.
  destruct (d_for a) as [u|]; [|eexists; reflexivity]. destruct (d_for b) as [v|] eqn:B; [|eexists; reflexivity].
  destruct (String.eqb u v) eqn:E; [|eexists; reflexivity].
  apply String.eqb_eq in E. subst v. exfalso. exact (H u eq_refl eq_refl).
Qed.

(* observation recorded as coded: a per-frame multi-frame image asked for frame number 0 is not
   refused - Python's negative indexing returns the LAST frame's position *)
Example frame_number_zero_wraps :
  let g k := FGroup None (Some (ASeq [0; 0; inject_Z k])) None None in
  let d := DSet (Some "1.2"%string) true false None false None None None None
                (Some (FGroup (Some (PMeas (ASeq [1; 1]) None)) None (Some (ASeq [1; 0; 0; 0; 1; 0])) None))
                (Some [g 10%Z; g 20%Z; g 30%Z]) false None 4 4 0 0 1 1 in
  get_spatial_information d (Some 0%Z) false = get_spatial_information d (Some 3%Z) false /\
  exists s, get_spatial_information d (Some 0%Z) false = Ok s.
Proof. split; [reflexivity | eexists; reflexivity]. Qed.

(* ---------------- witnesses ---------------- *)
Definition wsi_example (oz : option Q) : dset :=
  DSet (Some "1.2.3"%string) true true (Some [0; 1; 0; 1; 0; 0]) false None None None None
       (Some (FGroup (Some (PMeas (ASeq [1 # 2; 1 # 2]) None)) None None None)) None true
       (Some (10, 20, oz)) 4 4 8 8 1 1.

Definition wsi5 : dset := wsi_example (Some 5).

(* non-vacuity of the dataset theorems: a concrete TILED_FULL image meets the hypotheses *)
Example dataset_example :
  is_tiled_full wsi5 10 20 (Some 5) (V3 0 1 0) (V3 1 0 0) (1 # 2) (1 # 2) None /\
  orthonormal (V3 0 1 0) (V3 1 0 0) /\
  (1 <= 4 <= d_paths wsi5 * d_focal wsi5 * tf_nt wsi5)%Z /\
  tf_sl wsi5 4 = 0%Z /\
  run_tiled_full_frame wsi5 4 = VL [VZ 1; VZ 1; VZ 5; VZ 5; VL [VQ (48 # 4); VQ (88 # 4); VQ (20 # 4)]] /\
  run_for_images wsi5 wsi5 (Some 4%Z) None false true [[1; 2]]
  = match run_for_images wsi5 wsi5 (Some 4%Z) None false true [[1; 2]] with
    | VL [VL [a; _]; b] => VL [VL [a; VL [VL [VQ 5; VQ 6]]]; b] | _ => VErr "shape" end.
Proof.
  split; [unfold is_tiled_full; cbn; repeat split; eexists; split; reflexivity|].
  split; [unfold orthonormal; vm_compute; repeat split; reflexivity|].
  split; [vm_compute; split; discriminate|]. split; [reflexivity|]. split; vm_compute; reflexivity.
Qed.
