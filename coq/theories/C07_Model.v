(* C07 - model of highdicom.frame.encode_frame / decode_frame
   (src/highdicom/frame.py, state after the fixes bd2d2be = D12, 976cb85 = D69,
   6c3f345 = D70, 52201cd = D52).

   A frame is its C-order flattening (rows, columns, samples) as a list of
   integers; a byte string is a list of integers in [0,256).

   Modelled here (executable, no proofs in this file):
     - the parameter record [params] and the validation cascade of
       encode_frame, with its literal tables taken from a [tables] record
       ([default_tables] is the hand transcription; harness/translate_c07.py
       regenerates the same record from the CURRENT source on every run);
     - native encoding: pydicom pack_bits (LSB first, zero padded to an even
       number of bytes) and ndarray.tobytes (little-endian two's complement
       words of the ARRAY's item size);
     - decode_frame: highdicom's own 1-bit path (unpack, frame offset from
       [index], reshape(rows, columns)) and the pydicom native path (option
       validation, length check, words, unused-bit correction);
     - pydicom's EncodeRunner.validate for the encapsulated syntaxes (third
       party, re-modelled because it decides accept/reject; cross-checked by
       the correspondence run).
     - pydicom's pure-Python RLE Lossless encoder and decoder (third party,
       re-modelled so that the RLE round trip is a theorem; bytes and decoded
       arrays are compared with the real codec on every run);
     - decode_frame's entry-point validation for arbitrary parameters
       ([decode_frame_model]).
   NOT modelled (oracle premises of the theorems): the JPEG-LS / JPEG 2000 /
   JPEG codecs themselves, pydicom's YBR_FULL->RGB conversion. *)
From Coq Require Import String ZArith List Bool.
From HD Require Import Base.Val.
Import ListNotations.
Open Scope Z_scope.

(* ---------------------------------------------------------------- enums *)
Inductive tsyntax :=
| TImplicit | TExplicit | TRLE | TJLS | TJLSNear | TJ2KL | TJ2K | TJPEG
| TOther.   (* any UID outside frame.py's tables, e.g. Explicit VR Big Endian *)

Inductive pinterp :=
| MONO1 | MONO2 | PALETTE | RGB | YBR_FULL | YBR_FULL_422 | YBR_PARTIAL_420
| YBR_ICT | YBR_RCT.

Inductive dkind := KBool | KUInt | KInt.

Definition ts_code (t : tsyntax) : Z :=
  match t with TImplicit => 0 | TExplicit => 1 | TRLE => 2 | TJLS => 3 | TJLSNear => 4
             | TJ2KL => 5 | TJ2K => 6 | TJPEG => 7 | TOther => 8 end.
Definition pi_code (p : pinterp) : Z :=
  match p with MONO1 => 0 | MONO2 => 1 | PALETTE => 2 | RGB => 3 | YBR_FULL => 4
             | YBR_FULL_422 => 5 | YBR_PARTIAL_420 => 6 | YBR_ICT => 7 | YBR_RCT => 8 end.
Definition ts_eqb (a b : tsyntax) : bool := ts_code a =? ts_code b.
Definition pi_eqb (a b : pinterp) : bool := pi_code a =? pi_code b.
Definition mem_ts (t : tsyntax) (l : list tsyntax) : bool := existsb (ts_eqb t) l.
Definition mem_pi (p : pinterp) (l : list pinterp) : bool := existsb (pi_eqb p) l.
Definition memZ (x : Z) (l : list Z) : bool := existsb (Z.eqb x) l.
Definition optZ_eqb (a : option Z) (b : Z) : bool :=
  match a with Some x => x =? b | None => false end.
Definition is_none {A} (o : option A) : bool := match o with None => true | Some _ => false end.

Fixpoint assocZ {A} (k : Z) (l : list (Z * A)) : option A :=
  match l with [] => None | (k', v) :: r => if k =? k' then Some v else assocZ k r end.
Fixpoint assoc_ts {A} (k : tsyntax) (l : list (tsyntax * A)) : option A :=
  match l with [] => None | (k', v) :: r => if ts_eqb k k' then Some v else assoc_ts k r end.

(* ------------------------------------------------------------ parameters *)
Record params := mkP {
  p_ts : tsyntax;
  p_rows : Z; p_cols : Z;
  p_ndim3 : bool;          (* array.ndim > 2 *)
  p_shape2 : Z;            (* array.shape[2] when ndim3 *)
  p_balloc : Z; p_bstored : Z;
  p_pi : option pinterp;   (* None: not a value of PhotometricInterpretationValues *)
  p_pixrep : Z;
  p_planar : option Z;
  p_dkind : dkind; p_dsize : Z   (* array.dtype kind and itemsize (bytes) *)
}.

Definition spp (p : params) : Z := if p_ndim3 p then p_shape2 p else 1.
Definition npix (p : params) : Z := p_rows p * p_cols p * spp p.

(* ---------------------------------------------------------------- tables *)
(* one pydicom ENCODING_PROFILES row:
   (PI, SamplesPerPixel, PixelRepresentation set, BitsAllocated set, BitsStored lo, hi) *)
Definition profile := (pinterp * Z * list Z * list Z * (Z * Z))%type.

Record tables := mkT {
  t_uncompressed : list tsyntax;              (* uncompressed_transfer_syntaxes *)
  t_compressed : list tsyntax;                (* compressed_transfer_syntaxes *)
  t_native_pis : list (Z * list pinterp);     (* allowable_pis *)
  t_jpeg_mono_pis : list pinterp;             (* JPEG baseline, samples == 1 *)
  t_jpeg_color_pi : pinterp;                  (* JPEG baseline, samples == 3 *)
  t_jpeg_bits : Z;                            (* bits_allocated, bits_stored *)
  t_codec_names : list tsyntax;               (* keys of the [name] dict *)
  t_codec_spp : list Z;                       (* samples_per_pixel not in (1, 3) *)
  t_mono_pis : list pinterp;                  (* generic codec branch, samples == 1 *)
  t_mono_bits_j2kl : list Z;                  (* (1, 8, 16) *)
  t_mono_bits : list Z;                       (* (8, 16) *)
  t_color_bits : list Z;                      (* (8, 16) *)
  t_required_pi : list (tsyntax * pinterp);   (* required_pi *)
  t_j2k_min_size : Z;                         (* 32 *)
  t_rle_min_alloc : Z;                        (* 8: RLE, bits_allocated > 8 and bits_stored <= 8 *)
  t_profiles : list (tsyntax * list profile)  (* pydicom ENCODING_PROFILES *)
}.

Definition mono_pis := [MONO1; MONO2; PALETTE].

Definition default_tables : tables := mkT
  [TExplicit; TImplicit]
  [TJPEG; TJ2K; TJ2KL; TJLS; TJLSNear; TRLE]
  [(1, [MONO1; MONO2; PALETTE]); (3, [RGB; YBR_FULL])]
  [MONO1; MONO2; PALETTE] YBR_FULL_422 8
  [TJ2K; TJ2KL; TJLS; TJLSNear; TRLE]
  [1; 3]
  [MONO1; MONO2; PALETTE]
  [1; 8; 16] [8; 16] [8; 16]
  [(TJ2K, YBR_ICT); (TJ2KL, YBR_RCT); (TJLS, RGB); (TJLSNear, RGB)]
  32 8
  [ (TJLS, [ (MONO1, 1, [0; 1], [8; 16], (2, 16)); (MONO2, 1, [0; 1], [8; 16], (2, 16));
             (PALETTE, 1, [0], [8; 16], (2, 16)); (YBR_FULL, 3, [0], [8], (2, 8));
             (RGB, 3, [0], [8; 16], (2, 16)) ]);
    (TJLSNear, [ (MONO1, 1, [0; 1], [8; 16], (2, 16)); (MONO2, 1, [0; 1], [8; 16], (2, 16));
                 (YBR_FULL, 3, [0], [8], (2, 8)); (RGB, 3, [0], [8; 16], (2, 16)) ]);
    (TJ2KL, [ (MONO1, 1, [0; 1], [8; 16; 24; 32; 40], (1, 38));
              (MONO2, 1, [0; 1], [8; 16; 24; 32; 40], (1, 38));
              (PALETTE, 1, [0], [8; 16], (1, 16));
              (YBR_RCT, 3, [0], [8; 16; 24; 32; 40], (1, 38));
              (RGB, 3, [0], [8; 16; 24; 32; 40], (1, 38));
              (YBR_FULL, 3, [0], [8; 16; 24; 32; 40], (1, 38)) ]);
    (TJ2K, [ (MONO1, 1, [0; 1], [8; 16; 24; 32; 40], (1, 38));
             (MONO2, 1, [0; 1], [8; 16; 24; 32; 40], (1, 38));
             (YBR_ICT, 3, [0], [8; 16; 24; 32; 40], (1, 38));
             (RGB, 3, [0], [8; 16; 24; 32; 40], (1, 38));
             (YBR_FULL, 3, [0], [8; 16; 24; 32; 40], (1, 38)) ]);
    (TRLE, [ (MONO1, 1, [0; 1], [8; 16], (1, 16)); (MONO2, 1, [0; 1], [8; 16], (1, 16));
             (PALETTE, 1, [0], [8; 16], (1, 16)); (YBR_FULL, 3, [0], [8], (1, 8));
             (RGB, 3, [0], [8; 16], (1, 16)) ]) ].

Definition EV : string := "ValueError".
Definition EK : string := "KeyError".
Definition EA : string := "AttributeError".

(* ------------------------------------------- encode_frame: the cascade *)
(* frame.py:96-139: shape, enum conversions, supported syntaxes *)
Definition check_common (T : tables) (p : params) : option string :=
  if p_ndim3 p && is_none (p_planar p) then Some EV
  else if p_ndim3 p && negb (optZ_eqb (p_planar p) 0 || optZ_eqb (p_planar p) 1) then Some EV
  else if negb ((p_pixrep p =? 0) || (p_pixrep p =? 1)) then Some EV
  else if is_none (p_pi p) then Some EV
  else if negb (mem_ts (p_ts p) (t_uncompressed T) || mem_ts (p_ts p) (t_compressed T)) then Some EV
  (* fix 976cb85 (D69) *)
  else if negb ((1 <=? p_bstored p) && (p_bstored p <=? p_balloc p)) then Some EV
  else None.

Definition pi_in (p : params) (l : list pinterp) : bool :=
  match p_pi p with Some x => mem_pi x l | None => false end.
Definition pi_is (p : params) (x : pinterp) : bool :=
  match p_pi p with Some y => pi_eqb y x | None => false end.

(* frame.py:140-170, parameter part *)
Definition check_native (T : tables) (p : params) : option string :=
  if (1 <? spp p) && negb (optZ_eqb (p_planar p) 0) then Some EV
  else match assocZ (spp p) (t_native_pis T) with
       | None => Some EK
       | Some pis =>
           if negb (pi_in p pis) then Some EV
           else if p_balloc p =? 1 then
             (if negb (npix p mod 8 =? 0) then Some EV else None)
           else if negb (p_dsize p * 8 =? p_balloc p) then Some EV
           else None
       end.

(* frame.py:172-213 *)
Definition check_jpeg (T : tables) (p : params) : option string :=
  let r1 :=
    if spp p =? 1 then
      if negb (is_none (p_planar p)) then Some EV
      else if negb (pi_in p (t_jpeg_mono_pis T)) then Some EV else None
    else if spp p =? 3 then
      if negb (pi_is p (t_jpeg_color_pi T)) then Some EV
      else if negb (optZ_eqb (p_planar p) 0) then Some EV else None
    else Some EV in
  match r1 with
  | Some e => Some e
  | None =>
      if negb (p_balloc p =? t_jpeg_bits T) || negb (p_bstored p =? t_jpeg_bits T) then Some EV
      else if negb (p_pixrep p =? 0) then Some EV else None
  end.

(* frame.py:224-310 *)
Definition check_codec (T : tables) (p : params) : option string :=
  if negb (mem_ts (p_ts p) (t_codec_names T)) then Some EK
  else if negb (memZ (spp p) (t_codec_spp T)) then Some EV
  else
    let r1 :=
      if negb (ts_eqb (p_ts p) TRLE) then
        if negb (p_pixrep p =? 0) then Some EV
        else if spp p =? 1 then
          if negb (is_none (p_planar p)) then Some EV
          else if negb (pi_in p (t_mono_pis T)) then Some EV
          else if ts_eqb (p_ts p) TJ2KL then
            (if negb (memZ (p_balloc p) (t_mono_bits_j2kl T)) then Some EV else None)
          else (if negb (memZ (p_balloc p) (t_mono_bits T)) then Some EV else None)
        else if spp p =? 3 then
          if negb (optZ_eqb (p_planar p) 0) then Some EV
          else if negb (memZ (p_balloc p) (t_color_bits T)) then Some EV
          else match assoc_ts (p_ts p) (t_required_pi T) with
               | None => Some EK
               | Some rq => if negb (pi_is p rq) then Some EV else None
               end
        else None
      else None in
    match r1 with
    | Some e => Some e
    | None =>
        (* fix 6c3f345 (D70) *)
        if ts_eqb (p_ts p) TRLE && (t_rle_min_alloc T <? p_balloc p) && (p_bstored p <=? t_rle_min_alloc T)
        then Some EV
        else if (ts_eqb (p_ts p) TJ2K || ts_eqb (p_ts p) TJ2KL)
           && ((p_rows p <? t_j2k_min_size T) || (p_cols p <? t_j2k_min_size T))
        then Some EV else None
    end.

(* pydicom EncodeRunner.validate (RunnerBase._validate_options,
   _validate_array without the value range, _validate_encoding_profile) *)
Definition profile_matches (p : params) (pr : profile) : bool :=
  let '(pi, s, reps, allocs, (lo, hi)) := pr in
  pi_is p pi && (spp p =? s) && memZ (p_pixrep p) reps && memZ (p_balloc p) allocs
  && (lo <=? p_bstored p) && (p_bstored p <=? hi).

Definition check_pydicom (T : tables) (p : params) : option string :=
  if negb ((1 <=? p_balloc p) && (p_balloc p <=? 64))
     || (negb (p_balloc p =? 1) && negb (p_balloc p mod 8 =? 0)) then Some EV
  else if negb ((1 <=? p_bstored p) && (p_bstored p <=? p_balloc p)) then Some EV
  else if negb ((0 <? p_cols p) && (p_cols p <=? 65535)) then Some EV
  else if negb ((0 <? p_rows p) && (p_rows p <=? 65535)) then Some EV
  else if negb ((spp p =? 1) || (spp p =? 3)) then Some EV
  else if (spp p =? 3) && is_none (p_planar p) then Some EA
  else if (spp p =? 3) && negb (optZ_eqb (p_planar p) 0 || optZ_eqb (p_planar p) 1) then Some EV
  (* _validate_array *)
  else if p_ndim3 p && (spp p =? 1) then Some EV          (* shape (r, c, 1) vs (r, c) *)
  else match p_dkind p with
       | KBool => Some EV
       | k =>
           if negb (match k with KInt => p_pixrep p =? 1 | _ => p_pixrep p =? 0 end) then Some EV
           else if p_dsize p <? (p_balloc p + 7) / 8 then Some EV
           else None
       end.

Definition check_profile (T : tables) (p : params) : option string :=
  match assoc_ts (p_ts p) (t_profiles T) with
  | None => None
  | Some prs => if existsb (profile_matches p) prs then None else Some EV
  end.

(* value-dependent refusals; the content of the frame enters only through
   its minimum and maximum *)
Definition fits_stored (p : params) (lo hi : Z) : bool :=
  if p_pixrep p =? 1
  then (- 2 ^ (p_bstored p - 1) <=? lo) && (hi <=? 2 ^ (p_bstored p - 1) - 1)
  else (0 <=? lo) && (hi <=? 2 ^ p_bstored p - 1).

Definition is_native (T : tables) (p : params) : bool := mem_ts (p_ts p) (t_uncompressed T).

Definition uses_pydicom_encoder (p : params) : bool :=
  negb (ts_eqb (p_ts p) TJPEG) && negb (ts_eqb (p_ts p) TJ2KL && (p_balloc p =? 1)).

(* highdicom's own parameter checks, in the order of the code *)
Definition check_hd (T : tables) (p : params) : option string :=
  match check_common T p with
  | Some e => Some e
  | None =>
      if is_native T p then check_native T p
      else if ts_eqb (p_ts p) TJPEG then check_jpeg T p
      else check_codec T p
  end.

(* highdicom's value-dependent refusals: pack_bits' 0/1 test (native, 1 bit)
   and the 1-bit JPEG 2000 test.  The content of the frame enters only through
   its minimum [lo] and maximum [hi]. *)
Definition check_hd_content (T : tables) (p : params) (lo hi : Z) : option string :=
  if is_native T p then
    (if (p_balloc p =? 1) && negb ((0 <=? lo) && (hi <=? 1)) then Some EV else None)
  else if ts_eqb (p_ts p) TJ2KL && (p_balloc p =? 1) then
    (if negb (match p_dkind p with KBool => true | _ => false end) && (1 <? hi) then Some EV else None)
  else None.

(* everything in front of the codec that highdicom itself decides *)
Definition check_cascade (T : tables) (p : params) (lo hi : Z) : option string :=
  match check_hd T p with
  | Some e => Some e
  | None => check_hd_content T p lo hi
  end.

(* pydicom's EncodeRunner.validate, reached for RLE / JPEG-LS / JPEG 2000
   (not for JPEG baseline, not for 1-bit JPEG 2000) *)
Definition check_encoder (T : tables) (p : params) (lo hi : Z) : option string :=
  if is_native T p || negb (uses_pydicom_encoder p) then None
  else match check_pydicom T p with
       | Some e => Some e
       | None => if negb (fits_stored p lo hi) then Some EV else check_profile T p
       end.

Definition check (T : tables) (p : params) (lo hi : Z) : option string :=
  match check_cascade T p lo hi with
  | Some e => Some e
  | None => check_encoder T p lo hi
  end.

Definition accepts (T : tables) (p : params) (lo hi : Z) : bool := is_none (check T p lo hi).

Definition list_min (l : list Z) : Z := fold_right Z.min (hd 0 l) l.
Definition list_max (l : list Z) : Z := fold_right Z.max (hd 0 l) l.

(* --------------------------------------------------------- bits and words *)
(* pydicom pack_bits: LSB first, last byte zero filled, then padded to an
   even number of bytes *)
Definition byte_of_bits (l : list Z) : Z := fold_right (fun b acc => b + 2 * acc) 0 l.

Fixpoint pack_fuel (fuel : nat) (l : list Z) : list Z :=
  match fuel with
  | O => []
  | S k => match l with
           | [] => []
           | _ => byte_of_bits (firstn 8 l) :: pack_fuel k (skipn 8 l)
           end
  end.
Definition pack_bits_nopad (l : list Z) : list Z := pack_fuel (length l) l.
Definition pad_even (bs : list Z) : list Z := if Nat.even (length bs) then bs else bs ++ [0].
Definition pack_bits (l : list Z) : list Z := pad_even (pack_bits_nopad l).

Definition bits_of_byte (b : Z) : list Z :=
  map (fun i => (b / 2 ^ i) mod 2) [0; 1; 2; 3; 4; 5; 6; 7].
Definition unpack_bits (bs : list Z) : list Z := flat_map bits_of_byte bs.

(* ndarray.tobytes on a little-endian machine: k bytes, two's complement *)
Fixpoint le_bytes (k : nat) (v : Z) : list Z :=
  match k with O => [] | S k' => v mod 256 :: le_bytes k' (v / 256) end.
Definition le_word (bs : list Z) : Z := fold_right (fun b acc => b + 256 * acc) 0 bs.

Fixpoint words_fuel (fuel : nat) (k : nat) (bs : list Z) : list Z :=
  match fuel with
  | O => []
  | S n => match bs with
           | [] => []
           | _ => le_word (firstn k bs) :: words_fuel n k (skipn k bs)
           end
  end.
Definition words (k : nat) (bs : list Z) : list Z := words_fuel (length bs) k bs.

Definition to_signed (w x : Z) : Z :=
  let m := x mod 2 ^ w in if m <? 2 ^ (w - 1) then m else m - 2 ^ w.

(* ------------------------------------------------------- native encoding *)
Definition encode_native (p : params) (f : list Z) : list Z :=
  if p_balloc p =? 1 then pack_bits f
  else flat_map (le_bytes (Z.to_nat (p_dsize p))) f.

Definition encode_frame (T : tables) (p : params) (f : list Z) : res (list Z) :=
  match check T p (list_min f) (list_max f) with
  | Some e => Err e
  | None => Ok (encode_native p f)
  end.

(* ------------------------------------------------------------ decode_frame *)
Inductive decoded :=
| DArr (shape : list Z) (values : list Z)
| DColor (raw : list Z).     (* pydicom applied YBR_FULL -> RGB to [raw] (not modelled) *)

(* frame.py:442-449: bit-packed native frames (fix 52201cd = D52: several samples) *)
Definition decode_bits (rows cols samples index : Z) (value : list Z) : res decoded :=
  let unpacked := unpack_bits value in
  let n := rows * cols * samples in
  let off := (index * n) mod 8 in
  let px := firstn (Z.to_nat n) (skipn (Z.to_nat off) unpacked) in
  if 1 <? samples then
    (if Z.of_nat (length px) =? n then Ok (DArr [rows; cols; samples] px) else Err EV)
  else
    (if Z.of_nat (length px) =? rows * cols then Ok (DArr [rows; cols] px) else Err EV).

(* frame.py:449-489 through pydicom's native decoder, one frame *)
Definition decode_words (p : params) (value : list Z) : res decoded :=
  let s := spp p in
  if negb ((1 <=? p_balloc p) && (p_balloc p <=? 64))
     || (negb (p_balloc p =? 1) && negb (p_balloc p mod 8 =? 0)) then Err EV
  else if negb ((1 <=? p_bstored p) && (p_bstored p <=? p_balloc p)) then Err EV
  else if negb ((s =? 1) || (s =? 3)) then Err EV
  else
    let k := p_balloc p / 8 in
    let expected := npix p * k in
    let actual := Z.of_nat (length value) in
    if (actual <? expected + expected mod 2) && negb (actual =? expected) then Err EV
    else
      (* allow_excess_frames: a longer value is read as several frames *)
      let nf := if (expected + expected mod 2 <? actual) && (1 <? actual / expected)
                then actual / expected else 1 in
      let ws := words (Z.to_nat k) (firstn (Z.to_nat (expected * nf)) value) in
      let vals := map (fun u => if p_pixrep p =? 1 then to_signed (p_bstored p) u
                                else u mod 2 ^ p_bstored p) ws in
      if (s =? 3) && pi_is p YBR_FULL then
        (if (p_balloc p =? 8) && (p_pixrep p =? 0) then Ok (DColor vals) else Err EV)
      else Ok (DArr ((if 1 <? nf then [nf] else [])
                     ++ (if s =? 1 then [p_rows p; p_cols p] else [p_rows p; p_cols p; s])) vals).

(* decode_frame with the parameters the frame was encoded with *)
Definition decode_native (p : params) (index : Z) (value : list Z) : res decoded :=
  if p_balloc p =? 1 then decode_bits (p_rows p) (p_cols p) (spp p) index value
  else decode_words p value.

(* ------------------------------------------------- independent predicate *)
(* What the chosen syntax (and this encoder: the array is RGB or monochrome,
   colour samples interleaved) can represent; written from PS3.5 section 8
   and PS3.3 C.7.6.3, not from the code. *)
Definition colour_ok (p : params) (allowed : list pinterp) : bool :=
  p_ndim3 p && (spp p =? 3) && pi_in p allowed && (p_pixrep p =? 0).
Definition mono_ok (p : params) (allowed : list pinterp) : bool :=
  (spp p =? 1) && pi_in p allowed && implb (pi_is p PALETTE) (p_pixrep p =? 0).

Definition representable (p : params) : bool :=
  ((p_pixrep p =? 0) || (p_pixrep p =? 1))
  && (1 <=? p_bstored p) && (p_bstored p <=? p_balloc p)
  && (1 <=? p_rows p) && (1 <=? p_cols p)
  && match p_ts p with
     | TImplicit | TExplicit =>
         (* bit-packed frames that fill whole bytes, or words of the array's own
            width; colour only as interleaved RGB *)
         ((p_balloc p =? 1) && (npix p mod 8 =? 0)
          && ((spp p =? 1) && pi_in p mono_pis
              || (p_ndim3 p && (spp p =? 3) && pi_is p RGB && optZ_eqb (p_planar p) 0)))
         || (memZ (p_balloc p) [8; 16; 32; 64] && (p_dsize p * 8 =? p_balloc p)
             && ((spp p =? 1) && pi_in p mono_pis
                 || (p_ndim3 p && (spp p =? 3) && pi_is p RGB && optZ_eqb (p_planar p) 0)))
     | TRLE =>
         memZ (p_balloc p) [8; 16] && (p_bstored p <=? 16)
         && (negb (p_ndim3 p) && mono_ok p mono_pis
             || colour_ok p [RGB] && (optZ_eqb (p_planar p) 0 || optZ_eqb (p_planar p) 1))
     | TJLS | TJLSNear =>
         memZ (p_balloc p) [8; 16] && (2 <=? p_bstored p) && (p_bstored p <=? 16)
         && (negb (p_ndim3 p) && mono_ok p mono_pis
             || colour_ok p [RGB] && (optZ_eqb (p_planar p) 0 || optZ_eqb (p_planar p) 1))
     | TJ2KL =>
         (negb (p_ndim3 p) && mono_ok p mono_pis && memZ (p_balloc p) [1; 8; 16; 24; 32; 40]
          || colour_ok p [RGB; YBR_RCT] && memZ (p_balloc p) [8; 16; 24; 32; 40]
             && (optZ_eqb (p_planar p) 0 || optZ_eqb (p_planar p) 1))
         && (p_bstored p <=? 38)
     | TJ2K =>
         (negb (p_ndim3 p) && mono_ok p [MONO1; MONO2; PALETTE] && memZ (p_balloc p) [8; 16; 24; 32; 40]
          || colour_ok p [RGB; YBR_ICT] && memZ (p_balloc p) [8; 16; 24; 32; 40]
             && (optZ_eqb (p_planar p) 0 || optZ_eqb (p_planar p) 1))
         && (p_bstored p <=? 38)
     | TJPEG =>
         (p_balloc p =? 8) && (p_bstored p =? 8) && (p_pixrep p =? 0)
         && (negb (p_ndim3 p) && mono_ok p mono_pis
             || colour_ok p [RGB; YBR_FULL_422] && (optZ_eqb (p_planar p) 0 || optZ_eqb (p_planar p) 1))
     | TOther => false
     end.

(* cells that the code accepts although they are not representable: the open
   finding D51 (YBR_FULL stored unconverted on native / RLE syntaxes, converted
   to RGB by pydicom on reading) *)
Definition open_gap (p : params) : bool :=
  (spp p =? 3) && pi_is p YBR_FULL
  && (ts_eqb (p_ts p) TImplicit || ts_eqb (p_ts p) TExplicit || ts_eqb (p_ts p) TRLE).

(* ------------------------------------------------------------- boundary *)
Definition vdecoded (r : res decoded) : val :=
  match r with
  | Err k => VErr k
  | Ok (DArr sh vs) => VL [vz_list sh; vz_list vs]
  | Ok (DColor _) => VS "YBR_FULL->RGB"
  end.

(* native syntaxes: [bytes; decode_frame result] or the error class *)
Definition run_native (p : params) (f : list Z) : val :=
  match encode_frame default_tables p f with
  | Err e => VErr e
  | Ok bs => VL [vz_list bs; vdecoded (decode_native p 0 bs)]
  end.

(* encapsulated syntaxes: only the accept/reject class is computed *)
Definition run_validate (p : params) (lo hi : Z) : val :=
  match check default_tables p lo hi with
  | Some e => VErr e
  | None => VS "validated"
  end.

(* the same when the codec behind the cascade is not installed (JPEG 2000 here):
   pydicom raises RuntimeError before its own validation is reached *)
Definition run_cascade (p : params) (lo hi : Z) : val :=
  match check_cascade default_tables p lo hi with
  | Some e => VErr e
  | None => VS "validated"
  end.

(* decode_frame on a given byte string (malformed / truncated streams) *)
Definition run_decode (p : params) (index : Z) (value : list Z) : val :=
  vdecoded (decode_native p index value).

(* value[:cut] for cut < 0, value + bytes(1..cut) otherwise *)
Definition damage (cut : Z) (bs : list Z) : list Z :=
  if cut <? 0 then firstn (Nat.sub (List.length bs) (Z.to_nat (- cut))) bs
  else bs ++ map Z.of_nat (seq 1 (Z.to_nat cut)).
Definition run_decode_damaged (p : params) (index cut : Z) (f : list Z) : val :=
  vdecoded (decode_native p index (damage cut (encode_native p f))).

(* frame [index] of a bit-packed multi-frame stream: pack all frames, cut the
   covering byte range [index*n/8, ceil((index+1)*n/8)) and decode it *)
Definition frame_bytes (n index : Z) (stream : list Z) : list Z :=
  let a := (index * n) / 8 in
  let b := ((index + 1) * n + 7) / 8 in
  firstn (Z.to_nat (b - a)) (skipn (Z.to_nat a) stream).

Definition run_bit_index (rows cols index : Z) (frames : list (list Z)) : val :=
  let stream := pack_bits_nopad (concat frames) in
  vdecoded (decode_bits rows cols 1 index (frame_bytes (rows * cols) index stream)).

(* ---------------------------------------- encapsulated syntaxes, abstractly *)
(* [codec_encode p f = None]: the codec itself raised (RuntimeError) *)
Definition encode_encaps (codec_encode : params -> list Z -> option (list Z))
           (T : tables) (p : params) (f : list Z) : res (list Z) :=
  match check T p (list_min f) (list_max f) with
  | Some e => Err e
  | None => match codec_encode p f with Some bs => Ok bs | None => Err "RuntimeError" end
  end.

(* frame.py:449-489 for an encapsulated syntax: the planar-configuration guard,
   then pydicom decodes the one-frame dataset *)
Definition decode_encaps (codec_decode : params -> list Z -> res decoded)
           (p : params) (value : list Z) : res decoded :=
  if (1 <? spp p) && is_none (p_planar p) then Err EV else codec_decode p value.

(* ======================================================================
   RLE Lossless: pydicom's pure-Python codec (third party, re-modelled so that
   the round trip is a THEOREM instead of a premise; compared byte for byte
   with the real encoder and decoder on every run).
   pydicom/pixels/encoders/native.py  _encode_frame/_encode_segment/_encode_row
   pydicom/pixels/decoders/rle.py     _rle_decode_frame/_rle_decode_segment/
                                      _rle_parse_header
   pydicom/pixels/encoders/base.py    EncodeRunner._get_frame_array (itemsize)
   ====================================================================== *)
Definition ERT : string := "RuntimeError".

(* itertools.groupby: maximal runs (value, count) *)
Fixpoint rle_groups (l : list Z) : list (Z * Z) :=
  match l with
  | [] => []
  | x :: r => match rle_groups r with
              | (y, n) :: gs => if x =? y then (y, n + 1) :: gs else (x, 1) :: (y, n) :: gs
              | [] => [(x, 1)]
              end
  end.

Definition rle_max : nat := 128.

(* literal runs: chunks of at most 128 bytes, header = length - 1 *)
Fixpoint rle_literal_fuel (fuel : nat) (l : list Z) : list Z :=
  match fuel with
  | O => []
  | S k => match l with
           | [] => []
           | _ => (Z.of_nat (length (firstn rle_max l)) - 1) :: firstn rle_max l
                  ++ rle_literal_fuel k (skipn rle_max l)
           end
  end.
Definition rle_literal (l : list Z) : list Z := rle_literal_fuel (length l) l.

(* replicate runs: (129, v) per full 128, then (257 - r, v) for r > 1 or the
   literal (0, v) for r = 1 *)
Definition rle_replicate (v n : Z) : list Z :=
  let q := n / 128 in
  let r := n mod 128 in
  concat (repeat [129; v] (Z.to_nat q))
  ++ (if 1 <? r then [257 - r; v] else if r =? 1 then [0; v] else []).

(* _encode_row: single values are collected in [lit]; a longer group first
   flushes the collected literal *)
Fixpoint rle_row_groups (lit : list Z) (gs : list (Z * Z)) : list Z :=
  match gs with
  | [] => rle_literal lit
  | (v, n) :: r =>
      if n =? 1 then rle_row_groups (lit ++ [v]) r
      else rle_literal lit ++ rle_replicate v n ++ rle_row_groups [] r
  end.
Definition rle_encode_row (row : list Z) : list Z := rle_row_groups [] (rle_groups row).

Fixpoint chunks_fuel (fuel : nat) (c : nat) (l : list Z) : list (list Z) :=
  match fuel with
  | O => []
  | S k => match l with
           | [] => []
           | _ => firstn c l :: chunks_fuel k c (skipn c l)
           end
  end.
Definition chunks (c : nat) (l : list Z) : list (list Z) := chunks_fuel (length l) c l.

(* _encode_segment: every image row separately, odd length padded with 0 *)
Definition rle_encode_segment (cols : Z) (src : list Z) : list Z :=
  pad_even (concat (map rle_encode_row (chunks (Z.to_nat cols) src))).

(* EncodeRunner._get_frame_array: container chosen from BITS STORED *)
Definition rle_itemsize (bs : Z) : Z :=
  if bs <=? 8 then 1 else if bs <=? 16 then 2 else if bs <=? 32 then 4 else 8.

(* src[start::step] *)
Definition stride_from (start step : nat) (l : list Z) : list Z :=
  map (fun i => nth (start + i * step) l 0)
      (seq 0 (Nat.div (length l - start + step - 1) step)).

Definition rle_bytes_alloc (p : params) : nat := Z.to_nat ((p_balloc p + 7) / 8).

(* the byte segments in the order of the stream: per sample, most significant
   byte plane first *)
Definition rle_segments (p : params) (f : list Z) : list (list Z) :=
  let k := rle_bytes_alloc p in
  let s := Z.to_nat (spp p) in
  let src := flat_map (le_bytes (Z.to_nat (rle_itemsize (p_bstored p)))) f in
  flat_map (fun smp => map (fun b => rle_encode_segment (p_cols p)
                                        (stride_from (b + k * smp) (k * s) src))
                           (rev (seq 0 k)))
           (seq 0 s).

Fixpoint prefix_sums (start : Z) (lens : list Z) : list Z :=
  match lens with [] => [] | l :: r => start :: prefix_sums (start + l) r end.

Definition zlen {A : Type} (l : list A) : Z := Z.of_nat (length l).

(* _encode_frame: 64-byte header (number of segments, offsets, zero filled) *)
Definition rle_encode_frame (p : params) (f : list Z) : res (list Z) :=
  let segs := rle_segments p f in
  let offs := prefix_sums 64 (map zlen segs) in
  if 15 <? zlen segs then Err ERT
  else if existsb (fun o => 2 ^ 32 <=? o) offs then Err ERT     (* struct.pack('<L') *)
  else
    let hdr := le_bytes 4 (zlen segs) ++ flat_map (le_bytes 4) offs in
    Ok (hdr ++ repeat 0 (64 - length hdr) ++ concat segs).

Definition encode_rle (T : tables) (p : params) (f : list Z) : res (list Z) :=
  match check T p (list_min f) (list_max f) with
  | Some e => Err e
  | None => rle_encode_frame p f
  end.

(* _rle_decode_segment: header byte h: h+1 > 129 replicate the next byte
   258-(h+1) times, h+1 < 129 copy the next h+1 bytes, h = 128 no operation;
   slices past the end are short (no error) *)
Fixpoint rle_decode_fuel (fuel : nat) (src : list Z) : list Z :=
  match fuel with
  | O => []
  | S k =>
      match src with
      | [] => []
      | h :: r =>
          let hb := h + 1 in
          if 129 <? hb then
            match r with
            | [] => []
            | x :: r' => repeat x (Z.to_nat (258 - hb)) ++ rle_decode_fuel k r'
            end
          else if hb <? 129 then
            firstn (Z.to_nat hb) r ++ rle_decode_fuel k (skipn (Z.to_nat hb) r)
          else rle_decode_fuel k r
      end
  end.
Definition rle_decode_segment (src : list Z) : list Z := rle_decode_fuel (length src) src.

(* src[a:b] for a, b >= 0 (positions clamped to the length first: a damaged
   header may carry offsets up to 2^32, which must not be turned into unary
   numbers) *)
Definition slice (a b : Z) (l : list Z) : list Z :=
  let n := zlen l in
  firstn (Z.to_nat (Z.min (b - a) n)) (skipn (Z.to_nat (Z.min a n)) l).

Fixpoint rle_cut (src : list Z) (a : Z) (rest : list Z) : list (list Z) :=
  match rest with [] => [] | b :: r => slice a b src :: rle_cut src b r end.

(* _rle_decode_frame + frombuffer/reshape(planar configuration 1 -> pixel
   interleaved): the unsigned words of the frame in (rows, columns, samples)
   order.  Exceptions raised inside the decoder plug-in reach the caller of
   decode_frame as RuntimeError *)
Definition rle_decode_frame (rows cols : Z) (s k : nat) (src : list Z) : res (list Z) :=
  let hdr := firstn 64 src in
  if negb (Nat.eqb (length hdr) 64) then Err ERT
  else
    let nseg := le_word (firstn 4 hdr) in
    if 15 <? nseg then Err ERT
    else
      let offs := words 4 (firstn (Z.to_nat (4 * nseg)) (skipn 4 hdr)) in
      if negb (nseg =? Z.of_nat (s * k)) then Err ERT
      else
        let segs := match offs ++ [zlen src] with
                    | [] => []
                    | a :: rest => map rle_decode_segment (rle_cut src a rest)
                    end in
        let n := rows * cols in
        if existsb (fun sg => zlen sg <? n) segs then Err ERT
        else Ok (flat_map (fun i => map (fun smp =>
                     le_word (map (fun b => nth i (nth (smp * k + (k - 1 - b)) segs []) 0) (seq 0 k)))
                   (seq 0 s)) (seq 0 (Z.to_nat n))).

(* decode_frame for RLE Lossless: highdicom's planar-configuration guard,
   pydicom's option validation, the decoder, sign / unused-bit correction *)
Definition decode_rle (p : params) (value : list Z) : res decoded :=
  let s := spp p in
  if (1 <? s) && is_none (p_planar p) then Err EV
  else if negb ((1 <=? p_balloc p) && (p_balloc p <=? 64))
     || (negb (p_balloc p =? 1) && negb (p_balloc p mod 8 =? 0)) then Err EV
  else if negb ((1 <=? p_bstored p) && (p_bstored p <=? p_balloc p)) then Err EV
  else if negb ((s =? 1) || (s =? 3)) then Err EV
  else
    match rle_decode_frame (p_rows p) (p_cols p) (Z.to_nat s) (Z.to_nat (p_balloc p / 8)) value with
    | Err e => Err e
    | Ok ws =>
        let vals := map (fun u => if p_pixrep p =? 1 then to_signed (p_bstored p) u
                                  else u mod 2 ^ p_bstored p) ws in
        if (s =? 3) && pi_is p YBR_FULL then
          (if (p_balloc p =? 8) && (p_pixrep p =? 0) then Ok (DColor vals) else Err EV)
        else Ok (DArr (if s =? 1 then [p_rows p; p_cols p] else [p_rows p; p_cols p; s]) vals)
    end.

(* RLE Lossless: [bytes; decode_frame result] or the error class *)
Definition run_rle (p : params) (f : list Z) : val :=
  match encode_rle default_tables p f with
  | Err e => VErr e
  | Ok bs => VL [vz_list bs; vdecoded (decode_rle p bs)]
  end.

(* decode_frame on a damaged RLE stream: [cut] as in [damage], then (when
   0 <= pos) the byte at position pos mod length replaced by [v]; pydicom's
   encapsulate pads an odd fragment with one zero byte *)
Definition set_byte (pos v : Z) (bs : list Z) : list Z :=
  if (pos <? 0) || (zlen bs =? 0) then bs
  else let i := Z.to_nat (pos mod zlen bs) in firstn i bs ++ [v] ++ skipn (S i) bs.
Definition run_rle_damaged (p : params) (cut pos v : Z) (f : list Z) : val :=
  match rle_encode_frame p f with
  | Err e => VErr e
  | Ok bs =>
      match set_byte pos v (damage cut bs) with
      | [] => VErr EV        (* pydicom's encapsulate refuses an empty frame (ValueError) *)
      | d => vdecoded (decode_rle p (pad_even d))
      end
  end.

(* frame [index] of a bit-packed multi-frame stream with [samples] samples per
   pixel (the covering byte range of frame [index] is handed to decode_frame) *)
Definition run_bit_index_s (rows cols samples index : Z) (frames : list (list Z)) : val :=
  let stream := pack_bits_nopad (concat frames) in
  vdecoded (decode_bits rows cols samples index (frame_bytes (rows * cols * samples) index stream)).

(* ------------------------------------------- all transfer syntaxes at once *)
(* encode_frame / decode_frame as one pair of functions: native and RLE Lossless
   executable, the remaining encapsulated syntaxes through an abstract codec *)
Definition encode_any (codec_encode : params -> list Z -> option (list Z))
           (T : tables) (p : params) (f : list Z) : res (list Z) :=
  if is_native T p then encode_frame T p f
  else if ts_eqb (p_ts p) TRLE then encode_rle T p f
  else encode_encaps codec_encode T p f.

Definition decode_any (codec_decode : params -> list Z -> res decoded)
           (T : tables) (p : params) (value : list Z) : res decoded :=
  if is_native T p then decode_native p 0 value
  else if ts_eqb (p_ts p) TRLE then decode_rle p value
  else decode_encaps codec_decode p value.

(* ------------------------------------------- decode_frame, the entry point *)
(* frame.py:459-512 with ARBITRARY parameters (not only the ones the frame was
   encoded with): the bit-packed native path looks at rows, columns, samples and
   index only; every other path first converts pixel representation, photometric
   interpretation and (for colour) planar configuration to their enumerations
   (ValueError), then pydicom decodes; a native colour frame read with planar
   configuration 1 is taken plane by plane *)
Definition planar_read (n s : nat) (ws : list Z) : list Z :=
  flat_map (fun i => map (fun smp => nth (smp * n + i) ws 0) (seq 0 s)) (seq 0 n).

Definition decode_frame_model (p : params) (index : Z) (value : list Z) : res decoded :=
  if is_native default_tables p && (p_balloc p =? 1) then
    decode_bits (p_rows p) (p_cols p) (spp p) index value
  else if negb ((p_pixrep p =? 0) || (p_pixrep p =? 1)) then Err EV
  else if is_none (p_pi p) then Err EV
  else if (1 <? spp p) && is_none (p_planar p) then Err EV
  else if (1 <? spp p) && negb (optZ_eqb (p_planar p) 0 || optZ_eqb (p_planar p) 1) then Err EV
  else if ts_eqb (p_ts p) TRLE then decode_rle p value
  else
    match decode_words p value with
    | Ok (DArr sh vals) =>
        if (1 <? spp p) && optZ_eqb (p_planar p) 1 && Nat.eqb (length sh) 3
        then Ok (DArr sh (planar_read (Z.to_nat (p_rows p * p_cols p)) (Z.to_nat (spp p)) vals))
        else Ok (DArr sh vals)
    | r => r
    end.

(* encode with [p], decode the bytes with [q] (one parameter changed) *)
Definition run_decode_params (p q : params) (f : list Z) : val :=
  match (if ts_eqb (p_ts p) TRLE then encode_rle default_tables p f else encode_frame default_tables p f) with
  | Err e => VErr e
  | Ok bs => vdecoded (decode_frame_model q 0 bs)
  end.

(* ======================================================================
   decode_frame, the WHOLE entry point (frame.py:459-512), every lossless
   syntax: bit-packed native path, enum conversions, planar-configuration
   guard, then
     - native words through pydicom (a longer value is read as several
       frames; with planar configuration 1 EVERY frame is read plane by plane),
     - encapsulated syntaxes through pydicom.encaps.encapsulate (an empty
       value is refused with ValueError, an odd one is padded with one zero
       byte) and the decoder of the syntax (RLE Lossless: the model above;
       JPEG-LS / JPEG 2000: [codec_decode]).
   [index] only matters on the bit-packed path. *)
Definition planar_frames (n s : nat) (ws : list Z) : list Z :=
  flat_map (planar_read n s) (chunks (n * s) ws).

Definition entry_guard (p : params) : bool :=
  negb ((p_pixrep p =? 0) || (p_pixrep p =? 1))
  || is_none (p_pi p)
  || (1 <? spp p) && is_none (p_planar p)
  || (1 <? spp p) && negb (optZ_eqb (p_planar p) 0 || optZ_eqb (p_planar p) 1).

Definition decode_frame_entry (codec_decode : params -> list Z -> res decoded)
           (p : params) (index : Z) (value : list Z) : res decoded :=
  if is_native default_tables p && (p_balloc p =? 1) then
    decode_bits (p_rows p) (p_cols p) (spp p) index value
  else if entry_guard p then Err EV
  else if is_native default_tables p then
    match decode_words p value with
    | Ok (DArr sh vals) =>
        if (1 <? spp p) && optZ_eqb (p_planar p) 1
        then Ok (DArr sh (planar_frames (Z.to_nat (p_rows p * p_cols p)) (Z.to_nat (spp p)) vals))
        else Ok (DArr sh vals)
    | r => r
    end
  else
    match value with
    | [] => Err EV
    | _ => if ts_eqb (p_ts p) TRLE then decode_rle p (pad_even value)
           else codec_decode p (pad_even value)
    end.

(* encode with [p]; damage the bytes ([cut] as in [damage]); decode with [q]
   (any parameter, the syntax included, may differ) at frame index [index] *)
Definition run_decode_entry (p q : params) (index cut : Z) (f : list Z) : val :=
  match (if ts_eqb (p_ts p) TRLE then encode_rle default_tables p f else encode_frame default_tables p f) with
  | Err e => VErr e
  | Ok bs => vdecoded (decode_frame_entry (fun _ _ => Err ERT) q index (damage cut bs))
  end.

(* 1-bit JPEG 2000 Lossless (frame.py:333-341): an integer array is converted
   with astype(bool) before it reaches the codec *)
Definition as_bool (f : list Z) : list Z := map (fun v => if v =? 0 then 0 else 1) f.
