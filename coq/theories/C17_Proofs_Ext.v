(* C17 - proofs, part 2: objects built through the API, the composite value-semantics statement,
   == against non-codes, histories (reachable heaps) and depth of the copy. *)
From Coq Require Import String ZArith List Bool Ascii Lia.
From HD Require Import Base.Val C17_Model C17_Proofs.
Import ListNotations.
Open Scope string_scope.
Open Scope Z_scope.

(* ---- every way the API produces a code ---------------------------------------------------- *)
Inductive built : obj -> Prop :=
| built_code : forall c, built (PD c)
| built_init : forall v s m ver d, init v s m ver = Ok d -> built (HD d)
| built_from_code : forall h c h' r d, from_code h (RCode c) = Ok (h', r) -> nth_error h' r = Some d -> built (HD d)
| built_from_dataset : forall h a copy h' r d,
    from_dataset h (Addr a) copy = Ok (h', r) -> nth_error h' r = Some d -> built (HD d)
| built_set_meaning : forall m o, built o -> built (with_meaning m o).

Lemma wf_set_cc : forall d, wf_concept d -> wf_concept (set_cc d).
Proof. intros d [A [B C]]. repeat split; assumption. Qed.

Lemma wf_set_meaning : forall m d, wf_concept d -> wf_concept (set_meaning m d).
Proof. intros m d [A [B C]]. repeat split; try assumption. cbn. discriminate. Qed.

Lemma wf_set_code : forall k v d, wf_concept d -> wf_concept (set_code k v d).
Proof. intros k v d [A [B C]]. split; [destruct k; reflexivity | split; assumption]. Qed.

Lemma wf_set_scheme : forall s d, wf_concept d -> wf_concept (set_scheme s d).
Proof. intros s d [A [B C]]. repeat split; try assumption. cbn. discriminate. Qed.

Lemma wf_set_version : forall ver d, wf_concept d -> wf_concept (set_version ver d).
Proof. intros ver d [A [B C]]. repeat split; assumption. Qed.

Lemma init_wf : forall v s m ver d, init v s m ver = Ok d -> wf_concept d.
Proof. intros v s m ver d H. apply (init_view (Code v s m ver) d H). Qed.

Lemma from_dataset_result : forall h a copy h' r d,
  from_dataset h (Addr a) copy = Ok (h', r) -> nth_error h' r = Some d ->
  exists d0, nth_error h a = Some d0 /\ wf_concept d0 /\ d = set_cc d0.
Proof.
  intros h a copy h' r d H Hr.
  destruct (nth_error h a) as [d0|] eqn:E; [|cbn [from_dataset] in H; rewrite E in H; discriminate].
  exists d0. split; [reflexivity|].
  assert (W : wf_concept d0) by (apply (from_dataset_ok_iff h a d0 copy E); eauto).
  split; [exact W|]. destruct copy.
  - destruct (from_dataset_copy h a d0 h' r E H) as [_ [_ [_ [K _]]]]. congruence.
  - destruct (from_dataset_alias h a d0 h' r E H) as [-> [_ [K _]]]. congruence.
Qed.

Lemma built_wf : forall o, built o -> match o with PD _ => True | HD d => wf_concept d end.
Proof.
  intros o B. induction B.
  - exact I.
  - eapply init_wf; eauto.
  - destruct (from_code_code (fun _ => None) _ _ _ _ H) as [d' [Hi [_ [Hn _]]]].
    rewrite Hn in H0. injection H0 as <-. unfold init_code in Hi. eapply init_wf; eauto.
  - destruct (from_dataset_result _ _ _ _ _ _ H H0) as [d0 [_ [W ->]]]. now apply wf_set_cc.
  - destruct o as [c|d]; cbn [with_meaning]; [exact I | now apply wf_set_meaning].
Qed.

Lemma built_ready : forall o, built o -> self_ready o = true /\ exists p, scheme_value o = Some p.
Proof.
  intros o B. pose proof (built_wf o B) as W. destruct o as [c|d].
  - split; [reflexivity | eexists; reflexivity].
  - destruct (wf_ready d W) as [R S]. split; [exact R|].
    destruct (scheme_value (HD d)) as [p|]; [eauto | congruence].
Qed.

Lemma built_oview : forall o, built o -> exists v, oview o = Some v.
Proof. intros o B. apply other_ready_oview, self_ready_other, built_ready, B. Qed.

(* ---- the property sentence on equality and hashing, for everything the API builds -------------- *)
Lemma values_semantics : forall srt (H : string -> Z),
  (forall a b, built a -> built b ->
     exists r, obj_eq srt a b = Ok r /\ obj_eq srt b a = Ok r /\ obj_ne srt a b = Ok (negb r)) /\
  (forall a, built a -> obj_eq srt a a = Ok true) /\
  (forall a b c, built a -> built b -> built c ->
     obj_eq srt a b = Ok true -> obj_eq srt b c = Ok true -> obj_eq srt a c = Ok true) /\
  (forall a b, built a -> built b ->
     exists va vb, oview a = Some va /\ oview b = Some vb /\
                   (obj_eq srt a b = Ok true <-> norm srt va = norm srt vb)) /\
  (forall a b m, built a -> built b ->
     built (with_meaning m a) /\ obj_eq srt (with_meaning m a) b = obj_eq srt a b /\
     obj_eq srt a (with_meaning m b) = obj_eq srt a b) /\
  (forall a b, built a -> built b -> scheme_value a = scheme_value b ->
     obj_hash H a = obj_hash H b /\ exists z, obj_hash H a = Ok z) /\
  (forall a b, built a -> built b -> scheme_value a = scheme_value b -> oview a = oview b ->
     in_set_of srt a b = Ok true /\ in_set_of srt b a = Ok true).
Proof.
  intros srt H. repeat split.
  - intros a b Ba Bb. destruct (built_ready a Ba) as [Ra _]. destruct (built_ready b Bb) as [Rb _].
    destruct (proj2 (eq_defined_iff srt a b) (conj Ra (self_ready_other b Rb))) as [r Hr].
    exists r. split; [exact Hr|]. split; [now rewrite <- (eq_sym_obj srt a b Ra Rb)|].
    apply ne_is_negation. now rewrite negb_involutive.
  - intros a Ba. apply eq_refl_obj, built_ready, Ba.
  - intros a b c _ _ _. apply eq_trans_obj.
  - intros a b Ba Bb. destruct (built_oview a Ba) as [va Hva]. destruct (built_oview b Bb) as [vb Hvb].
    exists va, vb. split; [exact Hva|]. split; [exact Hvb|].
    apply eq_kernel_of_norm; auto. apply built_ready, Ba.
  - now constructor.
  - apply eq_ignores_meaning_l, built_ready; assumption.
  - apply eq_ignores_meaning_r.
  - destruct (built_ready a H0) as [_ [p Hp]]. rewrite Hp in H2. symmetry in H2.
    apply (hash_agrees H a b p Hp H2).
  - destruct (built_ready a H0) as [_ [p Hp]]. rewrite Hp in H2. symmetry in H2.
    destruct (hash_agrees H a b p Hp H2) as [_ E]. eauto.
  - destruct (built_ready a H0) as [Ra [p Hp]]. rewrite Hp in H2. symmetry in H2.
    eapply set_treats_as_one; eauto.
  - destruct (built_ready a H0) as [_ [p Hp]]. destruct (built_ready b H1) as [Rb _].
    rewrite Hp in H2. symmetry in H2. eapply set_treats_as_one; eauto.
Qed.

(* ---- store -> convert -> read, for every attribute, copy flag and prior heap ------------------- *)
(* a value stored by __init__ and converted again (copy or alias, anywhere in a heap) reads back unchanged
   from the attribute the rule selects *)
Lemma store_convert_load : forall v s m ver copy (h : heap), slen m <= 64 ->
  exists d h' r d',
    init v s m ver = Ok d /\
    from_dataset (h ++ [d])%list (Addr (length h)) copy = Ok (h', r) /\ nth_error h' r = Some d' /\
    (r = length h <-> copy = false) /\
    attr_slot (select_attr v) d' = Some v /\ (forall a, a <> select_attr v -> attr_slot a d' = None) /\
    ds_value d' = Some v /\ ds_scheme d' = Ok s /\ ds_meaning d' = Ok m /\ ds_version d' = ver /\ d_cc d' = true.
Proof.
  intros v s m ver copy h Hm. destruct (proj2 (init_ok_iff v s m ver) Hm) as [d Hd].
  pose proof (store_load v s m ver d Hd) as [S1 [S2 [S3 [S4 [S5 [S6 [S7 S8]]]]]]].
  assert (Hn : nth_error (h ++ [d])%list (length h) = Some d) by (rewrite nth_error_app2, Nat.sub_diag by lia; reflexivity).
  assert (W : wf_concept d) by (eapply init_wf; eauto).
  destruct (proj2 (from_dataset_ok_iff (h ++ [d])%list (length h) d copy Hn) W) as [[h' r] Hr].
  assert (Hset : set_cc d = d).
  { destruct d; cbn in S8 |- *. now rewrite S8. }
  exists d, h', r, d. split; [exact Hd|]. split; [exact Hr|].
  destruct copy.
  - destruct (from_dataset_copy _ _ _ _ _ Hn Hr) as [Er [Ne [_ [K _]]]]. rewrite Hset in K.
    split; [exact K|]. split; [split; [intros E; congruence | discriminate]|].
    repeat split; assumption.
  - destruct (from_dataset_alias _ _ _ _ _ Hn Hr) as [Er [_ [K _]]]. rewrite Hset in K. subst r.
    split; [exact K|]. split; [split; reflexivity|]. repeat split; assumption.
Qed.

(* whatever attribute holds the value (the standard's or not), the converted dataset reads it back *)
Lemma convert_reads_any_attribute : forall a c copy,
  exists h' r d', from_dataset [ds_with a c] (Addr 0%nat) copy = Ok (h', r) /\ nth_error h' r = Some d' /\
    attr_slot a d' = Some (c_value c) /\ (forall a', a' <> a -> attr_slot a' d' = None) /\
    ds_value d' = Some (c_value c) /\ ds_scheme d' = Ok (c_scheme c) /\ ds_meaning d' = Ok (c_meaning c) /\
    ds_version d' = c_version c /\ d_cc d' = true.
Proof.
  intros a c copy. destruct copy; destruct a; cbn; do 3 eexists;
    (split; [reflexivity|]); (split; [reflexivity|]); cbn; repeat split; intros [] Hn; try reflexivity; contradiction.
Qed.

(* ---- == against a non-code ---------------------------------------------------------------------- *)
Lemma fields_eqb_spec : forall a b, fields_eqb a b = true <->
  d_cv a = d_cv b /\ d_lcv a = d_lcv b /\ d_urn a = d_urn b /\ d_meaning a = d_meaning b /\
  d_scheme a = d_scheme b /\ d_version a = d_version b.
Proof. intros a b. unfold fields_eqb. rewrite !andb_true_iff, !ostr_eqb_eq. tauto. Qed.

Lemma fields_eqb_sym : forall a b, fields_eqb a b = fields_eqb b a.
Proof.
  intros a b. destruct (fields_eqb a b) eqn:E, (fields_eqb b a) eqn:E'; try reflexivity.
  - apply fields_eqb_spec in E. rewrite <- E'. symmetry. apply fields_eqb_spec. intuition congruence.
  - apply fields_eqb_spec in E'. rewrite <- E. apply fields_eqb_spec. intuition congruence.
Qed.

Lemma py_eq_objs : forall srt a b, py_eq srt (VObj a) (VObj b) = obj_eq srt a b.
Proof. intros srt [ca|da] [cb|db]; reflexivity. Qed.

Lemma py_eq_concept_plain : forall srt d p,
  py_eq srt (VObj (HD d)) (VPlain p) = Ok (fields_eqb d p) /\
  py_eq srt (VPlain p) (VObj (HD d)) = Ok (fields_eqb d p).
Proof. intros. unfold py_eq; cbn. now rewrite (fields_eqb_sym p d). Qed.

Lemma py_eq_concept_foreign : forall srt d,
  py_eq srt (VObj (HD d)) VForeign = Ok false /\ py_eq srt VForeign (VObj (HD d)) = Ok false.
Proof. intros. split; reflexivity. Qed.

Lemma py_eq_code_noncode : forall srt c x, (forall o, x <> VObj o) ->
  py_eq srt (VObj (PD c)) x = Err "AttributeError" /\ py_eq srt x (VObj (PD c)) = Err "AttributeError".
Proof. intros srt c [o|p|] Hx; [exfalso; eapply Hx; reflexivity | split; reflexivity | split; reflexivity]. Qed.

Lemma py_eq_mixed_sym : forall srt a x, (forall o, x <> VObj o) ->
  py_eq srt (VObj a) x = py_eq srt x (VObj a) /\ py_ne srt (VObj a) x = py_ne srt x (VObj a).
Proof.
  intros srt a x Hx. assert (E : py_eq srt (VObj a) x = py_eq srt x (VObj a)).
  { destruct a as [c|d].
    - destruct (py_eq_code_noncode srt c x Hx) as [-> ->]. reflexivity.
    - destruct x as [o|p|]; [exfalso; eapply Hx; reflexivity | |reflexivity].
      destruct (py_eq_concept_plain srt d p) as [-> ->]. reflexivity. }
  split; [exact E | unfold py_ne; now rewrite E].
Qed.

(* against a plain dataset the comparison is pydicom's, element by element: here (and only here) the
   meaning takes part *)
Lemma eq_plain_dataset_elementwise : forall srt d p,
  (py_eq srt (VObj (HD d)) (VPlain p) = Ok true <->
   d_cv d = d_cv p /\ d_lcv d = d_lcv p /\ d_urn d = d_urn p /\ d_meaning d = d_meaning p /\
   d_scheme d = d_scheme p /\ d_version d = d_version p) /\
  (exists r, py_eq srt (VObj (HD d)) (VPlain p) = Ok r).
Proof.
  intros srt d p. destruct (py_eq_concept_plain srt d p) as [-> _]. split; [|eauto].
  rewrite <- fields_eqb_spec. split; [now intros [= ->] | now intros ->].
Qed.

Lemma plain_dataset_meaning_matters :
  exists srt d p, oview (HD d) = oview (HD p) /\ obj_eq srt (HD d) (HD p) = Ok true /\
                  py_eq srt (VObj (HD d)) (VPlain p) = Ok false.
Proof.
  exists (fun _ => None), (DS (Some "a") None None (Some "m") (Some "DCM") None true),
         (DS (Some "a") None None (Some "other") (Some "DCM") None false).
  repeat split.
Qed.

(* ---- histories: every reachable heap ------------------------------------------------------------ *)
Definition Inv (h : heap) : Prop := Forall (fun d => d_cc d = true -> wf_concept d) h.

Lemma Forall_update : forall (P : dsobj -> Prop) h a d, Forall P h -> P d -> Forall P (update h a d).
Proof.
  intros P h. induction h as [|x h IH]; intros [|a] d F Pd; cbn; auto; inversion F; subst; constructor; auto.
Qed.

Lemma Forall_nth_error : forall (P : dsobj -> Prop) h a d, Forall P h -> nth_error h a = Some d -> P d.
Proof. intros P h a d F E. rewrite Forall_forall in F. apply F. eapply nth_error_In; eauto. Qed.

Lemma from_dataset_inv : forall h x copy h' r, Inv h -> from_dataset h x copy = Ok (h', r) -> Inv h'.
Proof.
  intros h [|a] copy h' r I H; [discriminate|]. cbn [from_dataset] in H.
  destruct (nth_error h a) as [d|] eqn:E; [|discriminate].
  destruct (fd_check d) as [[]|k] eqn:F; cbn [bind] in H; [|discriminate].
  apply fd_check_ok in F. destruct copy; injection H as <- <-.
  - apply Forall_app. split; [exact I|]. constructor; [|constructor]. intros _. now apply wf_set_cc.
  - apply Forall_update; [exact I|]. intros _. now apply wf_set_cc.
Qed.

Lemma step_inv : forall srt st o, Inv (fst st) -> Inv (fst (fst (step srt st o))).
Proof.
  intros srt [h kids] o I. cbn [fst] in I.
  destruct o as [v s m ver|x|x copy|d nested|a m|a m|a b|a k v|a s|a ver|a|a|a b]; cbn [step].
  - destruct (init v s m ver) as [d|k] eqn:E; cbn [fst]; [|exact I].
    apply Forall_app. split; [exact I|]. constructor; [|constructor]. intros _. eapply init_wf; eauto.
  - destruct x as [c|a].
    + destruct (from_code h (RCode c)) as [[h' r]|k] eqn:E; cbn [fst]; [|exact I].
      cbn [from_code] in E. destruct (init_code c) as [d|k] eqn:Ei; cbn [bind] in E; [|discriminate].
      injection E as <- <-. apply Forall_app. split; [exact I|]. constructor; [|constructor].
      intros _. unfold init_code in Ei. eapply init_wf; eauto.
    + destruct (nth_error h a) as [d|]; [destruct (d_cc d)|]; exact I.
  - destruct (from_dataset h x copy) as [[h' r]|k] eqn:E; cbn [fst]; [|exact I].
    pose proof (from_dataset_inv _ _ _ _ _ I E) as I'.
    destruct copy; [|exact I']. destruct x as [|a]; [exact I'|].
    destruct (kid_of kids a) as [c|]; [|exact I'].
    destruct (nth_error h c) as [dc|] eqn:Ec; cbn [fst]; [|exact I'].
    apply Forall_app. split; [exact I'|]. constructor; [|constructor].
    eapply (Forall_nth_error _ h c dc I Ec).
  - destruct nested as [dc|]; cbn [fst]; apply Forall_app; (split; [exact I|]);
      repeat constructor; cbn; discriminate.
  - destruct (nth_error h a) as [d|] eqn:E; cbn [fst]; [|exact I].
    apply Forall_update; [exact I|]. cbn. intros C. apply wf_set_meaning. eapply (Forall_nth_error _ h a d I E), C.
  - destruct (kid_of kids a) as [c|]; [|exact I].
    destruct (nth_error h c) as [d|] eqn:E; cbn [fst]; [|exact I].
    apply Forall_update; [exact I|]. cbn. intros C. apply wf_set_meaning. eapply (Forall_nth_error _ h c d I E), C.
  - destruct (nth_error h a), (nth_error h b); exact I.
  - destruct (nth_error h a) as [d|] eqn:E; cbn [fst]; [|exact I].
    apply Forall_update; [exact I|]. cbn. intros C. apply wf_set_code. eapply (Forall_nth_error _ h a d I E), C.
  - destruct (nth_error h a) as [d|] eqn:E; cbn [fst]; [|exact I].
    apply Forall_update; [exact I|]. cbn. intros C. apply wf_set_scheme. eapply (Forall_nth_error _ h a d I E), C.
  - destruct (nth_error h a) as [d|] eqn:E; cbn [fst]; [|exact I].
    apply Forall_update; [exact I|]. cbn. intros C. apply wf_set_version. eapply (Forall_nth_error _ h a d I E), C.
  - destruct (nth_error h a) as [d|] eqn:E; cbn [fst]; [|exact I].
    pose proof (Forall_nth_error _ h a d I E) as Wd.
    destruct (kid_of kids a) as [c|]; [destruct (nth_error h c) as [dc|] eqn:Ec|]; cbn [fst];
      apply Forall_app; (split; [exact I|]).
    + constructor; [exact Wd|]. constructor; [|constructor]. eapply (Forall_nth_error _ h c dc I Ec).
    + constructor; [exact Wd|constructor].
    + constructor; [exact Wd|constructor].
  - destruct (nth_error h a); exact I.
  - destruct (nth_error h a), (nth_error h b); exact I.
Qed.

Lemma run_ops_inv : forall srt ops st, Inv (fst st) -> Inv (fst (fst (run_ops srt st ops))).
Proof.
  intros srt ops. induction ops as [|o ops IH]; intros st I; cbn [run_ops]; [exact I|].
  pose proof (step_inv srt st o I) as I1. destruct (step srt st o) as [st' v]. cbn [fst] in I1.
  specialize (IH st' I1). destruct (run_ops srt st' ops) as [st'' vs]. exact IH.
Qed.

Lemma reachable_inv : forall srt ops, Inv (fst (fst (run_ops srt ([], []) ops))).
Proof. intros. apply run_ops_inv. constructor. Qed.

(* hence: any two objects of class CodedConcept found in any reachable heap compare, both ways alike,
   hash, and are exactly one code each *)
Lemma reachable_concepts_are_values : forall srt ops h kids vs a b da db,
  run_ops srt ([], []) ops = ((h, kids), vs) ->
  nth_error h a = Some da -> nth_error h b = Some db -> d_cc da = true -> d_cc db = true ->
  wf_concept da /\ wf_concept db /\
  (exists r, obj_eq srt (HD da) (HD db) = Ok r /\ obj_eq srt (HD db) (HD da) = Ok r) /\
  obj_eq srt (HD da) (HD da) = Ok true /\ exists k, hash_key (HD da) = Ok k.
Proof.
  intros srt ops h kids vs a b da db R Ha Hb Ca Cb.
  pose proof (reachable_inv srt ops) as I. rewrite R in I. cbn [fst] in I.
  pose proof (Forall_nth_error _ h a da I Ha Ca) as Wa. pose proof (Forall_nth_error _ h b db I Hb Cb) as Wb.
  destruct (wf_ready da Wa) as [Ra Sa]. destruct (wf_ready db Wb) as [Rb _].
  split; [exact Wa|]. split; [exact Wb|]. split; [|split].
  - destruct (proj2 (eq_defined_iff srt (HD da) (HD db)) (conj Ra (self_ready_other _ Rb))) as [r Hr].
    exists r. split; [exact Hr | now rewrite <- (eq_sym_obj srt _ _ Ra Rb)].
  - now apply eq_refl_obj.
  - destruct (proj2 (hash_defined_iff (fun _ => 0) (HD da)) Sa) as [z Hz]. unfold obj_hash in Hz.
    destruct (hash_key (HD da)) as [k|k]; [eauto | discriminate].
Qed.

(* ---- depth of the copy ----------------------------------------------------------------------------- *)
(* copy=True on a dataset with a nested item: result and its nested item are both fresh objects, nothing
   that existed is touched, and no later write to the result or to its nested item reaches an old object *)
Lemma copy_is_deep : forall srt h kids a c d dc, nth_error h a = Some d -> wf_concept d ->
  kid_of kids a = Some c -> nth_error h c = Some dc ->
  let r := length h in
  step srt (h, kids) (OFromDataset (Addr a) true) = ((h ++ [set_cc d; dc])%list, (r, S r) :: kids, vnat r) /\
  kid_of ((r, S r) :: kids) r = Some (S r) /\ S r <> c /\ r <> a /\ nth_error h r = None /\ nth_error h (S r) = None /\
  (forall i, (i < length h)%nat -> nth_error (h ++ [set_cc d; dc])%list i = nth_error h i) /\
  (forall i x y, (i < length h)%nat ->
     nth_error (update (update (h ++ [set_cc d; dc])%list r x) (S r) y) i = nth_error h i).
Proof.
  intros srt h kids a c d dc Ha W Hk Hc r.
  assert (La : (a < length h)%nat) by (apply nth_error_Some; congruence).
  assert (Lc : (c < length h)%nat) by (apply nth_error_Some; congruence).
  split.
  - cbn [step from_dataset]. rewrite Ha. apply fd_check_ok in W. rewrite W. cbn [bind].
    rewrite Hk, Hc. rewrite app_length. cbn [length]. rewrite <- app_assoc. cbn [app].
    replace (length h + 1)%nat with (S (length h)) by lia. reflexivity.
  - split; [cbn [kid_of]; now rewrite Nat.eqb_refl|].
    split; [unfold r; lia|]. split; [unfold r; lia|].
    split; [apply nth_error_None; unfold r; lia|]. split; [apply nth_error_None; unfold r; lia|].
    split.
    + intros i Hi. now rewrite nth_error_app1.
    + intros i x y Hi. rewrite !nth_error_update_other by (unfold r; lia). now rewrite nth_error_app1.
Qed.

(* copy=False: the same object, hence the same nested item *)
Lemma alias_shares_nested : forall srt h kids a d, nth_error h a = Some d -> wf_concept d ->
  step srt (h, kids) (OFromDataset (Addr a) false) = (update h a (set_cc d), kids, vnat a).
Proof.
  intros srt h kids a d Ha W. cbn [step from_dataset]. rewrite Ha. apply fd_check_ok in W. rewrite W. reflexivity.
Qed.

(* in every reachable state no two datasets share a nested item (only an alias, being the same object, does) *)
Definition KInv (st : state) : Prop :=
  Forall (fun pc => (fst pc < length (fst st))%nat /\ (snd pc < length (fst st))%nat) (snd st) /\
  NoDup (map snd (snd st)) /\ NoDup (map fst (snd st)).

Lemma from_dataset_length : forall h x copy h' r, from_dataset h x copy = Ok (h', r) ->
  (length h <= length h')%nat /\ (r < length h')%nat /\ (copy = true -> r = length h /\ length h' = S (length h)).
Proof.
  intros h [|a] copy h' r H; [discriminate|]. cbn [from_dataset] in H.
  destruct (nth_error h a) as [d|] eqn:E; [|discriminate].
  assert (La : (a < length h)%nat) by (apply nth_error_Some; congruence).
  destruct (fd_check d) as [[]|k]; cbn [bind] in H; [|discriminate].
  destruct copy; injection H as <- <-.
  - rewrite app_length. cbn. repeat split; lia.
  - rewrite length_update. repeat split; try lia; try discriminate.
Qed.

Lemma KInv_weaken : forall h h' kids, (length h <= length h')%nat -> KInv (h, kids) -> KInv (h', kids).
Proof.
  intros h h' kids L [F N]. split; [|exact N]. cbn [fst snd] in *.
  eapply Forall_impl; [|exact F]. cbn. intros pc [A B]. lia.
Qed.

Lemma KInv_add : forall h h' kids p c, KInv (h, kids) -> (length h <= p)%nat -> (length h <= c)%nat ->
  (p < length h')%nat -> (c < length h')%nat -> (length h <= length h')%nat -> KInv (h', (p, c) :: kids).
Proof.
  intros h h' kids p c [F [N1 N2]] Lp Lc Lp' Lc' L. cbn [fst snd] in *. split; [|split].
  - constructor; [cbn; lia|]. eapply Forall_impl; [|exact F]. cbn. intros pc [A B]. lia.
  - cbn [map snd]. constructor; [|exact N1]. intros Hin. apply in_map_iff in Hin as [[p' c'] [E Hin]].
    rewrite Forall_forall in F. specialize (F _ Hin). cbn in E, F. lia.
  - cbn [map fst]. constructor; [|exact N2]. intros Hin. apply in_map_iff in Hin as [[p' c'] [E Hin]].
    rewrite Forall_forall in F. specialize (F _ Hin). cbn in E, F. lia.
Qed.

Lemma step_kinv : forall srt st o, KInv st -> KInv (fst (step srt st o)).
Proof.
  intros srt [h kids] o K.
  destruct o as [v s m ver|x|x copy|d nested|a m|a m|a b|a k v|a s|a ver|a|a|a b]; cbn [step].
  - destruct (init v s m ver); cbn [fst]; [|exact K]. eapply KInv_weaken; [|exact K]. rewrite app_length. lia.
  - destruct x as [c|a].
    + destruct (from_code h (RCode c)) as [[h' r]|k] eqn:E; cbn [fst]; [|exact K].
      cbn [from_code] in E. destruct (init_code c); cbn [bind] in E; [|discriminate]. injection E as <- <-.
      eapply KInv_weaken; [|exact K]. rewrite app_length. lia.
    + destruct (nth_error h a) as [d|]; [destruct (d_cc d)|]; exact K.
  - destruct (from_dataset h x copy) as [[h' r]|k] eqn:E; cbn [fst]; [|exact K].
    destruct (from_dataset_length _ _ _ _ _ E) as [L [Lr Lc]].
    assert (K' : KInv (h', kids)) by (eapply KInv_weaken; eauto).
    destruct copy; [|exact K']. destruct x as [|a]; [exact K'|].
    destruct (kid_of kids a) as [c|]; [|exact K'].
    destruct (nth_error h c) as [dc|]; cbn [fst]; [|exact K'].
    destruct (Lc eq_refl) as [-> Lh]. eapply (KInv_add h); eauto; rewrite ?app_length; cbn [length]; lia.
  - destruct nested as [dc|]; cbn [fst].
    + eapply (KInv_add h); eauto; rewrite ?app_length; cbn [length]; lia.
    + eapply KInv_weaken; [|exact K]. rewrite app_length. lia.
  - destruct (nth_error h a); cbn [fst]; [|exact K]. eapply KInv_weaken; [|exact K]. rewrite length_update. lia.
  - destruct (kid_of kids a) as [c|]; [|exact K].
    destruct (nth_error h c); cbn [fst]; [|exact K]. eapply KInv_weaken; [|exact K]. rewrite length_update. lia.
  - destruct (nth_error h a), (nth_error h b); exact K.
  - destruct (nth_error h a); cbn [fst]; [|exact K]. eapply KInv_weaken; [|exact K]. rewrite length_update. lia.
  - destruct (nth_error h a); cbn [fst]; [|exact K]. eapply KInv_weaken; [|exact K]. rewrite length_update. lia.
  - destruct (nth_error h a); cbn [fst]; [|exact K]. eapply KInv_weaken; [|exact K]. rewrite length_update. lia.
  - destruct (nth_error h a) as [d|]; cbn [fst]; [|exact K].
    destruct (kid_of kids a) as [c|]; [destruct (nth_error h c) as [dc|]|]; cbn [fst].
    + eapply (KInv_add h); eauto; rewrite ?app_length; cbn [length]; lia.
    + eapply KInv_weaken; [|exact K]. rewrite app_length. lia.
    + eapply KInv_weaken; [|exact K]. rewrite app_length. lia.
  - destruct (nth_error h a); exact K.
  - destruct (nth_error h a), (nth_error h b); exact K.
Qed.

Lemma run_ops_kinv : forall srt ops st, KInv st -> KInv (fst (run_ops srt st ops)).
Proof.
  intros srt ops. induction ops as [|o ops IH]; intros st K; cbn [run_ops]; [exact K|].
  pose proof (step_kinv srt st o K) as K1. destruct (step srt st o) as [st' v]. cbn [fst] in K1.
  specialize (IH st' K1). destruct (run_ops srt st' ops) as [st'' vs]. exact IH.
Qed.

Lemma kid_of_In : forall kids a c, kid_of kids a = Some c -> In (a, c) kids.
Proof.
  induction kids as [|[p c'] t IH]; intros a c H; cbn [kid_of] in H; [discriminate|].
  destruct (Nat.eqb p a) eqn:E.
  - apply Nat.eqb_eq in E. injection H as <-. subst. now left.
  - right. now apply IH.
Qed.

Lemma NoDup_map_snd_inj : forall (l : list (nat * nat)) a b c, NoDup (map snd l) -> In (a, c) l -> In (b, c) l -> a = b.
Proof.
  induction l as [|[p q] t IH]; intros a b c N Ha Hb; [contradiction|].
  cbn [map snd] in N. inversion N as [|? ? Hn N']; subst.
  destruct Ha as [Ea|Ha], Hb as [Eb|Hb].
  - congruence.
  - injection Ea as -> ->. exfalso. apply Hn. apply in_map_iff. exists (b, c). auto.
  - injection Eb as -> ->. exfalso. apply Hn. apply in_map_iff. exists (a, c). auto.
  - eapply IH; eauto.
Qed.

Lemma reachable_no_shared_nested : forall srt ops h kids vs a b c,
  run_ops srt ([], []) ops = ((h, kids), vs) ->
  kid_of kids a = Some c -> kid_of kids b = Some c -> a = b.
Proof.
  intros srt ops h kids vs a b c R Ha Hb.
  assert (K0 : KInv ([], [])) by (repeat split; constructor).
  pose proof (run_ops_kinv srt ops _ K0) as K. rewrite R in K. cbn [fst] in K. destruct K as [_ [N _]].
  cbn [snd] in N. eapply NoDup_map_snd_inj; eauto using kid_of_In.
Qed.

(* ---- non-vacuity -------------------------------------------------------------------------------- *)
Definition ex_parent := DS (Some "121") None None (Some "Finding") (Some "DCM") None false.
Definition ex_item := DS (Some "inner") None None (Some "inner meaning") None None false.
Definition ex_ops := [ONewDataset ex_parent (Some ex_item); OFromDataset (Addr 0%nat) true;
                      OSetNestedMeaning 2%nat "changed"; OFromDataset (Addr 0%nat) false; OEq 0%nat 2%nat;
                      OInit "121" "DCM" "another meaning" None; OEq 4%nat 2%nat].

Lemma ext_example :
  (* a dataset converted with copy=True is built, and so is its later edit *)
  built (HD (set_meaning "edited" (set_cc ex_parent))) /\
  (* a history: new dataset with a nested item, deep copy, write through the copy's item, alias conversion,
     comparison of the two concepts, a third concept with another meaning *)
  (exists h kids vs, run_ops (fun _ => None) ([], []) ex_ops = ((h, kids), vs) /\
     length h = 5%nat /\ kid_of kids 0%nat = Some 1%nat /\ kid_of kids 2%nat = Some 3%nat /\
     nth_error h 1%nat = Some ex_item /\ nth_error h 3%nat = Some (set_meaning "changed" ex_item) /\
     nth_error h 0%nat = Some (set_cc ex_parent) /\ nth_error h 2%nat = Some (set_cc ex_parent) /\
     vs = [VZ 0; VZ 2; VZ 3; VZ 0; VB true; VZ 4; VB true]) /\
  (* a concept against a plain dataset with the same elements / another meaning / a non-code *)
  py_eq (fun _ => None) (VObj (HD (set_cc ex_parent))) (VPlain ex_parent) = Ok true /\
  py_eq (fun _ => None) (VPlain (set_meaning "x" ex_parent)) (VObj (HD (set_cc ex_parent))) = Ok false /\
  py_eq (fun _ => None) (VObj (HD (set_cc ex_parent))) VForeign = Ok false.
Proof.
  split.
  - apply (built_set_meaning "edited" (HD (set_cc ex_parent))).
    apply (built_from_dataset [ex_parent] 0%nat true [ex_parent; set_cc ex_parent] 1%nat); reflexivity.
  - split; [|repeat split]. do 3 eexists. split; [vm_compute; reflexivity|]. repeat split.
Qed.
