(* C02 - proofs, part 3: objects with foreign DimensionIndexValues.
   Segments are selected by NUMBER on every entry point: a read does not depend on the index
   values along the ReferencedSegmentNumber dimension at all, and it depends on the index values
   along the plane dimensions only through the (injective) naming of the planes. *)
From Coq Require Import String ZArith List Bool Lia ZifyBool.
From HD Require Import Base.Val C02_Model.
Import ListNotations.
Open Scope Z_scope.

Lemma frame_eta f : mkFrame (fkey f) (fseg f) (fpix f) = f.
Proof. destruct f; reflexivity. Qed.

Lemma with_frames_frames st fr : s_frames (with_frames st fr) = fr.
Proof. reflexivity. Qed.

Lemma with_frames_twice st a b : with_frames (with_frames st a) b = with_frames st b.
Proof. reflexivity. Qed.

Lemma find_map' {A B} (g : A -> B) (p : B -> bool) l :
  find p (map g l) = option_map g (find (fun x => p (g x)) l).
Proof.
  induction l as [|a l IH]; [reflexivity|].
  cbn [map find]. destruct (p (g a)); [reflexivity|exact IH].
Qed.

Lemma find_ext' {A} (p q : A -> bool) l : (forall x, p x = q x) -> find p l = find q l.
Proof.
  intros H. induction l as [|a l IH]; [reflexivity|].
  cbn [find]. rewrite H. destruct (q a); [reflexivity|exact IH].
Qed.

Lemma existsb_map' {A B} (g : A -> B) (p : B -> bool) l :
  existsb p (map g l) = existsb (fun x => p (g x)) l.
Proof.
  induction l as [|a l IH]; [reflexivity|].
  cbn [map existsb]. rewrite IH. reflexivity.
Qed.

Lemma existsb_ext' {A} (p q : A -> bool) l : (forall x, p x = q x) -> existsb p l = existsb q l.
Proof.
  intros H. induction l as [|a l IH]; [reflexivity|].
  cbn [existsb]. rewrite H, IH. reflexivity.
Qed.

Lemma forallb_map' {A B} (g : A -> B) (p : B -> bool) l :
  forallb p (map g l) = forallb (fun x => p (g x)) l.
Proof.
  induction l as [|a l IH]; [reflexivity|].
  cbn [map forallb]. rewrite IH. reflexivity.
Qed.

Lemma forallb_ext' {A} (p q : A -> bool) l : (forall x, p x = q x) -> forallb p l = forallb q l.
Proof.
  intros H. induction l as [|a l IH]; [reflexivity|].
  cbn [forallb]. rewrite H, IH. reflexivity.
Qed.

Lemma map_res_map {A B C} (g : A -> B) (f : B -> res C) l :
  map_res f (map g l) = map_res (fun x => f (g x)) l.
Proof.
  induction l as [|a l IH]; [reflexivity|].
  cbn [map map_res]. rewrite IH. reflexivity.
Qed.

Lemma map_res_ext' {A B} (f g : A -> res B) l : (forall x, f x = g x) -> map_res f l = map_res g l.
Proof.
  intros H. induction l as [|a l IH]; [reflexivity|].
  cbn [map_res]. rewrite H, IH. reflexivity.
Qed.

Lemma zlen_map {A B} (g : A -> B) l : zlen (map g l) = zlen l.
Proof. unfold zlen. rewrite map_length. reflexivity. Qed.

Section Rekey.
  Variable enc : Z -> Z.
  Hypothesis enc_inj : forall a b, enc a = enc b -> a = b.

  Definition rekey (f : frame) : frame := mkFrame (enc (fkey f)) (fseg f) (fpix f).
  Definition rekey_st (st : stored) : stored := with_frames st (map rekey (s_frames st)).

  Lemma enc_eqb a b : (enc a =? enc b) = (a =? b).
  Proof.
    destruct (a =? b) eqn:E.
    - apply Z.eqb_eq in E. subst. apply Z.eqb_refl.
    - apply Z.eqb_neq in E. apply Z.eqb_neq. intro H. apply E. apply enc_inj. exact H.
  Qed.

  Lemma find_last_rekey (p : frame -> bool) (q : frame -> bool) l :
    (forall f, p (rekey f) = q f) ->
    find_last p (map rekey l) = option_map rekey (find_last q l).
  Proof.
    intros H. unfold find_last. rewrite <- map_rev. rewrite find_map'.
    rewrite (find_ext' _ q); [reflexivity|exact H].
  Qed.

  Lemma lm_plane_rekey st d k : lm_plane (rekey_st st) d (enc k) = lm_plane st d k.
  Proof.
    unfold lm_plane, rekey_st. rewrite with_frames_frames.
    rewrite (find_last_rekey _ (fun f => fkey f =? k)).
    - destruct (find_last _ (s_frames st)); reflexivity.
    - intros f. cbn [rekey fkey]. apply enc_eqb.
  Qed.

  Lemma stack_col_rekey st d k s : stack_col (rekey_st st) d (enc k) s = stack_col st d k s.
  Proof.
    unfold stack_col, rekey_st. rewrite with_frames_frames.
    rewrite (find_last_rekey _ (fun f => (fkey f =? k) && (fseg f =? s))).
    - destruct (find_last _ (s_frames st)); reflexivity.
    - intros f. cbn [rekey fkey fseg]. rewrite enc_eqb. reflexivity.
  Qed.

  Lemma join_plane_rekey st k ct :
    join_plane (rekey_st st) (enc k) ct = map (fun fl => (rekey (fst fl), snd fl)) (join_plane st k ct).
  Proof.
    unfold join_plane, rekey_st. rewrite with_frames_frames.
    induction (s_frames st) as [|f l IH]; [reflexivity|].
    cbn [map flat_map]. rewrite map_app, IH. f_equal.
    cbn [rekey fkey fseg]. rewrite enc_eqb.
    destruct (fkey f =? k); [|reflexivity].
    rewrite map_map. reflexivity.
  Qed.

  Lemma combine_loop_rekey frac mf skip d ins : forall out,
    combine_loop frac mf skip d (map (fun fl => (rekey (fst fl), snd fl)) ins) out =
    combine_loop frac mf skip d ins out.
  Proof.
    induction ins as [|[f lab] rest IH]; intros out; [reflexivity|].
    cbn [map combine_loop fst snd rekey fpix].
    destruct (frac && negb (forallb _ (fpix f))); [reflexivity|].
    destruct (negb skip && any2 _ out); [reflexivity|].
    apply IH.
  Qed.

  Lemma labelmap_read_rekey st keys req comb relabel d :
    labelmap_read (rekey_st st) (map enc keys) req comb relabel d = labelmap_read st keys req comb relabel d.
  Proof.
    unfold labelmap_read. cbv zeta.
    rewrite map_map.
    erewrite map_ext by (intros; apply lm_plane_rekey).
    reflexivity.
  Qed.

  Lemma seg_frame_rekey st keys req o :
    seg_frame (rekey_st st) (map enc keys) req o = seg_frame st keys req o.
  Proof.
    unfold seg_frame. cbv zeta.
    rewrite labelmap_read_rekey, map_res_map, map_map.
    erewrite map_res_ext' by (intros; rewrite join_plane_rekey; apply combine_loop_rekey).
    erewrite map_ext by (intros; apply map_ext; intros; apply stack_col_rekey).
    reflexivity.
  Qed.

  Lemma has_frame_rekey st k : has_frame (rekey_st st) (enc k) = has_frame st k.
  Proof.
    unfold has_frame, rekey_st. rewrite with_frames_frames, existsb_map'.
    apply existsb_ext'. intros f. cbn [rekey fkey]. apply enc_eqb.
  Qed.

  Lemma same_slot_rekey lm a b : same_slot lm (rekey a) (rekey b) = same_slot lm a b.
  Proof. unfold same_slot. cbn [rekey fkey fseg]. rewrite enc_eqb. reflexivity. Qed.

  Lemma unique_frames_rekey lm l : unique_frames lm (map rekey l) = unique_frames lm l.
  Proof.
    induction l as [|f l IH]; [reflexivity|].
    cbn [map unique_frames]. rewrite IH, existsb_map'.
    rewrite (existsb_ext' _ (same_slot lm f)); [reflexivity|].
    intros x. apply same_slot_rekey.
  Qed.

  Lemma policy_dimidx_rekey am st keys :
    policy EDimIdx am (rekey_st st) (map enc keys) = policy EDimIdx am st keys.
  Proof.
    unfold policy. destruct am; [reflexivity|].
    rewrite forallb_map'.
    rewrite (forallb_ext' _ (has_frame st)); [reflexivity|].
    intros k. apply has_frame_rekey.
  Qed.

  (* reading by dimension index values: renaming the planes injectively (in the stored frames and in
     the request alike) does not change the answer *)
  Lemma read_dimidx_rekey am st keys req o :
    read EDimIdx am (rekey_st st) (map enc keys) req o = read EDimIdx am st keys req o.
  Proof.
    unfold read. rewrite zlen_map, policy_dimidx_rekey, seg_frame_rekey.
    replace (s_ty (rekey_st st)) with (s_ty st) by reflexivity.
    replace (s_frames (rekey_st st)) with (map rekey (s_frames st)) by reflexivity.
    rewrite unique_frames_rekey. reflexivity.
  Qed.

  Lemma lut_view_dimidx xs :
    (forall x, In x xs -> x_kix x = enc (fkey (x_frame x))) ->
    lut_view EDimIdx xs = map rekey (map x_frame xs).
  Proof.
    intros H. unfold lut_view. rewrite map_map. apply map_ext_in.
    intros x Hx. unfold lut_row, lut_col, rekey. cbn [stack_use_indices channel_use_indices].
    rewrite (H x Hx). reflexivity.
  Qed.

  Lemma lut_view_values e xs : stack_use_indices e = false -> lut_view e xs = map x_frame xs.
  Proof.
    intros H. unfold lut_view. apply map_ext. intros x.
    unfold lut_row, lut_col. rewrite H.
    replace (channel_use_indices e) with false by (destruct e; reflexivity).
    apply frame_eta.
  Qed.

  (* the statement of C02_dimension_index_encoding_irrelevant *)
  Lemma read_ix_by_number e am st xs keys req o :
    (forall x, In x xs -> x_kix x = enc (fkey (x_frame x))) ->
    read_ix e am st xs (if stack_use_indices e then map enc keys else keys) req o =
    read e am (with_frames st (map x_frame xs)) keys req o.
  Proof.
    intros H. unfold read_ix.
    destruct (stack_use_indices e) eqn:E.
    - destruct e; try discriminate E.
      rewrite (lut_view_dimidx xs H).
      change (with_frames st (map rekey (map x_frame xs))) with (rekey_st (with_frames st (map x_frame xs))).
      apply read_dimidx_rekey.
    - rewrite (lut_view_values e xs E). reflexivity.
  Qed.
End Rekey.

(* non-vacuity: segments 1 and 3 stored (2 is described but has no frame), index values ranked over the
   segments that occur (segment 3 has index 2), plane index 2*k+1; asking for segment 3 returns segment 3 *)
Definition ex_ix_st : stored := mkStored BINARY [1; 2; 3] 1 1 2 0 [] [].
Definition ex_ix_frames : list ixframe :=
  [mkIx (mkFrame 1 1 [1; 0]) 3 1; mkIx (mkFrame 1 3 [0; 1]) 3 2; mkIx (mkFrame 2 3 [1; 1]) 5 2].
Lemma ex_ix_reads :
  read_ix EDimIdx false ex_ix_st ex_ix_frames [5; 3] [3; 2] (mkOpts false false false false None)
  = Ok (DU 8, OStack [[[1; 1]; [0; 0]]; [[0; 1]; [0; 0]]]) /\
  read_ix EDimIdx false ex_ix_st ex_ix_frames [3; 5] [1; 3] (mkOpts true false false false None)
  = Ok (DU 8, OComb [[1; 3]; [3; 3]]).
Proof. split; vm_compute; reflexivity. Qed.
