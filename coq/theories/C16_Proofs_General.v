(* C16 - exactness WITHOUT the classifiability guard: for every report of records the template classes accept
   (wf), with or without template identification, ambiguous content included, each query returns exactly the
   groups of its EFFECTIVE kind that satisfy every filter.  The effective kind is the constructed kind when the
   container carries template identification, and what the ROI content says otherwise (a single image region or
   a region in space is planar content; two or more regions, a segment, a volume surface or a region in space is
   volumetric content).  The guarded theorems are the special case `classifiable`. *)
From Coq Require Import String ZArith List Bool Lia Btauto.
From HD Require Import Base.Val C16_Model C16_Proofs C16_Proofs_Tree C16_Proofs_E2E.
Import ListNotations.
Open Scope Z_scope.

Definition planar_content (r : gref) : bool :=
  match r with
  | Region2D _ _ _ | Region3D _ | SegFrame _ _ _ _ | RegionInSpace _ _ => true
  | Regions rs => Z.of_nat (length rs) =? 1
  | _ => false
  end.
Definition vol_content (r : gref) : bool :=
  match r with
  | Regions rs => 1 <? Z.of_nat (length rs)
  | Segment _ _ _ | RegionInSpace _ _ => true
  | Surface _ n _ => 0 <? Z.of_nat n
  | _ => false
  end.
Definition eff_kind (k : kind) (g : group) : bool :=
  if g_has_tid g then kind_eqb (g_kind g) k
  else match k with
       | Planar => planar_content (g_ref g)
       | Volumetric => vol_content (g_ref g)
       | ImageK => negb (planar_content (g_ref g) || vol_content (g_ref g))
       end.

Lemma contains_planar_content g : contains_planar (build g) = Ok (planar_content (g_ref g)).
Proof.
  unfold contains_planar. rewrite count_roi_build. cbn [bind].
  destruct (g_ref g) as [gt c i|gt|c i sc si|rs|c i so|gt n so|c i|l]; cbn [counts_of planar_content]; f_equal; zb.
Qed.
Lemma contains_volumetric_content g : contains_volumetric (build g) = Ok (vol_content (g_ref g)).
Proof.
  unfold contains_volumetric. rewrite count_roi_build. cbn [bind].
  destruct (g_ref g) as [gt c i|gt|c i sc si|rs|c i so|gt n so|c i|l]; cbn [counts_of vol_content]; f_equal; zb.
Qed.

(* an untyped group seen as a group of another constructed kind: same items, same `sat` *)
Definition with_kind_ref (k : kind) (r : gref) (g : group) : group :=
  Group k (g_tuid g) (g_tid g) (g_category g) (g_finding g) (g_method g) (g_sites g) r
        (g_meas g) (g_evals g) (g_geom g) (g_tptype g) (g_session g) (g_has_tid g).
Definition planar_ref (r : gref) : gref :=
  match r with Regions [(gt, (c, i))] => Region2D gt c i | _ => r end.
Definition as_planar (g : group) : group := with_kind_ref Planar (planar_ref (g_ref g)) g.
Definition as_vol (g : group) : group := with_kind_ref Volumetric (g_ref g) g.

Lemma build_with_kind_ref k r g : g_has_tid g = false -> ref_items r = ref_items (g_ref g) ->
  build (with_kind_ref k r g) = build g.
Proof. intros Ht Hr. unfold build, with_kind_ref. cbn. rewrite Ht, Hr. reflexivity. Qed.

Lemma planar_ref_items r : ref_items (planar_ref r) = ref_items r.
Proof. destruct r as [| | |[|[gt [c i]] [|? ?]]| | | |]; reflexivity. Qed.

Lemma sat_with_kind_ref k f g r :
  ref_code r = ref_code (g_ref g) ->
  sat_gt f (with_kind_ref k r g) = sat_gt f g -> sat_uid f (with_kind_ref k r g) = sat_uid f g ->
  sat f (with_kind_ref k r g) = sat f g /\ sat_common f (with_kind_ref k r g) = sat_common f g.
Proof.
  intros H1 H2 H3. unfold sat. rewrite H2, H3. unfold sat_reftype. cbn [g_ref with_kind_ref]. rewrite H1. now split.
Qed.

Lemma sat_as_planar f g : sat f (as_planar g) = sat f g.
Proof.
  apply (sat_with_kind_ref Planar f g (planar_ref (g_ref g))).
  - destruct (g_ref g) as [| | |[|[gt [c i]] [|? ?]]| | | |]; reflexivity.
  - unfold sat_gt. cbn [g_ref with_kind_ref]. destruct (f_gt f); try reflexivity;
      destruct (g_ref g) as [| | |[|[gt [c i]] [|? ?]]| | | |]; reflexivity.
  - unfold sat_uid. cbn [g_ref with_kind_ref]. destruct (uid_given f); [|reflexivity].
    destruct (g_ref g) as [| | |[|[gt [c i]] [|? ?]]| | | |]; try reflexivity.
    cbn [planar_ref existsb snd]. now rewrite orb_false_r.
Qed.
Lemma sat_as_vol f g : sat f (as_vol g) = sat f g.
Proof. reflexivity. Qed.

Lemma wf_as_planar g : wf g = true -> planar_content (g_ref g) = true ->
  wf (as_planar g) = true /\ ref_ok Planar (planar_ref (g_ref g)) = true.
Proof.
  intros Hw Hp. assert (Hr : ref_ok Planar (planar_ref (g_ref g)) = true).
  { destruct (g_ref g) as [| | |[|[gt [c i]] [|? ?]]| | | |]; cbn [planar_content planar_ref ref_ok] in Hp |- *;
      try reflexivity; try discriminate.
    apply Z.eqb_eq in Hp. cbn [length] in Hp. lia. }
  split; [|assumption]. unfold wf in *. cbn [g_kind g_ref g_evals g_meas as_planar with_kind_ref]. rewrite Hr.
  repeat (apply andb_true_iff in Hw as [Hw ?]). unfold no_geom_for_image. cbn [g_kind with_kind_ref].
  repeat (apply andb_true_iff; split); auto.
Qed.
Lemma wf_as_vol g : wf g = true -> vol_content (g_ref g) = true ->
  wf (as_vol g) = true /\ ref_ok Volumetric (g_ref g) = true.
Proof.
  intros Hw Hv. pose proof (wf_ref_ok g Hw) as Hr0.
  assert (Hr : ref_ok Volumetric (g_ref g) = true).
  { destruct (g_kind g), (g_ref g) as [| | |rs| | | |]; cbn in Hv, Hr0 |- *; try reflexivity; try discriminate; try assumption.
    all: destruct rs; [cbn in Hv; discriminate|reflexivity]. }
  split; [|assumption]. unfold wf in *. cbn [g_kind g_ref g_evals g_meas as_vol with_kind_ref]. rewrite Hr.
  repeat (apply andb_true_iff in Hw as [Hw ?]). unfold no_geom_for_image. cbn [g_kind with_kind_ref].
  repeat (apply andb_true_iff; split); auto.
Qed.

(* under wf, content that is neither planar nor volumetric is an image group's *)
Lemma wf_no_roi_content g : wf g = true -> planar_content (g_ref g) = false -> vol_content (g_ref g) = false ->
  g_kind g = ImageK.
Proof.
  intros Hw Hp Hv. pose proof (wf_ref_ok g Hw) as Hr.
  destruct (g_kind g), (g_ref g) as [| | |rs| |gt n so| |]; cbn in Hp, Hv, Hr; try discriminate; try reflexivity; exfalso.
  - destruct rs as [|? [|? ?]]; cbn in *; try discriminate; lia.
  - apply andb_true_iff in Hr as [Hn _]. destruct n; [discriminate|]. lia.
Qed.
Lemma wf_image_no_roi g : wf g = true -> g_kind g = ImageK ->
  planar_content (g_ref g) = false /\ vol_content (g_ref g) = false.
Proof.
  intros Hw Hk. pose proof (wf_ref_ok g Hw) as Hr. rewrite Hk in Hr.
  destruct (g_ref g); cbn in Hr; try discriminate. now split.
Qed.

Lemma sat_common_with f k r g : sat_common f (with_kind_ref k r g) = sat_common f g.
Proof. reflexivity. Qed.

Definition wfp (g : group) : Prop := wf g = true.

Lemma typed_good g : wf g = true -> g_has_tid g = true -> good g.
Proof. intros Hw Ht. split; [assumption|]. unfold classifiable. now rewrite Ht. Qed.

Lemma planar_group_test_gen f g : wf g = true ->
  planar_group_test f (build g) = Ok (eff_kind Planar g && sat f g).
Proof.
  intros Hw. unfold eff_kind. destruct (g_has_tid g) eqn:Ht.
  - now apply planar_group_test_build, typed_good.
  - unfold planar_group_test. rewrite tmpl_build, Ht, contains_planar_content. cbn [bind].
    destruct (planar_content (g_ref g)) eqn:Hp; [|reflexivity]. cbn [andb].
    destruct (wf_as_planar g Hw Hp) as [Hw2 Hr2].
    rewrite <- (build_with_kind_ref Planar (planar_ref (g_ref g)) g Ht (planar_ref_items _)).
    change (with_kind_ref Planar (planar_ref (g_ref g)) g) with (as_planar g).
    rewrite ref_matches_planar_build by (reflexivity || exact Hr2). cbn [bind].
    rewrite common_matches_build by assumption. rewrite <- (sat_as_planar f g). unfold sat. f_equal. btauto.
Qed.

Lemma volumetric_group_test_gen f g : wf g = true ->
  volumetric_group_test f (build g) = Ok (eff_kind Volumetric g && sat f g).
Proof.
  intros Hw. unfold eff_kind. destruct (g_has_tid g) eqn:Ht.
  - now apply volumetric_group_test_build, typed_good.
  - unfold volumetric_group_test. rewrite tmpl_build, Ht, contains_volumetric_content. cbn [bind].
    destruct (vol_content (g_ref g)) eqn:Hv; [|reflexivity]. cbn [andb].
    destruct (wf_as_vol g Hw Hv) as [Hw2 Hr2].
    rewrite <- (build_with_kind_ref Volumetric (g_ref g) g Ht eq_refl).
    change (with_kind_ref Volumetric (g_ref g) g) with (as_vol g).
    rewrite ref_matches_volumetric_build by (reflexivity || exact Hr2). cbn [bind].
    rewrite common_matches_build by assumption. rewrite <- (sat_as_vol f g). unfold sat. f_equal. btauto.
Qed.

Lemma image_group_test_gen f g : wf g = true ->
  image_group_test f (build g) = Ok (eff_kind ImageK g && sat_image f g).
Proof.
  intros Hw. unfold eff_kind. destruct (g_has_tid g) eqn:Ht.
  - now apply image_group_test_build, typed_good.
  - destruct (negb (planar_content (g_ref g) || vol_content (g_ref g))) eqn:E.
    + apply negb_true_iff, orb_false_iff in E as [Hp Hv].
      pose proof (wf_no_roi_content g Hw Hp Hv) as Hk.
      assert (Hg : good g).
      { split; [assumption|]. unfold classifiable, unambiguous. pose proof (wf_ref_ok g Hw) as Hr. rewrite Hk in Hr.
        destruct (g_ref g); cbn in Hr; try discriminate. apply orb_true_r. }
      rewrite (image_group_test_build f g Hg), Hk. reflexivity.
    + unfold image_group_test. rewrite tmpl_build, Ht, contains_planar_content, contains_volumetric_content.
      cbn [bind]. rewrite E. reflexivity.
Qed.

Theorem query_exact_general k pre gs f : no_im pre = true -> Forall wfp gs -> qcheck k f = Ok tt ->
  query k (report pre gs) f = Ok (map build (filter (fun g => eff_kind k g && satk k f g) gs)).
Proof.
  intros Hp Hg Hc. rewrite query_unfold, Hc. cbn [bind]. rewrite find_groups_report by assumption.
  apply (collect_map_build _ _ wfp); [|assumption]. intros g Hw.
  destruct k; cbn [gtest satk];
    [now apply planar_group_test_gen | now apply volumetric_group_test_gen | now apply image_group_test_gen].
Qed.

(* the guarded theorems are the special case: on classifiable records the effective kind is the constructed kind *)
Lemma eff_kind_classifiable k g : wf g = true -> classifiable g = true -> eff_kind k g = kind_eqb (g_kind g) k.
Proof.
  intros Hw Hc. unfold eff_kind, classifiable in *. destruct (g_has_tid g); [reflexivity|]. cbn [orb] in Hc.
  unfold unambiguous in Hc. pose proof (wf_ref_ok g Hw) as Hr.
  destruct (g_kind g), (g_ref g) as [| | |rs| |gt n so| |], k; cbn in Hr, Hc |- *; try discriminate; try reflexivity;
    try (apply andb_true_iff in Hr as [Hn _]; destruct n; [discriminate|]); zb.
Qed.

(* and every wf record is returned by AT LEAST one unfiltered query, by more than one only if it is an untyped
   region in space (both ROI queries) *)
Lemma eff_kind_cover g : wf g = true ->
  eff_kind Planar g || eff_kind Volumetric g || eff_kind ImageK g = true /\
  (eff_kind ImageK g = true -> eff_kind Planar g = false /\ eff_kind Volumetric g = false) /\
  (eff_kind Planar g = true -> eff_kind Volumetric g = true ->
   g_has_tid g = false /\ exists c i, g_ref g = RegionInSpace c i).
Proof.
  intros Hw. unfold eff_kind. destruct (g_has_tid g).
  - destruct (g_kind g); cbn; repeat split; try discriminate.
  - destruct (g_ref g) as [| | |rs| |gt n so|c i|]; cbn; repeat split; try discriminate; eauto;
      try (destruct (Z.of_nat (length rs) =? 1) eqn:E1, (1 <? Z.of_nat (length rs)) eqn:E2; cbn; try reflexivity;
           try discriminate; try lia; intros; try discriminate; exfalso; lia);
      try (destruct (0 <? Z.of_nat n); cbn; try reflexivity; intros; discriminate).
Qed.

Lemma effective_kind g : wf g = true ->
  (classifiable g = true -> forall k, eff_kind k g = kind_eqb (g_kind g) k) /\
  eff_kind Planar g || eff_kind Volumetric g || eff_kind ImageK g = true /\
  (eff_kind ImageK g = true -> eff_kind Planar g = false /\ eff_kind Volumetric g = false) /\
  (eff_kind Planar g = true -> eff_kind Volumetric g = true ->
   g_has_tid g = false /\ exists c i, g_ref g = RegionInSpace c i).
Proof.
  intros Hw. split; [intros Hc k; now apply eff_kind_classifiable|]. now apply eff_kind_cover.
Qed.

(* non-vacuity: untyped groups of ambiguous content (one volumetric region, a region in space) beside an
   unambiguous one; the filtered answers are the ones the general theorem predicts *)
Definition amb_gs : list group :=
  [ Group Volumetric 1 1000 None (Some 110) None [] (Regions [(4, (0, 1))]) [] [] None None None false;
    Group Planar 2 1001 None (Some 110) None [] (RegionInSpace 4 21) [] [] None None None false;
    Group Volumetric 1 1002 None (Some 110) None [] (Regions [(4, (0, 1)); (4, (0, 2))]) [] [] None None None false ].
Lemma general_nonvacuous :
  Forall wfp amb_gs /\
  map (eff_kind Planar) amb_gs = [true; true; false] /\ map (eff_kind Volumetric) amb_gs = [false; true; true] /\
  positions (query Planar (report [] amb_gs) (Filt (Some 1) (Some 110) None None (G2 4) None None)) = VL [VZ 1000] /\
  positions (query Volumetric (report [] amb_gs) (Filt None (Some 110) None None GNone None (Some 4))) = VL [VZ 1001] /\
  positions (query Volumetric (report [] amb_gs) (Filt None (Some 110) None None GNone None None)) = VL [VZ 1001; VZ 1002].
Proof. repeat split; try (repeat constructor); vm_compute; reflexivity. Qed.
