(* C15 - property theorems.  Nothing but statements, `exact <lemma>` and
   Print Assumptions.  Vocabulary (C15_Proofs.v / C15_Proofs_Doc.v):
     descendants node   every item strictly below node, document order
     referenced root u  some IMAGE/COMPOSITE item below root references instance u
     refs_wf root       every IMAGE/COMPOSITE item carries a ReferencedSOPSequence
     first_evd ev u     the first supplied evidence record with instance uid u
     flatten r          (study, series, uid, class) of every instance listed in r
     flatten_series r   (study, series) of every series item in r
     uid4 t             instance uid of such a tuple
     single_root c      the root content item when content is a dataset or a
                        one-item sequence
     reroot it          the root item _SR.from_dataset rebuilds from a parsed dataset
     root_typed it      it has no referenced instance and no optional attribute
                        other than template (key 1), continuity (key 2) and what the coded
                        entry of its concept name carries (key 14)
     attr_get k a       the values of optional attribute k
     is_report it       it declares template identifier 1500
     holds_3d c         the document class can hold 3-D coordinates
     tup e              (study, series, uid, class) of a supplied record
     verif_missing a    is_verified without observer name or without organization (absent or empty)
     given o            the verification detail o is neither absent (None) nor the empty string (0)
     built_doc k a r cu the document the constructor builds from root r and evidence cu
     ko_ref_item r      the IMAGE / COMPOSITE item a key object selection holds for object r *)
From Coq Require Import String ZArith List Bool Permutation.
From HD Require Import Base.Val C15_Model C15_Proofs C15_Proofs_Doc C15_Proofs_Seg C15_Proofs_Ext C15_Proofs_Ko.
Import ListNotations.
Open Scope Z_scope.

(* ---- reference search --------------------------------------------------------- *)
Theorem C15_find_recursive : forall p node,
  search_tree true p node = filter p (descendants node).
Proof. exact search_tree_recursive. Qed.
Print Assumptions C15_find_recursive.

Theorem C15_find_flat : forall p node, search_tree false p node = filter p (i_kids node).
Proof. exact search_tree_flat. Qed.
Print Assumptions C15_find_flat.

Theorem C15_find_content_items : forall q r node,
  find_content_items true q r node =
  Ok (filter (matches q) (if r then descendants node else i_kids node)).
Proof. exact find_ok. Qed.
Print Assumptions C15_find_content_items.

Theorem C15_find_refuses_iff : forall has_cs q r node k,
  find_content_items has_cs q r node = Err k <-> has_cs = false /\ k = "AttributeError"%string.
Proof. exact find_refuses_iff. Qed.
Print Assumptions C15_find_refuses_iff.

(* ---- evidence partition (collect_evidence) ---------------------------------------- *)
(* current-procedure evidence = referenced /\ supplied, under the study/series/class
   it was supplied with *)
Theorem C15_partition_current : forall ev root cur oth,
  collect_evidence true ev root = Ok (cur, oth) ->
  forall st se u c, In (st, se, u, c) (flatten cur) <->
    referenced root u /\ first_evd ev u = Some (Evd u c st se).
Proof. exact partition_current. Qed.
Print Assumptions C15_partition_current.

(* other evidence = supplied \ referenced *)
Theorem C15_partition_other : forall ev root cur oth,
  collect_evidence true ev root = Ok (cur, oth) ->
  forall st se u c, In (st, se, u, c) (flatten oth) <->
    ~ referenced root u /\ first_evd ev u = Some (Evd u c st se).
Proof. exact partition_other. Qed.
Print Assumptions C15_partition_other.

(* each instance exactly once over both sequences together *)
Theorem C15_partition_once : forall ev root cur oth,
  collect_evidence true ev root = Ok (cur, oth) ->
  NoDup (map uid4 (flatten cur ++ flatten oth)).
Proof. exact partition_once. Qed.
Print Assumptions C15_partition_once.

(* grouping: every study once, every (study, series) once, series once under their study *)
Theorem C15_partition_grouping : forall ev root cur oth,
  collect_evidence true ev root = Ok (cur, oth) ->
  NoDup (map fst cur) /\ NoDup (flatten_series cur) /\
  (forall st sers, In (st, sers) cur -> NoDup (map fst sers)) /\
  NoDup (map fst oth) /\ NoDup (flatten_series oth) /\
  (forall st sers, In (st, sers) oth -> NoDup (map fst sers)).
Proof. exact partition_grouping. Qed.
Print Assumptions C15_partition_grouping.

(* ---- refusal ------------------------------------------------------------------------ *)
Theorem C15_refused_iff : forall ev root, refs_wf root ->
  (collect_evidence true ev root = Err "ValueError" <->
   ~ (forall u, referenced root u -> In u (map e_uid ev))).
Proof. exact collect_refused_iff. Qed.
Print Assumptions C15_refused_iff.

Theorem C15_accepted_iff : forall ev root, refs_wf root ->
  ((exists r, collect_evidence true ev root = Ok r) <->
   (forall u, referenced root u -> In u (map e_uid ev))).
Proof. exact collect_accepts_iff. Qed.
Print Assumptions C15_accepted_iff.

Theorem C15_attribute_error_iff : forall has_cs ev root,
  collect_evidence has_cs ev root = Err "AttributeError" <->
  (has_cs = false \/
   exists it, In it (descendants root) /\ (i_vt it = IMAGE \/ i_vt it = COMPOSITE) /\ i_ref it = None).
Proof. exact collect_attribute_error_iff. Qed.
Print Assumptions C15_attribute_error_iff.

(* ---- documents ------------------------------------------------------------------------ *)
(* exact acceptance condition and the document built *)
Theorem C15_document_accepted_iff : forall c a d,
  sr_init c a = Ok d <->
  exists root cu,
    (a_evidence a <> [] /\ a_ts_ok a = true /\
     (a_verified a = true -> given (a_observer a) = true /\ given (a_org a) = true) /\
     single_root (a_content a) = Some root /\ i_rel root = 0 /\ i_vt root = CONTAINER /\
     collect_evidence (a_root_cs a) (a_evidence a) root = Ok cu) /\
    d = built_doc (class_code c) a root cu /\
    (holds_3d c = false -> has_scoord3d root = false).
Proof. exact sr_init_iff. Qed.
Print Assumptions C15_document_accepted_iff.

(* the document's evidence clause, full strength *)
Theorem C15_document_partition : forall c a d, sr_init c a = Ok d ->
  (forall st se u k, In (st, se, u, k) (flatten (d_current d)) <->
     referenced (d_content d) u /\ first_evd (a_evidence a) u = Some (Evd u k st se)) /\
  (forall st se u k, In (st, se, u, k) (flatten (d_other d)) <->
     a_record a = true /\ ~ referenced (d_content d) u /\ first_evd (a_evidence a) u = Some (Evd u k st se)) /\
  NoDup (map uid4 (flatten (d_current d) ++ flatten (d_other d))) /\
  NoDup (map fst (d_current d)) /\ NoDup (flatten_series (d_current d)) /\
  (forall st sers, In (st, sers) (d_current d) -> NoDup (map fst sers)) /\
  NoDup (map fst (d_other d)) /\ NoDup (flatten_series (d_other d)) /\
  (forall st sers, In (st, sers) (d_other d) -> NoDup (map fst sers)).
Proof. exact doc_partition. Qed.
Print Assumptions C15_document_partition.

(* with every other guard satisfied the constructor refuses (with ValueError)
   exactly when a reference lacks supplied evidence *)
Theorem C15_document_refused_iff : forall c a root,
  a_evidence a <> [] -> a_ts_ok a = true ->
  (a_verified a = true -> given (a_observer a) = true /\ given (a_org a) = true) ->
  single_root (a_content a) = Some root -> i_rel root = 0 -> i_vt root = CONTAINER ->
  a_root_cs a = true -> refs_wf root ->
  (holds_3d c = false -> has_scoord3d root = false) ->
  ((exists k, sr_init c a = Err k) <-> ~ (forall u, referenced root u -> In u (map e_uid (a_evidence a)))) /\
  (forall k, sr_init c a = Err k -> k = "ValueError"%string).
Proof. exact sr_refused_iff. Qed.
Print Assumptions C15_document_refused_iff.

Theorem C15_tree_copied : forall c a d,
  sr_init c a = Ok d -> single_root (a_content a) = Some (d_content d).
Proof. exact tree_copied. Qed.
Print Assumptions C15_tree_copied.

(* ---- read-back --------------------------------------------------------------------------- *)
Theorem C15_readback : forall c a d, sr_init c a = Ok d ->
  get_evidence d false = flatten (d_current d) ++ flatten (d_other d) /\
  get_evidence d true = flatten (d_current d).
Proof. exact readback. Qed.
Print Assumptions C15_readback.

Theorem C15_readback_series : forall c a d, sr_init c a = Ok d ->
  get_evidence_series d true = flatten_series (d_current d) /\
  NoDup (get_evidence_series d false) /\
  (forall p, In p (get_evidence_series d false) <->
             In p (flatten_series (d_current d)) \/ In p (flatten_series (d_other d))).
Proof. exact readback_series. Qed.
Print Assumptions C15_readback_series.

(* ---- 3-D coordinates ------------------------------------------------------------------------ *)
Theorem C15_scoord3d_any_depth : forall c a root it,
  holds_3d c = false -> single_root (a_content a) = Some root ->
  In it (descendants root) -> i_vt it = SCOORD3D ->
  (forall d, sr_init c a <> Ok d) /\
  (forall d0, sr_base_init (class_code c) a = Ok d0 -> sr_init c a = Err "ValueError").
Proof. exact scoord3d_any_depth. Qed.
Print Assumptions C15_scoord3d_any_depth.

Theorem C15_scoord3d_allowed_in_3d : forall a, sr_init Comprehensive3D a = sr_base_init 2 a.
Proof. exact scoord3d_allowed. Qed.
Print Assumptions C15_scoord3d_allowed_in_3d.

Theorem C15_no_scoord3d_no_refusal : forall c a root,
  single_root (a_content a) = Some root ->
  (forall it, In it (descendants root) -> i_vt it <> SCOORD3D) ->
  sr_init c a = sr_base_init (class_code c) a.
Proof. exact no_scoord3d_same. Qed.
Print Assumptions C15_no_scoord3d_no_refusal.

(* ---- verification ------------------------------------------------------------------------------ *)
Theorem C15_verified_needs_details : forall c a,
  a_verified a = true -> (given (a_observer a) = false \/ given (a_org a) = false) ->
  sr_init c a = Err "ValueError".
Proof. exact verified_needs_details. Qed.
Print Assumptions C15_verified_needs_details.

(* given o: the detail is neither absent (None) nor the empty string (numbered 0) *)
Theorem C15_detail_given_iff : forall o,
  (given o = true <-> exists n, o = Some n /\ n <> 0) /\
  (given o = false <-> o = None \/ o = Some 0).
Proof. intros o. split; [exact (given_true_iff o)|exact (given_false_iff o)]. Qed.
Print Assumptions C15_detail_given_iff.

Theorem C15_verification_guard_iff : forall a,
  verif_missing a = true <->
  a_verified a = true /\
  (a_observer a = None \/ a_observer a = Some 0 \/ a_org a = None \/ a_org a = Some 0).
Proof. exact verif_missing_iff. Qed.
Print Assumptions C15_verification_guard_iff.

Theorem C15_verified_recorded : forall c a d, sr_init c a = Ok d ->
  d_verified d = a_verified a /\ d_complete d = a_complete a /\ d_final d = a_final a /\
  (a_verified a = true -> exists n o, a_observer a = Some n /\ a_org a = Some o /\ d_observer d = Some (n, o) /\
                                      n <> 0 /\ o <> 0) /\
  (a_verified a = false -> d_observer d = None).
Proof. exact verified_recorded. Qed.
Print Assumptions C15_verified_recorded.

(* ---- parsing (file = document value, premise W1) --------------------------------------------- *)
(* _SR.from_dataset rebuilds the root from value type, name, children, continuity and template;
   every descendant (with all of its optional attributes) is carried over as it is *)
Theorem C15_from_dataset_spec : forall target has_cs d d',
  sr_from_dataset target has_cs d = Ok d' ->
  d' = set_content d (reroot (d_content d)) /\ has_cs = true /\ i_vt (d_content d) = CONTAINER /\
  (target = Comprehensive -> d_cls d = 1) /\ (target = Comprehensive3D -> d_cls d = 2).
Proof. exact from_dataset_spec. Qed.
Print Assumptions C15_from_dataset_spec.

Theorem C15_parsed_root_keeps : forall it,
  i_vt (reroot it) = i_vt it /\ i_tag (reroot it) = i_tag it /\ i_kids (reroot it) = i_kids it /\
  descendants (reroot it) = descendants it /\
  (forall k, root_key k = true -> attr_get k (i_attrs (reroot it)) = attr_get k (i_attrs it)) /\
  is_report (reroot it) = is_report it.
Proof. exact reroot_keeps. Qed.
Print Assumptions C15_parsed_root_keeps.

Theorem C15_parsed_root_equal_iff : forall it, reroot it = it <-> i_rel it = 0 /\ root_typed it.
Proof. exact reroot_iff. Qed.
Print Assumptions C15_parsed_root_equal_iff.

Theorem C15_srread_spec : forall c a d, sr_init c a = Ok d ->
  srread d = Ok (c, set_content d (reroot (d_content d))).
Proof. exact srread_spec. Qed.
Print Assumptions C15_srread_spec.

(* parsing a written document exposes an equal tree (and the same document) EXACTLY when the root
   given carries no optional attribute besides template, continuity and what the coded entry of its
   concept name carries (key 14: the whole ConceptNameCodeSequence is copied) - which is all a
   ContainerContentItem can be constructed with, for every declared template (1500 or not) *)
Theorem C15_srread_roundtrip : forall c a d, sr_init c a = Ok d ->
  (srread d = Ok (c, d) <-> root_typed (d_content d)).
Proof. exact srread_roundtrip. Qed.
Print Assumptions C15_srread_roundtrip.

(* construct, write, parse - in terms of the tree GIVEN: every descendant with all of its optional
   attributes, the root's name, template (any identifier) and continuity are exposed unchanged;
   the whole document is equal when the root is a plain container item *)
Theorem C15_parsed_tree : forall c a d root, sr_init c a = Ok d -> single_root (a_content a) = Some root ->
  exists d', srread d = Ok (c, d') /\
    descendants (d_content d') = descendants root /\
    i_vt (d_content d') = CONTAINER /\ i_tag (d_content d') = i_tag root /\ i_rel (d_content d') = 0 /\
    (forall k, root_key k = true -> attr_get k (i_attrs (d_content d')) = attr_get k (i_attrs root)) /\
    is_report (d_content d') = is_report root /\
    (root_typed root -> d' = d /\ d_content d' = root).
Proof. exact parsed_tree. Qed.
Print Assumptions C15_parsed_tree.

(* FULL clause "parsing a written document exposes an equal tree" (no premise on the root) is
   REFUTED by the faithful model: a root item that carries any other attribute (here key 20,
   ObservationUID, set on the root dataset by the caller) is accepted, written intact, and parsed
   into a tree whose root lacks it.  Replayed on the real code (see claims note). *)
Definition ex_foreign_root : item :=
  Item CONTAINER 1 0 None [(1, [2000]); (20, [7])] [Item TEXT 2 1 None [] []].
Theorem C15_parse_equal_tree_refuted :
  exists c a d d', sr_init c a = Ok d /\ single_root (a_content a) = Some (d_content d) /\
                   srread d = Ok (c, d') /\ d_content d' <> d_content d.
Proof.
  exists Comprehensive, (Args [Evd 1 0 1 11] (CDataset ex_foreign_root) true true false false false None None None true no_extras).
  eexists. eexists. split; [vm_compute; reflexivity|]. split; [reflexivity|].
  split; [vm_compute; reflexivity|]. cbn. discriminate.
Qed.
Print Assumptions C15_parse_equal_tree_refuted.

(* ---- key object selection documents ------------------------------------------------------------ *)
Theorem C15_key_object_document : forall ev ts root d, ko_init ev ts root = Ok d ->
  ev <> [] /\ ts = true /\ d_content d = root /\ d_other d = [] /\ d_cls d = ko_code /\
  exists oth st sers, collect_evidence true ev root = Ok (d_current d, oth) /\ d_current d = [(st, sers)].
Proof. exact ko_init_inv. Qed.
Print Assumptions C15_key_object_document.

Theorem C15_key_object_resolve : forall ev ts root d, ko_init ev ts root = Ok d ->
  forall u, (referenced root u ->
             exists c st se, first_evd ev u = Some (Evd u c st se) /\ resolve_reference d u = Ok (st, se, u)) /\
            (~ referenced root u -> resolve_reference d u = Err "ValueError").
Proof. exact ko_resolve. Qed.
Print Assumptions C15_key_object_resolve.

(* ---- references derived from a segmentation ----------------------------------------------------
   names_frame g f fi   1 <= f <= NumberOfFrames and frame f is the record fi
   rs_infos g sn fns l  l = the frames the reference is about: the named ones (each valid and of
                        segment sn) or, when none is named, all frames of segment sn (at least one)
   first_source fis o   o = the source image of the first frame in fis whose derivation names one *)
Theorem C15_segment_frames_check : forall g sn fs infos,
  rs_check_frames g sn fs = Ok infos <->
  Forall2 (fun f fi => names_frame g f fi /\ f_segment fi = sn) fs infos.
Proof. exact rs_check_frames_iff. Qed.
Print Assumptions C15_segment_frames_check.

(* by segment: frames belong to the segment; sources = de-duplicated derivation
   references of exactly those frames, else the header fallback *)
Theorem C15_segment_reference : forall g sn fns r, rs_from_segmentation g sn fns = Ok r ->
  g_is_seg g = true /\ r_seg r = g_uid g /\ r_segment r = sn /\ r_frames r = fns /\
  exists infos, rs_infos g sn fns infos /\
    let D := flat_map frame_sources infos in
    (dedup_src [] D <> [] -> r_sources r = dedup_src [] D /\ r_series r = None) /\
    (dedup_src [] D = [] ->
       exists rs, g_refseries g = Some rs /\
         ((exists l, rs_instances rs = Some l /\ l <> [] /\ r_series r = None /\
                     r_sources r = map (fun uc => Src (fst uc) (snd uc) None) l) \/
          (rs_instances rs = None /\ r_sources r = [] /\ r_series r = rs_series rs /\ r_series r <> None))).
Proof. exact rs_spec. Qed.
Print Assumptions C15_segment_reference.

(* what de-duplication keeps: each instance once, as first referenced, none lost *)
Theorem C15_segment_reference_sources : forall l,
  NoDup (map s_uid (dedup_src [] l)) /\
  (forall s, In s (dedup_src [] l) -> find (fun x => s_uid x =? s_uid s) l = Some s) /\
  (forall s, In s l -> In (s_uid s) (map s_uid (dedup_src [] l))).
Proof. exact dedup_src_facts. Qed.
Print Assumptions C15_segment_reference_sources.

Theorem C15_segment_reference_refuses_bad_frames : forall g sn fs f,
  In f fs -> (f < 1 \/ g_nframes g < f \/ exists fi, frame_at g f = Some fi /\ f_segment fi <> sn) ->
  forall r, rs_from_segmentation g sn (Some fs) <> Ok r.
Proof. exact rs_bad_frame_refused. Qed.
Print Assumptions C15_segment_reference_refuses_bad_frames.

Theorem C15_segment_frames_refusal_kind : forall g sn fs k,
  g_nframes g = Z.of_nat (length (g_frames g)) ->
  rs_check_frames g sn fs = Err k -> k = "ValueError"%string.
Proof. exact rs_frames_refusal_kind. Qed.
Print Assumptions C15_segment_frames_refusal_kind.

(* by frame numbers (or all frames of a segment): every named frame is valid and of
   the one named segment, which is the requested one if a segment was requested;
   the source image is the derivation reference of the first named frame that has
   one (source frames = that reference's own frames), else the single referenced
   instance of the header *)
Theorem C15_frame_reference : forall g fa sn r, rsf_from_segmentation g fa sn = Ok r ->
  g_is_seg g = true /\ q_seg r = g_uid g /\ requested_frames g fa sn (q_frames r) /\ q_frames r <> [] /\
  (forall m, sn = Some m -> q_segment r = m) /\
  exists fis, Forall2 (names_frame g) (q_frames r) fis /\
    Forall (fun fi => f_segment fi = q_segment r) fis /\
    (first_source fis (Some (q_src r)) \/
     (first_source fis None /\ exists rs uc, g_refseries g = Some rs /\ rs_instances rs = Some [uc] /\
                                            q_src r = Src (fst uc) (snd uc) None)).
Proof. exact rsf_spec. Qed.
Print Assumptions C15_frame_reference.

Theorem C15_frame_reference_refuses_invalid : forall g fa sn fns f,
  requested_frames g fa sn fns -> (fa = FNone -> False) ->
  In f fns -> (f < 1 \/ g_nframes g < f) ->
  forall r, rsf_from_segmentation g fa sn <> Ok r.
Proof. exact rsf_invalid_frame_refused. Qed.
Print Assumptions C15_frame_reference_refuses_invalid.

Theorem C15_frame_reference_one_segment : forall g fa sn r f1 f2 fi1 fi2,
  rsf_from_segmentation g fa sn = Ok r ->
  In f1 (q_frames r) -> In f2 (q_frames r) ->
  frame_at g f1 = Some fi1 -> frame_at g f2 = Some fi2 -> f_segment fi1 = f_segment fi2.
Proof. exact rsf_mixed_segments_refused. Qed.
Print Assumptions C15_frame_reference_one_segment.

Theorem C15_frames_of_segment : forall sn l i f,
  In f (frames_of_segment sn i l) <->
  i <= f /\ exists fi, nth_error l (Z.to_nat (f - i)) = Some fi /\ f_segment fi = sn.
Proof. exact frames_of_segment_spec. Qed.
Print Assumptions C15_frames_of_segment.

(* ---- non-vacuity ------------------------------------------------------------------------------- *)
(* depth-3 tree, repeated reference to instance 1, a COMPOSITE reference below an
   IMAGE item, evidence over two studies with a duplicate and an unreferenced
   instance; the same tree with a SCOORD3D item at depth 3 is refused by
   EnhancedSR and accepted by Comprehensive3DSR *)
Definition ex_tree (deep : vt) : item :=
  Item CONTAINER 1 0 None [(1, [2000]); (2, [])]
    [Item IMAGE 2 1 (Some (1, 0)) [(5, [2; 3])] [];
     Item CONTAINER 3 1 None [(1, [1600])]
       [Item NUM 4 1 None [(3, [114006])] [Item deep 5 3 None [] []];
        Item IMAGE 2 4 (Some (1, 0)) [] [Item COMPOSITE 6 4 (Some (2, 2)) [] []]]].
Definition ex_ev : list evd := [Evd 3 0 1 11; Evd 1 0 1 11; Evd 2 2 2 21; Evd 1 0 1 11].
Definition ex_args (deep : vt) : sr_args :=
  Args ex_ev (CDataset (ex_tree deep)) true true true false true (Some 7) (Some 8) None true
       (Extras (Some 3) None (Some [5]) (Some [])).

Example C15_example :
  (exists d, sr_init Comprehensive (ex_args TEXT) = Ok d /\
     d_content d = ex_tree TEXT /\
     d_current d = [(1, [(11, [(1, 0)])]); (2, [(21, [(2, 2)])])] /\
     d_other d = [(1, [(11, [(3, 0)])])] /\
     get_evidence d false = [(1, 11, 1, 0); (2, 21, 2, 2); (1, 11, 3, 0)] /\
     d_observer d = Some (7, 8) /\ root_typed (d_content d) /\ srread d = Ok (Comprehensive, d)) /\
  referenced (ex_tree TEXT) 2 /\
  sr_init Enhanced (ex_args SCOORD3D) = Err "ValueError" /\
  (exists d, sr_init Comprehensive3D (ex_args SCOORD3D) = Ok d) /\
  collect_evidence true [Evd 1 0 1 11] (ex_tree TEXT) = Err "ValueError".
Proof.
  split; [eexists; split; [vm_compute; reflexivity|repeat split; try reflexivity;
          cbn; intros kv [<-|[<-|[]]]; reflexivity]|].
  split; [exists (Item COMPOSITE 6 4 (Some (2, 2)) [] []), 2; vm_compute; intuition|].
  split; [vm_compute; reflexivity|]. split; [eexists; vm_compute; reflexivity|vm_compute; reflexivity].
Qed.
Print Assumptions C15_example.

(* segmentation with frame segments [1;1;2]: frame 1 derived from source frame 3 of
   instance 7, frame 2 from source frame 2 of the same instance *)
Definition ex_seg : seg :=
  Seg true 500 3 true
    [SFrame 1 (Some [Some [Src 7 0 (Some [3])]]); SFrame 1 (Some [Some [Src 7 0 (Some [2])]]);
     SFrame 2 (Some [Some [Src 8 0 None]])] None.

Example C15_example_seg :
  rsf_from_segmentation ex_seg (FInt 1) None = Ok (RSF 500 [1] 1 (Src 7 0 (Some [3]))) /\
  rsf_from_segmentation ex_seg (FList [2; 1]) (Some 1) = Ok (RSF 500 [2; 1] 1 (Src 7 0 (Some [2]))) /\
  rsf_from_segmentation ex_seg (FList [1; 3]) None = Err "ValueError" /\
  rsf_from_segmentation ex_seg (FList [1; 9]) None = Err "ValueError" /\
  rsf_from_segmentation ex_seg (FInt 1) (Some 2) = Err "ValueError" /\
  rs_from_segmentation ex_seg 2 None = Ok (RS 500 2 None [Src 8 0 None] None) /\
  rs_from_segmentation ex_seg 1 (Some [1; 3]) = Err "ValueError".
Proof. repeat split; vm_compute; reflexivity. Qed.
Print Assumptions C15_example_seg.

(* ==== extension: predecessors, total refusal verdicts, end to end, KO parsing ==================== *)
(* previous versions: every one listed, WITH multiplicity (no de-duplication), under the study /
   series / class it was given with; studies once, series once (under their study) *)
Theorem C15_predecessors : forall pv,
  Permutation (flatten (collect_predecessors pv)) (map tup pv) /\
  NoDup (map fst (collect_predecessors pv)) /\
  NoDup (flatten_series (collect_predecessors pv)) /\
  (forall st sers, In (st, sers) (collect_predecessors pv) -> NoDup (map fst sers)).
Proof. exact predecessors_spec. Qed.
Print Assumptions C15_predecessors.

Theorem C15_document_predecessors : forall c a d, sr_init c a = Ok d ->
  d_pred d = match a_previous a with None => None | Some pv => Some (collect_predecessors pv) end.
Proof. exact doc_predecessors. Qed.
Print Assumptions C15_document_predecessors.

(* collect_evidence: TOTAL verdict, no premise on the tree - which error class, and exactly when *)
Theorem C15_collect_refusal_total : forall has_cs ev root k,
  collect_evidence has_cs ev root = Err k <->
  (k = "AttributeError"%string /\
   (has_cs = false \/
    exists it, In it (descendants root) /\ (i_vt it = IMAGE \/ i_vt it = COMPOSITE) /\ i_ref it = None)) \/
  (k = "ValueError"%string /\ has_cs = true /\ refs_wf root /\
   ~ (forall u, referenced root u -> In u (map e_uid ev))).
Proof. exact collect_err_iff. Qed.
Print Assumptions C15_collect_refusal_total.

(* the three SR constructors: TOTAL refusal verdict in guard order (an earlier guard decides the
   error class): no evidence; transfer syntax; verification details; content sequence without
   exactly one item; root with a relationship type; root not a container; evidence collection
   (see C15_collect_refusal_total); 3-D coordinates at any depth in a class that cannot hold them *)
Theorem C15_document_refusal_total : forall c a k,
  sr_init c a = Err k <->
  ((a_evidence a = [] /\ k = "ValueError"%string) \/
   (a_evidence a <> [] /\
    ((a_ts_ok a = false /\ k = "ValueError"%string) \/
     (a_ts_ok a = true /\
      ((verif_missing a = true /\ k = "ValueError"%string) \/
       (verif_missing a = false /\
        ((single_root (a_content a) = None /\ k = "ValueError"%string) \/
         exists root, single_root (a_content a) = Some root /\
           ((i_rel root <> 0 /\ k = "AttributeError"%string) \/
            (i_rel root = 0 /\
             ((i_vt root <> CONTAINER /\ k = "TypeError"%string) \/
              (i_vt root = CONTAINER /\
               collect_evidence (a_root_cs a) (a_evidence a) root = Err k))))))))))) \/
  (exists root cu,
     (a_evidence a <> [] /\ a_ts_ok a = true /\
      (a_verified a = true -> given (a_observer a) = true /\ given (a_org a) = true) /\
      single_root (a_content a) = Some root /\ i_rel root = 0 /\ i_vt root = CONTAINER /\
      collect_evidence (a_root_cs a) (a_evidence a) root = Ok cu) /\
     holds_3d c = false /\
     (exists it, In it (descendants root) /\ i_vt it = SCOORD3D) /\ k = "ValueError"%string).
Proof. exact sr_refusal_total. Qed.
Print Assumptions C15_document_refusal_total.

Theorem C15_document_refusal_classes : forall c a k, sr_init c a = Err k ->
  k = "ValueError"%string \/ k = "AttributeError"%string \/ k = "TypeError"%string.
Proof. exact sr_refusal_classes. Qed.
Print Assumptions C15_document_refusal_classes.

(* END TO END, the property sentence: an accepted document contains the tree given; written and
   parsed it has the same class and exposes every descendant (all optional attributes) and the
   root's name and type - the whole document when the root is a plain container; the evidence the
   PARSED document reports is, in terms of the arguments: current = referenced and supplied, all =
   current + (iff record_evidence) the other supplied instances, each instance once, each under the
   study / series / class of its first supplied record; nothing referenced lacks evidence; no 3-D
   coordinates at any depth unless the class holds them; verification details recorded *)
Theorem C15_sr_document : forall c a d, sr_init c a = Ok d ->
  exists root d',
    single_root (a_content a) = Some root /\ d_content d = root /\
    srread d = Ok (c, d') /\
    descendants (d_content d') = descendants root /\
    i_tag (d_content d') = i_tag root /\ i_vt (d_content d') = i_vt root /\
    (root_typed root -> d' = d) /\
    (forall st se u k, In (st, se, u, k) (get_evidence d' true) <->
       referenced root u /\ first_evd (a_evidence a) u = Some (Evd u k st se)) /\
    (forall st se u k, In (st, se, u, k) (get_evidence d' false) <->
       (referenced root u \/ a_record a = true) /\ first_evd (a_evidence a) u = Some (Evd u k st se)) /\
    NoDup (map uid4 (get_evidence d' false)) /\
    (forall u, referenced root u -> In u (map e_uid (a_evidence a))) /\
    (holds_3d c = false -> forall it, In it (descendants root) -> i_vt it <> SCOORD3D) /\
    (a_verified a = true ->
       exists n o, a_observer a = Some n /\ a_org a = Some o /\ d_observer d' = Some (n, o)).
Proof. exact sr_document_end_to_end. Qed.
Print Assumptions C15_sr_document.

(* non-vacuity: sequence content, template 1500 root, depth-3 tree, repeated reference, evidence
   over two studies with a duplicate and an unreferenced instance, verified, a previous version
   given twice *)
Example C15_sr_document_example :
  exists d, sr_init Enhanced e2e_args = Ok d /\ srread d = Ok (Enhanced, d) /\
    is_report (d_content d) = true /\
    get_evidence d true = [(1, 11, 1, 0); (2, 21, 2, 2)] /\
    get_evidence d false = [(1, 11, 1, 0); (2, 21, 2, 2); (1, 11, 3, 0)] /\
    d_pred d = Some [(1, [(5, [(20, 2); (20, 2)])])] /\ d_observer d = Some (7, 8) /\
    d_extras d = Recorded (Some 3) (Some 4) (Some [5; 6]) None.
Proof. exact e2e_example. Qed.
Print Assumptions C15_sr_document_example.

(* ---- key object documents parsed back (KeyObjectSelectionDocument.from_dataset) ------------------- *)
Theorem C15_key_object_parse : forall has_cs d d',
  ko_from_dataset has_cs d = Ok d' <->
  d_cls d = ko_code /\ has_cs = true /\ i_vt (d_content d) = CONTAINER /\
  (exists tl, attr_get k_template (i_attrs (d_content d)) = Some (2010 :: tl)) /\
  d_current d <> [] /\ d' = set_content d (reroot (d_content d)).
Proof. exact ko_from_dataset_iff. Qed.
Print Assumptions C15_key_object_parse.

(* build from a KeyObjectSelection, write, parse: the document that was written (content tree,
   evidence, hence every resolve_reference answer) *)
Theorem C15_key_object_roundtrip : forall ev ts title tx descr refs root d,
  ko_content title tx descr refs = Ok root -> ko_init ev ts root = Ok d ->
  ko_from_dataset true d = Ok d.
Proof. exact ko_roundtrip. Qed.
Print Assumptions C15_key_object_roundtrip.

(* get_references lists the selected objects exactly as given (order and repeats kept, the
   description item never), filtered by value type / referenced SOP class; other value types refused *)
Theorem C15_key_object_references : forall title tx descr refs root,
  ko_content title tx descr refs = Ok root ->
  ko_get_references None None root = Ok (map ko_ref_item refs) /\
  (forall cf, ko_get_references None cf root = Ok (filter (cls_ok cf) (map ko_ref_item refs))) /\
  (forall t cf, ref_vt t = true ->
     ko_get_references (Some t) cf root =
     Ok (filter (fun it => vt_eqb (i_vt it) t && cls_ok cf it) (map ko_ref_item refs))) /\
  (forall t cf, ref_vt t = false -> ko_get_references (Some t) cf root = Err "ValueError").
Proof. exact ko_references_listed. Qed.
Print Assumptions C15_key_object_references.

Example C15_key_object_example :
  exists root d, ko_content 113000 [4; 5; 17010] (Some 2) [(1, 0, true); (2, 1, false); (1, 0, true)] = Ok root /\
    ko_init ko_ex_ev true root = Ok d /\ ko_from_dataset true d = Ok d /\
    d_current d = [(1, [(11, [(1, 0)]); (12, [(2, 1)])])] /\
    resolve_reference d 2 = Ok (1, 12, 2) /\ resolve_reference d 3 = Err "ValueError" /\
    ko_get_references (Some IMAGE) None root = Ok [ko_ref_item (1, 0, true); ko_ref_item (1, 0, true)] /\
    ko_get_references None (Some 1) root = Ok [ko_ref_item (2, 1, false)] /\
    ko_from_dataset true (snd (ko_tamper 2 d)) = Err "ValueError" /\
    ko_from_dataset true (snd (ko_tamper 3 d)) = Err "AttributeError".
Proof. exact ko_example. Qed.
Print Assumptions C15_key_object_example.

(* get_evidence_series(all): the exact list - every series of the current evidence, then the series
   of the other evidence that are not listed already (replaces membership + NoDup of C15_readback_series) *)
Theorem C15_readback_series_exact : forall c a d, sr_init c a = Ok d ->
  get_evidence_series d false =
  flatten_series (d_current d) ++
  filter (fun p => negb (existsb (pair_eqb p) (flatten_series (d_current d)))) (flatten_series (d_other d)).
Proof. exact readback_series_exact. Qed.
Print Assumptions C15_readback_series_exact.

(* key object documents: exact acceptance condition and the document built *)
Theorem C15_key_object_accepted_iff : forall ev ts root d,
  ko_init ev ts root = Ok d <->
  ev <> [] /\ ts = true /\
  exists st sers oth, collect_evidence true ev root = Ok ([(st, sers)], oth) /\
    d = Doc ko_code root [(st, sers)] [] None false false false None no_recorded.
Proof. exact ko_init_iff. Qed.
Print Assumptions C15_key_object_accepted_iff.

(* ... all referenced instances were supplied under ONE study; two under different studies => refused *)
Theorem C15_key_object_single_study : forall ev ts root d, ko_init ev ts root = Ok d ->
  exists st, forall u, referenced root u ->
    exists e, first_evd ev u = Some e /\ e_study e = st.
Proof. exact ko_single_study. Qed.
Print Assumptions C15_key_object_single_study.

Theorem C15_key_object_two_studies_refused : forall ev ts root u1 u2 e1 e2,
  referenced root u1 -> referenced root u2 ->
  first_evd ev u1 = Some e1 -> first_evd ev u2 = Some e2 -> e_study e1 <> e_study e2 ->
  forall d, ko_init ev ts root <> Ok d.
Proof. exact ko_two_studies_refused. Qed.
Print Assumptions C15_key_object_two_studies_refused.

(* parsing carries over everything but the rebuilt root item: evidence sequences, predecessors,
   flags, verifying observer - hence all four evidence read-backs of the parsed document *)
Theorem C15_parsed_keeps_evidence : forall c a d d', sr_init c a = Ok d -> srread d = Ok (c, d') ->
  d_cls d' = d_cls d /\ d_current d' = d_current d /\ d_other d' = d_other d /\ d_pred d' = d_pred d /\
  d_complete d' = d_complete d /\ d_verified d' = d_verified d /\ d_final d' = d_final d /\
  d_observer d' = d_observer d /\ d_extras d' = d_extras d /\
  (forall b, get_evidence d' b = get_evidence d b) /\
  (forall b, get_evidence_series d' b = get_evidence_series d b).
Proof. exact parsed_keeps_evidence. Qed.
Print Assumptions C15_parsed_keeps_evidence.

(* ==== arguments that are only recorded (institution name, department name, performed procedure
   codes, requested procedures) ======================================================================
     set_extras a x     the arguments a with those four replaced by x
     set_recorded d w   the document d with the four recorded attributes replaced by w
     record_extras x    what a document carries of x (department only together with an institution;
                        the code sequence always present)
     map_ok f r         f applied to an accepted result, a refusal unchanged
   FRAME: for every class and every argument list, replacing them changes NOTHING but the four
   recorded attributes - not the verdict, not the error class, not the content, evidence, flags or
   verifying observer.  (A subclass constructor that derives one guarded argument from an unguarded
   one - e.g. the verifying organization from the institution name - falsifies this equation.) *)
Theorem C15_unrelated_arguments_frame : forall c a x,
  sr_init c (set_extras a x) = map_ok (fun d => set_recorded d (record_extras x)) (sr_init c a).
Proof. exact extras_frame. Qed.
Print Assumptions C15_unrelated_arguments_frame.

Theorem C15_unrelated_arguments_verdict : forall c a x k,
  sr_init c (set_extras a x) = Err k <-> sr_init c a = Err k.
Proof. exact extras_verdict. Qed.
Print Assumptions C15_unrelated_arguments_verdict.

Theorem C15_unrelated_arguments_recorded : forall c a d, sr_init c a = Ok d ->
  d_extras d = record_extras (a_extras a) /\
  w_institution (d_extras d) = x_institution (a_extras a) /\
  w_department (d_extras d) =
    (match x_institution (a_extras a) with Some _ => x_department (a_extras a) | None => None end) /\
  w_codes (d_extras d) = Some (match x_codes (a_extras a) with Some l => l | None => [] end) /\
  w_requests (d_extras d) = x_requests (a_extras a).
Proof. exact extras_recorded. Qed.
Print Assumptions C15_unrelated_arguments_recorded.

(* "verification details are demanded when a document is marked verified" - for every class and
   WHATEVER the other optional arguments are: an observer name or organization that is absent
   (None) OR EMPTY (the empty string, numbered 0) is refused,
   and an accepted verified document records exactly the two details given *)
Theorem C15_verification_whatever_else : forall c a x,
  (a_verified a = true ->
     (a_observer a = None \/ a_observer a = Some 0 \/ a_org a = None \/ a_org a = Some 0) ->
     sr_init c (set_extras a x) = Err "ValueError") /\
  (forall d, sr_init c (set_extras a x) = Ok d ->
     d_verified d = a_verified a /\
     (a_verified a = true ->
        exists n o, a_observer a = Some n /\ a_org a = Some o /\ d_observer d = Some (n, o) /\
                    n <> 0 /\ o <> 0) /\
     (a_verified a = false -> d_observer d = None)).
Proof. exact verification_whatever_else. Qed.
Print Assumptions C15_verification_whatever_else.

(* non-vacuity: verified, observer 7, NO organization, institution 3 (and department / requested
   procedures): refused by all three classes; with organization 8: accepted, observer (7, 8),
   institution recorded as institution *)
Example C15_verification_example :
  sr_init Comprehensive3D (ver_args None (Extras (Some 3) (Some 4) None None)) = Err "ValueError" /\
  sr_init Comprehensive (ver_args None (Extras (Some 3) None None None)) = Err "ValueError" /\
  sr_init Enhanced (ver_args None (Extras (Some 3) None None (Some [9]))) = Err "ValueError" /\
  sr_init Comprehensive3D (ver_args (Some 0) (Extras (Some 3) None None None)) = Err "ValueError" /\
  sr_init Enhanced (ver_args (Some 0) no_extras) = Err "ValueError" /\
  exists d, sr_init Comprehensive3D (ver_args (Some 8) (Extras (Some 3) (Some 4) None (Some [9]))) = Ok d /\
    d_observer d = Some (7, 8) /\ d_extras d = Recorded (Some 3) (Some 4) (Some []) (Some [9]).
Proof. exact verification_example. Qed.
Print Assumptions C15_verification_example.

(* ==== coded entries (session 6) ========================================================================
   What a coded entry carries beyond code value / scheme designator / meaning (long or URN form of the
   value, scheme version, context group identification and extension, mapping resource, equivalent codes)
   is an optional attribute of the item: 14 concept name, 15 value of a CODE item, 16 unit and 17
   qualifier of a NUM item.
     entry_view k it    (concept name of it, what it carries under key k)
   For every accepted document: the content IS the root given (coded entries of every item included);
   the parsed document exposes the root's name with its coded-entry attributes, every descendant as it
   is - hence, for every key, the same list of (name, attribute) in document order - and it EQUALS the
   written document when the root carries nothing but template, continuity and its name entry. *)
Theorem C15_coded_entries_kept : forall c a d root, sr_init c a = Ok d -> single_root (a_content a) = Some root ->
  d_content d = root /\
  exists d', srread d = Ok (c, d') /\
    entry_view k_name_entry (d_content d') = entry_view k_name_entry root /\
    descendants (d_content d') = descendants root /\
    (forall k, map (entry_view k) (descendants (d_content d')) = map (entry_view k) (descendants root)) /\
    ((forall kv, In kv (i_attrs root) -> root_key (fst kv) = true) -> i_ref root = None ->
     d' = d /\ d_content d' = root).
Proof. exact coded_entries_kept. Qed.
Print Assumptions C15_coded_entries_kept.

Theorem C15_coded_entries_from_dataset : forall target has_cs d d', sr_from_dataset target has_cs d = Ok d' ->
  entry_view k_name_entry (d_content d') = entry_view k_name_entry (d_content d) /\
  descendants (d_content d') = descendants (d_content d).
Proof. exact coded_entries_from_dataset. Qed.
Print Assumptions C15_coded_entries_from_dataset.

(* key object documents: the coded entry given as document title, whatever it carries (tx), is in the
   document, and the parsed document is the document written *)
Theorem C15_key_object_title_entry : forall ev ts title tx descr refs root d,
  ko_content title tx descr refs = Ok root -> ko_init ev ts root = Ok d ->
  i_tag (d_content d) = title /\
  attr_get k_name_entry (i_attrs (d_content d)) = (match tx with [] => None | _ => Some tx end) /\
  ko_from_dataset true d = Ok d.
Proof. exact ko_title_entry. Qed.
Print Assumptions C15_key_object_title_entry.

Example C15_coded_entries_example :
  exists d, sr_init Comprehensive
              (Args [Evd 1 0 1 11] (CDataset entry_tree) true true false false false None None None true no_extras) = Ok d /\
    d_content d = entry_tree /\ srread d = Ok (Comprehensive, d) /\
    map (entry_view k_qualifier_entry) (descendants (d_content d)) =
      [(2, None); (3, None); (4, Some [41; 50007]); (5, None)] /\
    entry_view k_name_entry (d_content d) = (1, Some [4; 5; 17021; 27021]).
Proof. exact entry_example. Qed.
Print Assumptions C15_coded_entries_example.

(* SESSION 7.  The end-to-end statement with the remaining read-backs of the PARSED document as conjuncts
   (was: separate theorem C15_parsed_keeps_evidence): series read-back (every reported instance's series is
   reported, no series twice, the exact lists), previous versions with multiplicity, flags, recorded arguments *)
Theorem C15_sr_document_full : forall c a d, sr_init c a = Ok d ->
  exists root d',
    single_root (a_content a) = Some root /\ d_content d = root /\
    srread d = Ok (c, d') /\
    descendants (d_content d') = descendants root /\
    i_tag (d_content d') = i_tag root /\ i_vt (d_content d') = i_vt root /\
    (root_typed root -> d' = d) /\
    (forall st se u k, In (st, se, u, k) (get_evidence d' true) <->
       referenced root u /\ first_evd (a_evidence a) u = Some (Evd u k st se)) /\
    (forall st se u k, In (st, se, u, k) (get_evidence d' false) <->
       (referenced root u \/ a_record a = true) /\ first_evd (a_evidence a) u = Some (Evd u k st se)) /\
    NoDup (map uid4 (get_evidence d' false)) /\
    (forall u, referenced root u -> In u (map e_uid (a_evidence a))) /\
    (holds_3d c = false -> forall it, In it (descendants root) -> i_vt it <> SCOORD3D) /\
    (a_verified a = true ->
       exists n o, a_observer a = Some n /\ a_org a = Some o /\ d_observer d' = Some (n, o)) /\
    (* NEW: series read-back of the parsed document *)
    (forall b st se u k, In (st, se, u, k) (get_evidence d' b) -> In (st, se) (get_evidence_series d' b)) /\
    (forall b st se, In (st, se) (get_evidence_series d' b) -> exists u k, In (st, se, u, k) (get_evidence d' b)) /\
    (forall b, NoDup (get_evidence_series d' b)) /\
    get_evidence_series d' true = flatten_series (d_current d) /\
    get_evidence_series d' false =
      flatten_series (d_current d) ++
      filter (fun p => negb (existsb (pair_eqb p) (flatten_series (d_current d)))) (flatten_series (d_other d)) /\
    (* NEW: previous versions, with multiplicity, as given *)
    match a_previous a with
    | None => d_pred d' = None
    | Some pv => exists p, d_pred d' = Some p /\ Permutation (flatten p) (map tup pv) /\
                           NoDup (map fst p) /\ NoDup (flatten_series p)
    end /\
    (* NEW: flags and recorded arguments of the parsed document are the arguments *)
    d_complete d' = a_complete a /\ d_final d' = a_final a /\ d_verified d' = a_verified a /\
    d_extras d' = record_extras (a_extras a).
Proof. exact sr_document_full. Qed.
Print Assumptions C15_sr_document_full.

Example C15_sr_document_full_example :
  exists d d', sr_init Enhanced e2e_args = Ok d /\ srread d = Ok (Enhanced, d') /\
    get_evidence_series d' true = [(1, 11); (2, 21)] /\
    get_evidence_series d' false = [(1, 11); (2, 21)] /\
    get_evidence d' false = [(1, 11, 1, 0); (2, 21, 2, 2); (1, 11, 3, 0)] /\
    d_pred d' = Some [(1, [(5, [(20, 2); (20, 2)])])] /\
    d_complete d' = true /\ d_final d' = false /\ d_verified d' = true /\
    d_extras d' = Recorded (Some 3) (Some 4) (Some [5; 6]) None.
Proof. exact e2e_full_example. Qed.
Print Assumptions C15_sr_document_full_example.

(* key object selections WITH observer contexts (vocabulary, C15_Proofs_Ko.v: ko_ctx_root = the root item
   built: title, template 2010, then person context items, device context items, description, one item per
   selected object; ctx_plain o = the identifying attributes of o are leaves and not IMAGE / COMPOSITE /
   WAVEFORM; ctx_canonical canon o = their names are a selection of canon in canon's order; has_required t o =
   the required attribute t is there; ctx_given o = (observer type, names of the attributes) as given;
   flt_ok flt c = context c passes the observer_type filter) *)
Theorem C15_key_object_context_accepted_iff : forall title tx person device descr refs root,
  ko_content_ctx title tx person device descr refs = Ok root <->
  wrong_type person 0 = false /\ wrong_type device 1 = false /\ refs <> [] /\
  root = ko_ctx_root title tx person device descr refs.
Proof. exact ko_content_ctx_iff. Qed.
Print Assumptions C15_key_object_context_accepted_iff.

Theorem C15_key_object_context_refused_iff : forall title tx person device descr refs k,
  ko_content_ctx title tx person device descr refs = Err k <->
  k = "ValueError"%string /\ (wrong_type person 0 = true \/ wrong_type device 1 = true \/ refs = []).
Proof. exact ko_content_ctx_refused_iff. Qed.
Print Assumptions C15_key_object_context_refused_iff.

Theorem C15_key_object_context_none : forall title tx descr refs,
  ko_content_ctx title tx None None descr refs = ko_content title tx descr refs.
Proof. exact ko_content_ctx_none. Qed.
Print Assumptions C15_key_object_context_none.

Theorem C15_key_object_context_evidence : forall ev ts title tx person device descr refs,
  ctx_plain person -> ctx_plain device ->
  ko_init ev ts (ko_ctx_root title tx person device descr refs) =
  map_ok (fun d => set_content d (ko_ctx_root title tx person device descr refs))
         (ko_init ev ts (ko_ctx_root title tx None None descr refs)).
Proof. exact ko_ctx_evidence. Qed.
Print Assumptions C15_key_object_context_evidence.

Theorem C15_key_object_context_references : forall title tx person device descr refs vf cf,
  ctx_plain person -> ctx_plain device ->
  ko_get_references vf cf (ko_ctx_root title tx person device descr refs) =
  ko_get_references vf cf (ko_ctx_root title tx None None descr refs).
Proof. exact ko_ctx_get_references. Qed.
Print Assumptions C15_key_object_context_references.

Theorem C15_observer_contexts_spec : forall title tx person device descr refs root flt,
  ko_content_ctx title tx person device descr refs = Ok root ->
  ctx_ok person -> ctx_ok device ->
  has_required 121008 person -> has_required 121012 device ->
  ko_observer_contexts flt root =
  Ok (filter (flt_ok flt) (ctx_expect person_attr_tags person ++ ctx_expect device_attr_tags device)).
Proof. exact observer_contexts_spec. Qed.
Print Assumptions C15_observer_contexts_spec.

Theorem C15_observer_contexts_roundtrip : forall title tx person device descr refs root flt,
  ko_content_ctx title tx person device descr refs = Ok root ->
  ctx_canonical person_attr_tags person -> ctx_canonical device_attr_tags device ->
  has_required 121008 person -> has_required 121012 device ->
  ko_observer_contexts flt root = Ok (filter (flt_ok flt) (ctx_given person ++ ctx_given device)).
Proof. exact observer_contexts_roundtrip. Qed.
Print Assumptions C15_observer_contexts_roundtrip.

Example C15_observer_contexts_device_role_kept :
  exists root,
    ko_content_ctx 113000 [] None (Some role_ctx) None [(1, 0, true)] = Ok root /\
    ctx_plain (Some role_ctx) /\ has_required 121012 (Some role_ctx) /\
    ctx_canonical device_attr_tags (Some role_ctx) /\
    In (Item CODE t_device_role 5 None [] []) (i_kids root) /\
    ko_observer_contexts None root = Ok [(1, [121012; t_device_role])] /\
    ctx_given (Some role_ctx) = [(1, [121012; t_device_role])].
Proof. exact observer_contexts_device_role_kept. Qed.
Print Assumptions C15_observer_contexts_device_role_kept.

Theorem C15_key_object_recorded_frame : forall ev ts x root,
  ko_init_x ev ts x root = map_ok (fun d => set_recorded_doc d (ko_record_extras x)) (ko_init ev ts root).
Proof. exact ko_extras_frame. Qed.
Print Assumptions C15_key_object_recorded_frame.

Theorem C15_key_object_recorded_verdict : forall ev ts x root k,
  ko_init_x ev ts x root = Err k <-> ko_init ev ts root = Err k.
Proof. exact ko_extras_verdict. Qed.
Print Assumptions C15_key_object_recorded_verdict.

Theorem C15_key_object_recorded : forall ev ts x root d, ko_init_x ev ts x root = Ok d ->
  exists d0, ko_init ev ts root = Ok d0 /\ d = set_recorded_doc d0 (ko_record_extras x) /\
    d_content d = root /\ d_current d = d_current d0 /\ d_other d = [] /\
    w_institution (d_extras d) = x_institution x /\
    w_department (d_extras d) = (match x_institution x with Some _ => x_department x | None => None end) /\
    w_codes (d_extras d) = None /\ w_requests (d_extras d) = x_requests x.
Proof. exact ko_extras_recorded. Qed.
Print Assumptions C15_key_object_recorded.

Theorem C15_key_object_context_document : forall ev ts title tx person device descr refs x root d,
  ko_content_ctx title tx person device descr refs = Ok root ->
  ko_init_x ev ts x root = Ok d ->
  ctx_plain person -> ctx_plain device ->
  (* the document contains the selection given: contexts, description, references, in this order *)
  d_content d = root /\
  i_kids root = opt_items person ++ opt_items device ++ descr_items descr ++ map ko_ref_item refs /\
  (* written and parsed by KeyObjectSelectionDocument.from_dataset it is the document written *)
  ko_from_dataset true d = Ok d /\
  (* its evidence is that of the same selection WITHOUT observer contexts; other evidence never *)
  (exists root0 d0, ko_content title tx descr refs = Ok root0 /\ ko_init ev ts root0 = Ok d0 /\
                    d_current d = d_current d0) /\
  d_other d = [] /\
  (* every selected object was supplied, all under one study *)
  (exists st, forall u, referenced root u -> exists e, first_evd ev u = Some e /\ e_study e = st) /\
  (* get_references lists the selected objects as given, never a context item *)
  ko_get_references None None root = Ok (map ko_ref_item refs) /\
  (* recorded arguments *)
  d_extras d = ko_record_extras x /\
  (* get_observer_contexts returns the contexts given (names the parser knows, constructor order) *)
  (ctx_canonical person_attr_tags person -> ctx_canonical device_attr_tags device ->
   has_required 121008 person -> has_required 121012 device ->
   forall flt, ko_observer_contexts flt (d_content d) =
               Ok (filter (flt_ok flt) (ctx_given person ++ ctx_given device))).
Proof. exact ko_ctx_document. Qed.
Print Assumptions C15_key_object_context_document.

Example C15_key_object_context_example :
  exists root d,
    ko_content_ctx 113000 [4; 5] (Some kx_person) (Some kx_device) (Some 1) [(1, 0, true); (2, 1, false); (1, 0, true)] = Ok root /\
    ko_init_x ko_ex_ev true (Extras (Some 3) (Some 4) None (Some [7; 8])) root = Ok d /\
    ctx_plain (Some kx_person) /\ ctx_plain (Some kx_device) /\
    ctx_canonical person_attr_tags (Some kx_person) /\ ctx_canonical device_attr_tags (Some kx_device) /\
    has_required 121008 (Some kx_person) /\ has_required 121012 (Some kx_device) /\
    length (i_kids root) = 12%nat /\
    ko_observer_contexts (Some 1) (d_content d) = Ok [(1, [121012; 121013; 121017])] /\
    d_extras d = Recorded (Some 3) (Some 4) None (Some [7; 8]).
Proof. exact ko_ctx_example. Qed.
Print Assumptions C15_key_object_context_example.

(* the document's own study / patient / study id / accession number are those of the FIRST supplied
   record (sr_identity / ko_identity), referenced or not *)
Theorem C15_document_identity : forall c a d, sr_init c a = Ok d ->
  exists e rest, a_evidence a = e :: rest /\ sr_identity c a = Ok (e_study e).
Proof. exact sr_identity_spec. Qed.
Print Assumptions C15_document_identity.

Theorem C15_document_identity_refused_iff : forall c a k, sr_identity c a = Err k <-> sr_init c a = Err k.
Proof. exact sr_identity_err. Qed.
Print Assumptions C15_document_identity_refused_iff.

Theorem C15_key_object_identity : forall ev ts root d, ko_init ev ts root = Ok d ->
  exists e rest, ev = e :: rest /\ ko_identity ev ts root = Ok (e_study e).
Proof. exact ko_identity_spec. Qed.
Print Assumptions C15_key_object_identity.

Theorem C15_key_object_identity_refused_iff : forall ev ts root k, ko_identity ev ts root = Err k <-> ko_init ev ts root = Err k.
Proof. exact ko_identity_err. Qed.
Print Assumptions C15_key_object_identity_refused_iff.

Theorem C15_key_object_identity_study_refuted :
  exists ev refs root d s,
    ko_content 113000 [] None refs = Ok root /\ ko_init ev true root = Ok d /\
    (forall u, referenced root u -> exists e, first_evd ev u = Some e /\ e_study e = 1) /\
    ko_identity ev true root = Ok s /\ s <> 1.
Proof. exact ko_identity_study_refuted. Qed.
Print Assumptions C15_key_object_identity_study_refuted.

(* find_content_items by NAME when coded entries come in every form: value (CodeValue / LongCodeValue /
   URNCodeValue), scheme designator and scheme version must all agree *)
Theorem C15_find_by_name : forall n q recursive node,
  find_content_items_n true n q recursive node =
  Ok (filter (matches_n n q) (if recursive then descendants node else i_kids node)).
Proof. exact find_name_spec. Qed.
Print Assumptions C15_find_by_name.

Theorem C15_find_by_name_refuses_iff : forall has_cs n q recursive node k,
  find_content_items_n has_cs n q recursive node = Err k <-> has_cs = false /\ k = "AttributeError"%string.
Proof. exact find_name_refused_iff. Qed.
Print Assumptions C15_find_by_name_refuses_iff.

Theorem C15_name_matches_iff : forall n it, name_matches n it = true <->
  i_tag it = n_code n /\ name_form (entry_feats it) = n_form n /\
  name_version (entry_feats it) = n_version n /\ n_scheme n = true.
Proof. exact name_matches_iff. Qed.
Print Assumptions C15_name_matches_iff.

Theorem C15_find_by_plain_name : forall c q it,
  name_form (entry_feats it) = 0 -> name_version (entry_feats it) = 0 ->
  matches_n (Some (QName c 0 0 true)) q it = matches (Query (Some c) (q_vt q) (q_rel q)) it.
Proof. exact matches_n_plain. Qed.
Print Assumptions C15_find_by_plain_name.

Example C15_find_by_name_example :
  let tree := Item CONTAINER 1 0 None []
                [Item TEXT 5 1 None [(14, [2; 12])] [];
                 Item CONTAINER 5 1 None [] [Item NUM 5 2 None [(14, [12; 10218])] []];
                 Item TEXT 5 1 None [(14, [3])] []] in
  find_content_items_n true (Some (QName 5 0 2 true)) (Query None None None) true tree =
    Ok [Item NUM 5 2 None [(14, [12; 10218])] []] /\
  find_content_items_n true (Some (QName 5 2 2 true)) (Query None None None) true tree =
    Ok [Item TEXT 5 1 None [(14, [2; 12])] []] /\
  find_content_items_n true (Some (QName 5 0 0 true)) (Query None None None) false tree =
    Ok [Item CONTAINER 5 1 None [] [Item NUM 5 2 None [(14, [12; 10218])] []]] /\
  find_content_items_n true (Some (QName 5 3 0 false)) (Query None None None) true tree = Ok [].
Proof. exact find_name_example. Qed.
Print Assumptions C15_find_by_name_example.

(* every (study, series) reported by get_evidence_series holds an instance reported by get_evidence *)
Theorem C15_series_has_instance : forall c a d, sr_init c a = Ok d ->
  forall b st se, In (st, se) (get_evidence_series d b) -> exists u k, In (st, se, u, k) (get_evidence d b).
Proof. exact doc_series_has_instance. Qed.
Print Assumptions C15_series_has_instance.
