(* C10 - proofs, part 6: the exact square root of the spacing accessors exists on every
   geometry built from rational spacings; strengthened volume accessor theorems;
   the composite statement of the property's first sentence *)
From Coq Require Import String Ascii ZArith Znumtheory List Bool QArith Qabs Qround Qreduction Lia Lqa Qfield Setoid Morphisms.
From HD Require Import Base.Val C10_Model C10_Proofs C10_Proofs_T C10_Proofs_L C10_Proofs_V C10_Proofs_D.
Import ListNotations.
Open Scope Q_scope.

Ltac proj := cbn [vx vy vz c0 c1 c2 lin tr fst snd].

Lemma Qred_reduced_id a b : Z.gcd a (Zpos b) = 1%Z -> Qred (a # b) = a # b.
Proof.
  intro G. unfold Qred.
  pose proof (Z.ggcd_gcd a (Zpos b)) as H1. pose proof (Z.ggcd_correct_divisors a (Zpos b)) as H2.
  destruct (Z.ggcd a (Zpos b)) as [g [aa bb]]. cbn [fst snd] in *. rewrite G in H1. subst g.
  destruct H2 as [Ha Hb]. rewrite Z.mul_1_l in Ha, Hb. subst aa. rewrite <- Hb. reflexivity.
Qed.

Lemma Qred_gcd q : Z.gcd (Qnum (Qred q)) (Zpos (Qden (Qred q))) = 1%Z.
Proof.
  destruct q as [a b]. unfold Qred.
  pose proof (Z.ggcd_gcd a (Zpos b)) as H1. pose proof (Z.ggcd_correct_divisors a (Zpos b)) as H2.
  destruct (Z.ggcd a (Zpos b)) as [g [aa bb]]. cbn [fst snd Qnum Qden] in *. destruct H2 as [Ha Hb].
  assert (Gp : (0 < g)%Z).
  { pose proof (Z.gcd_nonneg a (Zpos b)). destruct (Z.eq_dec g 0) as [E|]; [|lia].
    rewrite E in H1. symmetry in H1. apply Z.gcd_eq_0_r in H1. discriminate. }
  assert (Bp : (0 < bb)%Z) by nia.
  rewrite Z2Pos.id by exact Bp.
  assert (E : (g * Z.gcd aa bb = g)%Z).
  { rewrite <- Z.gcd_mul_mono_l_nonneg by lia. rewrite <- Ha, <- Hb. symmetry; exact H1. }
  nia.
Qed.

Lemma gcd_squares n d : Z.gcd n d = 1%Z -> Z.gcd (n * n) (d * d) = 1%Z.
Proof.
  intro H. apply Zgcd_1_rel_prime in H. apply Zgcd_1_rel_prime.
  assert (A : rel_prime n (d * d)) by (apply rel_prime_mult; assumption).
  apply rel_prime_sym. apply rel_prime_mult; apply rel_prime_sym; exact A.
Qed.

Lemma qsqrt_proper q q' : q == q' -> qsqrt q = qsqrt q'.
Proof. intro H. unfold qsqrt. rewrite (Qred_complete _ _ H). reflexivity. Qed.

(* the model's square root succeeds on every rational square *)
Lemma qsqrt_square s : 0 < s -> exists s', qsqrt (s * s) = Some s' /\ s' == s.
Proof.
  intro Hs. pose proof (Qred_correct s) as RC. pose proof (Qred_gcd s) as G.
  destruct (Qred s) as [n d] eqn:R. cbn [Qnum Qden] in G.
  assert (Np : (0 < n)%Z).
  { rewrite <- RC in Hs. unfold Qlt in Hs; cbn in Hs. lia. }
  assert (E : s * s == (n * n) # (d * d)) by (rewrite <- RC; reflexivity).
  rewrite (qsqrt_proper _ _ E). unfold qsqrt.
  rewrite Qred_reduced_id by (rewrite Pos2Z.inj_mul; apply gcd_squares; exact G).
  cbn [Qnum Qden]. rewrite Pos2Z.inj_mul.
  rewrite !Z.sqrt_square by lia.
  replace ((0 <=? n * n) && (n * n =? n * n) && (Z.pos d * Z.pos d =? Z.pos d * Z.pos d))%Z with true by nia.
  exists (n # d). split; [reflexivity | exact RC].
Qed.

Lemma qsqrt_of_square q s : 0 < s -> q == s * s -> exists s', qsqrt q = Some s' /\ s' == s.
Proof. intros Hs E. rewrite (qsqrt_proper _ _ E). apply qsqrt_square; exact Hs. Qed.

(* VolumeGeometry.from_attributes: the spacing / direction_cosines accessors SUCCEED and return the
   attributes (no longer conditional on the square root being exact) *)
Theorem volume_accessors_total pos r c sr sc ss nf rows cols :
  orthonormal r c -> 0 < sr -> 0 < sc -> 0 < ss ->
  exists G s dr dc,
    geom_from_attributes (apos pos) (aori r c) (asp sr sc) ss nf rows cols = Ok G /\
    g_position G = pos /\ g_shape G = [nf; rows; cols] /\ g_handedness G = RH /\
    g_spacing G = Some s /\ veq s (V3 ss sr sc) /\
    g_direction_cosines G = Some (dr, dc) /\ veq dr r /\ veq dc c /\
    g_center_position G = Ok (aapply (g_aff G) (centre_index nf rows cols)) /\
    (forall p, exists q, g_map_reference_to_indices G [aapply (g_aff G) p] = Ok [q] /\ veq q p).
Proof.
  intros O Hr Hc Hs.
  destruct (volume_accessors pos r c sr sc ss nf rows cols O Hr Hc Hs)
    as (G & E & GA & SHP & POS & SQ & OC & HD & SP & DC & CP).
  destruct SQ as (Q0 & Q1 & Q2). cbn [vx vy vz] in Q0, Q1, Q2.
  destruct (qsqrt_of_square _ ss Hs Q0) as (a & A & A').
  destruct (qsqrt_of_square _ sr Hr Q1) as (b & B & B').
  destruct (qsqrt_of_square _ sc Hc Q2) as (e & Ee & E').
  assert (GS : g_spacing G = Some (V3 a b e)) by (unfold g_spacing; rewrite A, B, Ee; reflexivity).
  assert (GD : g_direction_cosines G = Some (smul (/ e) (c2 (lin (g_aff G))), smul (/ b) (c1 (lin (g_aff G))))).
  { unfold g_direction_cosines. rewrite GS. reflexivity. }
  exists G, (V3 a b e). eexists. eexists.
  split; [exact E|]. split; [exact POS|]. split; [exact SHP|]. split; [exact HD|].
  split; [exact GS|]. split; [exact (SP _ GS)|]. split; [exact GD|].
  destruct (DC _ _ GD) as (D1 & D2). split; [exact D1|]. split; [exact D2|]. split; [exact CP|].
  intro p. unfold g_map_reference_to_indices.
  assert (DN : ~ det (lin (g_aff G)) == 0).
  { rewrite GA. cbn [lin].
    destruct (rotation_shape r c PD PR true RH sr sc ss O eq_refl) as (_ & _ & D). rewrite D.
    cbn [hand_sign conv_sp]. intro Z.
    assert (P : 0 < sr * sc * ss) by (apply Qmult_lt_0_compat; [apply Qmult_lt_0_compat|]; assumption).
    lra. }
  destruct (inv3_exists _ DN) as (Mi & EI). rewrite EI. cbn [bind call_3to3 map].
  eexists. split; [reflexivity|].
  pose proof (inv3_ok _ _ EI) as I.
  unfold aapply; proj.
  transitivity (vadd (vadd (mapply Mi (mapply (lin (g_aff G)) p)) (mapply Mi (tr (g_aff G)))) (vneg (mapply Mi (tr (g_aff G))))).
  - apply vadd_proper; [apply mapply_vadd | reflexivity].
  - transitivity (vadd (vadd p (mapply Mi (tr (g_aff G)))) (vneg (mapply Mi (tr (g_aff G))))).
    + apply vadd_proper; [apply vadd_proper; [apply (proj1 (I p)) | reflexivity] | reflexivity].
    + apply vadd_cancel_r.
Qed.

(* ---------------- the first sentence of the property as one statement ---------------- *)
Theorem transforms_consistent pos r c sr sc ss pos2 r2 c2 sr2 sc2 :
  orthonormal r c -> orthonormal r2 c2 -> same_plane pos r c pos2 r2 c2 ->
  0 < sr -> 0 < sc -> ~ ss == 0 -> 0 < sr2 -> 0 < sc2 ->
  exists P Rv I Ri T Rv2,
    p2r_make (apos pos) (aori r c) (asp sr sc) = Ok P /\
    r2p_make (apos pos) (aori r c) (asp sr sc) ss = Ok Rv /\
    i2r_make (apos pos) (aori r c) (asp sr sc) = Ok I /\
    r2i_make (apos pos) (aori r c) (asp sr sc) ss = Ok Ri /\
    p2p_make (apos pos) (aori r c) (asp sr sc) (apos pos2) (aori r2 c2) (asp sr2 sc2) = Ok T /\
    r2p_make (apos pos2) (aori r2 c2) (asp sr2 sc2) 1 = Ok Rv2 /\
    (* into the frame of reference and back is the identity *)
    (forall i j, veq (aapply Rv (aapply P (V3 i j 0))) (V3 i j 0)) /\
    (forall x, vz (aapply Rv x) == 0 -> veq (aapply P (V3 (vx (aapply Rv x)) (vy (aapply Rv x)) 0)) x) /\
    (forall u v, veq (aapply Ri (aapply I (V3 u v 0))) (V3 u v 0)) /\
    (* image coordinates are pixel indices shifted by half a pixel *)
    (forall i j, veq (aapply I (V3 (i + (1 # 2)) (j + (1 # 2)) 0)) (aapply P (V3 i j 0))) /\
    (forall x, veq (aapply Ri x) (vadd (aapply Rv x) (V3 (1 # 2) (1 # 2) 0))) /\
    (* pixel to pixel between coplanar images = through the frame of reference, and stays in the plane *)
    (forall i j, veq (aapply T (V3 i j 0)) (aapply Rv2 (aapply P (V3 i j 0))) /\ vz (aapply T (V3 i j 0)) == 0) /\
    (* the single-point helpers agree with the batch transformers *)
    (forall p : Z * Z, map_pixel_into_coordinate_system (zpt p) (apos pos) (aori r c) (asp sr sc)
                       = Ok (aapply P (V3 (inject_Z (fst p)) (inject_Z (snd p)) 0))) /\
    (forall x, map_coordinate_into_pixel_matrix x (apos pos) (aori r c) (asp sr sc) ss
               = Ok (rne (vx (aapply Rv x)), rne (vy (aapply Rv x)), rne (vz (aapply Rv x)))).
Proof.
  intros O O2 S Hr Hc Hs Hr2 Hc2.
  destruct (inverse_pairs pos r c sr sc ss O Hr Hc Hs) as (P & Rv & I & Ri & HP & HR & HI & HRi & F1 & F2 & F3 & _).
  destruct (p2p_coplanar_accepted pos r c sr sc pos2 r2 c2 sr2 sc2 O O2 S Hr Hc Hr2 Hc2)
    as (T & P' & P2 & Rv2 & HT & HP' & _ & HR2 & K).
  rewrite HP in HP'. injection HP' as <-.
  destruct (half_pixel _ _ _ _ HP) as (I' & HI' & HH). rewrite HI in HI'. injection HI' as <-.
  destruct (half_pixel_inverse _ _ _ _ _ HR) as (Ri' & HRi' & HHi). rewrite HRi in HRi'. injection HRi' as <-.
  exists P, Rv, I, Ri, T, Rv2.
  repeat (split; [assumption|]).
  split; [intros i j; destruct (K i j) as (K1 & K2 & _); split; assumption|].
  split.
  - intro p. destruct (helper_pixel_agrees _ _ _ _ [p] 0%nat p HP eq_refl) as (v & Hv & N).
    cbn in N. injection N as <-. exact Hv.
  - intro x. destruct (helper_coordinate_agrees _ _ _ _ _ [x] 0%nat x HR eq_refl) as (t & l & Ht & Hl & N).
    cbn in Hl. injection Hl as <-. cbn in N. injection N as <-. exact Ht.
Qed.

(* the remaining accessors of volume.py:647-802 on a geometry built from attributes *)
Theorem volume_more_accessors pos r c sr sc ss nf rows cols :
  orthonormal r c -> 0 < sr -> 0 < sc -> 0 < ss ->
  exists G a b s0 D B,
    geom_from_attributes (apos pos) (aori r c) (asp sr sc) ss nf rows cols = Ok G /\
    g_pixel_spacing G = Some (a, b) /\ a == sr /\ b == sc /\
    g_spacing_between_slices G = Some s0 /\ s0 == ss /\
    (exists v, g_voxel_volume G = Some v /\ v == ss * sr * sc) /\
    (exists e, g_physical_extent G = Some e /\
               veq e (V3 (inject_Z nf * ss) (inject_Z rows * sr) (inject_Z cols * sc))) /\
    g_direction G = Some D /\ ortho_cols D /\ veq (norms_sq D) (V3 1 1 1) /\ veq (c2 D) r /\ veq (c1 D) c /\
    g_inverse_affine G = Ok B /\
    (forall p, veq (aapply B (aapply (g_aff G) p)) p /\ veq (aapply (g_aff G) (aapply B p)) p).
Proof.
  intros O Hr Hc Hs.
  destruct (volume_accessors_total pos r c sr sc ss nf rows cols O Hr Hc Hs)
    as (G & s & dr & dc & E & _ & SHP & _ & GS & (S0 & S1 & S2) & GD & D1 & D2 & _ & _).
  destruct (volume_accessors pos r c sr sc ss nf rows cols O Hr Hc Hs)
    as (G' & E' & GA & _ & _ & SQ & OC & _).
  rewrite E in E'. injection E' as <-.
  cbn [vx vy vz] in S0, S1, S2.
  assert (DN : ~ det (lin (g_aff G)) == 0).
  { rewrite GA. cbn [lin].
    destruct (rotation_shape r c PD PR true RH sr sc ss O eq_refl) as (_ & _ & D). rewrite D.
    cbn [hand_sign conv_sp]. intro Z.
    assert (P : 0 < sr * sc * ss) by (apply Qmult_lt_0_compat; [apply Qmult_lt_0_compat|]; assumption).
    lra. }
  destruct (inv3_exists _ DN) as (Mi & EI).
  exists G, (vy s), (vz s), (vx s).
  exists (M3 (smul (/ vx s) (c0 (lin (g_aff G)))) (smul (/ vy s) (c1 (lin (g_aff G)))) (smul (/ vz s) (c2 (lin (g_aff G))))).
  exists (Aff Mi (vred (vneg (mapply Mi (tr (g_aff G)))))).
  split; [exact E|].
  split; [unfold g_pixel_spacing; rewrite GS; reflexivity|]. split; [exact S1|]. split; [exact S2|].
  split; [unfold g_spacing_between_slices; rewrite GS; reflexivity|]. split; [exact S0|].
  split; [eexists; split; [unfold g_voxel_volume; rewrite GS; reflexivity | rewrite S0, S1, S2; reflexivity]|].
  split; [eexists; split; [unfold g_physical_extent; rewrite GS, SHP; reflexivity |
                           unfold veq; proj; rewrite S0, S1, S2; repeat split; reflexivity]|].
  split; [unfold g_direction; rewrite GS; reflexivity|].
  assert (N0 : ~ vx s == 0) by (rewrite S0; apply pos_nonzero; exact Hs).
  assert (N1 : ~ vy s == 0) by (rewrite S1; apply pos_nonzero; exact Hr).
  assert (N2 : ~ vz s == 0) by (rewrite S2; apply pos_nonzero; exact Hc).
  destruct OC as (O1 & O2 & O3). destruct SQ as (Q0 & Q1 & Q2). unfold g_spacing_sq in Q0, Q1, Q2. cbn [vx vy vz] in Q0, Q1, Q2.
  split; [unfold ortho_cols; proj; rewrite !dot_smul, O1, O2, O3; repeat split; ring|].
  split.
  { unfold norms_sq, veq; proj. rewrite !dot_smul, Q0, Q1, Q2. rewrite <- S0, <- S1, <- S2.
    repeat split; field; assumption. }
  unfold g_direction_cosines in GD. rewrite GS in GD. injection GD as <- <-.
  split; [exact D1|]. split; [exact D2|].
  split; [unfold g_inverse_affine; rewrite EI; reflexivity|].
  intro p. apply (aff_inverse (g_aff G) Mi EI).
Qed.
