(* C02 - proofs, part 2: FRACTIONAL combine, refusal characterisation, end-to-end read theorem,
   construction-time label-map conversion, description lookups. *)
From Coq Require Import String ZArith List Bool Lia ZifyBool.
From HD Require Import Base.Val C02_Model C02_Proofs.
Import ListNotations.
Open Scope Z_scope.
Ltac Zify.zify_post_hook ::= Z.to_euclidean_division_equations.

(* ------------------------------------------------------------------ *)
(* FRACTIONAL objects whose stored values are all 0 or MaximumFractionalValue:
   the combine loop is the BINARY loop on the frames divided by that value *)
Definition norm_frame (mf : Z) (f : frame) : frame :=
  mkFrame (fkey f) (fseg f) (map (fun v => v / mf) (fpix f)).
Definition binarize (st : stored) : stored :=
  mkStored BINARY (s_segs st) (s_bits st) (s_maxfrac st) (s_npix st) (s_bg st)
           (map (norm_frame (s_maxfrac st)) (s_frames st)) (s_known st).

Definition binary_valued (mf : Z) (f : frame) : bool := forallb (fun v => (v =? 0) || (v =? mf)) (fpix f).

Lemma combine_loop_frac mf skip d ins : forall out,
  (forall f lab, In (f, lab) ins -> binary_valued mf f = true) ->
  combine_loop true mf skip d ins out =
  combine_loop false mf skip d (map (fun fl => (norm_frame mf (fst fl), snd fl)) ins) out.
Proof.
  induction ins as [|[f lab] rest IH]; intros out Hb; [reflexivity|].
  cbn [combine_loop map fst snd andb negb].
  assert (Hf : binary_valued mf f = true) by (apply (Hb f lab); left; reflexivity).
  unfold binary_valued in Hf. rewrite Hf. cbn [negb].
  cbn [norm_frame fpix].
  destruct (negb skip && any2 _ out); [reflexivity|].
  apply IH. intros f' l' H'. apply (Hb f' l'). right. exact H'.
Qed.

(* a frame that is not binary-valued stops the loop (with ValueError, or with the RuntimeError of an
   overlap met earlier) *)
Lemma combine_loop_nonbinary mf skip d ins : forall out,
  (exists f lab, In (f, lab) ins /\ binary_valued mf f = false) ->
  exists k, combine_loop true mf skip d ins out = Err k.
Proof.
  induction ins as [|[f lab] rest IH]; intros out [f0 [l0 [Hin Hnb]]]; [contradiction|].
  cbn [combine_loop andb].
  destruct (negb (forallb _ (fpix f))) eqn:E; [eauto|].
  destruct (negb skip && any2 _ out); [eauto|].
  apply IH. destruct Hin as [Heq|Hin]; [|eauto].
  inversion Heq. subst. unfold binary_valued in Hnb. rewrite Hnb in E. discriminate.
Qed.

Lemma combine_loop_skip_nonbinary mf d ins : forall out,
  (combine_loop true mf true d ins out = Err "ValueError" <->
   exists f lab, In (f, lab) ins /\ binary_valued mf f = false) /\
  (forall k, combine_loop true mf true d ins out = Err k -> k = "ValueError"%string).
Proof.
  induction ins as [|[f lab] rest IH]; intros out.
  - cbn [combine_loop]. split; [split; [discriminate|intros [f [l [[] _]]]]|discriminate].
  - cbn [combine_loop andb negb]. fold (binary_valued mf f).
    destruct (binary_valued mf f) eqn:E; cbn [negb].
    + destruct (IH (max2 d (cast d lab) (map (fun v => v / mf) (fpix f)) out)) as [IH1 IH2].
      split; [|exact IH2]. rewrite IH1. split.
      * intros [f0 [l0 [Hin Hnb]]]. exists f0, l0. split; [right; exact Hin|exact Hnb].
      * intros [f0 [l0 [[Heq|Hin] Hnb]]]; [inversion Heq; subst; congruence|eauto].
    + split; [|intros k H; congruence]. split; [|reflexivity]. intros _. exists f, lab. split; [left; reflexivity|exact E].
Qed.

Lemma join_plane_binarize st key ct :
  join_plane (binarize st) key ct =
  map (fun fl => (norm_frame (s_maxfrac st) (fst fl), snd fl)) (join_plane st key ct).
Proof.
  unfold join_plane, binarize. cbn [s_frames].
  induction (s_frames st) as [|f l IH]; [reflexivity|].
  cbn [map flat_map]. rewrite map_app, IH. f_equal.
  cbn [norm_frame fkey fseg]. destruct (fkey f =? key); [|reflexivity].
  rewrite map_map. reflexivity.
Qed.

(* well-formed FRACTIONAL object with binary values *)
Definition wf_fractional_binary (st : stored) : Prop :=
  s_ty st = FRACTIONAL /\ 1 <= s_maxfrac st /\
  (forall f, In f (s_frames st) ->
     length (fpix f) = Z.to_nat (s_npix st) /\ forall v, In v (fpix f) -> v = 0 \/ v = s_maxfrac st) /\
  (forall s, In s (s_segs st) -> 0 < s).

Lemma binary_valued_spec mf f : binary_valued mf f = true <-> forall v, In v (fpix f) -> v = 0 \/ v = mf.
Proof.
  unfold binary_valued. rewrite forallb_forall. split; intros H v Hv; specialize (H v Hv); lia.
Qed.

Lemma binarize_wf st : wf_fractional_binary st -> wf_binary (binarize st).
Proof.
  intros [Hty [Hmf [Hfr Hpos]]]. split; [reflexivity|]. split; [|exact Hpos].
  intros f Hf. cbn [binarize s_frames s_npix] in *. apply in_map_iff in Hf. destruct Hf as [g [<- Hg]].
  destruct (Hfr g Hg) as [Hl Hv]. cbn [norm_frame fpix]. split; [rewrite map_length; exact Hl|].
  intros v Hin. apply in_map_iff in Hin. destruct Hin as [x [<- Hx]].
  destruct (Hv x Hx) as [->| ->]; [left; apply Z.div_0_l; lia|right; apply Z.div_same; lia].
Qed.

(* combining a binary-valued FRACTIONAL object = combining the BINARY object of the divided frames *)
Lemma fractional_combine_as_binary st keys req o :
  wf_fractional_binary st -> o_combine o = true -> o_rescale o = true ->
  seg_frame st keys req o = seg_frame (binarize st) keys req o.
Proof.
  intros [Hty [Hmf [Hfr Hpos]]] Hc Hr. unfold seg_frame. rewrite Hc, Hr, Hty.
  cbn [binarize s_ty s_segs segtype_eqb andb negb s_maxfrac s_npix].
  unfold max_output_val. cbn [s_ty].
  destruct (negb (forallb _ req)); [reflexivity|].
  set (d := match o_dtype o with Some d => d | None => _ end).
  destruct (negb (kind_ok d)); [reflexivity|].
  destruct (dtype_max d <? _); [reflexivity|].
  f_equal. induction keys as [|key ks IH]; [reflexivity|]. cbn [map_res]. rewrite IH.
  f_equal. rewrite (join_plane_binarize st key). cbn [binarize s_maxfrac].
  apply combine_loop_frac. intros f lab Hin. apply in_join_plane in Hin. destruct Hin as [Hf _].
  apply binary_valued_spec. apply Hfr. exact Hf.
Qed.

(* without rescale_fractional a FRACTIONAL combine is always refused *)
Lemma fractional_combine_needs_rescale st keys req o :
  s_ty st = FRACTIONAL -> o_combine o = true -> o_rescale o = false ->
  seg_frame st keys req o = Err "ValueError".
Proof.
  intros Hty Hc Hr. unfold seg_frame. rewrite Hc, Hr, Hty. cbn [segtype_eqb andb negb].
  destruct (negb (forallb _ req)); [reflexivity|].
  destruct (negb (kind_ok _)); [reflexivity|]. destruct (dtype_max _ <? _); reflexivity.
Qed.

Lemma nth_map_div mf l : forall p, nth p (map (fun v => v / mf) l) 0 = nth p l 0 / mf.
Proof.
  induction l as [|x l IH]; intros [|p]; cbn [map nth]; rewrite ?Zdiv_0_l; auto.
Qed.

(* requested-segment coverage in the binarised object is coverage in the stored object *)
Lemma req_covers_binarize st key req p f' k :
  wf_fractional_binary st ->
  (req_covers (binarize st) key req p f' k <->
   exists f, f' = norm_frame (s_maxfrac st) f /\ req_covers st key req p f k).
Proof.
  intros [Hty [Hmf [Hfr Hpos]]]. unfold req_covers. cbn [binarize s_frames]. split.
  - intros [Hin [Hk [Hn Hp]]]. apply in_map_iff in Hin. destruct Hin as [f [<- Hf]].
    exists f. split; [reflexivity|]. cbn [norm_frame fkey fseg fpix] in *. repeat split; auto.
    rewrite nth_map_div in Hp.
    destruct (Nat.lt_ge_cases p (length (fpix f))) as [Hlt|Hge].
    + destruct (Hfr f Hf) as [_ Hv].
      destruct (Hv (nth p (fpix f) 0) (nth_In _ _ Hlt)) as [E|E]; rewrite E in *; [rewrite Zdiv_0_l in Hp; lia|lia].
    + rewrite nth_overflow in Hp by exact Hge. rewrite Zdiv_0_l in Hp. lia.
  - intros [f [-> [Hin [Hk [Hn Hp]]]]]. cbn [norm_frame fkey fseg fpix]. repeat split; auto.
    + apply in_map. exact Hin.
    + rewrite nth_map_div. destruct (Nat.lt_ge_cases p (length (fpix f))) as [Hlt|Hge].
      * destruct (Hfr f Hin) as [_ Hv].
        destruct (Hv (nth p (fpix f) 0) (nth_In _ _ Hlt)) as [E|E]; rewrite E in *; [lia|rewrite Z.div_same; lia].
      * rewrite nth_overflow in Hp by exact Hge. lia.
Qed.

(* combined_pixel for binary-valued FRACTIONAL objects: the BINARY statement, on the stored frames *)
Lemma fractional_combined_read st keys req o d a :
  wf_fractional_binary st -> wf_opts o -> o_combine o = true ->
  seg_frame st keys req o = Ok (d, OComb a) ->
  o_rescale o = true /\
  Forall2 (fun key plane =>
    length plane = Z.to_nat (s_npix st) /\
    forall p, (p < Z.to_nat (s_npix st))%nat ->
      (nth p plane 0 = 0 <-> forall f k, ~ req_covers st key req p f k) /\
      (nth p plane 0 <> 0 -> exists f k, req_covers st key req p f k /\
                                         nth p plane 0 = label_at (o_relabel o) k (fseg f)) /\
      (forall f k, req_covers st key req p f k -> label_at (o_relabel o) k (fseg f) <= nth p plane 0))
    keys a.
Proof.
  intros Hst Ho Hc H.
  destruct (o_rescale o) eqn:Hr.
  2:{ destruct Hst as [Hty _]. rewrite (fractional_combine_needs_rescale st keys req o Hty Hc Hr) in H. discriminate. }
  split; [reflexivity|].
  rewrite (fractional_combine_as_binary st keys req o Hst Hc Hr) in H.
  pose proof (binary_combined_read (binarize st) keys req o d a (binarize_wf st Hst) Ho Hc H) as HB.
  eapply Forall2_impl'; [exact HB|]. cbn [binarize s_npix]. intros key plane [Hl Hp]. split; [exact Hl|].
  intros p Hlt. destruct (Hp p Hlt) as [H0 [H1 H2]]. split; [|split].
  - rewrite H0. split.
    + intros Hn f k Hcov. apply (Hn (norm_frame (s_maxfrac st) f) k). apply req_covers_binarize; eauto.
    + intros Hn f' k Hcov. apply req_covers_binarize in Hcov; [|exact Hst]. destruct Hcov as [f [_ Hcov]]. exact (Hn f k Hcov).
  - intros Hnz. destruct (H1 Hnz) as [f' [k [Hcov Hv]]].
    apply req_covers_binarize in Hcov; [|exact Hst]. destruct Hcov as [f [-> Hcov]]. exists f, k. split; [exact Hcov|exact Hv].
  - intros f k Hcov. apply (H2 (norm_frame (s_maxfrac st) f) k). apply req_covers_binarize; eauto.
Qed.

(* overlap_refused for binary-valued FRACTIONAL objects *)
Lemma cnt_norm mf p ins :
  (forall f lab, In (f, lab) ins -> forall v, In v (fpix f) -> v = 0 \/ v = mf) -> 1 <= mf ->
  cnt p (map (fun fl => (norm_frame mf (fst fl), snd fl)) ins) = cnt p ins.
Proof.
  intros Hb Hmf. unfold cnt. induction ins as [|[f lab] rest IH]; [reflexivity|].
  cbn [map filter fst snd].
  assert (IH' : length (filter (covers p) (map (fun fl => (norm_frame mf (fst fl), snd fl)) rest)) =
                length (filter (covers p) rest)) by (apply IH; intros f' l' H'; apply (Hb f' l'); right; exact H').
  assert (Hc : covers p (norm_frame mf f, lab) = covers p (f, lab)).
  { unfold covers. cbn [fst norm_frame fpix].
    rewrite nth_map_div.
    destruct (Nat.lt_ge_cases p (length (fpix f))) as [Hlt|Hge].
    - destruct (Hb f lab (or_introl eq_refl) (nth p (fpix f) 0) (nth_In _ _ Hlt)) as [E|E]; rewrite E.
      + rewrite Zdiv_0_l. reflexivity.
      + rewrite Z.div_same by lia. lia.
    - rewrite !nth_overflow by exact Hge. rewrite Zdiv_0_l. reflexivity. }
  rewrite Hc. destruct (covers p (f, lab)); cbn [length]; rewrite IH'; reflexivity.
Qed.

Lemma fractional_overlap_read st keys req o :
  wf_fractional_binary st -> wf_opts o -> o_combine o = true -> o_rescale o = true -> o_skip o = false ->
  (seg_frame st keys req o = Err "RuntimeError"%string <->
   (forallb (fun s => memz s (s_segs st)) req = true /\
    (exists d, seg_frame st keys req (mkOpts true (o_relabel o) true true (o_dtype o)) = Ok d) /\
    exists key p, In key keys /\ (p < Z.to_nat (s_npix st))%nat /\
                  (2 <= cnt p (join_plane st key (chan_table req true (o_relabel o))))%nat)).
Proof.
  intros Hst Ho Hc Hr Hs.
  rewrite (fractional_combine_as_binary st keys req o Hst Hc Hr).
  rewrite (fractional_combine_as_binary st keys req (mkOpts true (o_relabel o) true true (o_dtype o)) Hst eq_refl eq_refl).
  pose proof (binary_overlap_read (binarize st) keys req o (binarize_wf st Hst) Ho Hc Hs) as HB.
  rewrite Hr in HB. cbn [binarize s_segs s_npix] in HB. rewrite HB.
  destruct Hst as [Hty [Hmf [Hfr Hpos]]].
  assert (Hcnt : forall key p, cnt p (join_plane (binarize st) key (chan_table req true (o_relabel o))) =
                               cnt p (join_plane st key (chan_table req true (o_relabel o)))).
  { intros key p. rewrite join_plane_binarize. apply cnt_norm; [|exact Hmf].
    intros f lab Hin. apply in_join_plane in Hin. destruct Hin as [Hf _]. apply Hfr. exact Hf. }
  split; intros [H1 [H2 [key [p [Hk [Hp Hn]]]]]]; (split; [exact H1|]); (split; [exact H2|]);
    exists key, p; (split; [exact Hk|]); (split; [exact Hp|]); rewrite Hcnt in *; exact Hn.
Qed.

(* a requested frame of a requested plane that is not binary-valued makes the combine fail *)
Lemma fractional_nonbinary_refused st keys req o key f lab :
  s_ty st = FRACTIONAL -> o_combine o = true ->
  In key keys -> In (f, lab) (join_plane st key (chan_table req true (o_relabel o))) ->
  binary_valued (s_maxfrac st) f = false ->
  exists k, seg_frame st keys req o = Err k.
Proof.
  intros Hty Hc Hk Hin Hnb. unfold seg_frame. rewrite Hc, Hty. cbn [segtype_eqb andb negb].
  rewrite andb_false_r. cbn [andb].
  destruct (negb (forallb _ req)); [eauto|].
  destruct (negb (kind_ok _)); [eauto|]. destruct (dtype_max _ <? _); [eauto|].
  destruct (negb (o_rescale o)); [eauto|].
  match goal with |- context [map_res ?F keys] => set (loop := F) end.
  assert (Hl : exists k, loop key = Err k) by (apply combine_loop_nonbinary; eauto).
  destruct Hl as [k Hl]. clear Hin.
  induction keys as [|k0 ks IH]; [contradiction|]. cbn [map_res].
  destruct Hk as [->|Hk].
  - rewrite Hl. cbn [bind]. eauto.
  - destruct (loop k0); cbn [bind]; [|eauto]. destruct (IH Hk) as [k' IH'].
    destruct (map_res loop ks); cbn [bind] in *; [discriminate|eauto].
Qed.

(* ------------------------------------------------------------------ *)
(* refusals of _get_pixels_by_seg_frame: the argument checks            *)
Definition out_dtype (st : stored) (req : list Z) (o : opts) : dtype :=
  match o_dtype o with
  | Some d => d
  | None => if o_rescale o && segtype_eqb (s_ty st) FRACTIONAL && negb (o_combine o) then DF 32
            else unsigned_dtype (max_output_val st req (o_combine o) (o_relabel o) (o_rescale o))
  end.
(* every requested number is a described non-background segment, the dtype is boolean / integer / float and
   holds the largest possible output value exactly, rescaled output is floating point, and a FRACTIONAL
   combine is asked with rescale_fractional *)
Definition args_ok (st : stored) (req : list Z) (o : opts) : bool :=
  let d := out_dtype st req o in
  let frac := segtype_eqb (s_ty st) FRACTIONAL in
  forallb (fun s => memz s (s_segs st)) req && kind_ok d &&
  negb (dtype_max d <? max_output_val st req (o_combine o) (o_relabel o) (o_rescale o)) &&
  negb (o_rescale o && frac && negb (o_combine o) && negb (is_float d)) &&
  negb (o_combine o && frac && negb (o_rescale o)).

Lemma args_refused st keys req o : args_ok st req o = false -> seg_frame st keys req o = Err "ValueError".
Proof.
  unfold args_ok, seg_frame. fold (out_dtype st req o). set (d := out_dtype st req o).
  destruct (forallb _ req); cbn [negb andb]; [|reflexivity].
  destruct (kind_ok d); cbn [negb andb]; [|reflexivity].
  destruct (dtype_max d <? _); cbn [negb andb]; [reflexivity|].
  destruct (s_ty st); cbn [segtype_eqb andb negb]; rewrite ?andb_false_r; cbn [negb andb]; try discriminate.
  destruct (o_rescale o), (o_combine o), (is_float d); cbn [negb andb]; try discriminate; reflexivity.
Qed.

Lemma seg_frame_ok_args st keys req o r : seg_frame st keys req o = Ok r -> args_ok st req o = true.
Proof.
  intros H. destruct (args_ok st req o) eqn:E; [reflexivity|]. rewrite (args_refused st keys req o E) in H. discriminate.
Qed.

Lemma seg_frame_dtype st keys req o d r : seg_frame st keys req o = Ok (d, r) -> d = out_dtype st req o.
Proof.
  unfold seg_frame. fold (out_dtype st req o). set (d0 := out_dtype st req o).
  destruct (negb (forallb _ req)); [discriminate|].
  destruct (negb (kind_ok d0)); [discriminate|]. destruct (dtype_max d0 <? _); [discriminate|].
  destruct (segtype_eqb (s_ty st) LABELMAP).
  { destruct (labelmap_read _ _ _ _ _ _); cbn [bind]; intros H; inversion H; reflexivity. }
  destruct (_ && negb (is_float d0)); [discriminate|].
  destruct (o_combine o).
  - destruct (_ && negb (o_rescale o)); [discriminate|].
    destruct (map_res _ keys); cbn [bind]; intros H; inversion H; reflexivity.
  - destruct (o_rescale o && _); [destruct (existsb _ _); [discriminate|]|]; intros H; inversion H; reflexivity.
Qed.

Lemma map_res_err_class {A B} (f : A -> res B) (k0 : string) l :
  (forall x k, In x l -> f x = Err k -> k = k0) -> forall k, map_res f l = Err k -> k = k0.
Proof. intros H. apply (map_res_Err f k0 l H). Qed.

Lemma map_res_total {A B} (f : A -> res B) l : (forall x, In x l -> exists y, f x = Ok y) -> exists r, map_res f l = Ok r.
Proof.
  induction l as [|x l IH]; intros H; cbn [map_res]; [eauto|].
  destruct (H x (or_introl eq_refl)) as [y ->]. cbn [bind].
  destruct IH as [r ->]; [intros z Hz; apply H; right; exact Hz|]. cbn [bind]. eauto.
Qed.

(* BINARY: ValueError exactly when an argument check fails; the only other refusal is the overlap
   RuntimeError of a combine; a stacked read is never refused otherwise *)
Lemma binary_refusals st keys req o :
  wf_binary st -> wf_opts o ->
  (seg_frame st keys req o = Err "ValueError" <-> args_ok st req o = false) /\
  (forall k, seg_frame st keys req o = Err k -> k = "ValueError"%string \/
             (k = "RuntimeError"%string /\ o_combine o = true /\ o_skip o = false)) /\
  (args_ok st req o = true -> o_combine o = false \/ o_skip o = true -> exists r, seg_frame st keys req o = Ok r).
Proof.
  intros Hst Ho. destruct (args_ok st req o) eqn:Ea.
  2:{ rewrite (args_refused st keys req o Ea). split; [tauto|]. split; [intros k H; inversion H; auto|discriminate]. }
  assert (Hty : s_ty st = BINARY) by (destruct Hst; assumption).
  destruct (o_combine o) eqn:Hc.
  - (* combine *)
    rewrite (seg_frame_binary_combine st keys req o Hst Hc).
    unfold args_ok, out_dtype in Ea. rewrite Hc, Hty in Ea. cbn [segtype_eqb andb negb] in Ea.
    rewrite !andb_false_r in Ea. cbn [andb negb] in Ea. rewrite !andb_true_r in Ea.
    set (d := match o_dtype o with Some d => d | None => _ end) in *.
    destruct (forallb _ req) eqn:Hreq; cbn [andb negb] in Ea |- *; [|discriminate].
    destruct (kind_ok d); cbn [andb negb] in Ea |- *; [|discriminate].
    destruct (dtype_max d <? _) eqn:Hcap; cbn [negb] in Ea; [discriminate|].
    set (loop := fun key => combine_loop false (s_maxfrac st) (o_skip o) d _ _).
    assert (Htot : o_skip o = true -> exists pl, map_res loop keys = Ok pl).
    { intros Hs. apply map_res_total. intros key _. apply (binary_skip_total st req o key Hs). }
    assert (Hcl : o_skip o = false -> forall k, map_res loop keys = Err k -> k = "RuntimeError"%string).
    { intros Hs. apply map_res_err_class. intros key k _ H.
      exact (proj2 (binary_overlap_plane st req o Hst Ho Hreq Hcap key Hs) k H). }
    destruct (map_res loop keys) as [pl|k] eqn:Em; cbn [bind].
    + split; [split; discriminate|]. split; [discriminate|eauto].
    + destruct (o_skip o) eqn:Hs.
      * destruct (Htot eq_refl) as [pl Hpl]. discriminate.
      * pose proof (Hcl eq_refl k eq_refl) as ->. split; [split; discriminate|].
        split; [intros k H; inversion H; auto|]. intros _ [H|H]; discriminate.
  - (* stacked *)
    unfold args_ok, out_dtype in Ea. unfold seg_frame. rewrite Hc, Hty in *. cbn [segtype_eqb andb negb] in *.
    rewrite !andb_false_r in *. cbn [andb negb] in *. rewrite !andb_true_r in Ea.
    set (d := match o_dtype o with Some d => d | None => _ end) in *.
    destruct (forallb _ req); cbn [andb negb] in Ea |- *; [|discriminate].
    destruct (kind_ok d); cbn [andb negb] in Ea |- *; [|discriminate].
    destruct (dtype_max d <? _); cbn [negb] in Ea; [discriminate|].
    split; [split; discriminate|]. split; [discriminate|eauto].
Qed.

(* LABELMAP: combined read as an equation (no remaining refusal) *)
Lemma labelmap_combined_eq st keys req (relabel : bool) d :
  wf_labelmap st -> forallb (fun s => memz s (s_segs st)) req = true -> req <> [] -> wf_dtype d ->
  dtype_max d <? (if relabel then zlen req else list_max req) = false ->
  labelmap_read st keys req true relabel d =
  Ok (OComb (map (fun key => map (lm_label req relabel) (lm_raw st key)) keys)).
Proof.
  intros Hst Hreq Hne Hd Hcap.
  destruct (labelmap_read st keys req true relabel d) as [r|k] eqn:E.
  - destruct (labelmap_read_shape _ _ _ _ _ _ _ E) as [a ->]. f_equal. f_equal.
    eapply labelmap_combined; eauto.
  - exfalso. unfold labelmap_read in E.
    destruct (need_remap st req true relabel) eqn:En; [|discriminate].
    assert (Hpl : map (lm_plane st (unsigned_dtype (2 ^ s_bits st - 1))) keys = map (lm_raw st) keys).
    { apply map_ext. intro key. apply (lm_plane_raw st req Hst); [apply unsigned_dtype_wf|apply (idt_holds st req Hst Hreq)]. }
    rewrite Hpl in E.
    rewrite (map_res_all_ok _ (fun pl => map (lm_label req (negb (true && negb relabel))) pl)) in E; [discriminate|].
    intros pl Hpl'. apply in_map_iff in Hpl'. destruct Hpl' as [key [<- _]].
    apply (remap_plane st req Hst Hreq); [exact Hd|]. intros s Hs. cbn [andb]. rewrite negb_involutive.
    unfold lm_label. replace (memz s req) with true by (symmetry; apply memz_In; exact Hs).
    pose proof (index_of_bound s req Hs). pose proof (list_max_ge req s Hs). destruct relabel; lia.
Qed.

(* LABELMAP: a read is refused exactly when an argument check fails, always with ValueError *)
Lemma labelmap_refusals st keys req o :
  wf_labelmap st -> s_ty st = LABELMAP -> wf_opts o -> req <> [] -> zlen req <= 2 ^ s_bits st - 1 ->
  ((exists r, seg_frame st keys req o = Ok r) <-> args_ok st req o = true) /\
  (forall k, seg_frame st keys req o = Err k -> k = "ValueError"%string).
Proof.
  intros Hst Hty Ho Hne Hcnt. destruct (args_ok st req o) eqn:Ea.
  2:{ rewrite (args_refused st keys req o Ea). split; [split; [intros [r H]; discriminate|discriminate]|].
      intros k H; inversion H; reflexivity. }
  unfold args_ok, out_dtype in Ea. unfold seg_frame. rewrite Hty in *. cbn [segtype_eqb andb negb] in *.
  rewrite !andb_false_r in *. cbn [andb negb] in *. rewrite !andb_true_r in Ea.
  set (mv := max_output_val st req (o_combine o) (o_relabel o) (o_rescale o)) in *.
  set (d := match o_dtype o with Some d => d | None => _ end) in *.
  assert (Hd : wf_dtype d).
  { unfold d. destruct (o_dtype o) eqn:E; [apply Ho; exact E|apply unsigned_dtype_wf]. }
  destruct (forallb _ req) eqn:Hreq; cbn [andb negb] in Ea |- *; [|discriminate].
  destruct (kind_ok d); cbn [andb negb] in Ea |- *; [|discriminate].
  destruct (dtype_max d <? mv) eqn:Hcap; cbn [negb] in Ea; [discriminate|].
  unfold mv in Hcap. rewrite (max_output_val_labelmap _ _ _ _ _ Hty) in Hcap.
  destruct (o_combine o) eqn:Hc.
  - rewrite (labelmap_combined_eq st keys req (o_relabel o) d Hst Hreq Hne Hd Hcap). cbn [bind].
    split; [split; eauto|discriminate].
  - rewrite (labelmap_stacked_eq st keys req Hst Hreq Hne Hcnt (o_relabel o) d Hd) by lia. cbn [bind].
    split; [split; eauto|discriminate].
Qed.

(* ------------------------------------------------------------------ *)
(* construction: 4-D binary stack -> label map (_check_and_cast_pixel_array + _combine_segments) *)
Lemma index_of_range s l : 0 <= index_of s l <= zlen l.
Proof. unfold zlen. induction l as [|x l IH]; cbn [index_of length]; [lia|]. destruct (x =? s); lia. Qed.

Lemma zsum_ge p v : (forall x, In x p -> 0 <= x) -> In v p -> v <= zsum p.
Proof.
  induction p as [|a p IH]; intros Hn Hv; [contradiction|]. cbn [zsum].
  assert (0 <= zsum p).
  { clear IH Hv. induction p as [|b p IHp]; cbn [zsum]; [lia|].
    assert (0 <= b) by (apply Hn; right; left; reflexivity).
    assert (0 <= zsum p) by (apply IHp; intros x Hx; apply Hn; destruct Hx; [left; auto|right; right; auto]). lia. }
  assert (0 <= a) by (apply Hn; left; reflexivity).
  destruct Hv as [->|Hv]; [lia|]. assert (v <= zsum p) by (apply IH; auto; intros x Hx; apply Hn; right; exact Hx). lia.
Qed.

Lemma binary_unique p : forall k,
  (forall v, In v p -> v = 0 \/ v = 1) -> zsum p <= 1 -> nth_error p k = Some 1 -> index_of 1 p = Z.of_nat k.
Proof.
  induction p as [|a p IH]; intros k Hb Hs Hk; [destruct k; discriminate|].
  cbn [index_of zsum] in *.
  assert (Hnn : forall x, In x p -> 0 <= x) by (intros x Hx; destruct (Hb x (or_intror Hx)); lia).
  destruct (a =? 1) eqn:E.
  - destruct k; [reflexivity|]. cbn [nth_error] in Hk. apply nth_error_In in Hk.
    pose proof (zsum_ge p 1 Hnn Hk). lia.
  - destruct k; cbn [nth_error] in Hk; [inversion Hk; lia|].
    assert (a = 0) by (destruct (Hb a (or_introl eq_refl)); lia).
    rewrite (IH k); [lia| |lia|exact Hk]. intros v Hv. apply Hb. right. exact Hv.
Qed.

Definition px_label (segs p : list Z) : Z :=
  if list_max p =? 0 then 0 else nth (Z.to_nat (index_of 1 p)) segs 0.

Lemma list_max_binary p : (forall v, In v p -> v = 0 \/ v = 1) -> list_max p = 0 \/ (list_max p = 1 /\ In 1 p).
Proof.
  intros Hb. induction p as [|a p IH]; [left; reflexivity|]. cbn [list_max].
  destruct IH as [IH|[IH1 IH2]]; [intros v Hv; apply Hb; right; exact Hv| |].
  - destruct (Hb a (or_introl eq_refl)) as [->| ->]; [left; lia|right; split; [lia|left; reflexivity]].
  - right. destruct (Hb a (or_introl eq_refl)) as [->| ->]; (split; [lia|right; exact IH2]).
Qed.

Lemma combine_px_spec d p :
  wf_dtype d -> 1 <= dtype_max d -> zlen p <= dtype_max d -> p <> [] ->
  (forall v, In v p -> v = 0 \/ v = 1) ->
  combine_px d (zlen p) p = if list_max p =? 0 then 0 else index_of 1 p + 1.
Proof.
  intros Hd H1 Hl Hne Hb. unfold combine_px.
  destruct (zlen p =? 1) eqn:E1.
  - destruct p as [|x [|y p]]; [congruence| |unfold zlen in E1; cbn [length] in E1; lia].
    cbn [hd list_max index_of]. destruct (Hb x (or_introl eq_refl)) as [->| ->].
    + rewrite cast_0 by exact Hd. reflexivity.
    + rewrite cast_id by (auto; lia). reflexivity.
  - unfold argmax.
    assert (Hmem : In (list_max p) p) by (apply list_max_In; [exact Hne|intros v Hv; destruct (Hb v Hv); lia]).
    pose proof (index_of_bound (list_max p) p Hmem) as Hr.
    rewrite (cast_id d (index_of (list_max p) p + 1)) by (auto; lia).
    destruct (list_max_binary p Hb) as [E|[E Hin]]; rewrite E.
    + rewrite cast_0 by exact Hd. rewrite Z.mul_0_r, cast_0 by exact Hd. reflexivity.
    + rewrite (cast_id d 1) by (auto; lia). rewrite Z.mul_1_r.
      replace (1 =? 0) with false by reflexivity.
      pose proof (index_of_bound 1 p Hin). apply cast_id; [exact Hd|lia].
Qed.

Lemma nth_zrange_from a n i : (i < n)%nat -> nth i (zrange_from a n) 0 = a + Z.of_nat i.
Proof. intros H. apply nth_error_nth. apply zrange_from_nth_error. exact H. Qed.

(* combine_at_construction: on success every output pixel holds the number of the segment whose channel
   is set there, and 0 where no channel is set *)
Lemma ctor4_exact segs d px out :
  wf_dtype d -> NoDup segs -> (forall s, In s segs -> 0 < s <= dtype_max d) -> zlen segs <= dtype_max d ->
  1 <= dtype_max d -> segs <> [] ->
  (forall p v, In p px -> In v p -> 0 <= v) ->
  ctor_labelmap4 segs d px = Ok out ->
  Forall2 (fun p v =>
    (forall k s, nth_error segs k = Some s -> (nth k p 0 = 1 <-> v = s)) /\
    (v = 0 <-> forall x, In x p -> x = 0)) px out.
Proof.
  intros Hd Hnd Hseg Hlen H1 Hne Hnn H. unfold ctor_labelmap4 in H.
  destruct (forallb _ px) eqn:Hshape; cbn [negb] in H; [|discriminate].
  destruct (1 <? list_max (map list_max px)) eqn:Hmx; [discriminate|].
  set (overlap := if list_max (map list_max px) =? 0 then false else _) in H.
  destruct overlap eqn:Hov; [discriminate|].
  (* facts about every pixel *)
  assert (Hpix : forall p, In p px -> zlen p = zlen segs /\ (forall v, In v p -> v = 0 \/ v = 1) /\ zsum p <= 1).
  { intros p Hp. rewrite forallb_forall in Hshape. specialize (Hshape p Hp).
    assert (Hb : forall v, In v p -> v = 0 \/ v = 1).
    { intros v Hv. pose proof (Hnn p v Hp Hv). pose proof (list_max_ge p v Hv).
      assert (list_max p <= list_max (map list_max px)) by (apply list_max_ge, in_map, Hp). lia. }
    split; [lia|]. split; [exact Hb|].
    unfold overlap in Hov. destruct (list_max (map list_max px) =? 0) eqn:E0.
    - assert (forall v, In v p -> v = 0).
      { intros v Hv. pose proof (Hnn p v Hp Hv). pose proof (list_max_ge p v Hv).
        assert (list_max p <= list_max (map list_max px)) by (apply list_max_ge, in_map, Hp). lia. }
      clear - H0. induction p as [|a p IH]; cbn [zsum]; [lia|].
      rewrite (H0 a (or_introl eq_refl)). assert (zsum p <= 1) by (apply IH; intros v Hv; apply H0; right; exact Hv). lia.
    - destruct (zlen segs =? 1) eqn:E1.
      + destruct p as [|x [|y p]]; unfold zlen in Hshape, E1; cbn [length] in Hshape; try lia.
        cbn [zsum]. destruct (Hb x (or_introl eq_refl)); lia.
      + destruct (1 <? zsum p) eqn:Es; [|lia]. exfalso.
        assert (existsb (fun p => 1 <? zsum p) px = true); [|congruence].
        apply existsb_exists. exists p. auto. }
  assert (Hout : out = map (px_label segs) px).
  { assert (Hcomb : map (combine_px d (zlen segs)) px = map (fun p => if list_max p =? 0 then 0 else index_of 1 p + 1) px).
    { apply map_ext_in. intros p Hp. destruct (Hpix p Hp) as [Hl [Hb _]]. rewrite <- Hl.
      apply combine_px_spec; auto; try lia. intro E; subst p. unfold zlen in Hl. cbn [length] in Hl.
      destruct segs; [congruence|cbn [length] in Hl; lia]. }
    rewrite Hcomb in H.
    destruct (zlist_eqb segs (zrange 1 (zlen segs + 1))) eqn:Ec.
    - inversion H. apply map_ext_in. intros p Hp. unfold px_label. destruct (list_max p =? 0) eqn:E0; [reflexivity|].
      destruct (Hpix p Hp) as [Hl [Hb _]].
      destruct (list_max_binary p Hb) as [E|[E Hin]]; [lia|].
      pose proof (index_of_bound 1 p Hin). apply zlist_eqb_eq in Ec. rewrite Ec at 1. unfold zrange.
      rewrite nth_zrange_from by lia. lia.
    - unfold lookup_all in H. rewrite lookup_all_n_ok in H.
      + inversion H. rewrite map_map. apply map_ext_in. intros p Hp. unfold px_label.
        destruct (list_max p =? 0) eqn:E0; [cbn [map nth]; apply cast_0; exact Hd|].
        destruct (Hpix p Hp) as [Hl [Hb _]].
        destruct (list_max_binary p Hb) as [E|[E Hin]]; [lia|].
        pose proof (index_of_bound 1 p Hin) as Hi.
        replace (Z.to_nat (index_of 1 p + 1)) with (S (Z.to_nat (index_of 1 p))) by lia.
        cbn [map nth].
        assert (Hlt : (Z.to_nat (index_of 1 p) < length segs)%nat) by (unfold zlen in *; lia).
        rewrite (nth_indep _ 0 (cast d 0)) by (rewrite map_length; exact Hlt). rewrite map_nth.
        apply cast_id; [exact Hd|]. pose proof (Hseg _ (nth_In segs 0 Hlt)). lia.
      + intros v Hv. apply in_map_iff in Hv. destruct Hv as [p [<- Hp]].
        unfold zlen. rewrite map_length. cbn [length].
        destruct (Hpix p Hp) as [Hl [Hb _]].
        destruct (list_max p =? 0) eqn:E0; [lia|].
        destruct (list_max_binary p Hb) as [E|[E Hin]]; [lia|].
        pose proof (index_of_bound 1 p Hin). unfold zlen in *. lia. }
  subst out. clear H Hnn Hshape Hmx Hov. clear overlap.
  induction px as [|p px IH]; cbn [map]; constructor.
  - destruct (Hpix p (or_introl eq_refl)) as [Hl [Hb Hs]]. unfold px_label.
    assert (Hnnp : forall x, In x p -> 0 <= x) by (intros x Hx; destruct (Hb x Hx); lia).
    destruct (list_max_binary p Hb) as [E|[E Hin]]; rewrite E.
    + replace (0 =? 0) with true by reflexivity.
      assert (Hz : forall x, In x p -> x = 0) by (intros x Hx; pose proof (list_max_ge p x Hx); pose proof (Hnnp x Hx); lia).
      split; [|tauto]. intros k s Hk. split.
      * intros Hn. destruct (Nat.lt_ge_cases k (length p)) as [Hlt|Hge].
        -- pose proof (Hz _ (nth_In p 0 Hlt)). lia.
        -- rewrite nth_overflow in Hn by exact Hge. lia.
      * intros <-. apply nth_error_In in Hk. pose proof (Hseg 0 Hk). lia.
    + replace (1 =? 0) with false by reflexivity.
      pose proof (index_of_bound 1 p Hin) as Hi. pose proof (index_of_nth_error 1 p Hin) as Hn1.
      set (i := Z.to_nat (index_of 1 p)) in *.
      assert (Hlt : (i < length segs)%nat) by (unfold zlen in *; lia).
      pose proof (Hseg _ (nth_In segs 0 Hlt)) as Hpos.
      split.
      * intros k s Hk. split.
        -- intros Hn. assert (Hkp : nth_error p k = Some 1).
           { destruct (Nat.lt_ge_cases k (length p)) as [Hlt'|Hge]; [rewrite (nth_error_nth'' p k 0 Hlt'), Hn; reflexivity|].
             rewrite nth_overflow in Hn by exact Hge. lia. }
           pose proof (binary_unique p k Hb Hs Hkp) as Hu. assert (i = k) by (unfold i; lia). subst k.
           apply nth_error_nth. exact Hk.
        -- intros Hv. assert (Hki : nth_error segs i = Some s) by (rewrite (nth_error_nth'' segs i 0 Hlt), Hv; reflexivity).
           assert (i = k).
           { pose proof (proj1 (NoDup_nth_error segs) Hnd i k Hlt) as Hinj. apply Hinj. congruence. }
           subst k. apply nth_error_nth. exact Hn1.
      * split; [lia|]. intros Hz. specialize (Hz 1 Hin). lia.
  - apply IH. intros q Hq. apply Hpix. right. exact Hq.
Qed.

(* ------------------------------------------------------------------ *)
(* get_segment_description, segmented_property_categories / _types      *)
Lemma describe_exact ds n :
  (forall d, get_segment_description ds n = Ok d ->
     d_num d = n /\ exists l1 l2, ds = l1 ++ d :: l2 /\ forall x, In x l1 -> d_num x <> n) /\
  (get_segment_description ds n = Err "IndexError" <-> forall d, In d ds -> d_num d <> n) /\
  (forall k, get_segment_description ds n = Err k -> k = "IndexError"%string).
Proof.
  unfold get_segment_description. induction ds as [|x ds IH]; cbn [find].
  - split; [discriminate|]. split; [split; [intros _ d []|reflexivity]|intros k H; inversion H; reflexivity].
  - destruct (d_num x =? n) eqn:E.
    + split; [|split; [split; [discriminate|intros H; specialize (H x (or_introl eq_refl)); lia]|discriminate]].
      intros d H. inversion H. subst d. split; [lia|]. exists [], ds. split; [reflexivity|intros y []].
    + destruct IH as [IH1 [IH2 IH3]]. split; [|split; [|exact IH3]].
      * intros d H. destruct (IH1 d H) as [Hn [l1 [l2 [-> Hl]]]]. split; [exact Hn|].
        exists (x :: l1), l2. split; [reflexivity|]. intros y [<-|Hy]; [lia|apply Hl, Hy].
      * rewrite IH2. split; [intros H d [<-|Hd]; [lia|apply H, Hd]|intros H d Hd; apply H; right; exact Hd].
Qed.

Lemma first_seen_In seen l x : In x (first_seen seen l) <-> In x l /\ ~ In x seen.
Proof.
  revert seen. induction l as [|a l IH]; intros seen; cbn [first_seen]; [cbn [In]; tauto|].
  destruct (memz a seen) eqn:E.
  - apply memz_In in E. rewrite IH. cbn [In]. split; [tauto|]. intros [[<-|H] Hn]; [contradiction|tauto].
  - assert (~ In a seen) by (intro H; apply memz_In in H; congruence).
    cbn [In]. rewrite IH. cbn [In]. split.
    + intros [<-|[H1 H2]]; [tauto|]. split; [tauto|]. intro Hs. apply H2. right. exact Hs.
    + intros [[<-|Hl] Hn]; [tauto|]. destruct (Z.eq_dec a x) as [->|Hne]; [tauto|]. right. split; [exact Hl|]. intros [Hax|Hs]; auto.
Qed.

Lemma first_seen_NoDup seen l : NoDup (first_seen seen l).
Proof.
  revert seen. induction l as [|a l IH]; intros seen; cbn [first_seen]; [constructor|].
  destruct (memz a seen); [apply IH|]. constructor; [|apply IH].
  rewrite first_seen_In. intros [_ H]. apply H. left. reflexivity.
Qed.

Lemma non_background_In ds bg d : In d (non_background ds bg) <-> In d ds /\ is_background bg d = false.
Proof.
  unfold non_background, is_background. destruct bg as [b|]; [|tauto].
  rewrite filter_In. split; intros [H1 H2]; (split; [exact H1|]); destruct (d_num d =? b); cbn [negb] in *; congruence.
Qed.

Lemma categories_exact ds bg c :
  In c (property_categories ds bg) <-> exists d, In d ds /\ is_background bg d = false /\ d_cat d = c.
Proof.
  unfold property_categories. rewrite first_seen_In, in_map_iff. split.
  - intros [[d [<- Hd]] _]. apply non_background_In in Hd. exists d. tauto.
  - intros [d [H1 [H2 <-]]]. split; [|intros []]. exists d. split; [reflexivity|]. apply non_background_In. tauto.
Qed.

Lemma types_exact ds bg c :
  In c (property_types ds bg) <-> exists d, In d ds /\ is_background bg d = false /\ d_type d = c.
Proof.
  unfold property_types. rewrite first_seen_In, in_map_iff. split.
  - intros [[d [<- Hd]] _]. apply non_background_In in Hd. exists d. tauto.
  - intros [d [H1 [H2 <-]]]. split; [|intros []]. exists d. split; [reflexivity|]. apply non_background_In. tauto.
Qed.

(* ------------------------------------------------------------------ *)
(* end to end: every read entry point, every segmentation type          *)
(* the 0/1 (for FRACTIONAL: stored value) mask of segment s on plane key *)
Definition seg_mask (st : stored) (key s : Z) : list Z :=
  match s_ty st with
  | LABELMAP => map (fun v => if v =? s then 1 else 0) (lm_raw st key)
  | _ => mask st key s
  end.

Definition wf_stored (st : stored) : Prop :=
  1 <= s_maxfrac st <= 255 /\
  match s_ty st with
  | BINARY => wf_binary st
  | FRACTIONAL => wf_values st (s_maxfrac st)
  | LABELMAP => wf_labelmap st /\ forall f, In f (s_frames st) -> length (fpix f) = Z.to_nat (s_npix st)
  end.

(* "channel k of a stacked result is the mask of the k-th requested segment" *)
Lemma read_stacked_exact e am st keys req o d r :
  wf_stored st -> wf_opts o -> NoDup req -> o_combine o = false ->
  read e am st keys req o = Ok (d, r) ->
  let A := map (fun key => map (seg_mask st key) req) keys in
  r = if o_rescale o && segtype_eqb (s_ty st) FRACTIONAL then OStackQ A (s_maxfrac st) else OStack A.
Proof.
  intros [Hmf Hst] Ho Hnd Hc H A. apply read_ok in H. destruct H as [Hne [_ [_ H]]].
  unfold A, seg_mask. destruct (s_ty st) eqn:Hty.
  - assert (HS := stacked_channel st keys req o d r). cbv zeta in HS. rewrite Hty in HS.
    apply HS; auto; [congruence|].
    unfold stored_bound. rewrite Hty. destruct Hst as [_ [Hfr _]]. intros f v Hf Hv.
    destruct (Hfr f Hf) as [_ Hb]. destruct (Hb v Hv); lia.
  - assert (HS := stacked_channel st keys req o d r). cbv zeta in HS. rewrite Hty in HS.
    apply HS; auto; [congruence|]. unfold stored_bound. rewrite Hty. exact Hst.
  - cbn [segtype_eqb]. rewrite andb_false_r. destruct Hst as [Hst _].
    apply (labelmap_stacked_read st keys req o d r); auto.
Qed.

(* position k of the request names segment s, and s covers pixel p of plane key *)
Definition covered (st : stored) (key : Z) (req : list Z) (p k : nat) (s : Z) : Prop :=
  nth_error req k = Some s /\ 0 < nth p (seg_mask st key s) 0.

(* "a combined result holds at each pixel the requested segment covering it (its own number, or its 1-based
   position in the request when relabelling) and 0 where none does" *)
Definition combined_pixel_spec (st : stored) (key : Z) (req : list Z) (relabel : bool) (p : nat) (x : Z) : Prop :=
  (x = 0 <-> forall k s, ~ covered st key req p k s) /\
  (x <> 0 -> exists k s, covered st key req p k s /\ x = label_at relabel k s) /\
  (forall k s, covered st key req p k s -> label_at relabel k s <= x).

Lemma covered_frames st key req p k s :
  s_ty st <> LABELMAP -> unique_frames false (s_frames st) = true ->
  (covered st key req p k s <-> exists f, req_covers st key req p f k /\ fseg f = s).
Proof.
  intros Hty Hu. unfold covered, seg_mask, req_covers.
  assert (Hm : match s_ty st with LABELMAP => map (fun v => if v =? s then 1 else 0) (lm_raw st key) | _ => mask st key s end
               = mask st key s) by (destruct (s_ty st); congruence).
  rewrite Hm. split.
  - intros [Hk Hp]. unfold mask in Hp. destruct (find_last _ _) as [f|] eqn:E.
    + apply find_last_In in E. destruct E as [Hf Hpf]. exists f.
      assert (fkey f = key /\ fseg f = s) as [Hfk Hfs] by lia. subst s. repeat split; auto.
    + rewrite zeros_nth in Hp. lia.
  - intros [f [[Hf [Hfk [Hk Hp]]] Hs]]. subst s key. split; [exact Hk|]. rewrite mask_unique by auto. exact Hp.
Qed.

Lemma spec_from_frames st key req relabel p x :
  (forall k s, covered st key req p k s <-> exists f, req_covers st key req p f k /\ fseg f = s) ->
  (x = 0 <-> forall f k, ~ req_covers st key req p f k) ->
  (x <> 0 -> exists f k, req_covers st key req p f k /\ x = label_at relabel k (fseg f)) ->
  (forall f k, req_covers st key req p f k -> label_at relabel k (fseg f) <= x) ->
  combined_pixel_spec st key req relabel p x.
Proof.
  intros Hiff HA HB HC. split; [|split].
  - rewrite HA. split.
    + intros Hn k s Hcov. apply Hiff in Hcov. destruct Hcov as [f [Hr _]]. exact (Hn f k Hr).
    + intros Hn f k Hr. apply (Hn k (fseg f)). apply Hiff. eauto.
  - intros Hx. destruct (HB Hx) as [f [k [Hr Hv]]]. exists k, (fseg f). split; [apply Hiff; eauto|exact Hv].
  - intros k s Hcov. apply Hiff in Hcov. destruct Hcov as [f [Hr <-]]. apply HC, Hr.
Qed.

Lemma labelmap_pixel_spec st key req relabel p :
  wf_labelmap st -> NoDup req -> (forall s, In s req -> In s (s_segs st)) -> s_ty st = LABELMAP ->
  (p < length (lm_raw st key))%nat ->
  combined_pixel_spec st key req relabel p (nth p (map (lm_label req relabel) (lm_raw st key)) 0).
Proof.
  intros Hst Hnd Hreq Hty Hp.
  rewrite (nth_indep _ 0 (lm_label req relabel 0)) by (rewrite map_length; exact Hp). rewrite map_nth.
  set (v := nth p (lm_raw st key) 0).
  assert (Hcov : forall k s, covered st key req p k s <-> nth_error req k = Some s /\ v = s).
  { intros k s. unfold covered, seg_mask. rewrite Hty.
    rewrite (nth_indep _ 0 ((fun v => if v =? s then 1 else 0) 0)) by (rewrite map_length; exact Hp).
    rewrite (map_nth (fun v => if v =? s then 1 else 0)). fold v.
    destruct (v =? s) eqn:E; split; intros [H1 H2]; split; auto; lia. }
  assert (Hpos : forall s, In s req -> 0 < s).
  { intros s Hs. destruct Hst as [_ [_ [Hp' _]]]. specialize (Hp' s (Hreq s Hs)). lia. }
  destruct (lm_label_cases req relabel v) as [[H0 Hn]|[Hin Hl]].
  - rewrite H0. split; [|split].
    + split; [|reflexivity]. intros _ k s Hc. apply Hcov in Hc. destruct Hc as [Hk <-]. apply Hn. eapply nth_error_In, Hk.
    + congruence.
    + intros k s Hc. apply Hcov in Hc. destruct Hc as [Hk <-]. exfalso. apply Hn. eapply nth_error_In, Hk.
  - pose proof (index_of_bound v req Hin) as Hb. pose proof (index_of_nth_error v req Hin) as Hne.
    assert (Hlab : lm_label req relabel v = label_at relabel (Z.to_nat (index_of v req)) v).
    { rewrite Hl. unfold label_at. destruct relabel; lia. }
    assert (Hgt : 0 < lm_label req relabel v).
    { rewrite Hl. specialize (Hpos v Hin). destruct relabel; lia. }
    split; [|split].
    + split; [lia|]. intros Hn. exfalso. apply (Hn (Z.to_nat (index_of v req)) v). apply Hcov. auto.
    + intros _. exists (Z.to_nat (index_of v req)), v. split; [apply Hcov; auto|exact Hlab].
    + intros k s Hc. apply Hcov in Hc. destruct Hc as [Hk <-].
      rewrite (NoDup_nth_error_index req Hnd k v Hk) in Hlab. rewrite Nat2Z.id in Hlab. lia.
Qed.

Lemma read_combined_exact e am st keys req o d r :
  wf_stored st -> (s_ty st = FRACTIONAL -> forall f, In f (s_frames st) ->
                     length (fpix f) = Z.to_nat (s_npix st) /\ forall v, In v (fpix f) -> v = 0 \/ v = s_maxfrac st) ->
  (forall s, In s (s_segs st) -> 0 < s) ->
  wf_opts o -> NoDup req -> o_combine o = true ->
  read e am st keys req o = Ok (d, r) ->
  exists a, r = OComb a /\
    Forall2 (fun key plane =>
      length plane = Z.to_nat (s_npix st) /\
      forall p, (p < Z.to_nat (s_npix st))%nat -> combined_pixel_spec st key req (o_relabel o) p (nth p plane 0))
      keys a.
Proof.
  intros [Hmf Hst] Hfrac Hpos Ho Hnd Hc H. apply read_ok in H. destruct H as [Hne [_ [Hu H]]].
  destruct (s_ty st) eqn:Hty; cbn [segtype_eqb] in Hu.
  - (* BINARY *)
    assert (Hsh : exists a, r = OComb a).
    { pose proof H as H'. rewrite (seg_frame_binary_combine st keys req o Hst Hc) in H'.
      destruct (negb (forallb _ req)); [discriminate|]. destruct (negb (kind_ok _)); [discriminate|].
      destruct (dtype_max _ <? _); [discriminate|]. destruct (map_res _ keys); cbn [bind] in H'; inversion H'. eauto. }
    destruct Hsh as [a ->]. exists a. split; [reflexivity|].
    pose proof (binary_combined_read st keys req o d a Hst Ho Hc H) as HB.
    eapply Forall2_impl'; [exact HB|]. intros key plane [Hl Hp]. split; [exact Hl|]. intros p Hlt.
    destruct (Hp p Hlt) as [HA [HB' HC]].
    apply spec_from_frames; auto. intros k s. apply covered_frames; [congruence|exact Hu].
  - (* FRACTIONAL with binary values *)
    assert (Hwf : wf_fractional_binary st) by (split; [exact Hty|]; split; [lia|]; split; [apply Hfrac; reflexivity|exact Hpos]).
    destruct (o_rescale o) eqn:Hr.
    2:{ rewrite (fractional_combine_needs_rescale st keys req o Hty Hc Hr) in H. discriminate. }
    assert (Hsh : exists a, r = OComb a).
    { pose proof H as H'. rewrite (fractional_combine_as_binary st keys req o Hwf Hc Hr) in H'.
      rewrite (seg_frame_binary_combine (binarize st) keys req o (binarize_wf st Hwf) Hc) in H'.
      destruct (negb (forallb _ req)); [discriminate|]. destruct (negb (kind_ok _)); [discriminate|].
      destruct (dtype_max _ <? _); [discriminate|]. destruct (map_res _ keys); cbn [bind] in H'; inversion H'. eauto. }
    destruct Hsh as [a ->]. exists a. split; [reflexivity|].
    destruct (fractional_combined_read st keys req o d a Hwf Ho Hc H) as [_ HB].
    eapply Forall2_impl'; [exact HB|]. intros key plane [Hl Hp]. split; [exact Hl|]. intros p Hlt.
    destruct (Hp p Hlt) as [HA [HB' HC]].
    apply spec_from_frames; auto. intros k s. apply covered_frames; [congruence|exact Hu].
  - (* LABELMAP *)
    destruct Hst as [Hst Hlen].
    pose proof (labelmap_combined_read st keys req o d r Hst Hty Ho Hc Hne H) as ->.
    destruct (seg_frame_labelmap _ _ _ _ _ _ Hty Ho H) as [Hreq _].
    eexists. split; [reflexivity|].
    clear H. induction keys as [|key ks IH]; cbn [map]; [constructor|]. constructor; [|exact IH].
    assert (Hraw : length (lm_raw st key) = Z.to_nat (s_npix st)).
    { unfold lm_raw. destruct (find_last _ _) eqn:E; [apply find_last_In in E; apply Hlen, E|apply zeros_length]. }
    split; [rewrite map_length; exact Hraw|]. intros p Hlt.
    apply labelmap_pixel_spec; auto; [|lia]. intros s Hs. apply (req_in_segs st req Hreq s Hs).
Qed.

(* ------------------------------------------------------------------ *)
(* construction: acceptance; entry points: acceptance; FRACTIONAL refusals *)
(* 3-D label-map style input: accepted exactly when every value is 0 or a described number *)
Lemma ctor3_accepts_iff segs d px :
  (forall v, In v px -> 0 <= v) ->
  ((exists out, ctor_labelmap3 segs d px = Ok out) <-> forall v, In v px -> v = 0 \/ In v segs) /\
  (forall out, ctor_labelmap3 segs d px = Ok out -> out = map (cast d) px) /\
  (forall k, ctor_labelmap3 segs d px = Err k -> k = "ValueError"%string).
Proof.
  intros Hnn. unfold ctor_labelmap3.
  set (n := zlen segs).
  destruct (forallb (fun s => memz s segs) (zrange 1 (n + 1)) && forallb (fun s => memz s (zrange 1 (n + 1))) segs) eqn:Ec.
  - apply andb_true_iff in Ec. destruct Ec as [E1 E2]. rewrite forallb_forall in E1, E2.
    assert (Hset : forall v, In v segs <-> 1 <= v <= n).
    { intros v. split.
      - intros Hv. specialize (E2 v Hv). apply memz_In in E2. unfold zrange in E2. apply in_zrange_from in E2. lia.
      - intros Hv. apply memz_In, E1. unfold zrange. apply in_zrange_from. unfold n, zlen in *. lia. }
    destruct (n <? list_max px) eqn:Em.
    + split; [|split; [discriminate|intros k H; inversion H; reflexivity]].
      split; [intros [out H]; discriminate|]. intros Hall. exfalso.
      destruct px as [|x px']; [cbn [list_max] in Em; unfold n, zlen in Em; lia|].
      assert (Hin : In (list_max (x :: px')) (x :: px')) by (apply list_max_In; [congruence|exact Hnn]).
      destruct (Hall _ Hin) as [H0|Hs]; [unfold n, zlen in *; lia|]. apply Hset in Hs. lia.
    + split; [|split; [intros out H; inversion H; reflexivity|discriminate]].
      split; [|eauto]. intros _ v Hv. pose proof (list_max_ge px v Hv). pose proof (Hnn v Hv).
      destruct (Z.eq_dec v 0); [left; assumption|right; apply Hset; lia].
  - destruct (existsb (fun v => negb (memz v (0 :: segs))) px) eqn:Ee.
    + split; [|split; [discriminate|intros k H; inversion H; reflexivity]].
      split; [intros [out H]; discriminate|]. intros Hall. exfalso.
      apply existsb_exists in Ee. destruct Ee as [v [Hv Hm]].
      assert (memz v (0 :: segs) = true); [|rewrite H in Hm; discriminate].
      apply memz_In. destruct (Hall v Hv) as [->|Hs]; [left; reflexivity|right; exact Hs].
    + split; [|split; [intros out H; inversion H; reflexivity|discriminate]].
      split; [|eauto]. intros _ v Hv.
      destruct (memz v (0 :: segs)) eqn:Em.
      * apply memz_In in Em. destruct Em as [<-|Hs]; auto.
      * exfalso. assert (existsb (fun v => negb (memz v (0 :: segs))) px = true); [|congruence].
        apply existsb_exists. exists v. rewrite Em. auto.
Qed.

(* ------------------------------------------------------------------ *)
(* 4-D input: accepted exactly when it has one channel per described segment, is binary and free of overlaps *)
Definition px_ok (segs : list Z) (p : list Z) : Prop :=
  zlen p = zlen segs /\ (forall v, In v p -> v = 0 \/ v = 1) /\ zsum p <= 1.

Lemma list_max_le l m : 0 <= m -> (forall v, In v l -> v <= m) -> list_max l <= m.
Proof.
  intros Hm. induction l as [|x l IH]; intros H; cbn [list_max]; [lia|].
  assert (x <= m) by (apply H; left; reflexivity).
  assert (list_max l <= m) by (apply IH; intros v Hv; apply H; right; exact Hv). lia.
Qed.

Lemma zsum_zero p : (forall v, In v p -> v = 0) -> zsum p = 0.
Proof.
  induction p as [|a p IH]; intros H; cbn [zsum]; [reflexivity|].
  rewrite (H a (or_introl eq_refl)), IH; [reflexivity|]. intros v Hv. apply H. right. exact Hv.
Qed.

Lemma ctor4_checks segs px :
  (forall p v, In p px -> In v p -> 0 <= v) ->
  let mx := list_max (map list_max px) in
  let overlap := if mx =? 0 then false else if zlen segs =? 1 then false else existsb (fun p => 1 <? zsum p) px in
  (forallb (fun p => zlen p =? zlen segs) px = true /\ (1 <? mx) = false /\ overlap = false) <->
  (forall p, In p px -> px_ok segs p).
Proof.
  intros Hnn mx overlap. split.
  - intros [Hshape [Hmx Hov]] p Hp. rewrite forallb_forall in Hshape. specialize (Hshape p Hp).
    assert (Hle : forall v, In v p -> v <= mx).
    { intros v Hv. pose proof (list_max_ge p v Hv).
      assert (list_max p <= mx) by (apply list_max_ge, in_map, Hp). lia. }
    assert (Hb : forall v, In v p -> v = 0 \/ v = 1).
    { intros v Hv. pose proof (Hnn p v Hp Hv). specialize (Hle v Hv). lia. }
    split; [lia|]. split; [exact Hb|].
    unfold overlap in Hov. destruct (mx =? 0) eqn:E0.
    + rewrite zsum_zero; [lia|]. intros v Hv. pose proof (Hnn p v Hp Hv). specialize (Hle v Hv). lia.
    + destruct (zlen segs =? 1) eqn:E1.
      * destruct p as [|x [|y p]]; unfold zlen in Hshape, E1; cbn [length] in Hshape; try lia.
        cbn [zsum]. destruct (Hb x (or_introl eq_refl)); lia.
      * destruct (1 <? zsum p) eqn:Es; [|lia]. exfalso.
        assert (existsb (fun p => 1 <? zsum p) px = true); [|congruence].
        apply existsb_exists. exists p. auto.
  - intros Hall. split; [|split].
    + apply forallb_forall. intros p Hp. destruct (Hall p Hp) as [Hl _]. lia.
    + assert (mx <= 1); [|lia]. apply list_max_le; [lia|]. intros m Hm. apply in_map_iff in Hm.
      destruct Hm as [p [<- Hp]]. destruct (Hall p Hp) as [_ [Hb _]].
      apply list_max_le; [lia|]. intros v Hv. destruct (Hb v Hv); lia.
    + unfold overlap. destruct (mx =? 0); [reflexivity|]. destruct (zlen segs =? 1); [reflexivity|].
      destruct (existsb _ px) eqn:E; [|reflexivity]. exfalso.
      apply existsb_exists in E. destruct E as [p [Hp Hs]]. destruct (Hall p Hp) as [_ [_ Hz]]. lia.
Qed.

Lemma ctor4_accepts_iff segs d px :
  wf_dtype d -> zlen segs <= dtype_max d -> 1 <= dtype_max d -> segs <> [] ->
  (forall p v, In p px -> In v p -> 0 <= v) ->
  ((exists out, ctor_labelmap4 segs d px = Ok out) <-> forall p, In p px -> px_ok segs p) /\
  (forall k, ctor_labelmap4 segs d px = Err k -> k = "ValueError"%string).
Proof.
  intros Hd Hlen H1 Hne Hnn. pose proof (ctor4_checks segs px Hnn) as Hck. cbv zeta in Hck.
  unfold ctor_labelmap4.
  destruct (forallb _ px) eqn:Hshape; cbn [negb].
  2:{ split; [|intros k H; inversion H; reflexivity]. split; [intros [o H]; discriminate|].
      intros Hall. apply Hck in Hall. destruct Hall as [Hs _]. congruence. }
  destruct (1 <? list_max (map list_max px)) eqn:Hmx.
  { split; [|intros k H; inversion H; reflexivity]. split; [intros [o H]; discriminate|].
    intros Hall. apply Hck in Hall. destruct Hall as [_ [Hs _]]. congruence. }
  match goal with |- context [if ?ov then Err _ else _] => destruct ov eqn:Hov end.
  { split; [|intros k H; inversion H; reflexivity]. split; [intros [o H]; discriminate|].
    intros Hall. apply Hck in Hall. destruct Hall as [_ [_ Hs]]. congruence. }
  assert (Hall : forall p, In p px -> px_ok segs p) by (apply Hck; auto).
  assert (Hcomb : map (combine_px d (zlen segs)) px = map (fun p => if list_max p =? 0 then 0 else index_of 1 p + 1) px).
  { apply map_ext_in. intros p Hp. destruct (Hall p Hp) as [Hl [Hb _]]. rewrite <- Hl.
    apply combine_px_spec; auto; try lia. intro E; subst p. unfold zlen in Hl. cbn [length] in Hl.
    destruct segs; [congruence|cbn [length] in Hl; lia]. }
  rewrite Hcomb.
  destruct (zlist_eqb segs _); [split; [split; eauto|discriminate]|].
  unfold lookup_all. rewrite lookup_all_n_ok; [split; [split; eauto|discriminate]|].
  intros v Hv. apply in_map_iff in Hv. destruct Hv as [p [<- Hp]].
  unfold zlen. rewrite map_length. cbn [length].
  destruct (Hall p Hp) as [Hl [Hb _]].
  destruct (list_max p =? 0) eqn:E0; [lia|].
  destruct (list_max_binary p Hb) as [E|[E Hin]]; [lia|].
  pose proof (index_of_bound 1 p Hin). unfold zlen in *. lia.
Qed.

(* ------------------------------------------------------------------ *)
(* which reads are accepted: entry-point argument checks + uniqueness guard + missing-frame policy *)
Definition entry_args_ok (e : entry) (keys : list Z) : bool :=
  match e with
  | EInstance | EDimIdx => negb (zlen keys =? 0)
  | EFrame => negb (zlen keys =? 0) && forallb (fun k => 0 <? k) keys
  | EVolume | ETpm => true
  end.

Lemma read_accepts_iff e am st keys req o r :
  read e am st keys req o = Ok r <->
  (req <> [] /\ entry_args_ok e keys = true /\
   unique_frames (segtype_eqb (s_ty st) LABELMAP) (s_frames st) = true /\
   policy e am st keys = None /\ seg_frame st keys req o = Ok r).
Proof.
  unfold read, entry_args_ok.
  assert (Hreq : (zlen req =? 0) = true <-> req = []).
  { unfold zlen. destruct req; cbn [length]; split; intros H; try reflexivity; try discriminate; lia. }
  destruct (zlen req =? 0) eqn:E0.
  { split; [discriminate|]. intros [Hne _]. exfalso. apply Hne, Hreq. reflexivity. }
  assert (Hne : req <> []) by (intro E; apply Hreq in E; discriminate).
  destruct e; cbn [policy];
    destruct (zlen keys =? 0); destruct (forallb (fun k => 0 <? k) keys);
    destruct (unique_frames (segtype_eqb (s_ty st) LABELMAP) (s_frames st)); destruct am;
    cbn [negb andb];
    repeat match goal with |- context [if ?c then None else Some _] => destruct c end;
    (split; [intros H; try discriminate; repeat split; auto
            |intros [_ [H1 [H2 [H3 H4]]]]; try discriminate; auto]).
Qed.

(* FRACTIONAL, stacked: refused exactly when an argument check fails *)
Lemma fractional_stacked_refusals st keys req o :
  s_ty st = FRACTIONAL -> 1 <= s_maxfrac st <= 255 -> wf_values st (s_maxfrac st) -> wf_opts o ->
  o_combine o = false ->
  ((exists r, seg_frame st keys req o = Ok r) <-> args_ok st req o = true) /\
  (forall k, seg_frame st keys req o = Err k -> k = "ValueError"%string).
Proof.
  intros Hty Hmf Hw Ho Hc. destruct (args_ok st req o) eqn:Ea.
  2:{ rewrite (args_refused st keys req o Ea). split; [split; [intros [r H]; discriminate|discriminate]|].
      intros k H; inversion H; reflexivity. }
  unfold args_ok, out_dtype in Ea. unfold seg_frame. rewrite Hc, Hty in *. cbn [segtype_eqb andb negb] in *.
  rewrite !andb_true_r in *.
  set (d := match o_dtype o with Some d => d | None => _ end) in *.
  assert (Hd : wf_dtype d).
  { unfold d. destruct (o_dtype o) eqn:E; [apply Ho; exact E|]. destruct (o_rescale o); [exact I|apply unsigned_dtype_wf]. }
  destruct (forallb _ req); cbn [andb negb] in Ea |- *; [|discriminate].
  destruct (kind_ok d); cbn [andb negb] in Ea |- *; [|discriminate].
  destruct (dtype_max d <? _) eqn:Hcap; cbn [negb andb] in Ea; [discriminate|].
  destruct (o_rescale o) eqn:Hr; cbn [andb negb] in *.
  - destruct (is_float d); cbn [negb] in Ea |- *; [|discriminate].
    rewrite existsb3_false; [split; [split; eauto|discriminate]|].
    intros x y v Hx Hy Hv. apply in_map_iff in Hx. destruct Hx as [key [<- _]].
    apply in_map_iff in Hy. destruct Hy as [s [<- _]].
    rewrite (stack_col_exact st (DU 8) (s_maxfrac st)) in Hv; auto; [|cbn; lia|lia|cbn [dtype_max]; change (2 ^ 8) with 256; lia].
    pose proof (mask_bound st (s_maxfrac st) key s v ltac:(lia) Hw Hv). lia.
  - split; [split; eauto|discriminate].
Qed.

(* binary-valued FRACTIONAL, combined: as for BINARY objects *)
Lemma fractional_combined_refusals st keys req o :
  wf_fractional_binary st -> wf_opts o -> o_combine o = true ->
  (seg_frame st keys req o = Err "ValueError" <-> args_ok st req o = false) /\
  (forall k, seg_frame st keys req o = Err k -> k = "ValueError"%string \/
             (k = "RuntimeError"%string /\ o_skip o = false)) /\
  (args_ok st req o = true -> o_skip o = true -> exists r, seg_frame st keys req o = Ok r).
Proof.
  intros Hst Ho Hc. destruct (args_ok st req o) eqn:Ea.
  2:{ rewrite (args_refused st keys req o Ea). split; [tauto|]. split; [intros k H; inversion H; auto|discriminate]. }
  assert (Hty : s_ty st = FRACTIONAL) by (destruct Hst; assumption).
  assert (Hr : o_rescale o = true).
  { unfold args_ok in Ea. rewrite Hc, Hty in Ea. cbn [segtype_eqb andb negb] in Ea.
    destruct (o_rescale o); [reflexivity|]. cbn [negb andb] in Ea. rewrite !andb_false_r in Ea. discriminate. }
  rewrite (fractional_combine_as_binary st keys req o Hst Hc Hr).
  assert (Hab : args_ok (binarize st) req o = true).
  { unfold args_ok, out_dtype, max_output_val in *. rewrite Hc, Hr, Hty in Ea. rewrite Hc, Hr.
    cbn [binarize s_ty s_segs segtype_eqb andb negb] in *. rewrite !andb_true_r in *. exact Ea. }
  destruct (binary_refusals (binarize st) keys req o (binarize_wf st Hst) Ho) as [B1 [B2 B3]].
  split; [rewrite B1, Hab; tauto|]. split.
  - intros k H. destruct (B2 k H) as [->|[-> [_ Hs]]]; auto.
  - intros _ Hs. apply B3; auto.
Qed.

(* ------------------------------------------------------------------ *)
(* non-vacuity instances                                                *)
Definition ex_frac : stored :=
  mkStored FRACTIONAL [1; 2] 8 100 4 0
    [mkFrame 1 1 [100;0;0;0]; mkFrame 1 2 [0;100;100;0]; mkFrame 2 2 [0;0;0;100]] [1; 2].
Lemma example_fractional :
  wf_fractional_binary ex_frac /\ wf_stored ex_frac /\ NoDup [2; 1] /\
  read EInstance false ex_frac [2; 1] [2; 1] (mkOpts true true false true None) =
    Ok (DU 8, OComb [[0;0;0;1]; [2;1;1;0]]) /\
  read EInstance false ex_frac [1] [2; 1] (mkOpts true false false false None) = Err "ValueError" /\
  read EInstance false ex_frac [1; 3] [2; 1] (mkOpts true false false true None) = Err "KeyError" /\
  read_default EInstance true ex_frac [1; 3] (mkOpts false false false true None) =
    Ok (DF 32, OStackQ [[[100;0;0;0]; [0;100;100;0]]; [[0;0;0;0]; [0;0;0;0]]] 100).
Proof.
  split; [|split; [|split; [|repeat split; vm_compute; reflexivity]]].
  - split; [reflexivity|]. split; [cbn; lia|]. split.
    + intros f Hf. cbn in Hf.
      repeat (destruct Hf as [<-|Hf]; [split; [reflexivity|cbn; intros v Hv; intuition lia]|]). contradiction.
    + cbn. intros s Hs. intuition lia.
  - split; [cbn; lia|]. cbn [ex_frac s_ty]. intros f v Hf Hv. cbn in Hf.
    repeat (destruct Hf as [<-|Hf]; [cbn in Hv |- *; intuition lia|]). contradiction.
  - repeat constructor; cbn; intuition lia.
Qed.

Lemma example_construction :
  ctor_labelmap4 [5; 7; 300] (DU 16) [[0;1;0]; [1;0;0]; [0;0;0]; [0;0;1]] = Ok [7; 5; 0; 300] /\
  ctor_labelmap4 [1; 2] (DU 8) [[1;1]; [0;0]] = Err "ValueError" /\
  ctor_labelmap4 [1; 2] (DU 8) [[2;0]] = Err "ValueError" /\
  ctor_labelmap3 [5; 7] (DU 8) [0; 7; 5] = Ok [0; 7; 5] /\
  ctor_labelmap3 [5; 7] (DU 8) [0; 7; 6] = Err "ValueError".
Proof. repeat split; vm_compute; reflexivity. Qed.

Lemma example_repeated_request :
  seg_frame (mkStored LABELMAP [1; 7; 300] 16 1 4 0 [mkFrame 1 0 [0;7;300;7]] [1])
            [1] [7; 300; 7] (mkOpts false false false true None) =
  Ok (DU 8, OStack [[[0;1;0;1]; [0;0;1;0]; [0;1;0;1]]]).
Proof. vm_compute. reflexivity. Qed.

(* the two original non-vacuity instances (proofs moved here from C02_Props.v; statements unchanged) *)
Definition ex_bin : stored :=
  mkStored BINARY [1; 2; 3] 1 1 4 0
    [mkFrame 1 1 [1;0;0;0]; mkFrame 2 1 [0;1;0;0]; mkFrame 1 2 [0;1;1;0]; mkFrame 2 3 [0;1;0;1]] [1; 2; 3].
Lemma example_binary :
  wf_binary ex_bin /\ wf_opts (mkOpts true true false true None) /\
  seg_frame ex_bin [2; 1; 3] [2; 1] (mkOpts true true false true None) = Ok (DU 8, OComb [[0;2;0;0]; [2;1;1;0]; [0;0;0;0]]) /\
  seg_frame ex_bin [2] [3; 1] (mkOpts true false false true None) = Err "RuntimeError" /\
  seg_frame ex_bin [2] [3; 1] (mkOpts true false true true None) = Ok (DU 8, OComb [[0;3;0;3]]) /\
  seg_frame ex_bin [1; 2] [3; 1] (mkOpts false false false true (Some DBool)) =
    Ok (DBool, OStack [[[0;0;0;0]; [1;0;0;0]]; [[0;1;0;1]; [0;1;0;0]]]).
Proof.
  split; [|split; [|repeat split; reflexivity]].
  - split; [reflexivity|]. split.
    + intros f Hf. cbn in Hf.
      repeat (destruct Hf as [<-|Hf]; [split; [reflexivity|cbn; intros v Hv; intuition lia]|]). contradiction.
    + cbn. intros s Hs. intuition lia.
  - intros d Hd. discriminate.
Qed.

Definition ex_lm : stored :=
  mkStored LABELMAP [1; 7; 300; 65535] 16 1 4 0
    [mkFrame 1 0 [0;7;300;65535]; mkFrame 3 0 [1;1;0;65535]] [1; 2; 3].
Lemma example_labelmap :
  wf_labelmap ex_lm /\
  seg_frame ex_lm [3; 2; 1] [65535; 7] (mkOpts true false false true None) =
    Ok (DU 16, OComb [[0;0;0;65535]; [0;0;0;0]; [0;7;0;65535]]) /\
  seg_frame ex_lm [1] [65535; 7] (mkOpts true true false true None) = Ok (DU 8, OComb [[0;2;0;1]]) /\
  seg_frame ex_lm [1] [300; 65535] (mkOpts false false false true None) = Ok (DU 8, OStack [[[0;0;1;0]; [0;0;0;1]]]) /\
  seg_frame ex_lm [1] [300; 65535] (mkOpts true false false true (Some (DU 8))) = Err "ValueError".
Proof.
  split; [|repeat split; vm_compute; reflexivity].
  split; [reflexivity|]. split; [cbn; lia|]. split.
  - cbn. intros s Hs. change (2 ^ 16) with 65536. intuition lia.
  - intros f v Hf Hv. cbn in Hf.
    repeat (destruct Hf as [<-|Hf]; [cbn in Hv |- *; intuition lia|]). contradiction.
Qed.
