(* C16 - accessor identities (second proofs file). *)
From Coq Require Import String ZArith List Bool Lia.
From HD Require Import Base.Val C16_Model C16_Proofs.
Import ListNotations.
Open Scope Z_scope.

Ltac ev2 := repeat (progress (unfold vt_eqb, rt_eqb, is_rel_item, eval_excluded; ev; cbv beta iota)).

Definition name_sel (name : option Z) (p : Z * Z) : bool := opt_ok name (fst p).

Lemma filter_map_sel {A} (p : item -> bool) (q : A -> bool) (f : A -> item) l :
  (forall x, In x l -> p (f x) = q x) -> filter p (map f l) = map f (filter q l).
Proof.
  induction l as [|a l IH]; intros H; cbn [map filter]; [reflexivity|].
  rewrite (H a (or_introl eq_refl)). destruct (q a); cbn [map]; rewrite IH; auto; intros x Hx; apply H; now right.
Qed.

Lemma acc_measurements_build g name : wf g = true ->
  acc_measurements (build g) name = filter (name_sel name) (g_meas g).
Proof.
  intros Hw. unfold acc_measurements, find_items.
  rewrite kids_build, filter_app. unfold common_items. rewrite !filter_app, !filter_opt_item.
  rewrite (filter_map_none _ _ (g_sites g)) by (intros; ev; now rewrite andb_false_r).
  rewrite (filter_map_none _ _ (g_evals g)) by (intros; ev; now rewrite andb_false_r).
  rewrite (filter_map_sel _ (name_sel name) _ (g_meas g)).
  2:{ intros m _. unfold name_sel. destruct name; ev2; rewrite ?andb_true_r; reflexivity. }
  rewrite (filter_none _ (ref_items _)).
  2:{ intros x Hx. apply ref_items_vt in Hx as [_ [H _]]. cbn [has_vt]. rewrite H. now rewrite andb_false_r. }
  rewrite !map_app, map_map. cbn [nm v1 leaf].
  rewrite (map_ext _ (fun x => x)) by (now intros []). rewrite map_id.
  destruct name, (g_session g), (g_category g), (g_finding g), (g_method g), (g_tptype g), (g_geom g);
    cbn [filter has_name has_vt has_rl nm vt rl leaf]; ev2; rewrite ?andb_false_r; cbn [andb];
    cbv beta iota; cbn [filter map app]; rewrite ?app_nil_r; reflexivity.
Qed.

Lemma acc_evaluations_build g name : wf g = true ->
  acc_evaluations (build g) name = filter (name_sel name) (g_evals g).
Proof.
  intros Hw. unfold acc_evaluations, find_items. rewrite kids_build. rewrite filter_app.
  rewrite (filter_none _ (ref_items _)).
  2:{ intros x Hx. apply ref_items_vt in Hx as [H _]. cbn [has_vt]. rewrite H. now rewrite andb_false_r. }
  rewrite app_nil_r. unfold common_items. rewrite !filter_app.
  rewrite (filter_map_none _ _ (g_sites g)) by (intros; ev2; now rewrite andb_false_r).
  rewrite (filter_map_none _ _ (g_meas g)) by (intros; ev2; now rewrite andb_false_r).
  rewrite (filter_map_sel _ (name_sel name) _ (g_evals g)).
  2:{ intros m _. unfold name_sel. destruct name; ev2; rewrite ?andb_true_r; reflexivity. }
  rewrite (filter_all _ (map _ (filter _ (g_evals g)))).
  2:{ intros x Hx. apply in_map_iff in Hx as [e [<- He]]. apply filter_In in He as [He _].
      apply (wf_evals _ _ Hw) in He. ev2. zb. }
  rewrite !map_app, map_map. cbn [nm v1 leaf].
  rewrite (map_ext _ (fun x => x)) by (now intros []). rewrite map_id.
  destruct name, (g_session g), (g_category g), (g_finding g), (g_method g), (g_tptype g), (g_geom g);
    cbn [opt_item];
    repeat (cbn [filter has_name has_vt has_rl nm vt rl leaf map app]; ev2; rewrite ?andb_false_r; cbn [andb];
            cbv beta iota;
            try match goal with |- context[Z.eqb ?a ?b] => destruct (Z.eqb_spec a b); subst end);
    rewrite ?app_nil_r; reflexivity.
Qed.

(* ---- reference_type ------------------------------------------------------------------ *)
Lemma allowed_range allowed x : allowed = allowed_planar \/ allowed = allowed_volumetric ->
  mem x allowed = true -> 9 <= x <= 13.
Proof.
  intros [->| ->]; unfold allowed_planar, allowed_volumetric, mem, cImageRegion, cRefSegFrame, cRegionInSpace,
    cRefSegment, cVolumeSurface; cbn [existsb]; intros H;
    repeat (apply orb_true_iff in H as [H|H]; [apply Z.eqb_eq in H; lia|]); discriminate.
Qed.

Lemma common_not_allowed g allowed : wf g = true -> allowed = allowed_planar \/ allowed = allowed_volumetric ->
  filter (fun i => mem (nm i) allowed) (common_items g) = [].
Proof.
  intros Hw Ha. apply filter_none.
  assert (Hn : forall n, (n < 9 \/ 13 < n) -> mem n allowed = false).
  { intros n Hn. destruct (mem n allowed) eqn:E; [|reflexivity]. apply (allowed_range _ _ Ha) in E. lia. }
  apply common_items_ind; intros; cbn [nm leaf]; apply Hn;
    unfold cTrackingIdentifier, cTrackingUID, cSession, cFindingCategory, cFinding, cMethod, cFindingSite,
      cTimePoint, cTimePointType, cGeomPurpose; try lia.
  - apply (wf_meas _ _ Hw) in H. lia.
  - apply (wf_evals _ _ Hw) in H. lia.
Qed.

Lemma acc_reference_type_planar g : wf g = true -> g_kind g = Planar ->
  acc_reference_type allowed_planar (build g) = Ok (ref_code (g_ref g)).
Proof.
  intros Hw Hk. pose proof (wf_ref_ok g Hw) as Hr. rewrite Hk in Hr.
  unfold acc_reference_type. rewrite kids_build, filter_app, common_not_allowed by auto.
  destruct (g_ref g) as [gt c i|gt|c i sc si|rs|c i so|gt n so|c i|l]; cbn [ref_ok] in Hr; try discriminate; reflexivity.
Qed.

Lemma acc_reference_type_volumetric g : wf g = true -> g_kind g = Volumetric ->
  acc_reference_type allowed_volumetric (build g) = Ok (ref_code (g_ref g)).
Proof.
  intros Hw Hk. pose proof (wf_ref_ok g Hw) as Hr. rewrite Hk in Hr.
  unfold acc_reference_type. rewrite kids_build, filter_app, common_not_allowed by auto.
  destruct (g_ref g) as [gt c i|gt|c i sc si|rs|c i so|gt n so|c i|l]; cbn [ref_ok] in Hr; try discriminate.
  - destruct rs; [discriminate|reflexivity].
  - reflexivity.
  - apply andb_true_iff in Hr as [Hn _]. destruct n; [discriminate|reflexivity].
  - reflexivity.
Qed.

(* ---- region / segment accessors --------------------------------------------------------- *)
Definition planar_roi_of (r : gref) : planar_roi :=
  match r with Region2D gt c i => PR2 gt c i | Region3D gt => PR3 gt | _ => PRNone end.
Definition segframe_of (r : gref) : option (Z * Z * (Z * Z)) :=
  match r with SegFrame c i sc si => Some (c, i, (sc, si)) | _ => None end.
Definition vol_roi_of (r : gref) : vol_roi :=
  match r with
  | Regions rs => VRRegions rs
  | Surface gt n so => VRSurface gt (Z.of_nat n) so
  | _ => VRNone
  end.
Definition segment_of (r : gref) : option (Z * Z * sources) :=
  match r with Segment c i so => Some (c, i, so) | _ => None end.

Lemma filter_common_high p g : (forall i, low_vt (vt i) = true -> p i = false) -> filter p (common_items g) = [].
Proof. intros H. apply filter_none. intros x Hx. apply H. now apply common_low in Hx. Qed.

Ltac low_side := let x := fresh "x" in let Hx := fresh "Hx" in
                 intros x Hx; unfold vt_eqb, is_rel_item; cbn [has_vt has_name has_rl]; unfold vt_eqb;
                 destruct (vt x); try discriminate; cbn; now rewrite ?andb_false_r.

Lemma acc_planar_roi_build g : wf g = true -> g_kind g = Planar -> acc_planar_roi (build g) = planar_roi_of (g_ref g).
Proof.
  intros Hw Hk. pose proof (wf_ref_ok g Hw) as Hr. rewrite Hk in Hr.
  unfold acc_planar_roi, find_items. rewrite kids_build, !filter_app.
  rewrite !filter_common_high by low_side.
  destruct (g_ref g) as [gt c i|gt|c i sc si|rs|c i so|gt n so|c i|l]; cbn [ref_ok] in Hr; try discriminate; reflexivity.
Qed.

Lemma acc_segframe_build g : wf g = true -> g_kind g = Planar -> acc_segframe (build g) = Ok (segframe_of (g_ref g)).
Proof.
  intros Hw Hk. pose proof (wf_ref_ok g Hw) as Hr. rewrite Hk in Hr.
  unfold acc_segframe. rewrite acc_reference_type_planar by assumption. cbn [bind].
  rewrite kids_build, !filter_app. rewrite !filter_common_high by low_side.
  destruct (g_ref g) as [gt c i|gt|c i sc si|rs|c i so|gt n so|c i|l]; cbn [ref_ok] in Hr; try discriminate; reflexivity.
Qed.

Lemma acc_source_images_build g : wf g = true -> g_kind g = ImageK ->
  acc_source_images (build g) = match g_ref g with SourceImgs l => l | _ => [] end.
Proof.
  intros Hw Hk. pose proof (wf_ref_ok g Hw) as Hr. rewrite Hk in Hr.
  unfold acc_source_images, find_items. rewrite kids_build, !filter_app. rewrite !filter_common_high by low_side.
  destruct (g_ref g) as [gt c i|gt|c i sc si|rs|c i so|gt n so|c i|l]; cbn [ref_ok] in Hr; try discriminate.
  cbn [ref_items app]. rewrite filter_map_all by reflexivity. rewrite map_map. cbn [v1 v2 leaf].
  rewrite (map_ext _ (fun x => x)) by (now intros []). now rewrite map_id.
Qed.

Lemma is_rel_vt_false n v i : vt_eqb (vt i) v = false -> is_rel_item n v i = false.
Proof. intros H. unfold is_rel_item. rewrite H. now rewrite andb_false_r. Qed.

Lemma split_sources_build g so : sources_ok so = true ->
  split_sources (common_items g ++ source_items so) = Ok so.
Proof.
  intros Hs. unfold split_sources. rewrite !filter_app.
  rewrite (filter_common_high (is_rel_item cSrcImgSeg IMAGE)) by low_side.
  rewrite (filter_none _ (common_items g)).
  2:{ apply common_items_ind; intros; try reflexivity;
      rewrite (is_rel_vt_false cSrcSeriesSeg UIDREF) by reflexivity; now rewrite andb_false_r. }
  destruct so as [l|u]; cbn [source_items app].
  - rewrite filter_map_all by reflexivity. rewrite filter_map_none by reflexivity.
    destruct l as [|x l]; [discriminate|]. cbn [map]. rewrite map_map. cbn [v1 v2 leaf].
    rewrite (map_ext _ (fun x => x)) by (now intros []). rewrite map_id. now destruct x.
  - reflexivity.
Qed.

Lemma regions_back rs :
  map (fun r => (v1 r, match kids r with s :: _ => (v1 s, v2 s) | [] => (-1, -1) end)) (map region_item rs) = rs.
Proof.
  rewrite map_map. rewrite (map_ext _ (fun x => x)); [apply map_id|]. now intros [gt [c i]].
Qed.

Lemma all_same_gt_repeat x n : all_same_gt (repeat x (S n)) = true.
Proof.
  unfold all_same_gt. cbn [repeat]. apply forallb_forall. intros y Hy.
  change (x :: repeat x n) with (repeat x (S n)) in Hy. apply repeat_spec in Hy. subst. apply Z.eqb_refl.
Qed.

Lemma acc_vol_roi_build g : wf g = true -> g_kind g = Volumetric -> acc_vol_roi (build g) = Ok (vol_roi_of (g_ref g)).
Proof.
  intros Hw Hk. pose proof (wf_ref_ok g Hw) as Hr. rewrite Hk in Hr.
  unfold acc_vol_roi. rewrite acc_reference_type_volumetric by assumption. cbn [bind].
  unfold find_items. rewrite !kids_build.
  destruct (g_ref g) as [gt c i|gt|c i sc si|rs|c i so|gt n so|c i|l]; cbn [ref_ok] in Hr; try discriminate;
    cbn [ref_code vol_roi_of].
  - (* Regions *)
    change (cImageRegion =? cImageRegion) with true. cbv iota.
    rewrite filter_app. rewrite filter_common_high by low_side.
    cbn [ref_items app]. rewrite filter_map_all by reflexivity. now rewrite regions_back.
  - reflexivity.
  - (* Surface *)
    apply andb_true_iff in Hr as [Hn Hs]. destruct n as [|n]; [discriminate|].
    change (cVolumeSurface =? cImageRegion) with false. change (cVolumeSurface =? cVolumeSurface) with true. cbv iota.
    cbn [ref_items]. rewrite !filter_app.
    rewrite (filter_common_high (is_rel_item cVolumeSurface SCOORD3D)) by low_side.
    rewrite (filter_all _ (common_items g)).
    2:{ intros x Hx. apply common_low in Hx. unfold is_rel_item, vt_eqb. destruct (vt x); try discriminate; cbn;
        now rewrite ?andb_false_r. }
    rewrite (filter_all (is_rel_item cVolumeSurface SCOORD3D) (repeat _ _))
      by (intros x Hx; apply repeat_spec in Hx; now subst).
    rewrite (filter_none _ (repeat _ _)) by (intros x Hx; apply repeat_spec in Hx; now subst).
    rewrite (filter_none (is_rel_item cVolumeSurface SCOORD3D) (source_items so)).
    2:{ intros x Hx. destruct so; cbn [source_items] in Hx;
        [apply in_map_iff in Hx as [y [<- _]]|destruct Hx as [<-|[]]]; reflexivity. }
    rewrite (filter_all _ (source_items so)).
    2:{ intros x Hx. destruct so; cbn [source_items] in Hx;
        [apply in_map_iff in Hx as [y [<- _]]|destruct Hx as [<-|[]]]; reflexivity. }
    cbn [app]. rewrite app_nil_r. rewrite all_same_gt_repeat. cbn [negb].
    rewrite split_sources_build by assumption. cbn [bind repeat v1 leaf].
    cbn [length]. rewrite repeat_length. reflexivity.
  - reflexivity.
Qed.

Lemma acc_segment_build g : wf g = true -> g_kind g = Volumetric -> acc_segment (build g) = Ok (segment_of (g_ref g)).
Proof.
  intros Hw Hk. pose proof (wf_ref_ok g Hw) as Hr. rewrite Hk in Hr.
  unfold acc_segment. rewrite acc_reference_type_volumetric by assumption. cbn [bind].
  rewrite !kids_build.
  destruct (g_ref g) as [gt c i|gt|c i sc si|rs|c i so|gt n so|c i|l]; cbn [ref_ok] in Hr; try discriminate;
    cbn [ref_code segment_of]; try reflexivity.
  change (cRefSegment =? cRefSegment) with true. cbv iota.
  cbn [ref_items].
  change (leaf cRefSegment IMAGE CONTAINS c i :: source_items so) with ([leaf cRefSegment IMAGE CONTAINS c i] ++ source_items so).
  rewrite !filter_app.
  rewrite (filter_common_high (is_rel_item cRefSegment IMAGE)) by low_side.
  rewrite (filter_all _ (common_items g)).
  2:{ intros x Hx. apply common_low in Hx. unfold is_rel_item, vt_eqb. destruct (vt x); try discriminate; cbn;
      now rewrite ?andb_false_r. }
  rewrite (filter_none (is_rel_item cRefSegment IMAGE) (source_items so)).
  2:{ intros x Hx. destruct so; cbn [source_items] in Hx;
      [apply in_map_iff in Hx as [y [<- _]]|destruct Hx as [<-|[]]]; reflexivity. }
  rewrite (filter_all _ (source_items so)).
  2:{ intros x Hx. destruct so; cbn [source_items] in Hx;
      [apply in_map_iff in Hx as [y [<- _]]|destruct Hx as [<-|[]]]; reflexivity. }
  cbn [filter app]. change (is_rel_item cRefSegment IMAGE (leaf cRefSegment IMAGE CONTAINS c i)) with true.
  cbn [negb]. cbv iota. cbn [app].
  rewrite split_sources_build by assumption. reflexivity.
Qed.

(* ---- bundles used by C16_Props ------------------------------------------------------------ *)
Lemma filter_name_sel_none {A} (l : list (Z * A)) : filter (fun _ => true) l = l.
Proof. apply filter_all. reflexivity. Qed.

Lemma accessors_identity g mname ename : wf g = true ->
  acc_tracking_uid (build g) = Some (g_tuid g) /\
  acc_tracking_identifier (build g) = Some (g_tid g) /\
  acc_finding_type (build g) = g_finding g /\
  acc_finding_category (build g) = g_category g /\
  acc_method (build g) = g_method g /\
  acc_finding_sites (build g) = g_sites g /\
  acc_measurements (build g) None = g_meas g /\
  acc_evaluations (build g) None = g_evals g /\
  acc_measurements (build g) (Some mname) = filter (fun m => fst m =? mname) (g_meas g) /\
  acc_evaluations (build g) (Some ename) = filter (fun e => fst e =? ename) (g_evals g).
Proof.
  intros Hw.
  refine (conj _ (conj _ (conj _ (conj _ (conj _ (conj _ (conj _ (conj _ (conj _ _))))))))).
  - apply acc_tracking_uid_build.
  - apply acc_tracking_identifier_build.
  - now apply acc_finding_type_build.
  - now apply acc_finding_category_build.
  - now apply acc_method_build.
  - now apply acc_finding_sites_build.
  - rewrite acc_measurements_build by assumption. apply filter_all. reflexivity.
  - rewrite acc_evaluations_build by assumption. apply filter_all. reflexivity.
  - now apply acc_measurements_build.
  - now apply acc_evaluations_build.
Qed.

Lemma accessors_identity_planar g : wf g = true -> g_kind g = Planar ->
  acc_reference_type allowed_planar (build g) = Ok (ref_code (g_ref g)) /\
  acc_planar_roi (build g) = planar_roi_of (g_ref g) /\
  acc_segframe (build g) = Ok (segframe_of (g_ref g)).
Proof.
  intros Hw Hk. refine (conj _ (conj _ _));
    [now apply acc_reference_type_planar | now apply acc_planar_roi_build | now apply acc_segframe_build].
Qed.

Lemma accessors_identity_volumetric g : wf g = true -> g_kind g = Volumetric ->
  acc_reference_type allowed_volumetric (build g) = Ok (ref_code (g_ref g)) /\
  acc_vol_roi (build g) = Ok (vol_roi_of (g_ref g)) /\
  acc_segment (build g) = Ok (segment_of (g_ref g)).
Proof.
  intros Hw Hk. refine (conj _ (conj _ _));
    [now apply acc_reference_type_volumetric | now apply acc_vol_roi_build | now apply acc_segment_build].
Qed.

Lemma incompatible_filters_refused root f : gfilter_in_enum (f_gt f) = true ->
  (can_apply Planar f = false -> exists e, get_planar root f = Err e) /\
  (can_apply Volumetric f = false -> exists e, get_volumetric root f = Err e).
Proof.
  intros He. split; intros H.
  - destruct (cannot_apply_refused_planar f He H) as [e E]. exists e. now apply planar_refusal.
  - destruct (cannot_apply_refused_volumetric f He H) as [e E]. exists e. now apply volumetric_refusal.
Qed.

(* what the correspondence run observes (run_queries): the tracking identifiers of the answer *)
Lemma positions_build l : positions (Ok (map build l)) = VL (map (fun g => VZ (g_tid g)) l).
Proof. unfold positions, vres. f_equal. rewrite map_map. apply map_ext. reflexivity. Qed.

Lemma run_queries_exact pre gs f : no_im pre = true -> Forall good gs ->
  check_planar f = Ok tt -> check_volumetric f = Ok tt ->
  run_queries pre gs f =
  VL [VL (map (fun g => VZ (g_tid g)) (filter (fun g => kind_eqb (g_kind g) Planar && sat f g) gs));
      VL (map (fun g => VZ (g_tid g)) (filter (fun g => kind_eqb (g_kind g) Volumetric && sat f g) gs));
      VL (map (fun g => VZ (g_tid g)) (filter (fun g => kind_eqb (g_kind g) ImageK && sat_image f g) gs))].
Proof.
  intros Hp Hg H1 H2. unfold run_queries, run_tree_queries, query.
  rewrite query_exact_planar, query_exact_volumetric, query_exact_image by assumption.
  now rewrite !positions_build.
Qed.
