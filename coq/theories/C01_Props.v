(* C01 - property theorems.  Statements, `exact <lemma>`, Print Assumptions. *)
From Coq Require Import String ZArith List Bool Permutation Sorted.
From HD Require Import Base.Val C01_Model C01_Proofs C01_Proofs_Frames C01_Proofs_Lut C01_Proofs_Value C01_Proofs_Full
  C01_Proofs_Hist C01_Proofs_Ext C01_Proofs_Sched C01_Proofs_Accept C01_Proofs_Tiled C01_Proofs_Pos.
Import ListNotations.
Open Scope Z_scope.

(* the BINARY frame loop with the remainder_pixels carry (and the no-carry
   branch for frame sizes divisible by 8) writes exactly one global LSB-first
   packing of all frames, for EVERY frame size n >= 1 (incl. n < 8) *)
Theorem C01_pack_loop_is_global_pack : forall n (fs : list (list bool)),
  1 <= n -> (forall f, In f fs -> zlen f = n) ->
  bin_pixel_data n fs = pack_bits (concat fs).
Proof. exact pack_loop_is_global_pack. Qed.
Print Assumptions C01_pack_loop_is_global_pack.

(* get_raw_frame's byte range + decode_frame's bit offset recover frame i from
   the packed bytes, whatever trailing pad bytes follow *)
Theorem C01_raw_frame_unpack : forall n (fs : list (list bool)) i pad,
  1 <= n -> (forall f, In f fs -> zlen f = n) -> 0 <= i < zlen fs ->
  let bytes := pack_bits (concat fs) ++ pad in
  let '(a, b) := raw_range 1 n i in
  firstn (Z.to_nat n) (skipn (Z.to_nat ((i * n) mod 8)) (unpack_bits (slice a b bytes)))
  = nth (Z.to_nat i) fs [].
Proof. exact raw_frame_unpack. Qed.
Print Assumptions C01_raw_frame_unpack.

(* the lazy reader's (offset, length) is exactly the eager byte range *)
Theorem C01_lazy_range_is_raw_range : forall bits n i,
  (bits = 1 \/ bits = 8 \/ bits = 16) -> 1 <= n -> 0 <= i ->
  let '(a, b) := raw_range bits n i in
  let '(o, l) := lazy_range bits n i in
  o = a /\ o + l = b.
Proof. exact lazy_range_is_raw_range. Qed.
Print Assumptions C01_lazy_range_is_raw_range.

(* fractional quantisation is round-half-even of x * max_fractional_value *)
Theorem C01_quantisation_is_round_half_even : forall a b, 0 < b ->
  nearest_even a b (rhe a b) /\ (forall v, nearest_even a b v -> v = rhe a b).
Proof. intros a b Hb. split; [now apply rhe_is_nearest_even | intros v; now apply rhe_unique]. Qed.
Print Assumptions C01_quantisation_is_round_half_even.

Example C01_nonvacuous_pack :
  bin_pixel_data 3 [[true; false; true]; [true; true; false]; [false; false; true]] = [29; 1]
  /\ raw_range 1 3 2 = (0, 2) /\ rhe 5 2 = 2 /\ rhe 7 2 = 4.
Proof. vm_compute. repeat split. Qed.
Print Assumptions C01_nonvacuous_pack.

(* every stored frame reads back as itself from native PixelData: 1-bit frames
   through the global packing (any frame size), 8- and 16-bit frames through
   their byte ranges; the eager byte range and the lazy reader's
   (offset, length) give the same bytes *)
Theorem C01_stored_frame_correct : forall c (fs : list frame) meta dec lazy i,
  native c = true -> 1 <= npix c ->
  (forall f, In f fs -> frame_ok c (f_pix f)) ->
  0 <= i < zlen fs ->
  stored_frame lazy (Stored c meta (pixel_data c fs) dec) i
  = f_pix (nth (Z.to_nat i) fs (Frame 0 0 [])).
Proof. exact stored_frame_correct. Qed.
Print Assumptions C01_stored_frame_correct.

(* the frame look-up returns a frame that holds exactly the plane the
   constructor derived for (segment, source plane) *)
Theorem C01_lookup_returns_segment_plane : forall c a order om s j i,
  find_from 0 (s, j) (map key_of (frames_of c a order om)) = Some i ->
  0 <= i < zlen (frames_of c a order om) /\
  f_pix (nth (Z.to_nat i) (frames_of c a order om) (Frame 0 0 [])) = seg_plane c a s j.
Proof. exact lookup_returns_segment_plane. Qed.
Print Assumptions C01_lookup_returns_segment_plane.

(* omitted empty frames: a (segment, plane) pair has no stored frame iff it was
   skipped, and a skipped plane is all zero (so reading zeros is right) *)
Theorem C01_omit_reads_zero : forall c a order om s j,
  In s (seg_iter c) -> In j order ->
  (find_from 0 (s, j) (map key_of (frames_of c a order om)) = None <-> kept c a om s j = false) /\
  (kept c a om s j = false ->
     s <> 0 /\ om = true /\ seg_plane c a s j = zeros (zlen (seg_plane c a s j))).
Proof.
  intros c a order om s j Hs Hj. split; [now apply lookup_none_iff|].
  intros H. split; [|split; [|now apply (kept_false_zero c a om)]].
  - unfold kept in H. destruct (s =? 0) eqn:E; [discriminate|]. intros ->. discriminate.
  - unfold kept in H. destruct om; [reflexivity|]. rewrite andb_false_r in H. discriminate.
Qed.
Print Assumptions C01_omit_reads_zero.

(* planes dropped by _get_nonempty_plane_indices are empty in the input *)
Theorem C01_not_included_empty : forall c a inc om j,
  included c a = (inc, om) -> 0 <= j < carr_planes a -> memz j inc = false ->
  plane_nonempty c a j = false.
Proof. exact not_included_empty. Qed.
Print Assumptions C01_not_included_empty.

(* building block of the full theorem below: the round trip of one
   (segment, source plane) pair through the stored object *)
Theorem C01_roundtrip_partial : forall c i perm st a inc om lazy s j,
  construct c i perm = Ok st -> check_and_cast c i = Ok a -> included c a = (inc, om) ->
  1 <= npix c ->
  (native c = true -> forall s' j', In s' (seg_iter c) -> In j' perm -> frame_ok c (seg_plane c a s' j')) ->
  zlen (seg_plane c a s j) = npix c ->
  In s (seg_iter c) -> In j perm -> memz j inc = true ->
  match find_frame st s j with
  | Some k => stored_frame lazy st k
  | None => zeros (npix c)
  end = seg_plane c a s j.
Proof. exact read_segment_plane. Qed.
Print Assumptions C01_roundtrip_partial.

(* finding D61 (fixed in the code, re-modelled): a valid FRACTIONAL float mask
   whose values all round to 0, with omission on, keeps all frames and reads
   back as zeros *)
Example C01_all_rounds_to_zero_fallback :
  let c := Cfg FRACTIONAL DFloat 4 1 true [1] 1 2 1 2 2 true in
  let i := Stack [[[1]; [0]]; [[0]; [1]]] in
  (exists st, construct c i [1; 0] = Ok st /\ s_meta st = [(1, 1); (1, 0)]) /\
  spec_holds c i [1; 0] false = true /\ expected c i = [[[0]; [0]]; [[0]; [0]]].
Proof. exact all_rounds_to_zero_fallback. Qed.
Print Assumptions C01_all_rounds_to_zero_fallback.

(* non-vacuity: concrete masks (BINARY 3 planes of 3 pixels, shuffled order,
   omission on, one empty plane; 16-bit LABELMAP; FRACTIONAL float with a tie)
   satisfy the hypotheses and read back as the specification says *)
Example C01_nonvacuous_roundtrip :
  let c1 := Cfg BINARY DInt 1 1 true [1; 2] 1 3 1 3 3 true in
  let i1 := Stack [[[1;0];[0;0];[0;1]]; [[0;0];[0;0];[0;0]]; [[0;1];[1;0];[1;0]]] in
  let c2 := Cfg LABELMAP DInt 1 1 false [2; 300] 1 3 1 3 2 true in
  let i2 := Label [[0;300;2]; [2;2;0]] in
  let c3 := Cfg FRACTIONAL DFloat 2 3 true [1] 1 3 1 3 1 true in
  let i3 := Stack [[[1];[2];[0]]] in
  spec_holds c1 i1 [2;0;1] false = true /\ spec_holds c2 i2 [1;0] false = true /\
  spec_holds c3 i3 [0] false = true /\
  (exists st, construct c1 i1 [2;0;1] = Ok st /\ s_bytes st = [78; 8] /\
              find_frame st 2 1 = None /\ find_frame st 2 0 = Some 3) /\
  expected c3 i3 = [[[2];[3];[0]]].
Proof. vm_compute. repeat split. eexists. repeat split. Qed.
Print Assumptions C01_nonvacuous_roundtrip.

(* ------------------------------------------------------------------ *)
(* the full round trip                                                   *)
(* ------------------------------------------------------------------ *)
(* residue 1: for valid inputs the plane derived by _check_and_cast_pixel_array
   + _get_segment_pixel_array is the specification, for every dtype and layout
   (BINARY / FRACTIONAL; the value also fits the allocated bits) *)
Theorem C01_seg_plane_is_expected : forall c i a j k p,
  valid c i = true -> check_and_cast c i = Ok a -> ty c <> LABELMAP ->
  0 <= j < nsrc c -> 0 <= k < zlen (segs c) -> 0 <= p < npix c ->
  nthz p (seg_plane c a (nthz k (segs c) 0) j) 0 = expected_pixel c i j p k /\
  value_range c (expected_pixel c i j p k).
Proof. exact seg_plane_expected. Qed.
Print Assumptions C01_seg_plane_is_expected.

(* ... and for LABELMAP (label maps, and 4-D stacks through _combine_segments +
   the segment-number mapping): the stored label is a described segment or 0
   and its one-hot expansion is the specification *)
Theorem C01_label_plane_is_expected : forall c i a j p,
  valid c i = true -> check_and_cast c i = Ok a -> ty c = LABELMAP ->
  0 <= j < nsrc c -> 0 <= p < npix c ->
  let L := nthz p (seg_plane c a 0 j) 0 in
  In L (0 :: segs c) /\
  forall k, 0 <= k < zlen (segs c) ->
    (if remap_from 1 L (segs c) =? k + 1 then 1 else 0) = expected_pixel c i j p k.
Proof. exact label_plane_expected. Qed.
Print Assumptions C01_label_plane_is_expected.

(* residue 2: every derived plane has Rows*Columns values that fit the allocated
   bits (0/1; <= 255; <= 255 or <= 65535 according to the largest segment number) *)
Theorem C01_frame_ok_valid : forall c i a s j,
  valid c i = true -> check_and_cast c i = Ok a -> In s (seg_iter c) -> 0 <= j < nsrc c ->
  frame_ok c (seg_plane c a s j).
Proof. exact frame_ok_valid. Qed.
Print Assumptions C01_frame_ok_valid.

(* every fetch - stored frame or omitted empty plane, eager or lazy - is the derived plane *)
Theorem C01_fetch_correct : forall c i perm st a lazy s j,
  valid c i = true -> Permutation perm (zrange (nsrc c)) ->
  construct c i perm = Ok st -> check_and_cast c i = Ok a ->
  In s (seg_iter c) -> 0 <= j < nsrc c ->
  fetch lazy st s j = seg_plane c a s j.
Proof. exact fetch_correct. Qed.
Print Assumptions C01_fetch_correct.

(* THE PROPERTY: whatever valid mask is stored (any type, layout, dtype, frame
   size, omission setting; any plane sort permutation), reading all source
   instances in the order supplied returns the specification [expected] - the
   input, fractional values rounded half-even to the stored quantisation - from
   the in-memory / eagerly read object (lazy = false) and from the lazy reader
   (lazy = true); native syntaxes through the modelled bytes, encapsulated
   syntaxes through the decoded frame list (codec premise K) *)
Theorem C01_roundtrip : forall c i perm st,
  valid c i = true -> Permutation perm (zrange (nsrc c)) -> construct c i perm = Ok st ->
  forall lazy, read_by_instance lazy st (zrange (nsrc c)) false = Ok (expected c i).
Proof. exact roundtrip. Qed.
Print Assumptions C01_roundtrip.

(* the same through get_pixels_by_source_frame for a multi-frame source *)
Theorem C01_roundtrip_by_frame : forall c i perm st,
  valid c i = true -> Permutation perm (zrange (nsrc c)) -> construct c i perm = Ok st ->
  forall lazy, read_by_frame lazy st (one_to (nsrc c)) true = Ok (expected c i).
Proof. exact roundtrip_by_frame. Qed.
Print Assumptions C01_roundtrip_by_frame.

(* the constructor accepts every valid input that has at least one described
   segment (and max_fractional_value >= 1 for FRACTIONAL): no ValueError /
   TypeError, and at least one frame is left to store (no IndexError) *)
Theorem C01_construct_succeeds : forall c i perm,
  valid c i = true -> Permutation perm (zrange (nsrc c)) ->
  1 <= zlen (segs c) -> (ty c = FRACTIONAL -> 1 <= maxfrac c) ->
  exists st, construct c i perm = Ok st.
Proof. exact construct_succeeds. Qed.
Print Assumptions C01_construct_succeeds.

(* THE PROPERTY, unconditional form: a valid mask is accepted and read back as
   the specification, eagerly and lazily *)
Theorem C01_roundtrip_total : forall c i perm,
  valid c i = true -> Permutation perm (zrange (nsrc c)) ->
  1 <= zlen (segs c) -> (ty c = FRACTIONAL -> 1 <= maxfrac c) ->
  exists st, construct c i perm = Ok st /\
    forall lazy, read_by_instance lazy st (zrange (nsrc c)) false = Ok (expected c i) /\
                 read_by_frame lazy st (one_to (nsrc c)) true = Ok (expected c i).
Proof.
  intros c i perm Hv Hp HS Hm. destruct (construct_succeeds c i perm Hv Hp HS Hm) as (st & Hc).
  exists st. split; [exact Hc|]. intros lazy.
  split; [now apply roundtrip with (perm := perm) | now apply roundtrip_by_frame with (perm := perm)].
Qed.
Print Assumptions C01_roundtrip_total.

(* non-vacuity of [valid] and of the hypotheses of C01_roundtrip: one input per
   segmentation type / layout / dtype is valid, is accepted by the constructor
   and is not trivially empty *)
Example C01_nonvacuous_valid :
  let c1 := Cfg BINARY DInt 1 1 true [1; 2] 1 3 1 3 3 true in
  let i1 := Stack [[[1;0];[0;0];[0;1]]; [[0;0];[0;0];[0;0]]; [[0;1];[1;0];[1;0]]] in
  let c2 := Cfg LABELMAP DInt 1 1 false [2; 300] 1 3 1 3 2 true in
  let i2 := Label [[0;300;2]; [2;2;0]] in
  let c3 := Cfg FRACTIONAL DFloat 2 3 true [1] 1 3 1 3 1 true in
  let i3 := Stack [[[1];[2];[0]]] in
  let c4 := Cfg LABELMAP DFloat 4 1 true [5; 7] 1 2 1 2 2 false in
  let i4 := Stack [[[4;0];[0;0]]; [[0;4];[0;4]]] in
  let c5 := Cfg FRACTIONAL DInt 1 100 true [1; 2] 2 1 2 1 1 false in
  let i5 := Label [[2; 1]] in
  valid c1 i1 = true /\ valid c2 i2 = true /\ valid c3 i3 = true /\ valid c4 i4 = true /\
  valid c5 i5 = true /\
  (exists st, construct c1 i1 [2;0;1] = Ok st) /\ (exists st, construct c2 i2 [1;0] = Ok st) /\
  (exists st, construct c3 i3 [0] = Ok st) /\ (exists st, construct c4 i4 [0;1] = Ok st) /\
  (exists st, construct c5 i5 [0] = Ok st) /\
  expected c4 i4 = [[[1;0];[0;0]]; [[0;1];[0;1]]] /\ expected c5 i5 = [[[0;100];[100;0]]] /\
  valid c2 (Label [[0;300;3]; [2;2;0]]) = false /\ valid c1 (Stack [[[1;0];[0;0];[0;2]]; []; []]) = false.
Proof. vm_compute. repeat split; eexists; reflexivity. Qed.
Print Assumptions C01_nonvacuous_valid.

(* ------------------------------------------------------------------ *)
(* histories and the other read entry points                            *)
(* ------------------------------------------------------------------ *)
(* the decoded-array cache (.pixel_array touched before): frame i cut out of the
   WHOLE decoded PixelData is frame i, for 1-, 8- and 16-bit native data and
   every frame size (same statement as C01_stored_frame_correct for the
   frame-by-frame decoders) *)
Theorem C01_cached_frame_correct : forall c (fs : list frame) meta dec i,
  native c = true -> 1 <= npix c ->
  (forall f, In f fs -> frame_ok c (f_pix f)) ->
  0 <= i < zlen fs ->
  cached_frame (Stored c meta (pixel_data c fs) dec) i
  = f_pix (nth (Z.to_nat i) fs (Frame 0 0 [])).
Proof. exact cached_frame_correct. Qed.
Print Assumptions C01_cached_frame_correct.

(* whatever the object (lazy reader or not) and whatever was called before (cache
   warm or cold), get_stored_frame / get_stored_frames / .pixel_array return the
   same frame k of a constructed object *)
Theorem C01_frames_history_independent : forall c i perm st lazy warm k,
  valid c i = true -> Permutation perm (zrange (nsrc c)) -> construct c i perm = Ok st ->
  0 <= k < zlen (s_meta st) ->
  frame_getter lazy warm st k = stored_frame false st k.
Proof. exact frames_history_independent. Qed.
Print Assumptions C01_frames_history_independent.

(* THE PROPERTY after any history: the stacked read of all sources (by instance
   and by frame) returns the specification from every object, cache warm or cold *)
Theorem C01_roundtrip_any_history : forall c i perm st,
  valid c i = true -> Permutation perm (zrange (nsrc c)) -> construct c i perm = Ok st ->
  forall lazy warm,
    read_g (frame_getter lazy warm st) st (zrange (nsrc c)) false false = Ok (expected c i) /\
    read_g (frame_getter lazy warm st) st (one_to (nsrc c)) true true = Ok (expected c i).
Proof. exact roundtrip_any_history. Qed.
Print Assumptions C01_roundtrip_any_history.

(* the combine_segments=True read - result OR refusal, any request list - does
   not depend on the history *)
Theorem C01_combined_history_independent : forall c i perm st lazy warm req byframe am,
  valid c i = true -> Permutation perm (zrange (nsrc c)) -> construct c i perm = Ok st ->
  read_combined (frame_getter lazy warm st) st req byframe am =
  read_combined (stored_frame lazy st) st req byframe am.
Proof. exact combined_history_independent. Qed.
Print Assumptions C01_combined_history_independent.

(* THE PROPERTY for the label-map view: if the input can be shown as one label
   map (every stored value 0 or the top value, no pixel in two segments - always
   the case for LABELMAP), combine_segments=True returns, for every source in the
   order supplied, the number of the segment the input puts at each pixel *)
Theorem C01_roundtrip_combined : forall c i perm st,
  valid c i = true -> Permutation perm (zrange (nsrc c)) -> construct c i perm = Ok st ->
  combinable c i = true ->
  forall lazy warm,
    read_combined (frame_getter lazy warm st) st (zrange (nsrc c)) false false = Ok (expected_labels c i) /\
    read_combined (frame_getter lazy warm st) st (one_to (nsrc c)) true true = Ok (expected_labels c i).
Proof. exact roundtrip_combined. Qed.
Print Assumptions C01_roundtrip_combined.

(* non-vacuity and the refusal branches on concrete objects: a BINARY mask of 3
   planes x 3 pixels x 2 segments (15 bits of PixelData, frames not byte
   aligned) is combinable and reads back as its label map with a warm cache; the
   same mask with one pixel in both segments is refused with RuntimeError; a
   truly fractional mask is refused with ValueError *)
Example C01_nonvacuous_history :
  let c1 := Cfg BINARY DInt 1 1 true [1; 2] 1 3 1 3 3 true in
  let i1 := Stack [[[1;0];[0;0];[0;1]]; [[0;0];[0;0];[0;0]]; [[0;1];[1;0];[1;0]]] in
  let i2 := Stack [[[1;1];[0;0];[0;1]]; [[0;0];[0;0];[0;0]]; [[0;1];[1;0];[1;0]]] in
  let c3 := Cfg FRACTIONAL DFloat 2 3 true [1] 1 3 1 3 1 true in
  let i3 := Stack [[[1];[2];[0]]] in
  let warm_read c i perm req :=
    match construct c i perm with
    | Ok st => Some (map (cached_frame st) (zrange (zlen (s_meta st))),
                     read_combined (frame_getter false true st) st req false false)
    | Err _ => None
    end in
  combinable c1 i1 = true /\ combinable c1 i2 = false /\ combinable c3 i3 = false /\
  valid c1 i1 = true /\ valid c1 i2 = true /\ valid c3 i3 = true /\
  expected_labels c1 i1 = [[1;0;2]; [0;0;0]; [2;1;1]] /\
  warm_read c1 i1 [2;0;1] [0;1;2]
    = Some ([[0;1;1]; [1;0;0]; [1;0;0]; [0;0;1]], Ok [[1;0;2]; [0;0;0]; [2;1;1]]) /\
  warm_read c1 i2 [2;0;1] [0;1;2]
    = Some ([[0;1;1]; [1;0;0]; [1;0;0]; [1;0;1]], Err "RuntimeError") /\
  warm_read c3 i3 [0] [0] = Some ([[2;3;0]], Err "ValueError").
Proof. vm_compute. repeat split. Qed.
Print Assumptions C01_nonvacuous_history.

(* ------------------------------------------------------------------ *)
(* extension: every request list, complete label-map view, schedules,   *)
(* iter_segments                                                        *)
(* ------------------------------------------------------------------ *)
(* THE PROPERTY for EVERY request list (strictly stronger than C01_roundtrip /
   C01_roundtrip_by_frame / C01_roundtrip_any_history, which are the instances
   req = all sources in order): any sub-list, repetition or reordering of the
   sources - and, with assert_missing_frames_are_empty, sources that are not
   there - that passes the query guards reads back as the input planes in the
   order requested (zeros for absent sources), by instance or by frame, from
   every object (lazy reader or not) and cache state *)
Theorem C01_roundtrip_any_request : forall c i perm st,
  valid c i = true -> Permutation perm (zrange (nsrc c)) -> construct c i perm = Ok st ->
  forall lazy warm req byframe am,
    read_guard st req byframe am = Ok tt ->
    read_g (frame_getter lazy warm st) st req byframe am = Ok (expected_req c i byframe req).
Proof. exact roundtrip_any_request. Qed.
Print Assumptions C01_roundtrip_any_request.

(* the query guard of get_pixels_by_source_instance, as iff-statements per outcome *)
Theorem C01_read_guard_instance_iff : forall st req am,
  nodup_keys (s_meta st) = true ->
  (read_guard st req false am = Ok tt <->
   req <> [] /\ (am = true \/ forall r, In r req -> in_src (s_cfg st) r = true)) /\
  (read_guard st req false am = Err "KeyError"%string <->
   req <> [] /\ am = false /\ exists r, In r req /\ in_src (s_cfg st) r = false) /\
  (read_guard st req false am = Err "ValueError"%string <-> req = []).
Proof. exact read_guard_instance_iff. Qed.
Print Assumptions C01_read_guard_instance_iff.

(* THE PROPERTY for the label-map view, complete (replaces the partial
   characterisation of the refusals; C01_roundtrip_combined is the instance
   `combinable`, req = all sources): for EVERY valid input and every request list
   passing the guards, combine_segments=True returns exactly what the input
   determines - the label map of the requested planes, or the refusal of the first
   defective requested plane (ValueError: a value other than 0 /
   MaximumFractionalValue; RuntimeError: a pixel in two segments; segments
   visited in described order) *)
Theorem C01_combined_total : forall c i perm st,
  valid c i = true -> Permutation perm (zrange (nsrc c)) -> construct c i perm = Ok st ->
  forall lazy warm req byframe am,
    read_guard st req byframe am = Ok tt ->
    read_combined (frame_getter lazy warm st) st req byframe am = spec_combined c i byframe req.
Proof. exact combined_total. Qed.
Print Assumptions C01_combined_total.

Theorem C01_combined_refusal_iff : forall c i perm st,
  valid c i = true -> Permutation perm (zrange (nsrc c)) -> construct c i perm = Ok st ->
  forall lazy warm req byframe am,
    read_guard st req byframe am = Ok tt ->
    ((exists x, read_combined (frame_getter lazy warm st) st req byframe am = Ok x) <->
     (forall r, In r req -> plane_defect c i (src_index byframe r) = None)) /\
    (forall e, read_combined (frame_getter lazy warm st) st req byframe am = Err e ->
       exists r, In r req /\ plane_defect c i (src_index byframe r) = Some e).
Proof. exact combined_refusal_iff. Qed.
Print Assumptions C01_combined_refusal_iff.

(* "fractional values equal to the input rounded to the stored quantisation":
   a FRACTIONAL float input x = k/den is stored as v with
   |v / max_fractional_value - x| <= 1 / (2 max_fractional_value) *)
Theorem C01_rescaled_error_bound : forall c i j p k,
  valid c i = true -> dt c = DFloat -> ty c = FRACTIONAL ->
  let v := expected_pixel c i j p k in
  let x := match i with
           | Label ps => nthz p (nthz j ps []) 0
           | Stack ps => nthz k (nthz p (nthz j ps []) []) 0
           end in
  2 * Z.abs (v * den c - x * maxfrac c) <= den c.
Proof. exact rescaled_error_bound. Qed.
Print Assumptions C01_rescaled_error_bound.

(* workers: whatever order the pool completes the encode tasks in, the results
   gathered in submission order are those of the submitted frames ... *)
Theorem C01_gather_any_schedule : forall (tasks : list (list Z)) pi,
  Permutation pi (zrange (zlen tasks)) -> gather (pool_run tasks pi) = Ok tasks.
Proof. exact gather_any_schedule. Qed.
Print Assumptions C01_gather_any_schedule.

(* ... so the constructor with workers builds the same object as without, for
   EVERY completion order: all theorems above hold for it *)
Theorem C01_schedule_independent : forall c i perm st pi,
  construct c i perm = Ok st -> Permutation pi (zrange (zlen (s_meta st))) ->
  construct_sched c i perm pi = Ok st.
Proof. exact sched_independent. Qed.
Print Assumptions C01_schedule_independent.

(* iter_segments (BINARY / FRACTIONAL) yields only planes of the input, under
   their segment and with their source ... *)
Theorem C01_iter_segments_sound : forall c i perm st lazy warm s grp j px,
  valid c i = true -> Permutation perm (zrange (nsrc c)) -> construct c i perm = Ok st ->
  ty c <> LABELMAP ->
  In (s, grp) (iter_segs (frame_getter lazy warm st) st) -> In (j, px) grp ->
  0 <= j < nsrc c /\
  exists k, 0 <= k < zlen (segs c) /\ s = nthz k (segs c) 0 /\ px = expected_col c i j k.
Proof. exact iter_segments_sound. Qed.
Print Assumptions C01_iter_segments_sound.

(* ... and all of them that are not entirely empty *)
Theorem C01_iter_segments_complete : forall c i perm st lazy warm j k,
  valid c i = true -> Permutation perm (zrange (nsrc c)) -> construct c i perm = Ok st ->
  ty c <> LABELMAP -> 0 <= j < nsrc c -> 0 <= k < zlen (segs c) ->
  expected_col c i j k <> zeros (npix c) ->
  exists grp, In (nthz k (segs c) 0, grp) (iter_segs (frame_getter lazy warm st) st) /\
              In (j, expected_col c i j k) grp.
Proof. exact iter_segments_complete. Qed.
Print Assumptions C01_iter_segments_complete.

(* non-vacuity of the extension: a BINARY mask (3 planes x 3 pixels x 2 segments)
   whose plane 0 has a pixel in both segments: requests avoiding plane 0 (with a
   repetition and an absent source) read back, stacked and combined; a request
   containing plane 0 is refused with RuntimeError and plane_defect says so; a
   truly fractional plane gives ValueError; a reversed completion order of the
   pool gives the same frames, an incomplete one blocks; iter_segments of the
   clean mask *)
Example C01_nonvacuous_extension :
  let c1 := Cfg BINARY DInt 1 1 true [1; 2] 1 3 1 3 3 true in
  let i2 := Stack [[[1;1];[0;0];[0;1]]; [[0;0];[0;0];[0;0]]; [[0;1];[1;0];[1;0]]] in
  let c3 := Cfg FRACTIONAL DFloat 2 3 true [1] 1 3 1 3 1 true in
  let i3 := Stack [[[1];[2];[0]]] in
  let c4 := Cfg FRACTIONAL DInt 1 100 true [1; 2] 1 2 1 2 2 false in
  let i4 := Stack [[[1;0];[0;1]]; [[0;1];[1;0]]] in
  valid c1 i2 = true /\ valid c3 i3 = true /\ valid c4 i4 = true /\
  plane_defect c1 i2 0 = Some "RuntimeError"%string /\ plane_defect c1 i2 2 = None /\
  plane_defect c3 i3 0 = Some "ValueError"%string /\
  match construct c1 i2 [2;0;1] with
  | Ok st =>
      read_guard st [2;1;2;5] false true = Ok tt /\
      read_g (frame_getter false true st) st [2;1;2;5] false true
        = Ok [[[0;1];[1;0];[1;0]]; [[0;0];[0;0];[0;0]]; [[0;1];[1;0];[1;0]]; [[0;0];[0;0];[0;0]]] /\
      read_combined (frame_getter true false st) st [2;1;2;5] false true
        = Ok [[2;1;1]; [0;0;0]; [2;1;1]; [0;0;0]] /\
      read_combined (frame_getter false false st) st [2;0] false false = Err "RuntimeError"%string /\
      spec_combined c1 i2 false [2;0] = Err "RuntimeError"%string
  | Err _ => False
  end /\
  match construct c4 i4 [0;1] with
  | Ok st =>
      zlen (s_meta st) = 4 /\
      construct_sched c4 i4 [0;1] [3;1;0;2] = Ok st /\
      construct_sched c4 i4 [0;1] [3;1;2] = Err "TimeoutError"%string /\
      iter_segs (cached_frame st) st
        = [(1, [(0, [100;0]); (1, [0;100])]); (2, [(0, [0;100]); (1, [100;0])])]
  | Err _ => False
  end.
Proof. exact nonvacuous_extension. Qed.
Print Assumptions C01_nonvacuous_extension.

(* ------------------------------------------------------------------ *)
(* acceptance, both directions                                          *)
(* ------------------------------------------------------------------ *)
(* the converse of C01_construct_succeeds: an array as numpy hands it over
   (well_formed: planes of Rows*Columns values, unsigned integers non-negative,
   float label array = one mask (the only segment [1] for BINARY / FRACTIONAL, the
   label 1 among ANY described numbers for LABELMAP - session 6, finding D117),
   den > 0, max_fractional_value >= 0 - no condition on the CONTENT of the mask)
   that the constructor accepts is valid *)
Theorem C01_construct_ok_valid : forall c i perm st,
  construct c i perm = Ok st -> well_formed c i = true -> valid c i = true.
Proof. exact construct_ok_valid. Qed.
Print Assumptions C01_construct_ok_valid.

(* accepted <-> valid *)
Theorem C01_accepted_iff_valid : forall c i perm,
  well_formed c i = true -> Permutation perm (zrange (nsrc c)) ->
  1 <= zlen (segs c) -> (ty c = FRACTIONAL -> 1 <= maxfrac c) ->
  ((exists st, construct c i perm = Ok st) <-> valid c i = true).
Proof. exact accepted_iff_valid. Qed.
Print Assumptions C01_accepted_iff_valid.

(* THE PROPERTY with no hypothesis on the content of the mask: whatever
   well-formed array the constructor accepts reads back as the specification, for
   every request list passing the guards, from every object and cache state -
   "whatever mask a user stores is exactly the mask they get back" *)
Theorem C01_no_silent_corruption : forall c i perm st,
  well_formed c i = true -> Permutation perm (zrange (nsrc c)) -> construct c i perm = Ok st ->
  forall lazy warm req byframe am,
    read_guard st req byframe am = Ok tt ->
    read_g (frame_getter lazy warm st) st req byframe am = Ok (expected_req c i byframe req).
Proof. exact no_silent_corruption. Qed.
Print Assumptions C01_no_silent_corruption.

(* non-vacuity: well-formed inputs that are valid and accepted, and well-formed
   inputs that are not valid (undescribed label 3; overlapping LABELMAP stack) and
   are refused *)
Example C01_nonvacuous_acceptance :
  let c1 := Cfg BINARY DInt 1 1 true [1; 2] 1 3 1 3 3 true in
  let i1 := Stack [[[1;0];[0;0];[0;1]]; [[0;0];[0;0];[0;0]]; [[0;1];[1;0];[1;0]]] in
  let c2 := Cfg LABELMAP DInt 1 1 false [2; 300] 1 3 1 3 2 true in
  let c4 := Cfg LABELMAP DFloat 4 1 true [5; 7] 1 2 1 2 2 false in
  well_formed c1 i1 = true /\ (exists st, construct c1 i1 [2;0;1] = Ok st) /\ valid c1 i1 = true /\
  well_formed c2 (Label [[0;300;3]; [2;2;0]]) = true /\ valid c2 (Label [[0;300;3]; [2;2;0]]) = false /\
  construct c2 (Label [[0;300;3]; [2;2;0]]) [1;0] = Err "ValueError"%string /\
  well_formed c4 (Stack [[[4;4];[0;0]]; [[0;4];[0;4]]]) = true /\
  construct c4 (Stack [[[4;4];[0;0]]; [[0;4];[0;4]]]) [0;1] = Err "ValueError"%string /\
  well_formed c4 (Stack [[[4;0];[0;0]]; [[0;4];[0;4]]]) = true /\
  (exists st, construct c4 (Stack [[[4;0];[0;0]]; [[0;4];[0;4]]]) [0;1] = Ok st).
Proof. exact nonvacuous_acceptance. Qed.
Print Assumptions C01_nonvacuous_acceptance.

(* ------------------------------------------------------------------ *)
(* tiled sources: the mask handed over as ONE total pixel matrix        *)
(* (tile_pixel_array=True)                                              *)
(* ------------------------------------------------------------------ *)
(* spatial.py get_tile_array is refused exactly when the 1-based offset lies
   outside the matrix ... *)
Theorem C01_tile_array_refused_iff : forall (z : Z) R C m ro co th tw,
  (exists e, get_tile_array z R C m ro co th tw = Err e) <-> (ro < 1 \/ R < ro \/ co < 1 \/ C < co).
Proof. exact (@get_tile_array_err_iff Z). Qed.
Print Assumptions C01_tile_array_refused_iff.

(* ... and otherwise returns a FULL tile of th*tw pixels whose in-tile pixel
   (i, j) is the matrix pixel (row_offset-1+i, column_offset-1+j) when that lies
   inside the R x C matrix and the zero pixel otherwise: the data stay at the
   top / left of a partly covered edge tile, the zero padding goes below / right,
   for every tile size and every matrix size (a whole number of tiles or not).
   [A] = Z for 3-D label arrays, list Z (the channels of a pixel) for 4-D stacks *)
Theorem C01_tile_array_spec : forall (A : Type) (z d : A) R C m ro co th tw,
  zlen m = R * C -> 1 <= ro <= R -> 1 <= co <= C -> 1 <= th -> 1 <= tw ->
  exists tile, get_tile_array z R C m ro co th tw = Ok tile /\ zlen tile = th * tw /\
    forall i j, 0 <= i < th -> 0 <= j < tw ->
      nthz (i * tw + j) tile d =
      if (ro - 1 + i <? R) && (co - 1 + j <? C) then nthz ((ro - 1 + i) * C + (co - 1 + j)) m d else z.
Proof. exact @get_tile_array_spec. Qed.
Print Assumptions C01_tile_array_spec.

(* the frames the constructor cuts out of the matrix: one per tile of the grid
   (compute_tile_positions_per_frame), in row-major order of the tiles, none
   refused; tile t holds under its in-tile pixel p the matrix pixel
   ((t / ntc) * th + p / tw, (t mod ntc) * tw + p mod tw), zero beyond the edge *)
Theorem C01_tiles_of_matrix : forall (A : Type) (z d : A) R C th tw m,
  zlen m = R * C -> 1 <= R -> 1 <= C -> 1 <= th -> 1 <= tw ->
  exists tiles, tile_planes z R C th tw m = Ok tiles /\ zlen tiles = n_tiles R C th tw /\
    forall t, 0 <= t < n_tiles R C th tw ->
      zlen (nthz t tiles []) = th * tw /\
      forall p, 0 <= p < th * tw ->
        let r := (t / n_tiles_along C tw) * th + p / tw in
        let q := (t mod n_tiles_along C tw) * tw + p mod tw in
        nthz p (nthz t tiles []) d = if (r <? R) && (q <? C) then nthz (r * C + q) m d else z.
Proof. exact @tile_planes_spec. Qed.
Print Assumptions C01_tiles_of_matrix.

(* THE PROPERTY for a mask handed over as one total pixel matrix, with no
   hypothesis on its content: whatever well-formed matrix (shape (1, R, C[, S]),
   any tile size, R and C a whole number of tiles or not, TILED_SPARSE or
   TILED_FULL) the constructor accepts reads back - for every list of source
   frame numbers passing the guards, from every object (lazy reader or not) and
   cache state - as the part of THE MATRIX under each requested source frame
   (expected_tile_pixel is defined from the matrix alone: the stored value of
   matrix pixel (r, q), zero beyond the bottom / right edge, zero planes for
   frames that are not there) *)
Theorem C01_tiled_no_silent_corruption : forall c R C full i st,
  well_formed_tiled c R C i = true -> construct_tiled c R C full i = Ok st ->
  forall lazy warm req am,
    read_guard st req true am = Ok tt ->
    read_g (frame_getter lazy warm st) st req true am = Ok (expected_tiled_req c R C i req).
Proof. exact tiled_no_silent_corruption. Qed.
Print Assumptions C01_tiled_no_silent_corruption.

(* the instance "all source frames in the order of the source", eagerly and lazily *)
Theorem C01_tiled_roundtrip_by_frame : forall c R C full i st,
  well_formed_tiled c R C i = true -> construct_tiled c R C full i = Ok st ->
  forall lazy, read_by_frame lazy st (one_to (n_tiles R C (rows c) (cols c))) true
               = Ok (expected_tiled_req c R C i (one_to (n_tiles R C (rows c) (cols c)))).
Proof. exact tiled_roundtrip_by_frame. Qed.
Print Assumptions C01_tiled_roundtrip_by_frame.

(* non-vacuity: a 3 x 5 label map in tiles of 2 x 3 - the last tile row and the
   last tile column are only partly covered; the tiles show the zeros below /
   right of the data; the matrix is well-formed and valid, is accepted, every
   tile is stored and read back by source frame (here frames 4 and 1, lazily) *)
Example C01_nonvacuous_tiled :
  let c := Cfg LABELMAP DInt 1 1 false [1; 2] 2 3 3 5 4 true in
  let m := [1;1;0;2;2;  0;1;0;0;2;  2;0;0;1;1] in
  tile_planes 0 3 5 2 3 m = Ok [[1;1;0; 0;1;0]; [2;2;0; 0;2;0]; [2;0;0; 0;0;0]; [1;1;0; 0;0;0]] /\
  get_tile_array 0 3 5 m 3 4 2 3 = Ok [1;1;0; 0;0;0] /\
  get_tile_array 0 3 5 m 4 1 2 3 = Err "ValueError"%string /\
  well_formed_tiled c 3 5 (Label [m]) = true /\ valid_tiled c 3 5 (Label [m]) = true /\
  tiled_spec_holds c 3 5 false (Label [m]) = true /\
  match construct_tiled c 3 5 false (Label [m]) with
  | Ok st => s_meta st = [(0, 0); (0, 1); (0, 2); (0, 3)] /\
             read_by_frame true st [4; 1] false
               = Ok [[[1;0];[1;0];[0;0]; [0;0];[0;0];[0;0]]; [[1;0];[1;0];[0;0]; [0;0];[1;0];[0;0]]]
  | Err _ => False
  end /\
  construct_tiled c 3 5 true (Label [m]) <> construct_tiled c 3 4 true (Label [m]).
Proof. exact nonvacuous_tiled. Qed.
Print Assumptions C01_nonvacuous_tiled.

(* ---- the order of the source frames: finding D113 (open) ------------- *)
(* FULL STATEMENT of the property for this entry point (refuted, see below):
     forall c R C full i st forder, well_formed_tiled c R C i = true ->
       Permutation forder (zrange (n_tiles R C (rows c) (cols c))) ->
       construct_tiled c R C full i = Ok st -> forall lazy warm req am,
       read_guard st req true am = Ok tt ->
       read_g (frame_getter lazy warm st) st req true am
       = Ok (expected_tiled_req_order c R C i forder req)
   i.e. whatever order the (TILED_SPARSE) source lists its frames in, source
   frame f reads back as the part of the matrix under THAT frame (tile
   forder[f-1]).  The code refers stored tile k to source frame k+1 regardless,
   so it holds only for sources in row-major tile order: *)
Theorem C01_tiled_row_major_order_partial : forall c R C full i st,
  well_formed_tiled c R C i = true -> construct_tiled c R C full i = Ok st ->
  forall lazy warm req am,
    read_guard st req true am = Ok tt ->
    read_g (frame_getter lazy warm st) st req true am
    = Ok (expected_tiled_req_order c R C i (zrange (n_tiles R C (rows c) (cols c))) req).
Proof. exact tiled_row_major_order. Qed.
Print Assumptions C01_tiled_row_major_order_partial.

(* for a row-major source the demand IS the specification of the theorems above *)
Theorem C01_order_row_major : forall c R C i req,
  expected_tiled_req_order c R C i (zrange (n_tiles R C (rows c) (cols c))) req
  = expected_tiled_req c R C i req.
Proof. exact order_row_major. Qed.
Print Assumptions C01_order_row_major.

(* REFUTED for other orders (the witness of KNOWN_FINDINGS D113, replayed on the
   real code by findings/repro/D113.py and by corpus/C01/d113_*.json): a valid
   4 x 6 matrix in 2 x 3 tiles, only the top-left pixel set, the source listing
   its frames bottom-right first - the pixel lies under source frame 4, the
   by-frame read returns it for frame 1 *)
Theorem C01_tiled_any_order_refuted :
  exists c R C i forder,
    well_formed_tiled c R C i = true /\ valid_tiled c R C i = true /\
    Permutation forder (zrange (n_tiles R C (rows c) (cols c))) /\
    match construct_tiled c R C false i with
    | Ok st => read_by_frame false st [1; 2; 3; 4] false
               <> Ok (expected_tiled_req_order c R C i forder [1; 2; 3; 4]) /\
               read_by_frame false st [1; 2; 3; 4] false
               = Ok [[[1];[0];[0];[0];[0];[0]]; [[0];[0];[0];[0];[0];[0]];
                     [[0];[0];[0];[0];[0];[0]]; [[0];[0];[0];[0];[0];[0]]] /\
               expected_tiled_req_order c R C i forder [4] = [[[1];[0];[0];[0];[0];[0]]]
    | Err _ => False
    end.
Proof. exact tiled_any_order_refuted. Qed.
Print Assumptions C01_tiled_any_order_refuted.

(* ------------------------------------------------------------------ *)
(* session 6: the plane positions of the source (guard of               *)
(* DimensionIndexSequence.get_index_values) and the label numbers a     *)
(* LABELMAP object stores (fix of finding D117)                         *)
(* ------------------------------------------------------------------ *)
(* [dist] = per plane of the input array an integer stand-in of its position
   (distance along the normal / rank of the slide position tuple).  The guard
   'Input image/frame positions are not unique' (len(np.unique(..., return_index)
   [1]) != number of planes) passes EXACTLY when the positions are pairwise
   different ... *)
Theorem C01_positions_unique_iff : forall dist, positions_unique dist = true <-> NoDup dist.
Proof. exact positions_unique_iff. Qed.
Print Assumptions C01_positions_unique_iff.

(* ... then the plane sort index np.unique returns is a permutation of ALL plane
   indices (no plane is left out of the frame loop) ... *)
Theorem C01_unique_index_perm : forall dist, positions_unique dist = true ->
  Permutation (unique_index dist) (zrange (zlen dist)).
Proof. exact unique_index_perm. Qed.
Print Assumptions C01_unique_index_perm.

(* ... which lists the planes in strictly ascending order of their position *)
Theorem C01_unique_index_ascending : forall dist,
  StronglySorted Z.lt (map (fun j => nthz j dist 0) (unique_index dist)).
Proof. exact unique_index_ascending. Qed.
Print Assumptions C01_unique_index_ascending.

(* two planes at one position are refused whatever the mask is (nothing is
   stored) ... *)
Theorem C01_duplicate_positions_refused : forall c i dist, ~ NoDup dist ->
  exists k, construct_pos c i dist = Err k.
Proof. exact duplicate_positions_refused. Qed.
Print Assumptions C01_duplicate_positions_refused.

(* ... and unique positions add no refusal: the constructor is [construct] with
   the sort permutation *)
Theorem C01_construct_pos_unique : forall c i dist, NoDup dist ->
  construct_pos c i dist = construct c i (unique_index dist).
Proof. exact construct_pos_unique. Qed.
Print Assumptions C01_construct_pos_unique.

(* THE PROPERTY with the positions of the source planes as an input and no
   hypothesis on positions or content: whatever well-formed array the constructor
   accepts, for whatever plane positions, reads back as the specification for
   every request list passing the guards, from every object and cache state - in
   particular no plane is dropped because another plane has the same position *)
Theorem C01_positions_no_silent_corruption : forall c i dist st,
  well_formed c i = true -> zlen dist = nsrc c -> construct_pos c i dist = Ok st ->
  forall lazy warm req byframe am,
    read_guard st req byframe am = Ok tt ->
    read_g (frame_getter lazy warm st) st req byframe am = Ok (expected_req c i byframe req).
Proof. exact positions_no_silent_corruption. Qed.
Print Assumptions C01_positions_no_silent_corruption.

(* LABELMAP: every pixel value of every stored frame of an accepted mask is 0 or a
   DESCRIBED segment number - for every dtype and layout (incl. the floating point
   3-D mask of finding D117, which used to be stored as the undescribed label 1) *)
Theorem C01_stored_labels_described : forall c i perm st,
  well_formed c i = true -> Permutation perm (zrange (nsrc c)) -> construct c i perm = Ok st ->
  ty c = LABELMAP ->
  forall f v, In f (s_frames st) -> In v f -> In v (0 :: segs c).
Proof. exact stored_labels_described. Qed.
Print Assumptions C01_stored_labels_described.

(* the acceptance rule of the D117 fix: a floating point 0.0 / 1.0 label array for
   a LABELMAP passes the pixel array check iff it is entirely zero or 1 is a
   described segment number *)
Theorem C01_float_label_accepted_iff : forall c ps,
  dt c = DFloat -> ty c = LABELMAP -> 0 < den c ->
  (forall k, In k (concat ps) -> k = 0 \/ k = den c) ->
  ((exists a, check_and_cast c (Label ps) = Ok a) <->
   (all_zero (concat ps) = true \/ In 1 (segs c))).
Proof. exact float_label_accepted_iff. Qed.
Print Assumptions C01_float_label_accepted_iff.

(* non-vacuity: unique positions are accepted and sorted; two planes at one
   position are refused although the mask is valid; WITHOUT the guard the index
   list np.unique returns is one short and the plane of the later image reads back
   all zero (what a disabled guard does) *)
Example C01_nonvacuous_positions :
  let c := Cfg BINARY DInt 1 1 true [1] 1 2 1 2 3 true in
  let i := Label [[1; 0]; [0; 1]; [1; 1]] in
  unique_index [0; -5; -2] = [1; 2; 0] /\
  (exists st, construct_pos c i [0; -5; -2] = Ok st) /\
  valid c i = true /\ construct_pos c i [0; -5; -5] = Err "ValueError"%string /\
  unique_index [0; -5; -5] = [1; 0] /\
  bind (construct c i [1; 0]) (fun st => read_by_instance false st [0; 1; 2] false)
    = Ok [[[1]; [0]]; [[0]; [1]]; [[0]; [0]]] /\
  expected c i = [[[1]; [0]]; [[0]; [1]]; [[1]; [1]]].
Proof. exact nonvacuous_positions. Qed.
Print Assumptions C01_nonvacuous_positions.

(* non-vacuity (D117): the float mask for the single segment [5] is well-formed
   and refused; the all-zero one is accepted; with [1; 5] the mask is valid, stored
   as label 1 and expected back as segment 1 *)
Example C01_nonvacuous_d117 :
  let c5 := Cfg LABELMAP DFloat 1 1 true [5] 1 2 1 2 2 true in
  let c15 := Cfg LABELMAP DFloat 4 1 true [1; 5] 1 2 1 2 2 true in
  well_formed c5 (Label [[0; 1]; [1; 0]]) = true /\
  construct c5 (Label [[0; 1]; [1; 0]]) [1; 0] = Err "ValueError"%string /\
  (exists st, construct c5 (Label [[0; 0]; [0; 0]]) [1; 0] = Ok st) /\
  well_formed c15 (Label [[0; 4]; [4; 0]]) = true /\ valid c15 (Label [[0; 4]; [4; 0]]) = true /\
  bind (construct c15 (Label [[0; 4]; [4; 0]]) [1; 0]) (fun st => Ok (s_frames st)) = Ok [[1; 0]; [0; 1]] /\
  expected c15 (Label [[0; 4]; [4; 0]]) = [[[0; 0]; [1; 0]]; [[1; 0]; [0; 0]]].
Proof. exact nonvacuous_d117. Qed.
Print Assumptions C01_nonvacuous_d117.
