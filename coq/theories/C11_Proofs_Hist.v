(* C11 - the answer of a multi-frame object to a query depends on the frame table and on the tolerances and
   declarations of THAT query only (not on what was asked before), the two public entry points agree
   (get_volume assembles exactly when get_volume_geometry - same tolerances, same gaps declaration,
   duplicates allowed - gives a geometry and the frames are identified uniquely, and then with that very
   geometry), and get_volume_from_series assembles exactly under the tolerances it was given. *)
From Coq Require Import String ZArith List Bool QArith Lia.
From HD Require Import Base.Val C11_Model.
Import ListNotations.
Open Scope Q_scope.

(* ---- history ---------------------------------------------------------------------------------------- *)
Definition answers chans outch ps rowc colc hint seg (qs : list mf_query) : list val :=
  map (answer_query chans outch ps rowc colc hint seg) qs.

Lemma run_mf_history_answers chans outch ps rowc colc hint seg qs :
  run_mf_history chans outch ps rowc colc hint seg qs = VL (answers chans outch ps rowc colc hint seg qs).
Proof. reflexivity. Qed.

Lemma history_length chans outch ps rowc colc hint seg qs :
  length (answers chans outch ps rowc colc hint seg qs) = length qs.
Proof. apply map_length. Qed.

(* the answer to q asked after the queries `before` (and before `after`) is the answer of a fresh object *)
Lemma history_answer chans outch ps rowc colc hint seg before q after :
  nth (length before) (answers chans outch ps rowc colc hint seg (before ++ q :: after)) VNone
  = answer_query chans outch ps rowc colc hint seg q.
Proof.
  unfold answers. rewrite map_app. cbn [map].
  rewrite app_nth2; rewrite map_length; [|lia].
  now rewrite Nat.sub_diag.
Qed.

Lemma history_independent chans outch ps rowc colc hint seg h1 h2 q t1 t2 :
  nth (length h1) (answers chans outch ps rowc colc hint seg (h1 ++ q :: t1)) VNone
  = nth (length h2) (answers chans outch ps rowc colc hint seg (h2 ++ q :: t2)) VNone.
Proof. now rewrite !history_answer. Qed.

(* a geometry query anywhere in a history: exactly the stateless geometry of the declarations made in it *)
Lemma history_geometry_query chans outch ps rowc colc hint seg before after rtol atol om od :
  nth (length before) (answers chans outch ps rowc colc hint seg (before ++ QGeom rtol atol om od :: after)) VNone
  = run_mf_geometry ps rowc colc hint rtol atol seg om od.
Proof. now rewrite history_answer. Qed.

(* ---- the two entry points agree ------------------------------------------------------------------------ *)
Lemma geometry_of_stacked ps rowc colc hint rtol atol seg om od :
  multiframe_geometry ps rowc colc hint rtol atol seg om od =
  match stacked_geometry ps rowc colc hint rtol atol (eff_missing seg om) (eff_dups od) with
  | Ok (g, _) => Ok (Some g)
  | Err k => if String.eqb k "RuntimeError" then Ok None else Err k
  end.
Proof.
  unfold multiframe_geometry, stacked_geometry.
  destruct (get_volume_positions ps rowc colc _) as [[[sp idx]|]|k]; try reflexivity.
  destruct (zindex 0%Z idx); reflexivity.
Qed.

Lemma volume_iff_geometry chans outch ps rowc colc hint rtol atol seg om g :
  (exists slots, channel_volume chans outch ps rowc colc hint rtol atol seg om = Ok (g, slots)) <->
  (pairs_unique (combine chans ps) = true /\
   multiframe_geometry ps rowc colc hint rtol atol seg (Some (eff_missing seg om)) (Some true) = Ok (Some g)).
Proof.
  rewrite geometry_of_stacked. unfold channel_volume.
  replace (eff_missing seg (Some (eff_missing seg om))) with (eff_missing seg om) by reflexivity.
  replace (eff_dups (Some true)) with true by reflexivity.
  destruct (pairs_unique (combine chans ps)); cbn [negb].
  - destruct (stacked_geometry ps rowc colc hint rtol atol (eff_missing seg om) true) as [[g' idx]|k].
    + split.
      * intros [slots H]. inversion H. now split.
      * intros [_ H]. inversion H. eexists. reflexivity.
    + split.
      * intros [slots H]. discriminate.
      * intros [_ H]. destruct (String.eqb k "RuntimeError"); discriminate.
  - split.
    + intros [slots H]. discriminate.
    + intros [H _]. discriminate.
Qed.

(* frames sharing (channel, position) are never assembled, whatever the tolerances and declarations *)
Lemma volume_ambiguous_refused chans outch ps rowc colc hint rtol atol seg om :
  pairs_unique (combine chans ps) = false ->
  channel_volume chans outch ps rowc colc hint rtol atol seg om = Err "RuntimeError"%string.
Proof. intro H. unfold channel_volume. now rewrite H. Qed.

(* an unrecognised stack (for the tolerances / declarations of the call) raises RuntimeError *)
Lemma volume_unrecognised_refused chans outch ps rowc colc hint rtol atol seg om :
  get_volume_positions ps rowc colc (vol_opts rtol atol (eff_missing seg om) true hint) = Ok None ->
  channel_volume chans outch ps rowc colc hint rtol atol seg om = Err "RuntimeError"%string.
Proof.
  intro H. unfold channel_volume, stacked_geometry. rewrite H.
  destruct (pairs_unique (combine chans ps)); reflexivity.
Qed.

(* every frame put into the assembled array sits at its own volume index and in its own channel *)
Lemma find_slot2_sound k c : forall idx chans ids f,
  find_slot2 k c idx chans ids = Some f ->
  exists j, (j < length idx)%nat /\ nth j idx (k - 1)%Z = k /\ nth j chans (c - 1)%Z = c /\ nth j ids (f - 1)%Z = f.
Proof.
  induction idx as [|i idx IH]; intros chans ids f; cbn [find_slot2]; [discriminate|].
  destruct chans as [|ch chans]; [discriminate|]. destruct ids as [|f0 ids]; [discriminate|].
  destruct (Z.eqb i k && Z.eqb ch c) eqn:E.
  - intro H. inversion H; subst f0. apply andb_prop in E as [E1 E2].
    apply Z.eqb_eq in E1, E2. exists 0%nat. cbn. repeat split; [lia|assumption|assumption].
  - intro H. destruct (IH _ _ _ H) as (j & Lj & A & B & C).
    exists (S j). cbn [length nth]. repeat split; [lia|assumption|assumption|assumption].
Qed.

(* ---- get_volume_from_series applies the tolerances it was given ---------------------------------------------- *)
Lemma series_volume_follows_tolerances : forall d0 d1 rest hint0 rtol atol a,
  volume_from_series (d0 :: d1 :: rest) hint0 rtol atol = Ok a ->
  exists idx,
    series_volume_positions (map snd (d0 :: d1 :: rest)) hint0 (vol_opts rtol atol false false None)
      = Ok (Some (a_spacing a, idx)) /\
    exists ord, collect (map (fun i => zindex (Z.of_nat i) idx) (seq 0 (length (d0 :: d1 :: rest)))) = Some ord /\
                a_ids a = map (fun j => fst (nth j (d0 :: d1 :: rest) d0)) ord.
Proof.
  intros [id0 d0] d1 rest hint0 rtol atol a. unfold volume_from_series.
  destruct (negb (forallb (fun d => same_orient d0 (snd d)) (d1 :: rest))); [discriminate|].
  destruct (series_volume_positions _ hint0 _) as [[[sp idx]|]|k]; try discriminate.
  destruct (collect _) as [ord|] eqn:C; [|discriminate].
  intro H. inversion H; subst a; clear H. cbn [a_spacing a_ids].
  exists idx. split; [reflexivity|]. exists ord. split; [exact C|]. now rewrite map_map.
Qed.

Lemma series_volume_rejected : forall d0 d1 rest hint0 rtol atol,
  forallb (fun d => same_orient (snd d0) (snd d)) (d1 :: rest) = true ->
  series_volume_positions (map snd (d0 :: d1 :: rest)) hint0 (vol_opts rtol atol false false None) = Ok None ->
  volume_from_series (d0 :: d1 :: rest) hint0 rtol atol = Err "ValueError"%string.
Proof.
  intros [id0 d0] d1 rest hint0 rtol atol O H. unfold volume_from_series.
  cbn [snd] in O. rewrite O. cbn [negb]. now rewrite H.
Qed.
