(* C06 - histories: what a read returns does not depend on what was read from the same object
   before (in whatever output dtype, through whichever accessor, with the stored-value cache
   filled or not), and reading never changes the stored values.  In the model a read is a
   function of the values it is fed and the cache is only ever filled with the stored values,
   so both facts are invariants of [hrun]; the correspondence run (strata mono_hist / series_hist)
   is what ties the real object - whose reads are handed the cache array ITSELF - to this model. *)
From Coq Require Import String ZArith List Bool Lia QArith.
From HD Require Import Base.Val C06_Model C06_Proofs C06_Proofs_E2E.
Import ListNotations.
Open Scope Z_scope.

Section Hist.
  Context {St Op R : Type}.
  Variable read : Op -> St -> R.
  Variable touch : St -> R.

  (* the result of one operation on a FRESH object holding the stored values px *)
  Definition fresh_result (px : St) (h : hop Op) : R :=
    match h with HTouch => touch px | HRead o => read o px end.

  Lemma hstep_source : forall st h, hsource (fst (hstep read touch st h)) = hsource st.
  Proof. intros [px [c|]] [|o]; reflexivity. Qed.

  Lemma hstep_px : forall st h, fst (fst (hstep read touch st h)) = fst st.
  Proof. intros [px [c|]] [|o]; reflexivity. Qed.

  Lemma hstep_result : forall st h, snd (hstep read touch st h) = fresh_result (hsource st) h.
  Proof. intros [px [c|]] [|o]; reflexivity. Qed.

  Lemma hrun_spec : forall hs st,
    fst (hrun read touch st hs) = map (fresh_result (hsource st)) hs /\
    hsource (snd (hrun read touch st hs)) = hsource st /\
    fst (snd (hrun read touch st hs)) = fst st.
  Proof.
    induction hs as [|h t IH]; intros st.
    - cbn. auto.
    - cbn [hrun map fst snd].
      destruct (IH (fst (hstep read touch st h))) as (I1 & I2 & I3).
      rewrite I1, I2, I3, hstep_source, hstep_px, hstep_result. auto.
  Qed.

  (* from a fresh object (cache empty) *)
  Lemma hrun_fresh : forall px hs,
    fst (hrun read touch (px, None) hs) = map (fresh_result px) hs /\
    hsource (snd (hrun read touch (px, None) hs)) = px /\
    fst (snd (hrun read touch (px, None) hs)) = px.
  Proof. intros px hs. exact (hrun_spec hs (px, None)). Qed.

  (* the k-th result of a history is the result of that operation alone *)
  Lemma hrun_nth : forall px hs k h,
    nth_error hs k = Some h ->
    nth_error (fst (hrun read touch (px, None) hs)) k = Some (fresh_result px h).
  Proof.
    intros px hs k h H. destruct (hrun_fresh px hs) as (-> & _).
    now apply map_nth_error.
  Qed.

  (* two histories that end with the same operation return the same thing for it *)
  Lemma hrun_last_independent : forall px hs1 hs2 h,
    last (fst (hrun read touch (px, None) (hs1 ++ [h]))) (fresh_result px h) =
    last (fst (hrun read touch (px, None) (hs2 ++ [h]))) (fresh_result px h).
  Proof.
    intros px hs1 hs2 h.
    destruct (hrun_fresh px (hs1 ++ [h])) as (-> & _).
    destruct (hrun_fresh px (hs2 ++ [h])) as (-> & _).
    rewrite !map_app. cbn [map]. now rewrite !last_last.
  Qed.
End Hist.

(* a get_frame read inside ANY history of an image object is get_frame of the stored values *)
Lemma history_get_frame : forall E ds fl rsel vsel ymin ymax frames ops k odt fi,
  nth_error ops k = Some (HRead (IFrame false odt fi)) ->
  nth_error (fst (hrun (image_read E ds fl rsel vsel ymin ymax) vz_list2 (frames, None) ops)) k =
  Some (vres vq_list (get_frame E ds fl rsel vsel ymin ymax odt frames fi)).
Proof.
  intros. now rewrite (hrun_nth _ _ frames ops k _ H).
Qed.

(* ... hence the composite property sentence holds for every such read: whatever was read before,
   a frame that is returned equals the STORED values through the stages found for that frame *)
Lemma map_VQ_inj : forall a b : list Q, map VQ a = map VQ b -> a = b.
Proof.
  induction a as [|x a IH]; intros [|y b] H; try discriminate; [reflexivity|].
  cbn [map] in H. injection H as -> H. f_equal. now apply IH.
Qed.

Lemma history_get_frame_staged : forall E : Q -> Q,
  (forall a b, (a == b)%Q -> (E a == E b)%Q) -> (forall t, (E (- t) * E t == 1)%Q) ->
  (forall t, (0 < E t)%Q) ->
  forall ds fl rsel vsel ymin ymax frames ops k odt fi ys,
  d_float_in ds = false -> is_float odt = true ->
  nth_error ops k = Some (HRead (IFrame false odt fi)) ->
  nth_error (fst (hrun (image_read E ds fl rsel vsel ymin ymax) vz_list2 (frames, None) ops)) k =
    Some (vq_list ys) ->
  exists u fd xs,
    gate fl (d_ctype ds) = Ok u /\ (ymin < ymax)%Q /\
    discover u (f_pres fl) ds rsel vsel fi = Ok fd /\
    frame_at frames fi = Ok xs /\
    match fd_rwvm fd with
    | Some r => Forall2 (rwvm_value r) xs ys
    | None => fd_guards fd ->
        Forall2 (fun x y => (y == staged E (stage_mod fd) (stage_voi fd) (fd_invert fd) ymin ymax
                                         (stored_min ds) (stored_max ds) x)%Q) xs ys
    end.
Proof.
  intros E H1 H2 H3 ds fl rsel vsel ymin ymax frames ops k odt fi ys Hf Ho Hk Hr.
  rewrite (history_get_frame E ds fl rsel vsel ymin ymax frames ops k odt fi Hk) in Hr.
  injection Hr as Hr.
  destruct (get_frame E ds fl rsel vsel ymin ymax odt frames fi) as [ys'|e] eqn:G; cbn [vres] in Hr.
  - unfold vq_list in Hr. injection Hr as Hr. apply map_VQ_inj in Hr. subst ys'.
    exact (get_frame_staged E H1 H2 H3 ds fl rsel vsel ymin ymax odt frames fi ys Hf Ho G).
  - unfold vq_list in Hr. discriminate.
Qed.

(* non-vacuity: a CT-like image (slope 1, intercept -1024, signed 16 bit) read as int16 three
   times with the cache filled in between: every read returns stored - 1024 *)
Definition hist_ds : dataset :=
  DS Mono false None false true 12 (DT KI 16) None None
     (Level None (Some 1%Q) (Some (-1024)%Q) None) None None None false.
Definition hist_fl : flags := Flags TN TN TF true TN TN.
Lemma history_nonvacuous :
  run_history [] hist_ds hist_fl (SIdx 0) (SIdx 0) 0 1 [[0; 100; -5]]
    [HRead (IFrame false (DT KI 16) 0); HTouch; HRead (IFrame false (DT KI 16) 0);
     HRead (IFrame false (DT KF 64) 0); HRead (IStored 0)] =
  VL [vq_list [(-1024)%Q; (-924)%Q; (-1029)%Q]; vz_list2 [[0; 100; -5]];
      vq_list [(-1024)%Q; (-924)%Q; (-1029)%Q]; vq_list [(-1024)%Q; (-924)%Q; (-1029)%Q];
      vz_list [0; 100; -5]].
Proof. vm_compute. reflexivity. Qed.
