(* C13 - proofs *)
From Coq Require Import String ZArith List Bool QArith Lia.
From HD Require Import Base.Val C13_Model.
Import ListNotations.
Open Scope string_scope.
Open Scope list_scope.
Open Scope Z_scope.

(* ---------- enumerations ---------- *)
Lemma rel_roundtrip : forall r, rel_of_str (rel_str r) = Some r.
Proof. destruct r; reflexivity. Qed.
Lemma g2_roundtrip : forall g, g2_of_str (g2_str g) = Some g.
Proof. destruct g; reflexivity. Qed.
Lemma g3_roundtrip : forall g, g3_of_str (g3_str g) = Some g.
Proof. destruct g; reflexivity. Qed.
Lemma trt_roundtrip : forall g, trt_of_str (trt_str g) = Some g.
Proof. destruct g; reflexivity. Qed.
Lemma vt_roundtrip : forall v, vt_of_str (vt_str v) = Some v.
Proof. destruct v; reflexivity. Qed.
Lemma get_class_class_vt : forall c, get_class (class_vt c) = Ok c.
Proof. destruct c; reflexivity. Qed.
Lemma get_class_inv : forall v c, get_class v = Ok c -> class_vt c = v.
Proof. destruct v; vm_compute; intros c H; inversion H; reflexivity. Qed.

(* ---------- unfolding of the nested fixpoint ---------- *)
Definition kids_of (a : attrs) : option (res (list item)) :=
  match lookup "ContentSequence" a with
  | None => None
  | Some (DSeq items) => Some (mapM (parse None) items)
  | Some _ => Some (Err EType)
  end.

Lemma parse_unfold : forall c a, parse c (DSet a) = parse_body c a (kids_of a).
Proof.
  intros c a. cbn [parse]. f_equal. unfold kids_of.
  induction a as [|[k v] a IH]; [reflexivity|].
  cbn [lookup]. destruct (String.eqb k "ContentSequence"); [|exact IH].
  destruct v; reflexivity.
Qed.

Lemma parse_not_set : forall c d, (forall a, d <> DSet a) -> parse c d = Err EType.
Proof. intros c d H. destruct d; try reflexivity. exfalso. eapply H. reflexivity. Qed.

Lemma lookup_app : forall k l1 l2,
  lookup k (l1 ++ l2) = match lookup k l1 with Some v => Some v | None => lookup k l2 end.
Proof.
  induction l1 as [|[k' v] l1 IH]; intros; [reflexivity|].
  cbn [app lookup]. destruct (String.eqb k' k); [reflexivity|apply IH].
Qed.

(* ---------- coded concepts ---------- *)
Lemma code_kw_cases : forall v,
  code_kw v = "CodeValue" \/ code_kw v = "LongCodeValue" \/ code_kw v = "URNCodeValue".
Proof.
  intros v. unfold code_kw.
  destruct (prefix "urn" v || contains "://" v); [tauto|].
  destruct (16 <? slen v); tauto.
Qed.

Lemma code_roundtrip : forall c, code_from (code_ds c) = Ok c.
Proof.
  intros [v s m ver]. unfold code_ds, code_attrs. cbn [c_value c_scheme c_meaning c_version].
  destruct (code_kw_cases v) as [E|[E|E]]; rewrite E; destruct ver; reflexivity.
Qed.

Lemma from_code_id : forall c, from_code c = c.
Proof. intros [v s m ver]. reflexivity. Qed.

Lemma code_first_roundtrip : forall c, code_first (DSeq [code_ds c]) = Ok c.
Proof. intros. cbn [code_first]. apply code_roundtrip. Qed.

(* which attribute holds the code value: the specification of the split *)
Lemma code_kw_spec : forall v,
  (code_kw v = "URNCodeValue" <-> (prefix "urn" v = true \/ contains "://" v = true)) /\
  (code_kw v = "LongCodeValue" <-> (prefix "urn" v = false /\ contains "://" v = false /\ 16 < slen v)) /\
  (code_kw v = "CodeValue" <-> (prefix "urn" v = false /\ contains "://" v = false /\ slen v <= 16)).
Proof.
  intros v. unfold code_kw.
  destruct (prefix "urn" v); destruct (contains "://" v); cbn [orb];
    try (repeat split; intros; try discriminate; try tauto;
         match goal with H : _ /\ _ |- _ => destruct H as [? [? ?]]; discriminate end).
  destruct (16 <? slen v) eqn:E; repeat split; intros; try discriminate; try lia;
    try (destruct H as [H|H]; discriminate); try tauto.
Qed.

Lemma code_check_spec : forall c,
  (code_check c = Ok tt <-> slen (c_meaning c) <= 64) /\
  (code_check c = Err EValue <-> 64 < slen (c_meaning c)).
Proof.
  intros c. unfold code_check. destruct (64 <? slen (c_meaning c)) eqn:E;
    repeat split; intros; try discriminate; try lia; reflexivity.
Qed.

(* parsing refuses incomplete coded concepts *)
Lemma code_from_missing : forall a,
  (b2z (has "CodeValue" a) + b2z (has "LongCodeValue" a) + b2z (has "URNCodeValue" a) <> 1
   \/ has "CodeMeaning" a = false \/ has "CodingSchemeDesignator" a = false) ->
  code_from (DSet a) = Err EAttr.
Proof.
  intros a H. unfold code_from.
  destruct (b2z (has "CodeValue" a) + b2z (has "LongCodeValue" a) + b2z (has "URNCodeValue" a) =? 1) eqn:E;
    cbn [negb]; [|reflexivity].
  destruct H as [H|[H|H]]; [lia| |]; rewrite H; cbn [negb]; [reflexivity|].
  destruct (has "CodeMeaning" a); reflexivity.
Qed.

(* CodedConcept.from_dataset alone.  A coded concept is COMPLETE when exactly
   one of the three attributes carries the code value and Code Meaning and
   Coding Scheme Designator are present - the same two whichever carrier. *)
Definition complete_attrs (a : attrs) : Prop :=
  n_carriers a = 1 /\ has "CodeMeaning" a = true /\ has "CodingSchemeDesignator" a = true.

Lemma n_carriers_sum : forall a,
  n_carriers a = b2z (has "CodeValue" a) + b2z (has "LongCodeValue" a) + b2z (has "URNCodeValue" a).
Proof. intros a. unfold n_carriers, carriers. cbn [fold_right]. lia. Qed.

Lemma code_accept_spec : forall a,
  (code_accept (DSet a) = Ok tt <-> complete_attrs a) /\
  (code_accept (DSet a) = Err EAttr <-> ~ complete_attrs a).
Proof.
  intros a. unfold code_accept, complete_attrs.
  destruct (n_carriers a =? 1) eqn:E; cbn [negb];
    [apply Z.eqb_eq in E | apply Z.eqb_neq in E];
    destruct (has "CodeMeaning" a); cbn [negb];
    destruct (has "CodingSchemeDesignator" a); cbn [negb];
    (split; split; intros H; try discriminate; try reflexivity;
     try (repeat split; (assumption || reflexivity));
     try (intros [H1 [H2 H3]]; (discriminate || contradiction));
     try (destruct H as [H1 [H2 H3]]; (discriminate || contradiction));
     try (exfalso; apply H; repeat split; (assumption || reflexivity))).
Qed.

Lemma code_accept_not_set : forall d, (forall a, d <> DSet a) -> code_accept d = Err EType.
Proof. intros d H. destruct d; try reflexivity. exfalso. eapply H. reflexivity. Qed.

(* the designator (and the meaning) is required whichever attribute carries
   the code value: no hypothesis on the carrier at all *)
Lemma code_accept_needs_designator : forall a,
  has "CodingSchemeDesignator" a = false -> code_accept (DSet a) = Err EAttr.
Proof.
  intros a H. apply code_accept_spec. intros [_ [_ H']]. congruence.
Qed.

Lemma code_accept_needs_meaning : forall a,
  has "CodeMeaning" a = false -> code_accept (DSet a) = Err EAttr.
Proof.
  intros a H. apply code_accept_spec. intros [_ [H' _]]. congruence.
Qed.

(* reading the accessors after from_dataset: succeeds only on what
   from_dataset accepts, and a from_dataset refusal is the error reported *)
Lemma code_from_accept : forall d c, code_from d = Ok c -> code_accept d = Ok tt.
Proof.
  intros d c H. destruct d as [s|l|l|l|items|attrs0]; try discriminate.
  unfold code_from in H. unfold code_accept. rewrite n_carriers_sum.
  destruct (b2z (has "CodeValue" attrs0) + b2z (has "LongCodeValue" attrs0) + b2z (has "URNCodeValue" attrs0) =? 1);
    cbn [negb] in *; [|discriminate].
  destruct (has "CodeMeaning" attrs0); cbn [negb] in *; [|discriminate].
  destruct (has "CodingSchemeDesignator" attrs0); cbn [negb] in *; [reflexivity|discriminate].
Qed.

Lemma code_accept_err_wins : forall d e, code_accept d = Err e -> code_from d = Err e.
Proof.
  intros d e H.
  destruct d as [s|l|l|l|items|attrs0]; try (cbn [code_accept code_from] in *; inversion H; reflexivity).
  unfold code_accept in H. unfold code_from. rewrite n_carriers_sum in H.
  destruct (b2z (has "CodeValue" attrs0) + b2z (has "LongCodeValue" attrs0) + b2z (has "URNCodeValue" attrs0) =? 1);
    cbn [negb] in *; [|inversion H; reflexivity].
  destruct (has "CodeMeaning" attrs0); cbn [negb] in *; [|inversion H; reflexivity].
  destruct (has "CodingSchemeDesignator" attrs0); cbn [negb] in *; [discriminate|inversion H; reflexivity].
Qed.

(* what the constructor writes is complete, whichever carrier it chose *)
Lemma code_ds_accepted : forall c, code_accept (code_ds c) = Ok tt.
Proof. intros c. eapply code_from_accept. apply code_roundtrip. Qed.

(* a sequence whose first item is a complete coded concept *)
Definition complete_concept (s : dval) : Prop :=
  exists a rest, s = DSeq (DSet a :: rest) /\ complete_attrs a.

Lemma code_first_complete : forall s n, code_first s = Ok n -> complete_concept s.
Proof.
  intros s n H. destruct s as [s|l|l|l|items|a0]; try discriminate. destruct items as [|d rest]; [discriminate|].
  cbn [code_first] in H. pose proof (code_from_accept _ _ H) as Ha.
  destruct d as [s|l|l|l|items|attrs0]; try discriminate. exists attrs0, rest. split; [reflexivity|].
  apply code_accept_spec. exact Ha.
Qed.

(* ---------- flatten / reshape ---------- *)
Definition rows_nat (k : nat) (pts : list (list Q)) : Prop := Forall (fun r => List.length r = k) pts.

Lemma chunk_concat : forall k pts, (0 < k)%nat -> rows_nat k pts ->
  forall fuel, (List.length pts <= fuel)%nat -> chunk fuel k (concat pts) = Ok pts.
Proof.
  intros k pts Hk H. induction H as [|r pts Hr Hpts IH]; intros fuel Hf.
  - destruct fuel; reflexivity.
  - cbn [concat]. destruct r as [|x r]; [cbn in Hr; lia|].
    destruct fuel as [|fuel]; [cbn in Hf; lia|].
    cbn [app chunk].
    assert (Hlen : Nat.ltb (List.length (x :: r ++ concat pts)) k = false).
    { apply Nat.ltb_ge. cbn [List.length] in *. rewrite app_length. lia. }
    rewrite Hlen.
    change (x :: r ++ concat pts) with ((x :: r) ++ concat pts).
    replace (skipn k ((x :: r) ++ concat pts)) with (concat pts).
    2:{ rewrite skipn_app. rewrite Hr. rewrite Nat.sub_diag. cbn [skipn].
        rewrite skipn_all2 by lia. reflexivity. }
    replace (firstn k ((x :: r) ++ concat pts)) with (x :: r).
    2:{ rewrite firstn_app. rewrite Hr. rewrite Nat.sub_diag. cbn [firstn].
        rewrite firstn_all2 by lia. rewrite app_nil_r. reflexivity. }
    rewrite IH by (cbn in Hf; lia). reflexivity.
Qed.

Lemma concat_length_ge : forall k (pts : list (list Q)), (0 < k)%nat -> rows_nat k pts ->
  (List.length pts <= List.length (concat pts))%nat.
Proof.
  intros k pts Hk H. induction H as [|r pts Hr _ IH]; [cbn; lia|].
  cbn [concat List.length]. rewrite app_length. lia.
Qed.

Lemma reshape_concat : forall k pts, (0 < k)%nat -> rows_nat k pts ->
  reshape k (concat pts) = Ok pts.
Proof.
  intros. unfold reshape. apply chunk_concat; auto. eapply concat_length_ge; eauto.
Qed.

Lemma rows_dim_nat : forall k pts, rows_dim (Z.of_nat k) pts = true -> rows_nat k pts.
Proof.
  intros k pts H. unfold rows_dim in H. rewrite forallb_forall in H.
  apply Forall_forall. intros r Hr. specialize (H r Hr). unfold len in H. lia.
Qed.

Lemma pair_up_flat : forall l, pair_up (flat_pairs l) = l.
Proof.
  induction l as [|[a b] l IH]; [reflexivity|].
  cbn [flat_pairs flat_map fst snd app pair_up]. fold (flat_pairs l). rewrite IH. reflexivity.
Qed.

(* ---------- accessors return what the constructor was given ---------- *)
Definition wfv (v : value) : Prop :=
  match v with
  | VImage _ _ fr sg => fr <> Some [] /\ sg <> Some []
  | VScoord _ pts _ _ => rows_nat 2 pts
  | VScoord3d _ pts _ _ => rows_nat 3 pts
  | _ => True
  end.

Definition item_attrs (n : code) (r : option reltype) (v : value) (ks : list dval) : attrs :=
  [("ValueType", DStr (vt_str (class_vt (value_class v))));
   ("ConceptNameCodeSequence", DSeq [code_ds n])]
  ++ rel_attr r ++ value_attrs v ++ kids_attr ks.

Lemma to_attrs_eq : forall c n r v kids,
  to_attrs (Item c n r v kids) = item_attrs n r v (map to_ds kids).
Proof. reflexivity. Qed.

Local Opaque code_first code_ds reshape pair_up flat_pairs g2_of_str g3_of_str trt_of_str rel_of_str concat.

Ltac solve_read :=
  repeat (progress (cbn; unfold enum_of;
    repeat first
      [ rewrite code_first_roundtrip | rewrite g2_roundtrip | rewrite g3_roundtrip
      | rewrite trt_roundtrip | rewrite rel_roundtrip | rewrite pair_up_flat
      | rewrite reshape_concat by (auto; lia) ]));
  try reflexivity.

Lemma get_ints_ne : forall k l a, l <> [] -> get_ints k ((k, DInts l) :: a) = Ok (Some l).
Proof.
  intros k l a H. unfold get_ints. cbn [lookup]. rewrite String.eqb_refl.
  destruct l; [congruence|reflexivity].
Qed.

Lemma accessor_identity : forall n r v ks, wfv v ->
  read_value (value_class v) (item_attrs n r v ks) = Ok v.
Proof.
  intros n r v ks Hwf. unfold item_attrs.
  destruct v; destruct r; destruct ks; cbn [wfv] in Hwf;
    try (solve_read; fail).
  all: try (destruct template; solve_read; fail).
  all: try (destruct qualifier; destruct has_float; solve_read; fail).
  all: try (destruct poi; destruct fiducial; solve_read; fail).
  all: try (destruct fiducial; solve_read; fail).
  all: try (destruct r0; solve_read; fail).
  all: try (destruct r; solve_read; fail).
  all: try (destruct channels; solve_read; fail).
  all: destruct Hwf as [Hf Hs];
    destruct frames as [[|f0 fr]|]; try congruence;
    destruct segments as [[|s0 sg]|]; try congruence; solve_read.
Qed.

(* ---------- parsing what the constructors wrote ---------- *)
Ltac split_all v r ks :=
  destruct v; destruct r; destruct ks;
  repeat match goal with
         | o : option _ |- _ => destruct o
         | x : tref |- _ => destruct x
         | b : bool |- _ => destruct b
         end.

Lemma lookup_content : forall n r v ks,
  lookup "ContentSequence" (item_attrs n r v ks) =
  match ks with [] => None | _ => Some (DSeq ks) end.
Proof. intros. unfold item_attrs. split_all v r ks; reflexivity. Qed.

Lemma lookup_name : forall n r v ks,
  lookup "ConceptNameCodeSequence" (item_attrs n r v ks) = Some (DSeq [code_ds n]).
Proof. reflexivity. Qed.

Lemma assert_ok : forall n r v ks,
  assert_value_type (class_vt (value_class v)) (item_attrs n r v ks) = Ok tt.
Proof. intros. unfold item_attrs. split_all v r ks; reflexivity. Qed.

Lemma dispatch_ok : forall n r v ks,
  check_and_dispatch (item_attrs n (Some r) v ks) = Ok (value_class v).
Proof. intros. unfold item_attrs. destruct v; reflexivity. Qed.

Lemma dispatch_norel : forall n v ks,
  check_and_dispatch (item_attrs n None v ks) = Err EAttr.
Proof.
  intros. unfold item_attrs. destruct v; destruct ks;
  repeat match goal with
         | o : option _ |- _ => destruct o
         | x : tref |- _ => destruct x
         | b : bool |- _ => destruct b
         end; reflexivity.
Qed.

Lemma read_rel_ok : forall n r v ks, read_rel (item_attrs n r v ks) = Ok r.
Proof.
  intros. unfold item_attrs, read_rel.
  split_all v r ks; cbn; unfold enum_of; try rewrite rel_roundtrip; reflexivity.
Qed.

Fixpoint wf (t : item) : Prop :=
  match t with
  | Item c n r v kids =>
      c = value_class v /\ wfv v /\
      (fix all (l : list item) : Prop :=
         match l with
         | [] => True
         | k :: l' => (i_rel k <> None /\ wf k) /\ all l'
         end) kids
  end.

Definition kids_wf (kids : list item) : Prop :=
  Forall (fun k => i_rel k <> None /\ wf k) kids.

Lemma wf_unfold : forall c n r v kids,
  wf (Item c n r v kids) <-> c = value_class v /\ wfv v /\ kids_wf kids.
Proof.
  intros. cbn [wf]. unfold kids_wf.
  assert (H : forall l, (fix all (l : list item) : Prop :=
         match l with
         | [] => True
         | k :: l' => (i_rel k <> None /\ wf k) /\ all l'
         end) l <-> Forall (fun k => i_rel k <> None /\ wf k) l).
  { induction l as [|k l IH]; [split; auto|]. split.
    - intros [H1 H2]. constructor; [exact H1|apply IH; exact H2].
    - intros H. inversion H; subst. split; [assumption|apply IH; assumption]. }
  rewrite H. tauto.
Qed.

Fixpoint item_ind' (P : item -> Prop)
  (H : forall c n r v kids, Forall P kids -> P (Item c n r v kids)) (t : item) : P t :=
  match t with
  | Item c n r v kids =>
      H c n r v kids
        ((fix go (l : list item) : Forall P l :=
            match l with
            | [] => Forall_nil P
            | k :: l' => Forall_cons k (item_ind' P H k) (go l')
            end) kids)
  end.

Lemma seq_check_ok : forall kids, kids_wf kids -> seq_check kids = Ok tt.
Proof.
  intros kids H. unfold seq_check.
  replace (forallb (fun k => match i_rel k with Some _ => true | None => false end) kids) with true;
    [reflexivity|].
  symmetry. apply forallb_forall. intros k Hk.
  unfold kids_wf in H. rewrite Forall_forall in H. destruct (H k Hk) as [Hr _].
  destruct (i_rel k); congruence.
Qed.

Lemma parse_serialise : forall t, wf t ->
  parse (Some (i_cls t)) (to_ds t) = Ok t /\
  (i_rel t <> None -> parse None (to_ds t) = Ok t).
Proof.
  induction t as [c n r v kids IH] using item_ind'. intros Hwf.
  apply wf_unfold in Hwf. destruct Hwf as [Hc [Hv Hk]]. subst c.
  assert (Hkids : mapM (parse None) (map to_ds kids) = Ok kids).
  { clear Hv. induction kids as [|k kids IHk]; [reflexivity|].
    inversion IH as [|? ? IH1 IH2]; subst. inversion Hk as [|? ? [Hr Hw] Hk2]; subst.
    cbn [map mapM]. destruct (IH1 Hw) as [_ Hp]. rewrite (Hp Hr). cbn [bind].
    rewrite (IHk IH2 Hk2). reflexivity. }
  assert (Hbody : forall oc, (match oc with Some c => Ok c | None => check_and_dispatch (item_attrs n r v (map to_ds kids)) end) = Ok (value_class v) ->
     parse oc (to_ds (Item (value_class v) n r v kids)) = Ok (Item (value_class v) n r v kids)).
  { intros oc Hoc. unfold to_ds. rewrite to_attrs_eq. rewrite parse_unfold.
    unfold parse_body. rewrite Hoc. cbn [bind].
    rewrite assert_ok. cbn [bind]. rewrite lookup_name. cbn [bind].
    unfold kids_of. rewrite lookup_content.
    assert (Hks : match (match map to_ds kids with [] => None | _ :: _ => Some (DSeq (map to_ds kids)) end) with
                  | None => None
                  | Some (DSeq items) => Some (mapM (parse None) items)
                  | Some _ => Some (Err EType)
                  end = match kids with [] => None | _ => Some (Ok kids) end).
    { destruct kids as [|k kids']; [reflexivity|]. cbn [map]. cbn [map] in Hkids. rewrite Hkids. reflexivity. }
    rewrite Hks.
    replace (match (match kids with [] => None | _ :: _ => Some (Ok kids) end) with
             | None => Ok [] | Some r0 => r0 end) with (Ok kids) by (destruct kids; reflexivity).
    cbn [bind]. rewrite (seq_check_ok kids Hk). cbn [bind].
    rewrite code_first_roundtrip. cbn [bind].
    rewrite accessor_identity by exact Hv. cbn [bind].
    rewrite read_rel_ok. reflexivity. }
  split.
  - apply Hbody. reflexivity.
  - intros Hr. cbn [i_rel] in Hr. destruct r as [r|]; [|congruence].
    apply Hbody. apply dispatch_ok.
Qed.

Lemma from_sequence_roundtrip : forall l, kids_wf l -> from_sequence (map to_ds l) = Ok l.
Proof.
  intros l H. unfold from_sequence.
  assert (Hm : mapM (parse None) (map to_ds l) = Ok l).
  { induction H as [|k l [Hr Hw] _ IH]; [reflexivity|].
    cbn [map mapM]. destruct (parse_serialise k Hw) as [_ Hp]. rewrite (Hp Hr). cbn [bind].
    rewrite IH. reflexivity. }
  rewrite Hm. cbn [bind]. rewrite (seq_check_ok l H). reflexivity.
Qed.

(* ---------- rejection on parsing ---------- *)
Lemma wrong_vt_rejected : forall c a s,
  lookup "ValueType" a = Some (DStr s) -> s <> vt_str (class_vt c) ->
  parse (Some c) (DSet a) = Err EValue.
Proof.
  intros c a s Hl Hs. rewrite parse_unfold. unfold parse_body. cbn [bind].
  unfold assert_value_type, assert_value_type_in. rewrite Hl.
  destruct (String.eqb s (vt_str (class_vt c))) eqn:E.
  - apply String.eqb_eq in E. contradiction.
  - reflexivity.
Qed.

Lemma wrong_vt_nonstring : forall c a d,
  lookup "ValueType" a = Some d -> (forall s, d <> DStr s) ->
  parse (Some c) (DSet a) = Err EValue.
Proof.
  intros c a d Hl Hd. rewrite parse_unfold. unfold parse_body. cbn [bind].
  unfold assert_value_type, assert_value_type_in. rewrite Hl.
  destruct d; try reflexivity. exfalso. eapply Hd. reflexivity.
Qed.

Lemma missing_value_type : forall oc a,
  lookup "ValueType" a = None -> parse oc (DSet a) = Err EAttr.
Proof.
  intros oc a Hl. rewrite parse_unfold. unfold parse_body.
  destruct oc as [c|]; cbn [bind].
  - unfold assert_value_type, assert_value_type_in. rewrite Hl. reflexivity.
  - unfold check_and_dispatch. rewrite Hl. reflexivity.
Qed.

Definition required (c : ctag) : list string :=
  match assoc (vt_str (class_vt c)) required_table with Some l => l | None => [] end.

Lemma required_total : forall c, assoc (vt_str (class_vt c)) required_table = Some (required c).
Proof. destruct c; reflexivity. Qed.

Lemma missing_attr_rejected : forall c a k,
  lookup "ValueType" a = Some (DStr (vt_str (class_vt c))) ->
  In k (required c) -> lookup k a = None ->
  parse (Some c) (DSet a) = Err EAttr.
Proof.
  intros c a k Hv Hin Hk. rewrite parse_unfold. unfold parse_body. cbn [bind].
  unfold assert_value_type, assert_value_type_in. rewrite Hv. rewrite String.eqb_refl. cbn [negb].
  rewrite required_total.
  destruct (forallb (fun k0 => has k0 a) (required c)) eqn:E; [|reflexivity].
  rewrite forallb_forall in E. specialize (E k Hin). unfold has in E. rewrite Hk in E. discriminate.
Qed.

Lemma missing_name_rejected : forall c a,
  lookup "ValueType" a = Some (DStr (vt_str (class_vt c))) ->
  lookup "ConceptNameCodeSequence" a = None ->
  mem (ctag_str c) optional_name_classes = false ->
  (forall k, In k (required c) -> lookup k a <> None) ->
  parse (Some c) (DSet a) = Err EAttr.
Proof.
  intros c a Hv Hn Hm Hreq. rewrite parse_unfold. unfold parse_body. cbn [bind].
  unfold assert_value_type, assert_value_type_in. rewrite Hv. rewrite String.eqb_refl. cbn [negb].
  rewrite required_total.
  replace (forallb (fun k0 => has k0 a) (required c)) with true.
  2:{ symmetry. apply forallb_forall. intros k Hk. specialize (Hreq k Hk). unfold has.
      destruct (lookup k a); congruence. }
  cbn [bind]. rewrite Hn. rewrite Hm. reflexivity.
Qed.

(* dispatch: unknown value type, missing relationship *)
Lemma unknown_vt_rejected : forall a s,
  lookup "ValueType" a = Some (DStr s) -> vt_of_str s = None ->
  parse None (DSet a) = Err EValue.
Proof.
  intros a s Hl Hs. rewrite parse_unfold. unfold parse_body, check_and_dispatch.
  rewrite Hl, Hs. reflexivity.
Qed.

Lemma missing_rel_rejected : forall a s v,
  lookup "ValueType" a = Some (DStr s) -> vt_of_str s = Some v ->
  lookup "RelationshipType" a = None ->
  parse None (DSet a) = Err EAttr.
Proof.
  intros a s v Hl Hs Hr. rewrite parse_unfold. unfold parse_body, check_and_dispatch.
  rewrite Hl, Hs. unfold has. rewrite Hr. reflexivity.
Qed.

(* whatever the dispatch accepts has the class of its value type and all
   attributes the table requires *)
Lemma parse_class : forall oc a t, parse oc (DSet a) = Ok t ->
  lookup "ValueType" a = Some (DStr (vt_str (class_vt (i_cls t)))) /\
  (forall k, In k (required (i_cls t)) -> lookup k a <> None) /\
  (oc = None -> lookup "RelationshipType" a <> None) /\
  (forall c, oc = Some c -> i_cls t = c).
Proof.
  intros oc a t H. rewrite parse_unfold in H. unfold parse_body in H.
  destruct (match oc with Some c => Ok c | None => check_and_dispatch a end) as [c|] eqn:Ec;
    [|discriminate]. cbn [bind] in H.
  destruct (assert_value_type (class_vt c) a) as [[]|] eqn:Ea; [|discriminate]. cbn [bind] in H.
  assert (Hcls : i_cls t = c).
  { repeat match type of H with
           | bind ?x _ = Ok _ => destruct x; [cbn [bind] in H|discriminate]
           end. inversion H. reflexivity. }
  rewrite Hcls.
  unfold assert_value_type, assert_value_type_in in Ea.
  destruct (lookup "ValueType" a) as [d|] eqn:Ev; [|discriminate].
  destruct d; try discriminate.
  destruct (String.eqb s (vt_str (class_vt c))) eqn:Es; [|discriminate].
  apply String.eqb_eq in Es. subst s. cbn [negb] in Ea.
  rewrite required_total in Ea.
  destruct (forallb (fun k => has k a) (required c)) eqn:Ef; [|discriminate].
  rewrite forallb_forall in Ef.
  repeat split.
  - intros k Hk. specialize (Ef k Hk). unfold has in Ef. destruct (lookup k a); congruence.
  - intros ->. unfold check_and_dispatch in Ec. rewrite Ev in Ec.
    destruct (vt_of_str (vt_str (class_vt c))); [|discriminate].
    unfold has in Ec. destruct (lookup "RelationshipType" a); [congruence|discriminate].
  - intros c' ->. inversion Ec. reflexivity.
Qed.

(* ---------- graphic data: the standard's count table ---------- *)
(* (minimum, maximum or unbounded) number of points per graphic type,
   DICOM PS3.3 C.18.6.1.2 / C.18.9.1.2 as read by highdicom *)
Definition std2 (g : g2) : Z * option Z :=
  match g with
  | G2Point => (1, Some 1) | G2Circle => (2, Some 2) | G2Ellipse => (4, Some 4)
  | G2Multipoint => (2, None) | G2Polyline => (2, None)
  end.
Definition std3 (g : g3) : Z * option Z :=
  match g with
  | G3Point => (1, Some 1) | G3Ellipse => (4, Some 4) | G3Ellipsoid => (6, Some 6)
  | G3Multipoint => (2, None) | G3Polyline => (2, None) | G3Polygon => (2, None)
  end.
Definition in_range (n : Z) (b : Z * option Z) : Prop :=
  fst b <= n /\ match snd b with Some h => n <= h | None => True end.

Lemma count2_table : forall g n, scoord_count_ok g n = true <-> in_range n (std2 g).
Proof. intros g n. unfold in_range. destruct g; cbn; lia. Qed.
Lemma count3_table : forall g n, scoord3d_count_ok g n = true <-> in_range n (std3 g).
Proof. intros g n. unfold in_range. destruct g; cbn; lia. Qed.

Lemma scoord_accepts : forall g pts,
  scoord_check g pts = Ok tt <-> (in_range (len pts) (std2 g) /\ rows_dim 2 pts = true).
Proof.
  intros g pts. unfold scoord_check, ok_if. rewrite <- count2_table.
  destruct (scoord_count_ok g (len pts)); destruct (rows_dim 2 pts); cbn; split; intros H;
    try discriminate; try reflexivity; try tauto; destruct H; discriminate.
Qed.

Lemma scoord_rejects : forall g pts,
  scoord_check g pts = Err EValue <-> ~ (in_range (len pts) (std2 g) /\ rows_dim 2 pts = true).
Proof.
  intros g pts. rewrite <- scoord_accepts. unfold scoord_check, ok_if.
  destruct (scoord_count_ok g (len pts) && rows_dim 2 pts); split; intros H; try discriminate;
    try reflexivity; try congruence.
Qed.

Definition needs_closed (g : g3) : bool := match g with G3Polygon => true | _ => false end.
Definition needs_coplanar (g : g3) : bool :=
  match g with G3Polygon | G3Ellipse => true | _ => false end.

Lemma scoord3d_accepts : forall g pts,
  scoord3d_check g pts = Ok tt <->
  (in_range (len pts) (std3 g) /\ rows_dim 3 pts = true /\
   (needs_closed g = true -> closed pts = true) /\
   (needs_coplanar g = true -> coplanar pts = true)).
Proof.
  intros g pts. unfold scoord3d_check, ok_if. rewrite <- count3_table.
  destruct (scoord3d_count_ok g (len pts)); destruct (rows_dim 3 pts); cbn [andb bind];
    try (split; [discriminate|intros [? [? _]]; discriminate]).
  destruct g; cbn [needs_closed needs_coplanar bind];
    try (split; [intros _; repeat split; intros; discriminate|reflexivity]).
  - (* ellipse *) destruct (coplanar pts); split; intros H; try discriminate; try reflexivity.
    + repeat split; intros; try discriminate; reflexivity.
    + destruct H as [_ [_ [_ H]]]. specialize (H eq_refl). discriminate.
  - (* polygon *) destruct (closed pts); cbn [bind].
    + destruct (coplanar pts); split; intros H; try discriminate; try reflexivity.
      * repeat split; reflexivity.
      * destruct H as [_ [_ [_ H]]]. specialize (H eq_refl). discriminate.
    + split; intros H; try discriminate. destruct H as [_ [_ [H _]]]. specialize (H eq_refl). discriminate.
Qed.

Lemma scoord3d_total : forall g pts,
  scoord3d_check g pts = Ok tt \/ scoord3d_check g pts = Err EValue.
Proof.
  intros g pts. unfold scoord3d_check, ok_if.
  destruct (scoord3d_count_ok g (len pts) && rows_dim 3 pts); cbn [bind]; [|right; reflexivity].
  destruct g; cbn [bind]; try (left; reflexivity).
  - destruct (coplanar pts); auto.
  - destruct (closed pts); cbn [bind]; [destruct (coplanar pts); auto|auto].
Qed.

Open Scope Q_scope.
(* three or fewer points are always coplanar (n < 4 branch of the code) *)
Lemma det3_self0 : forall a b : v3, Qeq_bool (det3 a a b) 0 = true /\ Qeq_bool (det3 a b a) 0 = true
  /\ Qeq_bool (det3 b a a) 0 = true.
Proof.
  intros [[a1 a2] a3] [[b1 b2] b3]. repeat split; apply Qeq_bool_iff; unfold det3; ring.
Qed.

(* points of a common plane pass the exact test *)
Definition dot (n a : v3) : Q :=
  let '(n1, n2, n3) := n in let '(a1, a2, a3) := a in (n1 * a1 + n2 * a2 + n3 * a3)%Q.

Lemma det3_orth : forall n u v w : v3,
  dot n u == 0 -> dot n v == 0 -> dot n w == 0 ->
  (~ fst (fst n) == 0 \/ ~ snd (fst n) == 0 \/ ~ snd n == 0) -> det3 u v w == 0.
Proof.
  intros [[a b] c] [[u1 u2] u3] [[v1 v2] v3] [[w1 w2] w3] Hu Hv Hw Hn.
  cbn [dot fst snd] in *. unfold det3.
  set (D := (u1 * (v2 * w3 - v3 * w2) - u2 * (v1 * w3 - v3 * w1) + u3 * (v1 * w2 - v2 * w1))%Q).
  assert (Ha : a * D == 0).
  { transitivity ((a*u1+b*u2+c*u3) * (v2*w3-v3*w2) - (a*v1+b*v2+c*v3) * (u2*w3-u3*w2)
                  + (a*w1+b*w2+c*w3) * (u2*v3-u3*v2)).
    - unfold D. ring.
    - rewrite Hu, Hv, Hw. ring. }
  assert (Hb : b * D == 0).
  { transitivity (- ((a*u1+b*u2+c*u3) * (v1*w3-v3*w1)) + (a*v1+b*v2+c*v3) * (u1*w3-u3*w1)
                  - (a*w1+b*w2+c*w3) * (u1*v3-u3*v1)).
    - unfold D. ring.
    - rewrite Hu, Hv, Hw. ring. }
  assert (Hc : c * D == 0).
  { transitivity ((a*u1+b*u2+c*u3) * (v1*w2-v2*w1) - (a*v1+b*v2+c*v3) * (u1*w2-u2*w1)
                  + (a*w1+b*w2+c*w3) * (u1*v2-u2*v1)).
    - unfold D. ring.
    - rewrite Hu, Hv, Hw. ring. }
  destruct Hn as [Hn|[Hn|Hn]].
  - apply Qmult_integral in Ha. tauto.
  - apply Qmult_integral in Hb. tauto.
  - apply Qmult_integral in Hc. tauto.
Qed.

Lemma dot_vsub : forall n p q, dot n (vsub p q) == dot n p - dot n q.
Proof. intros [[a b] c] [[p1 p2] p3] [[q1 q2] q3]. cbn. ring. Qed.

Lemma plane_points_coplanar : forall (n : v3) (d : Q) (ps : list v3),
  (~ fst (fst n) == 0 \/ ~ snd (fst n) == 0 \/ ~ snd n == 0) ->
  (forall p, In p ps -> dot n p == d) -> coplanar_v ps = true.
Proof.
  intros n d ps Hn Hp. destruct ps as [|p0 rest]; [reflexivity|].
  cbn [coplanar_v].
  assert (Hd : forall x, In x (map (fun p => vsub p p0) rest) -> dot n x == 0).
  { intros x Hx. apply in_map_iff in Hx. destruct Hx as [p [<- Hin]].
    rewrite dot_vsub. rewrite (Hp p (or_intror Hin)). rewrite (Hp p0 (or_introl eq_refl)). ring. }
  apply forallb_forall. intros a Ha. apply forallb_forall. intros b Hb.
  apply forallb_forall. intros c Hc. apply Qeq_bool_iff.
  apply (det3_orth n a b c); auto.
Qed.

Close Scope Q_scope.
(* ---------- constructors ---------- *)
Fixpoint valid (t : item) : Prop :=
  match t with
  | Item _ n _ v kids =>
      code_check n = Ok tt /\ value_check v = Ok tt /\
      (fix all (l : list item) : Prop :=
         match l with [] => True | k :: l' => valid k /\ all l' end) kids
  end.

Lemma valid_unfold : forall c n r v kids,
  valid (Item c n r v kids) <-> code_check n = Ok tt /\ value_check v = Ok tt /\ Forall valid kids.
Proof.
  intros. cbn [valid].
  assert (H : forall l, (fix all (l : list item) : Prop :=
         match l with [] => True | k :: l' => valid k /\ all l' end) l <-> Forall valid l).
  { induction l as [|k l IH]; [split; auto|]. split.
    - intros [H1 H2]. constructor; [exact H1|apply IH; exact H2].
    - intros H. inversion H; subst. split; [assumption|apply IH; assumption]. }
  rewrite H. tauto.
Qed.

Lemma construct_ok : forall t, wf t -> valid t -> construct t = Ok t.
Proof.
  induction t as [c n r v kids IH] using item_ind'. intros Hwf Hval.
  apply wf_unfold in Hwf. destruct Hwf as [Hc [Hv Hk]]. subst c.
  apply valid_unfold in Hval. destruct Hval as [Hn [Hvc Hkv]].
  cbn [construct]. rewrite Hn. cbn [bind]. rewrite Hvc. cbn [bind].
  assert (Hm : mapM construct kids = Ok kids).
  { clear Hv Hvc. induction kids as [|k kids IHk]; [reflexivity|].
    inversion IH as [|? ? IH1 IH2]; subst. inversion Hk as [|? ? [Hr Hw] Hk2]; subst.
    inversion Hkv as [|? ? Hv1 Hv2]; subst.
    cbn [mapM]. rewrite (IH1 Hw Hv1). cbn [bind]. rewrite (IHk IH2 Hk2 Hv2). reflexivity. }
  rewrite Hm. cbn [bind]. rewrite (seq_check_ok kids Hk). reflexivity.
Qed.

(* a child without relationship type is refused when the sequence is built *)
Lemma construct_norel : forall c n r v kids kids',
  code_check n = Ok tt -> value_check v = Ok tt -> mapM construct kids = Ok kids' ->
  (exists k, In k kids' /\ i_rel k = None) ->
  construct (Item c n r v kids) = Err EAttr.
Proof.
  intros c n r v kids kids' Hn Hv Hm [k [Hin Hr]].
  cbn [construct]. rewrite Hn, Hv. cbn [bind]. rewrite Hm. cbn [bind].
  unfold seq_check.
  destruct (forallb (fun k0 => match i_rel k0 with Some _ => true | None => false end) kids') eqn:E;
    [|reflexivity].
  rewrite forallb_forall in E. specialize (E k Hin). rewrite Hr in E. discriminate.
Qed.

Open Scope Q_scope.
Lemma coplanar_small : forall ps, (List.length ps <= 3)%nat -> coplanar_v ps = true.
Proof.
  intros ps H.
  destruct ps as [|p0 [|p1 [|p2 [|p3 ps]]]]; try reflexivity; [| |cbn in H; lia].
  - cbn [coplanar_v map forallb]. rewrite andb_true_r. rewrite andb_true_r. rewrite andb_true_r.
    apply Qeq_bool_iff. destruct (vsub p1 p0) as [[a b] c]. unfold det3. ring.
  - cbn [coplanar_v map forallb].
    destruct (vsub p1 p0) as [[a1 a2] a3]. destruct (vsub p2 p0) as [[b1 b2] b3].
    repeat (apply andb_true_intro; split); try reflexivity;
      apply Qeq_bool_iff; unfold det3; ring.
Qed.
Close Scope Q_scope.

(* ---------- what the constructors accept is valid ---------- *)
Fixpoint retag (t : item) : item :=
  match t with Item _ n r v kids => Item (value_class v) n r v (map retag kids) end.

Fixpoint rel_ok (t : item) : Prop :=
  match t with
  | Item _ _ _ _ kids =>
      (fix all (l : list item) : Prop :=
         match l with [] => True | k :: l' => (i_rel k <> None /\ rel_ok k) /\ all l' end) kids
  end.

Lemma rel_ok_unfold : forall c n r v kids,
  rel_ok (Item c n r v kids) <-> Forall (fun k => i_rel k <> None /\ rel_ok k) kids.
Proof.
  intros. cbn [rel_ok].
  induction kids as [|k l IH]; [split; auto|]. split.
  - intros [H1 H2]. constructor; [exact H1|apply IH; exact H2].
  - intros H. inversion H; subst. split; [assumption|apply IH; assumption].
Qed.

Lemma i_rel_retag : forall t, i_rel (retag t) = i_rel t.
Proof. destruct t; reflexivity. Qed.

Lemma bind_ok : forall {A B} (x : res A) (f : A -> res B) y,
  bind x f = Ok y -> exists a, x = Ok a /\ f a = Ok y.
Proof. intros A B [a|k] f y H; [exists a; auto|discriminate]. Qed.

Lemma construct_sound : forall t t', construct t = Ok t' ->
  t' = retag t /\ valid t /\ rel_ok t.
Proof.
  induction t as [c n r v kids IH] using item_ind'. intros t' H.
  cbn [construct] in H.
  apply bind_ok in H. destruct H as [[] [Hn H]].
  apply bind_ok in H. destruct H as [[] [Hv H]].
  apply bind_ok in H. destruct H as [kids' [Hm H]].
  apply bind_ok in H. destruct H as [[] [Hs H]]. inversion H; subst t'; clear H.
  assert (Hk : kids' = map retag kids /\ Forall valid kids /\ Forall rel_ok kids).
  { clear Hs. revert kids' Hm. induction kids as [|k kids IHk]; intros kids' Hm.
    - inversion Hm. repeat split; constructor.
    - inversion IH as [|? ? IH1 IH2]; subst. cbn [mapM] in Hm.
      apply bind_ok in Hm. destruct Hm as [k' [Hk' Hm]].
      apply bind_ok in Hm. destruct Hm as [ks' [Hks' Hm]]. inversion Hm; subst kids'.
      destruct (IH1 _ Hk') as [E1 [V1 R1]]. destruct (IHk IH2 _ Hks') as [E2 [V2 R2]].
      subst. repeat split; constructor; assumption. }
  destruct Hk as [E [Vk Rk]]. subst kids'.
  split; [reflexivity|]. split.
  - apply valid_unfold. auto.
  - apply rel_ok_unfold. unfold seq_check in Hs.
    destruct (forallb (fun k => match i_rel k with Some _ => true | None => false end) (map retag kids)) eqn:E;
      [|discriminate].
    rewrite forallb_forall in E. apply Forall_forall. intros k Hin. split.
    + specialize (E (retag k) (in_map retag kids k Hin)). rewrite i_rel_retag in E.
      destruct (i_rel k); congruence.
    + rewrite Forall_forall in Rk. auto.
Qed.

(* validity of a value, spelled out for the graphic types *)
Lemma valid_scoord : forall g pts poi fid, value_check (VScoord g pts poi fid) = Ok tt ->
  in_range (len pts) (std2 g) /\ rows_dim 2 pts = true.
Proof.
  intros g pts poi fid H. cbn [value_check] in H. apply bind_ok in H. destruct H as [[] [H _]].
  apply scoord_accepts. exact H.
Qed.

Lemma valid_scoord3d : forall g pts fu fid, value_check (VScoord3d g pts fu fid) = Ok tt ->
  in_range (len pts) (std3 g) /\ rows_dim 3 pts = true /\
  (needs_closed g = true -> closed pts = true) /\ (needs_coplanar g = true -> coplanar pts = true).
Proof. intros g pts fu fid H. cbn [value_check] in H. apply scoord3d_accepts. exact H. Qed.

Open Scope Q_scope.
(* ---------- the exact test is sound: it only accepts points of a plane ---------- *)
Definition cross (a b : v3) : v3 :=
  let '(a1, a2, a3) := a in let '(b1, b2, b3) := b in
  (a2 * b3 - a3 * b2, a3 * b1 - a1 * b3, a1 * b2 - a2 * b1).
Definition zero_b (a : v3) : bool :=
  let '(a1, a2, a3) := a in Qeq_bool a1 0 && Qeq_bool a2 0 && Qeq_bool a3 0.
Definition nonzero (n : v3) : Prop := ~ fst (fst n) == 0 \/ ~ snd (fst n) == 0 \/ ~ snd n == 0.

Lemma zero_b_false : forall a, zero_b a = false -> nonzero a.
Proof.
  intros [[a1 a2] a3] H. unfold nonzero. cbn [zero_b fst snd] in *.
  destruct (Qeq_bool a1 0) eqn:E1; [|left; apply Qeq_bool_neq; exact E1].
  destruct (Qeq_bool a2 0) eqn:E2; [|right; left; apply Qeq_bool_neq; exact E2].
  destruct (Qeq_bool a3 0) eqn:E3; [discriminate|right; right; apply Qeq_bool_neq; exact E3].
Qed.

Lemma zero_b_true : forall a1 a2 a3, zero_b (a1, a2, a3) = true -> a1 == 0 /\ a2 == 0 /\ a3 == 0.
Proof.
  intros a1 a2 a3 H. cbn [zero_b] in H. apply andb_prop in H. destruct H as [H H3].
  apply andb_prop in H. destruct H as [H1 H2].
  repeat split; apply Qeq_bool_iff; assumption.
Qed.

Lemma dot_cross : forall a b c, dot (cross a b) c == det3 a b c.
Proof. intros [[a1 a2] a3] [[b1 b2] b3] [[c1 c2] c3]. cbn. ring. Qed.

Lemma existsb_false : forall {A} (f : A -> bool) l, existsb f l = false -> forall x, In x l -> f x = false.
Proof.
  intros A f l H x Hx. destruct (f x) eqn:E; [|reflexivity].
  assert (existsb f l = true) by (apply existsb_exists; exists x; auto). congruence.
Qed.

Lemma common_normal : forall ds : list v3,
  (forall a b c, In a ds -> In b ds -> In c ds -> det3 a b c == 0) ->
  exists n, nonzero n /\ forall c, In c ds -> dot n c == 0.
Proof.
  intros ds Hdet.
  destruct (existsb (fun a => existsb (fun b => negb (zero_b (cross a b))) ds) ds) eqn:E.
  - apply existsb_exists in E. destruct E as [a [Ha E]].
    apply existsb_exists in E. destruct E as [b [Hb E]].
    exists (cross a b). split.
    + apply zero_b_false. destruct (zero_b (cross a b)); [discriminate|reflexivity].
    + intros c Hc. rewrite dot_cross. apply Hdet; assumption.
  - assert (Hc : forall a b, In a ds -> In b ds -> zero_b (cross a b) = true).
    { intros a b Ha Hb. pose proof (existsb_false _ _ E a Ha) as E1. cbn beta in E1.
      pose proof (existsb_false _ _ E1 b Hb) as E2. cbn beta in E2.
      destruct (zero_b (cross a b)); [reflexivity|discriminate]. }
    destruct (existsb (fun a => negb (zero_b a)) ds) eqn:E2.
    + apply existsb_exists in E2. destruct E2 as [[[a1 a2] a3] [Ha E2]].
      assert (Hnz : zero_b (a1, a2, a3) = false) by (destruct (zero_b (a1, a2, a3)); [discriminate|reflexivity]).
      destruct (Qeq_bool a1 0 && Qeq_bool a2 0) eqn:E12.
      * (* a = (0,0,a3), a3 <> 0 *)
        apply andb_prop in E12. destruct E12 as [Z1 Z2].
        assert (N3 : ~ a3 == 0).
        { cbn [zero_b] in Hnz. rewrite Z1, Z2 in Hnz. cbn [andb] in Hnz. apply Qeq_bool_neq. exact Hnz. }
        exists (0, - a3, a2). split.
        { right. left. cbn [fst snd]. intros H. apply N3. rewrite <- (Qopp_opp a3). rewrite H. reflexivity. }
        intros [[c1 c2] c3] Hcin. pose proof (Hc _ _ Ha Hcin) as Hz. cbn [cross] in Hz.
        apply zero_b_true in Hz. destruct Hz as [Hz1 _]. cbn [dot]. transitivity (a2 * c3 - a3 * c2); [ring|exact Hz1].
      * exists (- a2, a1, 0). split.
        { unfold nonzero. cbn [fst snd].
          destruct (Qeq_bool a1 0) eqn:Z1.
          - destruct (Qeq_bool a2 0) eqn:Z2; [discriminate|].
            left. intros H. apply Qeq_bool_neq in Z2. apply Z2.
            rewrite <- (Qopp_opp a2). rewrite H. reflexivity.
          - right. left. apply Qeq_bool_neq. exact Z1. }
        intros [[c1 c2] c3] Hcin. pose proof (Hc _ _ Ha Hcin) as Hz. cbn [cross] in Hz.
        apply zero_b_true in Hz. destruct Hz as [_ [_ Hz3]]. cbn [dot]. transitivity (a1 * c2 - a2 * c1); [ring|exact Hz3].
    + exists (1, 0, 0). split.
      * left. cbn. discriminate.
      * intros [[c1 c2] c3] Hcin. pose proof (existsb_false _ _ E2 _ Hcin) as Hz. cbn beta in Hz.
        assert (Hz' : zero_b (c1, c2, c3) = true) by (destruct (zero_b (c1, c2, c3)); [reflexivity|discriminate]).
        apply zero_b_true in Hz'. destruct Hz' as [H1 _]. cbn [dot]. transitivity c1; [ring|exact H1].
Qed.

Lemma coplanar_sound : forall ps, coplanar_v ps = true ->
  exists n d, nonzero n /\ forall p, In p ps -> dot n p == d.
Proof.
  intros [|p0 rest] H.
  - exists (1, 0, 0), 0. split; [left; cbn; discriminate|intros p []].
  - cbn [coplanar_v] in H.
    set (ds := map (fun p => vsub p p0) rest) in *.
    assert (Hdet : forall a b c, In a ds -> In b ds -> In c ds -> det3 a b c == 0).
    { intros a b c Ha Hb Hc. rewrite forallb_forall in H. specialize (H a Ha).
      rewrite forallb_forall in H. specialize (H b Hb).
      rewrite forallb_forall in H. specialize (H c Hc). apply Qeq_bool_iff. exact H. }
    destruct (common_normal ds Hdet) as [n [Hn Hd]].
    exists n, (dot n p0). split; [exact Hn|].
    intros p [<-|Hp]; [reflexivity|].
    assert (Hin : In (vsub p p0) ds) by (unfold ds; exact (in_map (fun q => vsub q p0) rest p Hp)).
    specialize (Hd _ Hin). rewrite dot_vsub in Hd.
    transitivity ((dot n p - dot n p0) + dot n p0); [ring|]. rewrite Hd. ring.
Qed.

Theorem coplanar_iff_plane : forall ps,
  coplanar_v ps = true <-> exists n d, nonzero n /\ forall p, In p ps -> dot n p == d.
Proof.
  intros ps. split; [apply coplanar_sound|].
  intros [n [d [Hn Hp]]]. eapply plane_points_coplanar; eauto.
Qed.
Close Scope Q_scope.

(* ---------- parse-time checks alone (X.from_dataset / from_sequence without accessors) ---------- *)
Definition akids_of (a : attrs) : option (res unit) :=
  match lookup "ContentSequence" a with
  | None => None
  | Some (DSeq items) => Some (bind (discard (mapM (accept None) items))
                                    (fun _ => discard (mapM rel_present items)))
  | Some _ => Some (Err EType)
  end.

Lemma go_mapM : forall items,
  (fix go (is : list dval) : res unit :=
     match is with [] => Ok tt | i :: is' => bind (accept None i) (fun _ => go is') end) items
  = discard (mapM (accept None) items).
Proof.
  induction items as [|i is IH]; [reflexivity|].
  cbn [mapM]. rewrite IH. unfold discard. destruct (accept None i) as [[]|]; cbn [bind]; [|reflexivity].
  destruct (mapM (accept None) is); reflexivity.
Qed.

Lemma accept_unfold : forall c a, accept c (DSet a) = accept_body c a (akids_of a).
Proof.
  intros c a. cbn [accept]. f_equal. unfold akids_of.
  induction a as [|[k v] a IH]; [reflexivity|].
  cbn [lookup]. destruct (String.eqb k "ContentSequence"); [|exact IH].
  destruct v; try reflexivity. rewrite go_mapM. reflexivity.
Qed.

Lemma rel_present_ok : forall c n r v kids,
  rel_present (to_ds (Item c n (Some r) v kids)) = Ok tt.
Proof.
  intros. unfold to_ds. rewrite to_attrs_eq. cbn [rel_present]. rewrite read_rel_ok. reflexivity.
Qed.

Lemma value_accept_ok : forall n r v ks,
  match value_class v with
  | CodeContentItem => discard (bind (get "ConceptCodeSequence" (item_attrs n r v ks)) code_first)
  | NumContentItem =>
      bind (get "MeasuredValueSequence" (item_attrs n r v ks)) (fun s =>
      bind (first_item s) (fun it =>
      bind (discard (bind (get "MeasurementUnitsCodeSequence" it) code_first)) (fun _ =>
      match lookup "NumericValueQualifierCodeSequence" (item_attrs n r v ks) with
      | None => Ok tt
      | Some s => discard (code_first s)
      end)))
  | _ => Ok tt
  end = Ok tt.
Proof.
  intros. unfold item_attrs.
  destruct v; try reflexivity; destruct r; destruct ks;
    repeat match goal with o : option _ |- _ => destruct o | b : bool |- _ => destruct b end;
    cbn; unfold discard; repeat rewrite code_first_roundtrip; reflexivity.
Qed.

Lemma accept_serialise : forall t, wf t ->
  accept (Some (i_cls t)) (to_ds t) = Ok tt /\
  (i_rel t <> None -> accept None (to_ds t) = Ok tt).
Proof.
  induction t as [c n r v kids IH] using item_ind'. intros Hwf.
  apply wf_unfold in Hwf. destruct Hwf as [Hc [Hv Hk]]. subst c.
  assert (Hkids : mapM (accept None) (map to_ds kids) = Ok (map (fun _ => tt) kids) /\
                  mapM rel_present (map to_ds kids) = Ok (map (fun _ => tt) kids)).
  { clear Hv. induction kids as [|k kids IHk]; [split; reflexivity|].
    inversion IH as [|? ? IH1 IH2]; subst. inversion Hk as [|? ? [Hr Hw] Hk2]; subst.
    destruct (IHk IH2 Hk2) as [E1 E2]. cbn [map mapM]. destruct (IH1 Hw) as [_ Hp].
    rewrite (Hp Hr). cbn [bind]. rewrite E1. cbn [bind].
    destruct k as [kc kn [kr|] kv kk]; [|cbn in Hr; congruence].
    rewrite rel_present_ok. cbn [bind]. rewrite E2. split; reflexivity. }
  destruct Hkids as [Hk1 Hk2].
  assert (Hbody : forall oc, (match oc with Some c => Ok c | None => check_and_dispatch (item_attrs n r v (map to_ds kids)) end) = Ok (value_class v) ->
     accept oc (to_ds (Item (value_class v) n r v kids)) = Ok tt).
  { intros oc Hoc. unfold to_ds. rewrite to_attrs_eq. rewrite accept_unfold.
    unfold accept_body. rewrite Hoc. cbn [bind].
    rewrite assert_ok. cbn [bind]. rewrite lookup_name. cbn [bind].
    unfold akids_of. rewrite lookup_content.
    replace (match (match (match map to_ds kids with [] => None | _ :: _ => Some (DSeq (map to_ds kids)) end) with
                    | None => None
                    | Some (DSeq items) => Some (bind (discard (mapM (accept None) items))
                                                      (fun _ => discard (mapM rel_present items)))
                    | Some _ => Some (Err EType)
                    end) with None => Ok tt | Some r0 => r0 end) with (Ok tt).
    2:{ destruct kids as [|k kids']; [reflexivity|]. cbn [map] in *. rewrite Hk1, Hk2. reflexivity. }
    cbn [bind]. unfold discard at 1. rewrite code_first_roundtrip. cbn [bind].
    apply value_accept_ok. }
  split.
  - apply Hbody. reflexivity.
  - intros Hr. cbn [i_rel] in Hr. destruct r as [r|]; [|congruence].
    apply Hbody. apply dispatch_ok.
Qed.

Lemma accept_wrong_vt : forall c a s,
  lookup "ValueType" a = Some (DStr s) -> s <> vt_str (class_vt c) ->
  accept (Some c) (DSet a) = Err EValue.
Proof.
  intros c a s Hl Hs. rewrite accept_unfold. unfold accept_body. cbn [bind].
  unfold assert_value_type, assert_value_type_in. rewrite Hl.
  destruct (String.eqb s (vt_str (class_vt c))) eqn:E.
  - apply String.eqb_eq in E. contradiction.
  - reflexivity.
Qed.

Lemma accept_missing_value_type : forall oc a,
  lookup "ValueType" a = None -> accept oc (DSet a) = Err EAttr.
Proof.
  intros oc a Hl. rewrite accept_unfold. unfold accept_body.
  destruct oc as [c|]; cbn [bind].
  - unfold assert_value_type, assert_value_type_in. rewrite Hl. reflexivity.
  - unfold check_and_dispatch. rewrite Hl. reflexivity.
Qed.

Lemma accept_missing_attr : forall c a k,
  lookup "ValueType" a = Some (DStr (vt_str (class_vt c))) ->
  In k (required c) -> lookup k a = None ->
  accept (Some c) (DSet a) = Err EAttr.
Proof.
  intros c a k Hv Hin Hk. rewrite accept_unfold. unfold accept_body. cbn [bind].
  unfold assert_value_type, assert_value_type_in. rewrite Hv. rewrite String.eqb_refl. cbn [negb].
  rewrite required_total.
  destruct (forallb (fun k0 => has k0 a) (required c)) eqn:E; [|reflexivity].
  rewrite forallb_forall in E. specialize (E k Hin). unfold has in E. rewrite Hk in E. discriminate.
Qed.

Lemma find_by_inv : forall {A} (str : A -> string) l s x, find_by str l s = Some x -> str x = s.
Proof.
  intros A str l s x. induction l as [|y l IH]; cbn [find_by]; [discriminate|].
  destruct (String.eqb (str y) s) eqn:E; [|exact IH].
  intros H. inversion H. subst. apply String.eqb_eq. exact E.
Qed.

(* by dispatch: the class is chosen from the value type, then the same table applies *)
Lemma accept_dispatch_missing_attr : forall a s v c k,
  lookup "ValueType" a = Some (DStr s) -> vt_of_str s = Some v ->
  lookup "RelationshipType" a <> None -> get_class v = Ok c ->
  In k (required c) -> lookup k a = None ->
  accept None (DSet a) = Err EAttr.
Proof.
  intros a s v c k Hl Hs Hr Hc Hin Hk. rewrite accept_unfold. unfold accept_body, check_and_dispatch.
  rewrite Hl, Hs. unfold has. destruct (lookup "RelationshipType" a) eqn:Er; [|congruence].
  cbn [negb]. rewrite Hc. cbn [bind].
  assert (Hv : s = vt_str (class_vt c)).
  { apply get_class_inv in Hc. subst v. symmetry. exact (find_by_inv vt_str all_vt s _ Hs). }
  subst s.
  unfold assert_value_type, assert_value_type_in. rewrite Hl. rewrite String.eqb_refl. cbn [negb].
  rewrite required_total.
  destruct (forallb (fun k0 => has k0 a) (required c)) eqn:E; [|reflexivity].
  rewrite forallb_forall in E. specialize (E k Hin). unfold has in E. rewrite Hk in E. discriminate.
Qed.

Lemma accept_missing_name : forall c a,
  lookup "ValueType" a = Some (DStr (vt_str (class_vt c))) ->
  lookup "ConceptNameCodeSequence" a = None ->
  mem (ctag_str c) optional_name_classes = false ->
  (forall k, In k (required c) -> lookup k a <> None) ->
  accept (Some c) (DSet a) = Err EAttr.
Proof.
  intros c a Hv Hn Hm Hreq. rewrite accept_unfold. unfold accept_body. cbn [bind].
  unfold assert_value_type, assert_value_type_in. rewrite Hv. rewrite String.eqb_refl. cbn [negb].
  rewrite required_total.
  replace (forallb (fun k0 => has k0 a) (required c)) with true.
  2:{ symmetry. apply forallb_forall. intros k Hk. specialize (Hreq k Hk). unfold has.
      destruct (lookup k a); congruence. }
  cbn [bind]. rewrite Hn. rewrite Hm. reflexivity.
Qed.

Lemma accept_unknown_vt : forall a s,
  lookup "ValueType" a = Some (DStr s) -> vt_of_str s = None ->
  accept None (DSet a) = Err EValue.
Proof.
  intros a s Hl Hs. rewrite accept_unfold. unfold accept_body, check_and_dispatch.
  rewrite Hl, Hs. reflexivity.
Qed.

Lemma accept_missing_rel : forall a s v,
  lookup "ValueType" a = Some (DStr s) -> vt_of_str s = Some v ->
  lookup "RelationshipType" a = None ->
  accept None (DSet a) = Err EAttr.
Proof.
  intros a s v Hl Hs Hr. rewrite accept_unfold. unfold accept_body, check_and_dispatch.
  rewrite Hl, Hs. unfold has. rewrite Hr. reflexivity.
Qed.

(* whatever from_dataset accepts has the asserted value type and every required attribute *)
Lemma accept_only : forall c a, accept (Some c) (DSet a) = Ok tt ->
  lookup "ValueType" a = Some (DStr (vt_str (class_vt c))) /\
  (forall k, In k (required c) -> lookup k a <> None) /\
  (lookup "ConceptNameCodeSequence" a <> None \/ mem (ctag_str c) optional_name_classes = true).
Proof.
  intros c a H. rewrite accept_unfold in H. unfold accept_body in H. cbn [bind] in H.
  destruct (assert_value_type (class_vt c) a) as [[]|] eqn:Ea; [|discriminate]. cbn [bind] in H.
  unfold assert_value_type, assert_value_type_in in Ea.
  destruct (lookup "ValueType" a) as [d|] eqn:Ev; [|discriminate].
  destruct d; try discriminate.
  destruct (String.eqb s (vt_str (class_vt c))) eqn:Es; [|discriminate].
  apply String.eqb_eq in Es. subst s. cbn [negb] in Ea.
  rewrite required_total in Ea.
  destruct (forallb (fun k => has k a) (required c)) eqn:Ef; [|discriminate].
  rewrite forallb_forall in Ef.
  repeat split.
  - intros k Hk. specialize (Ef k Hk). unfold has in Ef. destruct (lookup k a); congruence.
  - destruct (lookup "ConceptNameCodeSequence" a); [left; congruence|].
    destruct (mem (ctag_str c) optional_name_classes); [right; reflexivity|discriminate].
Qed.
