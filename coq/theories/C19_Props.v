(* C19 - property theorems.  Nothing but statements, `exact <lemma>` and Print Assumptions.
   Pixel elements are words (bit patterns as unsigned integers), get i r c j = pixel_array[i, r, c, j]. *)
From Coq Require Import String ZArith List Bool QArith.
From Coq Require Import Permutation Sorted.
From HD Require Import Base.Val C19_Model C19_Proofs C19_Proofs_Ext C19_Proofs_Sess.
From HD Require Import C19_Proofs_Vol C19_Proofs_Vol2 C19_Proofs_Vol3 C19_Proofs_Vol4.
Import ListNotations.
Open Scope Z_scope.

(* ---- pm_bits_exact ----------------------------------------------------- *)
(* a word of width w survives the byte representation *)
Theorem C19_word_roundtrip : forall w x, 0 <= x < 256 ^ Z.of_nat w -> le_word (le_bytes w x) = x.
Proof. exact le_word_bytes. Qed.
Print Assumptions C19_word_roundtrip.

(* element (plane i, row r, column c, mapping j) is the word at offset ((i*M+j)*R+r)*C+c of the
   stored pixel data, for every array (any bit patterns) *)
Theorem C19_pm_bits_exact : forall get N R C M i j r c,
  0 <= i < N -> 0 <= j < M -> 0 <= r < R -> 0 <= c < C ->
  nth_error (pm_words get N R C M) (Z.to_nat (((i * M + j) * R + r) * C + c)) = Some (get i r c j).
Proof. exact pm_words_nth. Qed.
Print Assumptions C19_pm_bits_exact.

(* nothing else is stored *)
Theorem C19_pm_word_count : forall get N R C M,
  length (pm_words get N R C M) = (Z.to_nat N * (Z.to_nat M * (Z.to_nat R * Z.to_nat C)))%nat.
Proof. exact pm_words_length. Qed.
Print Assumptions C19_pm_word_count.

(* the stored bytes decode to exactly those words (little endian, width w) *)
Theorem C19_pm_bytes_decode : forall get N R C M w,
  (forall i r c j, 0 <= get i r c j < 256 ^ Z.of_nat w) ->
  unbytes w (length (pm_words get N R C M)) (pm_bytes get N R C M w) = pm_words get N R C M.
Proof. exact pm_bytes_decode. Qed.
Print Assumptions C19_pm_bytes_decode.

(* pixel data attribute and element width per element type: the whole table *)
Theorem C19_pm_attribute_table : forall d,
  match attr_spec d with
  | Some aw => pm_attr d = Ok aw
  | None => pm_attr d = Err "ValueError"%string
  end.
Proof. exact pm_attr_table. Qed.
Print Assumptions C19_pm_attribute_table.

(* ---- pm_frame_meta ------------------------------------------------------- *)
(* one frame per plane and mapping, in the order i*M + j, holding pixel_array[i, :, :, j] *)
Theorem C19_pm_frame_order : forall get N R C M i j r c,
  0 <= i < N -> 0 <= j < M -> 0 <= r < R -> 0 <= c < C ->
  length (pm_frames get N R C M) = (Z.to_nat N * Z.to_nat M)%nat /\
  nth_error (pm_frames get N R C M) (Z.to_nat (i * M + j)) = Some (frame_words get R C i j) /\
  nth_error (frame_words get R C i j) (Z.to_nat (r * C + c)) = Some (get i r c j).
Proof. exact pm_frame_order. Qed.
Print Assumptions C19_pm_frame_order.

(* frame i*M + j carries plane i's position, its dimension index values and mapping j;
   the mappings are shared exactly when there is one channel *)
Theorem C19_pm_frame_meta : forall cols N M i j, 0 <= i < N -> 0 <= j < M ->
  length (pm_meta cols N M) = (Z.to_nat N * Z.to_nat M)%nat /\
  nth_error (pm_meta cols N M) (Z.to_nat (i * M + j)) =
  Some {| fm_plane := i;
          fm_div := map (fun col => rank col (nth (Z.to_nat i) col [])) cols;
          fm_rwvm := if 1 <? M then PerFrame j else Shared |} /\
  (forall col, In col cols -> length col = Z.to_nat N ->
     nth_error col (Z.to_nat i) = Some (nth (Z.to_nat i) col []) /\ In (nth (Z.to_nat i) col []) col).
Proof. exact pm_frame_meta. Qed.
Print Assumptions C19_pm_frame_meta.

(* dimension index values are an order isomorphism from the position keys onto 1..#distinct *)
Theorem C19_pm_dimension_index : forall col p q, In p col -> In q col ->
  (rank col p < rank col q <-> lex_cmp p q = Lt) /\ (rank col p = rank col q <-> p = q) /\
  1 <= rank col p <= Z.of_nat (length (dedup col)).
Proof. exact pm_dimension_index. Qed.
Print Assumptions C19_pm_dimension_index.

(* ---- pm_read (integer maps, native layout) ------------------------------- *)
Theorem C19_pm_read_stored : forall get N R C M w k,
  (forall i r c j, 0 <= get i r c j < 256 ^ Z.of_nat w) ->
  0 <= R -> 0 <= C -> 0 < M -> 0 <= k < N * M ->
  read_frame w R C (pm_bytes get N R C M w) k = frame_words get R C (k / M) (k mod M).
Proof. exact read_frame_stored_thm. Qed.
Print Assumptions C19_pm_read_stored.

(* frame numbers (1-based) and indices (0-based): accepted range and refusals *)
Theorem C19_frame_index : forall n f k,
  (std_index n f false = Ok k <-> 1 <= f <= n /\ k = f - 1) /\
  (std_index n f false = Err "IndexError"%string <-> f < 1 \/ n < f) /\
  (std_index n f true = Ok k <-> 0 <= f < n /\ k = f) /\
  (std_index n f true = Err "IndexError"%string <-> f < 0 \/ n <= f).
Proof. exact frame_index_all. Qed.
Print Assumptions C19_frame_index.

(* with the real-world flag: frame number f of a stored integer map yields the mapping selected
   among those attached to that frame, applied to plane (f-1)/M, channel (f-1) mod M *)
Theorem C19_pm_read_real_world : forall get N R C M w maps sel f,
  (forall i r c j, 0 <= get i r c j < 256 ^ Z.of_nat w) ->
  0 <= R -> 0 <= C -> 0 < M -> 1 <= f <= N * M ->
  get_frame_rw w R C M (N * M) (pm_bytes get N R C M w) maps sel f false =
  bind (select_mapping (nth (Z.to_nat (if 1 <? M then (f - 1) mod M else 0)) maps []) sel)
       (fun m => apply_mapping m (frame_words get R C ((f - 1) / M) ((f - 1) mod M))).
Proof. exact pm_read_real_world. Qed.
Print Assumptions C19_pm_read_real_world.

(* what applying a mapping means: all values inside the mapped range, each output is the linear
   image / the LUT entry of the stored value (no default entry is ever used) ... *)
Theorem C19_mapping_applied : forall m ws, ws <> [] -> (forall x, In x ws -> in_range m x = true) ->
  exists vs, apply_mapping m ws = Ok vs /\ Forall2 (maps_to m) ws vs.
Proof. exact apply_mapping_ok. Qed.
Print Assumptions C19_mapping_applied.

(* ... and it is refused exactly for an empty frame or a value outside the mapped range *)
Theorem C19_mapping_refused : forall m ws,
  apply_mapping m ws = Err "ValueError"%string <-> ws = [] \/ exists x, In x ws /\ in_range m x = false.
Proof. exact apply_mapping_err. Qed.
Print Assumptions C19_mapping_refused.

Theorem C19_mapping_range : forall s i f l first lut x,
  (in_range (MLin s i f l) x = true <-> (f <= inject_Z x /\ inject_Z x <= l)%Q) /\
  (in_range (MLut first lut) x = true <-> first <= x <= first + Z.of_nat (length lut) - 1).
Proof. exact mapping_range. Qed.
Print Assumptions C19_mapping_range.

(* reading a batch = reading the frames one after the other *)
Theorem C19_batch_is_sequential : forall w R C M n bytes maps sel fs ai, fs <> [] ->
  get_frames_rw w R C M n bytes maps sel fs ai =
  res_all (map (fun f => get_frame_rw w R C M n bytes maps sel f ai) fs).
Proof. exact get_frames_is_sequential. Qed.
Print Assumptions C19_batch_is_sequential.

(* ---- sc_roundtrip --------------------------------------------------------- *)
(* every accepted secondary capture decodes to the given array: native encodings proved,
   encapsulated ones under the codec's own round-trip contract (explicit premise) *)
Theorem C19_sc_roundtrip : forall (enc dec : list Z -> list Z), (forall ws, dec (enc ws) = ws) ->
  forall c ws ba bs spp e,
  sc_validate c = Ok (ba, bs, spp, e) -> dtype_fits (s_dtype c) ws ->
  Z.of_nat (length ws) = nth 0 (s_shape c) 0 * nth 1 (s_shape c) 0 * spp ->
  sc_load dec e (length ws) (sc_store enc e ws) = ws.
Proof. exact sc_roundtrip_full. Qed.
Print Assumptions C19_sc_roundtrip.

Theorem C19_sc_roundtrip_native : forall ws,
  (fits 1 ws -> sc_decode ENative8 (length ws) (sc_encode ENative8 ws) = ws) /\
  (fits 2 ws -> sc_decode ENative16 (length ws) (sc_encode ENative16 ws) = ws) /\
  ((length ws mod 8 = 0)%nat -> isbits ws -> sc_decode EPacked (length ws) (sc_encode EPacked ws) = ws).
Proof. exact sc_roundtrip_native_all. Qed.
Print Assumptions C19_sc_roundtrip_native.

(* ---- refusals --------------------------------------------------------------- *)
(* SCImage: accepted exactly for the rows of the declarative table, with those bit depths;
   every other combination is refused, and with which exception class (whole finite table,
   lifted with forallb_forall; every input falls into one class by sc_classify) *)
Theorem C19_sc_refusals : forall c,
  (forall t, sc_validate c = Ok t <-> sc_spec (sc_classify c) = Some t) /\
  (sc_spec (sc_classify c) = None <->
   exists e, sc_validate c = Err e /\ err_kind_ok (sc_classify c) e = true).
Proof. exact sc_refusals_full. Qed.
Print Assumptions C19_sc_refusals.

(* ParametricMap: accepted exactly under the listed conditions, then with the dimensions,
   attribute and width of the element type; every other input is an error *)
Theorem C19_pm_refusals : forall c n r cc m a w,
  pm_validate c = Ok (n, r, cc, m, a, w) <-> pm_accepts c n r cc m a w.
Proof. exact pm_refusals_iff. Qed.
Print Assumptions C19_pm_refusals.

Theorem C19_pm_error_kinds : forall c e, pm_validate c = Err e ->
  e = "ValueError"%string \/
  ((e = "TypeError"%string \/ e = "KeyError"%string) /\
   forall nm, pm_maps_check (Nat.eqb (length (c_shape c)) 4) (c_maps c) <> Ok nm).
Proof. exact pm_validate_error_kinds. Qed.
Print Assumptions C19_pm_error_kinds.

Theorem C19_rwvm_refusals : forall hl hs hi fr n first last b,
  rwvm_validate hl hs hi fr n first last = Ok b <->
  (hl = true /\ hs = false /\ hi = false /\ fr = false /\ n = last - first + 1 /\ b = true) \/
  (hl = false /\ hs = true /\ hi = true /\ b = false).
Proof. exact rwvm_validate_iff. Qed.
Print Assumptions C19_rwvm_refusals.

(* ---- non-vacuity ------------------------------------------------------------ *)
(* a float32 map with a NaN payload, -0.0 and -inf in 2 planes x 2 mappings; an accepted
   configuration; an accepted 12-bit secondary capture; a bit-packed round trip *)
Example C19_example :
  let get := fun i r c j => nth (Z.to_nat (((i * 2 + j) * 1 + r) * 2 + c))
                              [2143289345; 2147483648; 4286578688; 1; 2; 3; 4; 5] 0 in
  pm_bytes get 2 1 2 2 4 =
    [1;0;192;127; 0;0;0;128; 0;0;128;255; 1;0;0;0; 2;0;0;0; 3;0;0;0; 4;0;0;0; 5;0;0;0] /\
  read_frame 4 1 2 (pm_bytes get 2 1 2 2 4) 2 = [2; 3] /\
  pm_validate {| c_nsrc := 2; c_uniform := true; c_multiframe := false; c_srcplanes := 2;
                 c_dtype := DF32; c_ts := Explicit; c_wwpos := true; c_shape := [2; 1; 2; 2];
                 c_maps := MNested [1; 2]; c_pp := None |} = Ok (2, 1, 2, 2, FloatPixelData, 4%nat) /\
  sc_validate {| s_dtype := DU16; s_ba := 12; s_shape := [3; 5]; s_pi := Mono1; s_ts := JLS;
                 s_max12 := true |} = Ok (16, 12, 1, ECodec) /\
  sc_decode EPacked 8 (sc_encode EPacked [1;0;0;1;0;1;1;0]) = [1;0;0;1;0;1;1;0] /\
  map (rank [[8;16;24]; [0;72;72]; [8;16;24]; [8;-8;40]]) [[8;16;24]; [0;72;72]; [8;-8;40]] = [3; 1; 2] /\
  apply_mapping (MLut 1 [(1#4); (3#4); (5#4)]%Q) [3; 1] = Ok [(5#4); (1#4)]%Q.
Proof. vm_compute. repeat split; reflexivity. Qed.
Print Assumptions C19_example.

(* ======================================================================== *)
(* extension                                                                 *)
(* ======================================================================== *)
(* ---- bit-exact storage, byte level ------------------------------------------ *)
(* byte t of element (plane i, row r, column c, mapping j) is byte number
   (((i*M+j)*R+r)*C+c)*w + t of the pixel data element (little endian), and there are no
   other bytes *)
Theorem C19_pm_bytes_at : forall get N R C M w,
  length (pm_bytes get N R C M w) =
    (Z.to_nat N * (Z.to_nat M * (Z.to_nat R * Z.to_nat C)) * w)%nat /\
  forall i j r c t, 0 <= i < N -> 0 <= j < M -> 0 <= r < R -> 0 <= c < C -> (t < w)%nat ->
  nth_error (pm_bytes get N R C M w)
            (Z.to_nat (((i * M + j) * R + r) * C + c) * w + t) =
  Some ((get i r c j / 256 ^ Z.of_nat t) mod 256).
Proof. exact pm_bytes_at. Qed.
Print Assumptions C19_pm_bytes_at.

(* ---- per-frame metadata: the dimension index values use every number 1..#distinct ------- *)
(* (together with C19_pm_dimension_index: an order isomorphism ONTO 1..#distinct positions) *)
Theorem C19_pm_dimension_index_onto : forall col v, 1 <= v <= Z.of_nat (length (dedup col)) ->
  exists p, In p col /\ rank col p = v.
Proof. exact rank_onto. Qed.
Print Assumptions C19_pm_dimension_index_onto.

(* ---- end to end: constructor accepted -> image interface returns the given pixels ------ *)
(* for every accepted configuration with integer pixels and every array: reading all frames
   (either numbering convention) returns exactly the planes in the order (plane, mapping);
   frame i*m+j (+1 as a number) is pixel_array[i, :, :, j] element by element; and with the
   real-world flag that frame gets the mapping selected among those of channel j (the shared
   ones when there is one channel) applied to those values *)
Theorem C19_pm_roundtrip : forall c get n r cc m w,
  pm_validate c = Ok (n, r, cc, m, PixelData, w) ->
  (forall i r c j, 0 <= get i r c j < 256 ^ Z.of_nat w) ->
  0 < n -> 0 <= r -> 0 <= cc ->
  let bytes := pm_bytes get n r cc m w in
  (forall ai, get_stored_frames w r cc (n * m) bytes None ai = Ok (pm_frames get n r cc m)) /\
  (forall i j, 0 <= i < n -> 0 <= j < m ->
     get_stored_frame w r cc (n * m) bytes (i * m + j + 1) false = Ok (frame_words get r cc i j) /\
     get_stored_frame w r cc (n * m) bytes (i * m + j) true = Ok (frame_words get r cc i j) /\
     forall y x, 0 <= y < r -> 0 <= x < cc ->
       nth_error (frame_words get r cc i j) (Z.to_nat (y * cc + x)) = Some (get i y x j)) /\
  (forall maps sel i j (ai : bool), 0 <= i < n -> 0 <= j < m ->
     get_frame_rw w r cc m (n * m) bytes maps sel (if ai then i * m + j else i * m + j + 1) ai =
     bind (select_mapping (nth (Z.to_nat (if 1 <? m then j else 0)) maps []) sel)
          (fun mp => apply_mapping mp (frame_words get r cc i j))).
Proof. exact pm_roundtrip_e2e. Qed.
Print Assumptions C19_pm_roundtrip.

(* what acceptance fixes: at least one channel, and the element width of the attribute *)
Theorem C19_pm_accept_width : forall c n r cc m a w, pm_validate c = Ok (n, r, cc, m, a, w) ->
  0 < m /\ (a = PixelData -> w = 1%nat \/ w = 2%nat) /\
  (a = FloatPixelData -> w = 4%nat) /\ (a = DoubleFloatPixelData -> w = 8%nat).
Proof. exact pm_accept_facts. Qed.
Print Assumptions C19_pm_accept_width.

(* ---- selecting the mapping "attached to that frame" --------------------------------- *)
(* by index (negative from the end) or by label (first match); anything else is IndexError *)
Theorem C19_selector : forall l sel,
  (forall m, select_mapping l sel = Ok m <-> sel_spec l sel m) /\
  (select_mapping l sel = Err "IndexError" <-> forall m, ~ sel_spec l sel m) /\
  (forall e, select_mapping l sel = Err e -> e = "IndexError"%string).
Proof. exact selector_full. Qed.
Print Assumptions C19_selector.

(* one frame with the real-world flag: every outcome, with the exception class *)
Theorem C19_read_real_world_total : forall w R C M n bytes maps sel f ai,
  (forall vs, get_frame_rw w R C M n bytes maps sel f ai = Ok vs <->
     exists k m, std_index n f ai = Ok k /\ select_mapping (frame_maps maps M k) sel = Ok m /\
                 apply_mapping m (read_frame w R C bytes k) = Ok vs) /\
  (forall e, get_frame_rw w R C M n bytes maps sel f ai = Err e <->
     (e = "IndexError"%string /\
      (std_index n f ai = Err "IndexError" \/
       exists k, std_index n f ai = Ok k /\
                 select_mapping (frame_maps maps M k) sel = Err "IndexError")) \/
     (e = "ValueError"%string /\
      exists k m, std_index n f ai = Ok k /\ select_mapping (frame_maps maps M k) sel = Ok m /\
                  apply_mapping m (read_frame w R C bytes k) = Err "ValueError")).
Proof. exact read_real_world_total. Qed.
Print Assumptions C19_read_real_world_total.

(* frame batches of stored values (None = all frames): every outcome *)
Theorem C19_stored_batch : forall w R C n bytes fs ai,
  (forall out, get_stored_frames w R C n bytes fs ai = Ok out <->
     requested n fs ai <> [] /\
     Forall2 (fun f fr => exists k, std_index n f ai = Ok k /\ fr = read_frame w R C bytes k)
             (requested n fs ai) out) /\
  (forall e, get_stored_frames w R C n bytes fs ai = Err e <->
     (e = "ValueError"%string /\ requested n fs ai = []) \/
     (e = "IndexError"%string /\
      exists f, In f (requested n fs ai) /\ std_index n f ai = Err "IndexError")).
Proof. exact stored_batch_total. Qed.
Print Assumptions C19_stored_batch.

(* ---- "on request": the three transform flags of get_frame(s) -------------------------- *)
(* all 27 combinations against a declarative table *)
Theorem C19_flags_table : forall rw md voi, resolve_flags rw md voi = flags_spec rw md voi.
Proof. exact resolve_flags_table. Qed.
Print Assumptions C19_flags_table.

(* the real world mapping is applied exactly when requested (or left to the default while
   nothing contradictory is demanded), and then get_frame is the real-world read above *)
Theorem C19_real_world_on_request : forall rw md voi,
  (resolve_flags rw md voi = Ok (TRealWorld false) <->
   md <> Some true /\ voi <> Some true /\
   (rw = Some true \/ (rw = None /\ (md = Some false -> voi = Some false)))) /\
  (resolve_flags rw md voi = Ok (TRealWorld false) ->
   forall w R C M n bytes maps sel c wd f ai,
   get_frame_flags w R C M n bytes maps sel rw md voi c wd f ai =
   get_frame_rw w R C M n bytes maps sel f ai).
Proof. exact real_world_on_request. Qed.
Print Assumptions C19_real_world_on_request.

(* switched off (and no window demanded): the stored values themselves *)
Theorem C19_stored_when_off : forall rw md voi,
  (resolve_flags rw md voi = Ok TStored <->
   voi = Some false /\ (rw = Some false \/ (rw = None /\ md = Some true))) /\
  (resolve_flags rw md voi = Ok TStored ->
   forall w R C M n bytes maps sel c wd f ai,
   get_frame_flags w R C M n bytes maps sel rw md voi c wd f ai =
   bind (get_stored_frame w R C n bytes f ai) (fun ws => Ok (map inject_Z ws))).
Proof. exact stored_when_off. Qed.
Print Assumptions C19_stored_when_off.

(* contradictory flags: ValueError for every valid frame *)
Theorem C19_flags_refused : forall rw md voi e, resolve_flags rw md voi = Err e ->
  e = "ValueError"%string /\
  forall w R C M n bytes maps sel c wd f ai k, std_index n f ai = Ok k ->
  get_frame_flags w R C M n bytes maps sel rw md voi c wd f ai = Err e.
Proof. exact flags_refused. Qed.
Print Assumptions C19_flags_refused.

Theorem C19_flags_batch_is_sequential : forall w R C M n bytes maps sel rw md voi c wd fs ai,
  fs <> [] ->
  get_frames_flags w R C M n bytes maps sel rw md voi c wd (Some fs) ai =
  res_all (map (fun f => get_frame_flags w R C M n bytes maps sel rw md voi c wd f ai) fs).
Proof. exact get_frames_flags_sequential. Qed.
Print Assumptions C19_flags_batch_is_sequential.

(* RealWorldValueMapping.apply called directly = the same application; a LUT refuses
   non-integer arrays *)
Theorem C19_rwvm_apply : forall int_array m ws,
  rwvm_apply int_array m ws =
  match m with
  | MLut _ _ => if int_array then apply_mapping m ws else Err "ValueError"
  | MLin _ _ _ _ => apply_mapping m ws
  end.
Proof. exact rwvm_apply_spec. Qed.
Print Assumptions C19_rwvm_apply.

(* ---- read path: volume ------------------------------------------------------------------ *)
(* the volume of a stored single-channel map has one slice per plane, ordered by descending z,
   and the slice at position p is exactly the plane that was given at p *)
Theorem C19_volume_roundtrip : forall get N R C w pos sl,
  (forall i r c j, 0 <= get i r c j < 256 ^ Z.of_nat w) -> 0 <= R -> 0 <= C -> 0 <= N ->
  length pos = Z.to_nat N ->
  pm_volume pos (map (read_frame w R C (pm_bytes get N R C 1 w)) (zrange N)) = Ok sl ->
  StronglySorted desc sl /\ length sl = Z.to_nat N /\
  forall p fr, In (p, fr) sl <->
    exists i, 0 <= i < N /\ nth_error pos (Z.to_nat i) = Some p /\ fr = frame_words get R C i 0.
Proof. exact pm_volume_roundtrip. Qed.
Print Assumptions C19_volume_roundtrip.

Theorem C19_volume_refused : forall pos frames,
  (pm_volume pos frames = Err "RuntimeError" <-> ~ NoDup pos) /\
  (forall e, pm_volume pos frames = Err e -> e = "RuntimeError"%string).
Proof. exact volume_refused_full. Qed.
Print Assumptions C19_volume_refused.

(* ---- non-vacuity of the extension ----------------------------------------------------------- *)
Example C19_example_ext :
  let get := fun i r c j => nth (Z.to_nat (((i * 2 + j) * 1 + r) * 2 + c)) [7; 300; 2; 65535; 4; 5; 6; 1] 0 in
  let cfg := {| c_nsrc := 2; c_uniform := true; c_multiframe := false; c_srcplanes := 2;
                c_dtype := DU16; c_ts := Explicit; c_wwpos := true; c_shape := [2; 1; 2; 2];
                c_maps := MNested [1; 2]; c_pp := None |} in
  let bytes := pm_bytes get 2 1 2 2 2 in
  let maps := [[("a"%string, MLin (1#2) 1 0 400)];
               [("b"%string, MLut 0 [0; 1; (5#2)]%Q); ("c"%string, MLin 2 0 0 65535)]] in
  pm_validate cfg = Ok (2, 1, 2, 2, PixelData, 2%nat) /\
  get_stored_frames 2 1 2 4 bytes None false = Ok [[7; 300]; [2; 65535]; [4; 5]; [6; 1]] /\
  get_stored_frames 2 1 2 4 bytes (Some []) false = Err "ValueError" /\
  get_stored_frames 2 1 2 4 bytes (Some [1; 5]) false = Err "IndexError" /\
  get_frame_flags 2 1 2 2 4 bytes maps (SIdx 0) None None (Some false) 1 2 1 false = Ok [(9#2); (302#2)]%Q /\
  get_frame_flags 2 1 2 2 4 bytes maps (SIdx (-1)) (Some true) None None 1 2 2 false = Ok [4; 131070]%Q /\
  get_frame_flags 2 1 2 2 4 bytes maps (SLabel "b") None None (Some false) 1 2 2 false = Err "ValueError" /\
  get_frame_flags 2 1 2 2 4 bytes maps (SIdx 0) (Some false) None (Some false) 1 2 4 false = Ok [6; 1]%Q /\
  get_frame_flags 2 1 2 2 4 bytes maps (SIdx 0) None (Some true) None 1 3 4 false = Ok [1; (3#4)]%Q /\
  get_frame_flags 2 1 2 2 4 bytes maps (SIdx 0) None None (Some true) 1 2 1 false = Err "RuntimeError" /\
  rwvm_apply false (MLut 0 [0; 1]%Q) [0; 1] = Err "ValueError" /\
  pm_volume [[0; 0; 8]; [0; 0; 24]; [0; 0; 16]] [[1]; [2]; [3]] =
    Ok [([0; 0; 24], [2]); ([0; 0; 16], [3]); ([0; 0; 8], [1])] /\
  pm_volume [[0; 0; 8]; [0; 0; 8]] [[1]; [2]] = Err "RuntimeError".
Proof. exact ext_example. Qed.
Print Assumptions C19_example_ext.

(* ---- strengthening 3: one image object, many accesses (decoded pixel array cache) ----------- *)
(* whatever has been accessed before on the same object - in particular the whole pixel array,
   after which every accessor serves from the cached array - each access answers exactly as on a
   freshly opened image (all access sequences, all request lists) *)
Theorem C19_session_transparent : forall w R C M n bytes maps sel center width ops,
  session w R C M n bytes maps sel center width None ops =
  map (fun o => fst (exec w R C M n bytes maps sel center width None o)) ops.
Proof. exact session_transparent. Qed.
Print Assumptions C19_session_transparent.

(* and a fresh image answers with the functions characterised by the theorems above *)
Theorem C19_session_fresh : forall w R C M n bytes maps sel center width o,
  fst (exec w R C M n bytes maps sel center width None o) =
  match o with
  | OPixelArray => if 1 <=? n then vz_list2 (decode_all w R C n bytes) else VErr "ValueError"
  | OStoredFrame f ai => vres vz_list (get_stored_frame w R C n bytes f ai)
  | OStoredFrames fs ai => vres vz_list2 (get_stored_frames w R C n bytes fs ai)
  | OFrame rw md voi f ai =>
      vres vq_list (get_frame_flags w R C M n bytes maps sel rw md voi center width f ai)
  | OFrames rw md voi fs ai =>
      vres (fun l => VL (map vq_list l))
           (get_frames_flags w R C M n bytes maps sel rw md voi center width fs ai)
  end.
Proof. exact exec_fresh. Qed.
Print Assumptions C19_session_fresh.

(* order of a batch of stored frames: position p of the answer holds the frame requested at
   position p, for ANY request list (not only ascending runs: permutations of a run, repetitions,
   gaps) and in any reachable state of the object (no cache / whole array cached) *)
Theorem C19_batch_order : forall w R C n bytes st fs ai out,
  coherent w R C n bytes st ->
  s_stored_frames w R C n bytes st (Some fs) ai = Ok out ->
  length out = length fs /\
  forall p f, nth_error fs p = Some f ->
    exists k, std_index n f ai = Ok k /\ nth_error out p = Some (read_frame w R C bytes k).
Proof. exact stored_frames_position. Qed.
Print Assumptions C19_batch_order.

(* reordering the request reorders the answer the same way *)
Theorem C19_batch_permuted : forall w R C n bytes st fs fs' ai out out',
  coherent w R C n bytes st ->
  s_stored_frames w R C n bytes st (Some fs) ai = Ok out ->
  s_stored_frames w R C n bytes st (Some fs') ai = Ok out' ->
  forall p q f, nth_error fs p = Some f -> nth_error fs' q = Some f ->
    nth_error out p = nth_error out' q.
Proof. exact stored_frames_permuted. Qed.
Print Assumptions C19_batch_permuted.

(* non-vacuity: a warm object and the permuted run [1;3;2;4] *)
Example C19_example_session :
  let bytes := [1; 2; 3; 4; 5; 6; 7; 8] in
  session 1 1 2 1 4 bytes [[("a"%string, MLin 2 0 0 255)]] (SIdx 0) 1 2 None
    [OStoredFrames (Some [1; 3; 2; 4]) false; OPixelArray; OStoredFrames (Some [1; 3; 2; 4]) false;
     OStoredFrames (Some [0; 2; 1; 3]) true; OStoredFrame 3 false;
     OFrames (Some true) None (Some false) (Some [4; 2; 3]) false; OStoredFrames (Some [1; 5]) false;
     OStoredFrames (Some []) false] =
  [vz_list2 [[1; 2]; [5; 6]; [3; 4]; [7; 8]]; vz_list2 [[1; 2]; [3; 4]; [5; 6]; [7; 8]];
   vz_list2 [[1; 2]; [5; 6]; [3; 4]; [7; 8]]; vz_list2 [[1; 2]; [5; 6]; [3; 4]; [7; 8]];
   vz_list [5; 6]; VL [vq_list [14; 16]%Q; vq_list [6; 8]%Q; vq_list [10; 12]%Q];
   VErr "IndexError"; VErr "ValueError"].
Proof. exact session_example. Qed.
Print Assumptions C19_example_session.

(* ---- extension 4: sub-ranges of the volume read, maps with several channels --------------------- *)
(* slice_start / slice_end on n volume positions: accepted exactly when no one-based number is 0, the
   end designates a position of the axis or one beyond (py0 = the Python index meant by the argument
   in the convention chosen, negatives from the end), and the window is not empty; then it is
   Python's start:end window *)
Theorem C19_slice_window : forall ss se n ai s e, 0 <= n ->
  std_slice ss se n ai = Ok (s, e) <->
  arg_ok ai ss /\ arg_ok ai se /\
  s = pynorm n (match ss with None => 0 | Some x => py0 ai x end) /\
  match se with
  | None => e = n
  | Some y => - n <= py0 ai y <= n /\ e = pynorm n (py0 ai y)
  end /\
  s < e.
Proof. exact std_slice_ok. Qed.
Print Assumptions C19_slice_window.

Theorem C19_slice_index_error : forall ss se n ai, 0 <= n ->
  std_slice ss se n ai = Err "IndexError" <->
  arg_ok ai ss /\ arg_ok ai se /\
  match se with None => False | Some y => py0 ai y < - n \/ n < py0 ai y end.
Proof. exact std_slice_index_error. Qed.
Print Assumptions C19_slice_index_error.

Theorem C19_slice_error_kinds : forall ss se n ai k,
  std_slice ss se n ai = Err k -> k = "ValueError"%string \/ k = "IndexError"%string.
Proof. exact std_slice_err_kinds. Qed.
Print Assumptions C19_slice_error_kinds.

(* row_start / row_end (column_start / column_end) on an axis of n: accepted exactly when no one-based
   number is 0, the start designates a row and the end a row or one beyond; every refusal is a
   ValueError *)
Theorem C19_axis_window : forall st en n ai s e, 0 < n ->
  std_axis st en n ai = Ok (s, e) <->
  arg_ok ai st /\ arg_ok ai en /\
  match st with
  | None => s = 0
  | Some x => - n <= py0 ai x <= n - 1 /\ s = pynorm n (py0 ai x)
  end /\
  match en with
  | None => e = n
  | Some y => - n <= py0 ai y <= n /\ e = pynorm n (py0 ai y)
  end.
Proof. exact std_axis_ok. Qed.
Print Assumptions C19_axis_window.

Theorem C19_axis_error : forall st en n ai k, std_axis st en n ai = Err k -> k = "ValueError"%string.
Proof. exact std_axis_err. Qed.
Print Assumptions C19_axis_error.

(* end to end: a sub-range request on the volume of a stored single-channel integer map that is
   answered returns the window [s,e) x [r0,r1) x [c0,c1) of the full volume (sl, characterised by
   C19_volume_roundtrip), the window being the one the arguments designate (C19_slice_window,
   C19_axis_window); slice p of the answer sits at the position of slice s+p of the full volume, which
   is the position given for some plane i, and its element (r, c) is pixel_array[i, r0+r, c0+c] *)
Theorem C19_volume_subrange : forall get N R C w pos a nr nc out,
  (forall i r c j, 0 <= get i r c j < 256 ^ Z.of_nat w) -> 0 < R -> 0 < C -> 0 <= N ->
  length pos = Z.to_nat N ->
  pm_volume_sub 0 (fun ws => Ok ws) R C 1 pos
    (map (read_frame w R C (pm_bytes get N R C 1 w)) (zrange N)) a = Ok (nr, nc, out) ->
  exists sl s e r0 r1 c0 c1,
    pm_volume pos (map (read_frame w R C (pm_bytes get N R C 1 w)) (zrange N)) = Ok sl /\
    std_slice (v_ss a) (v_se a) N (v_ai a) = Ok (s, e) /\ 0 <= s < e /\ e <= N /\
    std_axis (v_rs a) (v_re a) R (v_ai a) = Ok (r0, r1) /\ 0 <= r0 < r1 /\ r1 <= R /\
    std_axis (v_cs a) (v_ce a) C (v_ai a) = Ok (c0, c1) /\ 0 <= c0 < c1 /\ c1 <= C /\
    nr = r1 - r0 /\ nc = c1 - c0 /\ length out = Z.to_nat (e - s) /\
    forall p, 0 <= p < e - s ->
      exists q i vals,
        nth_error sl (Z.to_nat (s + p)) = Some (q, frame_words get R C i 0) /\
        0 <= i < N /\ nth_error pos (Z.to_nat i) = Some q /\
        nth_error out (Z.to_nat p) = Some (q, vals) /\
        length vals = Z.to_nat ((r1 - r0) * (c1 - c0)) /\
        forall r c, 0 <= r < r1 - r0 -> 0 <= c < c1 - c0 ->
          nth_error vals (Z.to_nat (r * (c1 - c0) + c)) = Some (get i (r0 + r) (c0 + c) 0).
Proof. exact volume_sub_roundtrip. Qed.
Print Assumptions C19_volume_subrange.

(* the same request with a transform (the real world value mapping): every slice of the window is
   transformed as a whole frame, then cropped *)
Theorem C19_volume_subrange_transformed : forall (m : mapping) R C pos frames a nr nc out,
  pm_volume_sub 0%Q (apply_mapping m) R C 1 pos frames a = Ok (nr, nc, out) ->
  exists sl s e r0 r1 c0 c1,
    std_axis (v_rs a) (v_re a) R (v_ai a) = Ok (r0, r1) /\
    std_axis (v_cs a) (v_ce a) C (v_ai a) = Ok (c0, c1) /\
    pm_volume pos frames = Ok sl /\
    std_slice (v_ss a) (v_se a) (Z.of_nat (length sl)) (v_ai a) = Ok (s, e) /\
    0 <= s /\ r0 < r1 /\ c0 < c1 /\ nr = r1 - r0 /\ nc = c1 - c0 /\
    Forall2 (fun pf o => exists v, apply_mapping m (snd pf) = Ok v /\
                                   o = (fst pf, crop_frame 0%Q C r0 r1 c0 c1 v))
            (firstn (Z.to_nat (e - s)) (skipn (Z.to_nat s) sl)) out.
Proof. intros m. exact (volume_sub_transformed 0%Q (apply_mapping m)). Qed.
Print Assumptions C19_volume_subrange_transformed.

(* refusals: a map with several channels has several frames at every position and is never a volume
   (RuntimeError, once rows and columns are acceptable); row/column refusals are ValueError and come
   first; no other class than ValueError / IndexError / RuntimeError occurs *)
Theorem C19_volume_multi_channel_refused : forall R C M pos frames a r0 r1 c0 c1,
  1 < M -> pos <> [] ->
  std_axis (v_rs a) (v_re a) R (v_ai a) = Ok (r0, r1) ->
  std_axis (v_cs a) (v_ce a) C (v_ai a) = Ok (c0, c1) ->
  pm_volume_sub 0 (fun ws => Ok ws) R C M pos frames a = Err "RuntimeError".
Proof. exact (volume_sub_multi_channel 0 (fun ws => Ok ws)). Qed.
Print Assumptions C19_volume_multi_channel_refused.

Theorem C19_volume_subrange_axis_refused : forall R C M pos frames a k,
  std_axis (v_rs a) (v_re a) R (v_ai a) = Err k \/
  (exists rr, std_axis (v_rs a) (v_re a) R (v_ai a) = Ok rr) /\
  std_axis (v_cs a) (v_ce a) C (v_ai a) = Err k ->
  pm_volume_sub 0 (fun ws => Ok ws) R C M pos frames a = Err "ValueError".
Proof. exact (volume_sub_axis_refused 0 (fun ws => Ok ws)). Qed.
Print Assumptions C19_volume_subrange_axis_refused.

Theorem C19_volume_subrange_error_kinds : forall R C M pos frames a k,
  pm_volume_sub 0 (fun ws => Ok ws) R C M pos frames a = Err k ->
  k = "ValueError"%string \/ k = "IndexError"%string \/ k = "RuntimeError"%string.
Proof. exact volume_sub_error_kinds. Qed.
Print Assumptions C19_volume_subrange_error_kinds.

(* non-vacuity: 3 planes given out of order, 3 rows x 2 columns; the same window in both conventions;
   each refusal class *)
Example C19_example_volume_sub :
  let get := fun i r c (j : Z) => 100 * i + 10 * r + c in
  let pos := [[0; 0; 8]; [0; 0; 24]; [0; 0; 16]] in
  let frames := map (read_frame 1 3 2 (pm_bytes get 3 3 2 1 1)) (zrange 3) in
  let args := fun ss se rs re cs ce ai =>
    {| v_ss := ss; v_se := se; v_rs := rs; v_re := re; v_cs := cs; v_ce := ce; v_ai := ai |} in
  pm_volume_sub 0 (fun ws => Ok ws) 3 2 1 pos frames
    (args (Some 2) None (Some 2) None (Some (-1)) None false)
    = Ok (2, 1, [([0; 0; 16], [211; 221]); ([0; 0; 8], [11; 21])]) /\
  pm_volume_sub 0 (fun ws => Ok ws) 3 2 1 pos frames
    (args (Some 1) (Some 3) (Some 1) (Some 3) (Some 1) (Some 2) true)
    = Ok (2, 1, [([0; 0; 16], [211; 221]); ([0; 0; 8], [11; 21])]) /\
  pm_volume_sub 0 (fun ws => Ok ws) 3 2 1 pos frames
    (args (Some 0) None None None None None false) = Err "ValueError" /\
  pm_volume_sub 0 (fun ws => Ok ws) 3 2 1 pos frames
    (args None (Some 5) None None None None false) = Err "IndexError" /\
  pm_volume_sub 0 (fun ws => Ok ws) 3 2 1 pos frames
    (args (Some (-4)) None None None None None false) = Err "IndexError" /\
  pm_volume_sub 0 (fun ws => Ok ws) 3 2 1 pos frames
    (args None None (Some 2) (Some 2) None None false) = Err "IndexError" /\
  pm_volume_sub 0 (fun ws => Ok ws) 3 2 1 pos frames
    (args None None (Some 4) None None None false) = Err "ValueError" /\
  pm_volume_sub 0 (fun ws => Ok ws) 3 2 2 pos frames
    (args None None None None None None false) = Err "RuntimeError".
Proof. exact vol_example. Qed.
Print Assumptions C19_example_volume_sub.

(* ValueError of the slice standardiser: exactly a one-based 0 or an empty window; with
   C19_slice_window and C19_slice_index_error this is the total characterisation *)
Theorem C19_slice_value_error : forall ss se n ai, 0 <= n ->
  std_slice ss se n ai = Err "ValueError" <->
  (ai = false /\ (ss = Some 0 \/ se = Some 0)) \/
  (arg_ok ai ss /\ arg_ok ai se /\
   match se with None => True | Some y => - n <= py0 ai y <= n end /\
   match se with None => n | Some y => pynorm n (py0 ai y) end
     <= pynorm n (match ss with None => 0 | Some x => py0 ai x end)).
Proof. exact std_slice_value_error. Qed.
Print Assumptions C19_slice_value_error.

(* the request without sub-range arguments answers the whole volume, in either convention: the
   volume of C19_volume_roundtrip is the special case of the sub-range entry point *)
Theorem C19_volume_default_request : forall R C pos frames sl ai,
  0 < R -> 0 < C -> pos <> [] -> length frames = length pos ->
  (forall fr, In fr frames -> length fr = Z.to_nat (R * C)) ->
  pm_volume pos frames = Ok sl ->
  pm_volume_sub 0 (fun ws => Ok ws) R C 1 pos frames (vol_all ai) = Ok (R, C, sl).
Proof. exact volume_sub_default. Qed.
Print Assumptions C19_volume_default_request.

(* end to end with the real world value mapping: an answered sub-range request on the volume of a
   stored single-channel integer map yields, at slice p, row r, column c, the value the mapping assigns
   (maps_to: slope * x + intercept, or the LUT entry, no default involved) to
   pixel_array[i, r0+r, c0+c] of the plane i whose position the slice carries *)
Theorem C19_volume_subrange_real_world : forall get N R C w pos m a nr nc out,
  (forall i r c j, 0 <= get i r c j < 256 ^ Z.of_nat w) -> 0 < R -> 0 < C -> 0 <= N ->
  length pos = Z.to_nat N ->
  pm_volume_sub 0%Q (apply_mapping m) R C 1 pos
    (map (read_frame w R C (pm_bytes get N R C 1 w)) (zrange N)) a = Ok (nr, nc, out) ->
  exists s e r0 r1 c0 c1,
    std_slice (v_ss a) (v_se a) N (v_ai a) = Ok (s, e) /\
    std_axis (v_rs a) (v_re a) R (v_ai a) = Ok (r0, r1) /\
    std_axis (v_cs a) (v_ce a) C (v_ai a) = Ok (c0, c1) /\
    nr = r1 - r0 /\ nc = c1 - c0 /\ length out = Z.to_nat (e - s) /\
    forall p, 0 <= p < e - s ->
      exists q i vals,
        nth_error out (Z.to_nat p) = Some (q, vals) /\
        0 <= i < N /\ nth_error pos (Z.to_nat i) = Some q /\
        forall r c, 0 <= r < r1 - r0 -> 0 <= c < c1 - c0 ->
          exists v, nth_error vals (Z.to_nat (r * (c1 - c0) + c)) = Some v /\
                    maps_to m (get i (r0 + r) (c0 + c) 0) v.
Proof. exact volume_sub_rw_roundtrip. Qed.
Print Assumptions C19_volume_subrange_real_world.

Example C19_example_volume_sub_real_world :
  let get := fun i r c (j : Z) => 100 * i + 10 * r + c in
  let pos := [[0; 0; 8]; [0; 0; 24]; [0; 0; 16]] in
  let frames := map (read_frame 1 3 2 (pm_bytes get 3 3 2 1 1)) (zrange 3) in
  let a := {| v_ss := Some 2; v_se := None; v_rs := Some 2; v_re := None; v_cs := Some (-1);
              v_ce := None; v_ai := false |} in
  pm_volume_sub 0%Q (apply_mapping (MLin (1 # 2) 1 0 255)) 3 2 1 pos frames a
    = Ok (2, 1, [([0; 0; 16], [213 # 2; 223 # 2]%Q); ([0; 0; 8], [13 # 2; 23 # 2]%Q)]) /\
  pm_volume_sub 0%Q (apply_mapping (MLin (1 # 2) 1 0 100)) 3 2 1 pos frames a = Err "ValueError".
Proof. exact vol_rw_example. Qed.
Print Assumptions C19_example_volume_sub_real_world.
