(* C08 - the executable instance: canonical rationals Qc satisfy every premise of the
   generic theorems (commutative ring, Z -> Qc is a ring morphism without torsion, the
   order test flips under negation). *)
From Coq Require Import String ZArith List Bool Lia QArith Qcanon Lqa.
From HD Require Import C08_Model.
Open Scope Z_scope.

Lemma qc_inj_add : forall a b, qc_inj (a + b) = Qcplus (qc_inj a) (qc_inj b).
Proof.
  intros. unfold qc_inj, Qcplus. apply Qc_is_canon. cbn [this Q2Qc].
  rewrite !Qred_correct, inject_Z_plus. reflexivity.
Qed.
Lemma qc_inj_mul : forall a b, qc_inj (a * b) = Qcmult (qc_inj a) (qc_inj b).
Proof.
  intros. unfold qc_inj, Qcmult. apply Qc_is_canon. cbn [this Q2Qc].
  rewrite !Qred_correct, inject_Z_mult. reflexivity.
Qed.
Lemma qc_inj_opp : forall a, qc_inj (- a) = Qcopp (qc_inj a).
Proof.
  intros. unfold qc_inj, Qcopp. apply Qc_is_canon. cbn [this Q2Qc].
  rewrite !Qred_correct, inject_Z_opp. reflexivity.
Qed.
Lemma qc_inj_1 : qc_inj 1 = Q2Qc 1%Q.
Proof. reflexivity. Qed.

Lemma qc_inj_regular : forall s x, s <> 0 -> Qcmult (qc_inj s) x = Q2Qc 0%Q -> x = Q2Qc 0%Q.
Proof.
  intros s x Hs H. destruct (Qcmult_integral _ _ H) as [H0|H0]; [|exact H0].
  exfalso. apply Hs. unfold qc_inj in H0.
  assert (E : (this (Q2Qc (inject_Z s)) == this (Q2Qc 0))%Q) by (rewrite H0; reflexivity).
  cbn [this Q2Qc] in E. rewrite !Qred_correct in E. unfold Qeq, inject_Z in E. cbn in E. lia.
Qed.

Lemma qc_ltb_opp : forall x, x <> Q2Qc 0%Q -> qc_ltb (Qcopp x) (Q2Qc 0%Q) = negb (qc_ltb x (Q2Qc 0%Q)).
Proof.
  intros x Hx. unfold qc_ltb. cbn [this Q2Qc Qcopp].
  assert (Hx' : ~ (this x == 0)%Q).
  { intros E. apply Hx. apply Qc_is_canon. cbn [this Q2Qc]. rewrite E. reflexivity. }
  destruct (Qle_bool (Qred 0) (Qred (- this x))) eqn:E1; destruct (Qle_bool (Qred 0) (this x)) eqn:E2;
    cbn [negb]; try reflexivity; exfalso.
  - apply Qle_bool_iff in E1, E2. rewrite !Qred_correct in *. lra.
  - assert (N1 : ~ (Qred 0 <= Qred (- this x))%Q) by (intros A; apply Qle_bool_iff in A; congruence).
    assert (N2 : ~ (Qred 0 <= this x)%Q) by (intros A; apply Qle_bool_iff in A; congruence).
    rewrite !Qred_correct in *. lra.
Qed.

(* the sign laws used by the orientation theorem *)
Lemma qc_le_iff : forall a b : Qc, Qle_bool (this a) (this b) = true <-> (this a <= this b)%Q.
Proof. intros. apply Qle_bool_iff. Qed.

Lemma qc_ltb_lt : forall a b : Qc, qc_ltb a b = true <-> (this a < this b)%Q.
Proof.
  intros a b. unfold qc_ltb. destruct (Qle_bool (this b) (this a)) eqn:E; cbn [negb]; split; intros H; try discriminate; try reflexivity.
  - apply Qle_bool_iff in E. lra.
  - assert (N : ~ (this b <= this a)%Q) by (intros A; apply Qle_bool_iff in A; congruence). lra.
Qed.

Lemma qc_ltb_eq : forall a b c d : Qc, ((this a < this b)%Q <-> (this c < this d)%Q) -> qc_ltb a b = qc_ltb c d.
Proof.
  intros a b c d H. destruct (qc_ltb a b) eqn:E1, (qc_ltb c d) eqn:E2; try reflexivity; exfalso.
  - apply qc_ltb_lt in E1. apply H in E1. apply qc_ltb_lt in E1. congruence.
  - apply qc_ltb_lt in E2. apply H in E2. apply qc_ltb_lt in E2. congruence.
Qed.

Lemma this_opp : forall x : Qc, (this (Qcopp x) == - this x)%Q.
Proof. intros x. unfold Qcopp. cbn [this Q2Qc]. apply Qred_correct. Qed.
Lemma this_0 : (this (Q2Qc 0%Q) == 0)%Q.
Proof. reflexivity. Qed.

Lemma qc_ltb_opp_0 : forall x, qc_ltb (Qcopp x) (Q2Qc 0%Q) = qc_ltb (Q2Qc 0%Q) x.
Proof. intros x. apply qc_ltb_eq. rewrite this_opp, this_0. split; intros; lra. Qed.
Lemma qc_ltb_0_opp : forall x, qc_ltb (Q2Qc 0%Q) (Qcopp x) = qc_ltb x (Q2Qc 0%Q).
Proof. intros x. apply qc_ltb_eq. rewrite this_opp, this_0. split; intros; lra. Qed.
Lemma qc_ltb_asym0 : forall x, qc_ltb x (Q2Qc 0%Q) = true -> qc_ltb (Q2Qc 0%Q) x = false.
Proof.
  intros x H. apply qc_ltb_lt in H. destruct (qc_ltb (Q2Qc 0%Q) x) eqn:E; [|reflexivity].
  apply qc_ltb_lt in E. rewrite this_0 in *. lra.
Qed.
Lemma qc_ltb_tri0 : forall x, qc_ltb x (Q2Qc 0%Q) = false -> qc_ltb (Q2Qc 0%Q) x = false -> x = Q2Qc 0%Q.
Proof.
  intros x H1 H2. apply Qc_is_canon. rewrite this_0.
  assert (N1 : ~ (this x < 0)%Q) by (intros A; rewrite <- this_0 in A; apply qc_ltb_lt in A; congruence).
  assert (N2 : ~ (0 < this x)%Q) by (intros A; rewrite <- this_0 in A; apply qc_ltb_lt in A; congruence).
  lra.
Qed.
