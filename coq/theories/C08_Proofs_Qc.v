(* C08 - the executable instance: canonical rationals Qc satisfy every premise of the
   generic theorems (commutative ring, Z -> Qc is a ring morphism without torsion, the
   order test flips under negation). *)
From Coq Require Import String ZArith List Bool Lia QArith Qcanon Lqa.
From HD Require Import C08_Model.
Open Scope Z_scope.

Lemma qc_inj_add : forall a b, qc_inj (a + b) = Qcplus (qc_inj a) (qc_inj b).
Proof.
  intros. unfold qc_inj, Qcplus. apply Qc_is_canon. cbn [this Q2Qc].
  rewrite !Qred_correct, inject_Z_plus. reflexivity.
Qed.
Lemma qc_inj_mul : forall a b, qc_inj (a * b) = Qcmult (qc_inj a) (qc_inj b).
Proof.
  intros. unfold qc_inj, Qcmult. apply Qc_is_canon. cbn [this Q2Qc].
  rewrite !Qred_correct, inject_Z_mult. reflexivity.
Qed.
Lemma qc_inj_opp : forall a, qc_inj (- a) = Qcopp (qc_inj a).
Proof.
  intros. unfold qc_inj, Qcopp. apply Qc_is_canon. cbn [this Q2Qc].
  rewrite !Qred_correct, inject_Z_opp. reflexivity.
Qed.
Lemma qc_inj_1 : qc_inj 1 = Q2Qc 1%Q.
Proof. reflexivity. Qed.

Lemma qc_inj_regular : forall s x, s <> 0 -> Qcmult (qc_inj s) x = Q2Qc 0%Q -> x = Q2Qc 0%Q.
Proof.
  intros s x Hs H. destruct (Qcmult_integral _ _ H) as [H0|H0]; [|exact H0].
  exfalso. apply Hs. unfold qc_inj in H0.
  assert (E : (this (Q2Qc (inject_Z s)) == this (Q2Qc 0))%Q) by (rewrite H0; reflexivity).
  cbn [this Q2Qc] in E. rewrite !Qred_correct in E. unfold Qeq, inject_Z in E. cbn in E. lia.
Qed.

Lemma qc_ltb_opp : forall x, x <> Q2Qc 0%Q -> qc_ltb (Qcopp x) (Q2Qc 0%Q) = negb (qc_ltb x (Q2Qc 0%Q)).
Proof.
  intros x Hx. unfold qc_ltb. cbn [this Q2Qc Qcopp].
  assert (Hx' : ~ (this x == 0)%Q).
  { intros E. apply Hx. apply Qc_is_canon. cbn [this Q2Qc]. rewrite E. reflexivity. }
  destruct (Qle_bool (Qred 0) (Qred (- this x))) eqn:E1; destruct (Qle_bool (Qred 0) (this x)) eqn:E2;
    cbn [negb]; try reflexivity; exfalso.
  - apply Qle_bool_iff in E1, E2. rewrite !Qred_correct in *. lra.
  - assert (N1 : ~ (Qred 0 <= Qred (- this x))%Q) by (intros A; apply Qle_bool_iff in A; congruence).
    assert (N2 : ~ (Qred 0 <= this x)%Q) by (intros A; apply Qle_bool_iff in A; congruence).
    rewrite !Qred_correct in *. lra.
Qed.
