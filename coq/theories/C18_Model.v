(* C18 - model of the bulk annotation encoding.
   Mirrors (src/highdicom/ann):
     content.py  Measurements.__init__, Measurements.get_values,
                 AnnotationGroup.__init__ (graphic data part + measurement check),
                 AnnotationGroup.get_graphic_data, get_coordinates,
                 _get_coordinate_index, get_measurements
     sop.py      MicroscopyBulkSimpleAnnotations.__init__ (group numbering),
                 get_annotation_group, get_annotation_groups
   Coordinates and measurement values are opaque WORDS: the bit pattern of the
   IEEE binary32 / binary64 number as an integer (so NaN payloads, infinities,
   signed zeros and denormals are all distinct inputs).  The only float
   operations the code performs on them are classification (isnan / isfinite)
   and equality (array_equal / np.unique), both defined on bit patterns below.
   No proofs in this file. *)
From Coq Require Import String ZArith List Bool.
From HD Require Import Base.Val.
Import ListNotations.
Open Scope Z_scope.

Definition word := Z.

(* ---- IEEE classification on bit patterns (dbl = true: binary64) ---------- *)
Definition expo (dbl : bool) (x : word) : Z :=
  if dbl then (x / 4503599627370496) mod 2048 else (x / 8388608) mod 256.
Definition mant (dbl : bool) (x : word) : Z :=
  if dbl then x mod 4503599627370496 else x mod 8388608.
Definition emax (dbl : bool) : Z := if dbl then 2047 else 255.
Definition is_finite (dbl : bool) (x : word) : bool := negb (expo dbl x =? emax dbl).
Definition is_nan (dbl : bool) (x : word) : bool :=
  (expo dbl x =? emax dbl) && negb (mant dbl x =? 0).
Definition is_zero (dbl : bool) (x : word) : bool := (expo dbl x =? 0) && (mant dbl x =? 0).
(* IEEE == *)
Definition feq (dbl : bool) (a b : word) : bool :=
  negb (is_nan dbl a) && negb (is_nan dbl b) && ((a =? b) || (is_zero dbl a && is_zero dbl b)).
(* np.float32(np.nan) *)
Definition canonical_nan32 : word := 2143289344.

(* ---- integer input: which precision stores it ----------------------------------
   AnnotationGroup.__init__: integer arrays become float32 when that cast is
   exact for every value, otherwise float64.  An integer is binary32-
   representable iff its magnitude needs at most 24 significant bits. *)
Definition fits32 (v : Z) : bool :=
  let a := Z.abs v in
  if a =? 0 then true
  else let k := Z.log2 a in (k <? 24) || (a mod 2 ^ (k - 23) =? 0).
Definition ints_double (vs : list Z) : bool := negb (forallb fits32 vs).
(* integers beyond 2^53 cannot be held by any float storage: refused (ValueError) *)
Definition ints_ok (vs : list Z) : bool := forallb (fun v => Z.abs v <=? 9007199254740992) vs.
Definition guard_ints (vs : list Z) (v : val) : val := if ints_ok vs then v else VErr "ValueError".

(* ---- graphic data ----------------------------------------------------------- *)
Inductive gtype := POINT | POLYLINE | POLYGON | ELLIPSE | RECTANGLE.

Definition row := list word.          (* one coordinate pair / triplet *)
Definition annot := list row.         (* one annotation: n x d array *)

Definition zlen {A} (l : list A) : Z := Z.of_nat (length l).

Definition count_ok (gt : gtype) (n : Z) : bool :=
  match gt with
  | POINT => n =? 1
  | RECTANGLE => n =? 4
  | ELLIPSE => n =? 4
  | POLYLINE => 2 <=? n
  | POLYGON => 3 <=? n
  end.

Fixpoint forallb2 {A} (f : A -> A -> bool) (a b : list A) : bool :=
  match a, b with
  | [], [] => true
  | x :: a', y :: b' => f x y && forallb2 f a' b'
  | _, _ => false
  end.

(* np.array_equal(first row, last row) *)
Definition closed (dbl : bool) (a : annot) : bool :=
  match a with
  | [] => false
  | r0 :: _ => forallb2 (feq dbl) r0 (last a r0)
  end.

Definition annot_ok (dbl : bool) (gt : gtype) (a : annot) : bool :=
  count_ok gt (zlen a) &&
  match gt with POLYGON => negb (closed dbl a) | _ => true end.

Definition third (r : row) : word := nth 2 r 0.

(* np.cumsum *)
Fixpoint cumsum_from (acc : Z) (l : list Z) : list Z :=
  match l with
  | [] => []
  | x :: t => (acc + x) :: cumsum_from (acc + x) t
  end.

(* LongPrimitivePointIndexList: [1] ++ (cumsum(spans) + 1)[:-1] *)
Definition point_index_list (sd : Z) (gd : list annot) : list Z :=
  let spans := map (fun a => zlen a * sd) gd in
  1 :: removelast (map (fun c => c + 1) (cumsum_from 0 spans)).

Record enc := mkEnc {
  e_dbl : bool;                 (* DoublePointCoordinatesData vs PointCoordinatesData *)
  e_gt : gtype;                 (* GraphicType *)
  e_n : Z;                      (* NumberOfAnnotations *)
  e_data : list word;           (* (Double)PointCoordinatesData *)
  e_cz : option word;           (* CommonZCoordinateValue *)
  e_idx : option (list Z)       (* LongPrimitivePointIndexList *)
}.

Definition is_poly (gt : gtype) : bool :=
  match gt with POLYLINE | POLYGON => true | _ => false end.

Definition VE : string := "ValueError".

(* AnnotationGroup.__init__, graphic data part *)
Definition encode (dbl : bool) (gt : gtype) (gd : list annot) : res enc :=
  if negb (forallb (annot_ok dbl gt) gd) then Err VE
  else
    let rows := concat gd in
    match rows with
    | [] => Err VE                                   (* np.concatenate([]) *)
    | r0 :: _ =>
      let d := zlen r0 in
      if negb (forallb (fun r => zlen r =? d) rows) then Err VE
      else if negb ((d =? 2) || (d =? 3)) then Err VE
      else if negb (forallb (forallb (is_finite dbl)) rows) then Err VE
      else
        let common := (d =? 3) && forallb (fun r => feq dbl (third r0) (third r)) rows in
        let sd := if common then 2 else d in
        let data := if common then flat_map (firstn 2) rows else concat rows in
        Ok (mkEnc dbl gt (zlen gd) data
                  (if common then Some (third r0) else None)
                  (if is_poly gt then Some (point_index_list sd gd) else None))
    end.

(* ndarray.reshape(-1, k) on a flat list whose length is a multiple of k *)
Fixpoint chunk {A} (fuel : nat) (k : nat) (l : list A) : list (list A) :=
  match fuel with
  | O => []
  | S f => match l with
           | [] => []
           | _ => firstn k l :: chunk f k (skipn k l)
           end
  end.

Definition reshape_rows {A} (k : Z) (l : list A) : res (list (list A)) :=
  if (k <=? 0) then Err VE
  else if negb (zlen l mod k =? 0) then Err VE
  else Ok (chunk (length l) (Z.to_nat k) l).

(* ary[a:b] for 0 <= a, b *)
Definition slice_rows {A} (a b : Z) (l : list A) : list A :=
  firstn (Z.to_nat (b - a)) (skipn (Z.to_nat a) l).

(* np.split(ary, indices): pieces between consecutive division points *)
Fixpoint split_at {A} (divs : list Z) (l : list A) : list (list A) :=
  match divs with
  | a :: ((b :: _) as t) => slice_rows a b l :: split_at t l
  | _ => []
  end.

(* np.split(ary, sections) with an int *)
Definition split_sections {A} (sections : Z) (l : list A) : res (list (list A)) :=
  if sections =? 0 then Err "ZeroDivisionError"
  else if negb (zlen l mod sections =? 0) then Err VE
  else Ok (chunk (length l) (Z.to_nat (zlen l / sections)) l).

(* AnnotationGroup.get_graphic_data on a parsed group (empty cache);
   cd = coordinate dimensionality requested by the caller (2 for "2D", 3 for "3D") *)
Definition decode (e : enc) (cd : Z) : res (list annot) :=
  let sd := match e_cz e with Some _ => 2 | None => cd end in
  bind (reshape_rows sd (e_data e)) (fun rows2 =>
    let rows := match e_cz e with
                | Some z => map (fun r => r ++ [z]) rows2
                | None => rows2
                end in
    match e_gt e with
    | RECTANGLE | ELLIPSE => split_sections (zlen rows / 4) rows
    | POINT => split_sections (zlen rows) rows
    | POLYLINE | POLYGON =>
        match e_idx e with
        | None => Err "AttributeError"
        | Some idx =>
            let divs := tl (map (fun i => (i - 1) / sd) idx) in
            Ok (split_at (0 :: divs ++ [zlen rows]) rows)
        end
    end).

(* AnnotationGroup.get_coordinates *)
Definition get_coordinates (gdr : res (list annot)) (k : Z) : res annot :=
  if k <? 1 then Err VE
  else bind gdr (fun gd =>
         match nth_error gd (Z.to_nat (k - 1)) with
         | Some a => Ok a
         | None => Err "IndexError"
         end).

(* range(start, end) *)
Definition zrange2 (a b : Z) : list Z := map (fun i => a + Z.of_nat i) (seq 0 (Z.to_nat (b - a))).

(* AnnotationGroup._get_coordinate_index for 1 <= k *)
Definition coordinate_index (e : enc) (k cd ncoords : Z) : res (list Z) :=
  let i := Z.to_nat (k - 1) in
  if is_poly (e_gt e) then
    match e_idx e with
    | None => Err "AttributeError"
    | Some idx =>
        match nth_error idx i with
        | None => Err "IndexError"
        | Some s =>
            let stop := match nth_error idx (S i) with Some t => t - 1 | None => ncoords end in
            Ok (zrange2 (s - 1) stop)
        end
    end
  else
    let sd := match e_cz e with Some _ => 2 | None => cd end in
    let len := match e_gt e with POINT => sd | _ => 4 * sd end in
    Ok (zrange2 ((k - 1) * len) ((k - 1) * len + len)).

(* ---- measurements ------------------------------------------------------------- *)
Record menc := mkMenc {
  m_values : list word;            (* FloatingPointValues (binary32 words) *)
  m_idx : option (list Z);         (* AnnotationIndexList (1-based) *)
  m_len : option Z                 (* _number_of_values: Some for a constructed
                                      Measurements, None for a parsed dataset *)
}.

Fixpoint positions_from {A} (i : Z) (keep : A -> bool) (l : list A) : list Z :=
  match l with
  | [] => []
  | x :: t => if keep x then i :: positions_from (i + 1) keep t else positions_from (i + 1) keep t
  end.

(* Measurements.__init__ (values already binary32 words) *)
Definition m_encode (vs : list word) : menc :=
  let present := fun v => negb (is_nan false v) in
  mkMenc (filter present vs)
         (if existsb (is_nan false) vs then Some (positions_from 1 present vs) else None)
         (Some (zlen vs)).

(* what is left of it in a written dataset (Measurements.from_dataset) *)
Definition m_parsed (m : menc) : menc := mkMenc (m_values m) (m_idx m) None.

(* values[j] = v  (numpy index: negative wraps once, otherwise IndexError) *)
Fixpoint set_nth {A} (i : nat) (v : A) (l : list A) : list A :=
  match l, i with
  | [], _ => []
  | _ :: t, O => v :: t
  | x :: t, S j => x :: set_nth j v t
  end.

Fixpoint scatter (n : Z) (idx : list Z) (vals : list word) (acc : list word) : res (list word) :=
  match idx, vals with
  | i :: idx', v :: vals' =>
      let j := if i <? 0 then i + n else i in
      if (j <? 0) || (n <=? j) then Err "IndexError"
      else scatter n idx' vals' (set_nth (Z.to_nat j) v acc)
  | _, _ => Ok acc
  end.

(* numpy checks all indices before writing: an out-of-range index anywhere
   raises; [scatter] raises at the first bad one - same outcome *)
Definition m_decode (m : menc) (n : Z) : res (list word) :=
  if n <? 0 then Err VE
  else
    let idx0 := match m_idx m with
                | Some l => map (fun i => i - 1) l
                | None => zrange2 0 n
                end in
    if negb (zlen (m_values m) =? zlen idx0) then Err "IndexError"
    else scatter n idx0 (m_values m) (repeat canonical_nan32 (Z.to_nat n)).

(* measurement item = (name id, values) ; AnnotationGroup.__init__ check *)
Definition accepts_one (n : Z) (m : menc) : bool :=
  match m_len m with Some l => l =? n | None => true end &&
  match m_decode m n with Ok _ => true | Err _ => false end.
Definition group_accepts_measurements (n : Z) (ms : list (Z * menc)) : bool :=
  forallb (fun m => accepts_one n (snd m)) ms.

Fixpoint sequence_res {A} (l : list (res A)) : res (list A) :=
  match l with
  | [] => Ok []
  | r :: t => bind r (fun a => bind (sequence_res t) (fun t' => Ok (a :: t')))
  end.

(* AnnotationGroup.get_measurements: (names, columns) ; the value matrix is the
   transpose of the returned columns *)
Definition get_measurements (n : Z) (ms : list (Z * menc)) (name : option Z)
  : res (list Z * list (list word)) :=
  let sel := filter (fun m => match name with None => true | Some q => fst m =? q end) ms in
  bind (sequence_res (map (fun m => m_decode (snd m) n) sel)) (fun cols =>
    Ok (map fst sel, cols)).

(* ---- group lookup ---------------------------------------------------------------- *)
Record ginfo := mkG {
  g_number : Z; g_uid : Z; g_label : Z; g_cat : Z; g_typ : Z; g_gt : gtype;
  g_algtype : Z;
  g_alg : option (Z * Z * Z)      (* name, version, family *)
}.

Definition gtype_eqb (a b : gtype) : bool :=
  match a, b with
  | POINT, POINT | POLYLINE, POLYLINE | POLYGON, POLYGON
  | ELLIPSE, ELLIPSE | RECTANGLE, RECTANGLE => true
  | _, _ => false
  end.

(* MicroscopyBulkSimpleAnnotations.__init__: group i must carry number i+1 *)
Fixpoint numbered_from (i : Z) (gs : list ginfo) : bool :=
  match gs with
  | [] => true
  | g :: t => (g_number g =? i) && numbered_from (i + 1) t
  end.
Definition sop_accepts (gs : list ginfo) : bool := numbered_from 1 gs.

Definition unique_or_err (items : list ginfo) : res ginfo :=
  match items with
  | [] => Err VE
  | [g] => Ok g
  | _ => Err VE
  end.

Definition get_group (gs : list ginfo) (number uid : option Z) : res ginfo :=
  match number, uid with
  | None, None => Err "TypeError"
  | Some k, _ => unique_or_err (filter (fun g => g_number g =? k) gs)
  | None, Some u => unique_or_err (filter (fun g => g_uid g =? u) gs)
  end.

Record query := mkQ {
  q_cat : option Z; q_typ : option Z; q_label : option Z; q_gt : option gtype;
  q_algtype : option Z; q_name : option Z; q_family : option Z; q_version : option Z
}.

Definition opt_match {A} (q : option A) (f : A -> bool) : list bool :=
  match q with None => [] | Some x => [f x] end.

Definition is_some {A} (o : option A) : bool := match o with Some _ => true | None => false end.

(* the [matches] list built by get_annotation_groups for one item *)
Definition match_list (q : query) (g : ginfo) : list bool :=
  opt_match (q_cat q) (fun c => g_cat g =? c) ++
  opt_match (q_typ q) (fun c => g_typ g =? c) ++
  opt_match (q_label q) (fun c => g_label g =? c) ++
  opt_match (q_gt q) (fun c => gtype_eqb (g_gt g) c) ++
  opt_match (q_algtype q) (fun c => g_algtype g =? c) ++
  match g_alg g with
  | Some (nm, ver, fam) =>
      opt_match (q_name q) (fun c => nm =? c) ++
      opt_match (q_version q) (fun c => ver =? c) ++
      opt_match (q_family q) (fun c => fam =? c)
  | None =>
      if is_some (q_name q) || is_some (q_version q) || is_some (q_family q) then [false] else []
  end.

Definition get_groups (gs : list ginfo) (q : query) : list ginfo :=
  filter (fun g => let m := match_list q g in forallb (fun b => b) m || (length m =? 0)%nat) gs.

(* ---- boundary functions for the correspondence run ------------------------------ *)
Definition vrow (r : row) : val := vz_list r.
Definition vannot (a : annot) : val := VL (map vrow a).
Definition vgd (gd : list annot) : val := VL (map vannot gd).
Definition venc (e : enc) : val :=
  VL [VB (e_dbl e); VZ (e_n e); vz_list (e_data e); vopt VZ (e_cz e); vopt vz_list (e_idx e)].

(* one group: stored encoding, decoded graphic data, get_coordinates for the
   numbers in ks, _get_coordinate_index for the numbers in cis *)
Definition run_graphic (dbl : bool) (gt : gtype) (gd : list annot) (cd : Z) (ks cis : list Z) : val :=
  match encode dbl gt gd with
  | Err k => VErr k
  | Ok e =>
      let dec := decode e cd in
      VL [venc e;
          vres vgd dec;
          VL (map (fun k => vres vannot (get_coordinates dec k)) ks);
          VL (map (fun k => vres vz_list (coordinate_index e k cd (zlen (e_data e)))) cis)]
  end.

(* the freshly built object hands back the caller's own arrays (its cache), not a
   decoded copy: decoded data and per-annotation access on that path *)
Definition run_graphic_mem (dbl : bool) (gt : gtype) (gd : list annot) (ks : list Z) : val :=
  match encode dbl gt gd with
  | Err k => VErr k
  | Ok _ => VL [vgd gd; VL (map (fun k => vres vannot (get_coordinates (Ok gd) k)) ks)]
  end.

(* projection of a result tuple (to observe fewer components on some paths) *)
Definition sel (ix : list nat) (v : val) : val :=
  match v with VL l => VL (map (fun i => nth i l VNone) ix) | e => e end.

(* decode of an arbitrary (possibly malformed) stored group *)
Definition run_decode (dbl : bool) (gt : gtype) (n : Z) (data : list word) (cz : option word)
           (idx : option (list Z)) (cd : Z) : val :=
  vres vgd (decode (mkEnc dbl gt n data cz idx) cd).

Definition vmenc (m : menc) : val := VL [vz_list (m_values m); vopt vz_list (m_idx m)].
Definition run_meas (vs : list word) (ns : list Z) : val :=
  let m := m_encode vs in
  VL [vmenc m; VL (map (fun n => vres vz_list (m_decode m n)) ns)].
Definition run_meas_raw (vals : list word) (idx : option (list Z)) (n : Z) : val :=
  vres vz_list (m_decode (mkMenc vals idx None) n).

(* group with n annotations and named measurement vectors; queries = name filters *)
Definition run_group_meas (n : Z) (ms : list (Z * list word)) (queries : list (option Z)) : val :=
  let ms' := map (fun m => (fst m, m_encode (snd m))) ms in
  if negb (group_accepts_measurements n ms') then VErr VE
  else VL (map (fun q => vres (fun r => VL [vz_list (fst r); vz_list2 (snd r)])
                              (get_measurements n ms' q)) queries).

Inductive lookup :=
| ByNumber (k : Z) | ByUid (u : Z) | ByNothing | ByQuery (q : query).

Definition run_lookup (gs : list ginfo) (ls : list lookup) : val :=
  if negb (sop_accepts gs) then VErr VE
  else VL (map (fun l => match l with
                         | ByNumber k => vres (fun g => VZ (g_number g)) (get_group gs (Some k) None)
                         | ByUid u => vres (fun g => VZ (g_number g)) (get_group gs None (Some u))
                         | ByNothing => vres (fun g => VZ (g_number g)) (get_group gs None None)
                         | ByQuery q => vz_list (map g_number (get_groups gs q))
                         end) ls).

(* ---- access history on ONE group object -------------------------------------------
   get_graphic_data keeps what it decoded in self._graphic_data, a dict keyed by the
   coordinate type: empty on a parsed group (from_dataset / annread), {type: the
   caller's arrays} on a freshly constructed one.  get_coordinates goes through
   get_graphic_data.  So the answers of a group object may depend on which accessor
   was called before; the model carries that cache explicitly.
   cache = None: nothing decoded yet; Some (cd, gd): gd cached under type cd. *)
Inductive hop := HAll (cd : Z) | HOne (k cd : Z).
Inductive hres := RAll (r : res (list annot)) | ROne (r : res annot).
Definition gcache := option (Z * list annot).

Definition op_cd (o : hop) : Z := match o with HAll cd => cd | HOne _ cd => cd end.

(* get_graphic_data as a state transition; a failed decode caches nothing *)
Definition cached_graphic_data (e : enc) (c : gcache) (cd : Z) : res (list annot) * gcache :=
  match c with
  | Some (cd0, gd) => if cd0 =? cd then (Ok gd, c) else (Err VE, c)
  | None => match decode e cd with
            | Ok gd => (Ok gd, Some (cd, gd))
            | Err k => (Err k, None)
            end
  end.

Definition hstep (e : enc) (c : gcache) (o : hop) : hres * gcache :=
  match o with
  | HAll cd => let rc := cached_graphic_data e c cd in (RAll (fst rc), snd rc)
  | HOne k cd =>
      if k <? 1 then (ROne (Err VE), c)           (* refused before anything is decoded *)
      else let rc := cached_graphic_data e c cd in (ROne (get_coordinates (fst rc) k), snd rc)
  end.

Fixpoint run_ops (e : enc) (c : gcache) (ops : list hop) : list hres :=
  match ops with
  | [] => []
  | o :: t => let rc := hstep e c o in fst rc :: run_ops e (snd rc) t
  end.

(* coordinate type under which the constructor caches the caller's arrays *)
Definition row_dim (gd : list annot) : Z :=
  match concat gd with r0 :: _ => zlen r0 | [] => 0 end.

Definition vhres (r : hres) : val :=
  match r with RAll r => vres vgd r | ROne r => vres vannot r end.

(* one group, built from gd; warm = true: the freshly built object (cache filled by
   the constructor), warm = false: the same group parsed from its stored attributes;
   then the accessor calls [ops] in that order on that one object *)
Definition run_history (dbl : bool) (gt : gtype) (gd : list annot) (warm : bool) (ops : list hop) : val :=
  match encode dbl gt gd with
  | Err k => VErr k
  | Ok e => VL (map vhres (run_ops e (if warm then Some (row_dim gd, gd) else None) ops))
  end.

(* ---- the whole object: several groups, each with graphic data AND measurements ------------
   One value describes what the caller hands to AnnotationGroup(...) per group
   ([gspec]) and to MicroscopyBulkSimpleAnnotations(...) ([sophdr]); [build_full]
   follows the constructors (same guards, same order, same exception classes);
   [parse_obj] is what from_dataset / annread leave of a group (decode cache empty,
   measurement lengths forgotten); lookups return the group OBJECT, on which the
   accessors are then called. *)
Record gspec := mkGS {
  s_info : ginfo;                       (* number, uid, label, codes, graphic type, algorithm *)
  s_dbl : bool;                         (* precision of the concatenated coordinate array *)
  s_gd : list annot;
  s_ms : list (Z * list word)           (* (name id, values) per Measurements item *)
}.

Record gobj := mkGO {
  o_info : ginfo;
  o_enc : enc;
  o_ms : list (Z * menc);
  o_cache : gcache                      (* self._graphic_data *)
}.

(* the algorithm identification is stored only when the type is not MANUAL (type 0) *)
Definition norm_info (g : ginfo) : ginfo :=
  mkG (g_number g) (g_uid g) (g_label g) (g_cat g) (g_typ g) (g_gt g) (g_algtype g)
      (if g_algtype g =? 0 then None else g_alg g).

(* AnnotationGroup.__init__, in the order of the code: number, algorithm type (enum:
   0 MANUAL, 1 SEMIAUTOMATIC, 2 AUTOMATIC, anything else is no member), algorithm
   identification required unless MANUAL (TypeError), graphic data, measurement counts *)
Definition build_group (s : gspec) : res gobj :=
  let g := s_info s in
  if g_number g <? 1 then Err VE
  else if (g_algtype g <? 0) || (2 <? g_algtype g) then Err VE
  else if negb (g_algtype g =? 0) && negb (is_some (g_alg g)) then Err "TypeError"
  else bind (encode (s_dbl s) (g_gt g) (s_gd s)) (fun e =>
         let ms := map (fun m => (fst m, m_encode (snd m))) (s_ms s) in
         if group_accepts_measurements (e_n e) ms
         then Ok (mkGO (norm_info g) e ms (Some (row_dim (s_gd s), s_gd s)))
         else Err VE).

(* MicroscopyBulkSimpleAnnotations.__init__ before the groups are looked at *)
Record sophdr := mkH {
  h_ctype_ok : bool;                    (* annotation_coordinate_type is "2D" or "3D" *)
  h_3d : bool;
  h_nsrc : Z;                           (* number of source images *)
  h_nfor : Z;                           (* number of distinct FrameOfReferenceUIDs among them *)
  h_ts_ok : bool                        (* transfer syntax implicit / explicit VR little endian *)
}.

Definition sop_header (h : sophdr) : res unit :=
  if negb (h_ctype_ok h) then Err VE
  else if 1 <? h_nfor h then Err VE
  else if h_nsrc h =? 0 then Err VE
  else if (1 <? h_nsrc h) && negb (h_3d h) then Err VE
  else if negb (h_ts_ok h) then Err VE
  else Ok tt.

(* the caller builds the groups first (first failing group decides), then the instance *)
Definition build_full (h : sophdr) (ss : list gspec) : res (list gobj) :=
  bind (sequence_res (map build_group ss)) (fun os =>
  bind (sop_header h) (fun _ =>
    if numbered_from 1 (map o_info os) then Ok os else Err VE)).

Definition parse_obj (o : gobj) : gobj :=
  mkGO (o_info o) (o_enc o) (map (fun m => (fst m, m_parsed (snd m))) (o_ms o)) None.

Definition unique_obj (items : list gobj) : res gobj :=
  match items with [o] => Ok o | _ => Err VE end.

(* get_annotation_group returning the group object *)
Definition get_group_obj (os : list gobj) (number uid : option Z) : res gobj :=
  match number, uid with
  | None, None => Err "TypeError"
  | Some k, _ => unique_obj (filter (fun o => g_number (o_info o) =? k) os)
  | None, Some u => unique_obj (filter (fun o => g_uid (o_info o) =? u) os)
  end.

Definition get_groups_obj (os : list gobj) (q : query) : list gobj :=
  filter (fun o => let m := match_list q (o_info o) in forallb (fun b => b) m || (length m =? 0)%nat) os.

(* np.vstack(columns).T : row i = the i-th value of every selected measurement *)
Definition transpose_cols (n : Z) (cols : list (list word)) : list (list word) :=
  map (fun i => map (fun c => nth i c canonical_nan32) cols) (seq 0 (Z.to_nat n)).

(* get_measurements as returned: names, n x m value matrix *)
Definition get_measurement_matrix (n : Z) (ms : list (Z * menc)) (name : option Z)
  : res (list Z * list (list word)) :=
  bind (get_measurements n ms name) (fun r => Ok (fst r, transpose_cols n (snd r))).

(* what is observed on one group object: accessor calls [ops] in that order, then
   get_measurements under the name filters [names] (matrix form) *)
Definition observe (o : gobj) (ops : list hop) (names : list (option Z)) : val :=
  VL [VZ (g_number (o_info o));
      VL (map vhres (run_ops (o_enc o) (o_cache o) ops));
      VL (map (fun q => vres (fun r => VL [vz_list (fst r); vz_list2 (snd r)])
                             (get_measurement_matrix (e_n (o_enc o)) (o_ms o) q)) names)].

Inductive olookup := LNumber (k : Z) | LUid (u : Z) | LQuery (q : query).

(* build the instance, optionally parse it, then: look a group up, call its accessors *)
Definition run_object (h : sophdr) (ss : list gspec) (parsed : bool)
           (ls : list (olookup * list hop * list (option Z))) : val :=
  match build_full h ss with
  | Err k => VErr k
  | Ok os =>
      let os' := if parsed then map parse_obj os else os in
      VL (map (fun l =>
                 match l with
                 | (LNumber k, ops, names) =>
                     vres (fun o => observe o ops names) (get_group_obj os' (Some k) None)
                 | (LUid u, ops, names) =>
                     vres (fun o => observe o ops names) (get_group_obj os' None (Some u))
                 | (LQuery q, ops, names) =>
                     VL (map (fun o => observe o ops names) (get_groups_obj os' q))
                 end) ls)
  end.

(* ---- the index list as numpy computes it: np.cumsum(spans, dtype=np.int32) + 1 in two's
   complement int32 (silent wrap).  [point_index_list] above is the same computation in
   unbounded integers; C18_Proofs_Int32 proves that they agree whenever the group stores
   fewer than 2^31 - 1 coordinate values (an OF / OD attribute holds at most 2^30 / 2^29). *)
Definition wrap32 (z : Z) : Z := (z + 2147483648) mod 4294967296 - 2147483648.

Fixpoint cumsum32_from (acc : Z) (l : list Z) : list Z :=
  match l with
  | [] => []
  | x :: t => let a := wrap32 (acc + wrap32 x) in a :: cumsum32_from a t
  end.

Definition index_list32_of_spans (spans : list Z) : list Z :=
  1 :: removelast (map (fun c => wrap32 (c + 1)) (cumsum32_from 0 spans)).

Definition point_index_list32 (sd : Z) (gd : list annot) : list Z :=
  index_list32_of_spans (map (fun a => zlen a * sd) gd).

(* ---- from_dataset guards (MicroscopyBulkSimpleAnnotations / AnnotationGroup /
   Measurements .from_dataset): the argument must be a Dataset (TypeError), of the ANN SOP
   class (ValueError), and - when it carries file meta information - in a little endian
   transfer syntax (ValueError; without file meta little endian is assumed) *)
Inductive parse_input :=
| PNotDataset
| PDataset (sop_class_ok : bool) (file_meta_little_endian : option bool).

Definition parse_sop_guard (p : parse_input) : res unit :=
  match p with
  | PNotDataset => Err "TypeError"
  | PDataset false _ => Err VE
  | PDataset true (Some false) => Err VE
  | PDataset true _ => Ok tt
  end.

(* parse a written instance (or something else), then look groups up and read them *)
Definition run_parse_guard (p : parse_input) (h : sophdr) (ss : list gspec)
           (ls : list (olookup * list hop * list (option Z))) : val :=
  match parse_sop_guard p with
  | Err k => VErr k
  | Ok _ => run_object h ss true ls
  end.

(* ---- an instance whose Annotation Group Sequence is not the constructor's -------------------
   The constructor makes item i carry number i+1, but from_dataset / annread check nothing
   about Annotation Group Numbers, and the items of a written instance can be removed,
   stored in another order, renumbered or stored twice before it is parsed (or the
   sequence of the object in memory can be rearranged).  [edit_items os ed] is the item
   sequence that is then looked at: for each (p, r) of [ed] the item at position p
   (0-based) of the built sequence, carrying number r when r is given; positions outside
   the sequence contribute nothing.  get_annotation_group(number=k) SEARCHES the items for
   the number carried ([get_group], [get_group_obj] above: a filter, never an index), so
   the same functions describe the lookups on the rearranged sequence. *)
Definition renumber_info (k : Z) (g : ginfo) : ginfo :=
  mkG k (g_uid g) (g_label g) (g_cat g) (g_typ g) (g_gt g) (g_algtype g) (g_alg g).

Definition renumber (k : Z) (o : gobj) : gobj :=
  mkGO (renumber_info k (o_info o)) (o_enc o) (o_ms o) (o_cache o).

Definition edit_pick {A} (ren : Z -> A -> A) (l : list A) (e : Z * option Z) : list A :=
  if fst e <? 0 then []
  else match nth_error l (Z.to_nat (fst e)) with
       | Some x => [match snd e with Some k => ren k x | None => x end]
       | None => []
       end.

Definition edit_infos (gs : list ginfo) (ed : list (Z * option Z)) : list ginfo :=
  flat_map (edit_pick renumber_info gs) ed.

Definition edit_items (os : list gobj) (ed : list (Z * option Z)) : list gobj :=
  flat_map (edit_pick renumber os) ed.

(* identification only: the groups are built by the constructor (numbered 1, 2, ..), the
   item sequence is rearranged, then looked up; a group found is reported as (number, uid) *)
Definition run_lookup_edited (gs : list ginfo) (ed : list (Z * option Z)) (ls : list lookup) : val :=
  if negb (sop_accepts gs) then VErr VE
  else
    let gs' := edit_infos gs ed in
    let show := fun g => VL [VZ (g_number g); VZ (g_uid g)] in
    VL (map (fun l => match l with
                      | ByNumber k => vres show (get_group gs' (Some k) None)
                      | ByUid u => vres show (get_group gs' None (Some u))
                      | ByNothing => vres show (get_group gs' None None)
                      | ByQuery q => VL (map show (get_groups gs' q))
                      end) ls).

(* the whole object: build, optionally parse, rearrange the item sequence, look groups up
   and read coordinates / measurements on the object found *)
Definition run_object_edited (h : sophdr) (ss : list gspec) (parsed : bool) (ed : list (Z * option Z))
           (ls : list (olookup * list hop * list (option Z))) : val :=
  match build_full h ss with
  | Err k => VErr k
  | Ok os =>
      let os' := edit_items (if parsed then map parse_obj os else os) ed in
      VL (map (fun l =>
                 match l with
                 | (LNumber k, ops, names) =>
                     vres (fun o => observe o ops names) (get_group_obj os' (Some k) None)
                 | (LUid u, ops, names) =>
                     vres (fun o => observe o ops names) (get_group_obj os' None (Some u))
                 | (LQuery q, ops, names) =>
                     VL (map (fun o => observe o ops names) (get_groups_obj os' q))
                 end) ls)
  end.
