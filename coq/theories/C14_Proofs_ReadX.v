(* C14 - the refinement and family theorems for histories that start from from_sequence over all
   fifteen value types: from_sequence_x is __init__ on the converted datasets, so every theorem about
   [construct (FromList _)] applies. *)
From Coq Require Import String ZArith List Bool Permutation.
From HD Require Import Base.Val Base.PySlice C14_Model C14_Proofs C14_Proofs_Ext C14_Proofs_Slice C14_Proofs_Refine
  C14_Proofs_Multi C14_Proofs_Read.
Import ListNotations.
Open Scope Z_scope.

Theorem refinement_all_x ds root sr s0 ops : from_sequence_x ds root sr = Ok s0 ->
  let t := xrun s0 ops in
  let L := fold_left (xref_step root sr) ops (map to_item_x ds) in
  items t = L /\
  (forall n, exists r, find t n = Ok r /\ Permutation r (filter (has n) L)) /\
  (forall x, index t x = if negb (is_item x) then Err ETYPE
                         else match pos_of x L 0 with Some k => Ok k | None => Err EVALUE end) /\
  (forall x, is_item x = true -> contains t x = Ok (existsb (fun y => item_eqb y x) L)) /\
  (forall x, count t x = Z.of_nat (count_occ item_eq_dec L x)) /\
  get_nodes t = Ok (filter inode L) /\
  is_root t = root /\ is_sr t = sr.
Proof.
  intros H. apply from_sequence_x_ok in H. destruct H as [H _].
  exact (refinement_all (FromList (map to_item_x ds)) root sr s0 ops H).
Qed.

Theorem family_summary_x ds root sr s0 ops : from_sequence_x ds root sr = Ok s0 ->
  Forall (fun t =>
    (forall n, Permutation (lut t n) (filter (has n) (items t))) /\
    (forall n, exists r, find t n = Ok r /\ Permutation r (filter (has n) (items t)) /\
       forall x, count_occ item_eq_dec r x = if has n x then count_occ item_eq_dec (items t) x else 0%nat) /\
    (forall x, (forall k, index t x = Ok k ->
                  0 <= k < zlen (items t) /\ nth_error (items t) (Z.to_nat k) = Some x /\
                  forall j, 0 <= j < k -> nth_error (items t) (Z.to_nat j) <> Some x) /\
               ((exists k, index t x = Ok k) <-> is_item x = true /\ In x (items t)) /\
               (is_item x = true -> (contains t x = Ok true <-> In x (items t)) /\
                                    (contains t x = Ok false <-> ~ In x (items t))) /\
               count t x = Z.of_nat (count_occ item_eq_dec (items t) x)) /\
    get_nodes t = Ok (filter inode (items t)) /\
    Forall (fun x => is_item x = true /\ (is_sr t = true -> (irel x =? 0) = is_root t)) (items t))
  (mrun [s0] ops).
Proof.
  intros H. apply from_sequence_x_ok in H. destruct H as [H _].
  exact (family_summary (FromList (map to_item_x ds)) root sr s0 ops H).
Qed.
