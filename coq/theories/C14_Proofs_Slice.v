(* C14 - (1) the number of positions an extended slice selects is Python's
   len(range(f, l, s)) for (f, l, s) = slice.indices(len), so the model's length guard of extended slice
   assignment is CPython's; (2) the exact error outcome of every basic operation as
   a function of list, flags and arguments only - in a state where index and list
   agree the name index never influences whether an operation is accepted. *)
From Coq Require Import String ZArith List Bool Lia ZifyBool Permutation.
From HD Require Import Base.Val Base.PySlice Base.ListZ C14_Model C14_Proofs.
Import ListNotations.
Open Scope Z_scope.
Ltac Zify.zify_post_hook ::= Z.to_euclidean_division_equations.

(* ---- how many positions a mask selects ------------------------------------------------------ *)
Lemma sel_map_length (p : nat -> bool) : forall (l : list item) a,
  length (sel (map p (seq a (length l))) l) = length (filter p (seq a (length l))).
Proof.
  induction l as [|x l IH]; intros a; [reflexivity|]. cbn [length seq map sel filter].
  destruct (p a); cbn [length]; rewrite IH; reflexivity.
Qed.

(* the selected positions are exactly the members of range(f, l, s), each once *)
Lemma selected_count f l s n : s <> 0 ->
  (forall k, 0 <= k < range_len f l s -> 0 <= f + k * s < Z.of_nat n) ->
  length (filter (fun i => selected f l s (Z.of_nat i)) (seq 0 n)) = Z.to_nat (range_len f l s).
Proof.
  intros Hs Hb.
  set (g := fun k : nat => Z.to_nat (f + Z.of_nat k * s)).
  assert (P : Permutation (filter (fun i => selected f l s (Z.of_nat i)) (seq 0 n))
                          (map g (seq 0 (Z.to_nat (range_len f l s))))).
  { apply NoDup_Permutation.
    - apply NoDup_filter, seq_NoDup.
    - apply NoDup_map_inj; [|apply seq_NoDup]. intros x y Hx Hy. apply in_seq in Hx, Hy. unfold g.
      pose proof (Hb (Z.of_nat x) ltac:(lia)). pose proof (Hb (Z.of_nat y) ltac:(lia)). intros E.
      assert (E' : f + Z.of_nat x * s = f + Z.of_nat y * s) by lia. nia.
    - intros i. rewrite filter_In, in_seq, in_map_iff. rewrite (selected_iff_range f l s (Z.of_nat i) Hs). split.
      + intros [_ (k & Hk & E)]. exists (Z.to_nat k). split; [unfold g; rewrite Z2Nat.id by lia; lia|].
        apply in_seq. lia.
      + intros (k & E & Hk). apply in_seq in Hk. unfold g in E. pose proof (Hb (Z.of_nat k) ltac:(lia)).
        split; [lia|]. exists (Z.of_nat k). split; lia. }
  rewrite (Permutation_length P), map_length, seq_length. reflexivity.
Qed.

Lemma slice_indices_neg_bounds start stop stp len f l s :
  stp < 0 -> 0 <= len -> slice_indices start stop stp len = (f, l, s) -> -1 <= f <= len - 1 /\ -1 <= l <= len - 1.
Proof.
  intros Hs Hlen. unfold slice_indices. replace (stp <? 0) with true by lia.
  intros H. inversion H; subst; clear H. split.
  - destruct start; unfold clamp_idx; repeat match goal with |- context[if ?c then _ else _] => destruct c eqn:? end; lia.
  - destruct stop; unfold clamp_idx; repeat match goal with |- context[if ?c then _ else _] => destruct c eqn:? end; lia.
Qed.

Lemma slice_range_in_bounds start stop stp len f l s k : stp <> 0 -> 0 <= len ->
  slice_indices start stop stp len = (f, l, s) -> 0 <= k < range_len f l s -> 0 <= f + k * s < len.
Proof.
  intros Hs Hlen E Hk. assert (Es : s = stp) by (unfold slice_indices in E; inversion E; reflexivity). subst s.
  destruct (Z.eq_dec len 0) as [->|Hne].
  - exfalso. unfold range_len in Hk. destruct (0 <? stp) eqn:Ep.
    + destruct (slice_indices_pos_bounds start stop stp 0 f l stp ltac:(lia) ltac:(lia) E). destruct (f <? l) eqn:?; lia.
    + destruct (slice_indices_neg_bounds start stop stp 0 f l stp ltac:(lia) ltac:(lia) E). destruct (l <? f) eqn:?; lia.
  - pose proof (slice_in_bounds start stop stp len k ltac:(lia) Hs) as H. rewrite E in H. apply H, Hk.
Qed.

(* len(list[a:b:c]) = len(range(f, l, s)) where (f, l, s) = slice(a,b,c).indices(len(list)) *)
Theorem slice_get_length start stop stp (xs : list item) f l s : stp <> 0 ->
  slice_indices start stop stp (zlen xs) = (f, l, s) -> zlen (slice_get f l s xs) = range_len f l s.
Proof.
  intros Hs E. assert (Es : s = stp) by (unfold slice_indices in E; inversion E; reflexivity). subst s.
  pose proof (zlen_nonneg xs) as Hn.
  unfold slice_get. destruct (stp =? 1) eqn:E1.
  - assert (stp = 1) by lia. subst stp.
    destruct (slice_indices_pos_bounds start stop 1 (zlen xs) f l 1 ltac:(lia) Hn E) as [Hf Hl].
    unfold zlen in *. rewrite firstn_length, skipn_length. unfold range_len. cbn [Z.ltb Z.compare].
    destruct (f <? l) eqn:Efl; lia.
  - assert (Hcnt : length (sel (mask f l stp (length xs)) xs) = Z.to_nat (range_len f l stp)).
    { unfold mask. rewrite (sel_map_length (fun i => selected f l stp (Z.of_nat i)) xs 0).
      apply selected_count; [exact Hs|]. intros k Hk.
      apply (slice_range_in_bounds start stop stp (zlen xs) f l stp k Hs Hn E Hk). }
    assert (Hr : 0 <= range_len f l stp).
    { unfold range_len. destruct (0 <? stp) eqn:Ep.
      - destruct (f <? l) eqn:?; [apply Z.div_pos; lia|lia].
      - destruct (l <? f) eqn:?; [apply Z.div_pos; lia|lia]. }
    unfold zlen. destruct (0 <? stp); [|rewrite rev_length]; lia.
Qed.

(* ---- the error outcome of every basic operation, without the index ------------------------------- *)
Definition in_range (s : st) (i : Z) : bool := (- zlen (items s) <=? i) && (i <? zlen (items s)).

Definition guard (s : st) (o : op) : option string :=
  let rule := init_check (is_root s) (is_sr s) in
  match o with
  | Append x | Insert _ x => rule x
  | Extend xs | IAdd xs => first_err rule xs
  | SetInt i x => if in_range s i then rule x else Some EINDEX
  | DelInt i => if in_range s i then None else Some EINDEX
  | SetSlice a b c xs =>
      if step_of c =? 0 then Some EVALUE
      else match first_err rule xs with
           | Some e => Some e
           | None =>
               if step_of c =? 1 then None
               else let '(f, l, st) := slice_indices a b (step_of c) (zlen (items s)) in
                    if zlen xs =? range_len f l st then None else Some EVALUE
           end
  | DelSlice _ _ c => if step_of c =? 0 then Some EVALUE else None
  end.

Lemma extend_error xs : forall s, snd (extend s xs) = first_err (init_check (is_root s) (is_sr s)) xs.
Proof.
  induction xs as [|x xs IH]; intros s; cbn [extend first_err]; [reflexivity|].
  unfold append, add_check. destruct (init_check (is_root s) (is_sr s) x); [reflexivity|]. rewrite IH. reflexivity.
Qed.

Lemma norm_index_in_range s i : in_range s i = true <-> exists p, norm_index i (zlen (items s)) = Some p.
Proof.
  unfold in_range. destruct (norm_index i (zlen (items s))) as [p|] eqn:E.
  - split; [eauto|]. intros _. destruct ((- zlen (items s) <=? i) && (i <? zlen (items s))) eqn:B; [reflexivity|].
    exfalso. assert (Hn : ~ (- zlen (items s) <= i < zlen (items s))) by lia. apply norm_index_none in Hn. congruence.
  - apply norm_index_none in E. split; [lia|]. intros [p Hp]. discriminate.
Qed.

Theorem step_error_exact s o : Inv s -> snd (step s o) = guard s o.
Proof.
  intros HI. destruct o as [x|xs|xs|pos x|i x|a b c xs|i|a b c]; unfold C14_Model.step; cbn [guard].
  - unfold append, add_check. destruct (init_check _ _ x); reflexivity.
  - apply extend_error.
  - apply extend_error.
  - unfold insert, add_check. destruct (init_check _ _ x); reflexivity.
  - destruct (in_range s i) eqn:Er.
    + destruct (init_check (is_root s) (is_sr s) x) as [e|] eqn:Ec.
      * apply norm_index_in_range in Er. destruct Er as [p Ep]. unfold setitem_int. rewrite Ep.
        pose proof (norm_index_some _ _ _ Ep) as [Hp _]. unfold zlen in Hp. rewrite Nat2Z.id in Hp.
        destruct (nth_error (items s) p) eqn:En; [|apply nth_error_None in En; lia].
        cbn [first_err]. unfold set_check. rewrite Ec. reflexivity.
      * apply setitem_int_accepts; [exact HI| unfold in_range in Er; lia | exact Ec].
    + rewrite setitem_int_out_of_range by (unfold in_range in Er; lia). reflexivity.
  - unfold setitem_slice. destruct (step_of c =? 0) eqn:E0; [reflexivity|].
    destruct (slice_indices a b (step_of c) (zlen (items s))) as [[f l] s0] eqn:Es.
    unfold set_check. destruct (first_err (init_check (is_root s) (is_sr s)) xs); [reflexivity|].
    assert (Hf : step_of c = 1 -> 0 <= f).
    { intros E1. destruct (slice_indices_pos_bounds a b (step_of c) _ f l s0 ltac:(lia) (zlen_nonneg _) Es) as [? _]. lia. }
    pose proof (slice_get_del_perm f l (step_of c) (items s) Hf) as P.
    assert (Es0 : s0 = step_of c) by (unfold slice_indices in Es; inversion Es; reflexivity).
    destruct (step_of c =? 1) eqn:E1.
    + destruct (finish_set_inv s (firstn (Z.to_nat f) (items s) ++ xs ++ skipn (Z.to_nat (Z.max f l)) (items s))
                  (slice_get f l (step_of c) (items s)) xs (slice_del f l (step_of c) (items s)) HI P)
        as (f' & -> & Hf'); [|reflexivity].
      unfold slice_del. rewrite E1. rewrite app_assoc.
      rewrite (Permutation_app_comm (firstn _ _) xs). now rewrite <- app_assoc.
    + pose proof (slice_get_length a b (step_of c) (items s) f l s0 ltac:(lia) Es) as Hlen. rewrite Es0 in Hlen.
      rewrite Es0. rewrite Hlen.
      destruct (zlen xs =? range_len f l (step_of c)) eqn:El; cbn [negb]; [|reflexivity].
      destruct (finish_set_inv s (replace_sel (mask f l (step_of c) (length (items s))) (items s)
                                     (if step_of c <? 0 then rev xs else xs))
                  (slice_get f l (step_of c) (items s)) xs (slice_del f l (step_of c) (items s)) HI P)
        as (f' & -> & Hf'); [|reflexivity].
      unfold slice_del. rewrite E1.
      assert (Hl : length xs = length (sel (mask f l (step_of c) (length (items s))) (items s))).
      { unfold slice_get in Hlen. rewrite E1 in Hlen. unfold zlen in Hlen, El.
        destruct (0 <? step_of c); [lia|]. rewrite rev_length in Hlen. lia. }
      destruct (step_of c <? 0).
      * rewrite replace_sel_perm by (now rewrite rev_length).
        apply Permutation_app_tail. symmetry. apply Permutation_rev.
      * apply replace_sel_perm, Hl.
  - destruct (in_range s i) eqn:Er.
    + apply delitem_int_accepts; [exact HI|unfold in_range in Er; lia].
    + rewrite delitem_int_out_of_range by (unfold in_range in Er; lia). reflexivity.
  - unfold delitem_slice. destruct (step_of c =? 0) eqn:E0; [reflexivity|].
    destruct (slice_indices a b (step_of c) (zlen (items s))) as [[f l] s0] eqn:Es.
    assert (Hf : step_of c = 1 -> 0 <= f).
    { intros E1. destruct (slice_indices_pos_bounds a b (step_of c) _ f l s0 ltac:(lia) (zlen_nonneg _) Es) as [? _]. lia. }
    destruct (finish_del_inv s (slice_del f l (step_of c) (items s)) (slice_get f l (step_of c) (items s)) HI
                (slice_get_del_perm f l (step_of c) (items s) Hf)) as (f' & -> & _).
    reflexivity.
Qed.

(* acceptance, in words: the plain-list operation is valid and every entering item passes the rule *)
Theorem step_accepts_iff s o : Inv s ->
  (snd (step s o) = None <->
   Forall (fun x => init_check (is_root s) (is_sr s) x = None) (entering o) /\
   match o with
   | SetInt i _ | DelInt i => - zlen (items s) <= i < zlen (items s)
   | DelSlice _ _ c => step_of c <> 0
   | SetSlice a b c xs =>
       step_of c <> 0 /\
       (step_of c = 1 \/
        zlen xs = range_len (fst (fst (slice_indices a b (step_of c) (zlen (items s)))))
                            (snd (fst (slice_indices a b (step_of c) (zlen (items s))))) (step_of c))
   | _ => True
   end).
Proof.
  intros HI. rewrite (step_error_exact s o HI).
  assert (F1 : forall x, init_check (is_root s) (is_sr s) x = None <->
                         Forall (fun x => init_check (is_root s) (is_sr s) x = None) [x]).
  { intros x. split; [intros H; constructor; [exact H|constructor]|intros H; inversion H; assumption]. }
  destruct o as [x|xs|xs|pos x|i x|a b c xs|i|a b c]; cbn [guard entering].
  - rewrite F1. tauto.
  - rewrite first_err_none. tauto.
  - rewrite first_err_none. tauto.
  - rewrite F1. tauto.
  - unfold in_range. destruct ((- zlen (items s) <=? i) && (i <? zlen (items s))) eqn:B.
    + rewrite F1. split; [intros H; split; [exact H|lia]|tauto].
    + split; [discriminate|]. intros [_ H]. lia.
  - destruct (step_of c =? 0) eqn:E0; [split; [discriminate|intros (_ & H & _); lia]|].
    destruct (first_err (init_check (is_root s) (is_sr s)) xs) as [e|] eqn:Ef.
    + split; [discriminate|]. intros [H _]. apply first_err_none in H. congruence.
    + apply first_err_none in Ef.
      destruct (step_of c =? 1) eqn:E1; [split; [intros _; repeat split; [exact Ef|lia|left; lia]|reflexivity]|].
      destruct (slice_indices a b (step_of c) (zlen (items s))) as [[f l] s0] eqn:Es. cbn [fst snd].
      assert (Es0 : s0 = step_of c) by (unfold slice_indices in Es; inversion Es; reflexivity). subst s0.
      destruct (zlen xs =? range_len f l (step_of c)) eqn:El.
      * split; [intros _; repeat split; [exact Ef|lia|right; lia]|reflexivity].
      * split; [discriminate|]. intros (_ & _ & [H|H]); lia.
  - unfold in_range. destruct ((- zlen (items s) <=? i) && (i <? zlen (items s))) eqn:B.
    + split; [intros _; split; [constructor|lia]|reflexivity].
    + split; [discriminate|]. intros [_ H]. lia.
  - destruct (step_of c =? 0) eqn:E0.
    + split; [discriminate|]. intros [_ H]. lia.
    + split; [intros _; split; [constructor|lia]|reflexivity].
Qed.
