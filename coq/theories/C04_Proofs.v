(* C04 - proofs about the tiled-region model. *)
From Coq Require Import String ZArith List Bool Lia ZifyBool Arith Permutation.
From HD Require Import Base.Val Base.ListZ C12_Model C12_Proofs C04_Model.
Import ListNotations.
Ltac Zify.zify_post_hook ::= Z.to_euclidean_division_equations.
Open Scope Z_scope.

(* ---- 1-D facts (from proto/Tile1D.v) ------------------------------------- *)
(* the two slices always have the same length: numpy never broadcasts/raises *)
Lemma slice_shapes_agree : forall s e t p, in_len s e t p = out_len s e t p.
Proof. intros. unfold in_len, out_len, in_hi, in_lo, out_hi, out_lo. lia. Qed.

(* the cell of the output slice that tile position p writes at output index i,
   and the tile-local index it is read from *)
Definition cov1 (s e t p i : Z) : bool :=
  selected s e t p && ((out_lo s p <=? i) && (i <? out_hi s e t p)).

Lemma cov1_iff : forall s e t a i, 1 <= t -> 1 <= s -> 0 <= i < e - s -> 0 <= a ->
  cov1 s e t (a * t + 1) i = true <-> a * t + 1 = tile_of t (s + i).
Proof.
  intros s e t a i Ht Hs Hi Ha. unfold cov1, selected, out_lo, out_hi, tile_of. split.
  - intros H.
    assert (a = (s + i - 1) / t) by (apply Z.div_unique with (r := s + i - 1 - a * t); lia).
    subst a. lia.
  - intros H.
    assert (a = (s + i - 1) / t) by nia.
    subst a. lia.
Qed.

Lemma src_index : forall s e t p i, cov1 s e t p i = true ->
  in_lo s p + (i - out_lo s p) = s + i - p /\ 0 <= s + i - p < t.
Proof. intros s e t p i H. unfold cov1, selected, in_lo, out_lo, out_hi in *. lia. Qed.

(* ---- the standardiser ------------------------------------------------------- *)
(* documented conventions, written independently of the code:
   1-based position of the first row / of the row one beyond the last *)
Definition spec_start (ai : bool) (n : Z) (x : option Z) : option Z :=
  match x with
  | None => Some 1
  | Some v =>
      if v <? 0 then (if - n <=? v then Some (n + v + 1) else None)
      else if ai then (if v <? n then Some (v + 1) else None)
      else (if (1 <=? v) && (v <=? n) then Some v else None)
  end.
Definition spec_end (ai : bool) (n : Z) (x : option Z) : option Z :=
  match x with
  | None => Some (n + 1)
  | Some v =>
      if v <? 0 then (if - n <=? v then Some (n + v + 1) else None)
      else if ai then (if v <=? n then Some (v + 1) else None)
      else (if (1 <=? v) && (v <=? n + 1) then Some v else None)
  end.
(* proof-side helper: what std_end alone computes (it would let the one-based end
   0 through as 0; the standardiser refuses that value before calling it) *)
Definition spec_end_std (ai : bool) (n : Z) (x : option Z) : option Z :=
  match x with
  | Some 0 => if ai then Some 1 else Some 0
  | _ => spec_end ai n x
  end.

Definition spec_region (ai : bool) (R C : Z) (rs re cs ce : option Z) : option (Z * Z * Z * Z) :=
  match spec_start ai R rs, spec_end ai R re, spec_start ai C cs, spec_end ai C ce with
  | Some s, Some e, Some c0, Some c1 =>
      if (s <=? e) && (c0 <=? c1) then Some (s, e, c0, c1) else None
  | _, _, _, _ => None
  end.

Lemma spec_start_range : forall ai n x s, 1 <= n -> spec_start ai n x = Some s -> 1 <= s <= n.
Proof.
  intros ai n x s Hn. unfold spec_start. destruct x as [v|]; [|intros E; inversion E; lia].
  destruct (v <? 0) eqn:E1; [destruct (- n <=? v) eqn:E2|destruct ai; [destruct (v <? n) eqn:E3|destruct ((1 <=? v) && (v <=? n)) eqn:E4]];
    intros E; inversion E; lia.
Qed.

Lemma spec_end_range : forall ai n x e, 1 <= n -> spec_end ai n x = Some e -> 1 <= e <= n + 1.
Proof.
  intros ai n x e Hn. unfold spec_end. destruct x as [v|]; [|intros E; inversion E; lia].
  destruct (v <? 0) eqn:E1; [destruct (- n <=? v) eqn:E2|destruct ai; [destruct (v <=? n) eqn:E3|destruct ((1 <=? v) && (v <=? n + 1)) eqn:E4]];
    intros E; inversion E; lia.
Qed.

Definition start_checked (ai : bool) (n : Z) (x : option Z) : res Z :=
  let v := dflt 1 (pre_idx ai x) in if v =? 0 then Err "ValueError" else std_start n v.

Lemma start_axis : forall ai n x, 1 <= n ->
  start_checked ai n x = match spec_start ai n x with Some s => Ok s | None => Err "ValueError" end.
Proof.
  intros ai n x Hn. unfold start_checked, spec_start, std_start, pre_idx, dflt.
  destruct x as [v|]; [|cbn; replace (n <? 1) with false by lia; reflexivity].
  destruct ai; cbn [andb].
  - destruct (0 <=? v) eqn:E0.
    + replace (v + 1 =? 0) with false by lia. replace (v <? 0) with false by lia.
      replace (v + 1 <? 0) with false by lia.
      destruct (v <? n) eqn:E1; [replace (n <? v + 1) with false by lia|replace (n <? v + 1) with true by lia]; reflexivity.
    + replace (v =? 0) with false by lia. replace (v <? 0) with true by lia.
      replace (n <? v) with false by lia.
      destruct (- n <=? v) eqn:E1; [replace (n + v + 1 <? 1) with false by lia|replace (n + v + 1 <? 1) with true by lia]; reflexivity.
  - destruct (v =? 0) eqn:E0.
    + replace (v <? 0) with false by lia. replace ((1 <=? v) && (v <=? n)) with false by lia. reflexivity.
    + destruct (v <? 0) eqn:E1.
      * replace (n <? v) with false by lia.
        destruct (- n <=? v) eqn:E2; [replace (n + v + 1 <? 1) with false by lia|replace (n + v + 1 <? 1) with true by lia]; reflexivity.
      * destruct (n <? v) eqn:E2; [replace ((1 <=? v) && (v <=? n)) with false by lia|replace ((1 <=? v) && (v <=? n)) with true by lia]; reflexivity.
Qed.

Lemma end_axis : forall ai n x, 1 <= n ->
  std_end n (dflt (n + 1) (pre_idx ai x)) =
  match spec_end_std ai n x with Some s => Ok s | None => Err "ValueError" end.
Proof.
  intros ai n x Hn. unfold spec_end_std, spec_end, std_end, pre_idx, dflt.
  destruct x as [v|]; [|replace (n + 1 <? n + 1) with false by lia; replace (n + 1 <? 0) with false by lia; reflexivity].
  destruct ai; cbn [andb].
  - destruct (0 <=? v) eqn:E0.
    + assert (Hv : match v with 0 => Some 1 | _ => (if v <? 0 then if - n <=? v then Some (n + v + 1) else None
                     else if v <=? n then Some (v + 1) else None) end
                   = if v <=? n then Some (v + 1) else None).
      { destruct v; [replace (0 <=? n) with true by lia; reflexivity|reflexivity|lia]. }
      rewrite Hv. replace (v + 1 <? 0) with false by lia.
      destruct (v <=? n) eqn:E1; [replace (n + 1 <? v + 1) with false by lia|replace (n + 1 <? v + 1) with true by lia]; reflexivity.
    + destruct v as [|p|p]; try lia.
      replace (Z.neg p <? 0) with true by lia. replace (n + 1 <? Z.neg p) with false by lia.
      destruct (- n <=? Z.neg p) eqn:E1; [replace (n + Z.neg p + 1 <? 1) with false by lia|replace (n + Z.neg p + 1 <? 1) with true by lia]; reflexivity.
  - destruct v as [|p|p].
    + replace (n + 1 <? 0) with false by lia. reflexivity.
    + replace (Z.pos p <? 0) with false by lia.
      destruct (n + 1 <? Z.pos p) eqn:E2; [replace ((1 <=? Z.pos p) && (Z.pos p <=? n + 1)) with false by lia|replace ((1 <=? Z.pos p) && (Z.pos p <=? n + 1)) with true by lia]; reflexivity.
    + replace (Z.neg p <? 0) with true by lia. replace (n + 1 <? Z.neg p) with false by lia.
      destruct (- n <=? Z.neg p) eqn:E1; [replace (n + Z.neg p + 1 <? 1) with false by lia|replace (n + Z.neg p + 1 <? 1) with true by lia]; reflexivity.
Qed.

Definition end_checked (ai : bool) (n : Z) (x : option Z) : res Z :=
  let v := dflt (n + 1) (pre_idx ai x) in if v =? 0 then Err "ValueError" else std_end n v.

Lemma end_checked_axis : forall ai n x, 1 <= n ->
  end_checked ai n x = match spec_end ai n x with Some e => Ok e | None => Err "ValueError" end.
Proof.
  intros ai n x Hn. unfold end_checked. cbv zeta.
  destruct x as [[|p|p]|]; destruct ai;
    try (replace (dflt (n + 1) (pre_idx _ _) =? 0) with false by (unfold dflt, pre_idx; cbn; lia);
         rewrite end_axis by lia; reflexivity).
  - (* zero-based end 0 -> 1 *)
    unfold dflt, pre_idx, spec_end, std_end. cbn [andb Z.leb Z.compare Z.add Z.eqb Pos.add Z.ltb].
    replace (0 <=? n) with true by lia. replace (n + 1 <? 1) with false by lia. reflexivity.
  - (* one-based end 0: refused *) reflexivity.
Qed.

Lemma std_start_err : forall n s k, std_start n s = Err k -> k = "ValueError"%string.
Proof.
  intros n s k. unfold std_start. destruct (n <? s); [intros E; now inversion E|].
  destruct (s <? 0); [destruct (n + s + 1 <? 1)|]; intros E; now inversion E.
Qed.
Lemma std_end_err : forall n s k, std_end n s = Err k -> k = "ValueError"%string.
Proof.
  intros n s k. unfold std_end. destruct (n + 1 <? s); [intros E; now inversion E|].
  destruct (s <? 0); [destruct (n + s + 1 <? 1)|]; intros E; now inversion E.
Qed.

(* the code checks both zero starts, then both zero ends, then the ranges axis by
   axis; since every refusal is a ValueError this is the same as checking each
   argument on its own *)
Lemma bind_err_const : forall {A B} (r : res A) (f : A -> res B),
  (forall k, r = Err k -> k = "ValueError"%string) -> (forall a, f a = Err "ValueError") ->
  bind r f = Err "ValueError".
Proof. intros A B r f Hr Hf. destruct r as [a|k]; cbn [bind]; [apply Hf|now rewrite (Hr k eq_refl)]. Qed.

Lemma standardize_rc_axes : forall ai rs re cs ce R C,
  standardize_rc ai rs re cs ce R C =
  bind (start_checked ai R rs) (fun s =>
  bind (end_checked ai R re) (fun e =>
  bind (start_checked ai C cs) (fun c0 =>
  bind (end_checked ai C ce) (fun c1 => Ok (s, e, c0, c1))))).
Proof.
  intros. unfold standardize_rc, start_checked, end_checked. cbv zeta.
  set (rs1 := dflt 1 (pre_idx ai rs)). set (re1 := dflt (R + 1) (pre_idx ai re)).
  set (cs1 := dflt 1 (pre_idx ai cs)). set (ce1 := dflt (C + 1) (pre_idx ai ce)).
  destruct (rs1 =? 0) eqn:Er; cbn [bind]; [now rewrite orb_true_r|].
  rewrite orb_false_r.
  destruct (re1 =? 0) eqn:Ee.
  - (* row end 0 *) rewrite orb_true_r.
    destruct (cs1 =? 0); symmetry; (apply bind_err_const; [apply std_start_err|reflexivity]).
  - rewrite orb_false_r. destruct (cs1 =? 0) eqn:Ec.
    + symmetry. apply bind_err_const; [apply std_start_err|]. intros s.
      apply bind_err_const; [apply std_end_err|reflexivity].
    + destruct (ce1 =? 0) eqn:Ef; [|reflexivity].
      symmetry. apply bind_err_const; [apply std_start_err|]. intros s.
      apply bind_err_const; [apply std_end_err|]. intros e.
      apply bind_err_const; [apply std_start_err|reflexivity].
Qed.

(* the standardiser computes exactly the documented conventions *)
Lemma standardize_rc_eq : forall ai rs re cs ce R C, 1 <= R -> 1 <= C ->
  standardize_rc ai rs re cs ce R C =
  match spec_start ai R rs, spec_end ai R re, spec_start ai C cs, spec_end ai C ce with
  | Some s, Some e, Some c0, Some c1 => Ok (s, e, c0, c1)
  | _, _, _, _ => Err "ValueError"
  end.
Proof.
  intros ai rs re cs ce R C HR HC. rewrite standardize_rc_axes.
  rewrite !start_axis, !end_checked_axis by lia.
  destruct (spec_start ai R rs); cbn [bind]; [|reflexivity].
  destruct (spec_end ai R re); cbn [bind]; [|reflexivity].
  destruct (spec_start ai C cs); cbn [bind]; [|reflexivity].
  destruct (spec_end ai C ce); cbn [bind]; reflexivity.
Qed.

Lemma spec_end_std_cases : forall ai n x, 1 <= n ->
  spec_end_std ai n x = spec_end ai n x \/ (spec_end_std ai n x = Some 0 /\ spec_end ai n x = None).
Proof.
  intros ai n x Hn. destruct x as [[|p|p]|]; try (left; reflexivity).
  destruct ai; unfold spec_end_std, spec_end.
  - left. replace (0 <? 0) with false by lia. replace (0 <=? n) with true by lia. reflexivity.
  - right. split; reflexivity.
Qed.

(* full accept / refuse characterisation of a region read without the count
   check (Segmentation, TILED_FULL images) *)
Lemma read_std_spec : forall ts R C th tw ai rs re cs ce, 1 <= R -> 1 <= C ->
  read_std false ts R C th tw ai rs re cs ce =
  match spec_region ai R C rs re cs ce with
  | Some (s, e, c0, c1) => Ok (read_region ts s e c0 c1 th tw)
  | None => Err "ValueError"
  end.
Proof.
  intros ts R C th tw ai rs re cs ce HR HC. unfold read_std. rewrite standardize_rc_eq by lia.
  unfold spec_region.
  destruct (spec_start ai R rs) as [s|]; [|reflexivity].
  destruct (spec_end ai R re) as [e|]; [|reflexivity].
  destruct (spec_start ai C cs) as [c0|]; [|reflexivity].
  destruct (spec_end ai C ce) as [c1|]; [|reflexivity].
  cbn [bind andb].
  destruct ((s <=? e) && (c0 <=? c1)) eqn:E1.
  - replace ((e - s <? 0) || (c1 - c0 <? 0)) with false by lia. reflexivity.
  - replace ((e - s <? 0) || (c1 - c0 <? 0)) with true by lia. reflexivity.
Qed.

(* a region is accepted exactly when the documented conventions denote one,
   and every refusal is a ValueError *)
Lemma read_std_accepts_iff : forall ts R C th tw ai rs re cs ce, 1 <= R -> 1 <= C ->
  (exists out, read_std false ts R C th tw ai rs re cs ce = Ok out) <->
  (exists s e c0 c1, spec_start ai R rs = Some s /\ spec_end ai R re = Some e /\
                     spec_start ai C cs = Some c0 /\ spec_end ai C ce = Some c1 /\
                     s <= e /\ c0 <= c1).
Proof.
  intros ts R C th tw ai rs re cs ce HR HC. rewrite read_std_spec by lia. unfold spec_region.
  destruct (spec_start ai R rs) as [s|]; [|split; [intros [o E]; discriminate|intros (s&e&c0&c1&E&_); discriminate]].
  destruct (spec_end ai R re) as [e|]; [|split; [intros [o E]; discriminate|intros (s'&e&c0&c1&_&E&_); discriminate]].
  destruct (spec_start ai C cs) as [c0|]; [|split; [intros [o E]; discriminate|intros (s'&e'&c0&c1&_&_&E&_); discriminate]].
  destruct (spec_end ai C ce) as [c1|]; [|split; [intros [o E]; discriminate|intros (s'&e'&c0'&c1&_&_&_&E&_); discriminate]].
  destruct ((s <=? e) && (c0 <=? c1)) eqn:E1; split.
  - intros _. exists s, e, c0, c1. repeat split; lia.
  - intros _. eexists; reflexivity.
  - intros [o E]; discriminate.
  - intros (s'&e'&c0'&c1'&A&B&C0&D&H1&H2). inversion A; inversion B; inversion C0; inversion D; subst. lia.
Qed.

(* ---- the frame loop: last covering tile wins ----------------------------------- *)
Section LastWins.
  Variable A : Type.
  Variable cov : A -> bool.
  Variable v : A -> Z.
  Let f := fun (acc : Z) (t : A) => if cov t then v t else acc.

  Lemma fold_none : forall ts acc, (forall t, In t ts -> cov t = false) -> fold_left f ts acc = acc.
  Proof.
    induction ts as [|a ts IH]; intros acc H; [reflexivity|]. cbn [fold_left]. unfold f at 2.
    rewrite (H a (or_introl eq_refl)). apply IH. intros t Ht. apply H. now right.
  Qed.

  Lemma fold_same : forall ts acc x,
    (forall t, In t ts -> cov t = true -> v t = x) ->
    (acc = x \/ exists t, In t ts /\ cov t = true) -> fold_left f ts acc = x.
  Proof.
    induction ts as [|a ts IH]; intros acc x Hall Hex.
    - destruct Hex as [H|[t [[] _]]]. exact H.
    - cbn [fold_left]. apply IH.
      + intros t Ht. apply Hall. now right.
      + unfold f. destruct (cov a) eqn:Ea.
        * left. apply Hall; [now left|exact Ea].
        * destruct Hex as [H|[t [[<-|Ht] Hc]]]; [now left|congruence|right; now exists t].
  Qed.
End LastWins.

Definition on_grid (th tw : Z) (t : tile) : Prop :=
  exists a b, 0 <= a /\ 0 <= b /\ t_rp t = a * th + 1 /\ t_cp t = b * tw + 1.
Definition at_pos (rp cp : Z) (t : tile) : Prop := t_rp t = rp /\ t_cp t = cp.
Definition positions_unique (ts : list tile) : Prop :=
  forall t t', In t ts -> In t' ts -> t_rp t = t_rp t' -> t_cp t = t_cp t' -> t = t'.

Lemma covers_cov1 : forall s e cs ce th tw t i j,
  covers s e cs ce th tw t i j = cov1 s e th (t_rp t) i && cov1 cs ce tw (t_cp t) j.
Proof.
  intros. unfold covers, tile_selected, cov1.
  destruct (selected s e th (t_rp t)); destruct (selected cs ce tw (t_cp t)); cbn [andb]; try reflexivity.
  - now rewrite andb_false_r.
Qed.

(* written_once: a grid tile writes output cell (i, j) iff it is the tile that
   holds matrix position (s + i, cs + j) *)
Lemma covers_iff : forall s e cs ce th tw t i j, 1 <= th -> 1 <= tw -> on_grid th tw t ->
  1 <= s -> 1 <= cs -> 0 <= i < e - s -> 0 <= j < ce - cs ->
  covers s e cs ce th tw t i j = true <-> at_pos (tile_of th (s + i)) (tile_of tw (cs + j)) t.
Proof.
  intros s e cs ce th tw t i j Hh Hw (a & b & Ha & Hb & Er & Ec) Hs Hcs Hi Hj.
  rewrite covers_cov1, andb_true_iff, Er, Ec. unfold at_pos. rewrite Er, Ec.
  rewrite (cov1_iff s e th a i) by lia. rewrite (cov1_iff cs ce tw b j) by lia. reflexivity.
Qed.

Lemma src_cell_eq : forall s e cs ce th tw t i j, covers s e cs ce th tw t i j = true ->
  src_cell s cs t i j = cell (t_px t) (s + i - t_rp t) (cs + j - t_cp t) /\
  0 <= s + i - t_rp t < th /\ 0 <= cs + j - t_cp t < tw.
Proof.
  intros s e cs ce th tw t i j H. rewrite covers_cov1, andb_true_iff in H. destruct H as [H1 H2].
  apply src_index in H1. apply src_index in H2. unfold src_cell.
  destruct H1 as [-> ?]. destruct H2 as [-> ?]. auto.
Qed.

(* value of an output cell, for any list of grid tiles with unique positions *)
Lemma out_cell_spec : forall ts s e cs ce th tw i j, 1 <= th -> 1 <= tw ->
  (forall t, In t ts -> on_grid th tw t) -> positions_unique ts ->
  1 <= s -> 1 <= cs -> 0 <= i < e - s -> 0 <= j < ce - cs ->
  let rp := tile_of th (s + i) in let cp := tile_of tw (cs + j) in
  (exists t, In t ts /\ at_pos rp cp t /\
             out_cell ts s e cs ce th tw i j = cell (t_px t) (s + i - rp) (cs + j - cp)) \/
  ((forall t, In t ts -> ~ at_pos rp cp t) /\ out_cell ts s e cs ce th tw i j = 0).
Proof.
  intros ts s e cs ce th tw i j Hh Hw Hg Hu Hs Hcs Hi Hj rp cp.
  assert (Hcov : forall t, In t ts -> (covers s e cs ce th tw t i j = true <-> at_pos rp cp t)).
  { intros t Ht. apply covers_iff; auto. }
  destruct (existsb (fun t => covers s e cs ce th tw t i j) ts) eqn:Ex.
  - apply existsb_exists in Ex as (t & Ht & Hc). left. exists t. split; [exact Ht|].
    pose proof (proj1 (Hcov t Ht) Hc) as Hp. split; [exact Hp|].
    unfold out_cell.
    rewrite (fold_same tile (fun t => covers s e cs ce th tw t i j) (fun t => src_cell s cs t i j) ts 0
               (src_cell s cs t i j)).
    + destruct (src_cell_eq _ _ _ _ _ _ _ _ _ Hc) as [E _]. rewrite E. destruct Hp as [-> ->]. reflexivity.
    + intros t' Ht' Hc'. pose proof (proj1 (Hcov t' Ht') Hc') as Hp'.
      destruct Hp as [P1 P2]. destruct Hp' as [Q1 Q2].
      rewrite (Hu t' t Ht' Ht); congruence.
    + right. now exists t.
  - right. assert (Hn : forall t, In t ts -> covers s e cs ce th tw t i j = false).
    { intros t Ht. destruct (covers s e cs ce th tw t i j) eqn:Ec; [|reflexivity].
      assert (existsb (fun t => covers s e cs ce th tw t i j) ts = true) by (apply existsb_exists; now exists t).
      congruence. }
    split.
    + intros t Ht Hp. apply (Hcov t Ht) in Hp. rewrite Hn in Hp by exact Ht. discriminate.
    + unfold out_cell. now apply fold_none.
Qed.

(* ---- ORDER BY is a permutation ----------------------------------------------------- *)
Lemma insert_perm : forall t l, Permutation (t :: l) (insert_tile t l).
Proof.
  intros t l. induction l as [|x r IH]; cbn [insert_tile]; [apply Permutation_refl|].
  destruct (tile_leb t x); [apply Permutation_refl|].
  eapply perm_trans; [apply perm_swap|]. now apply perm_skip.
Qed.
Lemma sort_perm : forall l, Permutation l (sort_tiles l).
Proof.
  induction l as [|a l IH]; cbn; [apply perm_nil|].
  eapply perm_trans; [apply perm_skip, IH|]. apply insert_perm.
Qed.
Lemma in_sort : forall l t, In t (sort_tiles l) <-> In t l.
Proof.
  intros l t. split; intros H.
  - eapply Permutation_in; [apply Permutation_sym, sort_perm|exact H].
  - eapply Permutation_in; [apply sort_perm|exact H].
Qed.

(* ---- indexing the output array ---------------------------------------------------------- *)
Lemma nth_map_zrange : forall {B} (g : Z -> B) n i d, 0 <= i < n ->
  nth (Z.to_nat i) (map g (zrange n)) d = g i.
Proof.
  intros B g n i d Hi. unfold zrange. rewrite map_map.
  rewrite nth_indep with (d' := g (Z.of_nat 0)) by (rewrite map_length, seq_length; lia).
  rewrite (map_nth (fun k => g (Z.of_nat k)) (seq 0 (Z.to_nat n)) 0%nat).
  rewrite seq_nth by lia. f_equal. lia.
Qed.

Lemma read_region_cell : forall ts s e cs ce th tw i j, 0 <= i < e - s -> 0 <= j < ce - cs ->
  cell (read_region ts s e cs ce th tw) i j = out_cell (sort_tiles ts) s e cs ce th tw i j.
Proof.
  intros. unfold cell, read_region. rewrite nth_map_zrange by lia. now rewrite nth_map_zrange by lia.
Qed.

Lemma read_region_shape : forall ts s e cs ce th tw, 0 <= e - s -> 0 <= ce - cs ->
  Z.of_nat (length (read_region ts s e cs ce th tw)) = e - s /\
  forall row, In row (read_region ts s e cs ce th tw) -> Z.of_nat (length row) = ce - cs.
Proof.
  intros. unfold read_region. split.
  - rewrite map_length, length_zrange. lia.
  - intros row Hin. apply in_map_iff in Hin as (i & <- & _). rewrite map_length, length_zrange. lia.
Qed.

Lemma unique_positions_sound : forall ts, unique_positions ts = true -> positions_unique ts.
Proof.
  assert (Hmem : forall rp cp l, pos_mem rp cp l = true <-> exists t, In t l /\ t_rp t = rp /\ t_cp t = cp).
  { intros rp cp l. induction l as [|x r IH]; cbn [pos_mem].
    - split; [discriminate|intros (t & [] & _)].
    - rewrite orb_true_iff, IH. split.
      + intros [H|(t & Ht & H)]; [exists x; split; [now left|lia]|exists t; split; [now right|exact H]].
      + intros (t & [<-|Ht] & H); [left; lia|right; now exists t]. }
  induction ts as [|x r IH]; intros H t t' Ht Ht' Er Ec; [contradiction|].
  cbn [unique_positions] in H. apply andb_true_iff in H as [Hx Hr].
  assert (Hnx : forall u, In u r -> ~ (t_rp u = t_rp x /\ t_cp u = t_cp x)).
  { intros u Hu Hp. assert (pos_mem (t_rp x) (t_cp x) r = true) by (apply Hmem; now exists u).
    rewrite H in Hx. discriminate. }
  destruct Ht as [<-|Ht]; destruct Ht' as [<-|Ht'].
  - reflexivity.
  - exfalso. apply (Hnx t' Ht'). split; congruence.
  - exfalso. apply (Hnx t Ht). split; congruence.
  - now apply (IH Hr).
Qed.

Lemma pos_mem_iff : forall rp cp l, pos_mem rp cp l = true <-> exists t, In t l /\ at_pos rp cp t.
Proof.
  intros rp cp l. unfold at_pos. induction l as [|x r IH]; cbn [pos_mem].
  - split; [discriminate|intros (t & [] & _)].
  - rewrite orb_true_iff, IH. split.
    + intros [H|(t & Ht & H)]; [exists x; split; [now left|lia]|exists t; split; [now right|exact H]].
    + intros (t & [<-|Ht] & H); [left; lia|right; now exists t].
Qed.

(* ---- region_exact ------------------------------------------------------------------- *)
(* a stored frame that was cut (with padding) from matrix M at a grid position *)
Definition cut_of (M : list (list Z)) (R C th tw : Z) (t : tile) : Prop :=
  In (t_cp t, t_rp t) (grid R C th tw) /\ t_px t = cut M R C th tw (t_cp t, t_rp t).

Lemma tile_of_bounds : forall t x, 1 <= t -> tile_of t x <= x < tile_of t x + t.
Proof. intros. unfold tile_of. lia. Qed.

Lemma cut_cell : forall M R C th tw pc pr a b, wf_matrix M R C -> 1 <= R -> 1 <= C -> 1 <= th -> 1 <= tw ->
  In (pc, pr) (grid R C th tw) -> 0 <= a < th -> 0 <= b < tw ->
  cell (cut M R C th tw (pc, pr)) a b =
  if (pr - 1 + a <? R) && (pc - 1 + b <? C) then cell M (pr - 1 + a) (pc - 1 + b) else 0.
Proof.
  intros M R C th tw pc pr a b Hwf HR HC Hh Hw Hin Ha Hb.
  destruct (tile_array_accepts_grid M R C th tw pc pr HR HC Hh Hw Hin) as [T HT].
  unfold cut. cbn [fst snd]. rewrite HT. now apply (tile_cell M R C pr pc th tw a b T).
Qed.

Lemma grid_on_grid : forall R C th tw t, In (t_cp t, t_rp t) (grid R C th tw) -> on_grid th tw t.
Proof.
  intros R C th tw t H. apply in_grid in H as (a & b & Ha & Hb & Ec & Er). exists a, b. lia.
Qed.

Lemma region_exact : forall M R C th tw ts s e cs ce i j,
  wf_matrix M R C -> 1 <= R -> 1 <= C -> 1 <= th -> 1 <= tw ->
  unique_positions ts = true -> (forall t, In t ts -> cut_of M R C th tw t) ->
  1 <= s -> e <= R + 1 -> 1 <= cs -> ce <= C + 1 -> 0 <= i < e - s -> 0 <= j < ce - cs ->
  cell (read_region ts s e cs ce th tw) i j =
  if pos_mem (tile_of th (s + i)) (tile_of tw (cs + j)) ts
  then cell M (s - 1 + i) (cs - 1 + j) else 0.
Proof.
  intros M R C th tw ts s e cs ce i j Hwf HR HC Hh Hw Hu Hcut Hs He Hcs Hce Hi Hj.
  rewrite read_region_cell by lia.
  assert (Hg : forall t, In t (sort_tiles ts) -> on_grid th tw t).
  { intros t Ht. apply (proj1 (in_sort _ _)) in Ht. eapply grid_on_grid. apply (Hcut t Ht). }
  assert (Hu' : positions_unique (sort_tiles ts)).
  { intros t t' Ht Ht'. apply (proj1 (in_sort _ _)) in Ht. apply (proj1 (in_sort _ _)) in Ht'. now apply (unique_positions_sound ts Hu). }
  destruct (out_cell_spec (sort_tiles ts) s e cs ce th tw i j Hh Hw Hg Hu' Hs Hcs Hi Hj)
    as [(t & Ht & Hp & Eo)|[Hno Eo]]; rewrite Eo.
  - apply (proj1 (in_sort _ _)) in Ht.
    replace (pos_mem (tile_of th (s + i)) (tile_of tw (cs + j)) ts) with true
      by (symmetry; apply pos_mem_iff; now exists t).
    destruct (Hcut t Ht) as [Hin Epx]. destruct Hp as [Er Ec]. rewrite Epx, Er, Ec in *.
    pose proof (tile_of_bounds th (s + i) Hh). pose proof (tile_of_bounds tw (cs + j) Hw).
    rewrite cut_cell by (auto; lia).
    replace ((tile_of th (s + i) - 1 + (s + i - tile_of th (s + i)) <? R) &&
             (tile_of tw (cs + j) - 1 + (cs + j - tile_of tw (cs + j)) <? C)) with true by lia.
    f_equal; lia.
  - destruct (pos_mem (tile_of th (s + i)) (tile_of tw (cs + j)) ts) eqn:Em; [|reflexivity].
    apply pos_mem_iff in Em as (t & Ht & Hp). exfalso. apply (Hno t); [now apply (proj2 (in_sort _ _))|exact Hp].
Qed.

(* every output cell has its holder among the tiles of a complete grid *)
Lemma complete_grid_holds : forall R C th tw ts s e cs ce i j, 1 <= th -> 1 <= tw ->
  (forall pc pr, In (pc, pr) (grid R C th tw) -> pos_mem pr pc ts = true) ->
  1 <= s -> e <= R + 1 -> 1 <= cs -> ce <= C + 1 -> 0 <= i < e - s -> 0 <= j < ce - cs ->
  pos_mem (tile_of th (s + i)) (tile_of tw (cs + j)) ts = true.
Proof.
  intros R C th tw ts s e cs ce i j Hh Hw Hall Hs He Hcs Hce Hi Hj. apply Hall.
  apply (cover_exists R C th tw (s + i) (cs + j)); lia.
Qed.

(* ---- count_check ------------------------------------------------------------------------- *)
Lemma filter_interval_seq : forall lo hi k, 0 <= lo ->
  Z.of_nat (length (filter (fun a => (lo <=? a) && (a <=? hi)) (map Z.of_nat (seq 0 k)))) =
  Z.max 0 (Z.min hi (Z.of_nat k - 1) - lo + 1).
Proof.
  intros lo hi k Hlo. induction k as [|k IH]; [cbn; lia|].
  rewrite seq_S, map_app, filter_app, app_length, Nat2Z.inj_add, IH. cbn [plus map filter].
  destruct ((lo <=? Z.of_nat k) && (Z.of_nat k <=? hi)) eqn:E; cbn [length]; lia.
Qed.

Lemma sel_interval : forall s e t a, 1 <= t -> 1 <= s -> 0 <= a ->
  selected s e t (a * t + 1) = ((s - 1) / t <=? a) && (a <=? (e - 2) / t).
Proof.
  intros s e t a Ht Hs Ha. unfold selected.
  pose proof (Z.div_mod (s - 1) t ltac:(lia)) as D1. pose proof (Z.mod_pos_bound (s - 1) t ltac:(lia)) as B1.
  pose proof (Z.div_mod (e - 2) t ltac:(lia)) as D2. pose proof (Z.mod_pos_bound (e - 2) t ltac:(lia)) as B2.
  set (q1 := (s - 1) / t) in *. set (q2 := (e - 2) / t) in *.
  set (r1 := (s - 1) mod t) in *. set (r2 := (e - 2) mod t) in *.
  destruct (q1 <=? a) eqn:E1; destruct (a <=? q2) eqn:E2; cbn [andb].
  - apply andb_true_iff. split; [apply Z.leb_le|apply Z.ltb_lt]; nia.
  - apply andb_false_iff. right. apply Z.ltb_ge. nia.
  - apply andb_false_iff. left. apply Z.leb_gt. nia.
  - apply andb_false_iff. left. apply Z.leb_gt. nia.
Qed.

Lemma count1d : forall n t s e, 1 <= t -> 1 <= n -> 1 <= s <= n -> s <= e <= n + 1 ->
  Z.of_nat (length (filter (fun a => selected s e t (a * t + 1)) (zrange (cdiv n t)))) =
  frames_expected s e t.
Proof.
  intros n t s e Ht Hn Hs He.
  rewrite (filter_ext_in _ (fun a => ((s - 1) / t <=? a) && (a <=? (e - 2) / t))).
  2:{ intros a Ha. apply in_zrange in Ha. apply sel_interval; lia. }
  unfold zrange. rewrite filter_interval_seq by (apply Z.div_pos; lia).
  unfold frames_expected. rewrite cdiv_eq by lia.
  assert (0 <= (n - 1) / t) by (apply Z.div_pos; lia).
  assert ((e - 2) / t <= (n - 1) / t) by (apply Z.div_le_mono; lia).
  assert ((s - 2) / t <= (e - 2) / t) by (apply Z.div_le_mono; lia).
  assert ((s - 1) / t <= (s - 2) / t + 1).
  { replace (s - 1) with (s - 2 + 1) by lia.
    pose proof (Z.div_mod (s - 2) t ltac:(lia)). pose proof (Z.mod_pos_bound (s - 2) t ltac:(lia)).
    apply Z.div_le_upper_bound; [lia|]. nia. }
  lia.
Qed.

Lemma filter_map_length : forall {A B} (f : A -> B) (P : B -> bool) l,
  length (filter (fun x => P (f x)) l) = length (filter P (map f l)).
Proof. intros. induction l as [|x l IH]; cbn; [reflexivity|]. destruct (P (f x)); cbn; now rewrite IH. Qed.

Lemma filter_row_length : forall {B} (g : B -> Z) (PC : Z -> bool) (pr : bool) (fa : Z) lb,
  length (filter (fun p : Z * Z => pr && PC (fst p)) (map (fun b => (g b, fa)) lb)) =
  if pr then length (filter (fun b => PC (g b)) lb) else 0%nat.
Proof.
  intros B g PC pr fa lb. induction lb as [|b lb IHb]; cbn [map filter fst]; [now destruct pr|].
  destruct pr; cbn [andb] in *; [|exact IHb].
  destruct (PC (g b)); cbn [length]; now rewrite IHb.
Qed.

Lemma filter_product_length : forall {A B} (f : A -> Z) (g : B -> Z) (PR PC : Z -> bool) la lb,
  length (filter (fun p => PR (snd p) && PC (fst p))
                 (flat_map (fun a => map (fun b => (g b, f a)) lb) la)) =
  (length (filter (fun a => PR (f a)) la) * length (filter (fun b => PC (g b)) lb))%nat.
Proof.
  intros A B f g PR PC la lb. induction la as [|a la IH]; [reflexivity|].
  cbn [flat_map]. rewrite filter_app, app_length, IH. cbn [filter].
  rewrite (filter_ext_in (fun p : Z * Z => PR (snd p) && PC (fst p)) (fun p => PR (f a) && PC (fst p))
             (map (fun b => (g b, f a)) lb)).
  2:{ intros p Hp. apply in_map_iff in Hp as (b & <- & _). reflexivity. }
  rewrite filter_row_length. destruct (PR (f a)); cbn [length]; lia.
Qed.

(* the expected-frame count equals the number of grid tiles meeting the region *)
Lemma count_check : forall R C th tw ts s e cs ce,
  1 <= R -> 1 <= C -> 1 <= th -> 1 <= tw ->
  map (fun t => (t_cp t, t_rp t)) ts = grid R C th tw ->
  1 <= s <= R -> s <= e <= R + 1 -> 1 <= cs <= C -> cs <= ce <= C + 1 ->
  count_selected ts s e cs ce th tw = frames_expected s e th * frames_expected cs ce tw.
Proof.
  intros R C th tw ts s e cs ce HR HC Hh Hw Hpos Hs He Hcs Hce.
  unfold count_selected.
  assert (E : length (filter (tile_selected s e cs ce th tw) ts) =
              length (filter (fun p : Z * Z => selected s e th (snd p) && selected cs ce tw (fst p))
                             (map (fun t => (t_cp t, t_rp t)) ts))).
  { rewrite <- (filter_map_length (fun t => (t_cp t, t_rp t))
                  (fun p : Z * Z => selected s e th (snd p) && selected cs ce tw (fst p))). reflexivity. }
  rewrite E, Hpos. unfold grid.
  rewrite (filter_product_length (fun a => a * th + 1) (fun b => b * tw + 1)
             (selected s e th) (selected cs ce tw)).
  rewrite Nat2Z.inj_mul. rewrite (count1d R th s e), (count1d C tw cs ce) by lia. reflexivity.
Qed.
