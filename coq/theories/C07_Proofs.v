(* C07 - lemmas and proofs about the model of encode_frame / decode_frame. *)
From Coq Require Import String ZArith List Bool Lia ZifyBool Znumtheory.
From HD Require Import Base.Val Base.BitWindow C07_Model.
Import ListNotations.
Open Scope Z_scope.
Ltac Zify.zify_post_hook ::= Z.to_euclidean_division_equations.

(* ------------------------------------------------------------------ bits *)
Definition bit (b : Z) : Prop := b = 0 \/ b = 1.
Definition bits01 (l : list Z) : Prop := Forall bit l.

Lemma byte_roundtrip : forall l, (length l <= 8)%nat -> bits01 l ->
  bits_of_byte (byte_of_bits l) = l ++ repeat 0 (8 - length l).
Proof.
  intros l Hl Hb. unfold bits01 in Hb.
  do 9 (destruct l as [|? l]; [repeat match goal with
         | H : Forall _ (_ :: _) |- _ => inversion H; clear H; subst
         | H : bit _ |- _ => destruct H; subst
         end; reflexivity|]).
  cbn in Hl. lia.
Qed.

Lemma pack_fuel_nil : forall k, pack_fuel k [] = [].
Proof. destruct k; reflexivity. Qed.

Lemma bits01_firstn : forall n l, bits01 l -> bits01 (firstn n l).
Proof.
  unfold bits01. induction n as [|n IH]; intros l H; [constructor|].
  destruct l as [|a l]; [constructor|]. inversion H; subst. cbn. constructor; auto.
Qed.

Lemma bits01_skipn : forall n l, bits01 l -> bits01 (skipn n l).
Proof.
  unfold bits01. induction n as [|n IH]; intros l H; [exact H|].
  destruct l as [|a l]; [constructor|]. inversion H; subst. cbn. auto.
Qed.

Lemma unpack_app : forall a b, unpack_bits (a ++ b) = unpack_bits a ++ unpack_bits b.
Proof. intros. unfold unpack_bits. apply flat_map_app. Qed.

(* unpacking the packed bits gives the bits back, followed by fewer than 8 zeros *)
Lemma unpack_pack_fuel : forall fuel l, (length l <= fuel)%nat -> bits01 l ->
  exists z, unpack_bits (pack_fuel fuel l) = l ++ repeat 0 z.
Proof.
  induction fuel as [|k IH]; intros l Hl Hb.
  - destruct l; [|cbn in Hl; lia]. exists 0%nat. reflexivity.
  - destruct l as [|a l']; [exists 0%nat; reflexivity|].
    remember (a :: l') as l eqn:El.
    assert (Hp : pack_fuel (S k) l = byte_of_bits (firstn 8 l) :: pack_fuel k (skipn 8 l)).
    { subst l. reflexivity. }
    rewrite Hp. change (unpack_bits (?x :: ?r)) with (bits_of_byte x ++ unpack_bits r).
    destruct (Nat.le_gt_cases 8 (length l)) as [Hge|Hlt].
    + rewrite byte_roundtrip; [|rewrite firstn_length; lia|now apply bits01_firstn].
      rewrite firstn_length. replace (8 - Nat.min 8 (length l))%nat with 0%nat by lia.
      cbn [repeat]. rewrite app_nil_r.
      destruct (IH (skipn 8 l)) as [z Hz]; [rewrite skipn_length; lia|now apply bits01_skipn|].
      exists z. rewrite Hz, app_assoc, firstn_skipn. reflexivity.
    + rewrite (skipn_all2 l) by lia. rewrite pack_fuel_nil. cbn [unpack_bits flat_map].
      rewrite firstn_all2 by lia. rewrite byte_roundtrip; [|lia|exact Hb].
      exists (8 - length l)%nat. now rewrite app_nil_r.
Qed.

Lemma unpack_pack_bits : forall l, bits01 l ->
  exists z, unpack_bits (pack_bits l) = l ++ repeat 0 z.
Proof.
  intros l Hb. unfold pack_bits, pack_bits_nopad, pad_even.
  destruct (unpack_pack_fuel (length l) l (le_n _) Hb) as [z Hz].
  destruct (Nat.even _).
  - exists z. exact Hz.
  - exists (z + 8)%nat. rewrite unpack_app, Hz, <- app_assoc. f_equal.
    rewrite repeat_app. reflexivity.
Qed.

Lemma firstn_app_exact : forall (A : Type) (l r : list A), firstn (length l) (l ++ r) = l.
Proof. intros. rewrite firstn_app, Nat.sub_diag, firstn_all. cbn. apply app_nil_r. Qed.

Lemma skipn_app_exact : forall (A : Type) (l r : list A), skipn (length l) (l ++ r) = r.
Proof. intros. rewrite skipn_app, skipn_all, Nat.sub_diag. reflexivity. Qed.

(* ----------------------------------------------------------------- words *)
Lemma le_bytes_length : forall k v, length (le_bytes k v) = k.
Proof. induction k; intros; cbn; auto. Qed.

Lemma le_word_le_bytes : forall k v, le_word (le_bytes k v) = v mod 256 ^ Z.of_nat k.
Proof.
  induction k as [|k IH]; intros v.
  - cbn. now rewrite Z.mod_1_r.
  - cbn [le_bytes]. unfold le_word in *. cbn [fold_right]. rewrite IH.
    rewrite Nat2Z.inj_succ, Z.pow_succ_r by lia.
    rewrite Z.rem_mul_r by (try lia; apply Z.pow_pos_nonneg; lia). reflexivity.
Qed.

Lemma words_fuel_flat : forall k f fuel, (1 <= k)%nat ->
  (length (flat_map (le_bytes k) f) <= fuel)%nat ->
  words_fuel fuel k (flat_map (le_bytes k) f) = map (fun v => v mod 256 ^ Z.of_nat k) f.
Proof.
  intros k f. induction f as [|a f IH]; intros fuel Hk Hl.
  - destruct fuel; reflexivity.
  - cbn [flat_map map] in *. rewrite app_length, le_bytes_length in Hl.
    destruct fuel as [|n]; [lia|].
    destruct k as [|k']; [lia|].
    remember (S k') as k eqn:Ek.
    assert (Hne : exists x r, le_bytes k a ++ flat_map (le_bytes k) f = x :: r).
    { subst k. cbn. eauto. }
    destruct Hne as (x & r & Hxr).
    cbn [words_fuel]. rewrite Hxr, <- Hxr.
    set (R := flat_map (le_bytes k) f) in *.
    assert (E1 : firstn k (le_bytes k a ++ R) = le_bytes k a).
    { rewrite <- (le_bytes_length k a) at 1. apply firstn_app_exact. }
    assert (E2 : skipn k (le_bytes k a ++ R) = R).
    { rewrite <- (le_bytes_length k a) at 1. apply skipn_app_exact. }
    rewrite E1, E2, le_word_le_bytes. f_equal. apply IH; lia.
Qed.

Lemma words_flat : forall k f, (1 <= k)%nat ->
  words k (flat_map (le_bytes k) f) = map (fun v => v mod 256 ^ Z.of_nat k) f.
Proof. intros. unfold words. now apply words_fuel_flat. Qed.

Lemma length_flat_le_bytes : forall k f, length (flat_map (le_bytes k) f) = (length f * k)%nat.
Proof. induction f as [|a f IH]; cbn; [reflexivity|]. rewrite app_length, le_bytes_length, IH. lia. Qed.

(* a value of the stored range survives word encoding and unused-bit correction *)
Lemma pow256 : forall k, 256 ^ Z.of_nat k = 2 ^ (8 * Z.of_nat k).
Proof. intros. rewrite Z.pow_mul_r by lia. reflexivity. Qed.

Lemma unsigned_fit : forall bs W v, 1 <= bs <= W -> 0 <= v < 2 ^ bs ->
  (v mod 2 ^ W) mod 2 ^ bs = v.
Proof.
  intros bs W v Hb Hv.
  assert (2 ^ bs <= 2 ^ W) by (apply Z.pow_le_mono_r; lia).
  rewrite (Z.mod_small v (2 ^ W)) by lia. apply Z.mod_small. lia.
Qed.

Lemma signed_fit : forall bs W v, 1 <= bs <= W -> - 2 ^ (bs - 1) <= v < 2 ^ (bs - 1) ->
  to_signed bs (v mod 2 ^ W) = v.
Proof.
  intros bs W v Hb Hv. unfold to_signed.
  assert (Hp : 2 ^ bs = 2 * 2 ^ (bs - 1)).
  { replace bs with (Z.succ (bs - 1)) at 1 by lia. rewrite Z.pow_succ_r by lia. reflexivity. }
  assert (Hpos : 0 < 2 ^ (bs - 1)) by (apply Z.pow_pos_nonneg; lia).
  assert (Hdiv : (2 ^ bs | 2 ^ W)).
  { exists (2 ^ (W - bs)). rewrite <- Z.pow_add_r by lia. f_equal. lia. }
  rewrite <- (Zmod_div_mod (2 ^ bs) (2 ^ W) v) by (try exact Hdiv; apply Z.pow_pos_nonneg; lia).
  set (P := 2 ^ (bs - 1)) in *. rewrite Hp.
  destruct (Z_lt_le_dec v 0) as [Hn|Hn].
  - assert (E : v mod (2 * P) = v + 2 * P).
    { symmetry. apply (Z.mod_unique v (2 * P) (-1)); lia. }
    rewrite E. destruct (v + 2 * P <? P) eqn:C; lia.
  - rewrite Z.mod_small by lia. destruct (v <? P) eqn:C; lia.
Qed.

(* ------------------------------------------------------------- min / max *)
Lemma list_min_le : forall l x, In x l -> list_min l <= x.
Proof.
  intros l x Hx. unfold list_min. generalize (hd 0 l). induction l as [|a l IH]; intros d; [destruct Hx|].
  cbn [fold_right]. destruct Hx as [->|Hx]; [lia|]. specialize (IH Hx d). lia.
Qed.

Lemma list_max_ge : forall l x, In x l -> x <= list_max l.
Proof.
  intros l x Hx. unfold list_max. generalize (hd 0 l). induction l as [|a l IH]; intros d; [destruct Hx|].
  cbn [fold_right]. destruct Hx as [->|Hx]; [lia|]. specialize (IH Hx d). lia.
Qed.

(* ------------------------------------------------ facts from the cascade *)
Definition native_ts (p : params) : Prop := p_ts p = TImplicit \/ p_ts p = TExplicit.

Lemma is_native_default : forall p, is_native default_tables p = true <-> native_ts p.
Proof. intros p. unfold is_native, native_ts. destruct (p_ts p); cbn; intuition discriminate. Qed.

Lemma check_common_None : forall T p, check_common T p = None ->
  1 <= p_bstored p <= p_balloc p /\ (p_pixrep p = 0 \/ p_pixrep p = 1) /\ p_pi p <> None
  /\ (p_ndim3 p = true -> p_planar p = Some 0 \/ p_planar p = Some 1).
Proof.
  intros T p H. unfold check_common in H.
  destruct (p_ndim3 p && is_none (p_planar p)) eqn:E1; [discriminate|].
  destruct (p_ndim3 p && negb (optZ_eqb (p_planar p) 0 || optZ_eqb (p_planar p) 1)) eqn:E2; [discriminate|].
  destruct (negb ((p_pixrep p =? 0) || (p_pixrep p =? 1))) eqn:E3; [discriminate|].
  destruct (is_none (p_pi p)) eqn:E4; [discriminate|].
  destruct (negb (mem_ts (p_ts p) (t_uncompressed T) || mem_ts (p_ts p) (t_compressed T))); [discriminate|].
  destruct (negb ((1 <=? p_bstored p) && (p_bstored p <=? p_balloc p))) eqn:E5; [discriminate|].
  repeat split; try lia.
  - destruct (p_pi p); [discriminate|discriminate E4].
  - intros Hn. rewrite Hn in *. unfold optZ_eqb, is_none in *.
    destruct (p_planar p) as [z|]; [|discriminate].
    destruct (z =? 0) eqn:Z0; [left; f_equal; lia|]. destruct (z =? 1) eqn:Z1; [right; f_equal; lia|].
    cbn in E2. discriminate.
Qed.

Lemma check_native_None : forall p, check_native default_tables p = None ->
  (spp p = 1 \/ spp p = 3)
  /\ (spp p = 3 -> p_planar p = Some 0)
  /\ (p_balloc p = 1 -> npix p mod 8 = 0)
  /\ (p_balloc p <> 1 -> p_dsize p * 8 = p_balloc p)
  /\ (spp p = 1 -> pi_in p [MONO1; MONO2; PALETTE] = true)
  /\ (spp p = 3 -> pi_in p [RGB; YBR_FULL] = true).
Proof.
  intros p H. unfold check_native in H.
  destruct ((1 <? spp p) && negb (optZ_eqb (p_planar p) 0)) eqn:E1; [discriminate|].
  cbn [t_native_pis default_tables assocZ] in H.
  destruct (spp p =? 1) eqn:S1.
  - destruct (negb (pi_in p [MONO1; MONO2; PALETTE])) eqn:E2; [discriminate|].
    destruct (p_balloc p =? 1) eqn:B1.
    + destruct (negb (npix p mod 8 =? 0)) eqn:E3; [discriminate|].
      repeat split; intros; try lia. now destruct (pi_in p _).
    + destruct (negb (p_dsize p * 8 =? p_balloc p)) eqn:E3; [discriminate|].
      repeat split; intros; try lia. now destruct (pi_in p _).
  - destruct (spp p =? 3) eqn:S3; [|discriminate].
    assert (Hpl : p_planar p = Some 0).
    { unfold optZ_eqb in E1. destruct (p_planar p) as [z|]; [|replace (1 <? spp p) with true in E1 by lia; discriminate].
      destruct (z =? 0) eqn:Z0; [f_equal; lia|]. replace (1 <? spp p) with true in E1 by lia. discriminate. }
    destruct (negb (pi_in p [RGB; YBR_FULL])) eqn:E2; [discriminate|].
    destruct (p_balloc p =? 1) eqn:B1.
    + destruct (negb (npix p mod 8 =? 0)) eqn:E3; [discriminate|].
      repeat split; intros; try lia; auto. now destruct (pi_in p _).
    + destruct (negb (p_dsize p * 8 =? p_balloc p)) eqn:E3; [discriminate|].
      repeat split; intros; try lia; auto. now destruct (pi_in p _).
Qed.

(* ------------------------------------------------------ native round trip *)
Definition values_fit (p : params) (f : list Z) : Prop :=
  Forall (fun v => if p_pixrep p =? 1
                   then - 2 ^ (p_bstored p - 1) <= v < 2 ^ (p_bstored p - 1)
                   else 0 <= v < 2 ^ p_bstored p) f.

Definition out_shape (p : params) : list Z :=
  if spp p =? 1 then [p_rows p; p_cols p] else [p_rows p; p_cols p; spp p].

Lemma encode_frame_Ok : forall T p f bs, encode_frame T p f = Ok bs ->
  check T p (list_min f) (list_max f) = None /\ bs = encode_native p f.
Proof.
  intros T p f bs H. unfold encode_frame in H.
  destruct (check T p (list_min f) (list_max f)); [discriminate|]. inversion H. auto.
Qed.

Lemma check_None_native : forall p lo hi, native_ts p -> check default_tables p lo hi = None ->
  check_common default_tables p = None /\ check_native default_tables p = None
  /\ (p_balloc p = 1 -> 0 <= lo /\ hi <= 1).
Proof.
  intros p lo hi Hn H. apply is_native_default in Hn.
  unfold check, check_cascade, check_hd, check_hd_content in H. rewrite Hn in H.
  destruct (check_common default_tables p); [discriminate|].
  destruct (check_native default_tables p); [discriminate|].
  split; [reflexivity|]. split; [reflexivity|]. intros B.
  rewrite B, Z.eqb_refl, andb_true_l in H.
  destruct ((0 <=? lo) && (hi <=? 1)) eqn:E; [lia|discriminate].
Qed.

Lemma bits01_of_range : forall f, 0 <= list_min f -> list_max f <= 1 -> bits01 f.
Proof.
  intros f Hlo Hhi. unfold bits01. rewrite Forall_forall. intros x Hx.
  pose proof (list_min_le f x Hx). pose proof (list_max_ge f x Hx). unfold bit. lia.
Qed.

Lemma map_id_on : forall (g : Z -> Z) l, Forall (fun v => g v = v) l -> map g l = l.
Proof. induction l as [|a l IH]; intros H; [reflexivity|]. inversion H; subst. cbn. now rewrite IH by assumption; f_equal. Qed.

Theorem native_roundtrip_partial : forall p f bs,
  native_ts p ->
  encode_frame default_tables p f = Ok bs ->
  Z.of_nat (length f) = npix p ->
  p_dsize p <= 8 ->
  values_fit p f ->
  (spp p = 3 -> p_balloc p <> 1 -> p_pi p <> Some YBR_FULL) ->
  decode_native p 0 bs = Ok (DArr (out_shape p) f).
Proof.
  intros p f bs Hn He Hlen Hds Hfit G51.
  apply encode_frame_Ok in He. destruct He as [Hc ->].
  destruct (check_None_native p _ _ Hn Hc) as (Hcc & Hcn & Hbit).
  destruct (check_common_None _ _ Hcc) as (Hbs & Hpr & Hpi & Hpl).
  destruct (check_native_None _ Hcn) as (Hspp & Hpl3 & Hn8 & Hsz & Hm1 & Hm3).
  unfold decode_native, encode_native.
  destruct (p_balloc p =? 1) eqn:B1.
  - (* bit-packed *)
    assert (B : p_balloc p = 1) by lia. specialize (Hbit B).
    assert (Hb : bits01 f) by (apply bits01_of_range; lia).
    destruct (unpack_pack_bits f Hb) as [z Hz].
    unfold decode_bits. rewrite Hz. rewrite Z.mul_0_l, Zmod_0_l. cbn [Z.to_nat skipn].
    replace (Z.to_nat (p_rows p * p_cols p * spp p)) with (length f) by (unfold npix in Hlen; lia).
    rewrite firstn_app_exact. unfold out_shape, npix in *.
    destruct Hspp as [S1|S3].
    + replace (1 <? spp p) with false by lia.
      replace (Z.of_nat (length f) =? p_rows p * p_cols p) with true by (rewrite S1 in Hlen; lia).
      now replace (spp p =? 1) with true by lia.
    + replace (1 <? spp p) with true by lia.
      replace (Z.of_nat (length f) =? p_rows p * p_cols p * spp p) with true by lia.
      now replace (spp p =? 1) with false by lia.
  - (* words *)
    assert (B : p_balloc p <> 1) by lia. specialize (Hsz B).
    assert (Hd1 : 1 <= p_dsize p) by lia.
    unfold decode_words.
    replace (negb ((1 <=? p_balloc p) && (p_balloc p <=? 64))
             || negb (p_balloc p =? 1) && negb (p_balloc p mod 8 =? 0)) with false by lia.
    replace (negb ((1 <=? p_bstored p) && (p_bstored p <=? p_balloc p))) with false by lia.
    replace (negb ((spp p =? 1) || (spp p =? 3))) with false by lia.
    replace (p_balloc p / 8) with (p_dsize p) by lia.
    set (k := Z.to_nat (p_dsize p)).
    assert (Hk : Z.of_nat k = p_dsize p) by (subst k; lia).
    assert (Hact : Z.of_nat (length (flat_map (le_bytes k) f)) = npix p * p_dsize p).
    { rewrite length_flat_le_bytes. nia. }
    rewrite Hact.
    replace ((npix p * p_dsize p <? npix p * p_dsize p + (npix p * p_dsize p) mod 2)
             && negb (npix p * p_dsize p =? npix p * p_dsize p)) with false by lia.
    replace ((npix p * p_dsize p + (npix p * p_dsize p) mod 2 <? npix p * p_dsize p)
             && (1 <? npix p * p_dsize p / (npix p * p_dsize p))) with false by lia.
    cbn [Z.ltb Z.compare]. rewrite Z.mul_1_r.
    replace (Z.to_nat (npix p * p_dsize p)) with (length (flat_map (le_bytes k) f)) by lia.
    rewrite firstn_all. rewrite words_flat by lia.
    rewrite map_map.
    assert (Hvals : map (fun x => if p_pixrep p =? 1 then to_signed (p_bstored p) (x mod 256 ^ Z.of_nat k)
                                  else (x mod 256 ^ Z.of_nat k) mod 2 ^ p_bstored p) f = f).
    { apply map_id_on. unfold values_fit in Hfit. rewrite Forall_forall in *. intros v Hv.
      specialize (Hfit v Hv). cbv beta in *. rewrite pow256.
      destruct (p_pixrep p =? 1).
      - apply signed_fit; lia.
      - apply unsigned_fit; lia. }
    rewrite Hvals.
    assert (Hy : (spp p =? 3) && pi_is p YBR_FULL = false).
    { destruct (spp p =? 3) eqn:S3; [|reflexivity]. cbn. unfold pi_is.
      specialize (G51 ltac:(lia) B). destruct (p_pi p) as [x|]; [|reflexivity].
      destruct x; try reflexivity. now elim G51. }
    rewrite Hy. unfold out_shape. destruct (spp p =? 1); reflexivity.
Qed.

(* the guard of [native_roundtrip_partial] is needed: witness (open finding D51) *)
Lemma native_roundtrip_refuted_ybr : exists p f bs,
  native_ts p /\ encode_frame default_tables p f = Ok bs /\ Z.of_nat (length f) = npix p
  /\ values_fit p f /\ decode_native p 0 bs = Ok (DColor f).
Proof.
  exists (mkP TExplicit 1 1 true 3 8 8 (Some YBR_FULL) 0 (Some 0) KUInt 1), [0; 5; 10], [0; 5; 10].
  repeat split; try (right; reflexivity). unfold values_fit. repeat constructor; cbn; lia.
Qed.


(* ------------------------------------------- refusal characterisation *)
Theorem refusal_iff : forall T p f e,
  encode_frame T p f = Err e <-> check T p (list_min f) (list_max f) = Some e.
Proof.
  intros. unfold encode_frame. destruct (check T p (list_min f) (list_max f)); split; intros H;
    inversion H; reflexivity || discriminate.
Qed.

Theorem accept_iff : forall T p f,
  (exists bs, encode_frame T p f = Ok bs) <-> accepts T p (list_min f) (list_max f) = true.
Proof.
  intros. unfold encode_frame, accepts. destruct (check T p (list_min f) (list_max f)); cbn; split.
  - intros [bs H]. discriminate. - discriminate. - reflexivity. - eauto.
Qed.

(* what a native syntax accepts, as one explicit conjunction *)
Definition native_spec (p : params) (lo hi : Z) : bool :=
  (negb (p_ndim3 p) || optZ_eqb (p_planar p) 0 || optZ_eqb (p_planar p) 1)
  && ((p_pixrep p =? 0) || (p_pixrep p =? 1))
  && (1 <=? p_bstored p) && (p_bstored p <=? p_balloc p)
  && ((spp p =? 1) && pi_in p [MONO1; MONO2; PALETTE]
      || (spp p =? 3) && pi_in p [RGB; YBR_FULL] && optZ_eqb (p_planar p) 0)
  && (if p_balloc p =? 1 then (npix p mod 8 =? 0) && (0 <=? lo) && (hi <=? 1)
      else p_dsize p * 8 =? p_balloc p).

Theorem native_accepts_iff : forall p lo hi, native_ts p ->
  accepts default_tables p lo hi = native_spec p lo hi.
Proof.
  intros p lo hi Hn. pose proof (proj2 (is_native_default p) Hn) as Hnat.
  assert (Hsup : mem_ts (p_ts p) (t_uncompressed default_tables) = true) by exact Hnat.
  unfold accepts, check, check_cascade, check_encoder, check_hd, check_hd_content, check_common,
    check_native, native_spec. rewrite Hnat, Hsup.
  cbn [t_native_pis default_tables assocZ orb negb].
  unfold pi_in, is_none, optZ_eqb.
  destruct (p_ndim3 p), (p_planar p) as [pl|], (p_pi p) as [pi|]; cbn [andb orb negb];
    try reflexivity;
    repeat (match goal with
            | |- context [if ?c then _ else _] =>
                match type of c with bool => destruct c eqn:? end
            end; cbn [andb orb negb]);
    try reflexivity;
    repeat match goal with
           | H : context [mem_pi ?a ?b] |- _ =>
               let m := fresh "m" in set (m := mem_pi a b) in *; clearbody m; destruct m
           | |- context [mem_pi ?a ?b] =>
               let m := fresh "m" in set (m := mem_pi a b) in *; clearbody m; destruct m
           end; cbn [andb orb negb] in *; try discriminate; try lia.
Qed.

(* ------------------------------ frame [index] of a bit-packed stream *)
Lemma flat_map_firstn_const : forall (A B : Type) (g : A -> list B) c,
  (forall x, length (g x) = c) ->
  forall m l, flat_map g (firstn m l) = firstn (m * c) (flat_map g l).
Proof.
  intros A B g c Hc. induction m as [|m IH]; intros l; [reflexivity|].
  destruct l as [|x l]; [cbn; now rewrite firstn_nil|].
  cbn [firstn flat_map]. rewrite IH. replace (S m * c)%nat with (length (g x) + m * c)%nat by (rewrite Hc; cbn [Nat.mul]; reflexivity).
  rewrite firstn_app_2. reflexivity.
Qed.

Lemma flat_map_skipn_const : forall (A B : Type) (g : A -> list B) c,
  (forall x, length (g x) = c) ->
  forall m l, flat_map g (skipn m l) = skipn (m * c) (flat_map g l).
Proof.
  intros A B g c Hc. induction m as [|m IH]; intros l; [reflexivity|].
  destruct l as [|x l]; [cbn; now rewrite skipn_nil|].
  cbn [skipn flat_map]. rewrite IH. replace (S m * c)%nat with (length (g x) + m * c)%nat by (rewrite Hc; cbn [Nat.mul]; reflexivity).
  rewrite skipn_app, (skipn_all2 (g x)) by apply Nat.le_add_r. cbn [app]. f_equal. rewrite Nat.add_comm. symmetry. apply Nat.add_sub.
Qed.

Lemma bits_of_byte_length : forall b, length (bits_of_byte b) = 8%nat.
Proof. reflexivity. Qed.

Lemma bits01_concat : forall fs, (forall f, In f fs -> bits01 f) -> bits01 (concat fs).
Proof.
  induction fs as [|f fs IH]; intros H; [constructor|].
  cbn. apply Forall_app. split; [apply H; now left|apply IH; intros; apply H; now right].
Qed.

Theorem decode_index_window : forall rows cols frames i,
  1 <= rows -> 1 <= cols ->
  (forall f, In f frames -> Z.of_nat (length f) = rows * cols /\ bits01 f) ->
  (i < length frames)%nat ->
  decode_bits rows cols 1 (Z.of_nat i)
    (frame_bytes (rows * cols) (Z.of_nat i) (pack_bits_nopad (concat frames)))
  = Ok (DArr [rows; cols] (nth i frames [])).
Proof.
  intros rows cols frames i Hr Hc Hf Hi.
  set (N := Z.to_nat (rows * cols)).
  assert (HN : Z.of_nat N = rows * cols) by (subst N; nia).
  assert (Hlen : forall f, In f frames -> length f = N) by (intros f Hin; destruct (Hf f Hin); lia).
  assert (Hb : bits01 (concat frames)) by (apply bits01_concat; intros f Hin; now destruct (Hf f Hin)).
  destruct (unpack_pack_fuel (length (concat frames)) (concat frames) (le_n _) Hb) as [z Hz].
  unfold decode_bits, frame_bytes, pack_bits_nopad. rewrite <- HN.
  set (Sb := pack_fuel (length (concat frames)) (concat frames)) in *.
  set (P := (i * N)%nat).
  assert (HP : Z.of_nat i * Z.of_nat N = Z.of_nat P) by (subst P; lia).
  replace ((Z.of_nat i + 1) * Z.of_nat N) with (Z.of_nat P + Z.of_nat N) by lia.
  replace (Z.of_nat i * (Z.of_nat N * 1)) with (Z.of_nat P) by lia.
  rewrite HP.
  set (a := (P / 8)%nat). set (b := ((P + N + 7) / 8)%nat).
  assert (Ha_Z : Z.of_nat a = Z.of_nat P / 8) by (subst a; apply Nat2Z.inj_div).
  assert (Hb_Z : Z.of_nat b = (Z.of_nat P + Z.of_nat N + 7) / 8).
  { subst b. rewrite Nat2Z.inj_div. f_equal. lia. }
  clearbody a b.
  replace (Z.to_nat (Z.of_nat P / 8)) with a by lia.
  replace (Z.to_nat ((Z.of_nat P + Z.of_nat N + 7) / 8 - Z.of_nat P / 8)) with (b - a)%nat by lia.
  replace (Z.to_nat (Z.of_nat N * 1)) with N by lia.
  replace (Z.to_nat (Z.of_nat P mod 8)) with (P - 8 * a)%nat by lia.
  unfold unpack_bits.
  rewrite (flat_map_firstn_const _ _ bits_of_byte 8%nat bits_of_byte_length).
  rewrite (flat_map_skipn_const _ _ bits_of_byte 8%nat bits_of_byte_length).
  fold (unpack_bits Sb). rewrite Hz.
  assert (Ha : (a * 8 <= P)%nat) by lia.
  assert (Hb' : (P + N <= b * 8)%nat) by lia.
  pose proof (BitWindow.window_inner Z (concat frames ++ repeat 0 z) (a * 8) (b * 8) P N) as W.
  unfold BitWindow.window in W.
  replace ((b - a) * 8)%nat with (b * 8 - a * 8)%nat by lia.
  replace (P - 8 * a)%nat with (P - a * 8)%nat by lia.
  rewrite W by lia.
  subst P. rewrite (BitWindow.concat_frame Z frames N i (repeat 0 z) Hlen Hi).
  assert (Hnth : length (nth i frames []) = N) by (apply Hlen, nth_In, Hi).
  rewrite Hnth. replace (Z.of_nat N =? Z.of_nat N) with true by lia. reflexivity.
Qed.

Lemma check_encoder_native : forall T p lo hi, is_native T p = true -> check_encoder T p lo hi = None.
Proof. intros T p lo hi H. unfold check_encoder. now rewrite H. Qed.

(* which refusals are KeyError: only the allowable_pis lookup of the native branch *)
Theorem native_keyerror_iff : forall p lo hi, native_ts p ->
  (check default_tables p lo hi = Some EK <->
   check_common default_tables p = None
   /\ ((1 <? spp p) && negb (optZ_eqb (p_planar p) 0) = false)
   /\ spp p <> 1 /\ spp p <> 3).
Proof.
  intros p lo hi Hn. pose proof (proj2 (is_native_default p) Hn) as Hnat.
  unfold check. rewrite (check_encoder_native _ _ _ _ Hnat).
  unfold check_cascade, check_hd, check_hd_content. rewrite Hnat.
  destruct (check_common default_tables p) as [e|] eqn:Ec.
  - split; [intros H; inversion H; subst|intros (H & _); discriminate].
    exfalso. unfold check_common in Ec.
    repeat match type of Ec with (if ?c then _ else _) = _ => destruct c; [unfold EV, EK in Ec; discriminate Ec|] end. discriminate.
  - unfold check_native. cbn [t_native_pis default_tables assocZ].
    destruct ((1 <? spp p) && negb (optZ_eqb (p_planar p) 0)) eqn:E1.
    + split; [discriminate|intros (_ & H & _); discriminate].
    + destruct (spp p =? 1) eqn:S1; [|destruct (spp p =? 3) eqn:S3].
      * split; [|intros (_ & _ & H & _); lia].
        repeat match goal with |- context [if ?c then _ else _] =>
                 match type of c with bool => destruct c end end; unfold EV, EK; discriminate.
      * split; [|intros (_ & _ & _ & H); lia].
        repeat match goal with |- context [if ?c then _ else _] =>
                 match type of c with bool => destruct c end end; unfold EV, EK; discriminate.
      * split; [intros _; repeat split; auto; lia|reflexivity].
Qed.

(* -------------------------------- encapsulated syntaxes under codec premises *)
Section Encapsulated.
  Variable codec_encode : params -> list Z -> option (list Z).
  Variable codec_decode : params -> list Z -> res decoded.
  (* K(ts): whatever the validation lets through and the codec does encode, the
     decoder gives back (premise; RLE / JPEG-LS / JPEG 2000 internals).  The
     cells of the open findings are excluded from the premise. *)
  Hypothesis codec_lossless : forall p f bs,
    accepts default_tables p (list_min f) (list_max f) = true -> open_gap p = false ->
    Z.of_nat (length f) = npix p -> values_fit p f ->
    codec_encode p f = Some bs -> codec_decode p bs = Ok (DArr (out_shape p) f).

  Theorem encaps_roundtrip : forall p f bs,
    encode_encaps codec_encode default_tables p f = Ok bs ->
    open_gap p = false -> Z.of_nat (length f) = npix p -> values_fit p f ->
    decode_encaps codec_decode p bs = Ok (DArr (out_shape p) f).
  Proof.
    intros p f bs He Hg Hlen Hfit. unfold encode_encaps in He.
    destruct (check default_tables p (list_min f) (list_max f)) as [e|] eqn:Hc; [discriminate|].
    destruct (codec_encode p f) as [bs'|] eqn:Hce; [|discriminate]. inversion He; subst bs'.
    assert (Hcc : check_common default_tables p = None).
    { unfold check, check_cascade, check_hd in Hc. destruct (check_common default_tables p); [discriminate|reflexivity]. }
    destruct (check_common_None _ _ Hcc) as (_ & _ & _ & Hpl).
    unfold decode_encaps.
    replace ((1 <? spp p) && is_none (p_planar p)) with false.
    - apply codec_lossless; auto. unfold accepts. now rewrite Hc.
    - unfold spp. destruct (p_ndim3 p); [|reflexivity].
      destruct (Hpl eq_refl) as [-> | ->]; cbn; now rewrite andb_false_r.
  Qed.

  (* a refusal never yields bytes *)
  Theorem encaps_refusal : forall T p f e,
    check T p (list_min f) (list_max f) = Some e -> encode_encaps codec_encode T p f = Err e.
  Proof. intros T p f e H. unfold encode_encaps. now rewrite H. Qed.
End Encapsulated.

(* ------------------------------------------------ damaged byte strings *)
(* a byte string shorter than the frame is never decoded to pixels *)
Theorem decode_truncated : forall p value,
  Z.of_nat (length value) < npix p * (p_balloc p / 8) ->
  decode_words p value = Err EV.
Proof.
  intros p value H. unfold decode_words.
  destruct (negb ((1 <=? p_balloc p) && (p_balloc p <=? 64))
            || negb (p_balloc p =? 1) && negb (p_balloc p mod 8 =? 0)); [reflexivity|].
  destruct (negb ((1 <=? p_bstored p) && (p_bstored p <=? p_balloc p))); [reflexivity|].
  destruct (negb ((spp p =? 1) || (spp p =? 3))); [reflexivity|].
  cbv zeta.
  set (e := npix p * (p_balloc p / 8)) in *. set (a := Z.of_nat (length value)) in *.
  replace ((a <? e + e mod 2) && negb (a =? e)) with true by lia. reflexivity.
Qed.

Theorem encode_native_length : forall p f, p_balloc p <> 1 -> 1 <= p_dsize p ->
  Z.of_nat (length (encode_native p f)) = Z.of_nat (length f) * p_dsize p.
Proof.
  intros p f B D. unfold encode_native. replace (p_balloc p =? 1) with false by lia.
  rewrite length_flat_le_bytes. nia.
Qed.
